import Imeta.Go.Basic
import Imeta.Model.Tiff
import Imeta.Lemmas.Tiff
import Imeta.Props.C12
