/-
  imeta-driver: model and spec behind one line protocol.
  One request per line on stdin, one response per line on stdout.
  `bad-op` for anything not understood (the harness treats that as its own bug).
-/
import Imeta.Driver.Tiff
import Imeta.Driver.ImageType
import Imeta.Driver.Enums
import Imeta.Driver.Codec
import Imeta.Driver.Hash
import Imeta.Driver.Jpeg
import Imeta.Driver.Exif
import Imeta.Driver.Png
import Imeta.Driver.Bufio
import Imeta.Driver.Bmff
import Imeta.Driver.Xmp
import Imeta.Driver.Dct
open Imeta

def handlers : List (List String → Option String) :=
  [Tiff.handle, ImageType.handle, EnumsDrv.handle, CodecDrv.handle, HashDrv.handle, JpegDrv.handle, ExifDrv.handle, PngDrv.handle, BufioDrv.handle, BmffDrv.handle, XmpDrv.handle, DctDrv.handle]

def dispatch (line : String) : String :=
  let toks := (line.trimAscii.toString.splitOn " ").filter (· ≠ "")
  match handlers.findSome? (fun h => h toks) with
  | some r => r
  | none => "bad-op"

partial def loop (hin : IO.FS.Stream) (hout : IO.FS.Stream) : IO Unit := do
  let line ← hin.getLine
  if line.isEmpty then
    hout.flush
    return ()
  hout.putStrLn (dispatch line)
  loop hin hout

def main : IO Unit := do
  let hin ← IO.getStdin
  let hout ← IO.getStdout
  loop hin hout
