/-
  C13 — array properties report their items in document order (Lemmas/XmpSeq.lean).
-/
import Imeta.Lemmas.XmpSeq
import Imeta.Props.C13c
namespace Imeta.Props.C13
open Imeta Imeta.Xmp

/-- **Array items in document order.**  Inside rdf:Seq / rdf:Bag / rdf:Alt (`parent`, below the property `parent.parent`) the
items `<rdf:li>v</rdf:li>` — any element name other than the array's own, each behind any run of bytes other than '<' up to
1410 bytes, values without '<' that do not start with white space and are shorter than 1536 bytes — are handed to the
parser layer as exactly one token per item: the array's property, exactly the value, in document order, repeated values
included; exactly the items and the array's stop tag are consumed and the walk ends without error. -/
theorem C13_array_items_in_document_order (parent : Tag) (wsE : Bytes) (n0 : UInt8) (ns name R : Bytes)
    (hwsE : ∀ x ∈ wsE, (x == 60) = false) (hwinE : wsE.length + 128 ≤ W)
    (hnsE : ∀ x ∈ n0 :: ns, (x == 58) = false) (hnameE : ∀ x ∈ name, isTerm x = false) (hfitE : ns.length + name.length + 5 ≤ 128)
    (hself : identify (n0 :: ns) name = parent.self) (l : List (Bytes × Elem)) (f : Nat) (st : St)
    (hr : st.rest = serE l ++ (wsE ++ 60 :: 47 :: ((n0 :: ns) ++ 58 :: (name ++ 62 :: R))))
    (hok : ∀ p ∈ l, (∀ x ∈ p.1, (x == 60) = false) ∧ p.1.length + 128 ≤ W ∧ p.2.Item ∧ (p.2.prop == parent.self) = false) :
    readSeqTags parent (f + 1 + 2 * l.length) st = (.ok (), { rest := R, a := false, toks := pushI parent l st.toks }) :=
  readSeqTags_items_exact parent wsE n0 ns name R hwsE hwinE hnsE hnameE hfitE hself l f st hr hok

/-- **An array property, whole**: `<P> <A> items </A> </P>` with A one of rdf:Seq / rdf:Bag / rdf:Alt, any white space
between the tags.  One round of readTag reports exactly the items (property P, parent A, exactly the values, document
order), consumes exactly the element, and goes on behind it. -/
theorem C13_array_property_exact (parent : Tag) (st : St) (P A : Name) (ws0 ws1 wsE ws2 R : Bytes) (l : List (Bytes × Elem)) (f : Nat)
    (hr : st.rest = ws0 ++ P.openT (ws1 ++ A.openT (serE l ++ (wsE ++ A.closeT (ws2 ++ P.closeT R)))))
    (hP : P.OK) (hA : A.OK)
    (hws0 : ∀ x ∈ ws0, (x == 60) = false) (hwin0 : ws0.length + 128 ≤ W)
    (hws1 : ∀ x ∈ ws1, isWs x = true) (hwin1 : ws1.length < 512)
    (hwsE : ∀ x ∈ wsE, (x == 60) = false) (hwinE : wsE.length + 128 ≤ W)
    (hws2 : ∀ x ∈ ws2, (x == 60) = false) (hwin2 : ws2.length + 128 ≤ W)
    (hPseq : (P.prop == rdfSeq || P.prop == rdfAlt || P.prop == rdfBag) = false) (hProot : (P.prop == rootProp) = false)
    (hAseq : (A.prop == rdfSeq || A.prop == rdfAlt || A.prop == rdfBag) = true)
    (hok : ∀ p ∈ l, (∀ x ∈ p.1, (x == 60) = false) ∧ p.1.length + 128 ≤ W ∧ p.2.Item ∧ (p.2.prop == A.prop) = false) :
    readTag (f + 3 + 2 * l.length) parent st =
      readTag (f + 2 + 2 * l.length) parent
        { rest := R, a := false, toks := pushI { t := .start, parent := P.prop, self := A.prop } l st.toks } :=
  readTag_array_exact parent st P A ws0 ws1 wsE ws2 R l f hr hP hA hws0 hwin0 hws1 hwin1 hwsE hwinE hws2 hwin2 hPseq hProot hAseq hok

/-! non-vacuity: `<dc:subject>\n<rdf:Bag><rdf:li>sea</rdf:li> <rdf:li>sky</rdf:li><rdf:li>sea</rdf:li>\n</rdf:Bag></dc:subject>` -/
def nSubject : Name := { n0 := 100, ns := [99], name := [115, 117, 98, 106, 101, 99, 116] }
def nBag : Name := { n0 := 114, ns := [100, 102], name := [66, 97, 103] }
def liSea : Elem := { n0 := 114, ns := [100, 102], name := [108, 105], c := 115, v' := [101, 97] }
def liSky : Elem := { n0 := 114, ns := [100, 102], name := [108, 105], c := 115, v' := [107, 121] }
example : nSubject.OK ∧ nBag.OK := by
  constructor <;> exact ⟨by decide, by decide, by decide, by decide⟩
example : liSea.Item ∧ liSky.Item := by
  constructor <;> exact ⟨by decide, by decide, by decide, by decide, by decide, by decide, by decide⟩
example : (nSubject.prop == rdfSeq || nSubject.prop == rdfAlt || nSubject.prop == rdfBag) = false ∧ (nSubject.prop == rootProp) = false ∧
    (nBag.prop == rdfSeq || nBag.prop == rdfAlt || nBag.prop == rdfBag) = true ∧ (liSea.prop == nBag.prop) = false := by decide +kernel
example : [] ++ nSubject.openT ([10] ++ nBag.openT (serE [([], liSea), ([32], liSky), ([], liSea)] ++ ([10] ++ nBag.closeT ([] ++ nSubject.closeT [])))) =
    ("<dc:subject>\n<rdf:Bag><rdf:li>sea</rdf:li> <rdf:li>sky</rdf:li><rdf:li>sea</rdf:li>\n</rdf:Bag></dc:subject>").toUTF8.toList := by decide +kernel
/-- the model run on those bytes: three tokens, document order, the repeated item included -/
example : ((readTag 12 descTag { rest := ("<dc:subject>\n<rdf:Bag><rdf:li>sea</rdf:li> <rdf:li>sky</rdf:li><rdf:li>sea</rdf:li>\n</rdf:Bag></dc:subject></rdf:Description>").toUTF8.toList, a := false, toks := [] }).2.toks.reverse.map (fun t => (t.self == nSubject.prop, t.val))) =
    [(true, [115, 101, 97]), (true, [115, 107, 121]), (true, [115, 101, 97])] := by decide +kernel

end Imeta.Props.C13
