/-
  C03 — Exif fields of a well-formed file are extracted with their exact values.

  Property theorems about the reader model (Imeta.Model.Exif / ExifReader, tied to /repo by `vh run C03`,
  which also searches implementation vs an independently written encoder's records).

  What is proved here, for all inputs:  the value-level decoders invert the standard encodings, a directory
  entry decodes to what was encoded (see also C07), and the pending-tag buffer keeps its invariant under every
  sequence of operations (sorted by offset, at most 84 slots, nothing dropped when offsets are distinct).
  Since the third round also the refinement of the streaming reader to a random-access reader at the level of the
  pending queue: `C03_forward_read_exact` (one forward read returns exactly F[off, off+size)) and
  `C03_forward_layout_exact` (whenever the pending value tags are laid out forward without overlap, every read of the
  work loop succeeds and returns exactly its tag's bytes; Lemmas/ExifExact, ExifOne, ExifForward).
  `C03_flat_tiff_exact` carries this from the file bytes on for a flat directory (value tags only, Lemmas/ExifFlat):
  DecodeTiff on a file whose first directory holds value tags in a forward, non-overlapping layout makes only successful
  reads, each equal to F[off, off+size).
  `C03_nested_tiff_exact` adds the pointers to the Exif and GPS directories (each a flat directory): IFD0 + ExifIFD +
  GPSIFD in any forward layout without overlap (Lemmas/ExifNested).
  What is still decided by the search only: sub-IFD lists, maker notes, a second top-level directory (IFD1), and the
  last step from exact value bytes to the record, i.e. the whole-file statement decode(encode(m, L)) = m for every
  layout the generator writes: see `partial` in the evidence.
-/
import Imeta.Lemmas.Exif
import Imeta.Lemmas.ExifForward
import Imeta.Lemmas.ExifFlat
import Imeta.Lemmas.ExifNested
import Imeta.Lemmas.ExifField2
import Imeta.Lemmas.ExifField3
import Imeta.Lemmas.ExifField4
import Imeta.Lemmas.ExifField5
import Imeta.Lemmas.ExifField6
namespace Imeta.Exif
open Imeta

/-! ## value decoders -/

/-- ASCII values: the stored bytes minus the trailing NUL / blank padding, for every string that does not itself end
in a blank — including one-character strings (the pinned tree returned "" for those). -/
theorem C03_ascii_exact (s : Bytes) (k : Nat) (h : ∀ c, s.getLast? = some c → isBlank c = false) :
    trimNUL (s ++ List.replicate k 0) = s := by
  unfold trimNUL
  rw [List.reverse_append, List.reverse_replicate, List.dropWhile_append]
  have h0 : List.dropWhile isBlank (List.replicate k (0 : UInt8)) = [] := by
    induction k with
    | zero => rfl
    | succ n ih => simp [List.replicate_succ, isBlank, ih]
  simp only [h0, List.isEmpty_nil, if_true]
  cases hs : s.reverse with
  | nil => have : s = [] := by simpa using hs
           subst this; rfl
  | cons c t =>
    have hl : s.getLast? = some c := by
      rw [List.getLast?_eq_head?_reverse, hs]; rfl
    have := h c hl
    simp only [List.dropWhile_cons, this, Bool.false_eq_true, if_false]
    rw [← hs, List.reverse_reverse]

/-- a blank-only or empty value is reported as the empty string -/
theorem C03_ascii_blank (k : Nat) : trimNUL (List.replicate k 0) = [] := by
  have := C03_ascii_exact [] k (by simp)
  simpa using this

/-- SubSecTime is a decimal fraction of a second: one, two and three (or more) digits `x y z` give
`x00`, `xy0` and `xyz` milliseconds -/
theorem C03_subsec (x y z : UInt8) (hx : 48 ≤ x.toNat ∧ x.toNat ≤ 57) (hy : 48 ≤ y.toNat ∧ y.toNat ≤ 57)
    (hz : 48 ≤ z.toNat ∧ z.toNat ≤ 57) (rest : Bytes) :
    subSecMillis [x, 0] = (x.toNat - 48) * 100 ∧
    subSecMillis [x, y, 0] = (x.toNat - 48) * 100 + (y.toNat - 48) * 10 ∧
    subSecMillis (x :: y :: z :: rest) = (x.toNat - 48) * 100 + (y.toNat - 48) * 10 + (z.toNat - 48) := by
  refine ⟨?_, ?_, ?_⟩ <;> simp [subSecMillis, subSecDigits, hx, hy, hz]

/-- a LONG value is the offset slot itself; a SHORT value is its first two bytes (see C07 for both byte orders) -/
theorem C03_long_exact (t : Tag) (h : t.typ = tLong) : parseUint32 t = .ok t.off := by
  simp [parseUint32, h]

/-! ## the pending-tag buffer: invariant over every sequence of operations -/

inductive BufOp where
  | add (t : Tag)
  | reset
  | advance

def applyOp (r : R) : BufOp → R
  | .add t => addTag r t
  | .reset => resetPosition r
  | .advance => { r with pos := r.pos + 1 }

/-- **Invariant for every reachable buffer state**: starting from the cleared buffer, after any sequence of
`addTagBuffer` / `resetPosition` / advance operations the pending tags are sorted by value offset — so they are
visited in stream order — and never occupy more than the 84 slots. -/
theorem C03_buffer_invariant (ops : List BufOp) (r : R) (hs : Sorted r.tags) (hl : r.tags.length ≤ tagMaxCount) :
    Sorted (ops.foldl applyOp r).tags ∧ (ops.foldl applyOp r).tags.length ≤ tagMaxCount := by
  induction ops generalizing r with
  | nil => exact ⟨hs, hl⟩
  | cons op rest ih =>
    simp only [List.foldl_cons]
    cases op with
    | add t => have := addTag_inv r t hs hl; exact ih _ this.1 this.2
    | reset => have := resetPosition_inv r hs hl; exact ih _ this.1 this.2
    | advance => exact ih _ hs hl

/-- the cleared buffer satisfies the invariant (non-vacuity of the hypotheses above) -/
example : Sorted ({ rest := [], po := 0, exifLength := 0, buffered := true } : R).tags ∧
    ({ rest := [], po := 0, exifLength := 0, buffered := true } : R).tags.length ≤ tagMaxCount := by
  simp [Sorted, tagMaxCount]

/-- **Nothing is dropped in a forward layout**: a tag whose value lies at or after the reader's position, with an
offset different from every pending one, is queued (the result is a permutation of the old tags plus the new one)
as long as fewer than 84 are pending. -/
theorem C03_add_keeps_all (r : R) (t : Tag) (hs : Sorted r.tags) (hpo : r.po ≤ t.off)
    (hlen : r.tags.length < tagMaxCount) (hne : ∀ x ∈ r.tags, x.off ≠ t.off) :
    (addTag r t).tags.Perm (t :: r.tags) := by
  unfold addTag
  rw [if_neg (by omega), if_pos hlen]
  cases hi : insertFrom t r.tags.length r.tags with
  | some res =>
    obtain ⟨i, _, rfl, _, _⟩ := insertFrom_spec t r.tags hs r.tags.length (Nat.le_refl _) (by simp) res hi
    simp only
    have : (List.take i r.tags ++ t :: List.drop i r.tags).Perm (t :: (List.take i r.tags ++ List.drop i r.tags)) :=
      List.perm_middle
    rwa [List.take_append_drop] at this
  | none =>
    simp only
    cases htags : r.tags with
    | nil => exact List.Perm.refl _
    | cons h tl =>
      simp only
      have hh : h.off ≠ t.off := hne h (by rw [htags]; simp)
      -- `insertFrom` found no smaller offset, so the head is not smaller; being different it is larger
      have hge : ¬ t.off > h.off := by
        intro hgt
        have : insertFrom t r.tags.length r.tags ≠ none := by
          rw [htags]
          clear hi hne hs hlen htags hpo
          generalize tl.length = n
          -- scanning down from any height reaches index 0, where the test succeeds
          have key : ∀ m, m ≤ (h :: tl).length → 0 < m → insertFrom t m (h :: tl) ≠ none := by
            intro m
            induction m with
            | zero => intro _ h0; omega
            | succ k ih =>
              intro hk _
              have hk' : k < (h :: tl).length := by omega
              simp only [insertFrom, List.getElem?_eq_getElem hk']
              split
              · simp
              · by_cases hk0 : k = 0
                · subst hk0; rename_i hle; simp at hle; omega
                · exact ih (by omega) (by omega)
          exact key _ (Nat.le_refl _) (by simp)
        exact this hi
      rw [if_pos (by omega)]

/-! ## the streaming reader reads what a random-access reader would -/

def sampleTb : Tables := { makeOfString := fun _ => none, makeName := fun _ => [], canonModel := fun _ => none, appleModel := fun _ => none }

/-- **One forward read is exact**: with the stream coherent with the file F (`Coh`: the unread bytes are F from the
reader's position on), a tag whose value lies at or after the position, inside F and the Exif length, within the
reader's window (4096 bytes behind a bufio.Reader, 1024 without) is read successfully, the bytes are exactly
F[t.off, t.off+t.size), and the reader stands right after them. -/
theorem C03_forward_read_exact {F : Bytes} {r : R} (h : Coh F r) (t : Tag) (hfw : r.po ≤ t.off) (hF : t.off + t.size ≤ F.length)
    (hx : t.off + t.size ≤ r.exifLength) (hlim : t.size ≤ readLimit r) :
    (readTagValue r t).err = none ∧ (readTagValue r t).buf = slice F t ∧ (readTagValue r t).r.po = t.off + t.size :=
  let h' := readTagValue_exact h t hfw hF hx hlim
  ⟨h'.1, h'.2.1, h'.2.2.1⟩

/-- **Forward layouts are read exactly**: if the pending tags from the current one on are value tags laid out one after
the other without overlap (in queue order), inside the file, the Exif length and the reader's window, and none lies
before the reader's position, then the work loop ends with every read it made successful and equal to the bytes its tag
points at (`Exact`: the ghost record of reads holds `(t, some F[t.off, t.off+t.size))` only), whatever the field parsers
do with them; the stream stays coherent with the file. -/
theorem C03_forward_layout_exact {F : Bytes} {ex0 : Rec} (tb : Tables) (fuel : Nat) (r r' : R) (hc : Coh F r) (he : Exact tb ex0 F r)
    (hlay : (r.tags.drop r.pos).Pairwise (fun a b => a.off + a.size ≤ b.off))
    (hall : ∀ t ∈ r.tags.drop r.pos, t.typ ≠ tIfd ∧ ¬(t.id = 0x014a ∧ t.ifd = ifd0) ∧ t.off + t.size ≤ F.length ∧
      t.off + t.size ≤ r.exifLength ∧ t.size ≤ readLimit r)
    (hpo : ∀ t ∈ r.tags.drop r.pos, r.po ≤ t.off)
    (h : ifdLoop tb fuel r = .ok r') : Coh F r' ∧ Exact tb ex0 F r' :=
  ifdLoop_forward tb fuel r r' hc he (Chain.of_pairwise _ _ hlay hall hpo) h

/-- non-vacuity: a 40-byte file, a fresh reader at position 10 with two pending ASCII tags at 12 (4+... bytes) and 20 -/
example : let F : Bytes := List.replicate 40 65
    let t1 : Tag := { off := 12, count := 6, id := 0x010f, typ := tASCII, ifd := ifd0, idx := 0, order := .little }
    let t2 : Tag := { off := 20, count := 8, id := 0x0110, typ := tASCII, ifd := ifd0, idx := 0, order := .little }
    let r : R := { rest := F.drop 10, po := 10, exifLength := 4096, buffered := true, tags := [t1, t2] }
    Coh F r ∧ Exact sampleTb r.ex F r ∧ (r.tags.drop r.pos).Pairwise (fun a b => a.off + a.size ≤ b.off) ∧
    (∀ t ∈ r.tags.drop r.pos, r.po ≤ t.off ∧ t.off + t.size ≤ F.length ∧ t.size ≤ readLimit r) := by
  refine ⟨⟨rfl, by decide, by decide⟩, ?_, ?_, ?_⟩
  · exact Exact.init _ _ _ rfl rfl
  · decide
  · intro t ht
    simp only [List.drop_zero, List.mem_cons, List.not_mem_nil, or_false] at ht
    rcases ht with rfl | rfl <;> decide

/-- **A flat TIFF in a forward layout is read exactly, from the file bytes on.**  F is the whole file (TIFF header at 0),
its first directory at `h.firstIfd` holds `cnt ≤ 83` entries; `FlatDir` asks that the directory and its next-IFD pointer
lie inside the file and the 4 MiB Exif limit and fit one read window, that every entry the reader decodes is a value tag
(no directory pointer, no sub-IFD list) which is either embedded and gives no parser a reason to read (not ASCII, not
rational) or lies out of line after the directory, inside the file, the limit and the window, that out-of-line values
do not overlap, and that a first directory (IFD0) has no successor.  Then whatever DecodeTiff returns, every read it
made succeeded and returned exactly F[t.off, t.off + t.size) for its tag t, in any entry order (the pending queue sorts
them) and for both byte orders and both reader kinds. -/
theorem C03_flat_tiff_exact (tb : Tables) (F : Bytes) (buffered : Bool) (h : Hdr) (cnt : Nat) (r' : R) (e : Option ErrKind)
    (hsmall : F.length < 2 ^ 32)
    (hd : FlatDir F { off := 0, base := 0, order := h.order, typ := h.firstIfdType, idx := 0 } h.firstIfd cnt (4 * 1024 * 1024)
      (if buffered then bufioSize else scratchSize))
    (hres : decodeTiff tb F buffered h = .ok (r', e)) : Coh F r' ∧ Exact tb { imageType := h.imageType } F r' :=
  decodeTiff_flat tb F buffered h cnt r' e hsmall hd hres

/-! non-vacuity: a 44-byte little-endian TIFF (Orientation embedded, Make "Canon" out of line) meets `FlatDir`, and the
model run on it records exactly one read, of the Make tag, returning the six bytes at offset 38 -/

def sampleF : Bytes :=
  [73, 73, 42, 0, 8, 0, 0, 0,
   2, 0,
   0x12, 0x01, 3, 0, 1, 0, 0, 0, 6, 0, 0, 0,
   0x0f, 0x01, 2, 0, 6, 0, 0, 0, 38, 0, 0, 0,
   0, 0, 0, 0,
   67, 97, 110, 111, 110, 0]
def sampleIfd : Ifd := { off := 0, base := 0, order := .little, typ := ifd0, idx := 0 }
def sT0 : Tag := { off := 6, count := 1, id := 274, typ := 3, ifd := 1, idx := 0, order := .little }
def sT1 : Tag := { off := 38, count := 6, id := 271, typ := 2, ifd := 1, idx := 0, order := .little }
theorem sE0 : entryAt sampleIfd ((sampleF.drop (8 + 2)).take (2 * 12)) 0 = .ok (some sT0) := by decide +kernel
theorem sE1 : entryAt sampleIfd ((sampleF.drop (8 + 2)).take (2 * 12)) 1 = .ok (some sT1) := by decide +kernel

example : FlatDir sampleF sampleIfd 8 2 (4 * 1024 * 1024) bufioSize := by
  have key : ∀ k t, k < 2 → entryAt sampleIfd ((sampleF.drop (8 + 2)).take (2 * 12)) k = .ok (some t) →
      (k = 0 ∧ t = sT0) ∨ (k = 1 ∧ t = sT1) := by
    intro k t hk h
    have : k = 0 ∨ k = 1 := by omega
    rcases this with rfl | rfl
    · rw [sE0] at h; simp only [Outcome.ok.injEq, Option.some.injEq] at h; exact Or.inl ⟨rfl, h.symm⟩
    · rw [sE1] at h; simp only [Outcome.ok.injEq, Option.some.injEq] at h; exact Or.inr ⟨rfl, h.symm⟩
  refine ⟨by decide, by decide, by decide +kernel, by decide, by decide, ?_, ?_, fun _ => by decide +kernel⟩
  · intro k t hk h
    rcases key k t hk h with ⟨_, rfl⟩ | ⟨_, rfl⟩
    · refine ⟨by decide, by decide, fun _ => ?_, fun hf => by simp [sT0, Tag.isEmbedded, Tag.size, typeSize, tIfd] at hf⟩
      unfold Reads; decide
    · refine ⟨by decide, by decide, fun hf => by simp [sT1, Tag.isEmbedded, Tag.size, typeSize, tASCII] at hf, fun _ => by decide⟩
  · intro k k' t t' hk hk' hne h h' ho ho'
    rcases key k t hk h with ⟨rfl, rfl⟩ | ⟨rfl, rfl⟩
    · simp [sT0, Tag.isEmbedded, Tag.size, typeSize, tIfd] at ho
    · rcases key k' t' hk' h' with ⟨rfl, rfl⟩ | ⟨rfl, rfl⟩
      · simp [sT0, Tag.isEmbedded, Tag.size, typeSize, tIfd] at ho'
      · exact absurd rfl hne

def readsOf : Outcome (R × Option ErrKind) → List (Tag × Option Bytes)
  | .ok (r, _) => r.reads
  | _ => []
/-- the model run on the sample file: one read, of the Make tag, with the six bytes "Canon\0" at offset 38 -/
example : readsOf (decodeTiff sampleTb sampleF true { order := .little, firstIfd := 8, firstIfdType := ifd0, exifLength := 0, imageType := 0 })
    = [(sT1, some [67, 97, 110, 111, 110, 0])] := by decide +kernel

/-- **IFD0 with Exif and GPS directories, forward layout, read exactly from the file bytes on.**  `W` names the tags of
the layout: the out-of-line entries of IFD0 and those of the directories its pointers lead to.  `World` asks of each:
a value tag lies inside the file, the 4 MiB limit and the read window; a pointer (0x8769 / 0x8825 in IFD0) leads to a
`FlatDir`; the extents of any two different tags (a value's bytes, a pointer's directory) do not overlap; at most one
pointer of each kind; the children of a pointer belong to W; at most 83 tags are pending at once.  `DirOK` is the same for
IFD0 itself; IFD0 may have a successor (IFD1, the thumbnail directory of a camera file): its next-directory pointer is
either 0 or lies after IFD0 and away from every pending value (`IsStubEntry`, `IsStub`) — the reader queues it, seeks
to it and reads nothing of it.  Then every read DecodeTiff makes — in IFD0, the Exif and the GPS directory, in whatever order the offsets
put them — succeeds and returns exactly F[t.off, t.off + t.size). -/
theorem C03_nested_tiff_exact (tb : Tables) (F : Bytes) (buffered : Bool) (h : Hdr) (cnt : Nat) (r' : R) (e : Option ErrKind)
    (W : Tag → Prop) (hsmall : F.length < 2 ^ 32)
    (w : World F (4 * 1024 * 1024) (if buffered then bufioSize else scratchSize) W)
    (hroot : DirOK F { off := 0, base := 0, order := h.order, typ := h.firstIfdType, idx := 0 } h.firstIfd cnt (4 * 1024 * 1024)
      (if buffered then bufioSize else scratchSize) (extent F))
    (hrootW : ∀ x, IsEntry F { off := 0, base := 0, order := h.order, typ := h.firstIfdType, idx := 0 } h.firstIfd cnt x ∨
      IsStubEntry F { off := 0, base := 0, order := h.order, typ := h.firstIfdType, idx := 0 } h.firstIfd cnt x → W x)
    (hres : decodeTiff tb F buffered h = .ok (r', e)) : Coh F r' ∧ Exact tb { imageType := h.imageType } F r' :=
  let hn := decodeTiff_nested tb F buffered h cnt r' e W hsmall w hroot hrootW hres
  ⟨hn.1, hn.2.1⟩

/-! non-vacuity: a 70-byte TIFF — IFD0 {Make "Canon" at 38, Exif pointer to 44}, Exif directory at 44 {LensModel "RF 50mm"
at 62} — meets `World` and `DirOK`, and the model run on it makes exactly the two reads, in file order -/

def nF : Bytes :=
  [73, 73, 42, 0, 8, 0, 0, 0,
   2, 0,
   0x0f, 0x01, 2, 0, 6, 0, 0, 0, 38, 0, 0, 0,
   0x69, 0x87, 4, 0, 1, 0, 0, 0, 44, 0, 0, 0,
   0, 0, 0, 0,
   67, 97, 110, 111, 110, 0,
   1, 0,
   0x34, 0xa4, 2, 0, 8, 0, 0, 0, 62, 0, 0, 0,
   0, 0, 0, 0,
   82, 70, 32, 53, 48, 109, 109, 0]
def nM : Tag := { off := 38, count := 6, id := 271, typ := 2, ifd := 1, idx := 0, order := .little }
def nP : Tag := { off := 44, count := 1, id := 0x8769, typ := tIfd, ifd := 1, idx := 0, order := .little }
def nL : Tag := { off := 62, count := 8, id := 42036, typ := 2, ifd := 3, idx := 0, order := .little }
theorem nE0 : entryAt sampleIfd ((nF.drop (8 + 2)).take (2 * 12)) 0 = .ok (some nM) := by decide +kernel
theorem nE1 : entryAt sampleIfd ((nF.drop (8 + 2)).take (2 * 12)) 1 = .ok (some nP) := by decide +kernel
theorem nPc : ptrCount nF nP = 1 := by decide +kernel
theorem nC0 : entryAt nP.childIfd ((nF.drop (44 + 2)).take (1 * 12)) 0 = .ok (some nL) := by decide +kernel
theorem nExtP : extent nF nP = 18 := by rw [extent_ptr nF nP rfl, nPc]
theorem nExtM : extent nF nM = 6 := by decide +kernel
theorem nExtL : extent nF nL = 8 := by decide +kernel

theorem nRootEntries : ∀ k t, k < 2 → entryAt sampleIfd ((nF.drop (8 + 2)).take (2 * 12)) k = .ok (some t) → t = nM ∨ t = nP := by
  intro k t hk h
  have : k = 0 ∨ k = 1 := by omega
  rcases this with rfl | rfl
  · rw [nE0] at h; simp only [Outcome.ok.injEq, Option.some.injEq] at h; exact Or.inl h.symm
  · rw [nE1] at h; simp only [Outcome.ok.injEq, Option.some.injEq] at h; exact Or.inr h.symm

theorem nChildEntries : ∀ c, IsEntry nF nP.childIfd nP.off (ptrCount nF nP) c → c = nL := by
  intro c hc
  obtain ⟨k, hk, he, _⟩ := hc
  rw [nPc] at hk he
  have : k = 0 := by omega
  subst this
  have h0 := nC0
  rw [show nP.off = 44 from rfl] at he
  rw [h0] at he; simp only [Outcome.ok.injEq, Option.some.injEq] at he; exact he.symm

theorem nFlat : FlatDir nF nP.childIfd nP.off (ptrCount nF nP) (4 * 1024 * 1024) bufioSize := by
  rw [nPc]
  have key : ∀ k t, k < 1 → entryAt nP.childIfd ((nF.drop (nP.off + 2)).take (1 * 12)) k = .ok (some t) → t = nL := by
    intro k t hk h
    have : k = 0 := by omega
    subst this
    rw [show nP.off = 44 from rfl, nC0] at h; simp only [Outcome.ok.injEq, Option.some.injEq] at h; exact h.symm
  refine ⟨by decide, by decide, by decide +kernel, by decide, by decide, ?_, ?_, fun h => by cases h⟩
  · intro k t hk h
    rw [key k t hk h]
    exact ⟨by decide, by decide, fun hf => by simp [nL, Tag.isEmbedded, Tag.size, typeSize] at hf, fun _ => by decide⟩
  · intro k k' t t' hk hk' hne
    omega

theorem nWorld : World nF (4 * 1024 * 1024) bufioSize (fun x => x ∈ [nM, nP, nL]) := by
  have hmem : ∀ x, x ∈ [nM, nP, nL] → x = nM ∨ x = nP ∨ x = nL := by intro x hx; simpa using hx
  have hpos : ∀ x, x ∈ [nM, nP, nL] → 0 < extent nF x := by
    intro x hx
    rcases hmem x hx with rfl | rfl | rfl
    · rw [nExtM]; decide
    · rw [nExtP]; decide
    · rw [nExtL]; decide
  refine ⟨?_, ?_, ?_, ?_, cap_of_list nF [nM, nP, nL] (by decide) _ (fun x hx => hx) hpos⟩
  · intro x hx
    rcases hmem x hx with rfl | rfl | rfl
    · exact Or.inl ⟨by decide, by decide, by decide, by decide, by decide, by decide⟩
    · exact Or.inr (Or.inl ⟨⟨rfl, rfl, Or.inr rfl⟩, nFlat⟩)
    · exact Or.inl ⟨by decide, by decide, by decide, by decide, by decide, by decide⟩
  · intro x y hx hy hne
    unfold DisjS
    rcases hmem x hx with rfl | rfl | rfl <;> rcases hmem y hy with rfl | rfl | rfl <;>
      first
      | exact absurd rfl hne
      | (simp only [nExtM, nExtP, nExtL]; decide)
  · intro p hp hip c hc
    rcases hmem p hp with rfl | rfl | rfl
    · exact absurd hip.1 (by decide)
    · rw [nChildEntries c hc]; simp
    · exact absurd hip.1 (by decide)
  · intro p q hp hq hip hiq _
    have hpP : p = nP := by
      rcases hmem p hp with rfl | rfl | rfl
      · exact absurd hip.1 (by decide)
      · rfl
      · exact absurd hip.1 (by decide)
    have hqP : q = nP := by
      rcases hmem q hq with rfl | rfl | rfl
      · exact absurd hiq.1 (by decide)
      · rfl
      · exact absurd hiq.1 (by decide)
    rw [hpP, hqP]

theorem nRootOK : DirOK nF sampleIfd 8 2 (4 * 1024 * 1024) bufioSize (extent nF) := by
  refine ⟨by decide, by decide, by decide +kernel, by decide, by decide, ?_, ?_, fun _ => ⟨0, by decide +kernel, Or.inl rfl⟩⟩
  · intro k t hk h
    rcases nRootEntries k t hk h with rfl | rfl
    · exact ⟨fun hf => by simp [nM, Tag.isEmbedded, Tag.size, typeSize] at hf, fun _ => ⟨by decide, by rw [nExtM]; decide⟩⟩
    · exact ⟨fun hf => by simp [nP, Tag.isEmbedded, tIfd] at hf, fun _ => ⟨by decide, by rw [nExtP]; decide⟩⟩
  · intro k k' t t' hk hk' hne h h' _ _
    have hk2 : (k = 0 ∧ k' = 1) ∨ (k = 1 ∧ k' = 0) := by omega
    unfold DisjS
    rcases hk2 with ⟨rfl, rfl⟩ | ⟨rfl, rfl⟩
    · rw [nE0] at h; rw [nE1] at h'
      simp only [Outcome.ok.injEq, Option.some.injEq] at h h'
      rw [← h, ← h', nExtM, nExtP]; decide
    · rw [nE1] at h; rw [nE0] at h'
      simp only [Outcome.ok.injEq, Option.some.injEq] at h h'
      rw [← h, ← h', nExtM, nExtP]; decide

theorem nRootW : ∀ x, IsEntry nF sampleIfd 8 2 x ∨ IsStubEntry nF sampleIfd 8 2 x → x ∈ [nM, nP, nL] := by
  intro x hx
  rcases hx with ⟨k, hk, he, _⟩ | ⟨_, nx, hnz, hu, _⟩
  · rcases nRootEntries k x hk he with rfl | rfl <;> simp
  · have h0 : u32 sampleIfd.order ((nF.drop (8 + 2 + 12 * 2)).take 4) = .ok 0 := by decide +kernel
    rw [h0] at hu
    simp only [Outcome.ok.injEq] at hu
    exact absurd hu.symm hnz

/-- the sample meets every hypothesis of `C03_nested_tiff_exact` -/
example : World nF (4 * 1024 * 1024) bufioSize (fun x => x ∈ [nM, nP, nL]) ∧
    DirOK nF sampleIfd 8 2 (4 * 1024 * 1024) bufioSize (extent nF) ∧
    (∀ x, IsEntry nF sampleIfd 8 2 x ∨ IsStubEntry nF sampleIfd 8 2 x → x ∈ [nM, nP, nL]) := ⟨nWorld, nRootOK, nRootW⟩

/-- and the model run on it makes exactly two reads, Make then LensModel, each with the bytes at its offset -/
example : readsOf (decodeTiff sampleTb nF true { order := .little, firstIfd := 8, firstIfdType := ifd0, exifLength := 0, imageType := 0 })
    = [(nM, some [67, 97, 110, 111, 110, 0]), (nL, some [82, 70, 32, 53, 48, 109, 109, 0])] := by decide +kernel

/-! non-vacuity of the IFD1 case: a 38-byte TIFF whose IFD0 {Make "Canon" at 26} has a successor directory (IFD1, empty)
at 32.  The reader queues a pointer for IFD1 and only seeks to it; the layout admits that pointer (`IsStub`). -/

def jF : Bytes :=
  [73, 73, 42, 0, 8, 0, 0, 0,
   1, 0,
   0x0f, 0x01, 2, 0, 6, 0, 0, 0, 26, 0, 0, 0,
   32, 0, 0, 0,
   67, 97, 110, 111, 110, 0,
   0, 0, 0, 0, 0, 0]
def jM : Tag := { off := 26, count := 6, id := 271, typ := 2, ifd := 1, idx := 0, order := .little }
def jS : Tag := stubOf sampleIfd 32
theorem jE0 : entryAt sampleIfd ((jF.drop (8 + 2)).take (1 * 12)) 0 = .ok (some jM) := by decide +kernel
theorem jNext : u32 sampleIfd.order ((jF.drop (8 + 2 + 12 * 1)).take 4) = .ok 32 := by decide +kernel
theorem jExtM : extent jF jM = 6 := by decide +kernel
theorem jExtS : extent jF jS = 6 := by decide +kernel

theorem jRootEntries : ∀ k t, k < 1 → entryAt sampleIfd ((jF.drop (8 + 2)).take (1 * 12)) k = .ok (some t) → t = jM := by
  intro k t hk h
  have : k = 0 := by omega
  subst this
  rw [jE0] at h; simp only [Outcome.ok.injEq, Option.some.injEq] at h; exact h.symm

theorem jWorld : World jF (4 * 1024 * 1024) bufioSize (fun x => x ∈ [jM, jS]) := by
  have hmem : ∀ x, x ∈ [jM, jS] → x = jM ∨ x = jS := by intro x hx; simpa using hx
  have hpos : ∀ x, x ∈ [jM, jS] → 0 < extent jF x := by
    intro x hx
    rcases hmem x hx with rfl | rfl
    · rw [jExtM]; decide
    · rw [jExtS]; decide
  refine ⟨?_, ?_, ?_, ?_, cap_of_list jF [jM, jS] (by decide) _ (fun x hx => hx) hpos⟩
  · intro x hx
    rcases hmem x hx with rfl | rfl
    · exact Or.inl ⟨by decide, by decide, by decide, by decide, by decide, by decide⟩
    · exact Or.inr (Or.inr ⟨⟨rfl, rfl, rfl⟩, by decide, by decide⟩)
  · intro x y hx hy hne
    unfold DisjS
    rcases hmem x hx with rfl | rfl <;> rcases hmem y hy with rfl | rfl <;>
      first
      | exact absurd rfl hne
      | (simp only [jExtM, jExtS]; decide)
  · intro p hp hip c hc
    rcases hmem p hp with rfl | rfl
    · exact absurd hip.1 (by decide)
    · exact absurd hip.2.2 (by decide)
  · intro p q hp hq hip hiq _
    rcases hmem p hp with rfl | rfl
    · exact absurd hip.1 (by decide)
    · exact absurd hip.2.2 (by decide)

theorem jRootOK : DirOK jF sampleIfd 8 1 (4 * 1024 * 1024) bufioSize (extent jF) := by
  refine ⟨by decide, by decide, by decide +kernel, by decide, by decide, ?_, ?_, fun _ => ⟨32, jNext, Or.inr ⟨by decide, ?_, ?_⟩⟩⟩
  · intro k t hk h
    rw [jRootEntries k t hk h]
    exact ⟨fun hf => by simp [jM, Tag.isEmbedded, Tag.size, typeSize] at hf, fun _ => ⟨by decide, by rw [jExtM]; decide⟩⟩
  · intro k k' t t' hk hk' hne
    omega
  · show 0 < extent jF jS
    rw [jExtS]; decide
  · intro k t hk h _
    rw [jRootEntries k t hk h]
    show DisjS (extent jF) jS jM
    unfold DisjS
    rw [jExtM, jExtS]; decide

theorem jRootW : ∀ x, IsEntry jF sampleIfd 8 1 x ∨ IsStubEntry jF sampleIfd 8 1 x → x ∈ [jM, jS] := by
  intro x hx
  rcases hx with ⟨k, hk, he, _⟩ | ⟨_, nx, _, hu, rfl⟩
  · rw [jRootEntries k x hk he]; simp
  · rw [jNext] at hu
    simp only [Outcome.ok.injEq] at hu
    rw [← hu]; simp [jS]

/-- the IFD1 sample meets every hypothesis of `C03_nested_tiff_exact`, with a non-zero next-directory pointer -/
example : World jF (4 * 1024 * 1024) bufioSize (fun x => x ∈ [jM, jS]) ∧
    DirOK jF sampleIfd 8 1 (4 * 1024 * 1024) bufioSize (extent jF) ∧
    (∀ x, IsEntry jF sampleIfd 8 1 x ∨ IsStubEntry jF sampleIfd 8 1 x → x ∈ [jM, jS]) ∧
    IsStubEntry jF sampleIfd 8 1 jS := ⟨jWorld, jRootOK, jRootW, rfl, 32, by decide, jNext, rfl⟩

/-- and the model run on it makes exactly one read (Make); IFD1 is sought to, nothing of it is read -/
example : readsOf (decodeTiff sampleTb jF true { order := .little, firstIfd := 8, firstIfdType := ifd0, exifLength := 0, imageType := 0 })
    = [(jM, some [67, 97, 110, 111, 110, 0])] := by decide +kernel

/-- **Streaming = random access (the refinement).**  `parseTagV` is the field-parser layer written as a pure function of
the record so far, the tag and the bytes of its value (generated from the model's own parsers and proved equal to them,
Lemmas/ExifValue); `idealRun tb F ex0 ts` applies it to a list of tags, handing each tag exactly F[t.off, t.off+t.size).
For IFD0 + Exif + GPS directories in a forward layout (hypotheses of `C03_nested_tiff_exact`): the record DecodeTiff ends
with is the record this random-access decoder computes from the tags the streaming reader parsed, in the order it parsed
them (`r'.parsed`, a ghost record: embedded entries as the directory is read, out-of-line values in file order) — the
forward-only, windowed, queue-driven reading changes nothing about which bytes a field is made from. -/
theorem C03_streaming_equals_random_access (tb : Tables) (F : Bytes) (buffered : Bool) (h : Hdr) (cnt : Nat) (r' : R) (e : Option ErrKind)
    (W : Tag → Prop) (hsmall : F.length < 2 ^ 32)
    (w : World F (4 * 1024 * 1024) (if buffered then bufioSize else scratchSize) W)
    (hroot : DirOK F { off := 0, base := 0, order := h.order, typ := h.firstIfdType, idx := 0 } h.firstIfd cnt (4 * 1024 * 1024)
      (if buffered then bufioSize else scratchSize) (extent F))
    (hrootW : ∀ x, IsEntry F { off := 0, base := 0, order := h.order, typ := h.firstIfdType, idx := 0 } h.firstIfd cnt x ∨
      IsStubEntry F { off := 0, base := 0, order := h.order, typ := h.firstIfdType, idx := 0 } h.firstIfd cnt x → W x)
    (hres : decodeTiff tb F buffered h = .ok (r', e)) :
    idealRun tb F { imageType := h.imageType } r'.parsed = .ok r'.ex :=
  (decodeTiff_nested tb F buffered h cnt r' e W hsmall w hroot hrootW hres).2.1.ref

/-- the streaming parser of one tag is the pure function of its one read (for every reader state) -/
theorem C03_parser_is_function_of_its_read (tb : Tables) (r : R) (t : Tag) :
    omap (fun r' => r'.ex) (parseTag tb r t) = parseTagV tb r.ex t (readTagValue r t).buf (readTagValue r t).err :=
  ValO.parseTag tb r t

/-- on the sample: the reader parsed Make then LensModel, and the random-access decoder on those two tags gives the
record with make = "Canon" and lensModel = "RF 50mm" -/
def parsedOf : Outcome (R × Option ErrKind) → List Tag
  | .ok (r, _) => r.parsed
  | _ => []
example : parsedOf (decodeTiff sampleTb nF true { order := .little, firstIfd := 8, firstIfdType := ifd0, exifLength := 0, imageType := 0 }) = [nM, nL] := by
  decide +kernel
example : (match idealRun sampleTb nF {} [nM, nL] with | .ok ex => (ex.make, ex.lensModel) | _ => ([], [])) =
    ([67, 97, 110, 111, 110], [82, 70, 32, 53, 48, 109, 109]) := by decide +kernel

/-- **A field, end to end (IFD0): Software.**  Under the hypotheses of `C03_nested_tiff_exact`, if a is the last Software
tag (IFD0, 0x0131) the reader parsed, ASCII and out of line, then the Software field DecodeTiff returns is exactly the bytes
F[a.off, a.off + a.size) minus trailing NUL / blank padding — by `C03_ascii_exact` the string that was encoded. -/
theorem C03_software_end_to_end (tb : Tables) (F : Bytes) (buffered : Bool) (h : Hdr) (cnt : Nat) (r' : R) (e : Option ErrKind)
    (W : Tag → Prop) (hsmall : F.length < 2 ^ 32)
    (w : World F (4 * 1024 * 1024) (if buffered then bufioSize else scratchSize) W)
    (hroot : DirOK F { off := 0, base := 0, order := h.order, typ := h.firstIfdType, idx := 0 } h.firstIfd cnt (4 * 1024 * 1024)
      (if buffered then bufioSize else scratchSize) (extent F))
    (hrootW : ∀ x, IsEntry F { off := 0, base := 0, order := h.order, typ := h.firstIfdType, idx := 0 } h.firstIfd cnt x ∨
      IsStubEntry F { off := 0, base := 0, order := h.order, typ := h.firstIfdType, idx := 0 } h.firstIfd cnt x → W x)
    (hres : decodeTiff tb F buffered h = .ok (r', e))
    (pre post : List Tag) (a : Tag) (hsplit : r'.parsed = pre ++ a :: post) (h0 : a.ifd = ifd0) (hid : a.id = 0x0131)
    (hemb : a.isEmbedded = false) (hasc : isASCII a = true) (hpost : ∀ t ∈ post, ¬(t.ifd = ifd0 ∧ t.id = 0x0131)) :
    r'.ex.software = trimNUL (slice F a) :=
  software_exact (decodeTiff_nested tb F buffered h cnt r' e W hsmall w hroot hrootW hres).2.1 pre post a hsplit h0 hid hemb hasc hpost

/-- **A field, end to end (Exif directory): LensModel** (ExifIFD, 0xa434), reached through the pointer in IFD0 -/
theorem C03_lensModel_end_to_end (tb : Tables) (F : Bytes) (buffered : Bool) (h : Hdr) (cnt : Nat) (r' : R) (e : Option ErrKind)
    (W : Tag → Prop) (hsmall : F.length < 2 ^ 32)
    (w : World F (4 * 1024 * 1024) (if buffered then bufioSize else scratchSize) W)
    (hroot : DirOK F { off := 0, base := 0, order := h.order, typ := h.firstIfdType, idx := 0 } h.firstIfd cnt (4 * 1024 * 1024)
      (if buffered then bufioSize else scratchSize) (extent F))
    (hrootW : ∀ x, IsEntry F { off := 0, base := 0, order := h.order, typ := h.firstIfdType, idx := 0 } h.firstIfd cnt x ∨
      IsStubEntry F { off := 0, base := 0, order := h.order, typ := h.firstIfdType, idx := 0 } h.firstIfd cnt x → W x)
    (hres : decodeTiff tb F buffered h = .ok (r', e))
    (pre post : List Tag) (a : Tag) (hsplit : r'.parsed = pre ++ a :: post) (h0 : a.ifd = exifIFD) (hid : a.id = 0xa434)
    (hemb : a.isEmbedded = false) (hasc : isASCII a = true) (hpost : ∀ t ∈ post, ¬(t.ifd = exifIFD ∧ t.id = 0xa434)) :
    r'.ex.lensModel = trimNUL (slice F a) :=
  lensModel_exact (decodeTiff_nested tb F buffered h cnt r' e W hsmall w hroot hrootW hres).2.1 pre post a hsplit h0 hid hemb hasc hpost

/-- **A field, end to end: Copyright (IFD0, 0x8298)** — the same statement as for Software / LensModel -/
theorem C03_copyright_end_to_end (tb : Tables) (F : Bytes) (buffered : Bool) (h : Hdr) (cnt : Nat) (r' : R) (e : Option ErrKind)
    (W : Tag → Prop) (hsmall : F.length < 2 ^ 32)
    (w : World F (4 * 1024 * 1024) (if buffered then bufioSize else scratchSize) W)
    (hroot : DirOK F { off := 0, base := 0, order := h.order, typ := h.firstIfdType, idx := 0 } h.firstIfd cnt (4 * 1024 * 1024)
      (if buffered then bufioSize else scratchSize) (extent F))
    (hrootW : ∀ x, IsEntry F { off := 0, base := 0, order := h.order, typ := h.firstIfdType, idx := 0 } h.firstIfd cnt x ∨
      IsStubEntry F { off := 0, base := 0, order := h.order, typ := h.firstIfdType, idx := 0 } h.firstIfd cnt x → W x)
    (hres : decodeTiff tb F buffered h = .ok (r', e))
    (pre post : List Tag) (a : Tag) (hsplit : r'.parsed = pre ++ a :: post) (h0 : a.ifd = ifd0) (hid : a.id = 0x8298)
    (hemb : a.isEmbedded = false) (hasc : isASCII a = true) (hpost : ∀ t ∈ post, ¬(t.ifd = ifd0 ∧ t.id = 0x8298)) :
    r'.ex.copyright = trimNUL (slice F a) :=
  copyright_exact (decodeTiff_nested tb F buffered h cnt r' e W hsmall w hroot hrootW hres).2.1 pre post a hsplit h0 hid hemb hasc hpost

/-- **A field, end to end: ImageDescription (IFD0, 0x010e)** — the same statement as for Software / LensModel -/
theorem C03_description_end_to_end (tb : Tables) (F : Bytes) (buffered : Bool) (h : Hdr) (cnt : Nat) (r' : R) (e : Option ErrKind)
    (W : Tag → Prop) (hsmall : F.length < 2 ^ 32)
    (w : World F (4 * 1024 * 1024) (if buffered then bufioSize else scratchSize) W)
    (hroot : DirOK F { off := 0, base := 0, order := h.order, typ := h.firstIfdType, idx := 0 } h.firstIfd cnt (4 * 1024 * 1024)
      (if buffered then bufioSize else scratchSize) (extent F))
    (hrootW : ∀ x, IsEntry F { off := 0, base := 0, order := h.order, typ := h.firstIfdType, idx := 0 } h.firstIfd cnt x ∨
      IsStubEntry F { off := 0, base := 0, order := h.order, typ := h.firstIfdType, idx := 0 } h.firstIfd cnt x → W x)
    (hres : decodeTiff tb F buffered h = .ok (r', e))
    (pre post : List Tag) (a : Tag) (hsplit : r'.parsed = pre ++ a :: post) (h0 : a.ifd = ifd0) (hid : a.id = 0x010e)
    (hemb : a.isEmbedded = false) (hasc : isASCII a = true) (hpost : ∀ t ∈ post, ¬(t.ifd = ifd0 ∧ t.id = 0x010e)) :
    r'.ex.description = trimNUL (slice F a) :=
  description_exact (decodeTiff_nested tb F buffered h cnt r' e W hsmall w hroot hrootW hres).2.1 pre post a hsplit h0 hid hemb hasc hpost

/-- **A field, end to end: LensMake (ExifIFD, 0xa433)** — the same statement as for Software / LensModel -/
theorem C03_lensMake_end_to_end (tb : Tables) (F : Bytes) (buffered : Bool) (h : Hdr) (cnt : Nat) (r' : R) (e : Option ErrKind)
    (W : Tag → Prop) (hsmall : F.length < 2 ^ 32)
    (w : World F (4 * 1024 * 1024) (if buffered then bufioSize else scratchSize) W)
    (hroot : DirOK F { off := 0, base := 0, order := h.order, typ := h.firstIfdType, idx := 0 } h.firstIfd cnt (4 * 1024 * 1024)
      (if buffered then bufioSize else scratchSize) (extent F))
    (hrootW : ∀ x, IsEntry F { off := 0, base := 0, order := h.order, typ := h.firstIfdType, idx := 0 } h.firstIfd cnt x ∨
      IsStubEntry F { off := 0, base := 0, order := h.order, typ := h.firstIfdType, idx := 0 } h.firstIfd cnt x → W x)
    (hres : decodeTiff tb F buffered h = .ok (r', e))
    (pre post : List Tag) (a : Tag) (hsplit : r'.parsed = pre ++ a :: post) (h0 : a.ifd = exifIFD) (hid : a.id = 0xa433)
    (hemb : a.isEmbedded = false) (hasc : isASCII a = true) (hpost : ∀ t ∈ post, ¬(t.ifd = exifIFD ∧ t.id = 0xa433)) :
    r'.ex.lensMake = trimNUL (slice F a) :=
  lensMake_exact (decodeTiff_nested tb F buffered h cnt r' e W hsmall w hroot hrootW hres).2.1 pre post a hsplit h0 hid hemb hasc hpost

/-- **A field, end to end: LensSerialNumber (ExifIFD, 0xa435)** — the same statement as for Software / LensModel -/
theorem C03_lensSerial_end_to_end (tb : Tables) (F : Bytes) (buffered : Bool) (h : Hdr) (cnt : Nat) (r' : R) (e : Option ErrKind)
    (W : Tag → Prop) (hsmall : F.length < 2 ^ 32)
    (w : World F (4 * 1024 * 1024) (if buffered then bufioSize else scratchSize) W)
    (hroot : DirOK F { off := 0, base := 0, order := h.order, typ := h.firstIfdType, idx := 0 } h.firstIfd cnt (4 * 1024 * 1024)
      (if buffered then bufioSize else scratchSize) (extent F))
    (hrootW : ∀ x, IsEntry F { off := 0, base := 0, order := h.order, typ := h.firstIfdType, idx := 0 } h.firstIfd cnt x ∨
      IsStubEntry F { off := 0, base := 0, order := h.order, typ := h.firstIfdType, idx := 0 } h.firstIfd cnt x → W x)
    (hres : decodeTiff tb F buffered h = .ok (r', e))
    (pre post : List Tag) (a : Tag) (hsplit : r'.parsed = pre ++ a :: post) (h0 : a.ifd = exifIFD) (hid : a.id = 0xa435)
    (hemb : a.isEmbedded = false) (hasc : isASCII a = true) (hpost : ∀ t ∈ post, ¬(t.ifd = exifIFD ∧ t.id = 0xa435)) :
    r'.ex.lensSerial = trimNUL (slice F a) :=
  lensSerial_exact (decodeTiff_nested tb F buffered h cnt r' e W hsmall w hroot hrootW hres).2.1 pre post a hsplit h0 hid hemb hasc hpost

/-- **A numeric field, end to end: Orientation (IFD0, 0x0112)** — the record holds what `parseUint16` makes of the last such entry (its count, type and
4-byte value slot, i.e. bytes of the directory in F), whatever else the file contains -/
theorem C03_orientation_end_to_end (tb : Tables) (F : Bytes) (buffered : Bool) (h : Hdr) (cnt : Nat) (r' : R) (e : Option ErrKind)
    (W : Tag → Prop) (hsmall : F.length < 2 ^ 32)
    (w : World F (4 * 1024 * 1024) (if buffered then bufioSize else scratchSize) W)
    (hroot : DirOK F { off := 0, base := 0, order := h.order, typ := h.firstIfdType, idx := 0 } h.firstIfd cnt (4 * 1024 * 1024)
      (if buffered then bufioSize else scratchSize) (extent F))
    (hrootW : ∀ x, IsEntry F { off := 0, base := 0, order := h.order, typ := h.firstIfdType, idx := 0 } h.firstIfd cnt x ∨
      IsStubEntry F { off := 0, base := 0, order := h.order, typ := h.firstIfdType, idx := 0 } h.firstIfd cnt x → W x)
    (hres : decodeTiff tb F buffered h = .ok (r', e))
    (pre post : List Tag) (a : Tag) (v : Nat) (hsplit : r'.parsed = pre ++ a :: post) (h0 : a.ifd = ifd0) (hid : a.id = 0x0112)
    (hv : parseUint16 a = .ok v) (hpost : ∀ t ∈ post, ¬(t.ifd = ifd0 ∧ t.id = 0x0112)) :
    r'.ex.orientation = v :=
  orientation_exact (decodeTiff_nested tb F buffered h cnt r' e W hsmall w hroot hrootW hres).2.1 pre post a v hsplit h0 hid hv hpost

/-- **A numeric field, end to end: StripOffsets (IFD0, 0x0111)** — the record holds what `parseUint32` makes of the last such entry (its count, type and
4-byte value slot, i.e. bytes of the directory in F), whatever else the file contains -/
theorem C03_stripOffsets_end_to_end (tb : Tables) (F : Bytes) (buffered : Bool) (h : Hdr) (cnt : Nat) (r' : R) (e : Option ErrKind)
    (W : Tag → Prop) (hsmall : F.length < 2 ^ 32)
    (w : World F (4 * 1024 * 1024) (if buffered then bufioSize else scratchSize) W)
    (hroot : DirOK F { off := 0, base := 0, order := h.order, typ := h.firstIfdType, idx := 0 } h.firstIfd cnt (4 * 1024 * 1024)
      (if buffered then bufioSize else scratchSize) (extent F))
    (hrootW : ∀ x, IsEntry F { off := 0, base := 0, order := h.order, typ := h.firstIfdType, idx := 0 } h.firstIfd cnt x ∨
      IsStubEntry F { off := 0, base := 0, order := h.order, typ := h.firstIfdType, idx := 0 } h.firstIfd cnt x → W x)
    (hres : decodeTiff tb F buffered h = .ok (r', e))
    (pre post : List Tag) (a : Tag) (v : Nat) (hsplit : r'.parsed = pre ++ a :: post) (h0 : a.ifd = ifd0) (hid : a.id = 0x0111)
    (hv : parseUint32 a = .ok v) (hpost : ∀ t ∈ post, ¬(t.ifd = ifd0 ∧ t.id = 0x0111)) :
    r'.ex.stripOffsets = v :=
  stripOffsets_exact (decodeTiff_nested tb F buffered h cnt r' e W hsmall w hroot hrootW hres).2.1 pre post a v hsplit h0 hid hv hpost

/-- **A numeric field, end to end: StripByteCounts (IFD0, 0x0117)** — the record holds what `parseUint32` makes of the last such entry (its count, type and
4-byte value slot, i.e. bytes of the directory in F), whatever else the file contains -/
theorem C03_stripByteCounts_end_to_end (tb : Tables) (F : Bytes) (buffered : Bool) (h : Hdr) (cnt : Nat) (r' : R) (e : Option ErrKind)
    (W : Tag → Prop) (hsmall : F.length < 2 ^ 32)
    (w : World F (4 * 1024 * 1024) (if buffered then bufioSize else scratchSize) W)
    (hroot : DirOK F { off := 0, base := 0, order := h.order, typ := h.firstIfdType, idx := 0 } h.firstIfd cnt (4 * 1024 * 1024)
      (if buffered then bufioSize else scratchSize) (extent F))
    (hrootW : ∀ x, IsEntry F { off := 0, base := 0, order := h.order, typ := h.firstIfdType, idx := 0 } h.firstIfd cnt x ∨
      IsStubEntry F { off := 0, base := 0, order := h.order, typ := h.firstIfdType, idx := 0 } h.firstIfd cnt x → W x)
    (hres : decodeTiff tb F buffered h = .ok (r', e))
    (pre post : List Tag) (a : Tag) (v : Nat) (hsplit : r'.parsed = pre ++ a :: post) (h0 : a.ifd = ifd0) (hid : a.id = 0x0117)
    (hv : parseUint32 a = .ok v) (hpost : ∀ t ∈ post, ¬(t.ifd = ifd0 ∧ t.id = 0x0117)) :
    r'.ex.stripByteCounts = v :=
  stripByteCounts_exact (decodeTiff_nested tb F buffered h cnt r' e W hsmall w hroot hrootW hres).2.1 pre post a v hsplit h0 hid hv hpost

/-- **A numeric field, end to end: ExposureProgram (ExifIFD, 0x8822)** — the record holds what `parseUint16` makes of the last such entry (its count, type and
4-byte value slot, i.e. bytes of the directory in F), whatever else the file contains -/
theorem C03_exposureProgram_end_to_end (tb : Tables) (F : Bytes) (buffered : Bool) (h : Hdr) (cnt : Nat) (r' : R) (e : Option ErrKind)
    (W : Tag → Prop) (hsmall : F.length < 2 ^ 32)
    (w : World F (4 * 1024 * 1024) (if buffered then bufioSize else scratchSize) W)
    (hroot : DirOK F { off := 0, base := 0, order := h.order, typ := h.firstIfdType, idx := 0 } h.firstIfd cnt (4 * 1024 * 1024)
      (if buffered then bufioSize else scratchSize) (extent F))
    (hrootW : ∀ x, IsEntry F { off := 0, base := 0, order := h.order, typ := h.firstIfdType, idx := 0 } h.firstIfd cnt x ∨
      IsStubEntry F { off := 0, base := 0, order := h.order, typ := h.firstIfdType, idx := 0 } h.firstIfd cnt x → W x)
    (hres : decodeTiff tb F buffered h = .ok (r', e))
    (pre post : List Tag) (a : Tag) (v : Nat) (hsplit : r'.parsed = pre ++ a :: post) (h0 : a.ifd = exifIFD) (hid : a.id = 0x8822)
    (hv : parseUint16 a = .ok v) (hpost : ∀ t ∈ post, ¬(t.ifd = exifIFD ∧ t.id = 0x8822)) :
    r'.ex.exposureProgram = v :=
  exposureProgram_exact (decodeTiff_nested tb F buffered h cnt r' e W hsmall w hroot hrootW hres).2.1 pre post a v hsplit h0 hid hv hpost

/-- **A numeric field, end to end: ExposureMode (ExifIFD, 0xa402)** — the record holds what `parseUint16` makes of the last such entry (its count, type and
4-byte value slot, i.e. bytes of the directory in F), whatever else the file contains -/
theorem C03_exposureMode_end_to_end (tb : Tables) (F : Bytes) (buffered : Bool) (h : Hdr) (cnt : Nat) (r' : R) (e : Option ErrKind)
    (W : Tag → Prop) (hsmall : F.length < 2 ^ 32)
    (w : World F (4 * 1024 * 1024) (if buffered then bufioSize else scratchSize) W)
    (hroot : DirOK F { off := 0, base := 0, order := h.order, typ := h.firstIfdType, idx := 0 } h.firstIfd cnt (4 * 1024 * 1024)
      (if buffered then bufioSize else scratchSize) (extent F))
    (hrootW : ∀ x, IsEntry F { off := 0, base := 0, order := h.order, typ := h.firstIfdType, idx := 0 } h.firstIfd cnt x ∨
      IsStubEntry F { off := 0, base := 0, order := h.order, typ := h.firstIfdType, idx := 0 } h.firstIfd cnt x → W x)
    (hres : decodeTiff tb F buffered h = .ok (r', e))
    (pre post : List Tag) (a : Tag) (v : Nat) (hsplit : r'.parsed = pre ++ a :: post) (h0 : a.ifd = exifIFD) (hid : a.id = 0xa402)
    (hv : parseUint16 a = .ok v) (hpost : ∀ t ∈ post, ¬(t.ifd = exifIFD ∧ t.id = 0xa402)) :
    r'.ex.exposureMode = v :=
  exposureMode_exact (decodeTiff_nested tb F buffered h cnt r' e W hsmall w hroot hrootW hres).2.1 pre post a v hsplit h0 hid hv hpost

/-- **A numeric field, end to end: MeteringMode (ExifIFD, 0x9207)** — the record holds what `parseUint16` makes of the last such entry (its count, type and
4-byte value slot, i.e. bytes of the directory in F), whatever else the file contains -/
theorem C03_meteringMode_end_to_end (tb : Tables) (F : Bytes) (buffered : Bool) (h : Hdr) (cnt : Nat) (r' : R) (e : Option ErrKind)
    (W : Tag → Prop) (hsmall : F.length < 2 ^ 32)
    (w : World F (4 * 1024 * 1024) (if buffered then bufioSize else scratchSize) W)
    (hroot : DirOK F { off := 0, base := 0, order := h.order, typ := h.firstIfdType, idx := 0 } h.firstIfd cnt (4 * 1024 * 1024)
      (if buffered then bufioSize else scratchSize) (extent F))
    (hrootW : ∀ x, IsEntry F { off := 0, base := 0, order := h.order, typ := h.firstIfdType, idx := 0 } h.firstIfd cnt x ∨
      IsStubEntry F { off := 0, base := 0, order := h.order, typ := h.firstIfdType, idx := 0 } h.firstIfd cnt x → W x)
    (hres : decodeTiff tb F buffered h = .ok (r', e))
    (pre post : List Tag) (a : Tag) (v : Nat) (hsplit : r'.parsed = pre ++ a :: post) (h0 : a.ifd = exifIFD) (hid : a.id = 0x9207)
    (hv : parseUint16 a = .ok v) (hpost : ∀ t ∈ post, ¬(t.ifd = exifIFD ∧ t.id = 0x9207)) :
    r'.ex.meteringMode = v :=
  meteringMode_exact (decodeTiff_nested tb F buffered h cnt r' e W hsmall w hroot hrootW hres).2.1 pre post a v hsplit h0 hid hv hpost

/-- **A numeric field, end to end: ISOSpeedRatings (ExifIFD, 0x8827)** — the record holds what `parseUint32` makes of the last such entry (its count, type and
4-byte value slot, i.e. bytes of the directory in F), whatever else the file contains -/
theorem C03_isoSpeed_end_to_end (tb : Tables) (F : Bytes) (buffered : Bool) (h : Hdr) (cnt : Nat) (r' : R) (e : Option ErrKind)
    (W : Tag → Prop) (hsmall : F.length < 2 ^ 32)
    (w : World F (4 * 1024 * 1024) (if buffered then bufioSize else scratchSize) W)
    (hroot : DirOK F { off := 0, base := 0, order := h.order, typ := h.firstIfdType, idx := 0 } h.firstIfd cnt (4 * 1024 * 1024)
      (if buffered then bufioSize else scratchSize) (extent F))
    (hrootW : ∀ x, IsEntry F { off := 0, base := 0, order := h.order, typ := h.firstIfdType, idx := 0 } h.firstIfd cnt x ∨
      IsStubEntry F { off := 0, base := 0, order := h.order, typ := h.firstIfdType, idx := 0 } h.firstIfd cnt x → W x)
    (hres : decodeTiff tb F buffered h = .ok (r', e))
    (pre post : List Tag) (a : Tag) (v : Nat) (hsplit : r'.parsed = pre ++ a :: post) (h0 : a.ifd = exifIFD) (hid : a.id = 0x8827)
    (hv : parseUint32 a = .ok v) (hpost : ∀ t ∈ post, ¬(t.ifd = exifIFD ∧ t.id = 0x8827)) :
    r'.ex.isoSpeed = v :=
  isoSpeed_exact (decodeTiff_nested tb F buffered h cnt r' e W hsmall w hroot hrootW hres).2.1 pre post a v hsplit h0 hid hv hpost

/-- **A numeric field, end to end: Flash (ExifIFD, 0x9209)** — the record holds what `parseUint16` makes of the last such entry (its count, type and
4-byte value slot, i.e. bytes of the directory in F), whatever else the file contains -/
theorem C03_flash_end_to_end (tb : Tables) (F : Bytes) (buffered : Bool) (h : Hdr) (cnt : Nat) (r' : R) (e : Option ErrKind)
    (W : Tag → Prop) (hsmall : F.length < 2 ^ 32)
    (w : World F (4 * 1024 * 1024) (if buffered then bufioSize else scratchSize) W)
    (hroot : DirOK F { off := 0, base := 0, order := h.order, typ := h.firstIfdType, idx := 0 } h.firstIfd cnt (4 * 1024 * 1024)
      (if buffered then bufioSize else scratchSize) (extent F))
    (hrootW : ∀ x, IsEntry F { off := 0, base := 0, order := h.order, typ := h.firstIfdType, idx := 0 } h.firstIfd cnt x ∨
      IsStubEntry F { off := 0, base := 0, order := h.order, typ := h.firstIfdType, idx := 0 } h.firstIfd cnt x → W x)
    (hres : decodeTiff tb F buffered h = .ok (r', e))
    (pre post : List Tag) (a : Tag) (v : Nat) (hsplit : r'.parsed = pre ++ a :: post) (h0 : a.ifd = exifIFD) (hid : a.id = 0x9209)
    (hv : parseUint16 a = .ok v) (hpost : ∀ t ∈ post, ¬(t.ifd = exifIFD ∧ t.id = 0x9209)) :
    r'.ex.flash = v :=
  flash_exact (decodeTiff_nested tb F buffered h cnt r' e W hsmall w hroot hrootW hres).2.1 pre post a v hsplit h0 hid hv hpost

/-- **Make, end to end** (IFD0, 0x010f): the record's make string and make enum are `makeOf tb` — the library's
CameraMakeFromString / String tables, parameters of the model — applied to F[a.off, a.off+a.size) minus trailing padding -/
theorem C03_make_end_to_end (tb : Tables) (F : Bytes) (buffered : Bool) (h : Hdr) (cnt : Nat) (r' : R) (e : Option ErrKind)
    (W : Tag → Prop) (hsmall : F.length < 2 ^ 32)
    (w : World F (4 * 1024 * 1024) (if buffered then bufioSize else scratchSize) W)
    (hroot : DirOK F { off := 0, base := 0, order := h.order, typ := h.firstIfdType, idx := 0 } h.firstIfd cnt (4 * 1024 * 1024)
      (if buffered then bufioSize else scratchSize) (extent F))
    (hrootW : ∀ x, IsEntry F { off := 0, base := 0, order := h.order, typ := h.firstIfdType, idx := 0 } h.firstIfd cnt x ∨
      IsStubEntry F { off := 0, base := 0, order := h.order, typ := h.firstIfdType, idx := 0 } h.firstIfd cnt x → W x)
    (hres : decodeTiff tb F buffered h = .ok (r', e))
    (pre post : List Tag) (a : Tag) (hsplit : r'.parsed = pre ++ a :: post) (h0 : a.ifd = ifd0) (hid : a.id = 0x010f)
    (hemb : a.isEmbedded = false) (hasc : isASCII a = true) (hpost : ∀ t ∈ post, ¬(t.ifd = ifd0 ∧ t.id = 0x010f)) :
    (r'.ex.make, r'.ex.cameraMake) = makeOf tb (trimNUL (slice F a)) :=
  make_exact (decodeTiff_nested tb F buffered h cnt r' e W hsmall w hroot hrootW hres).2.1 pre post a hsplit h0 hid hemb hasc hpost

/-! The remaining single-writer fields, generated from the same template (Lemmas/ExifField6.lean): the record holds what the
field's value parser — a pure function of the entry and of its bytes, proved equal to the streaming parser — makes of the
last such entry and of exactly F[a.off, a.off+a.size). -/

/-- **ModifyDate (IFD0, 0x0132), end to end** -/
theorem C03_modifyDate_end_to_end (tb : Tables) (F : Bytes) (buffered : Bool) (h : Hdr) (cnt : Nat) (r' : R) (e : Option ErrKind)
    (W : Tag → Prop) (hsmall : F.length < 2 ^ 32)
    (w : World F (4 * 1024 * 1024) (if buffered then bufioSize else scratchSize) W)
    (hroot : DirOK F { off := 0, base := 0, order := h.order, typ := h.firstIfdType, idx := 0 } h.firstIfd cnt (4 * 1024 * 1024)
      (if buffered then bufioSize else scratchSize) (extent F))
    (hrootW : ∀ x, IsEntry F { off := 0, base := 0, order := h.order, typ := h.firstIfdType, idx := 0 } h.firstIfd cnt x ∨
      IsStubEntry F { off := 0, base := 0, order := h.order, typ := h.firstIfdType, idx := 0 } h.firstIfd cnt x → W x)
    (hres : decodeTiff tb F buffered h = .ok (r', e))
    (pre post : List Tag) (a : Tag) (hsplit : r'.parsed = pre ++ a :: post) (h0 : a.ifd = ifd0) (hid : a.id = 0x0132)
    (hpost : ∀ t ∈ post, ¬(t.ifd = ifd0 ∧ t.id = 0x0132)) :
    parseDateV a (slice F a) none = .ok r'.ex.modifyDate :=
  modifyDate_exact (decodeTiff_nested tb F buffered h cnt r' e W hsmall w hroot hrootW hres).2.1 pre post a hsplit h0 hid hpost

/-- **LensSpecification (ExifIFD, 0xa432), end to end** -/
theorem C03_lensInfo_end_to_end (tb : Tables) (F : Bytes) (buffered : Bool) (h : Hdr) (cnt : Nat) (r' : R) (e : Option ErrKind)
    (W : Tag → Prop) (hsmall : F.length < 2 ^ 32)
    (w : World F (4 * 1024 * 1024) (if buffered then bufioSize else scratchSize) W)
    (hroot : DirOK F { off := 0, base := 0, order := h.order, typ := h.firstIfdType, idx := 0 } h.firstIfd cnt (4 * 1024 * 1024)
      (if buffered then bufioSize else scratchSize) (extent F))
    (hrootW : ∀ x, IsEntry F { off := 0, base := 0, order := h.order, typ := h.firstIfdType, idx := 0 } h.firstIfd cnt x ∨
      IsStubEntry F { off := 0, base := 0, order := h.order, typ := h.firstIfdType, idx := 0 } h.firstIfd cnt x → W x)
    (hres : decodeTiff tb F buffered h = .ok (r', e))
    (pre post : List Tag) (a : Tag) (hsplit : r'.parsed = pre ++ a :: post) (h0 : a.ifd = exifIFD) (hid : a.id = 0xa432)
    (hpost : ∀ t ∈ post, ¬(t.ifd = exifIFD ∧ t.id = 0xa432)) :
    parseLensInfoV a (slice F a) none = .ok r'.ex.lensInfo :=
  lensInfo_exact (decodeTiff_nested tb F buffered h cnt r' e W hsmall w hroot hrootW hres).2.1 pre post a hsplit h0 hid hpost

/-- **DateTimeOriginal (0x9003), end to end** -/
theorem C03_dateTimeOriginal_end_to_end (tb : Tables) (F : Bytes) (buffered : Bool) (h : Hdr) (cnt : Nat) (r' : R) (e : Option ErrKind)
    (W : Tag → Prop) (hsmall : F.length < 2 ^ 32)
    (w : World F (4 * 1024 * 1024) (if buffered then bufioSize else scratchSize) W)
    (hroot : DirOK F { off := 0, base := 0, order := h.order, typ := h.firstIfdType, idx := 0 } h.firstIfd cnt (4 * 1024 * 1024)
      (if buffered then bufioSize else scratchSize) (extent F))
    (hrootW : ∀ x, IsEntry F { off := 0, base := 0, order := h.order, typ := h.firstIfdType, idx := 0 } h.firstIfd cnt x ∨
      IsStubEntry F { off := 0, base := 0, order := h.order, typ := h.firstIfdType, idx := 0 } h.firstIfd cnt x → W x)
    (hres : decodeTiff tb F buffered h = .ok (r', e))
    (pre post : List Tag) (a : Tag) (hsplit : r'.parsed = pre ++ a :: post) (h0 : a.ifd = exifIFD) (hid : a.id = 0x9003)
    (hpost : ∀ t ∈ post, ¬(t.ifd = exifIFD ∧ t.id = 0x9003)) :
    parseDateV a (slice F a) none = .ok r'.ex.dateTimeOriginal :=
  dateTimeOriginal_exact (decodeTiff_nested tb F buffered h cnt r' e W hsmall w hroot hrootW hres).2.1 pre post a hsplit h0 hid hpost

/-- **DateTimeDigitized (0x9004), end to end** -/
theorem C03_createDate_end_to_end (tb : Tables) (F : Bytes) (buffered : Bool) (h : Hdr) (cnt : Nat) (r' : R) (e : Option ErrKind)
    (W : Tag → Prop) (hsmall : F.length < 2 ^ 32)
    (w : World F (4 * 1024 * 1024) (if buffered then bufioSize else scratchSize) W)
    (hroot : DirOK F { off := 0, base := 0, order := h.order, typ := h.firstIfdType, idx := 0 } h.firstIfd cnt (4 * 1024 * 1024)
      (if buffered then bufioSize else scratchSize) (extent F))
    (hrootW : ∀ x, IsEntry F { off := 0, base := 0, order := h.order, typ := h.firstIfdType, idx := 0 } h.firstIfd cnt x ∨
      IsStubEntry F { off := 0, base := 0, order := h.order, typ := h.firstIfdType, idx := 0 } h.firstIfd cnt x → W x)
    (hres : decodeTiff tb F buffered h = .ok (r', e))
    (pre post : List Tag) (a : Tag) (hsplit : r'.parsed = pre ++ a :: post) (h0 : a.ifd = exifIFD) (hid : a.id = 0x9004)
    (hpost : ∀ t ∈ post, ¬(t.ifd = exifIFD ∧ t.id = 0x9004)) :
    parseDateV a (slice F a) none = .ok r'.ex.createDate :=
  createDate_exact (decodeTiff_nested tb F buffered h cnt r' e W hsmall w hroot hrootW hres).2.1 pre post a hsplit h0 hid hpost

/-- **SubSecTime (0x9290), end to end** -/
theorem C03_subSec_end_to_end (tb : Tables) (F : Bytes) (buffered : Bool) (h : Hdr) (cnt : Nat) (r' : R) (e : Option ErrKind)
    (W : Tag → Prop) (hsmall : F.length < 2 ^ 32)
    (w : World F (4 * 1024 * 1024) (if buffered then bufioSize else scratchSize) W)
    (hroot : DirOK F { off := 0, base := 0, order := h.order, typ := h.firstIfdType, idx := 0 } h.firstIfd cnt (4 * 1024 * 1024)
      (if buffered then bufioSize else scratchSize) (extent F))
    (hrootW : ∀ x, IsEntry F { off := 0, base := 0, order := h.order, typ := h.firstIfdType, idx := 0 } h.firstIfd cnt x ∨
      IsStubEntry F { off := 0, base := 0, order := h.order, typ := h.firstIfdType, idx := 0 } h.firstIfd cnt x → W x)
    (hres : decodeTiff tb F buffered h = .ok (r', e))
    (pre post : List Tag) (a : Tag) (hsplit : r'.parsed = pre ++ a :: post) (h0 : a.ifd = exifIFD) (hid : a.id = 0x9290)
    (hpost : ∀ t ∈ post, ¬(t.ifd = exifIFD ∧ t.id = 0x9290)) :
    parseSubSecV a (slice F a) none = .ok r'.ex.subSec :=
  subSec_exact (decodeTiff_nested tb F buffered h cnt r' e W hsmall w hroot hrootW hres).2.1 pre post a hsplit h0 hid hpost

/-- **SubSecTimeOriginal (0x9291), end to end** -/
theorem C03_subSecOriginal_end_to_end (tb : Tables) (F : Bytes) (buffered : Bool) (h : Hdr) (cnt : Nat) (r' : R) (e : Option ErrKind)
    (W : Tag → Prop) (hsmall : F.length < 2 ^ 32)
    (w : World F (4 * 1024 * 1024) (if buffered then bufioSize else scratchSize) W)
    (hroot : DirOK F { off := 0, base := 0, order := h.order, typ := h.firstIfdType, idx := 0 } h.firstIfd cnt (4 * 1024 * 1024)
      (if buffered then bufioSize else scratchSize) (extent F))
    (hrootW : ∀ x, IsEntry F { off := 0, base := 0, order := h.order, typ := h.firstIfdType, idx := 0 } h.firstIfd cnt x ∨
      IsStubEntry F { off := 0, base := 0, order := h.order, typ := h.firstIfdType, idx := 0 } h.firstIfd cnt x → W x)
    (hres : decodeTiff tb F buffered h = .ok (r', e))
    (pre post : List Tag) (a : Tag) (hsplit : r'.parsed = pre ++ a :: post) (h0 : a.ifd = exifIFD) (hid : a.id = 0x9291)
    (hpost : ∀ t ∈ post, ¬(t.ifd = exifIFD ∧ t.id = 0x9291)) :
    parseSubSecV a (slice F a) none = .ok r'.ex.subSecOriginal :=
  subSecOriginal_exact (decodeTiff_nested tb F buffered h cnt r' e W hsmall w hroot hrootW hres).2.1 pre post a hsplit h0 hid hpost

/-- **SubSecTimeDigitized (0x9292), end to end** -/
theorem C03_subSecDigitized_end_to_end (tb : Tables) (F : Bytes) (buffered : Bool) (h : Hdr) (cnt : Nat) (r' : R) (e : Option ErrKind)
    (W : Tag → Prop) (hsmall : F.length < 2 ^ 32)
    (w : World F (4 * 1024 * 1024) (if buffered then bufioSize else scratchSize) W)
    (hroot : DirOK F { off := 0, base := 0, order := h.order, typ := h.firstIfdType, idx := 0 } h.firstIfd cnt (4 * 1024 * 1024)
      (if buffered then bufioSize else scratchSize) (extent F))
    (hrootW : ∀ x, IsEntry F { off := 0, base := 0, order := h.order, typ := h.firstIfdType, idx := 0 } h.firstIfd cnt x ∨
      IsStubEntry F { off := 0, base := 0, order := h.order, typ := h.firstIfdType, idx := 0 } h.firstIfd cnt x → W x)
    (hres : decodeTiff tb F buffered h = .ok (r', e))
    (pre post : List Tag) (a : Tag) (hsplit : r'.parsed = pre ++ a :: post) (h0 : a.ifd = exifIFD) (hid : a.id = 0x9292)
    (hpost : ∀ t ∈ post, ¬(t.ifd = exifIFD ∧ t.id = 0x9292)) :
    parseSubSecV a (slice F a) none = .ok r'.ex.subSecDigitized :=
  subSecDigitized_exact (decodeTiff_nested tb F buffered h cnt r' e W hsmall w hroot hrootW hres).2.1 pre post a hsplit h0 hid hpost

/-- **OffsetTime (0x9010), end to end** -/
theorem C03_offsetTime_end_to_end (tb : Tables) (F : Bytes) (buffered : Bool) (h : Hdr) (cnt : Nat) (r' : R) (e : Option ErrKind)
    (W : Tag → Prop) (hsmall : F.length < 2 ^ 32)
    (w : World F (4 * 1024 * 1024) (if buffered then bufioSize else scratchSize) W)
    (hroot : DirOK F { off := 0, base := 0, order := h.order, typ := h.firstIfdType, idx := 0 } h.firstIfd cnt (4 * 1024 * 1024)
      (if buffered then bufioSize else scratchSize) (extent F))
    (hrootW : ∀ x, IsEntry F { off := 0, base := 0, order := h.order, typ := h.firstIfdType, idx := 0 } h.firstIfd cnt x ∨
      IsStubEntry F { off := 0, base := 0, order := h.order, typ := h.firstIfdType, idx := 0 } h.firstIfd cnt x → W x)
    (hres : decodeTiff tb F buffered h = .ok (r', e))
    (pre post : List Tag) (a : Tag) (hsplit : r'.parsed = pre ++ a :: post) (h0 : a.ifd = exifIFD) (hid : a.id = 0x9010)
    (hpost : ∀ t ∈ post, ¬(t.ifd = exifIFD ∧ t.id = 0x9010)) :
    parseOffsetTimeV a (slice F a) none = .ok r'.ex.offsetTime :=
  offsetTime_exact (decodeTiff_nested tb F buffered h cnt r' e W hsmall w hroot hrootW hres).2.1 pre post a hsplit h0 hid hpost

/-- **OffsetTimeOriginal (0x9011), end to end** -/
theorem C03_offsetTimeOriginal_end_to_end (tb : Tables) (F : Bytes) (buffered : Bool) (h : Hdr) (cnt : Nat) (r' : R) (e : Option ErrKind)
    (W : Tag → Prop) (hsmall : F.length < 2 ^ 32)
    (w : World F (4 * 1024 * 1024) (if buffered then bufioSize else scratchSize) W)
    (hroot : DirOK F { off := 0, base := 0, order := h.order, typ := h.firstIfdType, idx := 0 } h.firstIfd cnt (4 * 1024 * 1024)
      (if buffered then bufioSize else scratchSize) (extent F))
    (hrootW : ∀ x, IsEntry F { off := 0, base := 0, order := h.order, typ := h.firstIfdType, idx := 0 } h.firstIfd cnt x ∨
      IsStubEntry F { off := 0, base := 0, order := h.order, typ := h.firstIfdType, idx := 0 } h.firstIfd cnt x → W x)
    (hres : decodeTiff tb F buffered h = .ok (r', e))
    (pre post : List Tag) (a : Tag) (hsplit : r'.parsed = pre ++ a :: post) (h0 : a.ifd = exifIFD) (hid : a.id = 0x9011)
    (hpost : ∀ t ∈ post, ¬(t.ifd = exifIFD ∧ t.id = 0x9011)) :
    parseOffsetTimeV a (slice F a) none = .ok r'.ex.offsetTimeOriginal :=
  offsetTimeOriginal_exact (decodeTiff_nested tb F buffered h cnt r' e W hsmall w hroot hrootW hres).2.1 pre post a hsplit h0 hid hpost

/-- **OffsetTimeDigitized (0x9012), end to end** -/
theorem C03_offsetTimeDigitized_end_to_end (tb : Tables) (F : Bytes) (buffered : Bool) (h : Hdr) (cnt : Nat) (r' : R) (e : Option ErrKind)
    (W : Tag → Prop) (hsmall : F.length < 2 ^ 32)
    (w : World F (4 * 1024 * 1024) (if buffered then bufioSize else scratchSize) W)
    (hroot : DirOK F { off := 0, base := 0, order := h.order, typ := h.firstIfdType, idx := 0 } h.firstIfd cnt (4 * 1024 * 1024)
      (if buffered then bufioSize else scratchSize) (extent F))
    (hrootW : ∀ x, IsEntry F { off := 0, base := 0, order := h.order, typ := h.firstIfdType, idx := 0 } h.firstIfd cnt x ∨
      IsStubEntry F { off := 0, base := 0, order := h.order, typ := h.firstIfdType, idx := 0 } h.firstIfd cnt x → W x)
    (hres : decodeTiff tb F buffered h = .ok (r', e))
    (pre post : List Tag) (a : Tag) (hsplit : r'.parsed = pre ++ a :: post) (h0 : a.ifd = exifIFD) (hid : a.id = 0x9012)
    (hpost : ∀ t ∈ post, ¬(t.ifd = exifIFD ∧ t.id = 0x9012)) :
    parseOffsetTimeV a (slice F a) none = .ok r'.ex.offsetTimeDigitized :=
  offsetTimeDigitized_exact (decodeTiff_nested tb F buffered h cnt r' e W hsmall w hroot hrootW hres).2.1 pre post a hsplit h0 hid hpost

/-- **GPSAltitude (GPS IFD, 6), end to end** -/
theorem C03_gpsAlt_end_to_end (tb : Tables) (F : Bytes) (buffered : Bool) (h : Hdr) (cnt : Nat) (r' : R) (e : Option ErrKind)
    (W : Tag → Prop) (hsmall : F.length < 2 ^ 32)
    (w : World F (4 * 1024 * 1024) (if buffered then bufioSize else scratchSize) W)
    (hroot : DirOK F { off := 0, base := 0, order := h.order, typ := h.firstIfdType, idx := 0 } h.firstIfd cnt (4 * 1024 * 1024)
      (if buffered then bufioSize else scratchSize) (extent F))
    (hrootW : ∀ x, IsEntry F { off := 0, base := 0, order := h.order, typ := h.firstIfdType, idx := 0 } h.firstIfd cnt x ∨
      IsStubEntry F { off := 0, base := 0, order := h.order, typ := h.firstIfdType, idx := 0 } h.firstIfd cnt x → W x)
    (hres : decodeTiff tb F buffered h = .ok (r', e))
    (pre post : List Tag) (a : Tag) (hsplit : r'.parsed = pre ++ a :: post) (h0 : a.ifd = gpsIFD) (hid : a.id = 0x0006)
    (hpost : ∀ t ∈ post, ¬(t.ifd = gpsIFD ∧ t.id = 0x0006)) :
    parseGPSAltV a (slice F a) none = .ok r'.ex.gpsAlt :=
  gpsAlt_exact (decodeTiff_nested tb F buffered h cnt r' e W hsmall w hroot hrootW hres).2.1 pre post a hsplit h0 hid hpost

/-- **GPSLatitude (2), end to end** -/
theorem C03_gpsLat_end_to_end (tb : Tables) (F : Bytes) (buffered : Bool) (h : Hdr) (cnt : Nat) (r' : R) (e : Option ErrKind)
    (W : Tag → Prop) (hsmall : F.length < 2 ^ 32)
    (w : World F (4 * 1024 * 1024) (if buffered then bufioSize else scratchSize) W)
    (hroot : DirOK F { off := 0, base := 0, order := h.order, typ := h.firstIfdType, idx := 0 } h.firstIfd cnt (4 * 1024 * 1024)
      (if buffered then bufioSize else scratchSize) (extent F))
    (hrootW : ∀ x, IsEntry F { off := 0, base := 0, order := h.order, typ := h.firstIfdType, idx := 0 } h.firstIfd cnt x ∨
      IsStubEntry F { off := 0, base := 0, order := h.order, typ := h.firstIfdType, idx := 0 } h.firstIfd cnt x → W x)
    (hres : decodeTiff tb F buffered h = .ok (r', e))
    (pre post : List Tag) (a : Tag) (hsplit : r'.parsed = pre ++ a :: post) (h0 : a.ifd = gpsIFD) (hid : a.id = 0x0002)
    (hpost : ∀ t ∈ post, ¬(t.ifd = gpsIFD ∧ t.id = 0x0002)) :
    parseGPSCoordV a (slice F a) none = .ok r'.ex.gpsLat :=
  gpsLat_exact (decodeTiff_nested tb F buffered h cnt r' e W hsmall w hroot hrootW hres).2.1 pre post a hsplit h0 hid hpost

/-- **GPSLongitude (4), end to end** -/
theorem C03_gpsLng_end_to_end (tb : Tables) (F : Bytes) (buffered : Bool) (h : Hdr) (cnt : Nat) (r' : R) (e : Option ErrKind)
    (W : Tag → Prop) (hsmall : F.length < 2 ^ 32)
    (w : World F (4 * 1024 * 1024) (if buffered then bufioSize else scratchSize) W)
    (hroot : DirOK F { off := 0, base := 0, order := h.order, typ := h.firstIfdType, idx := 0 } h.firstIfd cnt (4 * 1024 * 1024)
      (if buffered then bufioSize else scratchSize) (extent F))
    (hrootW : ∀ x, IsEntry F { off := 0, base := 0, order := h.order, typ := h.firstIfdType, idx := 0 } h.firstIfd cnt x ∨
      IsStubEntry F { off := 0, base := 0, order := h.order, typ := h.firstIfdType, idx := 0 } h.firstIfd cnt x → W x)
    (hres : decodeTiff tb F buffered h = .ok (r', e))
    (pre post : List Tag) (a : Tag) (hsplit : r'.parsed = pre ++ a :: post) (h0 : a.ifd = gpsIFD) (hid : a.id = 0x0004)
    (hpost : ∀ t ∈ post, ¬(t.ifd = gpsIFD ∧ t.id = 0x0004)) :
    parseGPSCoordV a (slice F a) none = .ok r'.ex.gpsLng :=
  gpsLng_exact (decodeTiff_nested tb F buffered h cnt r' e W hsmall w hroot hrootW hres).2.1 pre post a hsplit h0 hid hpost

/-- **GPSTimeStamp (7), end to end** -/
theorem C03_gpsTime_end_to_end (tb : Tables) (F : Bytes) (buffered : Bool) (h : Hdr) (cnt : Nat) (r' : R) (e : Option ErrKind)
    (W : Tag → Prop) (hsmall : F.length < 2 ^ 32)
    (w : World F (4 * 1024 * 1024) (if buffered then bufioSize else scratchSize) W)
    (hroot : DirOK F { off := 0, base := 0, order := h.order, typ := h.firstIfdType, idx := 0 } h.firstIfd cnt (4 * 1024 * 1024)
      (if buffered then bufioSize else scratchSize) (extent F))
    (hrootW : ∀ x, IsEntry F { off := 0, base := 0, order := h.order, typ := h.firstIfdType, idx := 0 } h.firstIfd cnt x ∨
      IsStubEntry F { off := 0, base := 0, order := h.order, typ := h.firstIfdType, idx := 0 } h.firstIfd cnt x → W x)
    (hres : decodeTiff tb F buffered h = .ok (r', e))
    (pre post : List Tag) (a : Tag) (hsplit : r'.parsed = pre ++ a :: post) (h0 : a.ifd = gpsIFD) (hid : a.id = 0x0007)
    (hpost : ∀ t ∈ post, ¬(t.ifd = gpsIFD ∧ t.id = 0x0007)) :
    parseGPSTimeV a (slice F a) none = .ok r'.ex.gpsTime :=
  gpsTime_exact (decodeTiff_nested tb F buffered h cnt r' e W hsmall w hroot hrootW hres).2.1 pre post a hsplit h0 hid hpost

/-- **GPSDateStamp (0x1d), end to end** -/
theorem C03_gpsDate_end_to_end (tb : Tables) (F : Bytes) (buffered : Bool) (h : Hdr) (cnt : Nat) (r' : R) (e : Option ErrKind)
    (W : Tag → Prop) (hsmall : F.length < 2 ^ 32)
    (w : World F (4 * 1024 * 1024) (if buffered then bufioSize else scratchSize) W)
    (hroot : DirOK F { off := 0, base := 0, order := h.order, typ := h.firstIfdType, idx := 0 } h.firstIfd cnt (4 * 1024 * 1024)
      (if buffered then bufioSize else scratchSize) (extent F))
    (hrootW : ∀ x, IsEntry F { off := 0, base := 0, order := h.order, typ := h.firstIfdType, idx := 0 } h.firstIfd cnt x ∨
      IsStubEntry F { off := 0, base := 0, order := h.order, typ := h.firstIfdType, idx := 0 } h.firstIfd cnt x → W x)
    (hres : decodeTiff tb F buffered h = .ok (r', e))
    (pre post : List Tag) (a : Tag) (hsplit : r'.parsed = pre ++ a :: post) (h0 : a.ifd = gpsIFD) (hid : a.id = 0x001d)
    (hpost : ∀ t ∈ post, ¬(t.ifd = gpsIFD ∧ t.id = 0x001d)) :
    parseGPSDateV a (slice F a) none = .ok r'.ex.gpsDate :=
  gpsDate_exact (decodeTiff_nested tb F buffered h cnt r' e W hsmall w hroot hrootW hres).2.1 pre post a hsplit h0 hid hpost

/-- **GPSAltitudeRef (5), end to end** -/
theorem C03_gpsAltRef_end_to_end (tb : Tables) (F : Bytes) (buffered : Bool) (h : Hdr) (cnt : Nat) (r' : R) (e : Option ErrKind)
    (W : Tag → Prop) (hsmall : F.length < 2 ^ 32)
    (w : World F (4 * 1024 * 1024) (if buffered then bufioSize else scratchSize) W)
    (hroot : DirOK F { off := 0, base := 0, order := h.order, typ := h.firstIfdType, idx := 0 } h.firstIfd cnt (4 * 1024 * 1024)
      (if buffered then bufioSize else scratchSize) (extent F))
    (hrootW : ∀ x, IsEntry F { off := 0, base := 0, order := h.order, typ := h.firstIfdType, idx := 0 } h.firstIfd cnt x ∨
      IsStubEntry F { off := 0, base := 0, order := h.order, typ := h.firstIfdType, idx := 0 } h.firstIfd cnt x → W x)
    (hres : decodeTiff tb F buffered h = .ok (r', e))
    (pre post : List Tag) (a : Tag) (hsplit : r'.parsed = pre ++ a :: post) (h0 : a.ifd = gpsIFD) (hid : a.id = 0x0005)
    (hpost : ∀ t ∈ post, ¬(t.ifd = gpsIFD ∧ t.id = 0x0005)) :
    r'.ex.gpsAltRef = parseGPSRef a :=
  gpsAltRef_exact (decodeTiff_nested tb F buffered h cnt r' e W hsmall w hroot hrootW hres).2.1 pre post a hsplit h0 hid hpost

/-- **GPSLatitudeRef (1), end to end** -/
theorem C03_gpsLatRef_end_to_end (tb : Tables) (F : Bytes) (buffered : Bool) (h : Hdr) (cnt : Nat) (r' : R) (e : Option ErrKind)
    (W : Tag → Prop) (hsmall : F.length < 2 ^ 32)
    (w : World F (4 * 1024 * 1024) (if buffered then bufioSize else scratchSize) W)
    (hroot : DirOK F { off := 0, base := 0, order := h.order, typ := h.firstIfdType, idx := 0 } h.firstIfd cnt (4 * 1024 * 1024)
      (if buffered then bufioSize else scratchSize) (extent F))
    (hrootW : ∀ x, IsEntry F { off := 0, base := 0, order := h.order, typ := h.firstIfdType, idx := 0 } h.firstIfd cnt x ∨
      IsStubEntry F { off := 0, base := 0, order := h.order, typ := h.firstIfdType, idx := 0 } h.firstIfd cnt x → W x)
    (hres : decodeTiff tb F buffered h = .ok (r', e))
    (pre post : List Tag) (a : Tag) (hsplit : r'.parsed = pre ++ a :: post) (h0 : a.ifd = gpsIFD) (hid : a.id = 0x0001)
    (hpost : ∀ t ∈ post, ¬(t.ifd = gpsIFD ∧ t.id = 0x0001)) :
    r'.ex.gpsLatRef = parseGPSRef a :=
  gpsLatRef_exact (decodeTiff_nested tb F buffered h cnt r' e W hsmall w hroot hrootW hres).2.1 pre post a hsplit h0 hid hpost

/-- **GPSLongitudeRef (3), end to end** -/
theorem C03_gpsLngRef_end_to_end (tb : Tables) (F : Bytes) (buffered : Bool) (h : Hdr) (cnt : Nat) (r' : R) (e : Option ErrKind)
    (W : Tag → Prop) (hsmall : F.length < 2 ^ 32)
    (w : World F (4 * 1024 * 1024) (if buffered then bufioSize else scratchSize) W)
    (hroot : DirOK F { off := 0, base := 0, order := h.order, typ := h.firstIfdType, idx := 0 } h.firstIfd cnt (4 * 1024 * 1024)
      (if buffered then bufioSize else scratchSize) (extent F))
    (hrootW : ∀ x, IsEntry F { off := 0, base := 0, order := h.order, typ := h.firstIfdType, idx := 0 } h.firstIfd cnt x ∨
      IsStubEntry F { off := 0, base := 0, order := h.order, typ := h.firstIfdType, idx := 0 } h.firstIfd cnt x → W x)
    (hres : decodeTiff tb F buffered h = .ok (r', e))
    (pre post : List Tag) (a : Tag) (hsplit : r'.parsed = pre ++ a :: post) (h0 : a.ifd = gpsIFD) (hid : a.id = 0x0003)
    (hpost : ∀ t ∈ post, ¬(t.ifd = gpsIFD ∧ t.id = 0x0003)) :
    r'.ex.gpsLngRef = parseGPSRef a :=
  gpsLngRef_exact (decodeTiff_nested tb F buffered h cnt r' e W hsmall w hroot hrootW hres).2.1 pre post a hsplit h0 hid hpost

/-- on the sample file, through the theorem (not by running the model): LensModel is "RF 50mm" -/
example (r' : R) (e : Option ErrKind)
    (hres : decodeTiff sampleTb nF true { order := .little, firstIfd := 8, firstIfdType := ifd0, exifLength := 0, imageType := 0 } = .ok (r', e)) :
    r'.ex.lensModel = [82, 70, 32, 53, 48, 109, 109] := by
  have hp : r'.parsed = [nM, nL] := by
    have : parsedOf (decodeTiff sampleTb nF true { order := .little, firstIfd := 8, firstIfdType := ifd0, exifLength := 0, imageType := 0 }) = [nM, nL] := by
      decide +kernel
    rw [hres] at this; exact this
  have := C03_lensModel_end_to_end sampleTb nF true { order := .little, firstIfd := 8, firstIfdType := ifd0, exifLength := 0, imageType := 0 }
    2 r' e (fun x => x ∈ [nM, nP, nL]) (by decide) nWorld nRootOK
    nRootW
    hres [nM] [] nL (by rw [hp]; rfl) rfl rfl (by decide) (by decide) (by intro t ht; cases ht)
  rw [this]
  decide +kernel

theorem last_occurrence {α} (a : α) : ∀ l : List α, a ∈ l → ∃ pre post, l = pre ++ a :: post ∧ a ∉ post := by
  intro l
  induction l with
  | nil => intro h; cases h
  | cons x l ih =>
    intro h
    by_cases hl : a ∈ l
    · obtain ⟨pre, post, e, hn⟩ := ih hl
      exact ⟨x :: pre, post, by rw [e]; rfl, hn⟩
    · rw [List.mem_cons] at h
      rcases h with rfl | h
      · exact ⟨[], l, rfl, hl⟩
      · exact absurd h hl

/-- **Software, end to end, stated on the file alone.**  Under the layout hypotheses of `C03_nested_tiff_exact`: if a is
an out-of-line ASCII entry of IFD0 with id 0x0131 and no other entry of IFD0, of the Exif or of the GPS directory carries
that (directory, id) pair, then DecodeTiff returns Software = F[a.off, a.off + a.size) minus trailing NUL / blank padding.
(The ghost parse record is used in the proof only: every out-of-line value tag of the layout is parsed, and nothing is
parsed that is not an entry of one of the three directories.) -/
theorem C03_software_unique (tb : Tables) (F : Bytes) (buffered : Bool) (h : Hdr) (cnt : Nat) (r' : R) (e : Option ErrKind)
    (W : Tag → Prop) (hsmall : F.length < 2 ^ 32)
    (w : World F (4 * 1024 * 1024) (if buffered then bufioSize else scratchSize) W)
    (hroot : DirOK F { off := 0, base := 0, order := h.order, typ := h.firstIfdType, idx := 0 } h.firstIfd cnt (4 * 1024 * 1024)
      (if buffered then bufioSize else scratchSize) (extent F))
    (hrootW : ∀ x, IsEntry F { off := 0, base := 0, order := h.order, typ := h.firstIfdType, idx := 0 } h.firstIfd cnt x ∨
      IsStubEntry F { off := 0, base := 0, order := h.order, typ := h.firstIfdType, idx := 0 } h.firstIfd cnt x → W x)
    (hres : decodeTiff tb F buffered h = .ok (r', e))
    (a : Tag) (ha : IsEntry F { off := 0, base := 0, order := h.order, typ := h.firstIfdType, idx := 0 } h.firstIfd cnt a)
    (h0 : a.ifd = ifd0) (hid : a.id = 0x0131) (hasc : isASCII a = true)
    (huniq : ∀ x, (AnyEntry F { off := 0, base := 0, order := h.order, typ := h.firstIfdType, idx := 0 } h.firstIfd cnt x ∨
        ∃ p, IsEntry F { off := 0, base := 0, order := h.order, typ := h.firstIfdType, idx := 0 } h.firstIfd cnt p ∧ IsPtr p ∧
          AnyEntry F p.childIfd p.off (ptrCount F p) x) → x.ifd = ifd0 → x.id = 0x0131 → x = a) :
    r'.ex.software = trimNUL (slice F a) := by
  obtain ⟨_, hex, hcomp⟩ := decodeTiff_nested tb F buffered h cnt r' e W hsmall w hroot hrootW hres
  have hemb : a.isEmbedded = false := ha.choose_spec.2.2
  have htyp : a.typ ≠ tIfd := by
    intro ht
    unfold isASCII at hasc
    rw [ht] at hasc
    revert hasc; decide
  have hmem : a ∈ r'.parsed := hcomp.vals a ha htyp
  obtain ⟨pre, post, hsplit, hnot⟩ := last_occurrence a r'.parsed hmem
  apply software_exact hex pre post a hsplit h0 hid hemb hasc
  intro t ht hk
  have htp : t ∈ r'.parsed := by rw [hsplit]; simp [ht]
  rcases hcomp.prov t htp with hb | hb | hb
  · cases hb
  · exact hnot (by rw [← huniq t (Or.inl hb) hk.1 hk.2]; exact ht)
  · exact hnot (by rw [← huniq t (Or.inr hb) hk.1 hk.2]; exact ht)

end Imeta.Exif
