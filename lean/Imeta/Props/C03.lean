/-
  C03 — Exif fields of a well-formed file are extracted with their exact values.

  Property theorems about the reader model (Imeta.Model.Exif / ExifReader, tied to /repo by `vh run C03`,
  which also searches implementation vs an independently written encoder's records).

  What is proved here, for all inputs:  the value-level decoders invert the standard encodings, a directory
  entry decodes to what was encoded (see also C07), and the pending-tag buffer keeps its invariant under every
  sequence of operations (sorted by offset, at most 84 slots, nothing dropped when offsets are distinct).
  `C03_decode_encode` (streaming decode of every forward layout = the encoded record) is stated below as the
  target; its proof (refinement of the priority-queue reader to a random-access reader, DESIGN section 7) is not
  finished and the full statement is therefore decided by the search, not by a theorem: see `partial` in the evidence.
-/
import Imeta.Lemmas.Exif
namespace Imeta.Exif
open Imeta

/-! ## value decoders -/

/-- ASCII values: the stored bytes minus the trailing NUL / blank padding, for every string that does not itself end
in a blank — including one-character strings (the pinned tree returned "" for those). -/
theorem C03_ascii_exact (s : Bytes) (k : Nat) (h : ∀ c, s.getLast? = some c → isBlank c = false) :
    trimNUL (s ++ List.replicate k 0) = s := by
  unfold trimNUL
  rw [List.reverse_append, List.reverse_replicate, List.dropWhile_append]
  have h0 : List.dropWhile isBlank (List.replicate k (0 : UInt8)) = [] := by
    induction k with
    | zero => rfl
    | succ n ih => simp [List.replicate_succ, isBlank, ih]
  simp only [h0, List.isEmpty_nil, if_true]
  cases hs : s.reverse with
  | nil => have : s = [] := by simpa using hs
           subst this; rfl
  | cons c t =>
    have hl : s.getLast? = some c := by
      rw [List.getLast?_eq_head?_reverse, hs]; rfl
    have := h c hl
    simp only [List.dropWhile_cons, this, Bool.false_eq_true, if_false]
    rw [← hs, List.reverse_reverse]

/-- a blank-only or empty value is reported as the empty string -/
theorem C03_ascii_blank (k : Nat) : trimNUL (List.replicate k 0) = [] := by
  have := C03_ascii_exact [] k (by simp)
  simpa using this

/-- SubSecTime is a decimal fraction of a second: one, two and three (or more) digits `x y z` give
`x00`, `xy0` and `xyz` milliseconds -/
theorem C03_subsec (x y z : UInt8) (hx : 48 ≤ x.toNat ∧ x.toNat ≤ 57) (hy : 48 ≤ y.toNat ∧ y.toNat ≤ 57)
    (hz : 48 ≤ z.toNat ∧ z.toNat ≤ 57) (rest : Bytes) :
    subSecMillis [x, 0] = (x.toNat - 48) * 100 ∧
    subSecMillis [x, y, 0] = (x.toNat - 48) * 100 + (y.toNat - 48) * 10 ∧
    subSecMillis (x :: y :: z :: rest) = (x.toNat - 48) * 100 + (y.toNat - 48) * 10 + (z.toNat - 48) := by
  refine ⟨?_, ?_, ?_⟩ <;> simp [subSecMillis, subSecDigits, hx, hy, hz]

/-- a LONG value is the offset slot itself; a SHORT value is its first two bytes (see C07 for both byte orders) -/
theorem C03_long_exact (t : Tag) (h : t.typ = tLong) : parseUint32 t = .ok t.off := by
  simp [parseUint32, h]

/-! ## the pending-tag buffer: invariant over every sequence of operations -/

inductive BufOp where
  | add (t : Tag)
  | reset
  | advance

def applyOp (r : R) : BufOp → R
  | .add t => addTag r t
  | .reset => resetPosition r
  | .advance => { r with pos := r.pos + 1 }

/-- **Invariant for every reachable buffer state**: starting from the cleared buffer, after any sequence of
`addTagBuffer` / `resetPosition` / advance operations the pending tags are sorted by value offset — so they are
visited in stream order — and never occupy more than the 84 slots. -/
theorem C03_buffer_invariant (ops : List BufOp) (r : R) (hs : Sorted r.tags) (hl : r.tags.length ≤ tagMaxCount) :
    Sorted (ops.foldl applyOp r).tags ∧ (ops.foldl applyOp r).tags.length ≤ tagMaxCount := by
  induction ops generalizing r with
  | nil => exact ⟨hs, hl⟩
  | cons op rest ih =>
    simp only [List.foldl_cons]
    cases op with
    | add t => have := addTag_inv r t hs hl; exact ih _ this.1 this.2
    | reset => have := resetPosition_inv r hs hl; exact ih _ this.1 this.2
    | advance => exact ih _ hs hl

/-- the cleared buffer satisfies the invariant (non-vacuity of the hypotheses above) -/
example : Sorted ({ rest := [], po := 0, exifLength := 0, buffered := true } : R).tags ∧
    ({ rest := [], po := 0, exifLength := 0, buffered := true } : R).tags.length ≤ tagMaxCount := by
  simp [Sorted, tagMaxCount]

/-- **Nothing is dropped in a forward layout**: a tag whose value lies at or after the reader's position, with an
offset different from every pending one, is queued (the result is a permutation of the old tags plus the new one)
as long as fewer than 84 are pending. -/
theorem C03_add_keeps_all (r : R) (t : Tag) (hs : Sorted r.tags) (hpo : r.po ≤ t.off)
    (hlen : r.tags.length < tagMaxCount) (hne : ∀ x ∈ r.tags, x.off ≠ t.off) :
    (addTag r t).tags.Perm (t :: r.tags) := by
  unfold addTag
  rw [if_neg (by omega), if_pos hlen]
  cases hi : insertFrom t r.tags.length r.tags with
  | some res =>
    obtain ⟨i, _, rfl, _, _⟩ := insertFrom_spec t r.tags hs r.tags.length (Nat.le_refl _) (by simp) res hi
    simp only
    have : (List.take i r.tags ++ t :: List.drop i r.tags).Perm (t :: (List.take i r.tags ++ List.drop i r.tags)) :=
      List.perm_middle
    rwa [List.take_append_drop] at this
  | none =>
    simp only
    cases htags : r.tags with
    | nil => exact List.Perm.refl _
    | cons h tl =>
      simp only
      have hh : h.off ≠ t.off := hne h (by rw [htags]; simp)
      -- `insertFrom` found no smaller offset, so the head is not smaller; being different it is larger
      have hge : ¬ t.off > h.off := by
        intro hgt
        have : insertFrom t r.tags.length r.tags ≠ none := by
          rw [htags]
          clear hi hne hs hlen htags hpo
          generalize tl.length = n
          -- scanning down from any height reaches index 0, where the test succeeds
          have key : ∀ m, m ≤ (h :: tl).length → 0 < m → insertFrom t m (h :: tl) ≠ none := by
            intro m
            induction m with
            | zero => intro _ h0; omega
            | succ k ih =>
              intro hk _
              have hk' : k < (h :: tl).length := by omega
              simp only [insertFrom, List.getElem?_eq_getElem hk']
              split
              · simp
              · by_cases hk0 : k = 0
                · subst hk0; rename_i hle; simp at hle; omega
                · exact ih (by omega) (by omega)
          exact key _ (Nat.le_refl _) (by simp)
        exact this hi
      rw [if_pos (by omega)]

end Imeta.Exif
