/-
  C13 — element form, names and values, for a whole list of simple elements, and attribute form = element form
  (Lemmas/XmpElem.lean).
-/
import Imeta.Lemmas.XmpElem
import Imeta.Props.C13b
namespace Imeta.Props.C13
open Imeta Imeta.Xmp

/-- **A start tag is read exactly, behind any white space.**  `<ns:name>` behind a run `ws` of any bytes other than '<'
(white space between elements; any length up to W − 128 = 1410 bytes, i.e. across every 128-byte step of the look-ahead):
the tag is the start tag of `identify ns name`, the reader has consumed exactly the run and the tag, no attribute is
pending. -/
theorem C13_start_tag_exact (parent : Tag) (st : St) (ws : Bytes) (n0 : UInt8) (ns name R : Bytes)
    (hr : st.rest = ws ++ 60 :: ((n0 :: ns) ++ 58 :: (name ++ 62 :: R)))
    (hws : ∀ x ∈ ws, (x == 60) = false) (hwin : ws.length + 128 ≤ W)
    (h0 : n0 ≠ 47 ∧ n0 ≠ 63) (hns : ∀ x ∈ n0 :: ns, (x == 58) = false) (hname : ∀ x ∈ name, isTerm x = false)
    (hfit : ns.length + name.length + 4 ≤ 128) (h4 : 4 < st.rest.length) :
    readTagHeader parent st = (.ok { t := .start, parent := parent.self, self := identify (n0 :: ns) name }, { st with a := false, rest := R }) :=
  readTagHeader_start_exact parent st ws n0 ns name R hr hws hwin h0 hns hname hfit h4

/-- the stop tag `</ns:name>` likewise -/
theorem C13_stop_tag_exact (parent : Tag) (st : St) (ws : Bytes) (n0 : UInt8) (ns name R : Bytes)
    (hr : st.rest = ws ++ 60 :: 47 :: ((n0 :: ns) ++ 58 :: (name ++ 62 :: R)))
    (hws : ∀ x ∈ ws, (x == 60) = false) (hwin : ws.length + 128 ≤ W)
    (hns : ∀ x ∈ n0 :: ns, (x == 58) = false) (hname : ∀ x ∈ name, isTerm x = false)
    (hfit : ns.length + name.length + 5 ≤ 128) :
    readTagHeader parent st = (.ok { t := .stop, parent := parent.self, self := identify (n0 :: ns) name }, { st with a := false, rest := R }) :=
  readTagHeader_stop_exact parent st ws n0 ns name R hr hws hwin hns hname hfit

/-- **A whole list of simple elements is reported exactly.**  The reader stands inside an element (`parent`, e.g.
rdf:Description) with no attribute pending; the stream holds the elements `<ns:name>v</ns:name>`, each behind any run of
bytes other than '<' (white space of any kind and any length up to 1410 bytes), then `R`.  Each element satisfies `Elem.OK`
(prefix without ':', not starting with '/' or '?'; local name without '>', '/' or white space; tag within the 128-byte
look-ahead; value without '<', not starting with white space, shorter than 1536 bytes (any of the three look-ahead windows); the property is neither
an array nor the root).  Then the rounds of readTag over the list hand the parser layer exactly one token per element —
kind element, parent `parent`, property `identify ns name`, value v — in document order, consume exactly the elements, and
go on behind the last one (`R`) exactly as they would there.  -/
theorem C13_element_list_exact (parent : Tag) (R : Bytes) (l : List (Bytes × Elem)) (f : Nat) (st : St)
    (ha : st.a = false) (hr : st.rest = serE l ++ R)
    (hok : ∀ p ∈ l, (∀ x ∈ p.1, (x == 60) = false) ∧ p.1.length + 128 ≤ W ∧ p.2.OK) :
    readTag (f + 1 + l.length) parent st = readTag (f + 1) parent { rest := R, a := false, toks := pushE parent.self l st.toks } :=
  readTag_elements_exact parent R l f st ha hr hok

/-- **Attribute form = element form.**  For the same names and values, the tokens of an attribute list (C13_attribute_list_exact)
and of an element list (C13_element_list_exact) below the same tag agree in parent, property and value, in the same order:
the value parsers see the same thing whichever form the writer chose. -/
theorem C13_attribute_element_same_tokens (P : Prop2) (l : List (Bytes × Bytes × Attr × UInt8 × Bytes))
    (hv : ∀ p ∈ l, p.2.2.1.v = p.2.2.2.1 :: p.2.2.2.2) :
    (pushAll P (l.map fun p => (p.1, p.2.2.1)) []).map Tok.key =
    (pushE P (l.map fun p => (p.2.1, p.2.2.1.toElem p.2.2.2.1 p.2.2.2.2)) []).map Tok.key :=
  attr_elem_same_tokens P l [] [] hv rfl

/-! non-vacuity: `<tiff:Make>Canon</tiff:Make>\n <tiff:Model>EOS</tiff:Model></rdf:Description>` below rdf:Description -/
def eMake : Elem := { n0 := 116, ns := [105, 102, 102], name := [77, 97, 107, 101], c := 67, v' := [97, 110, 111, 110] }
def eModel : Elem := { n0 := 116, ns := [105, 102, 102], name := [77, 111, 100, 101, 108], c := 69, v' := [79, 83] }
example : eMake.OK ∧ eModel.OK := by
  constructor <;> exact ⟨by decide, by decide, by decide, by decide, by decide, by decide, by decide, by decide +kernel, by decide +kernel⟩
example : serE [([], eMake), ([10, 32], eModel)] ++ ("</rdf:Description>").toUTF8.toList =
    ("<tiff:Make>Canon</tiff:Make>\n <tiff:Model>EOS</tiff:Model></rdf:Description>").toUTF8.toList := by decide +kernel
def descTag : Tag := { t := .start, self := identify (s "rdf") (s "Description") }
example : ((readTag 4 descTag { rest := ("<tiff:Make>Canon</tiff:Make>\n <tiff:Model>EOS</tiff:Model></rdf:Description>").toUTF8.toList, a := false, toks := [] }).2.toks.map (·.val),
           (readTag 4 descTag { rest := ("<tiff:Make>Canon</tiff:Make>\n <tiff:Model>EOS</tiff:Model></rdf:Description>").toUTF8.toList, a := false, toks := [] }).2.rest) =
    ([[69, 79, 83], [67, 97, 110, 111, 110]], []) := by decide +kernel
/-- the attribute and the element spelling of tiff:Make = Canon give the same (parent, property, value) -/
example : (pushAll descTag.self [([32], aMake)] []).map Tok.key = (pushE descTag.self [([], eMake)] []).map Tok.key := by decide +kernel

end Imeta.Props.C13
