/-
  C02 — Every decode terminates after work linear in the input size.

  Progress theorems for the loops that are modelled: every iteration consumes input or returns, and the number
  of iterations is bounded linearly by the input length.
-/
import Imeta.Props.C10
import Imeta.Props.C12
import Imeta.Model.Png
import Imeta.Props.C11
import Imeta.Lemmas.XmpTotal
import Imeta.Lemmas.ExifWalk
import Imeta.Lemmas.BmffWalks
import Imeta.Lemmas.QSelect
import Imeta.Lemmas.TiffReq
import Imeta.Model.PngReq
namespace Imeta.C02
open Imeta

/-- JPEG: every pass through the marker loop that does not finish the scan shortens the unread stream
(this is the lemma the pinned tree violated at SOI depth 0; replayed and repaired, see known_findings) -/
theorem C02_jpeg_progress (cb : Jpeg.Cbs) (s s' : Jpeg.St) (evs : List Jpeg.Ev) (h : Jpeg.step cb s = .next s' evs) :
    s'.rest.length < s.rest.length := Jpeg.step_progress cb s s' evs h

/-- JPEG: hence at most `len + 2` passes for any input and any callbacks -/
theorem C02_jpeg_terminates (cb : Jpeg.Cbs) (b : Bytes) : (Jpeg.scan cb b).isSome = true := Jpeg.C10_scan_terminates cb b

/-- TIFF header search: at most `len + 1` iterations (one `Peek` each) -/
theorem C02_tiff_linear (b : Bytes) (fuel : Nat) : Tiff.iterations fuel b ≤ b.length + 1 := Tiff.C12_iterations_linear b fuel

/-- PNG chunk walk: every iteration consumes the 8-byte chunk header, so `len/8 + 2` iterations suffice -/
theorem png_chunks_fuel (b : Bytes) (f pos : Nat) (h : b.length < pos + 8 * f) : (Png.chunks b (f + 1) pos).isFuel = false := by
  induction f generalizing pos with
  | zero =>
    unfold Png.chunks Png.read8
    rw [if_neg (by omega)]; rfl
  | succ k ih =>
    unfold Png.chunks
    split
    · rfl
    · split
      · split
        · rfl
        · dsimp only; split <;> rfl
      · exact ih _ (by omega)

theorem C02_png_terminates (b : Bytes) : (Png.scan b).isFuel = false := by
  unfold Png.scan
  split
  · rfl
  · split
    · exact png_chunks_fuel b (b.length / 8 + 1) 8 (by omega)
    · rfl


/-- ISOBMFF: every inner-box loop is given (unread bytes)/8 + 2 rounds and never needs more (a round that continues has
consumed at least the 8 bytes of a box header): the "fuel" outcome is unreachable -/
theorem C02_isobmff_loops_bounded {h : Bytes → Bmff.M Unit} (hp : ∀ t, Bmff.Pres (h t)) (hh : ∀ t, Bmff.NP (h t)) (oe : Bmff.OnErr)
    (s : Bmff.St) (hn : s.chain ≠ []) : Bmff.NPat (Bmff.innerLoop h oe (s.rest.length / 8 + 2)) s :=
  Bmff.innerLoop_total hp hh oe _ s hn (by omega)


/-- ISOBMFF item walks over a peeked buffer (readInfe over the iinf payload, readIloc over the iloc entries): the rounds
the model allows (|buf|/12+1 resp. |buf|/6+1) are never used up — the result is the same for every larger number of
rounds, because a round that continues has advanced the cursor by at least 12 resp. 6 bytes (an iloc entry with
extent_count 0 still advances by the entry header).  The loop in the code has no counter: this is what makes it end. -/
theorem C02_isobmff_item_walks (buf : Bytes) (g : Nat) :
    (∀ ids, buf.length / 12 + 1 ≤ g → Bmff.infeWalk buf g 0 ids = Bmff.infeWalk buf (buf.length / 12 + 1) 0 ids) ∧
    (∀ c e x ol, buf.length / 6 + 1 ≤ g → Bmff.ilocWalk c e x buf g 0 ol = Bmff.ilocWalk c e x buf (buf.length / 6 + 1) 0 ol) :=
  ⟨fun ids h => Bmff.infeWalk_total buf ids g h, fun c e x ol h => Bmff.ilocWalk_total c e x buf ol g h⟩

/-- XMP: ParseXmp of the model ends for every input with the fuel it is given (unread length + 8): the look-ahead loops
give up after at most 4 resp. 13 windows, every other loop (root search, tags, attributes, array items) consumes at least
one byte per round -/
theorem C02_xmp_terminates (b : Bytes) : ¬ Xmp.isFuel (Xmp.parseXmp b).1 := Xmp.parseXmp_total b

/-- Exif: the directory walk (`readIfd`'s work loop over the pending-tag buffer, with child directories, sub-IFD
lists and maker notes queued while it runs) ends for every input, byte order, tables and entry variant with the
fuel 200·(length+16) the model passes.  The potential 4·(pending tags) + (unread bytes) − 4·(position) never grows
inside the directory reader — every queued tag is paid for by at least four bytes consumed — and every round of the
loop advances the position, so the potential falls by at least 4 per round: the number of rounds is at most
(length)/4 + 1, linear in the input.  No function below the loop can report `fuel` (they are structurally recursive). -/
theorem C02_exif_terminates (tb : Exif.Tables) (rest : Bytes) (buffered : Bool) (h : Exif.Hdr) :
    Exif.decodeTiff tb rest buffered h ≠ .fuel ∧ Exif.decodeJPEGIfd tb rest buffered h ≠ .fuel ∧
    Exif.decodeIfd tb rest buffered h ≠ .fuel :=
  ⟨(Exif.decodeTiff_NF tb rest buffered h).h, (Exif.decodeJPEGIfd_NF tb rest buffered h).h, (Exif.decodeIfd_NF tb rest buffered h).h⟩

/-- exif2.Parse (header search, then DecodeTiff) never runs out of fuel either -/
theorem C02_exif_parse_terminates (tb : Exif.Tables) (b : Bytes) : Exif.parse tb b ≠ .fuel := by
  unfold Exif.parse
  have hs := (Tiff.C12_no_panic b (b.length + 1) (Nat.lt_succ_self _)).2
  split
  · rename_i hd _
    have := (Exif.decodeTiff_NF tb (b.drop hd.offset) false { order := hd.order, firstIfd := hd.firstIfd, firstIfdType := Exif.ifd0, exifLength := 0, imageType := 0 }).h
    intro hc
    cases hx : Exif.decodeTiff tb (b.drop hd.offset) false { order := hd.order, firstIfd := hd.firstIfd, firstIfdType := Exif.ifd0, exifLength := 0, imageType := 0 } with
    | ok v => simp [hx, Outcome.bind] at hc
    | err k => simp [hx, Outcome.bind] at hc
    | panic p => simp [hx, Outcome.bind] at hc
    | fuel => exact this hx
  · intro hc; cases hc
  · intro hc; cases hc
  · rename_i hq; simp [hq, Outcome.isFuel] at hs

/-- the per-round decrease itself: a round of the work loop that continues does so from a state whose potential is at
least 4 smaller (stated for the three kinds of round through `step_ok`) -/
theorem C02_exif_round_decreases (r rn : Exif.R) (h : Exif.Pay 0 r rn) (hlt : r.pos < r.tags.length) :
    Exif.M { rn with pos := rn.pos + 1 } + 4 ≤ Exif.M r := (Exif.step_ok r rn h hlt).2

/-- non-vacuity: a fresh reader over 20 bytes meets the hypotheses of the loop theorem with the fuel it is given -/
example : let r : Exif.R := { rest := List.replicate 20 0, po := 0, exifLength := 0, buffered := true }
    r.pos ≤ r.tags.length ∧ Exif.M r < Exif.fuelFor r.rest := by decide

/-- perceptual hashes: the in-place quickselect that finds the median ends, for every array over a strict weak order and
every k inside the range, within 2·(hi-low)+1 rounds (the model's 2n+2 are never used up) -/
theorem C02_quickselect_terminates {α : Type} [LT α] [DecidableLT α] (sw : Hash.StrictWeak α) (k low hi fuel : Nat) (a : Array α)
    (g : Hash.G k low hi a) (hf : 2 * (hi - low) + 1 < fuel) : ∃ a', Hash.qselLoop k fuel low hi a = .ok a' :=
  let ⟨a', h, _⟩ := Hash.qsel_spec sw k fuel low hi a g (Or.inl hf)
  ⟨a', h⟩

/-- **Bytes requested by the TIFF header search.**  Over a bufio.Reader of any capacity S ≥ 32 (4096 in
tiff.ScanTiffHeader) on a source that delivers what it has up to the length asked for (an in-memory reader, a file), for
every input: the search with the request counters next to it finds what the scan model finds (the counters change
nothing), and it asks the source for at most len + 2·S bytes — every Read that is answered in full costs what it
delivers, the one Read that exhausts the source and the one Read that finds it empty cost at most a buffer each, and the
search ends at the first look-ahead that fails.  With S = 4096 that is within the property's 4·len + 64 KiB. -/
theorem C02_tiff_requested (S : Nat) (hS : 32 ≤ S) (b : Bytes) :
    let r := Tiff.scanC S (b.length + 1) b 0 { buffered := 0, srcLeft := b.length, req := 0, reads := 0 }
    r.1 = Tiff.scan (b.length + 1) b 0 ∧ r.2.req ≤ b.length + 2 * S := by
  refine ⟨Tiff.scanC_outcome S hS _ b 0 _ (by simp) (by simp), ?_⟩
  have := Tiff.scanC_req S hS (b.length + 1) b 0 { buffered := 0, srcLeft := b.length, req := 0, reads := 0 } (by simp)
  unfold Tiff.budget at this
  show (Tiff.scanC S (b.length + 1) b 0 { buffered := 0, srcLeft := b.length, req := 0, reads := 0 }).2.req ≤ b.length + 2 * S
  split at this <;> simp only [] at this <;> omega

theorem C02_tiff_requested_4096 (b : Bytes) :
    (Tiff.scanC 4096 (b.length + 1) b 0 { buffered := 0, srcLeft := b.length, req := 0, reads := 0 }).2.req ≤ 4 * b.length + 65536 := by
  have h : (Tiff.scanC 4096 (b.length + 1) b 0 { buffered := 0, srcLeft := b.length, req := 0, reads := 0 }).2.req ≤ b.length + 2 * 4096 :=
    (C02_tiff_requested 4096 (by omega) b).2
  omega

/-- non-vacuity: 64 bytes of 'M' (no header; the search steps one byte at a time): 33 look-aheads succeed, the 34th fails,
two Reads, 8161 bytes requested -/
example : (Tiff.scanC 4096 65 (List.replicate 64 0x4d) 0 { buffered := 0, srcLeft := 64, req := 0, reads := 0 }) =
    (.err .noExif, { buffered := 31, srcLeft := 0, req := 8161, reads := 2 }) := by decide +kernel

/-- **Bytes requested by the PNG chunk walk.**  On a source that delivers what it has up to the length asked for, for every
input: the walk asks for at most len + 16 bytes — every header it reads in full costs its 8 bytes, the headers lie at
strictly increasing positions (each step seeks forward over the chunk), and only the last, failing io.ReadFull can cost up to
two Reads of 8.  Within the property's 4·len + 64 KiB. -/
theorem C02_png_requested (b : Bytes) : Png.scanReq b ≤ b.length + 16 := Png.scanReq_le b

/-- non-vacuity: signature + IHDR + a chunk header cut off after 5 bytes: 8 + 8 + (8 + 3) = 27 -/
example : Png.scanReq (Png.signature ++ [0, 0, 0, 0, 73, 72, 68, 82, 0, 0, 0, 0] ++ [0, 0, 0, 9, 116]) = 27 := by decide +kernel

end Imeta.C02
