/-
  C15 — Logging is neutral: any log level, same results; the default configuration is silent.

  (1) A generic effect model: a decode is a sequence of state steps and log statements; a log statement evaluates
      its message only when its level is enabled, appends it to the logger's output and never touches the state.
      For that shape of program the result is independent of the level, and at the default level (panic) nothing is
      emitted as long as no call site logs at panic level or above.
  (2) The premises are facts about the source, regenerated on every run (Imeta.Gen.Facts) and compared here with the
      expected lists: the only direct write to stdout is xmp.parseUUID's `fmt.Println`, behind `DebugMode` (false by
      default); nothing else bypasses the logger.
  Whether each real call site has that shape (level guard, side-effect-free arguments) is decided behaviourally by
  `vh run C15`: every entry point at every level against the default, with fds 1 and 2 of the worker measured.
-/
import Imeta.Gen.Facts
namespace Imeta.C15

/-- zerolog levels: trace = 0 … panic = 5 (the default), disabled = 7 -/
abbrev Level := Nat
abbrev panicLevel : Nat := 5

inductive Step (σ : Type) where
  | act (f : σ → σ)
  | log (lvl : Level) (msg : σ → String)

/-- run at logger level `L`: a statement at level `lvl` is emitted iff `L ≤ lvl` -/
def run {σ} (L : Level) : List (Step σ) → σ → σ × List String
  | [], s => (s, [])
  | .act f :: t, s => run L t (f s)
  | .log lvl msg :: t, s =>
    let r := run L t s
    if L ≤ lvl then (r.1, msg s :: r.2) else r

/-- **Neutrality**: the final state (value and error of the decode) is the same at every level. -/
theorem C15_log_neutral {σ} (L1 L2 : Level) (p : List (Step σ)) (s : σ) : (run L1 p s).1 = (run L2 p s).1 := by
  induction p generalizing s with
  | nil => rfl
  | cons st t ih =>
    cases st with
    | act f => exact ih (f s)
    | log lvl msg =>
      simp only [run]
      split <;> split <;> exact ih s

/-- **Default silence**: with the default level (panic) a program whose statements all log below panic emits nothing. -/
theorem C15_default_silent {σ} (p : List (Step σ)) (s : σ)
    (h : ∀ st ∈ p, ∀ lvl msg, st = Step.log lvl msg → lvl < panicLevel) : (run panicLevel p s).2 = [] := by
  induction p generalizing s with
  | nil => rfl
  | cons st t ih =>
    cases st with
    | act f => exact ih (f s) (fun x hx => h x (by simp [hx]))
    | log lvl msg =>
      have hl := h (.log lvl msg) (by simp) lvl msg rfl
      simp only [run]
      have hl' : ¬ panicLevel ≤ lvl := Nat.not_le_of_gt hl
      rw [if_neg hl']
      exact ih s (fun x hx => h x (by simp [hx]))

/-- **Fact (regenerated)**: the library writes to stdout/stderr directly at exactly one call site, which is behind
`xmp.DebugMode` (false unless the application sets it). A new `fmt.Print*`, `println` or `os.Stdout` use anywhere in
the library packages changes the generated list and breaks this theorem. -/
theorem C15_no_direct_stdout : Imeta.Gen.Facts.printSites = ["xmp/parser.go:parseUUID:fmt.Println"] := by decide

/-- **Fact (regenerated)**: every write to a package-level variable outside `init`: the loggers are written only by
`SetLogger` (configuration), the time-zone cache only under its write lock, the blur-hash tables only by their
initialisers -/
theorem C15_package_variable_writes : Imeta.Gen.Facts.varWrites = [
    "exif2/time.go:getLocation:cacheTimeZone:index-assign:lock",
    "imagehash/blurhash.go:initLinearTable:channelToLinear:index-assign:none",
    "imagehash/blurhash.go:initStaticBlurHashValues:xvalues:index-assign:none",
    "imagehash/blurhash.go:initStaticBlurHashValues:yvalues:index-assign:none",
    "log.go:SetLogger:exif2.Logger:assign",
    "log.go:SetLogger:isobmff.Logger:assign",
    "log.go:SetLogger:jpeg.Logger:assign",
    "log.go:SetLogger:logger:assign"] := by decide

/-- **Fact (regenerated)**: what the log-level guards guard.  Every `if` whose condition asks for the log level
(`logLevel*()` or a variable assigned from it) has no else branch and a body made of logger call chains only, with the
ten exceptions listed here, all of which compute block-local values for the message (`:=` definitions, a method call
on the local event).  In particular no `break`, `continue`, `return`, assignment to an outer variable or other call
sits under a level guard, and no `switch`, `for` or `return` (outside the guard definitions themselves) depends on the
level: this is the premise "a log statement never touches the state" of `C15_log_neutral` for the control flow.
`readIref` used to `break` under such a guard (fixed, see known_findings). -/
theorem C15_level_guards_guard_logging_only : Imeta.Gen.Facts.logGuards = [
    "exif2/log.go:*ifdReader.logTraceFunction:if ir.logLevelTrace():*ast.AssignStmt:details := runtime.FuncForPC(pc)",
    "exif2/log.go:*ifdReader.logTraceFunction:if ir.logLevelTrace():*ast.AssignStmt:pc, _, _, ok := runtime.Caller(2)",
    "exif2/log.go:*ifdReader.logTraceFunction:if ir.logLevelTrace():*ast.IfStmt:if ok && details != nil { ev.Str(\"fn\", details.Name()) }",
    "isobmff/iinf.go:*Reader.readInfe:if logLevelDebug():*ast.AssignStmt:ev := logDebug().Str(\"BoxType\", boxType.String()).Object(\"flags\", flags).Uint16(\"itemID\", ...",
    "isobmff/iinf.go:*Reader.readInfe:if logLevelDebug():*ast.AssignStmt:protectionIndex := bmffEndian.Uint16(buf[i+14 : i+16])",
    "isobmff/iinf.go:*Reader.readInfe:if logLevelDebug():*ast.ExprStmt:ev.Send()",
    "isobmff/iinf.go:*Reader.readInfe:if logLevelDebug():*ast.IfStmt:if itemType == itemTypeMime { ev.Str(\"contentType\", contentType.String()) }",
    "isobmff/log.go:logTraceFunction:if logLevelTrace():*ast.AssignStmt:details := runtime.FuncForPC(pc)",
    "isobmff/log.go:logTraceFunction:if logLevelTrace():*ast.AssignStmt:pc, _, _, ok := runtime.Caller(2)",
    "isobmff/log.go:logTraceFunction:if logLevelTrace():*ast.IfStmt:if ok && details != nil { ev.Str(\"fn\", details.Name()) }"] := by decide +kernel

/-- non-vacuity: a two-step program that logs a message derived from the state at debug level -/
example : (run 0 [Step.act (· + 1), Step.log 1 (fun s : Nat => toString s)] 41).1 = (run panicLevel [Step.act (· + 1), Step.log 1 (fun s : Nat => toString s)] 41).1 := rfl

end Imeta.C15
