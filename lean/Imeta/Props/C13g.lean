/-
  C13 — bytes before the root element are skipped (Lemmas/XmpRoot.lean).
-/
import Imeta.Lemmas.XmpRoot
import Imeta.Props.C13f
namespace Imeta.Props.C13
open Imeta Imeta.Xmp

/-- **Bytes before the root element are skipped.**  The stream holds any number of stretches `g <` (bytes without '<', then a
'<' that is not followed by `x:xmpmeta`: an xpacket processing instruction, other tags, arbitrary bytes; each stretch
shorter than the 1538-byte buffer), then `g <x:xmpmeta A >` with A free of '>' (the namespace attributes), then R.  The
root search returns the root start tag and leaves the stream exactly at R; nothing before the root element influences
what is parsed after it. -/
theorem C13_leading_bytes_skipped (gs : List Bytes) (g A R : Bytes) (f : Nat) (st : St)
    (hr : st.rest = serJ gs (g ++ 60 :: (rootName ++ A ++ 62 :: R)))
    (hj : JunkOK gs (g ++ 60 :: (rootName ++ A ++ 62 :: R)))
    (hg : ∀ x ∈ g, (x == 60) = false) (hlen : g.length < W) (hA : ∀ x ∈ A, (x == 62) = false) (hAlen : 9 + A.length < W) :
    readRootTag (f + 1 + gs.length) st = (.ok { t := .start, self := rootProp }, { st with rest := R }) :=
  readRootTag_exact gs g A R f st hr hj hg hlen hA hAlen

/-! non-vacuity: `junk<?xpacket begin="" id="W5M0"?>\n<x:xmpmeta xmlns:x="adobe:ns:meta/"><rdf:RDF>` -/
def jHead : Bytes := ("junk").toUTF8.toList
def jPI : Bytes := ("?xpacket begin=\"\" id=\"W5M0\"?>\n").toUTF8.toList
def jAttrs : Bytes := (" xmlns:x=\"adobe:ns:meta/\"").toUTF8.toList
def jRest : Bytes := ("<rdf:RDF>").toUTF8.toList
example : serJ [jHead] (jPI ++ 60 :: (rootName ++ jAttrs ++ 62 :: jRest)) =
    ("junk<?xpacket begin=\"\" id=\"W5M0\"?>\n<x:xmpmeta xmlns:x=\"adobe:ns:meta/\"><rdf:RDF>").toUTF8.toList := by decide +kernel
example : JunkOK [jHead] (jPI ++ 60 :: (rootName ++ jAttrs ++ 62 :: jRest)) ∧ (∀ x ∈ jPI, (x == 60) = false) ∧ jPI.length < W ∧
    (∀ x ∈ jAttrs, (x == 62) = false) ∧ 9 + jAttrs.length < W := by
  refine ⟨⟨by decide +kernel, by decide +kernel, by decide +kernel, by decide +kernel, trivial⟩, by decide +kernel, by decide +kernel, by decide +kernel, by decide +kernel⟩
example : (readRootTag 5 { rest := ("junk<?xpacket begin=\"\" id=\"W5M0\"?>\n<x:xmpmeta xmlns:x=\"adobe:ns:meta/\"><rdf:RDF>").toUTF8.toList, a := false, toks := [] }).2.rest = jRest := by decide +kernel

end Imeta.Props.C13
