/-
  C17 — Every enum and tag value formats without panicking; known values by their name.

  Property theorems only.  The functions are GENERATED from /repo on every run
  (Imeta.Gen.Enums, by tools/cmd/gotypes2lean); the documented names are the
  hand-written tables of Imeta.Spec.Enums.
-/
import Imeta.Lemmas.Enums
set_option linter.unusedSimpArgs false
set_option linter.unusedVariables false
set_option maxRecDepth 100000
namespace Imeta.C17
open Imeta Imeta.Gen.Enums Imeta.EnumSpec Imeta.EnumLemmas

/-- closes a goal about a generated stringer for a symbolic value outside `[0, N)`, the range of
the documented keys: map lookups miss, every remaining branch is either impossible (omega) or
returns the fallback (evaluation) -/
macro "enum_far" N:term : tactic => `(tactic|
  ((try simp (disch := first | decide | omega) only [gmapGet_far (N := $N)]) <;>
   (try dsimp only) <;>
   (repeat' split) <;>
   (try simp only [decide_eq_true_eq, decide_eq_false_iff_not, beq_iff_eq, Bool.or_eq_true, Bool.and_eq_true,
      Bool.not_eq_true, beq_eq_false_iff_ne, ne_eq, Int.ofNat_eq_natCast, Bool.false_eq_true,
      Bool.true_eq_false, Option.isSome_none, Option.getD_none] at * ) <;>
   (first | omega | rfl | decide +kernel)))

/-- `imagetype_ImageType_String`: every value of the type formats, without panic, as its documented name
(documented values) or the fallback (all others). -/
theorem imagetype_ImageType_String_names (n : Nat) (h : n < 256) :
    imagetype_ImageType_String (n : Int) = .ok (imageType.name (n : Int)) := by
  by_cases hn : n < 24
  · clear h; revert n; decide +kernel
  · rw [Doc.name_far imageType 24 _ (by decide) (Or.inr (by omega))]
    unfold imagetype_ImageType_String
    enum_far 24

/-- `imagetype_ImageType_Extension`: every value of the type formats, without panic, as its documented name
(documented values) or the fallback (all others). -/
theorem imagetype_ImageType_Extension_names (n : Nat) (h : n < 256) :
    imagetype_ImageType_Extension (n : Int) = .ok (imageTypeExt.name (n : Int)) := by
  by_cases hn : n < 24
  · clear h; revert n; decide +kernel
  · rw [Doc.name_far imageTypeExt 24 _ (by decide) (Or.inr (by omega))]
    unfold imagetype_ImageType_Extension
    enum_far 24

/-- `exif2_ifds_IfdType_String`: every value of the type formats, without panic, as its documented name
(documented values) or the fallback (all others). -/
theorem exif2_ifds_IfdType_String_names (n : Nat) (h : n < 256) :
    exif2_ifds_IfdType_String (n : Int) = .ok (ifdType.name (n : Int)) := by
  by_cases hn : n < 20
  · clear h; revert n; decide +kernel
  · rw [Doc.name_far ifdType 20 _ (by decide) (Or.inr (by omega))]
    unfold exif2_ifds_IfdType_String exif2_ifds_IfdType_String_rec
    enum_far 20

/-- `exif2_tag_Type_String`: every value of the type formats, without panic, as its documented name
(documented values) or the fallback (all others). -/
theorem exif2_tag_Type_String_names (n : Nat) (h : n < 256) :
    exif2_tag_Type_String (n : Int) = .ok (tagType.name (n : Int)) := by
  by_cases hn : n < 242
  · clear h; revert n; decide +kernel
  · rw [Doc.name_far tagType 242 _ (by decide) (Or.inr (by omega))]
    unfold exif2_tag_Type_String exif2_tag_Type_String_rec
    enum_far 242

/-- `meta_MeteringMode_String`: every value of the type formats, without panic, as its documented name
(documented values) or the fallback (all others). -/
theorem meta_MeteringMode_String_names (n : Nat) (h : n < 65536) :
    meta_MeteringMode_String (n : Int) = .ok (meteringMode.name (n : Int)) := by
  by_cases hn : n < 256
  · clear h; revert n; decide +kernel
  · rw [Doc.name_far meteringMode 256 _ (by decide) (Or.inr (by omega))]
    unfold meta_MeteringMode_String
    enum_far 256

/-- `meta_ExposureMode_String`: every value of the type formats, without panic, as its documented name
(documented values) or the fallback (all others). -/
theorem meta_ExposureMode_String_names (n : Nat) (h : n < 65536) :
    meta_ExposureMode_String (n : Int) = .ok (exposureMode.name (n : Int)) := by
  by_cases hn : n < 3
  · clear h; revert n; decide +kernel
  · rw [Doc.name_far exposureMode 3 _ (by decide) (Or.inr (by omega))]
    unfold meta_ExposureMode_String
    enum_far 3

/-- `meta_ExposureProgram_String`: every value of the type formats, without panic, as its documented name
(documented values) or the fallback (all others). -/
theorem meta_ExposureProgram_String_names (n : Nat) (h : n < 65536) :
    meta_ExposureProgram_String (n : Int) = .ok (exposureProgram.name (n : Int)) := by
  by_cases hn : n < 10
  · clear h; revert n; decide +kernel
  · rw [Doc.name_far exposureProgram 10 _ (by decide) (Or.inr (by omega))]
    unfold meta_ExposureProgram_String meta_ExposureProgram_String_rec
    enum_far 10

/-- `meta_Orientation_String`: every value of the type formats, without panic, as its documented name
(documented values) or the fallback (all others). -/
theorem meta_Orientation_String_names (n : Nat) (h : n < 65536) :
    meta_Orientation_String (n : Int) = .ok (orientation.name (n : Int)) := by
  by_cases hn : n < 9
  · clear h; revert n; decide +kernel
  · rw [Doc.name_far orientation 9 _ (by decide) (Or.inr (by omega))]
    unfold meta_Orientation_String meta_Orientation_String_rec
    enum_far 9

/-- `meta_Flash_String`: every value of the type formats, without panic, as its documented name
(documented values) or the fallback (all others). -/
theorem meta_Flash_String_names (n : Nat) (h : n < 65536) :
    meta_Flash_String (n : Int) = .ok (flash.name (n : Int)) := by
  by_cases hn : n < 96
  · clear h; revert n; decide +kernel
  · rw [Doc.name_far flash 96 _ (by decide) (Or.inr (by omega))]
    unfold meta_Flash_String meta_Flash_String_rec
    enum_far 96

/-- `meta_utils_ByteOrder_String` (signed type): every value, negative ones included, formats without panic as
its documented name or the fallback. -/
theorem meta_utils_ByteOrder_String_names (v : Int) (hlo : -128 ≤ v) (hhi : v ≤ 127) :
    meta_utils_ByteOrder_String v = .ok (byteOrder.name v) := by
  by_cases hn : 0 ≤ v ∧ v < 3
  · obtain ⟨n, rfl⟩ := Int.eq_ofNat_of_zero_le hn.1
    have hn' : n < 3 := by omega
    clear hlo hhi hn; revert n; decide +kernel
  · rw [Doc.name_far byteOrder 3 _ (by decide) (by omega)]
    unfold meta_utils_ByteOrder_String
    enum_far 3

/-- `meta_canon_ContinuousDrive_String` (signed type): every value, negative ones included, formats without panic as
its documented name or the fallback. -/
theorem meta_canon_ContinuousDrive_String_names (v : Int) (hlo : -32768 ≤ v) (hhi : v ≤ 32767) :
    meta_canon_ContinuousDrive_String v = .ok (canonContinuousDrive.name v) := by
  by_cases hn : 0 ≤ v ∧ v < 11
  · obtain ⟨n, rfl⟩ := Int.eq_ofNat_of_zero_le hn.1
    have hn' : n < 11 := by omega
    clear hlo hhi hn; revert n; decide +kernel
  · rw [Doc.name_far canonContinuousDrive 11 _ (by decide) (by omega)]
    unfold meta_canon_ContinuousDrive_String
    enum_far 11

/-- `meta_canon_FocusMode_String` (signed type): every value, negative ones included, formats without panic as
its documented name or the fallback. -/
theorem meta_canon_FocusMode_String_names (v : Int) (hlo : -32768 ≤ v) (hhi : v ≤ 32767) :
    meta_canon_FocusMode_String v = .ok (canonFocusMode.name v) := by
  by_cases hn : 0 ≤ v ∧ v < 520
  · obtain ⟨n, rfl⟩ := Int.eq_ofNat_of_zero_le hn.1
    have hn' : n < 520 := by omega
    clear hlo hhi hn; revert n; decide +kernel
  · rw [Doc.name_far canonFocusMode 520 _ (by decide) (by omega)]
    unfold meta_canon_FocusMode_String
    enum_far 520

/-- `meta_canon_MeteringMode_String` (signed type): every value, negative ones included, formats without panic as
its documented name or the fallback. -/
theorem meta_canon_MeteringMode_String_names (v : Int) (hlo : -32768 ≤ v) (hhi : v ≤ 32767) :
    meta_canon_MeteringMode_String v = .ok (canonMeteringMode.name v) := by
  by_cases hn : 0 ≤ v ∧ v < 6
  · obtain ⟨n, rfl⟩ := Int.eq_ofNat_of_zero_le hn.1
    have hn' : n < 6 := by omega
    clear hlo hhi hn; revert n; decide +kernel
  · rw [Doc.name_far canonMeteringMode 6 _ (by decide) (by omega)]
    unfold meta_canon_MeteringMode_String
    enum_far 6

/-- `meta_canon_FocusRange_String` (signed type): every value, negative ones included, formats without panic as
its documented name or the fallback. -/
theorem meta_canon_FocusRange_String_names (v : Int) (hlo : -32768 ≤ v) (hhi : v ≤ 32767) :
    meta_canon_FocusRange_String v = .ok (canonFocusRange.name v) := by
  by_cases hn : 0 ≤ v ∧ v < 11
  · obtain ⟨n, rfl⟩ := Int.eq_ofNat_of_zero_le hn.1
    have hn' : n < 11 := by omega
    clear hlo hhi hn; revert n; decide +kernel
  · rw [Doc.name_far canonFocusRange 11 _ (by decide) (by omega)]
    unfold meta_canon_FocusRange_String
    enum_far 11

/-- `meta_canon_ExposureMode_String` (signed type): every value, negative ones included, formats without panic as
its documented name or the fallback. -/
theorem meta_canon_ExposureMode_String_names (v : Int) (hlo : -32768 ≤ v) (hhi : v ≤ 32767) :
    meta_canon_ExposureMode_String v = .ok (canonExposureMode.name v) := by
  by_cases hn : 0 ≤ v ∧ v < 9
  · obtain ⟨n, rfl⟩ := Int.eq_ofNat_of_zero_le hn.1
    have hn' : n < 9 := by omega
    clear hlo hhi hn; revert n; decide +kernel
  · rw [Doc.name_far canonExposureMode 9 _ (by decide) (by omega)]
    unfold meta_canon_ExposureMode_String
    enum_far 9

/-- `meta_canon_BracketMode_String` (signed type): every value, negative ones included, formats without panic as
its documented name or the fallback. -/
theorem meta_canon_BracketMode_String_names (v : Int) (hlo : -32768 ≤ v) (hhi : v ≤ 32767) :
    meta_canon_BracketMode_String v = .ok (canonBracketMode.name v) := by
  by_cases hn : 0 ≤ v ∧ v < 5
  · obtain ⟨n, rfl⟩ := Int.eq_ofNat_of_zero_le hn.1
    have hn' : n < 5 := by omega
    clear hlo hhi hn; revert n; decide +kernel
  · rw [Doc.name_far canonBracketMode 5 _ (by decide) (by omega)]
    unfold meta_canon_BracketMode_String
    enum_far 5

/-- `meta_canon_AESetting_String` (signed type): every value, negative ones included, formats without panic as
its documented name or the fallback. -/
theorem meta_canon_AESetting_String_names (v : Int) (hlo : -32768 ≤ v) (hhi : v ≤ 32767) :
    meta_canon_AESetting_String v = .ok (canonAESetting.name v) := by
  by_cases hn : 0 ≤ v ∧ v < 5
  · obtain ⟨n, rfl⟩ := Int.eq_ofNat_of_zero_le hn.1
    have hn' : n < 5 := by omega
    clear hlo hhi hn; revert n; decide +kernel
  · rw [Doc.name_far canonAESetting 5 _ (by decide) (by omega)]
    unfold meta_canon_AESetting_String
    enum_far 5

/-- `meta_canon_AFAreaMode_String` (signed type): every value, negative ones included, formats without panic as
its documented name or the fallback. -/
theorem meta_canon_AFAreaMode_String_names (v : Int) (hlo : -32768 ≤ v) (hhi : v ≤ 32767) :
    meta_canon_AFAreaMode_String v = .ok (canonAFAreaMode.name v) := by
  by_cases hn : 0 ≤ v ∧ v < 15
  · obtain ⟨n, rfl⟩ := Int.eq_ofNat_of_zero_le hn.1
    have hn' : n < 15 := by omega
    clear hlo hhi hn; revert n; decide +kernel
  · rw [Doc.name_far canonAFAreaMode 15 _ (by decide) (by omega)]
    unfold meta_canon_AFAreaMode_String
    enum_far 15

/-- `xmp_xmpns_Namespace_String`: every value of the type formats, without panic, as its documented name
(documented values) or the fallback (all others). -/
theorem xmp_xmpns_Namespace_String_names (n : Nat) (h : n < 256) :
    xmp_xmpns_Namespace_String (n : Int) = .ok (xmpNamespace.name (n : Int)) := by
  by_cases hn : n < 23
  · clear h; revert n; decide +kernel
  · rw [Doc.name_far xmpNamespace 23 _ (by decide) (Or.inr (by omega))]
    unfold xmp_xmpns_Namespace_String
    enum_far 23

/-- `isobmff_hdlrType_String`: every value of the type formats, without panic, as its documented name
(documented values) or the fallback (all others). -/
theorem isobmff_hdlrType_String_names (n : Nat) (h : n < 256) :
    isobmff_hdlrType_String (n : Int) = .ok (hdlrType.name (n : Int)) := by
  by_cases hn : n < 4
  · clear h; revert n; decide +kernel
  · rw [Doc.name_far hdlrType 4 _ (by decide) (Or.inr (by omega))]
    unfold isobmff_hdlrType_String
    enum_far 4


/-! ### Totality of the stringers that have no documented-name table above

Map-, switch- and Sprintf-based functions: every path returns, for every integer argument. -/

macro "enum_total" : tactic => `(tactic|
  ((try dsimp only) <;>
   simp only [isOk_ite, isOk_ok, ite_self, isOk_bind_pure]))

theorem exif2_tag_ID_String_total (v : Int) : isOk (exif2_tag_ID_String v) = true := rfl

theorem exif2_ifds_TagString_total (v : Int) : isOk (exif2_ifds_TagString v) = true := by
  unfold exif2_ifds_TagString
  (try dsimp only)
  simp only [isOk_ite, isOk_ok, ite_self, isOk_bind_pure, exif2_tag_ID_String_total]

theorem exif2_ifds_exififd_TagString_total (v : Int) : isOk (exif2_ifds_exififd_TagString v) = true := by
  unfold exif2_ifds_exififd_TagString
  (try dsimp only)
  simp only [isOk_ite, isOk_ok, ite_self, isOk_bind_pure, exif2_tag_ID_String_total]

theorem exif2_ifds_gpsifd_TagString_total (v : Int) : isOk (exif2_ifds_gpsifd_TagString v) = true := by
  unfold exif2_ifds_gpsifd_TagString
  (try dsimp only)
  simp only [isOk_ite, isOk_ok, ite_self, isOk_bind_pure, exif2_tag_ID_String_total]

theorem exif2_ifds_mknote_canon_TagCanonString_total (v : Int) : isOk (exif2_ifds_mknote_canon_TagCanonString v) = true := by
  unfold exif2_ifds_mknote_canon_TagCanonString
  (try dsimp only)
  simp only [isOk_ite, isOk_ok, ite_self, isOk_bind_pure, exif2_tag_ID_String_total]

theorem exif2_ifds_mknote_nikon_TagNikonString_total (v : Int) : isOk (exif2_ifds_mknote_nikon_TagNikonString v) = true := by
  unfold exif2_ifds_mknote_nikon_TagNikonString
  (try dsimp only)
  simp only [isOk_ite, isOk_ok, ite_self, isOk_bind_pure, exif2_tag_ID_String_total]

theorem exif2_ifds_mknote_apple_TagAppleString_total (v : Int) : isOk (exif2_ifds_mknote_apple_TagAppleString v) = true := by
  unfold exif2_ifds_mknote_apple_TagAppleString
  (try dsimp only)
  simp only [isOk_ite, isOk_ok, ite_self, isOk_bind_pure, exif2_tag_ID_String_total]

theorem exif2_ifds_mknote_sony_TagSonyString_total (v : Int) : isOk (exif2_ifds_mknote_sony_TagSonyString v) = true := by
  unfold exif2_ifds_mknote_sony_TagSonyString
  (try dsimp only)
  simp only [isOk_ite, isOk_ok, ite_self, isOk_bind_pure, exif2_tag_ID_String_total]

theorem exif2_ifds_mknote_canon_CameraModel_String_total (v : Int) : isOk (exif2_ifds_mknote_canon_CameraModel_String v) = true := by
  unfold exif2_ifds_mknote_canon_CameraModel_String
  (try dsimp only)
  simp only [isOk_ite, isOk_ok, ite_self, isOk_bind_pure, exif2_tag_ID_String_total]

theorem exif2_ifds_mknote_apple_CameraModel_String_total (v : Int) : isOk (exif2_ifds_mknote_apple_CameraModel_String v) = true := by
  unfold exif2_ifds_mknote_apple_CameraModel_String
  (try dsimp only)
  simp only [isOk_ite, isOk_ok, ite_self, isOk_bind_pure, exif2_tag_ID_String_total]

theorem exif2_ifds_mknote_nikon_CameraModel_String_total (v : Int) : isOk (exif2_ifds_mknote_nikon_CameraModel_String v) = true := by
  unfold exif2_ifds_mknote_nikon_CameraModel_String
  (try dsimp only)
  simp only [isOk_ite, isOk_ok, ite_self, isOk_bind_pure, exif2_tag_ID_String_total]

theorem exif2_ifds_mknote_sony_CameraModel_String_total (v : Int) : isOk (exif2_ifds_mknote_sony_CameraModel_String v) = true := by
  unfold exif2_ifds_mknote_sony_CameraModel_String
  (try dsimp only)
  simp only [isOk_ite, isOk_ok, ite_self, isOk_bind_pure, exif2_tag_ID_String_total]

theorem meta_Compression_String_total (v : Int) : isOk (meta_Compression_String v) = true := by
  unfold meta_Compression_String
  (try dsimp only)
  simp only [isOk_ite, isOk_ok, ite_self, isOk_bind_pure, exif2_tag_ID_String_total]

theorem isobmff_Brand_String_total (v : Int) : isOk (isobmff_Brand_String v) = true := by
  unfold isobmff_Brand_String
  (try dsimp only)
  simp only [isOk_ite, isOk_ok, ite_self, isOk_bind_pure, exif2_tag_ID_String_total]

theorem isobmff_boxType_String_total (v : Int) : isOk (isobmff_boxType_String v) = true := by
  unfold isobmff_boxType_String
  (try dsimp only)
  simp only [isOk_ite, isOk_ok, ite_self, isOk_bind_pure, exif2_tag_ID_String_total]

theorem jpeg_markerType_String_total (v : Int) : isOk (jpeg_markerType_String v) = true := by
  unfold jpeg_markerType_String
  (try dsimp only)
  simp only [isOk_ite, isOk_ok, ite_self, isOk_bind_pure, exif2_tag_ID_String_total]

theorem exif2_ifds_TagSubIfdString_total (id it : Int) : isOk (exif2_ifds_TagSubIfdString id it) = true := by
  unfold exif2_ifds_TagSubIfdString
  (try dsimp only)
  simp only [isOk_ite, isOk_ok, ite_self, isOk_bind_pure, exif2_ifds_TagString_total]

/-- tag.ID x IfdType: the tag-name lookup returns for every pair -/
theorem exif2_ifds_IfdType_TagName_total (it id : Int) : isOk (exif2_ifds_IfdType_TagName it id) = true := by
  unfold exif2_ifds_IfdType_TagName
  (try dsimp only)
  simp only [isOk_ite, isOk_ok, ite_self, isOk_bind_pure, exif2_ifds_TagString_total,
    exif2_ifds_exififd_TagString_total, exif2_ifds_gpsifd_TagString_total,
    exif2_ifds_mknote_canon_TagCanonString_total, exif2_ifds_mknote_nikon_TagNikonString_total,
    exif2_ifds_mknote_apple_TagAppleString_total, exif2_ifds_mknote_sony_TagSonyString_total,
    exif2_ifds_TagSubIfdString_total, exif2_tag_ID_String_total]

/-- CameraModel (32-bit): every value, whatever family it falls in -/
theorem exif2_ifds_CameraModel_String_total (v : Int) : isOk (exif2_ifds_CameraModel_String v) = true := by
  unfold exif2_ifds_CameraModel_String
  (try dsimp only)
  simp only [isOk_ite, isOk_ok, ite_self, isOk_bind_pure, exif2_ifds_mknote_canon_CameraModel_String_total,
    exif2_ifds_mknote_apple_CameraModel_String_total, exif2_ifds_mknote_nikon_CameraModel_String_total,
    exif2_ifds_mknote_sony_CameraModel_String_total]

/-- XMP property names: `fmt.Sprintf(table[n])` — no table entry contains a format verb -/
theorem xmp_xmpns_Name_String_total (v : Int) : isOk (xmp_xmpns_Name_String v) = true := by
  unfold xmp_xmpns_Name_String
  rw [isOk_bind_pure]
  exact isOk_sprintf0_map _ _ (by decide +kernel)

theorem xmp_xmpns_Namespace_String_total (v : Int) : isOk (xmp_xmpns_Namespace_String v) = true := by
  unfold xmp_xmpns_Namespace_String
  rw [isOk_bind_pure]
  exact isOk_sprintf0_map _ _ (by decide +kernel)

/-- CameraMake (uint16, index table guarded by `cm <= Hisilicon`) -/
theorem exif2_ifds_CameraMake_String_total (n : Nat) (h : n < 65536) :
    isOk (exif2_ifds_CameraMake_String (n : Int)) = true := by
  by_cases hn : n < 51
  · clear h; revert n; decide +kernel
  · unfold exif2_ifds_CameraMake_String
    enum_far 51

theorem exif2_tag_Type_Size_total (n : Nat) (h : n < 256) : isOk (exif2_tag_Type_Size (n : Int)) = true := by
  revert n; decide +kernel

theorem exif2_tag_Type_IsValid_total (v : Int) : isOk (exif2_tag_Type_IsValid v) = true := rfl
theorem exif2_ifds_IfdType_IsValid_total (v : Int) : isOk (exif2_ifds_IfdType_IsValid v) = true := rfl

/-- IsValid is exactly "a documented directory type" -/
theorem exif2_ifds_IfdType_IsValid_iff (n : Nat) (h : n < 256) :
    exif2_ifds_IfdType_IsValid (n : Int) = .ok (decide (1 ≤ n ∧ n < 20)) := by
  revert n; decide +kernel

/-! ### Parsing a documented name returns the value it names -/

/-- image types, content-type form -/
theorem imagetype_FromString_String (n : Nat) (h : n < 24) :
    imagetype_FromString (imageType.name (n : Int)) = .ok (n : Int) := by
  revert n; decide +kernel

/-- image types, extension form ("." ++ lower/upper-case extension) -/
theorem imagetype_FromString_Extension (n : Nat) (h : n < 24) :
    imagetype_FromString (0x2e :: imageTypeExt.name (n : Int)) = .ok (if n = 0 then 0 else (n : Int)) := by
  revert n; decide +kernel

/-- anything that is neither a content type nor an extension parses to ImageUnknown (0), without panic -/
theorem imagetype_FromString_total (s : Bytes) : isOk (imagetype_FromString s) = true := by
  unfold imagetype_FromString
  (try dsimp only)
  simp only [isOk_ite, isOk_ok, ite_self]

/-- XMP namespace prefixes -/
theorem xmpns_IdentifyNamespace_String (n : Nat) (h : n < 23) :
    xmp_xmpns_IdentifyNamespace (xmpNamespace.name (n : Int)) = .ok (n : Int) := by
  revert n; decide +kernel

theorem xmpns_IdentifyNamespace_total (s : Bytes) : isOk (xmp_xmpns_IdentifyNamespace s) = true := rfl
theorem xmpns_IdentifyName_total (s : Bytes) : isOk (xmp_xmpns_IdentifyName s) = true := rfl

/-- XMP property names: String then IdentifyName is the identity on every named property -/
theorem xmpns_IdentifyName_String (n : Nat) (h : n < 256) :
    (Outcome.bind (xmp_xmpns_Name_String (n : Int)) fun s =>
      if s.isEmpty then .ok (n : Int) else xmp_xmpns_IdentifyName s) = .ok (n : Int) := by
  revert n; decide +kernel

/-! ### Non-vacuity: the formerly panicking values now format -/
example : meta_canon_FocusMode_String 6 = .ok (asc "Manual Focus") := by decide +kernel
example : meta_canon_FocusMode_String (-1) = .ok (asc "Unknown") := by decide +kernel
example : meta_canon_ContinuousDrive_String (-32768) = .ok (asc "Unknown") := by decide +kernel

end Imeta.C17
