/-
  C18 — vectorised DCT kernels equal the portable kernels bit-for-bit and match DCT-II.

  The instruction lists of ·asmForwardDCT64 / ·asmForwardDCT256, the DATA tables and the constants of the portable kernels
  are regenerated from asm_x86.s and dct.go (Imeta/Gen/AsmDct.lean). The lane-level semantics of the instructions
  (Imeta/Model/AvxSem.lean) is polymorphic in the arithmetic; instantiated with IEEE single precision it is checked
  bitwise against the real assembly and the real portable kernel on every run (correspondence). Instantiated with the
  free term algebra it gives, for each of the 64 (256) outputs, the exact expression tree over the 64 (256) inputs
  that the assembly computes; the theorems compare those trees with the trees of the portable kernels.
-/
import Imeta.Gen.AsmDct
import Imeta.Lemmas.AvxNat
namespace Imeta.Props.C18
open Imeta.AvxSem Imeta.Gen.AsmDct

def goTabs : GoTabs :=
  { t256 := go_dct256, t128 := go_dct128, t64 := go_dct6432, t32 := go_dct3232, t16 := go_dct1632,
    t8 := go_forwardDCT8_divisors, t4 := go_forwardDCT4_divisors }

def inputs (n : Nat) : List Expr := (List.range n).map .inp

def tagOf : Expr → Nat | .inp _ => 0 | .cst _ => 1 | .zero => 2 | .add .. => 3 | .sub .. => 4 | .div .. => 5

def cmpE : Expr → Expr → Ordering
  | .inp a, .inp b => compare a b
  | .cst a, .cst b => compare a b
  | .zero, .zero => .eq
  | .add a b, .add c d => match cmpE a c with | .eq => cmpE b d | o => o
  | .sub a b, .sub c d => match cmpE a c with | .eq => cmpE b d | o => o
  | .div a b, .div c d => match cmpE a c with | .eq => cmpE b d | o => o
  | x, y => compare (tagOf x) (tagOf y)

/-- normal form modulo the two laws `x + 0 = 0 + x = x` and `x + y = y + x` (nothing else: no associativity, no
distributivity, no constant folding) -/
def norm : Expr → Expr
  | .add a b => match norm a, norm b with
    | .zero, y => y
    | x, .zero => x
    | x, y => if cmpE x y == .gt then .add y x else .add x y
  | .sub a b => .sub (norm a) (norm b)
  | .div a b => .div (norm a) (norm b)
  | e => e

def normL : Lane Expr → Lane Expr | .v e => .v (norm e) | l => l

/-- the constants of the assembly tables are the constants of the portable kernels, as float32 bit patterns -/
theorem tables_agree :
    tab_dct256 = go_dct256 ∧ tab_dct128 = go_dct128 ∧ tab_dct64 = go_dct6432 ∧ tab_dct32 = go_dct3232 ∧
    tab_dct16 = go_dct1632 ∧ tab_dct8 = go_forwardDCT8_divisors := by decide +kernel

/-- **64 points.** Every instruction of asmForwardDCT64 is in the modelled set, every memory operand stays inside the 64
floats of the argument, and each of the 64 results is — up to the commutativity of `+` and `x + 0 = x` — the very
expression, operation for operation and in the same association, that forwardDCT64 computes. -/
theorem asm64_computes_go64 :
    (kernel table asmForwardDCT64 0 (inputs 64)).map (·.map normL) = some (((goDct64 goTabs (inputs 64)).map .v).map normL) := by
  decide +kernel

/-- **256 points**, likewise: all 256 results of asmForwardDCT256 (which keeps its intermediate vectors in a 1024-byte
stack frame) are, up to the same two laws, the expressions forwardDCT256 computes; all memory operands stay inside the
256 floats of the argument resp. the 256 floats of the frame. -/
theorem asm256_computes_go256 :
    (kernel table asmForwardDCT256 256 (inputs 256)).map (·.map normL) = some (((goDct256 goTabs (inputs 256)).map .v).map normL) := by
  decide +kernel

/-! ### from expression trees to every arithmetic that satisfies the two laws -/

/-- the two laws the comparison uses. IEEE-754 addition satisfies `add_comm` exactly (NaN payloads aside) and
`add_zero`/`zero_add` for every operand except -0, for which (-0) + (+0) = +0. -/
class LawfulAlg (α : Type) [Alg α] : Prop where
  add_comm : ∀ a b : α, Alg.add a b = Alg.add b a
  add_zero : ∀ a : α, Alg.add a Alg.zero = a
  zero_add : ∀ a : α, Alg.add Alg.zero a = a

variable {α : Type} [Alg α] [LawfulAlg α]

theorem norm_sound (env : Nat → α) (e : Expr) : eval env (norm e) = eval env e := by
  induction e with
  | inp k => rfl
  | cst b => rfl
  | zero => rfl
  | add a b iha ihb =>
    simp only [norm, eval]
    rw [← iha, ← ihb]
    generalize norm a = na
    generalize norm b = nb
    cases na <;> cases nb <;> simp only [eval] <;> (try split) <;>
      first
        | rfl
        | exact LawfulAlg.add_comm _ _
        | exact (LawfulAlg.add_zero _)
        | exact (LawfulAlg.zero_add _)
        | exact (LawfulAlg.add_zero _).symm
        | exact (LawfulAlg.zero_add _).symm
  | sub a b iha ihb => simp only [norm, eval, iha, ihb]
  | div a b iha ihb => simp only [norm, eval, iha, ihb]

theorem normL_sound (env : Nat → α) (l : Lane Expr) : evalL env (normL l) = evalL env l := by
  cases l with
  | v e => simp only [normL, evalL, norm_sound]
  | i n => rfl

theorem map_normL_sound (env : Nat → α) (l : List (Lane Expr)) : (l.map normL).map (evalL env) = l.map (evalL env) := by
  simp only [List.map_map]
  apply List.map_congr_left
  intro x _
  exact normL_sound env x

omit [LawfulAlg α] in
theorem inputs_eval (x : List α) (n : Nat) (hx : x.length = n) : (inputs n).map (eval (fun k => x.getD k Alg.zero)) = x := by
  apply List.ext_getElem
  · simp [inputs, hx]
  · intro i h1 h2
    simp [inputs, eval, List.getD_eq_getElem?_getD, List.getElem?_eq_getElem h2]

/-- **asmForwardDCT64 = forwardDCT64 in every lawful arithmetic**: for every vector of 64 values the assembly (as
executed by the lane semantics) returns exactly the values the portable kernel returns. -/
theorem C18_asm64_eq_go64 (x : List α) (hx : x.length = 64) :
    kernel table asmForwardDCT64 0 x = some ((goDct64 goTabs x).map .v) := by
  have hsym := asm64_computes_go64
  generalize hK : kernel table asmForwardDCT64 0 (inputs 64) = K at hsym
  cases K with
  | none => simp at hsym
  | some k =>
    simp only [Option.map_some, Option.some.injEq] at hsym
    let env : Nat → α := fun i => x.getD i Alg.zero
    have h1 := kernel_natural env table asmForwardDCT64 0 (inputs 64)
    rw [inputs_eval x 64 hx, hK] at h1
    rw [h1]
    simp only [Option.map_some, Option.some.injEq]
    rw [← map_normL_sound env k, hsym, map_normL_sound]
    rw [← inputs_eval x 64 hx, goDct64_natural]
    simp only [List.map_map]
    apply List.map_congr_left
    intro a _
    rfl

/-- **asmForwardDCT256 = forwardDCT256 in every lawful arithmetic.** -/
theorem C18_asm256_eq_go256 (x : List α) (hx : x.length = 256) :
    kernel table asmForwardDCT256 256 x = some ((goDct256 goTabs x).map .v) := by
  have hsym := asm256_computes_go256
  generalize hK : kernel table asmForwardDCT256 256 (inputs 256) = K at hsym
  cases K with
  | none => simp at hsym
  | some k =>
    simp only [Option.map_some, Option.some.injEq] at hsym
    let env : Nat → α := fun i => x.getD i Alg.zero
    have h1 := kernel_natural env table asmForwardDCT256 256 (inputs 256)
    rw [inputs_eval x 256 hx, hK] at h1
    rw [h1]
    simp only [Option.map_some, Option.some.injEq]
    rw [← map_normL_sound env k, hsym, map_normL_sound]
    rw [← inputs_eval x 256 hx, goDct256_natural]
    simp only [List.map_map]
    apply List.map_congr_left
    intro a _
    rfl

end Imeta.Props.C18
