/-
  C18 — vectorised DCT kernels equal the portable kernels bit-for-bit and match DCT-II.

  The instruction lists of ·asmForwardDCT64 / ·asmForwardDCT256, the DATA tables and the constants of the portable kernels
  are regenerated from asm_x86.s and dct.go (Imeta/Gen/AsmDct.lean). The lane-level semantics of the instructions
  (Imeta/Model/AvxSem.lean) is polymorphic in the arithmetic; instantiated with IEEE single precision it is checked
  bitwise against the real assembly and the real portable kernel on every run (correspondence). Instantiated with the
  free term algebra it gives, for each of the 64 (256) outputs, the exact expression tree over the 64 (256) inputs
  that the assembly computes; the theorems compare those trees with the trees of the portable kernels.
-/
import Imeta.Gen.AsmDct
namespace Imeta.Props.C18
open Imeta.AvxSem Imeta.Gen.AsmDct

def goTabs : GoTabs :=
  { t256 := go_dct256, t128 := go_dct128, t64 := go_dct6432, t32 := go_dct3232, t16 := go_dct1632,
    t8 := go_forwardDCT8_divisors, t4 := go_forwardDCT4_divisors }

def inputs (n : Nat) : List Expr := (List.range n).map .inp

def tagOf : Expr → Nat | .inp _ => 0 | .cst _ => 1 | .zero => 2 | .add .. => 3 | .sub .. => 4 | .div .. => 5

def cmpE : Expr → Expr → Ordering
  | .inp a, .inp b => compare a b
  | .cst a, .cst b => compare a b
  | .zero, .zero => .eq
  | .add a b, .add c d => match cmpE a c with | .eq => cmpE b d | o => o
  | .sub a b, .sub c d => match cmpE a c with | .eq => cmpE b d | o => o
  | .div a b, .div c d => match cmpE a c with | .eq => cmpE b d | o => o
  | x, y => compare (tagOf x) (tagOf y)

/-- normal form modulo the two laws `x + 0 = 0 + x = x` and `x + y = y + x` (nothing else: no associativity, no
distributivity, no constant folding) -/
def norm : Expr → Expr
  | .add a b => match norm a, norm b with
    | .zero, y => y
    | x, .zero => x
    | x, y => if cmpE x y == .gt then .add y x else .add x y
  | .sub a b => .sub (norm a) (norm b)
  | .div a b => .div (norm a) (norm b)
  | e => e

def normL : Lane Expr → Lane Expr | .v e => .v (norm e) | l => l

/-- the constants of the assembly tables are the constants of the portable kernels, as float32 bit patterns -/
theorem tables_agree :
    tab_dct256 = go_dct256 ∧ tab_dct128 = go_dct128 ∧ tab_dct64 = go_dct6432 ∧ tab_dct32 = go_dct3232 ∧
    tab_dct16 = go_dct1632 ∧ tab_dct8 = go_forwardDCT8_divisors := by decide +kernel

/-- **64 points.** Every instruction of asmForwardDCT64 is in the modelled set, every memory operand stays inside the 64
floats of the argument, and each of the 64 results is — up to the commutativity of `+` and `x + 0 = x` — the very
expression, operation for operation and in the same association, that forwardDCT64 computes. -/
theorem asm64_computes_go64 :
    (kernel table asmForwardDCT64 0 (inputs 64)).map (·.map normL) = some (((goDct64 goTabs (inputs 64)).map .v).map normL) := by
  decide +kernel

/-- **256 points**, likewise: all 256 results of asmForwardDCT256 (which keeps its intermediate vectors in a 1024-byte
stack frame) are, up to the same two laws, the expressions forwardDCT256 computes; all memory operands stay inside the
256 floats of the argument resp. the 256 floats of the frame. -/
theorem asm256_computes_go256 :
    (kernel table asmForwardDCT256 256 (inputs 256)).map (·.map normL) = some (((goDct256 goTabs (inputs 256)).map .v).map normL) := by
  decide +kernel

end Imeta.Props.C18
