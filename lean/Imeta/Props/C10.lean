/-
  C10 — JPEG segment framing: callbacks get exactly their payload; scanning resumes.

  Property theorems. Model: Imeta.Model.Jpeg (hand-written transcription of jpeg.ScanJPEG, tied to /repo
  by the correspondence `vh run C10`). Specification: Imeta.Spec.Jpeg (segment grammar, expected calls).
-/
import Imeta.Lemmas.JpegFraming
namespace Imeta.Jpeg
open Imeta

/-- one well-formed segment: the scanner consumes exactly the segment, issues exactly the calls the
specification lists, and stands at the next marker with the right absolute offset -/
theorem step_seg (cb : Cbs) (hcb : cb.wellBehaved) (sg : Seg) (r : Bytes) (d : Nat)
    (hwf : sg.wf) (hr : 64 ≤ r.length) (hd : d + sg.encode.length < 2 ^ 32) :
    step cb { rest := sg.encode ++ r, discarded := d, pos := 1 } =
      .next { rest := r, discarded := d + sg.encode.length, pos := 1 } (sg.events cb d) := by
  cases sg with
  | skip mk p => exact step_skip cb mk p r d hwf hr hd
  | dri a b => exact step_dri cb a b r d hr hd
  | exif t => exact step_exif cb t r d hcb hwf hr hd
  | xmp k => exact step_xmp cb k r d hcb hwf hr hd

theorem run_succ (cb : Cbs) (f : Nat) (s : St) (acc : List Ev) :
    run cb (f + 1) s acc = match step cb s with
      | .done r evs => some (r, acc ++ evs)
      | .next s' evs => run cb f s' (acc ++ evs) := rfl

/-- more fuel never changes a finished scan -/
theorem run_mono (cb : Cbs) (f f' : Nat) (s : St) (acc : List Ev) (x : Res × List Ev)
    (h : run cb f s acc = some x) (hle : f ≤ f') : run cb f' s acc = some x := by
  induction f generalizing f' s acc with
  | zero => simp [run] at h
  | succ f ih =>
    obtain ⟨g, rfl⟩ : ∃ g, f' = g + 1 := ⟨f' - 1, by omega⟩
    rw [run_succ] at h ⊢
    cases hs : step cb s with
    | done r evs => rw [hs] at h; exact h
    | next s' evs => rw [hs] at h; exact ih g s' _ h (by omega)

theorem encodeAll_length_cons (s : Seg) (t : List Seg) :
    (encodeAll (s :: t)).length = s.encode.length + (encodeAll t).length := by simp [encodeAll]

/-- **Any sequence of well-formed segments** (induction over the sequence, invariant: "rest = encoding of the
remaining segments ++ tail ∧ discarded = absolute offset ∧ depth 1"): after `segs.length` steps the scanner
stands at `tail` having made exactly the expected calls. -/
theorem run_segments (cb : Cbs) (hcb : cb.wellBehaved) (segs : List Seg) (tail : Bytes) (d fuel : Nat) (acc : List Ev)
    (hwf : ∀ s ∈ segs, s.wf) (ht : 64 ≤ tail.length) (hd : d + (encodeAll segs).length < 2 ^ 32) :
    run cb (segs.length + fuel) { rest := encodeAll segs ++ tail, discarded := d, pos := 1 } acc =
      run cb fuel { rest := tail, discarded := d + (encodeAll segs).length, pos := 1 } (acc ++ eventsAll cb d segs) := by
  induction segs generalizing d acc with
  | nil => simp [encodeAll, eventsAll]
  | cons s t ih =>
    have hs : s.wf := hwf s (by simp)
    have hlen := encodeAll_length_cons s t
    have hstep := step_seg cb hcb s (encodeAll t ++ tail) d hs (by simp; omega) (by omega)
    have e : (s :: t).length + fuel = (t.length + fuel) + 1 := by simp; omega
    rw [e, run_succ]
    simp only [encodeAll, List.append_assoc, hstep]
    rw [ih (d + s.encode.length) (acc ++ s.events cb d) (fun x hx => hwf x (by simp [hx])) (by omega)]
    simp only [eventsAll, List.append_assoc, List.length_append, Nat.add_assoc]

/-- **C10, main theorem.** For every well-formed marker stream `SOI, S1 … Sn, DQT …` followed by at least 64 bytes,
every XMP-callback consumption behaviour and an Exif callback that consumes its declared length, the model of
`ScanJPEG` returns `nil` having invoked exactly the callbacks the segment list demands, in order:
the Exif callback with the byte order and first-directory offset read from the payload, the absolute offset of the
TIFF header (`2 + Σ preceding segment lengths + 10`), the payload length, and a stream positioned on the payload;
the XMP callback with a reader yielding exactly the packet. Segments that are not metadata produce no call, whatever
their payload contains (0xFF bytes, nested SOI/EOI, near-miss prefixes). -/
theorem C10_scan_calls (cb : Cbs) (hcb : cb.wellBehaved) (segs : List Seg) (dqt : Bytes)
    (hwf : ∀ s ∈ segs, s.wf) (hd : 2 + (encodeAll segs).length < 2 ^ 32)
    (hdqt : ∃ hi lo rest, dqt = 0xFF :: 0xDB :: hi :: lo :: rest) (hlen : 64 ≤ dqt.length) :
    scan cb (0xFF :: 0xD8 :: (encodeAll segs ++ dqt)) = some (.ok, eventsAll cb 2 segs) := by
  obtain ⟨hi, lo, rest, hq⟩ := hdqt
  unfold scan
  -- step 1: the SOI
  have h0 : step cb { rest := 0xFF :: 0xD8 :: (encodeAll segs ++ dqt), discarded := 0, pos := 0 } =
      .next { rest := encodeAll segs ++ dqt, discarded := 2, pos := 1 } [] := by
    have hl : 64 ≤ (encodeAll segs ++ dqt).length := by simp; omega
    unfold step
    dsimp only
    rw [if_neg (by simp only [List.length_cons]; omega)]
    cases hrest : encodeAll segs ++ dqt with
    | nil => rw [hrest] at hl; simp at hl
    | cons a t1 =>
      cases t1 with
      | nil => rw [hrest] at hl; simp at hl
      | cons b t2 =>
        simp only [show ((0xFF : UInt8) != 0xFF) = false by decide, Bool.false_eq_true, if_false,
          show ((0xD8 : UInt8) == 0xFF) = false by decide, show ((0xD8 : UInt8) == 0xD8) = true by decide, if_true]
        have := discard_prefix [0xFF, 0xD8] (a :: b :: t2) 0 ((0 + 1) % 256) 2 rfl (by decide) (by decide)
        simp only [List.cons_append, List.nil_append] at this
        have e2 : ((2 : Nat) : Int) = 2 := rfl
        rw [← e2, this]; rfl
  -- last step: the DQT marker ends the scan
  have hq' : step cb { rest := dqt, discarded := 2 + (encodeAll segs).length, pos := 1 } = .done .ok [] := by
    subst hq
    unfold step
    dsimp only
    rw [if_neg (by omega)]
    simp only [show ((0xFF : UInt8) != 0xFF) = false by decide, Bool.false_eq_true, if_false,
      show ((0xDB : UInt8) == 0xFF) = false by decide, show ((0xDB : UInt8) == 0xD8) = false by decide, show ((0xDB : UInt8) == 0xD9) = false by decide,
      show ((0xDB : UInt8) == 0xDB) = true by decide, if_true]
    rw [if_neg (by decide : ¬ (1 : Nat) = 0), if_neg (by decide), if_neg (by decide)]
  have hsmall : run cb ((segs.length + 1) + 1) { rest := 0xFF :: 0xD8 :: (encodeAll segs ++ dqt), discarded := 0, pos := 0 } [] =
      some (.ok, eventsAll cb 2 segs) := by
    rw [run_succ, h0]
    simp only [List.nil_append]
    rw [run_segments cb hcb segs dqt 2 1 [] hwf hlen hd, run_succ, hq']
    simp
  refine run_mono cb _ _ _ _ _ hsmall ?_
  have : segs.length ≤ (encodeAll segs).length := by
    clear hwf hd h0 hsmall hq'
    induction segs with
    | nil => simp
    | cons s t ih =>
      have : 4 ≤ s.encode.length := by cases s <;> simp [Seg.encode, be16]
      simp only [encodeAll, List.length_cons, List.length_append]; omega
  simp only [List.length_cons, List.length_append]; omega

/-- The progress half (C02 for the JPEG scanner): the scan of any byte string, with any callbacks, finishes within
`len + 2` passes through the marker loop — it never iterates without consuming input. -/
theorem C10_scan_terminates (cb : Cbs) (b : Bytes) : (scan cb b).isSome = true :=
  run_terminates cb (b.length + 2) _ [] (by simp)

/-- non-vacuity: XMP before Exif, an APP2 segment with 0xFF bytes and a nested SOI/EOI in between; the Exif header
offset is absolute whatever the XMP callback consumed (here: 3 of 12 bytes) -/
def exampleSegs : List Seg :=
  [.xmp [60, 120, 58, 120, 109, 112, 109, 101, 116, 97, 47, 62],
   .skip 0xE2 ([0xFF, 0xD8, 0xFF, 0xD9, 0xFF, 0xE1] ++ List.replicate 30 0xFF),
   .exif [0x4d, 0x4d, 0, 0x2a, 0, 0, 0, 8, 1, 2, 3, 4]]
def exampleDqt : Bytes := [0xFF, 0xDB, 0, 4, 1, 2] ++ List.replicate 64 7
def exampleCbs : Cbs := { hasExif := true, hasXmp := true, exif := fun h _ => (h.exifLength, false), xmp := fun _ => (3, false) }

example : scan exampleCbs (0xFF :: 0xD8 :: (encodeAll exampleSegs ++ exampleDqt)) =
    some (.ok, [.xmp [60, 120, 58, 120, 109, 112, 109, 101, 116, 97, 47, 62],
                .exif { order := .big, firstIfd := 8, tiffOffset := 97, exifLength := 12 } [0x4d, 0x4d, 0, 0x2a, 0, 0, 0, 8, 1, 2, 3, 4]]) := by
  decide +kernel

/-- **Fill bytes.**  Any marker may be preceded by any number of 0xFF fill bytes (ITU-T T.81 B.1.1.2): inside an image or
outside, a 0xFF that is followed by another 0xFF is skipped — one byte consumed, the absolute offset advanced by one,
nothing reported — so the scan reaches the marker behind the padding in the state it would have there (the pinned tree took
`FF FF` for a marker of type 0xFF and skipped a bogus length; repaired). -/
theorem C10_fill_byte_skipped (cb : Cbs) (a b : UInt8) (t : Bytes) (d pos : Nat) (hlen : 60 ≤ t.length) (hd : d + 1 < 2 ^ 32) :
    step cb { rest := 0xFF :: 0xFF :: a :: b :: t, discarded := d, pos := pos } =
      .next { rest := 0xFF :: a :: b :: t, discarded := d + 1, pos := pos } [] := by
  unfold step
  dsimp only
  rw [if_neg (by simp only [List.length_cons]; omega)]
  simp only [show ((0xFF : UInt8) != 0xFF) = false by decide, Bool.false_eq_true, if_false,
    show ((0xFF : UInt8) == 0xFF) = true by decide, if_true]
  have := discard_prefix [0xFF] (0xFF :: a :: b :: t) d pos 1 rfl (by decide) hd
  simp only [List.cons_append, List.nil_append] at this
  have e1 : ((1 : Nat) : Int) = 1 := rfl
  rw [← e1, this]; rfl

end Imeta.Jpeg
