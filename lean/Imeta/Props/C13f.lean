/-
  C13 — a whole rdf:Description with attributes, simple child elements and array properties in any order
  (Lemmas/XmpChildren.lean, Lemmas/XmpDesc2.lean).
-/
import Imeta.Lemmas.XmpDesc2
import Imeta.Props.C13e
namespace Imeta.Props.C13
open Imeta Imeta.Xmp

/-- **Children of both kinds, in any order.**  The reader stands inside an element with no attribute pending; the stream
holds simple elements (`Child.elem`) and array properties (`Child.arr`: `<P> <A> items </A> </P>`) in any order, each
behind any run of bytes other than '<'; `F` rounds of nesting are available for the deepest child.  One round of readTag
per child: exactly the tokens of each child, in document order; exactly the children are consumed. -/
theorem C13_children_exact (parent : Tag) (R : Bytes) (cs : List (Bytes × Child)) (F : Nat) (st : St)
    (ha : st.a = false) (hr : st.rest = serC cs R)
    (hok : ∀ p ∈ cs, (∀ x ∈ p.1, (x == 60) = false) ∧ p.1.length + 128 ≤ W ∧ p.2.OK ∧ p.2.need ≤ F) :
    readTag (F + cs.length) parent st = readTag F parent { rest := R, a := false, toks := pushC parent.self cs st.toks } :=
  readTag_children_exact parent R cs F st ha hr hok

/-- **The record of one rdf:Description.**  `ws0 <D attrs> wsV children ws2 </D>` with a non-empty attribute list and children
of both kinds in any order: one round of readTag hands the parser layer exactly — in document order — one token per
attribute with a non-empty value, one token per simple element, and one token per array item (the array's property, the
item's value); it consumes exactly the element and goes on behind it.  This is `parse (serialise p s) = p` at the level of
the token stream, for every record p of simple and array properties and every serialisation s that chooses attribute or
element form per simple property, either quote, any order, any white space between tokens (values and tags within the
first look-ahead windows; see `Attr.OK`, `Elem.OK`, `Child.OK`). -/
theorem C13_description_record_exact (parent : Tag) (st : St) (D : Name) (ws0 wsV X ws2 R : Bytes)
    (la : List (Bytes × Attr)) (cs : List (Bytes × Child)) (f : Nat)
    (hr : st.rest = ws0 ++ 60 :: ((D.n0 :: D.ns) ++ 58 :: (D.name ++ (ser la ++ 62 :: (wsV ++ 60 :: X)))))
    (hX : 60 :: X = serC cs (ws2 ++ D.closeT R))
    (hD : D.OK) (hDseq : (D.prop == rdfSeq || D.prop == rdfAlt || D.prop == rdfBag) = false) (hDroot : (D.prop == rootProp) = false)
    (hws0 : ∀ x ∈ ws0, (x == 60) = false) (hwin0 : ws0.length + 128 ≤ W)
    (hla : la ≠ []) (hoka : ∀ p ∈ la, (∀ x ∈ p.1, isWs x = true) ∧ p.1 ≠ [] ∧ p.2.OK)
    (hwsV : ∀ x ∈ wsV, isWs x = true) (hwinV : wsV.length < 512)
    (hokc : ∀ p ∈ cs, (∀ x ∈ p.1, (x == 60) = false) ∧ p.1.length + 128 ≤ W ∧ p.2.OK ∧ p.2.need ≤ f + 1)
    (hws2 : ∀ x ∈ ws2, (x == 60) = false) (hwin2 : ws2.length + 128 ≤ W) :
    readTag (f + 2 + cs.length) parent st =
      readTag (f + 1 + cs.length) parent { rest := R, a := false, toks := pushC D.prop cs (pushAll D.prop la st.toks) } :=
  readTag_description_children_exact parent st D ws0 wsV X ws2 R la cs f hr hX hD hDseq hDroot hws0 hwin0 hla hoka hwsV hwinV hokc hws2 hwin2

/-! non-vacuity: `<rdf:Description tiff:Make="Canon"><dc:subject><rdf:Bag><rdf:li>sea</rdf:li><rdf:li>sky</rdf:li></rdf:Bag></dc:subject>\n<tiff:Model>EOS</tiff:Model></rdf:Description>` -/
def cSubject : Child := .arr nSubject nBag [] [] [] [([], liSea), ([], liSky)]
example : cSubject.OK ∧ (Child.elem eModel).OK ∧ cSubject.need ≤ 6 := by
  refine ⟨⟨⟨by decide, by decide, by decide, by decide⟩, ⟨by decide, by decide, by decide, by decide⟩, by decide, by decide, by decide, by decide, by decide, by decide,
    by decide +kernel, by decide +kernel, by decide +kernel, ?_⟩, ⟨by decide, by decide, by decide, by decide, by decide, by decide, by decide, by decide +kernel, by decide +kernel⟩, by decide⟩
  intro p hp
  have : p = ([], liSea) ∨ p = ([], liSky) := by simpa using hp
  rcases this with rfl | rfl
  · exact ⟨by decide, by decide, ⟨by decide, by decide, by decide, by decide, by decide, by decide, by decide⟩, by decide +kernel⟩
  · exact ⟨by decide, by decide, ⟨by decide, by decide, by decide, by decide, by decide, by decide, by decide⟩, by decide +kernel⟩
example : [] ++ 60 :: ((nDesc.n0 :: nDesc.ns) ++ 58 :: (nDesc.name ++ (ser [([32], aMake)] ++ 62 :: ([] ++ serC [([], cSubject), ([10], .elem eModel)] ([] ++ nDesc.closeT []))))) =
    ("<rdf:Description tiff:Make=\"Canon\"><dc:subject><rdf:Bag><rdf:li>sea</rdf:li><rdf:li>sky</rdf:li></rdf:Bag></dc:subject>\n<tiff:Model>EOS</tiff:Model></rdf:Description>").toUTF8.toList := by decide +kernel
/-- the model run on those bytes: attribute, two array items, element — document order -/
example : ((readTag 12 {} { rest := ("<rdf:Description tiff:Make=\"Canon\"><dc:subject><rdf:Bag><rdf:li>sea</rdf:li><rdf:li>sky</rdf:li></rdf:Bag></dc:subject>\n<tiff:Model>EOS</tiff:Model></rdf:Description></rdf:RDF>").toUTF8.toList, a := false, toks := [] }).2.toks.reverse.map (fun t => (t.pt, t.self, t.val))) =
    [(1, aMake.prop, [67, 97, 110, 111, 110]), (2, nSubject.prop, [115, 101, 97]), (2, nSubject.prop, [115, 107, 121]), (2, eModel.prop, [69, 79, 83])] := by decide +kernel

end Imeta.Props.C13
