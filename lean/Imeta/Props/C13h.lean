/-
  C13 — a whole packet: parse(serialise(p, s)) = p at the level of the token stream (Lemmas/XmpPacket.lean).
-/
import Imeta.Lemmas.XmpPacket
import Imeta.Props.C13g
namespace Imeta.Props.C13
open Imeta Imeta.Xmp

/-- **A whole packet is parsed exactly.**  Any leading bytes (stretches without `<x:xmpmeta`), the root start tag with its
namespace attributes, `<rdf:RDF attrs>`, one `<rdf:Description attrs>` carrying simple properties as attributes (either quote,
any white space) and, as children in any order with any white space between them, simple properties in element form and
array properties (rdf:Seq / rdf:Bag / rdf:Alt with their items), the stop tags, any trailing bytes.  ParseXmp of the model
returns without error and has handed the value parsers exactly the tokens of the record — namespace attributes of rdf:RDF,
attribute-form properties, element-form properties and array items, each with the property `identify ns name` and exactly
its value — in document order.  Names and values lie within the first look-ahead windows (`Attr.OK`, `Elem.OK`, `Child.OK`);
the two bookkeeping hypotheses on nesting rounds (`hokc`, last component, and `hcs`) hold for every packet (an item takes
more bytes than the two rounds it needs).  Together with `C13_attribute_element_same_tokens` this is the property's
`parse(serialise(p, s)) = p` and `parse(serialise(p, attr)) = parse(serialise(p, elem))` at the level of the token stream;
the value parsers behind the token stream are tied by the correspondence through the hook. -/
theorem C13_packet_exact (b : Bytes) (gs : List Bytes) (g A : Bytes) (RDF D : Name) (laR laD : List (Bytes × Attr)) (cs : List (Bytes × Child))
    (wsR wsV1 wsV2 ws2 ws3 ws4 tail X2 : Bytes)
    (hb : b = serJ gs (g ++ 60 :: (rootName ++ A ++ 62 :: packetBody RDF D laR laD cs wsR wsV1 wsV2 ws2 ws3 ws4 tail)))
    (hj : JunkOK gs (g ++ 60 :: (rootName ++ A ++ 62 :: packetBody RDF D laR laD cs wsR wsV1 wsV2 ws2 ws3 ws4 tail)))
    (hg : ∀ x ∈ g, (x == 60) = false) (hglen : g.length < W) (hA : ∀ x ∈ A, (x == 62) = false) (hAlen : 9 + A.length < W)
    (hX2 : 60 :: X2 = serC cs (ws2 ++ D.closeT (ws3 ++ RDF.closeT (ws4 ++ nRoot.closeT tail))))
    (hRDF : RDF.OK) (hRseq : (RDF.prop == rdfSeq || RDF.prop == rdfAlt || RDF.prop == rdfBag) = false) (hRroot : (RDF.prop == rootProp) = false)
    (hD : D.OK) (hDseq : (D.prop == rdfSeq || D.prop == rdfAlt || D.prop == rdfBag) = false) (hDroot : (D.prop == rootProp) = false)
    (hwsR : ∀ x ∈ wsR, (x == 60) = false) (hwinR : wsR.length + 128 ≤ W)
    (hlaR : laR ≠ []) (hokR : ∀ p ∈ laR, (∀ x ∈ p.1, isWs x = true) ∧ p.1 ≠ [] ∧ p.2.OK)
    (hwsV1 : ∀ x ∈ wsV1, isWs x = true) (hwinV1 : wsV1.length < 512)
    (hlaD : laD ≠ []) (hokD : ∀ p ∈ laD, (∀ x ∈ p.1, isWs x = true) ∧ p.1 ≠ [] ∧ p.2.OK)
    (hwsV2 : ∀ x ∈ wsV2, isWs x = true) (hwinV2 : wsV2.length < 512)
    (hokc : ∀ p ∈ cs, (∀ x ∈ p.1, (x == 60) = false) ∧ p.1.length + 128 ≤ W ∧ p.2.OK ∧ p.2.need + cs.length ≤ b.length + 6)
    (hws2 : ∀ x ∈ ws2, (x == 60) = false) (hwin2 : ws2.length + 128 ≤ W)
    (hws3 : ∀ x ∈ ws3, (x == 60) = false) (hwin3 : ws3.length + 128 ≤ W)
    (hws4 : ∀ x ∈ ws4, (x == 60) = false) (hwin4 : ws4.length + 128 ≤ W)
    (hcs : cs.length ≤ b.length + 5) :
    parseXmp b = (.ok (), (pushC D.prop cs (pushAll D.prop laD (pushAll RDF.prop laR []))).reverse) :=
  parseXmp_packet_exact b gs g A RDF D laR laD cs wsR wsV1 wsV2 ws2 ws3 ws4 tail X2 hb hj hg hglen hA hAlen hX2 hRDF hRseq hRroot hD hDseq hDroot
    hwsR hwinR hlaR hokR hwsV1 hwinV1 hlaD hokD hwsV2 hwinV2 hokc hws2 hwin2 hws3 hwin3 hws4 hwin4 hcs

/-! non-vacuity: a packet of the shape the theorem describes, and what the model makes of it -/
def pkt : Bytes := ("<?xpacket begin=\"\" id=\"W5M0\"?>\n<x:xmpmeta xmlns:x=\"adobe:ns:meta/\">\n <rdf:RDF xmlns:rdf=\"http://www.w3.org/1999/02/22-rdf-syntax-ns#\">\n  <rdf:Description tiff:Make=\"Canon\">\n   <dc:subject><rdf:Bag><rdf:li>sea</rdf:li><rdf:li>sky</rdf:li></rdf:Bag></dc:subject>\n   <tiff:Model>EOS</tiff:Model>\n  </rdf:Description>\n </rdf:RDF>\n</x:xmpmeta>\n<?xpacket end=\"w\"?>").toUTF8.toList
def nRDF : Name := { n0 := 114, ns := [100, 102], name := [82, 68, 70] }
def aXmlns : Attr := { n0 := 120, ns := [109, 108, 110, 115], m0 := 114, name := [100, 102], q := 34, v := ("http://www.w3.org/1999/02/22-rdf-syntax-ns#").toUTF8.toList }
/-- the packet is an instance of the theorem's serialisation -/
example : pkt = serJ [[]] ((("?xpacket begin=\"\" id=\"W5M0\"?>\n").toUTF8.toList) ++ 60 :: (rootName ++ (" xmlns:x=\"adobe:ns:meta/\"").toUTF8.toList ++ 62 ::
    packetBody nRDF nDesc [([32], aXmlns)] [([32], aMake)] [([], cSubject), ([10, 32, 32, 32], .elem eModel)]
      [10, 32] [10, 32, 32] [10, 32, 32, 32] [10, 32, 32] [10, 32] [10] ("\n<?xpacket end=\"w\"?>").toUTF8.toList)) := by decide +kernel
example : nRDF.OK ∧ aXmlns.OK ∧ (nRDF.prop == rdfSeq || nRDF.prop == rdfAlt || nRDF.prop == rdfBag) = false ∧ (nRDF.prop == rootProp) = false := by
  refine ⟨⟨by decide, by decide, by decide, by decide⟩, ⟨by decide, by decide, by decide, by decide, by decide, by decide +kernel, by decide, by decide +kernel⟩, by decide +kernel, by decide +kernel⟩
/-- and the model run on it: no error; xmlns:rdf, tiff:Make, two dc:subject items, tiff:Model — document order -/
example : (match (parseXmp pkt).1 with | .ok _ => true | .error _ => false) = true ∧ (parseXmp pkt).2.map (fun t => (t.pt, t.val.length)) = [(1, 43), (1, 5), (2, 3), (2, 3), (2, 3)] := by decide +kernel

end Imeta.Props.C13
