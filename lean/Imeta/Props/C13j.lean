/-
  C13 — array items that carry attributes: the Alt arrays (`<rdf:li xml:lang="x-default">`) of dc:title, dc:rights,
  dc:description (Lemmas/XmpSeqAttr.lean).  `Child.arrA` makes them children like the others, so the packet theorems
  (C13_packet_exact, C13_packet_descriptions_exact) cover them.
-/
import Imeta.Props.C13i
import Imeta.Lemmas.XmpAttrLong
import Imeta.Lemmas.XmpElemLong
namespace Imeta.Props.C13
open Imeta Imeta.Xmp

/-- **Items with or without attributes, in document order.**  As `C13_array_items_in_document_order`, with each item free to
carry an attribute list: every attribute with a non-empty value is handed on as a token of the array's property whose parent
is the attribute's own property (that is how the value parsers tell `xml:lang` from an item), followed by the item's token
with exactly its value. -/
theorem C13_array_items_with_attributes (parent : Tag) (wsE : Bytes) (n0 : UInt8) (ns name R : Bytes)
    (hwsE : ∀ x ∈ wsE, (x == 60) = false) (hwinE : wsE.length + 128 ≤ W)
    (hnsE : ∀ x ∈ n0 :: ns, (x == 58) = false) (hnameE : ∀ x ∈ name, isTerm x = false) (hfitE : ns.length + name.length + 5 ≤ 128)
    (hself : identify (n0 :: ns) name = parent.self) (l : List (Bytes × List (Bytes × Attr) × Elem)) (f : Nat) (st : St)
    (hr : st.rest = serIA l ++ (wsE ++ 60 :: 47 :: ((n0 :: ns) ++ 58 :: (name ++ 62 :: R))))
    (hok : ∀ p ∈ l, (∀ x ∈ p.1, (x == 60) = false) ∧ p.1.length + 128 ≤ W ∧ p.2.2.Item ∧ (p.2.2.prop == parent.self) = false ∧
      (∀ q ∈ p.2.1, (∀ x ∈ q.1, isWs x = true) ∧ q.1 ≠ [] ∧ q.2.OK)) :
    readSeqTags parent (f + 1 + 2 * l.length) st = (.ok (), { rest := R, a := false, toks := pushIA parent l st.toks }) :=
  readSeqTags_itemsA_exact parent wsE n0 ns name R hwsE hwinE hnsE hnameE hfitE hself l f st hr hok

/-! non-vacuity: `<dc:title><rdf:Alt><rdf:li xml:lang="x-default">Dunes</rdf:li></rdf:Alt></dc:title>` as a child of a Description -/
def nTitle : Name := { n0 := 100, ns := [99], name := [116, 105, 116, 108, 101] }
def nAlt : Name := { n0 := 114, ns := [100, 102], name := [65, 108, 116] }
def aLang : Attr := { n0 := 120, ns := [109, 108], m0 := 108, name := [97, 110, 103], q := 34, v := ("x-default").toUTF8.toList }
def liDunes : Elem := { n0 := 114, ns := [100, 102], name := [108, 105], c := 68, v' := [117, 110, 101, 115] }
def cTitle : Child := .arrA nTitle nAlt [] [] [] [([], [([32], aLang)], liDunes)]
example : cTitle.ser [] = ("<dc:title><rdf:Alt><rdf:li xml:lang=\"x-default\">Dunes</rdf:li></rdf:Alt></dc:title>").toUTF8.toList := by decide +kernel
example : aLang.OK ∧ liDunes.Item ∧ nTitle.OK ∧ nAlt.OK ∧ (nAlt.prop == rdfSeq || nAlt.prop == rdfAlt || nAlt.prop == rdfBag) = true ∧
    (nTitle.prop == rdfSeq || nTitle.prop == rdfAlt || nTitle.prop == rdfBag) = false ∧ (liDunes.prop == nAlt.prop) = false := by
  refine ⟨⟨by decide, by decide, by decide, by decide, by decide, by decide +kernel, by decide, by decide +kernel⟩, ⟨by decide, by decide, by decide, by decide, by decide, by decide, by decide⟩,
    ⟨by decide, by decide, by decide, by decide⟩, ⟨by decide, by decide, by decide, by decide⟩, by decide +kernel, by decide +kernel, by decide +kernel⟩
/-- the model run: the xml:lang token (parent = xml:lang, property = dc:title), then the item -/
example : ((readTag 9 descTag { rest := cTitle.ser ("</rdf:Description>").toUTF8.toList, a := false, toks := [] }).2.toks.reverse.map
      (fun t => (t.pt, t.self == nTitle.prop, t.parent == aLang.prop, t.val.length))) = [(1, true, true, 9), (2, true, false, 5)] := by decide +kernel

/-- **A self-closing element is stepped over.**  `<ns:name/>` without attributes — an empty array written `<rdf:Bag/>`, an unknown
empty property — costs one round of readTag, reports nothing and consumes exactly the tag; as `Child.solo` it may stand
anywhere among the children of a Description in the packet theorems. -/
theorem C13_self_closing_element_skipped (parent : Tag) (st : St) (ws : Bytes) (n : Name) (R : Bytes) (f : Nat)
    (hr : st.rest = ws ++ 60 :: ((n.n0 :: n.ns) ++ 58 :: (n.name ++ 47 :: 62 :: R)))
    (hws : ∀ x ∈ ws, (x == 60) = false) (hwin : ws.length + 128 ≤ W) (ok : n.OK) :
    readTag (f + 1) parent st = readTag f parent { rest := R, a := false, toks := st.toks } :=
  readTag_solo_exact parent st ws n R f hr hws hwin ok

/-- non-vacuity: `<rdf:Bag/>` between two properties changes nothing but the position -/
example : ((readTag 6 descTag { rest := serC [([], .elem eMake), ([], .solo nBag), ([10], .elem eModel)] ("</rdf:Description>").toUTF8.toList, a := false, toks := [] }).2.toks.reverse.map (·.val)) =
    [[67, 97, 110, 111, 110], [69, 79, 83]] := by decide +kernel

/-- non-vacuity for a bare Description: `<rdf:Description>` without attributes is covered by `DescR` (its `la` may be empty) -/
def d0 : DescR := { D := nDesc, wsV := [], ws2 := [], la := [], cs := [([], .elem eModel)] }
example : ((readTag 5 {} { rest := d0.ser ("</rdf:RDF>").toUTF8.toList, a := false, toks := [] }).2.toks.map (·.val), d0.ser [] ) =
    ([[69, 79, 83]], ("<rdf:Description><tiff:Model>EOS</tiff:Model></rdf:Description>").toUTF8.toList) := by decide +kernel

/-- **An attribute value of any length up to 1275 bytes** (the property's 1..1024-byte values that straddle the 256 / 768 /
1280-byte look-ahead steps included) **is returned exactly**: a window that does not hold the closing quote and the two bytes
behind it is given up without consuming anything, the next one is tried, and the value comes back as written — the result
does not depend on where the value ends relative to the window steps. -/
theorem C13_attribute_value_any_length (tag : Tag) (st : St) (v t'' : Bytes) (q c1 c2 : UInt8)
    (hq : q = 34 ∨ q = 39) (hv : ∀ x ∈ v, (x == q) = false) (h62 : c1 ≠ 62) (h47 : c1 ≠ 47) (hlen : v.length + 5 ≤ 1280)
    (hr : st.rest = [61, q] ++ v ++ [q, c1, c2] ++ t'') :
    readAttrValue tag 8 256 st = (.ok (v, tag), { st with rest := [c1, c2] ++ t'' }) :=
  readAttrValue_any tag st v t'' q c1 c2 hq hv h62 h47 hlen hr

/-- non-vacuity: a 1000-byte value (third window) -/
example : (readAttrValue {} 8 256 { rest := [61, 34] ++ List.replicate 1000 65 ++ [34, 32, 120] ++ [], a := true, toks := [] }).1.toOption.map (fun r => r.1.length) = some 1000 := by
  decide +kernel

/-- **An element value of any length up to 1535 bytes is returned exactly**, whichever of the 512 / 1024 / 1536-byte windows it
ends in: a window without the '<' behind the value is given up without consuming anything and the search goes on from where
it stopped in the next one. -/
theorem C13_element_value_any_length (st : St) (c : UInt8) (v' t' : Bytes)
    (hv : ∀ x ∈ c :: v', (x == 60) = false) (hc : isWs c = false) (hlen : (c :: v').length < 1536)
    (hr : st.rest = (c :: v') ++ 60 :: t') (h4 : 4 < st.rest.length) :
    readTagValue 8 512 0 0 st = (.ok (c :: v'), { st with rest := 60 :: t' }) :=
  readTagValue_any st c v' t' hv hc hlen hr h4

/-- non-vacuity: a 1200-byte value (third window) -/
example : (readTagValue 8 512 0 0 { rest := List.replicate 1200 65 ++ [60, 47], a := false, toks := [] }).1.toOption.map (·.length) = some 1200 := by
  decide +kernel

end Imeta.Props.C13
