/-
  C09 — Image-type sniffing is a total, prefix-only, signature-correct classification.

  Property theorems only.  The predicates and the decision list are GENERATED from
  imagetype/*.go on every run (Imeta.Gen.ImageType); the tie lemma
  `parseBuffer_spec` (Lemmas/ImageType) re-proves on every run that they compute
  the hand-written signature table `ImageTypeSpec.table`.
-/
import Imeta.Lemmas.ImageType
set_option linter.unusedSimpArgs false
namespace Imeta.ImageType
open Imeta Imeta.Gen.ImageType Imeta.ImageTypeSpec

/-- **C09 main theorem**: for every byte string, `Buf` is the specified sniffing function:
`DataLength` below 24 bytes, otherwise the first matching row of the signature table applied
to the first 24 bytes, `TypeNotFound` when no row matches.  In particular it never panics. -/
theorem C09_buf_eq_spec (b : Bytes) : Buf b = sniff b := by
  unfold Buf sniff
  by_cases h : b.length < 24
  · simp [h, searchHeaderLength, lenLt]
  · have h24 : 24 ≤ b.length := by omega
    simp [h, searchHeaderLength, lenLt, parseBuffer_spec b h24]

/-- streams shorter than 24 bytes: an error and no type -/
theorem C09_short (b : Bytes) (h : b.length < 24) : Buf b = .err .dataLength := by
  rw [C09_buf_eq_spec]; simp [sniff, h]

/-- total: a value or an error for every byte string, never a panic -/
theorem C09_total (b : Bytes) : (Buf b).isPanic = false ∧ (Buf b).isFuel = false := by
  rw [C09_buf_eq_spec]; unfold sniff
  split
  · simp [Outcome.isPanic, Outcome.isFuel]
  · split <;> simp [Outcome.isPanic, Outcome.isFuel]

/-- prefix-only: everything after byte 24 is ignored -/
theorem C09_prefix_only (b : Bytes) (h : 24 ≤ b.length) : Buf b = Buf (b.take 24) := by
  rw [C09_buf_eq_spec, C09_buf_eq_spec]
  have : ¬ b.length < 24 := by omega
  simp [sniff, this, List.length_take, Nat.min_eq_left h, List.take_take]

/-- ... stated with an explicit suffix: for all 2^192 headers and all suffixes -/
theorem C09_suffix_irrelevant (hd s : Bytes) (h : hd.length = 24) : Buf (hd ++ s) = Buf hd := by
  rw [C09_prefix_only (hd ++ s) (by simp [h])]
  simp [List.take_append, h]

/-- helper: firstMatch soundness/completeness on an arbitrary decision table -/
theorem firstMatch_some (tb : List (Nat × (Bytes → Bool))) (h : Bytes) (F : Nat)
    (hm : firstMatch tb h = some F) : ∃ e ∈ tb, e.1 = F ∧ e.2 h = true := by
  induction tb with
  | nil => simp [firstMatch] at hm
  | cons e rest ih =>
    obtain ⟨t, p⟩ := e
    simp only [firstMatch] at hm
    split at hm
    · rename_i hp
      have ht : t = F := by simpa using hm
      exact ⟨(t, p), by simp, ht, hp⟩
    · obtain ⟨e, he, h1, h2⟩ := ih hm; exact ⟨e, by simp [he], h1, h2⟩

theorem firstMatch_none (tb : List (Nat × (Bytes → Bool))) (h : Bytes) :
    firstMatch tb h = none ↔ ∀ e ∈ tb, e.2 h = false := by
  induction tb with
  | nil => simp [firstMatch]
  | cons e rest ih =>
    obtain ⟨t, p⟩ := e
    simp only [firstMatch]
    split
    · rename_i hp; simp [hp]
    · rename_i hp; simp [ih, hp]

/-- every type in the table is a known type (not `ImageUnknown`) -/
theorem table_types_known : ∀ e ∈ table, e.1 ≠ ImageUnknown := by decide

/-- **sound**: a header is given type F only if it carries F's signature -/
theorem C09_sound (b : Bytes) (F : Nat) (h : Buf b = .ok F) :
    24 ≤ b.length ∧ F ≠ ImageUnknown ∧ Sig F (b.take 24) = true := by
  rw [C09_buf_eq_spec] at h
  unfold sniff at h
  split at h
  · cases h
  · rename_i hl
    split at h
    · cases h
    · rename_i hu
      cases h
      refine ⟨by omega, by simpa using hu, ?_⟩
      unfold classify at hu ⊢
      cases hm : firstMatch table (b.take 24) with
      | none => simp [hm] at hu
      | some G =>
        obtain ⟨e, he, h1, h2⟩ := firstMatch_some _ _ _ hm
        simp only [Option.getD_some]
        unfold Sig
        rw [List.any_eq_true]
        exact ⟨e, he, by simp [h1, h2]⟩

/-- **'not found' exactly when the type is unknown**: no row of the table matches -/
theorem C09_notfound_iff (b : Bytes) :
    Buf b = .err .typeNotFound ↔ 24 ≤ b.length ∧ ∀ e ∈ table, e.2 (b.take 24) = false := by
  rw [C09_buf_eq_spec]
  unfold sniff
  constructor
  · intro h
    split at h
    · cases h
    · rename_i hl
      split at h
      · rename_i hu
        refine ⟨by omega, ?_⟩
        rw [← firstMatch_none]
        unfold classify at hu
        cases hm : firstMatch table (b.take 24) with
        | none => rfl
        | some G =>
          obtain ⟨e, he, h1, _⟩ := firstMatch_some _ _ _ hm
          simp only [hm, Option.getD_some, beq_iff_eq] at hu
          exact absurd (h1.trans hu) (table_types_known e he)
      · cases h
  · intro ⟨hl, hn⟩
    have : ¬ b.length < 24 := by omega
    rw [← firstMatch_none] at hn
    simp [this, classify, hn]

/-- **complete, with priorities**: if row `i` of the table matches the header and no earlier
(more specific) row does, the header is classified as row `i`'s type -/
theorem C09_complete (b : Bytes) (hl : 24 ≤ b.length) (i : Nat) (hi : i < table.length)
    (hm : (table[i]).2 (b.take 24) = true)
    (hno : ∀ j (hj : j < i), (table[j]'(by omega)).2 (b.take 24) = false) :
    Buf b = .ok (table[i]).1 := by
  rw [C09_buf_eq_spec]
  have hl' : ¬ b.length < 24 := by omega
  have key : ∀ (tb : List (Nat × (Bytes → Bool))) (i : Nat) (hi : i < tb.length),
      (tb[i]).2 (b.take 24) = true →
      (∀ j (hj : j < i), (tb[j]'(by omega)).2 (b.take 24) = false) →
      firstMatch tb (b.take 24) = some (tb[i]).1 := by
    intro tb
    induction tb with
    | nil => intro i hi; simp at hi
    | cons e rest ih =>
      intro i hi hm hno
      obtain ⟨t, p⟩ := e
      cases i with
      | zero => simp only [List.getElem_cons_zero] at hm ⊢; simp [firstMatch, hm]
      | succ i =>
        have h0 := hno 0 (by omega)
        simp only [List.getElem_cons_zero] at h0
        simp only [firstMatch, h0, List.getElem_cons_succ]
        exact ih i (by simpa using hi) (by simpa using hm)
          (fun j hj => by simpa using hno (j+1) (by omega))
  have hk := key table i hi hm hno
  have hne : (table[i]).1 ≠ ImageUnknown := table_types_known _ (List.getElem_mem hi)
  simp [sniff, hl', classify, hk, hne]

/-! ### The specific-over-generic cases the statement names -/

section
/-- signatures with different first bytes cannot both match (disjointness by byte 0..3, 8) -/
theorem sig_disjoint (b : Bytes) (hl : 24 ≤ b.length) :
    let h := b.take 24
    (sigCR2 h = true → sigJPEG h = false ∧ sigJP2 h = false ∧ sigCRW h = false) ∧
    (sigRW2 h = true → sigJPEG h = false ∧ sigJP2 h = false ∧ sigCRW h = false ∧ sigCR2 h = false ∧
        sigCR3 h = false ∧ sigAVIF h = false ∧ sigHEIF h = false) ∧
    (sigCR3 h = true → sigJPEG h = false ∧ sigJP2 h = false ∧ sigCRW h = false ∧ sigCR2 h = false) ∧
    (sigAVIF h = true → sigJPEG h = false ∧ sigJP2 h = false ∧ sigCRW h = false ∧ sigCR2 h = false ∧
        sigCR3 h = false) ∧
    (sigTIFF h = true → sigJPEG h = false ∧ sigJP2 h = false ∧ sigCR3 h = false ∧ sigAVIF h = false ∧
        sigHEIF h = false ∧ sigRW2 h = false) := by
  obtain ⟨b0, b1, b2, b3, b4, b5, b6, b7, b8, b9, b10, b11, b12, b13, b14, b15, b16, b17, b18, b19,
    b20, b21, b22, b23, rest, rfl⟩ := destruct24 b hl
  simp only [take24]
  simp only [sigCR2, sigJPEG, sigJP2, sigCRW, sigRW2, sigCR3, sigAVIF, sigHEIF, sigTIFF, sigFtyp, hasAt,
    crx_, avif, mif1, msf1, heic, heix, hevc]
  simp
  refine ⟨?_, ?_, ?_, ?_, ?_⟩ <;> intros <;>
    first
    | (simp_all; done)
    | (rcases ‹_ ∨ _› with h | h <;> simp_all; done)
end

/-- CR2 wins over TIFF -/
theorem C09_cr2_over_tiff (b : Bytes) (hl : 24 ≤ b.length) (h : sigCR2 (b.take 24) = true) :
    Buf b = .ok ImageCR2 := by
  have d := (sig_disjoint b hl).1 h
  exact C09_complete b hl 3 (by decide) h (fun j hj => by
    match j, hj with
    | 0, _ => exact d.1
    | 1, _ => exact d.2.1
    | 2, _ => exact d.2.2)

/-- RW2 is identified as Panasonic raw -/
theorem C09_rw2 (b : Bytes) (hl : 24 ≤ b.length) (h : sigRW2 (b.take 24) = true) :
    Buf b = .ok ImagePanaRAW := by
  have d := (sig_disjoint b hl).2.1 h
  exact C09_complete b hl 7 (by decide) h (fun j hj => by
    match j, hj with
    | 0, _ => exact d.1
    | 1, _ => exact d.2.1
    | 2, _ => exact d.2.2.1
    | 3, _ => exact d.2.2.2.1
    | 4, _ => exact d.2.2.2.2.1
    | 5, _ => exact d.2.2.2.2.2.1
    | 6, _ => exact d.2.2.2.2.2.2)

/-- CR3 chosen by ftyp brand 'crx ' -/
theorem C09_cr3 (b : Bytes) (hl : 24 ≤ b.length) (h : sigCR3 (b.take 24) = true) :
    Buf b = .ok ImageCR3 := by
  have d := (sig_disjoint b hl).2.2.1 h
  exact C09_complete b hl 4 (by decide) h (fun j hj => by
    match j, hj with
    | 0, _ => exact d.1
    | 1, _ => exact d.2.1
    | 2, _ => exact d.2.2.1
    | 3, _ => exact d.2.2.2)

/-- AVIF chosen by ftyp brand -/
theorem C09_avif (b : Bytes) (hl : 24 ≤ b.length) (h : sigAVIF (b.take 24) = true) :
    Buf b = .ok ImageAVIF := by
  have d := (sig_disjoint b hl).2.2.2.1 h
  exact C09_complete b hl 5 (by decide) h (fun j hj => by
    match j, hj with
    | 0, _ => exact d.1
    | 1, _ => exact d.2.1
    | 2, _ => exact d.2.2.1
    | 3, _ => exact d.2.2.2.1
    | 4, _ => exact d.2.2.2.2)

/-- HEIF chosen by ftyp brand (unless the brands also say AVIF, which is listed first) -/
theorem C09_heif (b : Bytes) (hl : 24 ≤ b.length) (h : sigHEIF (b.take 24) = true)
    (hna : sigAVIF (b.take 24) = false) : Buf b = .ok ImageHEIF := by
  rw [C09_buf_eq_spec]
  have hl' : ¬ b.length < 24 := by omega
  obtain ⟨b0, b1, b2, b3, b4, b5, b6, b7, b8, b9, b10, b11, b12, b13, b14, b15, b16, b17, b18, b19,
    b20, b21, b22, b23, rest, rfl⟩ := destruct24 b hl
  simp only [take24] at h hna ⊢
  have hf : sigFtyp [b0, b1, b2, b3, b4, b5, b6, b7, b8, b9, b10, b11, b12, b13, b14, b15, b16, b17,
      b18, b19, b20, b21, b22, b23] = true := by
    simp only [sigHEIF, Bool.and_eq_true] at h; exact h.1
  have h1 : (b0 = 0 ∧ b1 = 0) ∧ b4 = 0x66 ∧ b5 = 0x74 ∧ b6 = 0x79 ∧ b7 = 0x70 := by
    simpa [sigFtyp, hasAt] using hf
  obtain ⟨⟨rfl, rfl⟩, rfl, rfl, rfl, rfl⟩ := h1
  have hcr3 : sigCR3 [0, 0, b2, b3, 0x66, 0x74, 0x79, 0x70, b8, b9, b10, b11, b12, b13, b14, b15, b16, b17,
      b18, b19, b20, b21, b22, b23] = false := by
    simp only [sigHEIF, sigFtyp, hasAt, crx_, avif, mif1, msf1, heic, heix, hevc] at h
    simp only [sigCR3, sigFtyp, hasAt, crx_]
    simp at h ⊢
    grind
  simp [sniff, classify, firstMatch, table, h, hna, hcr3, sigJPEG, sigJP2, sigCRW, sigCR2, sigTIFF, hasAt,
    ImageHEIF, ImageUnknown]

/-- generic TIFF only when the header is neither CR2 nor CRW -/
theorem C09_tiff (b : Bytes) (hl : 24 ≤ b.length) (h : sigTIFF (b.take 24) = true)
    (h1 : sigCR2 (b.take 24) = false) (h2 : sigCRW (b.take 24) = false) : Buf b = .ok ImageTiff := by
  have d := (sig_disjoint b hl).2.2.2.2 h
  exact C09_complete b hl 8 (by decide) h (fun j hj => by
    match j, hj with
    | 0, _ => exact d.1
    | 1, _ => exact d.2.1
    | 2, _ => exact h2
    | 3, _ => exact h1
    | 4, _ => exact d.2.2.1
    | 5, _ => exact d.2.2.2.1
    | 6, _ => exact d.2.2.2.2.1
    | 7, _ => exact d.2.2.2.2.2)

/-! ### All entry points agree and none consumes the stream -/

/-- `ScanBuf` (any bufio.Reader of size ≥ 24), `Scan` (any reader kind) and `ReadAt` return
what `Buf` returns on the stream when it has ≥ 24 bytes, an error and no type otherwise;
`ScanBuf` leaves the stream untouched. -/
theorem C09_entrypoints_agree (s : Bytes) (size : Nat) (hs : 24 ≤ size) (sz : Option Nat) :
    (ScanBuf s size).2 = s ∧
    (24 ≤ s.length →
      (ScanBuf s size).1 = Buf s ∧ Scan s sz = Buf s ∧ ReadAt s = Buf s) ∧
    (s.length < 24 →
      (ScanBuf s size).1 = .err .eof ∧ Scan s sz = .err .eof ∧ ReadAt s = .err .eof ∧
      Buf s = .err .dataLength) := by
  refine ⟨rfl, ?_, ?_⟩
  · intro hl
    have h1 : ¬ s.length < 24 := by omega
    have h2 : ¬ size < 24 := by omega
    have hb : Buf (s.take 24) = Buf s := (C09_prefix_only s hl).symm
    refine ⟨by simp [ScanBuf, peek, searchHeaderLength, lenLt, h1, h2, hb], ?_,
      by simp [ReadAt, searchHeaderLength, lenLt, h1, hb]⟩
    cases sz with
    | none => simp [Scan, ScanBuf, peek, searchHeaderLength, lenLt, h1, hb]
    | some n =>
      by_cases hn : n < 24
      · simp [Scan, ScanBuf, peek, searchHeaderLength, lenLt, h1, hb, hn]
      · simp [Scan, ScanBuf, peek, searchHeaderLength, lenLt, h1, hb, hn]
  · intro hl
    have h2 : ¬ size < 24 := by omega
    refine ⟨by simp [ScanBuf, peek, searchHeaderLength, lenLt, hl, h2], ?_,
      by simp [ReadAt, searchHeaderLength, lenLt, hl], C09_short s hl⟩
    cases sz with
    | none => simp [Scan, ScanBuf, peek, searchHeaderLength, lenLt, hl]
    | some n =>
      by_cases hn : n < 24
      · simp [Scan, ScanBuf, peek, searchHeaderLength, lenLt, hl, hn]
      · simp [Scan, ScanBuf, peek, searchHeaderLength, lenLt, hl, hn]

/-- no predicate reads at or beyond index 24: every 24-byte buffer is classified without a
panic (this is `C09_total` specialised; it is what C01 uses for the sniffing entry points) -/
theorem C09_no_index_beyond_guard (h : Bytes) (hl : h.length = 24) :
    ∃ t, parseBuffer h = .ok t := ⟨_, parseBuffer_spec h (by omega)⟩

/-! ### Non-vacuity -/
def cr2Header : Bytes :=
  [0x49, 0x49, 0x2a, 0x00, 0x10, 0, 0, 0, 0x43, 0x52, 0x02, 0x00] ++ List.replicate 12 0

example : sigCR2 (cr2Header.take 24) = true ∧ sigTIFF (cr2Header.take 24) = true := by decide
example : Buf cr2Header = .ok ImageCR2 := by decide
example : Buf (cr2Header.take 23) = .err .dataLength := by decide
example : Buf (List.replicate 24 0x20) = .err .typeNotFound := by decide

end Imeta.ImageType
