/-
  C13 — a whole packet with several rdf:Description elements (Lemmas/XmpPacket2.lean).
-/
import Imeta.Lemmas.XmpPacket2
import Imeta.Props.C13h
namespace Imeta.Props.C13
open Imeta Imeta.Xmp

/-- **A whole packet with any number of Descriptions** (one per namespace, as exiftool writes them; one for everything, as
Adobe's toolkit does): leading bytes, the root start tag, `<rdf:RDF attrs>`, the Descriptions — each with its attribute-form
properties and its element-form / array children in any order — with any white space between all of them, the stop tags,
trailing bytes.  ParseXmp of the model returns without error having handed the value parsers exactly the tokens of all the
records, in document order.  `DescR.OK` collects what `C13_description_record_exact` asks of one Description; its nesting
budget `b.length + 7 − (number of Descriptions)` is met by every packet. -/
theorem C13_packet_descriptions_exact (b : Bytes) (gs : List Bytes) (g A : Bytes) (RDF : Name) (laR : List (Bytes × Attr)) (ds : List (Bytes × DescR))
    (wsR wsV1 ws3 ws4 tail X1 : Bytes)
    (hb : b = serJ gs (g ++ 60 :: (rootName ++ A ++ 62 :: packetBodyN RDF laR ds wsR wsV1 ws3 ws4 tail)))
    (hj : JunkOK gs (g ++ 60 :: (rootName ++ A ++ 62 :: packetBodyN RDF laR ds wsR wsV1 ws3 ws4 tail)))
    (hg : ∀ x ∈ g, (x == 60) = false) (hglen : g.length < W) (hA : ∀ x ∈ A, (x == 62) = false) (hAlen : 9 + A.length < W)
    (hX1 : 60 :: X1 = serDs ds (ws3 ++ RDF.closeT (ws4 ++ nRoot.closeT tail)))
    (hRDF : RDF.OK) (hRseq : (RDF.prop == rdfSeq || RDF.prop == rdfAlt || RDF.prop == rdfBag) = false) (hRroot : (RDF.prop == rootProp) = false)
    (hwsR : ∀ x ∈ wsR, (x == 60) = false) (hwinR : wsR.length + 128 ≤ W)
    (hlaR : laR ≠ []) (hokR : ∀ p ∈ laR, (∀ x ∈ p.1, isWs x = true) ∧ p.1 ≠ [] ∧ p.2.OK)
    (hwsV1 : ∀ x ∈ wsV1, isWs x = true) (hwinV1 : wsV1.length < 512)
    (hokd : ∀ p ∈ ds, (∀ x ∈ p.1, (x == 60) = false) ∧ p.1.length + 128 ≤ W ∧ p.2.OK (b.length + 7 - ds.length))
    (hws3 : ∀ x ∈ ws3, (x == 60) = false) (hwin3 : ws3.length + 128 ≤ W)
    (hws4 : ∀ x ∈ ws4, (x == 60) = false) (hwin4 : ws4.length + 128 ≤ W)
    (hds : ds.length ≤ b.length + 6) :
    parseXmp b = (.ok (), (pushDs ds (pushAll RDF.prop laR [])).reverse) :=
  parseXmp_packetN_exact b gs g A RDF laR ds wsR wsV1 ws3 ws4 tail X1 hb hj hg hglen hA hAlen hX1 hRDF hRseq hRroot hwsR hwinR hlaR hokR hwsV1 hwinV1
    hokd hws3 hwin3 hws4 hwin4 hds

/-! non-vacuity: two Descriptions, exiftool style -/
def pkt2 : Bytes := ("<x:xmpmeta xmlns:x=\"adobe:ns:meta/\">\n<rdf:RDF xmlns:rdf=\"http://www.w3.org/1999/02/22-rdf-syntax-ns#\">\n <rdf:Description tiff:Make=\"Canon\">\n  <tiff:Model>EOS</tiff:Model>\n </rdf:Description>\n <rdf:Description tiff:Make=\"Canon\">\n  <dc:subject><rdf:Bag><rdf:li>sea</rdf:li><rdf:li>sky</rdf:li></rdf:Bag></dc:subject>\n </rdf:Description>\n</rdf:RDF>\n</x:xmpmeta>").toUTF8.toList
def d1 : DescR := { D := nDesc, wsV := [10, 32, 32], ws2 := [10, 32], la := [([32], aMake)], cs := [([], .elem eModel)] }
def d2 : DescR := { D := nDesc, wsV := [10, 32, 32], ws2 := [10, 32], la := [([32], aMake)], cs := [([], cSubject)] }
example : pkt2 = serJ [] ([] ++ 60 :: (rootName ++ (" xmlns:x=\"adobe:ns:meta/\"").toUTF8.toList ++ 62 ::
    packetBodyN nRDF [([32], aXmlns)] [([], d1), ([10, 32], d2)] [10] [10, 32] [10] [10] [])) := by decide +kernel
example : (match (parseXmp pkt2).1 with | .ok _ => true | .error _ => false) = true ∧
    (parseXmp pkt2).2.map (fun t => (t.pt, t.val.length)) = [(1, 43), (1, 5), (2, 3), (1, 5), (2, 3), (2, 3)] := by decide +kernel
example : (∀ T, ∃ X, 60 :: X = serC d1.cs (d1.ws2 ++ d1.D.closeT T)) ∧ (∀ T, ∃ X, 60 :: X = serC d2.cs (d2.ws2 ++ d2.D.closeT T)) :=
  ⟨fun _ => ⟨_, rfl⟩, fun _ => ⟨_, rfl⟩⟩

end Imeta.Props.C13
