/-
  C13 — XMP properties are extracted exactly, in attribute or element form alike.

  The model (Imeta/Model/Xmp.lean) is tied to xmp/reader.go by the correspondence on generated packets and their
  mutations (harness/cmd/vh/c13.go). Theorems: the two value readers return exactly the bytes between the delimiters,
  for every value, whatever follows, in whichever look-ahead window the closing delimiter falls.
-/
import Imeta.Model.Xmp
import Imeta.Lemmas.XmpTotal
namespace Imeta.Props.C13
open Imeta Imeta.Xmp

theorem bindOk {α β} (m : M α) (f : α → M β) (st st' : St) (a : α) (h : m st = (.ok a, st')) : (m >>= f) st = f a st' := by
  show (match m st with | (.ok a, st') => f a st' | (.error e, st') => (.error e, st')) = _
  rw [h]

theorem bindErr {α β} (m : M α) (f : α → M β) (st st' : St) (e : XErr) (h : m st = (.error e, st')) : (m >>= f) st = (.error e, st') := by
  show (match m st with | (.ok a, st') => f a st' | (.error e, st') => (.error e, st')) = _
  rw [h]

theorem findIdx_skip (p : UInt8 → Bool) (v w : Bytes) (hv : ∀ x ∈ v, p x = false) : (v ++ w).findIdx p = v.length + w.findIdx p := by
  induction v with
  | nil => simp
  | cons a t ih =>
    have ha : p a = false := hv a List.mem_cons_self
    simp only [List.cons_append, List.findIdx_cons, ha, cond_false, List.length_cons]
    rw [ih (fun x hx => hv x (List.mem_cons_of_mem _ hx))]
    omega

theorem at_ok (buf : Bytes) (i : Nat) (b : UInt8) (st : St) (h : buf[i]? = some b) : at? buf i st = (.ok b, st) := by
  unfold at?; rw [h]; rfl

/-- **Attribute form, one look-ahead window.** If the window starts with `=`, a quote character q, a value v that does
not contain q, the closing q and at least two more bytes, the first of which is neither '>' nor '/', then the reader
returns exactly v and consumes `=`, both quotes and v — nothing of what follows. -/
theorem attr_value_exact (tag : Tag) (f sz : Nat) (st : St) (v t' : Bytes) (q c1 c2 : UInt8)
    (hq : q = 34 ∨ q = 39) (hv : ∀ x ∈ v, (x == q) = false)
    (hbuf : peek sz st = (.ok ([61, q] ++ v ++ [q, c1, c2] ++ t'), st)) (h62 : c1 ≠ 62) (h47 : c1 ≠ 47) :
    readAttrValue tag (f + 1) sz st = (.ok (v, tag), { st with rest := st.rest.drop (v.length + 3) }) := by
  unfold readAttrValue
  rw [bindOk _ _ _ _ _ hbuf]
  have h0 : ([61, q] ++ v ++ [q, c1, c2] ++ t' : Bytes)[0]? = some 61 := by simp
  rw [bindOk _ _ _ _ _ (at_ok _ 0 61 st h0)]
  -- the quote follows the '=' directly: the first non-blank byte after it is at index 1
  have hq1 : idxFrom (fun b => !isWs b) ([61, q] ++ v ++ [q, c1, c2] ++ t') 1 = 1 := by
    unfold idxFrom
    rcases hq with h | h <;> subst h <;> simp [List.findIdx_cons, isWs]
  have hb1 : ([61, q] ++ v ++ [q, c1, c2] ++ t' : Bytes).getD (1 + 1 - 1) 0 = q := by simp
  simp only [hq1, hb1, Nat.reduceAdd]
  have hcond : ((61 : UInt8) == 61 && (q == 34 || q == 39)) = true := by rcases hq with h | h <;> subst h <;> decide
  rw [if_pos hcond]
  have hk : (List.drop 2 ([61, q] ++ v ++ [q, c1, c2] ++ t' : Bytes)).findIdx (fun x => x == q) = v.length := by
    have : List.drop 2 ([61, q] ++ v ++ [q, c1, c2] ++ t' : Bytes) = v ++ ([q, c1, c2] ++ t') := by simp
    rw [this, findIdx_skip _ _ _ hv]
    simp [List.findIdx_cons]
  simp only [hk]
  have hlen : 2 + v.length + 2 < ([61, q] ++ v ++ [q, c1, c2] ++ t' : Bytes).length := by simp; omega
  rw [if_pos hlen]
  have hc1 : ([61, q] ++ v ++ [q, c1, c2] ++ t' : Bytes)[2 + v.length + 1]? = some c1 := by
    have e : ([61, q] ++ v ++ [q, c1, c2] ++ t' : Bytes) = ([61, q] ++ v ++ [q]) ++ (c1 :: (c2 :: t')) := by simp
    rw [e, List.getElem?_append_right (by simp; omega)]
    simp
    have : 2 + v.length - (v.length + 2) = 0 := by omega
    rw [this]; rfl
  rw [bindOk _ _ _ _ _ (at_ok _ _ c1 st hc1)]
  have n62 : (c1 == 62) = false := by simpa using h62
  have n47 : (c1 == 47) = false := by simpa using h47
  simp only [n62, n47, Bool.false_eq_true, if_false]
  have hval : List.take (2 + v.length - 2) (List.drop 2 ([61, q] ++ v ++ [q, c1, c2] ++ t' : Bytes)) = v := by
    have : List.drop 2 ([61, q] ++ v ++ [q, c1, c2] ++ t' : Bytes) = v ++ ([q, c1, c2] ++ t') := by simp
    rw [this]
    have : 2 + v.length - 2 = v.length := by omega
    rw [this]; simp
  show (discard (2 + v.length + 1) >>= fun _ => pure (List.take (2 + v.length - 2) (List.drop 2 _), tag)) st = _
  rw [hval]
  have : 2 + v.length + 1 = v.length + 3 := by omega
  rw [this]
  rfl

/-- **Attribute form, a window that is too small.** When the closing quote and the two bytes after it are not all inside
the window, nothing is consumed and the next, larger window is tried: the outcome does not depend on where the
window boundaries fall.  (`o`: index after the opening quote, the first non-blank byte after the '='.) -/
theorem attr_value_retry (tag : Tag) (f sz : Nat) (st : St) (buf : Bytes) (b0 b1 : UInt8) (o : Nat)
    (hbuf : peek sz st = (.ok buf, st)) (h0 : buf[0]? = some b0)
    (ho : idxFrom (fun b => !isWs b) buf 1 + 1 = o) (h1 : buf.getD (o - 1) 0 = b1)
    (hmiss : ¬ (b0 == 61 && (b1 == 34 || b1 == 39)) = true ∨ ¬ (o + (buf.drop o).findIdx (fun x => x == b1) + 2 < buf.length)) :
    readAttrValue tag (f + 1) sz st = readAttrValue tag f (sz + 512) st := by
  conv => lhs; unfold readAttrValue
  rw [bindOk _ _ _ _ _ hbuf, bindOk _ _ _ _ _ (at_ok _ 0 b0 st h0)]
  simp only [ho, h1]
  rcases hmiss with h | h
  · rw [if_neg h]
  · by_cases hc : (b0 == 61 && (b1 == 34 || b1 == 39)) = true
    · rw [if_pos hc]; (try dsimp only); rw [if_neg h]
    · rw [if_neg hc]

/-- **A value that fits no window gives an error, never a value.** -/
theorem attr_value_window_exceeded (tag : Tag) (f sz : Nat) (st : St) (h : sz > W) :
    (readAttrValue tag (f + 1) sz st).1 = Except.error XErr.bufferFull := by
  unfold readAttrValue
  have : peek sz st = (Except.error XErr.bufferFull, st) := by unfold peek; rw [if_pos h]
  rw [bindErr _ _ _ _ _ this]

/-- **Element form, one look-ahead window.** If the window holds a value v without '<' that does not start with white
space, followed by '<', the reader returns exactly v and consumes exactly v — also when v starts with '>' or "/>"
(the reader used to drop those; repaired, see known_findings). -/
theorem elem_value_exact (f sz : Nat) (st : St) (v t' : Bytes) (c : UInt8) (v' : Bytes) (hvc : v = c :: v')
    (hlt : ∀ x ∈ v, (x == 60) = false) (hc : isWs c = false)
    (hbuf : peek sz st = (.ok (v ++ [60] ++ t'), st)) :
    readTagValue (f + 1) sz 0 0 st = (.ok v, { st with rest := st.rest.drop v.length }) := by
  unfold readTagValue
  rw [bindOk _ _ _ _ _ hbuf]
  simp only [beq_self_eq_true, if_true]
  have hws : idxFrom (fun b => !isWs b) (v ++ [60] ++ t') 0 = 0 := by
    subst hvc
    unfold idxFrom
    simp [List.findIdx_cons, hc]
  have hk : idxFrom (fun x => x == 60) (v ++ [60] ++ t') 0 = v.length := by
    unfold idxFrom
    simp only [List.drop_zero, Nat.zero_add, List.append_assoc]
    rw [findIdx_skip _ _ _ hlt]
    simp [List.findIdx_cons]
  have hl : v.length < (v ++ [60] ++ t' : Bytes).length := by simp
  simp only [hws, hk]
  rw [if_pos hl]
  show (discard v.length >>= fun _ => pure (List.take (v.length - 0) (List.drop 0 (v ++ [60] ++ t')))) st = _
  simp only [List.drop_zero, Nat.sub_zero, List.append_assoc, List.take_left']
  rfl

/-- the repaired case itself: a value that starts with '>' is returned whole -/
example (f : Nat) (st : St) (t' : Bytes)
    (hbuf : peek 512 st = (.ok ([62, 67, 97] ++ [60] ++ t'), st)) :
    readTagValue (f + 1) 512 0 0 st = (.ok [62, 67, 97], { st with rest := st.rest.drop 3 }) :=
  elem_value_exact f 512 st [62, 67, 97] t' 62 [67, 97] rfl (by decide) (by decide) hbuf

/-- the reader model is total: ParseXmp ends for every input without exhausting its fuel (Lemmas/XmpTotal.lean) -/
theorem C13_parseXmp_total (b : Bytes) : ¬ Xmp.isFuel (parseXmp b).1 := parseXmp_total b

/-! non-vacuity: a concrete packet through the whole reader -/

/-- <x:xmpmeta xmlns:x="adobe:ns:meta/"><rdf:RDF><rdf:Description tiff:Make='Canon' tiff:Model="EOS 6D"><tiff:Orientation>6</tiff:Orientation></rdf:Description></rdf:RDF></x:xmpmeta> -/
def samplePacket : Bytes := [60, 120, 58, 120, 109, 112, 109, 101, 116, 97, 32, 120, 109, 108, 110, 115, 58, 120, 61, 34, 97, 100, 111, 98, 101, 58, 110, 115, 58, 109, 101, 116, 97, 47, 34, 62, 60, 114, 100, 102, 58, 82, 68, 70, 62, 60, 114, 100, 102, 58, 68, 101, 115, 99, 114, 105, 112, 116, 105, 111, 110, 32, 116, 105, 102, 102, 58, 77, 97, 107, 101, 61, 39, 67, 97, 110, 111, 110, 39, 32, 116, 105, 102, 102, 58, 77, 111, 100, 101, 108, 61, 34, 69, 79, 83, 32, 54, 68, 34, 62, 60, 116, 105, 102, 102, 58, 79, 114, 105, 101, 110, 116, 97, 116, 105, 111, 110, 62, 54, 60, 47, 116, 105, 102, 102, 58, 79, 114, 105, 101, 110, 116, 97, 116, 105, 111, 110, 62, 60, 47, 114, 100, 102, 58, 68, 101, 115, 99, 114, 105, 112, 116, 105, 111, 110, 62, 60, 47, 114, 100, 102, 58, 82, 68, 70, 62, 60, 47, 120, 58, 120, 109, 112, 109, 101, 116, 97, 62]

/-- the values of the recognised properties of the sample, in document order: Canon, EOS 6D, 6 (attribute with single
quotes, attribute with double quotes, element) -/
example : (match (parseXmp samplePacket).1 with | .ok _ => true | .error _ => false) = true ∧ (parseXmp samplePacket).2.map (·.val) =
    [[67, 97, 110, 111, 110], [69, 79, 83, 32, 54, 68], [54]] := by
  decide +kernel

end Imeta.Props.C13
