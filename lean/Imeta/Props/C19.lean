/-
  C19 — A perceptual hash is its defined function of the pixels; wrong sizes rejected.

  Property theorems. Model: Imeta.Model.Hash (hand-written, tied to /repo by `vh run C19`).
  Coefficients are elements of an arbitrary type with a decidable strict order: nothing below
  depends on floating-point facts.
-/
import Imeta.Lemmas.Hash
import Imeta.Lemmas.QSelect
namespace Imeta.Hash
open Imeta

/-! ## size guard -/

/-- **Only the required size is accepted; nil is rejected** (model of the repaired guard). -/
theorem C19_accepts_iff (s : Nat) (isNil : Bool) (w h : Int) :
    accepts s isNil w h = true ↔ (isNil = false ∧ w = s ∧ h = s) := by
  simp [accepts, and_assoc]

/-- On the pinned tree the guard was `X != Y && X != s`: these four instances are the recorded defects
(32×32, 64×32 and nil accepted by the 64-bit hash, 128×128 too). Replayed on the implementation by `vh run C19`. -/
theorem C19_witness_pinned_guard :
    acceptsPinned 64 false 32 32 = true ∧ acceptsPinned 64 false 64 32 = true ∧
    acceptsPinned 64 true 0 0 = true ∧ acceptsPinned 64 false 128 128 = true := by decide

/-! ## gray conversion: every slot written once, from the pixel at the corresponding coordinates -/

/-- **Full overwrite**: the conversion writes slots `0, 1, …, s²-1`, each exactly once, in order — no slot of the
pooled buffer keeps a value from an earlier image (C04 for the hash path). -/
theorem C19_full_overwrite (s : Nat) (mx my : Int) :
    (grayPlan s mx my).map (·.1) = List.range (s * s) := grayPlan_dests s mx my

/-- **Origin invariance**: relative to the rectangle's corner, the pixel read for each slot does not depend on
where the rectangle starts; a sub-image hashes like the same pixels at the origin. -/
theorem C19_origin_invariant (s : Nat) (mx my : Int) :
    (grayPlan s mx my).map (fun p => (p.1, p.2.1 - mx, p.2.2 - my)) = grayPlan s 0 0 := grayPlan_shift s mx my

/-- slot `i*s+j` holds the pixel `(Min.X+j, Min.Y+i)`: row-major, x fastest -/
theorem C19_plan_entry (s : Nat) (mx my : Int) (i j : Nat) (hi : i < s) (hj : j < s) :
    (grayPlan s mx my)[i * s + j]? = some (i * s + j, mx + j, my + i) := grayPlan_get s mx my i j hi hj

/-- The pinned conversions ignored `Rect.Min` (recorded defect, repaired): for a 2×2 image at (5,5) the
plan reads (0,0)… instead of (5,5)… -/
theorem C19_witness_pinned_origin : grayPlanPinned 2 5 5 ≠ grayPlan 2 5 5 := by decide

/-! ## bits: set iff above the threshold, MSB first, row-major -/

section
variable {α : Type} [LT α] [DecidableLT α]

/-- **Bit `len-1-i` of the hash is set iff coefficient `i` is above the threshold** — for every coefficient
list and every threshold. (64-bit hash: `len = 64`, so coefficient 0, the DC term, is the most significant bit.) -/
theorem C19_bits_spec (T : α) (c : List α) (i : Nat) (h : i < c.length) :
    (hashBits T c).testBit (c.length - 1 - i) = decide (T < c[i]) := hashBits_testBit T c i h

/-- the hash fits its width: no bit at or above `len` -/
theorem C19_bits_width (T : α) (c : List α) : hashBits T c < 2 ^ c.length := hashBits_lt T c

/-- the recursive definition is the Go loop (`phash |= 1 << (len-idx-1)` for `idx` counting up) -/
theorem C19_bits_loop (T : α) (c : List α) : hashBitsLoop T c = hashBits T c := hashBitsLoop_eq T c

/-- 256-bit hash: word `w`, bit `63 - r` is coefficient `64w + r` -/
theorem C19_bits_spec_256 (T : α) (c : List α) (hc : c.length = 256) (w r : Nat) (hw : w < 4) (hr : r < 64) :
    ∃ word, (hashWords T c)[w]? = some word ∧ word.testBit (63 - r) = decide (T < c[64 * w + r]'(by omega)) :=
  hashWords_testBit T c hc w r hw hr
end

section
variable {α : Type} [LinearOrder' α]

/-- **The set bits form an upper set**: if coefficient `i` is set and `c_j ≥ c_i` then `j` is set. -/
theorem C19_upper_set (T : α) (c : List α) (i j : Nat) (hi : i < c.length) (hj : j < c.length)
    (hset : (hashBits T c).testBit (c.length - 1 - i) = true) (hle : LinearOrder'.le c[i] c[j]) :
    (hashBits T c).testBit (c.length - 1 - j) = true := by
  rw [C19_bits_spec T c i hi] at hset
  rw [C19_bits_spec T c j hj]
  simp only [decide_eq_true_eq] at *
  exact LinearOrder'.lt_of_lt_of_le hset hle

/-- **One threshold at or just below the median**: whenever the threshold `T` lies between the lower median `lo`
and the upper median `hi` (as `lo/2 + hi/2` does), no coefficient above `hi` is cleared, none below `lo` is set,
and if the threshold is strictly below `hi` every coefficient `≥ hi` (the whole upper half) is set. -/
theorem C19_threshold_separates (T lo hi : α) (c : List α) (i : Nat) (h : i < c.length)
    (hlo : LinearOrder'.le lo T) (hhi : LinearOrder'.le T hi) :
    (hi < c[i] → (hashBits T c).testBit (c.length - 1 - i) = true) ∧
    (c[i] < lo → (hashBits T c).testBit (c.length - 1 - i) = false) ∧
    (T < hi → LinearOrder'.le hi c[i] → (hashBits T c).testBit (c.length - 1 - i) = true) ∧
    (c[i] = T → (hashBits T c).testBit (c.length - 1 - i) = false) := by
  rw [C19_bits_spec T c i h]
  refine ⟨?_, ?_, ?_, ?_⟩
  · intro hc; simpa using LinearOrder'.lt_of_le_of_lt hhi hc
  · intro hc
    simp only [decide_eq_false_iff_not]
    intro hT
    exact LinearOrder'.lt_irrefl _ (LinearOrder'.lt_of_lt_of_le (LinearOrder'.lt_trans hT hc) hlo)
  · intro h1 h2; simpa using LinearOrder'.lt_of_lt_of_le h1 h2
  · intro he; simp only [decide_eq_false_iff_not]; rw [he]; exact LinearOrder'.lt_irrefl _
end

/-! ## the threshold is the median: quickSelectMedian -/

section
variable {α : Type} [LT α] [DecidableLT α]

/-- **quickSelectMedian finds the upper median** (Lomuto quickselect as written, iterative, in place; model
`Hash.median`, tied to the code by the `hash.median` correspondence).  For every non-empty coefficient list c over a strict
weak order (`<` on floats without NaN): the model does not index out of range and does not use up its 2n+2 rounds; there
is an element y of c with at most n/2 elements of c smaller and at most n-1-n/2 larger — the upper median — such that
for odd n the threshold is y, and for even n (64 and 256 coefficients) it is `x/2 + y/2` for an element x of c that
is not larger than y.  With `C19_threshold_separates` (take hi = y): no coefficient above the upper median is ever cleared. -/
theorem C19_median_is_upper_median (sw : StrictWeak α) (half : α → α) (add : α → α → α) (c : List α) (hc : c ≠ []) :
    ∃ y, y ∈ c ∧ c.countP (fun x => decide (x < y)) ≤ c.length / 2 ∧ c.countP (fun x => decide (y < x)) ≤ c.length - 1 - c.length / 2 ∧
      ((c.length % 2 = 1 ∨ c.length = 1) → median half add c = .ok y) ∧
      (c.length % 2 = 0 → ∃ x, x ∈ c ∧ ¬ y < x ∧ median half add c = .ok (add (half x) (half y))) :=
  median_spec sw half add c hc

/-- the selection loop itself, for any k: permutation of the input, nothing left of k larger, nothing right of k smaller;
never a panic, never out of fuel (at most 2·(hi-low)+1 rounds: a round that does not shrink the range leaves the strict
maximum at its upper end, and the next round then shrinks it) -/
theorem C19_quickselect (sw : StrictWeak α) (k low hi fuel : Nat) (a : Array α) (g : G k low hi a) (hf : 2 * (hi - low) + 1 < fuel) :
    ∃ a', qselLoop k fuel low hi a = .ok a' ∧ a'.Perm a ∧ G k k k a' :=
  qsel_spec sw k fuel low hi a g (Or.inl hf)
end

/-- the integers are a strict weak order (non-vacuity of `StrictWeak`), and the model run on a concrete list -/
theorem strictWeak_int : StrictWeak Int := ⟨fun a b h => by omega, fun a b c h1 h2 => by omega, fun a b c h1 h2 => by omega⟩
example : median (· / 2) (· + ·) ([5, 1, 4, 2, 3] : List Int) = .ok 3 := by decide
example : median (· / 2) (· + ·) ([8, 1, 6, 2] : List Int) = .ok (1 + 3) := by decide

/-! ## Hamming distance -/

/-- **Distances are Hamming distances and form a metric on 64-bit hashes**; the `uint8` conversion never truncates. -/
theorem C19_hamming_metric (a b c : Nat) :
    distance64 a a = 0 ∧ distance64 a b = distance64 b a ∧
    distance64 a b = popcount64 (a ^^^ b) ∧ popcount64 (a ^^^ b) ≤ 64 ∧
    distance64 a c ≤ distance64 a b + distance64 b c := by
  refine ⟨?_, ?_, ?_, ?_, ?_⟩
  · simp [distance64, popcount64]
  · simp [distance64, Nat.xor_comm]
  · exact distance64_eq a b
  · exact popcount64_le _
  · rw [distance64_eq, distance64_eq, distance64_eq]; exact popcount_triangle a b c

/-- the distance is zero only for equal hashes (64-bit values) -/
theorem C19_hamming_zero_iff (a b : Nat) (ha : a < 2 ^ 64) (hb : b < 2 ^ 64) :
    distance64 a b = 0 ↔ a = b := distance64_zero_iff a b ha hb

/-- 256-bit hashes: the distance is the sum over the four words, hence symmetric, zero on equal hashes, and
satisfies the triangle inequality -/
theorem C19_hamming_256 (a b c : List Nat) (hab : a.length = b.length) (hbc : b.length = c.length) :
    distance256 a a = 0 ∧ distance256 a b = distance256 b a ∧
    distance256 a c ≤ distance256 a b + distance256 b c := by
  refine ⟨distance256_self a, distance256_comm a b, distance256_triangle a b c hab hbc⟩

/-! ## non-vacuity -/

/-- a constant image: 63 coefficients equal the median (0), only the DC bit is set -/
example : hashBits (0 : Int) ((100 : Int) :: List.replicate 63 0) = 2 ^ 63 := by decide
example : distance64 0b1011 0b0110 = 3 := by decide
example : accepts 64 false 64 64 = true := by decide

end Imeta.Hash
