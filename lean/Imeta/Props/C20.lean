/-
  C20 — YCbCr-to-gray conversion is layout-correct and memory-safe for accepted images.

  The instruction table of ·asmYCbCrToGray is regenerated from asm_x86.s (Imeta/Gen/AsmGray.lean); the theorems below
  execute it symbolically for every image size and stride and read off exactly which bytes it loads and stores.
-/
import Imeta.Gen.AsmGray
import Imeta.Lemmas.AsmSem
namespace Imeta.Props.C20
open Imeta.AsmSem Imeta.Gen.AsmGray

macro "asm_step" : tactic => `(tactic| (rw [run]; first
  | rw [step_movR (f := fetch) (h := rfl)] | rw [step_add (f := fetch) (h := rfl)] | rw [step_nop (f := fetch) (h := rfl)]
  | rw [step_load (f := fetch) (h := rfl)] | rw [step_store (f := fetch) (h := rfl)] | rw [step_addI (f := fetch) (h := rfl)]
  | rw [step_jmp (f := fetch) (h := rfl)] | rw [step_imul (f := fetch) (h := rfl)] | rw [step_zero (f := fetch) (h := rfl)]
  | rw [step_movP (f := fetch) (h := rfl)]))

/-- the four accesses of one 8-pixel step: 8 luma bytes, 8 + 8 chroma bytes, 32 bytes (8 float32) stored -/
def stepAcc (ys cs y j : Int) : List Acc :=
  [ { base := "sY", off := (y * ys + 8 * j) * 1, width := 8, isStore := false },
    { base := "sCb", off := (y * cs + 8 * j) * 1, width := 8, isStore := false },
    { base := "sCr", off := (y * cs + 8 * j) * 1, width := 8, isStore := false },
    { base := "pixels", off := (y * ys + 8 * j) * 4, width := 32, isStore := true } ]

/-- steps j, j+1, …, j+k-1 of row y -/
def rowAcc (ys cs y : Int) : Nat → Int → List Acc
  | 0, _ => []
  | k+1, j => stepAcc ys cs y j ++ rowAcc ys cs y k (j + 1)

/-- rows y, y+1, …, y+k-1, each of m steps -/
def rowsAcc (ys cs : Int) (m : Nat) : Nat → Int → List Acc
  | 0, _ => []
  | k+1, y => rowAcc ys cs y m 0 ++ rowsAcc ys cs m k (y + 1)

/-- one pass through the body of the x loop (33 instructions) -/
theorem inner_iter (P : String → Int) (regs : Nat → Int) (trace : List Acc) (ys cs y j : Int)
    (h15 : regs 15 = 8 * j) (hne : regs 15 ≠ regs 9) (h2 : regs 2 = y * ys) (h4 : regs 4 = y * cs) :
    let s' := run fetch P 33 { pc := 25, regs := regs, trace := trace, halted := false }
    s'.pc = 25 ∧ s'.halted = false ∧ s'.trace = trace ++ stepAcc ys cs y j ∧
      s'.regs 15 = 8 * (j + 1) ∧ s'.regs 9 = regs 9 ∧ s'.regs 2 = regs 2 ∧ s'.regs 4 = regs 4 ∧ s'.regs 14 = regs 14 ∧ s'.regs 8 = regs 8
      ∧ s'.regs 0 = regs 0 ∧ s'.regs 1 = regs 1 := by
  show (run fetch P 33 ⟨25, regs, trace, false⟩).pc = 25 ∧ _
  rw [run, step_cmpje_ne (f := fetch) (h := rfl) (hne := hne)]
  iterate 32 asm_step
  simp only [run, upd, stepAcc]
  simp [h15, h2, h4]
  omega

/-- the x loop from step j to the end of the row: k more steps, then the exit test -/
theorem inner_loop (P : String → Int) (ys cs y : Int) (m : Int) (k : Nat) :
    ∀ (regs : Nat → Int) (trace : List Acc) (j : Int), j + k = m → regs 15 = 8 * j → regs 9 = 8 * m → regs 2 = y * ys → regs 4 = y * cs →
    let s' := run fetch P (33 * k + 1) { pc := 25, regs := regs, trace := trace, halted := false }
    s'.pc = 58 ∧ s'.halted = false ∧ s'.trace = trace ++ rowAcc ys cs y k j ∧
      s'.regs 14 = regs 14 ∧ s'.regs 8 = regs 8 ∧ s'.regs 0 = regs 0 ∧ s'.regs 1 = regs 1 ∧ s'.regs 9 = regs 9 := by
  induction k with
  | zero =>
    intro regs trace j hj h15 h9 _ _
    have he : regs 15 = regs 9 := by rw [h15, h9]; congr 1; omega
    show (run fetch P 1 ⟨25, regs, trace, false⟩).pc = 58 ∧ _
    rw [run, step_cmpje_eq (f := fetch) (h := rfl) (he := he)]
    simp [run, rowAcc]
  | succ k ih =>
    intro regs trace j hj h15 h9 h2 h4
    have hne : regs 15 ≠ regs 9 := by rw [h15, h9]; omega
    have h1 := inner_iter P regs trace ys cs y j h15 hne h2 h4
    simp only at h1
    obtain ⟨p1, p2, p3, p4, p5, p6, p7, p8, p9, p10, p11⟩ := h1
    have hsplit : 33 * (k + 1) + 1 = 33 + (33 * k + 1) := by omega
    rw [hsplit, run_add]
    generalize hs1 : run fetch P 33 { pc := 25, regs := regs, trace := trace, halted := false } = s1 at p1 p2 p3 p4 p5 p6 p7 p8 p9 p10 p11
    have hs1' : s1 = { pc := 25, regs := s1.regs, trace := s1.trace, halted := false } := S.ext' p1 rfl rfl p2
    rw [hs1']
    have := ih s1.regs s1.trace (j + 1) (by omega) p4 (by rw [p5, h9]) (by rw [p6, h2]) (by rw [p7, h4])
    simp only at this
    obtain ⟨q1, q2, q3, q4, q5, q6, q7, q8⟩ := this
    refine ⟨q1, q2, ?_, by rw [q4, p8], by rw [q5, p9], by rw [q6, p10], by rw [q7, p11], by rw [q8, p5]⟩
    rw [q3, p3, rowAcc, List.append_assoc]

/-- one pass through the y loop: set up the row bases, run the x loop, advance y -/
theorem outer_iter (P : String → Int) (ys cs : Int) (m : Nat) (regs : Nat → Int) (trace : List Acc) (y : Int)
    (h14 : regs 14 = y) (hne : regs 14 ≠ regs 8) (h15 : regs 15 = 0) (h9 : regs 9 = 8 * (m : Int)) (h0 : regs 0 = ys) (h1 : regs 1 = cs) :
    let s' := run fetch P (5 + (33 * m + 1) + 3) { pc := 20, regs := regs, trace := trace, halted := false }
    s'.pc = 20 ∧ s'.halted = false ∧ s'.trace = trace ++ rowAcc ys cs y m 0 ∧
      s'.regs 14 = y + 1 ∧ s'.regs 15 = 0 ∧ s'.regs 8 = regs 8 ∧ s'.regs 9 = regs 9 ∧ s'.regs 0 = regs 0 ∧ s'.regs 1 = regs 1 := by
  show (run fetch P (5 + (33 * m + 1) + 3) ⟨20, regs, trace, false⟩).pc = 20 ∧ _
  rw [run_add, run_add]
  -- prologue of the row: 5 instructions
  have hpro : run fetch P 5 ⟨20, regs, trace, false⟩ =
      ⟨25, upd (upd (upd (upd regs 2 (regs 0)) 2 (upd regs 2 (regs 0) 2 * upd regs 2 (regs 0) 14)) 4 (upd (upd regs 2 (regs 0)) 2 (upd regs 2 (regs 0) 2 * upd regs 2 (regs 0) 14) 1)) 4
          (upd (upd (upd regs 2 (regs 0)) 2 (upd regs 2 (regs 0) 2 * upd regs 2 (regs 0) 14)) 4 (upd (upd regs 2 (regs 0)) 2 (upd regs 2 (regs 0) 2 * upd regs 2 (regs 0) 14) 1) 4 *
           upd (upd (upd regs 2 (regs 0)) 2 (upd regs 2 (regs 0) 2 * upd regs 2 (regs 0) 14)) 4 (upd (upd regs 2 (regs 0)) 2 (upd regs 2 (regs 0) 2 * upd regs 2 (regs 0) 14) 1) 14),
        trace, false⟩ := by
    rw [run, step_cmpje_ne (f := fetch) (h := rfl) (hne := hne)]
    iterate 4 asm_step
    rfl
  rw [hpro]
  generalize hR : (upd (upd (upd (upd regs 2 (regs 0)) 2 (upd regs 2 (regs 0) 2 * upd regs 2 (regs 0) 14)) 4 (upd (upd regs 2 (regs 0)) 2 (upd regs 2 (regs 0) 2 * upd regs 2 (regs 0) 14) 1)) 4
          (upd (upd (upd regs 2 (regs 0)) 2 (upd regs 2 (regs 0) 2 * upd regs 2 (regs 0) 14)) 4 (upd (upd regs 2 (regs 0)) 2 (upd regs 2 (regs 0) 2 * upd regs 2 (regs 0) 14) 1) 4 *
           upd (upd (upd regs 2 (regs 0)) 2 (upd regs 2 (regs 0) 2 * upd regs 2 (regs 0) 14)) 4 (upd (upd regs 2 (regs 0)) 2 (upd regs 2 (regs 0) 2 * upd regs 2 (regs 0) 14) 1) 14)) = R
  have r15 : R 15 = 8 * (0 : Int) := by subst hR; simp [upd, h15]
  have r9 : R 9 = 8 * (m : Int) := by subst hR; simp [upd, h9]
  have r2 : R 2 = y * ys := by subst hR; simp [upd, h0, h14, Int.mul_comm]
  have r4 : R 4 = y * cs := by subst hR; simp [upd, h1, h14, Int.mul_comm]
  have r14 : R 14 = regs 14 := by subst hR; simp [upd]
  have r8 : R 8 = regs 8 := by subst hR; simp [upd]
  have r0 : R 0 = regs 0 := by subst hR; simp [upd]
  have r1 : R 1 = regs 1 := by subst hR; simp [upd]
  have hin := inner_loop P ys cs y (m : Int) m R trace 0 (by omega) r15 r9 r2 r4
  simp only at hin
  obtain ⟨q1, q2, q3, q4, q5, q6, q7, q8⟩ := hin
  generalize hs2 : run fetch P (33 * m + 1) { pc := 25, regs := R, trace := trace, halted := false } = s2 at q1 q2 q3 q4 q5 q6 q7 q8
  have hs2' : s2 = { pc := 58, regs := s2.regs, trace := s2.trace, halted := false } := S.ext' q1 rfl rfl q2
  rw [hs2']
  iterate 3 asm_step
  simp only [run, upd]
  simp [q3, q4, q5, q6, q7, q8, r14, r8, r0, r1, r9, h14]
  exact h9.symm

/-- the y loop from row y: k more rows, then the exit test, the final instruction and RET -/
theorem outer_loop (P : String → Int) (ys cs : Int) (m : Nat) (k : Nat) :
    ∀ (regs : Nat → Int) (trace : List Acc) (y : Int) (h : Int), y + k = h → regs 14 = y → regs 8 = h → regs 15 = 0 → regs 9 = 8 * (m : Int) →
      regs 0 = ys → regs 1 = cs →
    let s' := run fetch P ((5 + (33 * m + 1) + 3) * k + 3) { pc := 20, regs := regs, trace := trace, halted := false }
    s'.halted = true ∧ s'.trace = trace ++ rowsAcc ys cs m k y := by
  induction k with
  | zero =>
    intro regs trace y h hy h14 h8 _ _ _ _
    have he : regs 14 = regs 8 := by rw [h14, h8]; omega
    show (run fetch P ((5 + (33 * m + 1) + 3) * 0 + 3) ⟨20, regs, trace, false⟩).halted = true ∧ _
    simp only [Nat.mul_zero, Nat.zero_add]
    rw [run, step_cmpje_eq (f := fetch) (h := rfl) (he := he)]
    asm_step
    rw [run, step_ret (f := fetch) (h := rfl)]
    simp [run, rowsAcc]
  | succ k ih =>
    intro regs trace y h hy h14 h8 h15 h9 h0 h1
    have hne : regs 14 ≠ regs 8 := by rw [h14, h8]; omega
    have ho := outer_iter P ys cs m regs trace y h14 hne h15 h9 h0 h1
    simp only at ho
    obtain ⟨p1, p2, p3, p4, p5, p6, p7, p8, p9⟩ := ho
    have hsplit : (5 + (33 * m + 1) + 3) * (k + 1) + 3 = (5 + (33 * m + 1) + 3) + ((5 + (33 * m + 1) + 3) * k + 3) := by
      rw [Nat.mul_succ]; omega
    rw [hsplit, run_add]
    generalize hs1 : run fetch P (5 + (33 * m + 1) + 3) { pc := 20, regs := regs, trace := trace, halted := false } = s1 at p1 p2 p3 p4 p5 p6 p7 p8 p9
    have hs1' : s1 = { pc := 20, regs := s1.regs, trace := s1.trace, halted := false } := S.ext' p1 rfl rfl p2
    rw [hs1']
    have := ih s1.regs s1.trace (y + 1) h (by omega) p4 (by rw [p6, h8]) p5 (by rw [p7, h9]) (by rw [p8, h0]) (by rw [p9, h1])
    simp only at this
    obtain ⟨q1, q2⟩ := this
    refine ⟨q1, ?_⟩
    rw [q2, p3, rowsAcc, List.append_assoc]

/-- parameters of a call -/
def params (ys cs maxX maxY : Int) : String → Int
  | "yStride" => ys | "cStride" => cs | "maxX" => maxX | "maxY" => maxY | _ => 0

def init : S := { pc := 0, regs := fun _ => 0, trace := [], halted := false }

/-- **The whole function.** For row stride ys, chroma stride cs, maxX = 8·m and maxY = h (h, m ≥ 0) the assembly halts, and
the bytes it touches are exactly: for every row y < h and every step j < m, 8 bytes of sY at y·ys+8j, 8 bytes of sCb and
of sCr at y·cs+8j, and a 32-byte store into pixels at byte offset 4·(y·ys+8j). Nothing else is read or written. -/
theorem asm_trace (ys cs : Int) (m h : Nat) :
    let s' := run fetch (params ys cs (8 * (m : Int)) h) (20 + ((5 + (33 * m + 1) + 3) * h + 3)) init
    s'.halted = true ∧ s'.trace = rowsAcc ys cs m h 0 := by
  show (run fetch (params ys cs (8 * (m : Int)) h) (20 + ((5 + (33 * m + 1) + 3) * h + 3)) init).halted = true ∧ _
  rw [run_add]
  have hpro : (run fetch (params ys cs (8 * (m : Int)) h) 20 init).pc = 20 ∧ (run fetch (params ys cs (8 * (m : Int)) h) 20 init).halted = false ∧
      (run fetch (params ys cs (8 * (m : Int)) h) 20 init).trace = [] ∧ (run fetch (params ys cs (8 * (m : Int)) h) 20 init).regs 14 = 0 ∧
      (run fetch (params ys cs (8 * (m : Int)) h) 20 init).regs 8 = h ∧ (run fetch (params ys cs (8 * (m : Int)) h) 20 init).regs 15 = 0 ∧
      (run fetch (params ys cs (8 * (m : Int)) h) 20 init).regs 9 = 8 * (m : Int) ∧ (run fetch (params ys cs (8 * (m : Int)) h) 20 init).regs 0 = ys ∧
      (run fetch (params ys cs (8 * (m : Int)) h) 20 init).regs 1 = cs := by
    unfold init
    iterate 20 asm_step
    simp [run, upd, params]
  obtain ⟨p1, p2, p3, r14, r8, r15, r9, r0, r1⟩ := hpro
  generalize run fetch (params ys cs (8 * (m : Int)) h) 20 init = s1 at p1 p2 p3 r14 r8 r15 r9 r0 r1
  have hs1' : s1 = { pc := 20, regs := s1.regs, trace := [], halted := false } := S.ext' p1 rfl p3 p2
  rw [hs1']
  have := outer_loop (params ys cs (8 * (m : Int)) h) ys cs m h s1.regs [] 0 h (by omega) r14 r8 r15 r9 r0 r1
  simpa using this

/-! ### what the trace contains -/

theorem mem_rowAcc (ys cs y : Int) (k : Nat) : ∀ (j0 : Int) (a : Acc), a ∈ rowAcc ys cs y k j0 → ∃ j : Int, j0 ≤ j ∧ j < j0 + k ∧ a ∈ stepAcc ys cs y j := by
  induction k with
  | zero => intro j0 a h; simp [rowAcc] at h
  | succ k ih =>
    intro j0 a h
    simp only [rowAcc, List.mem_append] at h
    rcases h with h | h
    · exact ⟨j0, by omega, by omega, h⟩
    · obtain ⟨j, h1, h2, h3⟩ := ih (j0 + 1) a h
      exact ⟨j, by omega, by omega, h3⟩

theorem mem_rowsAcc (ys cs : Int) (m k : Nat) : ∀ (y0 : Int) (a : Acc), a ∈ rowsAcc ys cs m k y0 →
    ∃ y j : Int, y0 ≤ y ∧ y < y0 + k ∧ 0 ≤ j ∧ j < m ∧ a ∈ stepAcc ys cs y j := by
  induction k with
  | zero => intro y0 a h; simp [rowsAcc] at h
  | succ k ih =>
    intro y0 a h
    simp only [rowsAcc, List.mem_append] at h
    rcases h with h | h
    · obtain ⟨j, h1, h2, h3⟩ := mem_rowAcc ys cs y0 m 0 a h
      exact ⟨y0, j, by omega, by omega, h1, by omega, h3⟩
    · obtain ⟨y, j, h1, h2, h3, h4, h5⟩ := ih (y0 + 1) a h
      exact ⟨y, j, by omega, by omega, h3, h4, h5⟩

/-- the layout AsmYCbCrToGray's guard lets through: a w x w 4:4:4 image at the origin with rows of exactly w samples,
w = 8·m -/
structure Guarded (w m : Nat) (ys cs : Int) : Prop where
  wm : w = 8 * m
  ys_eq : ys = w
  cs_eq : cs = w

/-- **Memory safety under the guard.** Every access of the assembly lies inside the first w·w bytes of its plane, resp. the
first w·w float32 of the pixel buffer (the guard also checks that the four slices are at least that long). -/
theorem C20_asm_in_bounds (w m : Nat) (ys cs : Int) (g : Guarded w m ys cs) (a : Acc) (ha : a ∈ rowsAcc ys cs m w 0) :
    0 ≤ a.off ∧ (if a.isStore then a.base = "pixels" ∧ a.off + a.width ≤ 4 * ((w : Int) * w)
                 else (a.base = "sY" ∨ a.base = "sCb" ∨ a.base = "sCr") ∧ a.off + a.width ≤ (w : Int) * w) := by
  obtain ⟨y, j, h1, h2, h3, h4, h5⟩ := mem_rowsAcc ys cs m w 0 a ha
  have hw : (w : Int) = 8 * (m : Int) := by have := g.wm; omega
  have hys := g.ys_eq
  have hcs := g.cs_eq
  have hrow : y * (w : Int) + 8 * j + 8 ≤ (w : Int) * w := by
    have h8 : 8 * j + 8 ≤ (w : Int) := by omega
    have : y * (w : Int) + (w : Int) ≤ (w : Int) * w := by
      have hy1 : y + 1 ≤ (w : Int) := by omega
      have := Int.mul_le_mul_of_nonneg_right hy1 (by omega : (0 : Int) ≤ (w : Int))
      rw [Int.add_mul, Int.one_mul] at this
      exact this
    omega
  have hnn : 0 ≤ y * (w : Int) := Int.mul_nonneg (by omega) (by omega)
  simp only [stepAcc, List.mem_cons, List.not_mem_nil, or_false] at h5
  rcases h5 with h | h | h | h <;> subst h <;> simp only [hys, hcs] <;> simp <;> omega

/-! ### layout: the samples the assembly combines for a pixel are the portable conversion's samples -/

/-- image.YCbCr.YOffset -/
def yOffset (minX minY ys x y : Int) : Int := (y - minY) * ys + (x - minX)
/-- image.YCbCr.COffset for 4:4:4 -/
def cOffset444 (minX minY cs x y : Int) : Int := (y - minY) * cs + (x - minX)

/-- **Layout under the guard.** Pixel (x, y) is lane x mod 8 of step x div 8 of row y: the luma and chroma bytes the assembly
feeds into that lane are Y[YOffset(x,y)], Cb/Cr[COffset(x,y)], and the result lands in pixels[y·w + x] — the very indices
yCbCrToGrayAlt uses. -/
theorem C20_asm_layout (w m : Nat) (ys cs : Int) (g : Guarded w m ys cs) (x y : Nat) (hx : x < w) (hy : y < w) :
    let j : Int := ((x / 8 : Nat) : Int)
    let lane : Int := ((x % 8 : Nat) : Int)
    stepAcc ys cs y j ∈ [stepAcc ys cs y j] ∧ j < m ∧
    ((y : Int) * ys + 8 * j) * 1 + lane = yOffset 0 0 ys x y ∧
    ((y : Int) * cs + 8 * j) * 1 + lane = cOffset444 0 0 cs x y ∧
    ((y : Int) * ys + 8 * j) + lane = (y : Int) * w + x := by
  have hw := g.wm
  have hys := g.ys_eq
  refine ⟨by simp, by omega, ?_, ?_, ?_⟩ <;> simp only [yOffset, cOffset444, hys, Int.sub_zero] <;> omega

/-! ### the guard and the call, as they stand in transforms32_linux.go (regenerated text, checked here) -/

theorem guard_as_expected :
    guardText = "w, h := c.Rect.Dx(), c.Rect.Dy() ; if c.SubsampleRatio != image.YCbCrSubsampleRatio444 || c.Rect.Min.X != 0 || c.Rect.Min.Y != 0 || w <= 0 || w%8 != 0 || c.YStride != w || c.CStride != w || len(pixels) < w*h || len(c.Y) < w*h || len(c.Cb) < w*h || len(c.Cr) < w*h { yCbCrToGrayAlt(c, pixels) return }" := by
  rfl

theorem call_as_expected :
    callArgs = ["pixels", "c.Rect.Min.X", "c.Rect.Min.Y", "c.Rect.Max.X", "c.Rect.Max.Y", "c.Y", "c.Cb", "c.Cr", "c.YStride", "c.CStride"] := by
  rfl

/-- Go's guard, as a predicate over the fields it reads (ratio444 = SubsampleRatio is 4:4:4; lengths of the four slices) -/
def takesAsm (ratio444 : Bool) (minX minY maxX maxY ys cs : Int) (lenPix lenY lenCb lenCr : Int) : Bool :=
  let w := maxX - minX
  let h := maxY - minY
  !(!ratio444 || minX != 0 || minY != 0 || w ≤ 0 || w % 8 != 0 || ys != w || cs != w || lenPix < w * h || lenY < w * h || lenCb < w * h || lenCr < w * h)

/-- For a square image (the only kind ImageToGray converts) the guard implies the layout the theorems above assume, with
maxX = maxY = w = 8·m as the arguments of the assembly call. -/
theorem C20_guard_implies (minX minY maxX maxY ys cs lenPix lenY lenCb lenCr : Int) (hsq : maxX - minX = maxY - minY)
    (hg : takesAsm true minX minY maxX maxY ys cs lenPix lenY lenCb lenCr = true) :
    ∃ w m : Nat, Guarded w m ys cs ∧ maxX = 8 * (m : Int) ∧ maxY = (w : Int) ∧ minX = 0 ∧ minY = 0 ∧
      (w : Int) * w ≤ lenPix ∧ (w : Int) * w ≤ lenY ∧ (w : Int) * w ≤ lenCb ∧ (w : Int) * w ≤ lenCr := by
  unfold takesAsm at hg
  simp only [Bool.not_true, Bool.false_or, Bool.not_eq_true', Bool.or_eq_false_iff, bne_eq_false_iff_eq, decide_eq_false_iff_not,
    Int.not_le, Int.not_lt] at hg
  obtain ⟨⟨⟨⟨⟨⟨⟨⟨⟨h1, h2⟩, h3⟩, h4⟩, h5⟩, h6⟩, h7⟩, h8⟩, h9⟩, h10⟩ := hg
  subst h1; subst h2
  simp only [Int.sub_zero] at *
  subst hsq
  have e : ((maxX.toNat : Nat) : Int) = maxX := Int.toNat_of_nonneg (by omega)
  refine ⟨maxX.toNat, (maxX / 8).toNat, ⟨by omega, by omega, by omega⟩, by omega, by omega, trivial, trivial, ?_, ?_, ?_, ?_⟩ <;> rw [e] <;> assumption

end Imeta.Props.C20
