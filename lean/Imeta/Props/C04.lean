/-
  C04 — A result depends only on the bytes of that call (no cross-call state leakage).

  The reader model (Imeta.Model.Exif) has no pooled state at all: its pending-tag buffer is the live region
  `tag[0:len)` only.  That this is a faithful description of the code — i.e. that the code never reads a slot at or
  beyond `len`, nor scratch bytes it has not just written — is what the correspondence under *poisoned pools*
  establishes (`vh run C04`: pristine vs two poison patterns vs natural history, every entry point).
  Proved here:
    * the repaired accessors `nextTag` / `advanceBuffer`, written over the whole 84-slot array, depend only on the
      live region (any two arrays that agree below `len` give the same answer): the array-level statement of the fix;
    * a zone returned for an OffsetTime tag is named by the six bytes of *this* file's value (the pinned tree returned
      the name cached for the first file with the same offset);
    * for hashes: every slot of the pooled pixel buffer is overwritten before it is read (`Hash.C19_full_overwrite`).
-/
import Imeta.Lemmas.Exif
import Imeta.Props.C19
namespace Imeta.Exif
open Imeta

/-- `buffer.nextTag()` over the array (repaired): slot `pos+1` only if it is live -/
def nextTagA (arr : List Tag) (len pos : Nat) : Tag := if pos + 1 < len then arr.getD (pos + 1) default else default

/-- `buffer.advanceBuffer()` over the array (repaired) -/
def advanceA (arr : List Tag) (len pos : Nat) : Tag × Nat :=
  if pos < len then (if pos + 1 < len then arr.getD (pos + 1) default else default, pos + 1) else (default, pos)

theorem getD_take {α} (l : List α) (n i : Nat) (d : α) (h : i < n) : (l.take n).getD i d = l.getD i d := by
  simp [List.getD, List.getElem?_take, h]

/-- **Stale slots are never observed**: whatever an earlier decode left in slots `len … 83`, `nextTag` and
`advanceBuffer` return the same tag. -/
theorem C04_accessors_ignore_stale (a1 a2 : List Tag) (len pos : Nat) (h : a1.take len = a2.take len) :
    nextTagA a1 len pos = nextTagA a2 len pos ∧ advanceA a1 len pos = advanceA a2 len pos := by
  have key : ∀ i, i < len → a1.getD i default = a2.getD i default := by
    intro i hi
    rw [← getD_take a1 len i default hi, ← getD_take a2 len i default hi, h]
  unfold nextTagA advanceA
  constructor
  · split
    · exact key _ (by assumption)
    · rfl
  · split
    · split
      · rw [key _ (by assumption)]
      · rfl
    · rfl

/-- the model's `nextTagOff` is the array accessor applied to the live region -/
theorem nextTagOff_eq (r : R) : nextTagOff r = (nextTagA r.tags r.tags.length r.pos).off := by
  unfold nextTagOff nextTagA
  by_cases hlt : r.pos + 1 < r.tags.length
  · rw [if_pos hlt, List.getElem?_eq_getElem hlt]
    simp [List.getD, List.getElem?_eq_getElem hlt]
  · rw [if_neg hlt, List.getElem?_eq_none (by omega)]
    rfl

/-- **A zone is named by this file**: when OffsetTime yields a fixed zone, its name is bytes 0‥5 of the value read in
this call and its offset is computed from those same bytes. -/
theorem C04_zone_from_this_call (r : R) (t : Tag) (r' : R) (secs : Int) (name : Bytes)
    (h : parseOffsetTime r t = .ok (r', .fixed secs name)) :
    name = ((readTagValue r t).buf.drop 0).take 6 := by
  unfold parseOffsetTime at h
  split at h
  · simp only at h
    split at h
    · cases h
    · split at h
      · rename_i h6
        simp only [bind, Outcome.bind] at h
        cases h3 : idx (readTagValue r t).buf 3 with
        | ok c3 =>
          rw [h3] at h
          simp only at h
          split at h
          · have s1 : slc (readTagValue r t).buf 1 3 = .ok (((readTagValue r t).buf.drop 1).take 2) := by
              unfold slc; rw [if_pos ⟨by omega, by omega⟩]
            have s2 : slc (readTagValue r t).buf 4 6 = .ok (((readTagValue r t).buf.drop 4).take 2) := by
              unfold slc; rw [if_pos ⟨by omega, by omega⟩]
            have s3 : slc (readTagValue r t).buf 0 6 = .ok (((readTagValue r t).buf.drop 0).take 6) := by
              unfold slc; rw [if_pos ⟨by omega, by omega⟩]
            have s4 : ∃ c0, idx (readTagValue r t).buf 0 = .ok c0 := ⟨_, by unfold idx; rw [List.getElem?_eq_getElem (by omega)]⟩
            obtain ⟨c0, hc0⟩ := s4
            rw [s1, s2, s3, hc0] at h
            simp only [Outcome.bind] at h
            split at h
            · cases h; rfl
            · split at h
              · cases h; rfl
              · cases h
          · cases h
        | err k => rw [h3] at h; cases h
        | panic s => rw [h3] at h; cases h
        | fuel => rw [h3] at h; cases h
      · cases h
  · cases h

/-- hashes: the pooled pixel buffer is completely rewritten before use (from C19) -/
theorem C04_hash_buffer_overwritten (s : Nat) (mx my : Int) :
    (Hash.grayPlan s mx my).map (·.1) = List.range (s * s) := Hash.C19_full_overwrite s mx my

/-! ## the pooled scratch buffer of the unbuffered reader

`fastRead` without a bufio.Reader reads into the first n bytes of a pooled 1 KiB scratch buffer and hands out that
prefix.  The model `Exif.fastRead` (buffered = false) does not mention the scratch buffer at all; the refinement below
makes it explicit: a reader state with the scratch buffer's content, whatever an earlier decode left there, and a read
that behaves as io.ReadFull does (it overwrites the prefix with what the stream delivers).  The bytes handed out, the
error and the new stream state are those of `Exif.fastRead` and so do not depend on the buffer's previous content; the
buffer's own content afterwards does, but it is never read before it is overwritten.  The tie to the code is the
`rawops` correspondence of `vh run C04` (hook exif2.VerifRawOps: two different pre-fills, and the model). -/

/-- `fastRead` (no bufio.Reader) with the scratch buffer made explicit: (new state, new scratch, bytes handed out, error) -/
def rawRead (r : R) (scratch : Bytes) (n : Nat) : R × Bytes × Bytes × Option ErrKind :=
  if r.exifLength ≠ 0 ∧ r.po + n > r.exifLength then (r, scratch, [], some .dataLength)
  else if n > scratch.length then (r, scratch, [], some .dataLength)
  else if r.rest.length < n then
    -- io.ReadFull copies what there is, then fails; the code hands out nil
    ({ r with rest := [], po := (r.po + r.rest.length) % 2 ^ 32 }, r.rest ++ scratch.drop r.rest.length, [],
      some (if r.rest.length = 0 ∧ n > 0 then .eof else .unexpectedEOF))
  else
    let sc := r.rest.take n ++ scratch.drop n
    ({ r with rest := r.rest.drop n, po := (r.po + n) % 2 ^ 32 }, sc, sc.take n, none)

/-- **Nothing an earlier decode left in the scratch buffer is handed out.**  Whatever the 1 KiB scratch buffer holds, a
read through it returns exactly what the scratch-free model returns — bytes, error, stream and position. -/
theorem C04_scratch_not_observed (r : R) (scratch : Bytes) (n : Nat) (hb : r.buffered = false) (hs : scratch.length = scratchSize) :
    (rawRead r scratch n).1 = (fastRead r n).r ∧ (rawRead r scratch n).2.2.1 = (fastRead r n).buf ∧
    (rawRead r scratch n).2.2.2 = (fastRead r n).err := by
  unfold rawRead fastRead
  rw [hs]
  simp only [hb, Bool.false_eq_true, if_false]
  split
  · exact ⟨rfl, rfl, rfl⟩
  · split
    · exact ⟨rfl, rfl, rfl⟩
    · split
      · exact ⟨rfl, rfl, rfl⟩
      · rename_i h1 h2 h3
        refine ⟨rfl, ?_, rfl⟩
        dsimp only
        rw [List.take_append_of_le_length (by simp [List.length_take]; omega), List.take_take, Nat.min_self]

/-- two histories, one result: the same read after any two scratch contents -/
theorem C04_scratch_noninterference (r : R) (s1 s2 : Bytes) (n : Nat) (hb : r.buffered = false)
    (h1 : s1.length = scratchSize) (h2 : s2.length = scratchSize) :
    (rawRead r s1 n).1 = (rawRead r s2 n).1 ∧ (rawRead r s1 n).2.2 = (rawRead r s2 n).2.2 := by
  have a := C04_scratch_not_observed r s1 n hb h1
  have b := C04_scratch_not_observed r s2 n hb h2
  refine ⟨a.1.trans b.1.symm, ?_⟩
  exact Prod.ext (a.2.1.trans b.2.1.symm) (a.2.2.trans b.2.2.symm)

/-- the scratch buffer keeps its size, so the statement applies to every later read as well -/
theorem C04_scratch_size (r : R) (scratch : Bytes) (n : Nat) : (rawRead r scratch n).2.1.length = scratch.length := by
  unfold rawRead
  repeat' split
  all_goals first
    | rfl
    | (simp only [List.length_append, List.length_take, List.length_drop]; omega)

example : (rawRead { rest := [1, 2, 3, 4, 5], po := 0, exifLength := 0, buffered := false } (List.replicate 8 9) 3).2.2.1 = [1, 2, 3] := by decide

end Imeta.Exif
