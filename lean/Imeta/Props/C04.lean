/-
  C04 — A result depends only on the bytes of that call (no cross-call state leakage).

  The reader model (Imeta.Model.Exif) has no pooled state at all: its pending-tag buffer is the live region
  `tag[0:len)` only.  That this is a faithful description of the code — i.e. that the code never reads a slot at or
  beyond `len`, nor scratch bytes it has not just written — is what the correspondence under *poisoned pools*
  establishes (`vh run C04`: pristine vs two poison patterns vs natural history, every entry point).
  Proved here:
    * the repaired accessors `nextTag` / `advanceBuffer`, written over the whole 84-slot array, depend only on the
      live region (any two arrays that agree below `len` give the same answer): the array-level statement of the fix;
    * a zone returned for an OffsetTime tag is named by the six bytes of *this* file's value (the pinned tree returned
      the name cached for the first file with the same offset);
    * for hashes: every slot of the pooled pixel buffer is overwritten before it is read (`Hash.C19_full_overwrite`).
-/
import Imeta.Lemmas.Exif
import Imeta.Props.C19
namespace Imeta.Exif
open Imeta

/-- `buffer.nextTag()` over the array (repaired): slot `pos+1` only if it is live -/
def nextTagA (arr : List Tag) (len pos : Nat) : Tag := if pos + 1 < len then arr.getD (pos + 1) default else default

/-- `buffer.advanceBuffer()` over the array (repaired) -/
def advanceA (arr : List Tag) (len pos : Nat) : Tag × Nat :=
  if pos < len then (if pos + 1 < len then arr.getD (pos + 1) default else default, pos + 1) else (default, pos)

theorem getD_take {α} (l : List α) (n i : Nat) (d : α) (h : i < n) : (l.take n).getD i d = l.getD i d := by
  simp [List.getD, List.getElem?_take, h]

/-- **Stale slots are never observed**: whatever an earlier decode left in slots `len … 83`, `nextTag` and
`advanceBuffer` return the same tag. -/
theorem C04_accessors_ignore_stale (a1 a2 : List Tag) (len pos : Nat) (h : a1.take len = a2.take len) :
    nextTagA a1 len pos = nextTagA a2 len pos ∧ advanceA a1 len pos = advanceA a2 len pos := by
  have key : ∀ i, i < len → a1.getD i default = a2.getD i default := by
    intro i hi
    rw [← getD_take a1 len i default hi, ← getD_take a2 len i default hi, h]
  unfold nextTagA advanceA
  constructor
  · split
    · exact key _ (by assumption)
    · rfl
  · split
    · split
      · rw [key _ (by assumption)]
      · rfl
    · rfl

/-- the model's `nextTagOff` is the array accessor applied to the live region -/
theorem nextTagOff_eq (r : R) : nextTagOff r = (nextTagA r.tags r.tags.length r.pos).off := by
  unfold nextTagOff nextTagA
  by_cases hlt : r.pos + 1 < r.tags.length
  · rw [if_pos hlt, List.getElem?_eq_getElem hlt]
    simp [List.getD, List.getElem?_eq_getElem hlt]
  · rw [if_neg hlt, List.getElem?_eq_none (by omega)]
    rfl

/-- **A zone is named by this file**: when OffsetTime yields a fixed zone, its name is bytes 0‥5 of the value read in
this call and its offset is computed from those same bytes. -/
theorem C04_zone_from_this_call (r : R) (t : Tag) (r' : R) (secs : Int) (name : Bytes)
    (h : parseOffsetTime r t = .ok (r', .fixed secs name)) :
    name = ((readTagValue r t).buf.drop 0).take 6 := by
  unfold parseOffsetTime at h
  split at h
  · simp only at h
    split at h
    · cases h
    · split at h
      · rename_i h6
        simp only [bind, Outcome.bind] at h
        cases h3 : idx (readTagValue r t).buf 3 with
        | ok c3 =>
          rw [h3] at h
          simp only at h
          split at h
          · have s1 : slc (readTagValue r t).buf 1 3 = .ok (((readTagValue r t).buf.drop 1).take 2) := by
              unfold slc; rw [if_pos ⟨by omega, by omega⟩]
            have s2 : slc (readTagValue r t).buf 4 6 = .ok (((readTagValue r t).buf.drop 4).take 2) := by
              unfold slc; rw [if_pos ⟨by omega, by omega⟩]
            have s3 : slc (readTagValue r t).buf 0 6 = .ok (((readTagValue r t).buf.drop 0).take 6) := by
              unfold slc; rw [if_pos ⟨by omega, by omega⟩]
            have s4 : ∃ c0, idx (readTagValue r t).buf 0 = .ok c0 := ⟨_, by unfold idx; rw [List.getElem?_eq_getElem (by omega)]⟩
            obtain ⟨c0, hc0⟩ := s4
            rw [s1, s2, s3, hc0] at h
            simp only [Outcome.bind] at h
            split at h
            · cases h; rfl
            · split at h
              · cases h; rfl
              · cases h
          · cases h
        | err k => rw [h3] at h; cases h
        | panic s => rw [h3] at h; cases h
        | fuel => rw [h3] at h; cases h
      · cases h
  · cases h

/-- hashes: the pooled pixel buffer is completely rewritten before use (from C19) -/
theorem C04_hash_buffer_overwritten (s : Nat) (mx my : Int) :
    (Hash.grayPlan s mx my).map (·.1) = List.range (s * s) := Hash.C19_full_overwrite s mx my

end Imeta.Exif
