/-
  C13 — attribute form, names and values, for a whole attribute list (Lemmas/XmpAttr.lean).
-/
import Imeta.Lemmas.XmpAttr
namespace Imeta.Props.C13
open Imeta Imeta.Xmp

/-- **A whole attribute list is reported exactly.**  The reader stands after a tag name with attributes pending
(`a = true`); the stream holds the attributes `ns:name=q v q`, each preceded by white space (any amount, any of space,
tab, CR, LF; at least one byte between two attributes), either quote character, then '>' and at least one more byte.
Each attribute satisfies `Attr.OK` (prefix and local name free of the delimiter bytes after their first byte, value free
of its own quote character, name within the 128-byte and value within the 256-byte first look-ahead window).  Then the
attribute loop ends normally, has consumed exactly the attributes and the '>', and has handed the parser layer exactly
one token per attribute with a non-empty value — property `identify ns name`, value v, parent the tag — in document
order.  Values and names are therefore reported exactly, whatever the white space and quote style. -/
theorem C13_attribute_list_exact (tag : Tag) (c2 : UInt8) (t : Bytes) (l : List (Bytes × Attr)) (f : Nat) (st : St)
    (hl : l ≠ []) (hf : l.length < f) (ha : st.a = true) (hrest : st.rest = ser l ++ 62 :: c2 :: t)
    (hok : ∀ p ∈ l, (∀ x ∈ p.1, isWs x = true) ∧ p.2.OK) (hsep : ∀ p ∈ l.tail, p.1 ≠ []) :
    attrLoop none f tag st = (.ok tag, { rest := c2 :: t, a := false, toks := pushAll tag.self l st.toks }) :=
  attrLoop_exact tag c2 t l f st hl hf ha hrest hok hsep

/-- one attribute with its name (the building block) -/
theorem C13_attribute_exact (tag : Tag) (st : St) (ws : Bytes) (n0 : UInt8) (ns : Bytes) (m0 : UInt8) (name v t'' : Bytes) (q c1 c2 : UInt8)
    (hws : ∀ x ∈ ws, isWs x = true) (h0 : isWs n0 = false) (hst : (n0 == 62) = false ∧ (n0 == 47) = false) (hns : ∀ x ∈ ns, (x == 58) = false)
    (hname : ∀ x ∈ name, (x == 61 || isWs x) = false) (hq : q = 34 ∨ q = 39) (hv : ∀ x ∈ v, (x == q) = false)
    (h62 : c1 ≠ 62) (h47 : c1 ≠ 47) (hwin : ns.length + name.length + 4 ≤ 128) (hvwin : v.length + 5 ≤ 256)
    (hrest : st.rest = ws ++ (((n0 :: ns) ++ [58] ++ (m0 :: name)) ++ ([61, q] ++ v ++ [q, c1, c2] ++ t''))) :
    readAttribute tag st = (.ok ({ pt := 1, parent := tag.self, self := identify (n0 :: ns) (m0 :: name), val := v }, tag),
      { st with rest := [c1, c2] ++ t'' }) :=
  readAttribute_exact tag st ws n0 ns m0 name v t'' q c1 c2 hws h0 hst hns hname hq hv h62 h47 hwin hvwin hrest

/-! non-vacuity: ` tiff:Make="Canon"\n tiff:Model='EOS'>` -/
def aMake : Attr := { n0 := 116, ns := [105, 102, 102], m0 := 77, name := [97, 107, 101], q := 34, v := [67, 97, 110, 111, 110] }
def aModel : Attr := { n0 := 116, ns := [105, 102, 102], m0 := 77, name := [111, 100, 101, 108], q := 39, v := [69, 79, 83] }
example : aMake.OK ∧ aModel.OK := by
  constructor <;> exact ⟨by decide, by decide, by decide, by decide, by decide, by decide, by decide, by decide⟩
example : ser [([32], aMake), ([10, 32], aModel)] ++ 62 :: 60 :: [] =
    (" tiff:Make=\"Canon\"\n tiff:Model='EOS'><").toUTF8.toList := by decide +kernel
example : (attrLoop none 5 {} { rest := (" tiff:Make=\"Canon\"\n tiff:Model='EOS'><").toUTF8.toList, a := true, toks := [] }).2.toks.map (·.val) =
    [[69, 79, 83], [67, 97, 110, 111, 110]] := by decide +kernel


end Imeta.Props.C13
