/-
  C07 — Byte order is transparent: little- and big-endian encodings decode identically.

  Property theorems about the reader model Imeta.Model.Exif (tied to /repo by `vh run C03/C07`).
  The statements are for an arbitrary byte order `o` (little, big, and the "unknown" value the code treats as
  little), so "II = MM" follows by instantiating `o` twice.
-/
import Imeta.Lemmas.Exif
namespace Imeta.Exif
open Imeta

/-- **The offset slot survives re-serialisation**: whatever 4 bytes sit in the value/offset slot of a directory
entry, decoding them with the directory's byte order (`tagFromBuffer`) and writing them back with the same order
(`Tag.EmbeddedValue`) returns exactly those bytes — for every byte order. This is why embedded SHORT / BYTE / ASCII
values, which sit in different bytes of the slot per byte order, decode identically. -/
theorem C07_slot_roundtrip (o : ByteOrder) (slot : Bytes) (h : slot.length = 4) (t : Tag)
    (ht : t.off = o.uint slot) (ho : t.order = o) : embedded t = slot := by
  unfold embedded
  rw [ht, ho, ← h]
  exact put_uint o slot

/-- **A directory entry decodes to the same tag in either byte order**: for every id, type, count and offset,
the 12 bytes written with order `o` are read back (with the same `o`) as exactly that id / type / count / offset. -/
theorem C07_entry_decodes (o : ByteOrder) (ifdTyp idx id ty cnt off : Nat)
    (hid : id < 65536) (hty : ty < 65536) (hc : cnt < 2 ^ 32) (ho : off < 2 ^ 32) :
    tagFromBuffer { off := 0, base := 0, order := o, typ := ifdTyp, idx := idx }
        (o.put 2 id ++ o.put 2 ty ++ o.put 4 cnt ++ o.put 4 off) =
      .ok (if typeValid (tagIsIfd ifdTyp id (ty % 256)) then
            some { id := id, typ := tagIsIfd ifdTyp id (ty % 256), count := cnt, off := off, ifd := ifdTyp, idx := idx, order := o }
           else none) := by
  have l1 := put_length o 2 id; have l2 := put_length o 2 ty
  have l3 := put_length o 4 cnt; have l4 := put_length o 4 off
  have hlen : (o.put 2 id ++ o.put 2 ty ++ o.put 4 cnt ++ o.put 4 off).length = 12 := by simp [l1, l2, l3, l4]
  have f0 : ((o.put 2 id ++ o.put 2 ty ++ o.put 4 cnt ++ o.put 4 off).drop 0).take 2 = o.put 2 id := by
    simp only [List.drop_zero, List.append_assoc]; exact List.take_left' l1
  have f1 : ((o.put 2 id ++ o.put 2 ty ++ o.put 4 cnt ++ o.put 4 off).drop 2).take 2 = o.put 2 ty := by
    rw [List.append_assoc, List.append_assoc, List.drop_left' l1]; exact List.take_left' l2
  have f2 : ((o.put 2 id ++ o.put 2 ty ++ o.put 4 cnt ++ o.put 4 off).drop 4).take 4 = o.put 4 cnt := by
    rw [List.append_assoc (o.put 2 id ++ o.put 2 ty), List.drop_left' (by simp [l1, l2])]; exact List.take_left' l3
  have f3 : ((o.put 2 id ++ o.put 2 ty ++ o.put 4 cnt ++ o.put 4 off).drop 8).take 4 = o.put 4 off := by
    rw [List.drop_left' (by simp [l1, l2, l3])]; exact List.take_of_length_le (by omega)
  have r0 : rd16 o (o.put 2 id ++ o.put 2 ty ++ o.put 4 cnt ++ o.put 4 off) 0 = .ok id := by
    rw [rd16_ok _ _ 0 (by omega), f0, uint_put o 2 id (by simpa using hid)]
  have r1 : rd16 o (o.put 2 id ++ o.put 2 ty ++ o.put 4 cnt ++ o.put 4 off) 2 = .ok ty := by
    rw [rd16_ok _ _ 2 (by omega), f1, uint_put o 2 ty (by simpa using hty)]
  have r2 : rd32 o (o.put 2 id ++ o.put 2 ty ++ o.put 4 cnt ++ o.put 4 off) 4 = .ok cnt := by
    rw [rd32_ok _ _ 4 (by omega), f2, uint_put o 4 cnt (by simpa using hc)]
  have r3 : rd32 o (o.put 2 id ++ o.put 2 ty ++ o.put 4 cnt ++ o.put 4 off) 8 = .ok off := by
    rw [rd32_ok _ _ 8 (by omega), f3, uint_put o 4 off (by simpa using ho)]
  unfold tagFromBuffer
  simp only [bind, Outcome.bind, r0, r1, r2, r3, Nat.add_zero, Nat.mod_eq_of_lt ho]
  split <;> simp_all

/-- **Embedded SHORT**: the value a writer stores left-justified in the slot (`put 2 v ++ [0,0]`) is the value
`ParseUint16` returns, whatever the byte order. -/
theorem C07_embedded_short (o : ByteOrder) (v : Nat) (hv : v < 65536) (t : Tag)
    (ht : t.off = o.uint (o.put 2 v ++ [0, 0])) (ho : t.order = o) (hty : t.typ = tShort) (hc : t.count = 1) :
    parseUint16 t = .ok v := by
  have hl : (o.put 2 v ++ [0, 0]).length = 4 := by simp [put_length]
  have hemb := C07_slot_roundtrip o _ hl t ht ho
  have hsz : t.size = 2 := by simp [Tag.size, hty, hc, typeSize, tShort]
  have hE : t.isEmbedded = true := by simp [Tag.isEmbedded, hsz, hty, tShort, tIfd]
  unfold parseUint16
  simp only [hE, hty, Bool.true_and, BEq.rfl, if_true, hemb, ho]
  unfold u16
  rw [if_neg (by omega)]
  rw [List.take_left' (put_length o 2 v), uint_put o 2 v (by simpa using hv)]

/-- **Embedded ASCII / BYTE**: the bytes handed to the string trimming are the first `size` bytes of the slot as
they stand in the file — no byte-order dependence at all. -/
theorem C07_embedded_bytes (o : ByteOrder) (slot : Bytes) (h : slot.length = 4) (t : Tag) (r : R)
    (ht : t.off = o.uint slot) (ho : t.order = o) (hE : t.isEmbedded = true) (strict : Bool) :
    parseBytes r t strict = .ok (r, trimNUL (slot.take t.size)) := by
  have hemb := C07_slot_roundtrip o slot h t ht ho
  unfold parseBytes
  simp only [hE, if_true, hemb]

/-- non-vacuity: Orientation = 6 as an embedded SHORT, little- and big-endian slots -/
example : parseUint16 { off := 6, count := 1, id := 0x0112, typ := tShort, ifd := ifd0, idx := 0, order := .little } = .ok 6 := by decide
example : parseUint16 { off := 0x00060000, count := 1, id := 0x0112, typ := tShort, ifd := ifd0, idx := 0, order := .big } = .ok 6 := by decide

end Imeta.Exif
