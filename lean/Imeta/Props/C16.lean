/-
  C16 — Value types survive text/JSON/MessagePack round trips; their parsers are total.

  Property theorems only. Models: Imeta.Model.Codec (hand-written, tied to /repo by the
  exhaustive correspondence `vh run C16`) and Imeta.Gen.Codec (tables and loop-free helpers
  regenerated from /repo on every run).
-/
import Imeta.Lemmas.Codec
import Imeta.Gen.Codec
import Imeta.Gen.Msgp
set_option maxRecDepth 100000
namespace Imeta.C16
open Imeta Imeta.Codec

/-! ## ExposureBias: all 2^16 encodings -/

private theorem wrap16_id (x : Int) (h1 : -32768 ≤ x) (h2 : x ≤ 32767) : wrap i16 x = x := by
  simp only [wrap, i16, IKind.i16, if_true]
  omega

private theorem text_shape (c : UInt8) (hc : c ≠ 47) (ds rest : Bytes) (hd : ds.all isDigit = true) :
    idxSlash (c :: (ds ++ 47 :: rest)) = some (ds.length + 1) := by
  have : (c == 47) = false := by simpa using hc
  simp [idxSlash, this, idxSlash_digits_slash ds rest hd]

/-- what the decoder computes for "<sign><digits>/<digits>" -/
private def ebCombine (c : UInt8) (hi lo : Nat) : Int :=
  let n : Int := if c == 43 then wrap i16 hi else if c == 45 then wrap i16 (wrap i16 hi * -1) else 0
  wrap i16 (wrap i16 (n * 256) + wrap i16 lo)

private theorem eb_parse (prev : Int) (c : UInt8) (hc : c = 43 ∨ c = 45) (ds ls : Bytes) (hd : ds.all isDigit = true) :
    ebUnmarshal prev (c :: (ds ++ 47 :: ls)) = .ok (ebCombine c (parseUint ds) (parseUint ls)) := by
  have hc47 : c ≠ 47 := by rcases hc with h | h <;> subst h <;> decide
  have hc48 : (c == 48) = false := by rcases hc with h | h <;> subst h <;> decide
  have hidx := text_shape c hc47 ds ls hd
  have hlen : (c :: (ds ++ 47 :: ls)).length = ds.length + ls.length + 2 := by simp; omega
  have s1 : slice (c :: (ds ++ 47 :: ls)) 1 (ds.length + 1) = .ok ds := by
    rw [slice_ok _ _ _ (by omega) (by omega)]; simp
  have s2 : slice (c :: (ds ++ 47 :: ls)) (ds.length + 1 + 1) (c :: (ds ++ 47 :: ls)).length = .ok ls := by
    rw [slice_ok _ _ _ (by omega) (by omega)]
    have : List.drop (ds.length + 1 + 1) (c :: (ds ++ 47 :: ls)) = ls := by
      simp [List.drop_append]
    rw [this, List.take_of_length_le (by omega)]
  unfold ebUnmarshal
  rw [if_neg (by omega)]
  simp only [bind, at!, List.getElem?_cons_zero, Outcome.bind, hc48, Bool.false_eq_true, if_false, hidx, s1, s2]
  rcases hc with h | h <;> subst h <;> simp [ebCombine, Outcome.bind]

/-- **Round trip, every non-zero code.** For every `int16` value `v ≠ 0` and whatever the receiver
held before, `UnmarshalText(MarshalText(v))` stores exactly `v`, without panic. -/
theorem C16_exposureBias_roundtrip (v prev : Int) (hlo : -32768 ≤ v) (hhi : v ≤ 32767) (hv : v ≠ 0) :
    ebUnmarshal prev (ebMarshal v) = .ok v := by
  have hq : v / 256 * 256 + v % 256 = v := by omega
  have hr0 : 0 ≤ v % 256 := by omega
  have hr1 : v % 256 < 256 := by omega
  obtain ⟨_, l2⟩ := decDigits_spec 25 (v % 256).toNat (by omega)
  have hlo' : parseUint (decDigits 25 (v % 256).toNat) = (v % 256).toNat := parseUint_dec _ (by omega)
  have hgl : gitoa (v % 256) = decDigits 25 (v % 256).toNat := by
    unfold gitoa; rw [if_neg (by omega)]
  by_cases hp : v > 0
  · -- "+hi/lo"
    have hh0 : 0 ≤ v / 256 := by omega
    obtain ⟨_, d2⟩ := decDigits_spec 25 (v / 256).toNat (by omega)
    have hhi' : parseUint (decDigits 25 (v / 256).toNat) = (v / 256).toNat := parseUint_dec _ (by omega)
    have hgh : gitoa (v / 256) = decDigits 25 (v / 256).toNat := by
      unfold gitoa; rw [if_neg (by omega)]
    have htext : ebMarshal v = 43 :: (decDigits 25 (v / 256).toNat ++ 47 :: decDigits 25 (v % 256).toNat) := by
      unfold ebMarshal; rw [if_neg hv, if_pos hp, hgh, hgl]; simp
    rw [htext, eb_parse prev 43 (Or.inl rfl) _ _ d2, hhi', hlo']
    refine congrArg Outcome.ok ?_
    simp only [ebCombine, show ((43 : UInt8) == 43) = true by decide, if_true]
    rw [wrap16_id ((v / 256).toNat : Int) (by omega) (by omega), wrap16_id (_ * 256) (by omega) (by omega),
      wrap16_id ((v % 256).toNat : Int) (by omega) (by omega), wrap16_id _ (by omega) (by omega)]
    omega
  · -- "-|hi|/lo"
    have hn : v < 0 := by omega
    have hh0 : v / 256 < 0 := by omega
    obtain ⟨_, d2⟩ := decDigits_spec 25 (-(v / 256)).toNat (by omega)
    have hhi' : parseUint (decDigits 25 (-(v / 256)).toNat) = (-(v / 256)).toNat := parseUint_dec _ (by omega)
    have hgh : gitoa (v / 256) = 45 :: decDigits 25 (-(v / 256)).toNat := by
      unfold gitoa; rw [if_pos hh0]
    have htext : ebMarshal v = 45 :: (decDigits 25 (-(v / 256)).toNat ++ 47 :: decDigits 25 (v % 256).toNat) := by
      unfold ebMarshal; rw [if_neg hv, if_neg hp, hgh, hgl]; simp
    rw [htext, eb_parse prev 45 (Or.inr rfl) _ _ d2, hhi', hlo']
    refine congrArg Outcome.ok ?_
    simp only [ebCombine, show ((45 : UInt8) == 43) = false by decide, show ((45 : UInt8) == 45) = true by decide,
      if_true, Bool.false_eq_true, if_false]
    rw [wrap16_id ((-(v / 256)).toNat : Int) (by omega) (by omega), wrap16_id (_ * -1) (by omega) (by omega),
      wrap16_id (_ * 256) (by omega) (by omega),
      wrap16_id ((v % 256).toNat : Int) (by omega) (by omega), wrap16_id _ (by omega) (by omega)]
    omega

/-- The zero code prints as "0/0"; reading it back leaves the receiver as it was, so a fresh
(zero) receiver round-trips. (A receiver holding another value keeps it: recorded in DESIGN.md
as an interpretation — the property's `Unmarshal` is into a fresh value, as `encoding/json` does
for a new struct.) -/
theorem C16_exposureBias_zero (prev : Int) : ebUnmarshal prev (ebMarshal 0) = .ok prev := by
  simp [ebMarshal, ebUnmarshal, at!, Outcome.bind, bind]

/-- `Marshal(Unmarshal(Marshal(v))) == Marshal(v)` for every one of the 2^16 codes (fresh receiver). -/
theorem C16_exposureBias_idempotent (v : Int) (hlo : -32768 ≤ v) (hhi : v ≤ 32767) :
    (ebUnmarshal 0 (ebMarshal v)).bind (fun w => .ok (ebMarshal w)) = .ok (ebMarshal v) := by
  by_cases hv : v = 0
  · subst hv; rw [C16_exposureBias_zero]; rfl
  · rw [C16_exposureBias_roundtrip v 0 hlo hhi hv]; rfl

private theorem bind_notPanic {α β} (x : G α) (f : α → G β) (hx : x.isPanic = false)
    (hf : ∀ a, (f a).isPanic = false) : (x.bind f).isPanic = false := by
  cases x <;> simp_all [Outcome.bind, Outcome.isPanic]

/-- **Totality.** `ExposureBias.UnmarshalText` returns for every byte string and every receiver
state: no index or slice expression can go out of range. -/
theorem C16_exposureBias_total (prev : Int) (t : Bytes) : (ebUnmarshal prev t).isPanic = false := by
  unfold ebUnmarshal
  split
  · rfl
  · rename_i hl
    have h0 : 0 < t.length := by omega
    simp only [bind, at_ok t 0 h0, Outcome.bind]
    split
    · rfl
    · cases hi : idxSlash t with
      | none => rfl
      | some i =>
        have hlt := idxSlash_lt t i hi
        have hat := idxSlash_at t i hi
        have s0 := slice_ok t 0 i (by omega) (by omega)
        have s2 := slice_ok t (i + 1) t.length (by omega) (by omega)
        simp only [s0, s2, Outcome.bind]
        by_cases h1 : 1 ≤ i
        · have s1 := slice_ok t 1 i h1 (by omega)
          simp only [s1, Outcome.bind]
          repeat' split
          all_goals simp [Outcome.bind, Outcome.isPanic]
        · -- the '/' is the first byte: then text[0] is neither '+' nor '-'
          have hi0 : i = 0 := by omega
          subst hi0
          have : t[0] = 47 := by
            have := hat; rw [List.getElem?_eq_getElem h0] at this; simpa using this
          have e43 : (t[0] == 43) = false := by rw [this]; decide
          have e45 : (t[0] == 45) = false := by rw [this]; decide
          simp only [e43, e45, Bool.false_eq_true, if_false, Outcome.isPanic]

/-! ## Aperture.ParseString and FocalLength.UnmarshalText: total -/

theorem C16_aperture_total (t : Bytes) : (apertureParse t).isPanic = false := by
  unfold apertureParse
  cases hi : idxSlash t with
  | none => rfl
  | some i =>
    have hlt := idxSlash_lt t i hi
    simp only [bind, slice_ok t 0 i (by omega) (by omega), slice_ok t (i + 1) t.length (by omega) (by omega), Outcome.bind]
    split <;> rfl

theorem C16_focalLength_total (t : Bytes) : (focalStrip t).isPanic = false := by
  unfold focalStrip
  split
  · rfl
  · split
    · rename_i h1 h2
      simp only [bind, at_ok t (t.length - 1) (by omega), at_ok t (t.length - 2) (by omega), Outcome.bind]
      split
      · simp [slice_ok t 0 (t.length - 2) (by omega) (by omega), Outcome.bind, Outcome.isPanic]
      · rfl
    · rfl

/-- the suffix is removed exactly when present: `strip (s ++ "mm") = s` for non-empty `s` -/
theorem C16_focalLength_strip (s : Bytes) :
    focalStrip (s ++ [109, 109]) = .ok (some s) := by
  have hl : (s ++ [109, 109]).length = s.length + 2 := by simp
  unfold focalStrip
  simp only [hl, show s.length + 2 ≠ 0 by omega, if_false, show s.length + 2 > 1 by omega, if_true, bind]
  have a1 : at! (s ++ [109, 109]) (s.length + 1) = .ok 109 := by
    simp [at!, List.getElem?_append_right]
  have a2 : at! (s ++ [109, 109]) s.length = .ok 109 := by
    simp [at!, List.getElem?_append_right]
  simp only [show s.length + 2 - 1 = s.length + 1 by omega, show s.length + 2 - 2 = s.length by omega, a1, a2,
    Outcome.bind]
  simp [slice, Outcome.bind]

/-! ## enumerations with a text form: every documented member round-trips -/

open Imeta.Gen.Codec in
/-- MeteringMode: documented members 0..6 and 255 -/
theorem C16_meteringMode_roundtrip :
    ∀ v ∈ [(0 : Int), 1, 2, 3, 4, 5, 6, 255],
      (meta_MeteringMode_String v).bind (fun s => .ok (enumUnmarshal meta_mapStringMeteringMode_data s)) = .ok v := by
  decide +kernel

open Imeta.Gen.Codec in
theorem C16_exposureMode_roundtrip :
    ∀ v ∈ [(0 : Int), 1, 2],
      (meta_ExposureMode_String v).bind (fun s => .ok (enumUnmarshal meta_mapStringExposureMode_data s)) = .ok v := by
  decide +kernel

open Imeta.Gen.Codec in
theorem C16_exposureProgram_roundtrip :
    ∀ v ∈ [(0 : Int), 1, 2, 3, 4, 5, 6, 7, 8, 9],
      (meta_ExposureProgram_String v).bind (fun s => .ok (enumUnmarshal meta_mapStringExposureProgram_data s)) = .ok v := by
  decide +kernel

open Imeta.Gen.Codec in
/-- ImageType: all 24 documented members, text form (content type) -/
theorem C16_imageType_roundtrip :
    ∀ v ∈ List.range 24,
      (imagetype_ImageType_String (v : Int)).bind imagetype_FromString = .ok (v : Int) := by
  decide +kernel

/-! ## UUID -/

/-- `UnmarshalText` never panics: every index it uses is below the length it has just tested. -/
theorem C16_uuid_total (t : Bytes) : (uuidUnmarshal t).isPanic = false := by
  have canon : ∀ s : Bytes, s.length = 36 → (uuidCanonical s).isPanic = false := by
    intro s hs
    unfold uuidCanonical
    simp only [bind, at_ok s 8 (by omega), at_ok s 13 (by omega), at_ok s 18 (by omega), at_ok s 23 (by omega), Outcome.bind]
    split
    · rfl
    · simp only [slice_ok s 0 8 (by omega) (by omega), slice_ok s 9 13 (by omega) (by omega),
        slice_ok s 14 18 (by omega) (by omega), slice_ok s 19 23 (by omega) (by omega),
        slice_ok s 24 36 (by omega) (by omega), Outcome.bind]
      split <;> rfl
  have hashl : ∀ s : Bytes, (uuidHashLike s).isPanic = false := by
    intro s; unfold uuidHashLike; split <;> rfl
  have plain : ∀ s : Bytes, (uuidPlain s).isPanic = false := by
    intro s; unfold uuidPlain
    split
    · exact hashl s
    · split
      · rename_i h; exact canon s h
      · rfl
  unfold uuidUnmarshal
  simp only
  split
  · exact hashl t
  · split
    · rename_i h; exact canon t h
    · split
      · rename_i h
        simp only [bind, at_ok t 0 (by omega), at_ok t (t.length - 1) (by omega), Outcome.bind]
        split
        · rfl
        · simp only [slice_ok t 1 (t.length - 1) (by omega) (by omega), Outcome.bind]; exact plain _
      · split
        · rename_i h
          simp only [bind, slice_ok t 0 9 (by omega) (by omega), Outcome.bind]
          split
          · rfl
          · simp only [slice_ok t 9 t.length (by omega) (by omega), Outcome.bind]; exact plain _
        · rfl

/-- the 16 bytes of a UUID as five groups -/
private theorem uuid_groups (u : Bytes) (h : u.length = 16) :
    u.take 4 ++ (u.drop 4).take 2 ++ (u.drop 6).take 2 ++ (u.drop 8).take 2 ++ u.drop 10 = u := by
  match u, h with
  | [a,b,c,d,e,f,g,i,j,k,l,m,n,o,p,q], _ => rfl

/-- **Canonical round trip for all 2^128 values**: `UnmarshalText(MarshalText(u)) = u`. -/
theorem C16_uuid_roundtrip (u : Bytes) (h : u.length = 16) : uuidUnmarshal (uuidMarshal u) = .ok u := by
  have l1 : (hexEnc (u.take 4)).length = 8 := by rw [hexEnc_length]; simp [h]
  have l2 : (hexEnc ((u.drop 4).take 2)).length = 4 := by rw [hexEnc_length]; simp [h]
  have l3 : (hexEnc ((u.drop 6).take 2)).length = 4 := by rw [hexEnc_length]; simp [h]
  have l4 : (hexEnc ((u.drop 8).take 2)).length = 4 := by rw [hexEnc_length]; simp [h]
  have l5 : (hexEnc (u.drop 10)).length = 12 := by rw [hexEnc_length]; simp [h]
  generalize hA : hexEnc (u.take 4) = A at *
  generalize hB : hexEnc ((u.drop 4).take 2) = B at *
  generalize hC : hexEnc ((u.drop 6).take 2) = C at *
  generalize hD : hexEnc ((u.drop 8).take 2) = D at *
  generalize hE : hexEnc (u.drop 10) = E at *
  have dA : hexDec A = some (u.take 4) := by rw [← hA]; exact hexDec_hexEnc _
  have dB : hexDec B = some ((u.drop 4).take 2) := by rw [← hB]; exact hexDec_hexEnc _
  have dC : hexDec C = some ((u.drop 6).take 2) := by rw [← hC]; exact hexDec_hexEnc _
  have dD : hexDec D = some ((u.drop 8).take 2) := by rw [← hD]; exact hexDec_hexEnc _
  have dE : hexDec E = some (u.drop 10) := by rw [← hE]; exact hexDec_hexEnc _
  match A, l1 with
  | [a0,a1,a2,a3,a4,a5,a6,a7], _ =>
  match B, l2 with
  | [b0,b1,b2,b3], _ =>
  match C, l3 with
  | [c0,c1,c2,c3], _ =>
  match D, l4 with
  | [d0,d1,d2,d3], _ =>
  match E, l5 with
  | [e0,e1,e2,e3,e4,e5,e6,e7,e8,e9,e10,e11], _ =>
    simp only [uuidMarshal, hA, hB, hC, hD, hE]
    simp only [uuidUnmarshal, uuidCanonical, List.cons_append, List.nil_append, List.length_cons, List.length_nil,
      at!, slice, bind, Outcome.bind]
    simp (config := { decide := true }) only [List.getElem?_cons_succ, List.getElem?_cons_zero, List.drop_succ_cons,
      List.drop_zero, List.take_succ_cons, List.take_zero, List.length_cons, List.length_nil, if_true, if_false,
      Outcome.bind, dA, dB, dC, dD, dE, bne_self_eq_false, Bool.or_self, Bool.false_eq_true, Nat.reduceAdd,
      Nat.reduceSub, Nat.reduceLeDiff, Nat.reduceEqDiff, and_self, Nat.le_refl, Nat.zero_le, true_and, and_true]
    rw [uuid_groups u h]

/-! ## perceptual hashes: Encode/Decode -/

private theorem leNat_leBytes_lt (n v : Nat) (h : v < 256 ^ n) : leNat (leBytes n v) = v := by
  rw [leNat_leBytes, Nat.mod_eq_of_lt h]

/-- every 64-bit hash survives `Encode` → `Decode` -/
theorem C16_hash64_roundtrip (h : Nat) (hh : h < 2 ^ 64) :
    (hash64Encode 8 h).bind hash64Decode = .ok h := by
  have hl : (leBytes 8 h).length = 8 := leBytes_length 8 h
  simp only [hash64Encode, show ¬ (8 < 8) by omega, if_false, Outcome.bind, hash64Decode, hl]
  rw [List.take_of_length_le (by omega), leNat_leBytes_lt 8 h (by omega)]

/-- every 256-bit hash (four words) survives `Encode` → `Decode` -/
theorem C16_hash256_roundtrip (a b c d : Nat) (ha : a < 2 ^ 64) (hb : b < 2 ^ 64) (hc : c < 2 ^ 64) (hd : d < 2 ^ 64) :
    (hash256Encode 32 [a, b, c, d]).bind hash256Decode = .ok [a, b, c, d] := by
  have la := leBytes_length 8 a; have lb := leBytes_length 8 b
  have lc := leBytes_length 8 c; have ld := leBytes_length 8 d
  have hlen : (leBytes 8 a ++ (leBytes 8 b ++ (leBytes 8 c ++ leBytes 8 d))).length = 32 := by
    simp only [List.length_append, la, lb, lc, ld]
  simp only [hash256Encode, show ¬ (32 < 32) by omega, if_false, Outcome.bind, hash256Decode, List.flatMap_cons,
    List.flatMap_nil, List.append_nil, hlen]
  have t1 : List.take 8 (leBytes 8 a ++ (leBytes 8 b ++ (leBytes 8 c ++ leBytes 8 d))) = leBytes 8 a :=
    take_append_len _ _ 8 la
  have d1 : List.drop 8 (leBytes 8 a ++ (leBytes 8 b ++ (leBytes 8 c ++ leBytes 8 d))) = leBytes 8 b ++ (leBytes 8 c ++ leBytes 8 d) :=
    drop_append_len _ _ 8 la
  have d2 : List.drop 16 (leBytes 8 a ++ (leBytes 8 b ++ (leBytes 8 c ++ leBytes 8 d))) = leBytes 8 c ++ leBytes 8 d := by
    rw [show 16 = 8 + 8 by rfl, ← List.drop_drop, d1]; exact drop_append_len _ _ 8 lb
  have d3 : List.drop 24 (leBytes 8 a ++ (leBytes 8 b ++ (leBytes 8 c ++ leBytes 8 d))) = leBytes 8 d := by
    rw [show 24 = 16 + 8 by rfl, ← List.drop_drop, d2]; exact drop_append_len _ _ 8 lc
  have t2 : List.take 8 (leBytes 8 b ++ (leBytes 8 c ++ leBytes 8 d)) = leBytes 8 b := take_append_len _ _ 8 lb
  have t3 : List.take 8 (leBytes 8 c ++ leBytes 8 d) = leBytes 8 c := take_append_len _ _ 8 lc
  have t4 : List.take 8 (leBytes 8 d) = leBytes 8 d := List.take_of_length_le (by omega)
  rw [t1, d1, t2, d2, t3, d3, t4]
  rw [leNat_leBytes_lt 8 a (by omega), leNat_leBytes_lt 8 b (by omega), leNat_leBytes_lt 8 c (by omega),
    leNat_leBytes_lt 8 d (by omega)]

/-! ## MessagePack: the integer forms behind every generated `MarshalMsg` / `UnmarshalMsg` / `Msgsize`

`Gen/Msgp` facts (regenerated) say which primitive each named type uses; the theorem below covers every
integer kind a primitive can have. -/

def intKinds : List IKind := [IKind.u8, IKind.u16, IKind.u32, IKind.u64, IKind.i8, IKind.i16, IKind.i32, IKind.i64]

/-- For each integer kind and **every value of the kind**: what `AppendIntN/UintN` writes is read back by
`ReadIntNBytes/UintNBytes` as the same value with the remaining bytes untouched, and the encoding is
never longer than the `IntNSize/UintNSize` hint (`Msgsize` is an upper bound). -/
theorem C16_msgp_roundtrip (k : IKind) (hk : k ∈ intKinds) (v : Int) (hlo : k.lo ≤ v) (hhi : v ≤ k.hi) (rest : Bytes) :
    mpUnmarshal k (mpMarshal k v ++ rest) = .ok (v, rest) ∧ (mpMarshal k v).length ≤ mpSize k := by
  simp only [intKinds, List.mem_cons, List.mem_nil_iff, or_false] at hk
  rcases hk with h | h | h | h | h | h | h | h <;> subst h <;>
    simp only [IKind.lo, IKind.hi, IKind.u8, IKind.u16, IKind.u32, IKind.u64, IKind.i8, IKind.i16, IKind.i32, IKind.i64,
      if_true, if_false, Bool.false_eq_true] at hlo hhi
  all_goals first
    | (have hr := mp_uint_roundtrip v.toNat (by omega) rest
       have hs := mp_uint_size v.toNat
       refine ⟨?_, ?_⟩
       · simp only [mpUnmarshal, mpMarshal, mpReadUintK, hr, Outcome.bind, IKind.hi, IKind.u8, IKind.u16, IKind.u32, IKind.u64,
           Bool.false_eq_true, if_false]
         rw [if_neg (by omega)]
         refine congrArg Outcome.ok (Prod.ext ?_ rfl)
         show (v.toNat : Int) = v
         omega
       · simp only [mpMarshal, mpSize, IKind.u8, IKind.u16, IKind.u32, IKind.u64, Bool.false_eq_true, if_false, hs]
         repeat' split
         all_goals omega)
    | (have hr := mp_int_roundtrip v (by omega) (by omega) rest
       have hs := mp_int_size v
       refine ⟨?_, ?_⟩
       · simp only [mpUnmarshal, mpMarshal, mpReadIntK, hr, Outcome.bind, IKind.hi, IKind.lo, IKind.i8, IKind.i16, IKind.i32, IKind.i64,
           if_true]
         rw [if_neg (by omega)]
       · simp only [mpMarshal, mpSize, IKind.i8, IKind.i16, IKind.i32, IKind.i64, if_true]
         refine Nat.le_trans hs ?_
         repeat' split
         all_goals omega)

/-- the msgp primitive family of a scalar Go type -/
def primName : String → Option String
  | "uint8" => some "Uint8" | "uint16" => some "Uint16" | "uint32" => some "Uint32" | "uint64" => some "Uint64"
  | "int8" => some "Int8" | "int16" => some "Int16" | "int32" => some "Int32" | "int64" => some "Int64"
  | "float32" => some "Float32" | "float64" => some "Float64"
  | _ => none

/-- a generated codec is consistent when all five methods use the primitive of the type's own kind -/
def factConsistent (f : Imeta.Gen.Msgp.Fact) : Bool :=
  match primName f.under with
  | some k =>
    f.marshal == ["Append" ++ k, "conv:" ++ f.under] && f.unmarshal == ["Read" ++ k ++ "Bytes"] &&
    f.encode == ["Write" ++ k, "conv:" ++ f.under] && f.decode == ["Read" ++ k] && f.size == [k ++ "Size"]
  | none => true

/-- **Tie to the generated code** (facts regenerated from /repo's `*_gen.go` on every run): every scalar
named type is written, read and sized with the MessagePack primitive of exactly its own underlying kind,
so `C16_msgp_roundtrip` applies to it with that kind. -/
theorem C16_msgp_facts_consistent : Imeta.Gen.Msgp.facts.all factConsistent = true := by decide +kernel

/-- the scalar types the property names are all present in the fact table -/
theorem C16_msgp_facts_cover :
    ["ImageType", "ExposureBias", "ExposureMode", "ExposureProgram", "MeteringMode", "Flash", "Orientation", "Compression",
     "Aperture", "FocalLength", "ExposureTime", "PHash64", "Ahash", "ContinuousDrive", "FocusMode", "AESetting",
     "AFAreaMode", "BracketMode", "FocusRange"].all
      (fun t => Imeta.Gen.Msgp.facts.any fun f => f.typ == t && (primName f.under).isSome) = true := by decide +kernel

/-- non-vacuity: -4/3 stops (`0xFC03` as int16 = -1021) on the wire and back -/
example : mpUnmarshal IKind.i16 (mpMarshal IKind.i16 (-1021) ++ [0xc0]) = .ok (-1021, [0xc0]) := by decide

end Imeta.C16
