/-
  C12 — TIFF header search reports the first TIFF signature at any offset, exactly.

  Property theorems only. Model: Imeta.Model.Tiff (hand-written transcription of
  tiff.ScanTiffHeader, tied to /repo by the correspondence check `vh corr C12`).
-/
import Imeta.Lemmas.Tiff
namespace Imeta.Tiff

/-- A signature sits at index `i` of `b` with the 28 further bytes the property asks for. -/
def SigAt (b : Bytes) (i : Nat) : Prop := isSig (b.drop i) = true ∧ i + headerLength ≤ b.length

instance (b : Bytes) (i : Nat) : Decidable (SigAt b i) := by unfold SigAt; infer_instance

/-- The header the property demands for a signature at `i`: offset, order and the
32-bit first-directory offset stored after the signature, stream left at the header. -/
def headerAt (b : Bytes) (i : Nat) : Header := mkHeader (b.drop i) i

/-- The specification function finds the least index with a signature (offset counted from d). -/
theorem spec_first (b : Bytes) (d : Nat) (hd : Header) (h : spec b d = .ok hd) :
    ∃ i, SigAt b i ∧ (∀ j, j < i → isSig (b.drop j) = false) ∧ hd = mkHeader (b.drop i) (d + i) := by
  induction b generalizing d with
  | nil => simp [spec] at h
  | cons x t ih =>
    rw [spec_cons] at h
    split at h
    · cases h
    · rename_i h32
      split at h
      · rename_i hs
        refine ⟨0, ⟨by simpa using hs, by omega⟩, by intro j hj; omega, ?_⟩
        cases h; rfl
      · rename_i hs
        obtain ⟨i, ⟨hs1, hs2⟩, hmin, heq⟩ := ih (d+1) h
        refine ⟨i+1, ⟨by simpa using hs1, by simp only [List.length_cons]; omega⟩, ?_, ?_⟩
        · intro j hj
          cases j with
          | zero => simpa using hs
          | succ j => simpa using hmin j (by omega)
        · rw [heq]; simp only [List.drop_succ_cons]; congr 1; omega

/-- ... and reports 'no Exif' only when no index carries a signature with 32 bytes available. -/
theorem spec_none (b : Bytes) (d : Nat) (h : spec b d = .err .noExif) : ∀ i, ¬ SigAt b i := by
  induction b generalizing d with
  | nil => intro i ⟨_, h2⟩; simp [headerLength] at h2
  | cons x t ih =>
    rw [spec_cons] at h
    split at h
    · rename_i h32; intro i ⟨_, h2⟩; omega
    · split at h
      · cases h
      · rename_i hs
        intro i ⟨h1, h2⟩
        cases i with
        | zero => exact hs (by simpa using h1)
        | succ i =>
          exact ih (d+1) h i ⟨by simpa using h1, by simp only [List.length_cons] at h2; omega⟩

theorem spec_total (b : Bytes) (d : Nat) :
    (∃ hd, spec b d = .ok hd) ∨ spec b d = .err .noExif := by
  induction b generalizing d with
  | nil => right; rfl
  | cons x t ih =>
    rw [spec_cons]
    split
    · right; rfl
    · split
      · left; exact ⟨_, rfl⟩
      · exact ih (d+1)

/-- **C12, main theorem.** For every byte string `b` (any prefix before the header, any
content), with fuel for one iteration per byte, the model of `ScanTiffHeader`
* returns the header of the *first* signature that is followed by 28 more bytes:
  offset (mod 2^32, the code's `uint32(discarded)`), byte order, first-IFD offset, and leaves
  the stream at that header (`restLen = len - i`);
* returns `ErrNoExif` exactly when there is no such signature;
* never panics and never runs out of fuel. -/
theorem C12_scan_first_signature (b : Bytes) (fuel : Nat) (hf : b.length < fuel) :
    (∃ i, SigAt b i ∧ (∀ j, j < i → isSig (b.drop j) = false) ∧ scan fuel b 0 = .ok (headerAt b i))
    ∨ ((∀ i, ¬ SigAt b i) ∧ scan fuel b 0 = .err .noExif) := by
  rw [scan_eq_spec_aux b.length fuel b 0 (Nat.le_refl _) hf]
  rcases spec_total b 0 with ⟨hd, h⟩ | h
  · left
    obtain ⟨i, hs, hmin, heq⟩ := spec_first b 0 hd h
    exact ⟨i, hs, hmin, by rw [h, heq, headerAt]; simp⟩
  · right; exact ⟨spec_none b 0 h, h⟩

/-- The fields of the reported header are those stored in the file at the reported place. -/
theorem C12_header_fields (b : Bytes) (i : Nat) (h : SigAt b i) (hi : i < 2^32) :
    (headerAt b i).offset = i ∧
    (headerAt b i).restLen = b.length - i ∧
    (headerAt b i).order = binaryOrder (b.drop i) ∧
    (headerAt b i).order ≠ .unknown ∧
    (headerAt b i).firstIfd = (headerAt b i).order.uint ((b.drop (i+4)).take 4) := by
  refine ⟨by simp [headerAt, mkHeader, Nat.mod_eq_of_lt hi], by simp [headerAt, mkHeader], rfl, ?_, ?_⟩
  · have := h.1
    simp only [headerAt, mkHeader, binaryOrder]
    simp only [isSig, Bool.or_eq_true] at this
    split
    · simp
    · split
      · simp
      · rename_i h1 h2; rcases this with h | h <;> simp_all
  · simp [headerAt, mkHeader, List.drop_drop]

/-- Termination and work bound (feeds C02): one `Peek` per iteration, at most `len + 1`
iterations, each iteration that does not return discards at least one byte. -/
theorem C12_iterations_linear (b : Bytes) (fuel : Nat) : iterations fuel b ≤ b.length + 1 :=
  iterations_le fuel b

/-- No panic, no fuel exhaustion, on any input (feeds C01/C02). -/
theorem C12_no_panic (b : Bytes) (fuel : Nat) (hf : b.length < fuel) :
    (scan fuel b 0).isPanic = false ∧ (scan fuel b 0).isFuel = false := by
  rcases C12_scan_first_signature b fuel hf with ⟨i, _, _, h⟩ | ⟨_, h⟩ <;> simp [h, Outcome.isPanic, Outcome.isFuel]

/-- Non-vacuity: a concrete stream with junk (including a bare `II`, a lone `M`) before a
big-endian header satisfies the hypotheses, and the answer is index 5. -/
def exampleStream : Bytes :=
  [0x49, 0x49, 0x4d, 0x00, 0x2a] ++ [0x4d, 0x4d, 0x00, 0x2a, 0x00, 0x00, 0x00, 0x08] ++ List.replicate 24 0

example : scan 100 exampleStream 0 =
    .ok { offset := 5, order := .big, firstIfd := 8, restLen := 32 } := by decide

example : SigAt exampleStream 5 := by decide

end Imeta.Tiff
