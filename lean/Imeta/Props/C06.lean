/-
  C06 — The container does not change the metadata: same Exif payload, same result.

  The proved part is the *hand-off*: each container scanner gives the Exif reader a header that is a function of
  the payload alone (byte order and first-IFD offset read from the payload's own TIFF header, length = payload
  length) and a stream positioned on the payload, whatever surrounds it:
    * JPEG  — `Jpeg.C10_scan_calls` (any segments before/after, any XMP-callback behaviour);
    * TIFF / HEIF — `Tiff.C12_scan_first_signature` (any prefix without an earlier signature);
    * PNG   — `C06_png_handoff` below (any chunks before and after the eXIf chunk).
  That the reader then produces identical fields from identical (header, payload) is the reader model applied to
  equal arguments; equality across the three entry variants (position / length bookkeeping) is decided by the
  search of `vh run C06`, not by a theorem (recorded as partial in the evidence).
-/
import Imeta.Model.Png
import Imeta.Props.C10
import Imeta.Props.C12
import Imeta.Lemmas.ExifNested
import Imeta.Lemmas.ExifField4
namespace Imeta.Png
open Imeta

structure Chunk where
  typ : Bytes
  data : Bytes
  crc : Bytes

def Chunk.encode (c : Chunk) : Bytes := beBytes 4 c.data.length ++ c.typ ++ c.data ++ c.crc

def Chunk.wf (c : Chunk) : Prop := c.typ.length = 4 ∧ c.crc.length = 4 ∧ c.data.length + 4 < 2 ^ 32 ∧ c.typ ≠ eXIf

def encodeChunks : List Chunk → Bytes
  | [] => []
  | c :: t => c.encode ++ encodeChunks t

theorem read8_at (pre x rest : Bytes) (h : x.length = 8) : read8 (pre ++ x ++ rest) pre.length = some x := by
  unfold read8
  rw [if_pos (by simp [h])]
  rw [List.append_assoc, List.drop_left' rfl, List.take_left' h]

/-- walking over well-formed non-eXIf chunks: each one moves the position by exactly its encoded length -/
theorem chunks_skip (pre : Bytes) (cs : List Chunk) (tail : Bytes) (fuel : Nat) (hwf : ∀ c ∈ cs, c.wf) :
    chunks (pre ++ encodeChunks cs ++ tail) (cs.length + fuel) pre.length =
    chunks (pre ++ encodeChunks cs ++ tail) fuel (pre.length + (encodeChunks cs).length) := by
  induction cs generalizing pre with
  | nil => simp [encodeChunks]
  | cons c t ih =>
    obtain ⟨h1, h2, h3, h4⟩ := hwf c (by simp)
    have e : (c :: t).length + fuel = (t.length + fuel) + 1 := by simp; omega
    rw [e]
    have hb : pre ++ encodeChunks (c :: t) ++ tail =
        pre ++ (beBytes 4 c.data.length ++ c.typ) ++ (c.data ++ c.crc ++ encodeChunks t ++ tail) := by
      simp [encodeChunks, Chunk.encode, List.append_assoc]
    have hl : (beBytes 4 c.data.length ++ c.typ).length = 8 := by simp [beBytes, leBytes_length, h1]
    have hr := read8_at pre (beBytes 4 c.data.length ++ c.typ) (c.data ++ c.crc ++ encodeChunks t ++ tail) hl
    conv => lhs; unfold chunks
    rw [hb, hr]
    have hlen : beNat ((beBytes 4 c.data.length ++ c.typ).take 4) = c.data.length := by
      rw [List.take_left' (by simp [beBytes, leBytes_length])]
      rw [beNat_beBytes]; exact Nat.mod_eq_of_lt (by omega)
    have hty : ((beBytes 4 c.data.length ++ c.typ).drop 4 == eXIf) = false := by
      rw [List.drop_left' (by simp [beBytes, leBytes_length])]
      simpa using h4
    simp only [hlen, hty, Bool.false_eq_true, if_false]
    rw [Nat.mod_eq_of_lt h3]
    -- re-associate so that the induction hypothesis applies with prefix `pre ++ c.encode`
    have hb2 : pre ++ (beBytes 4 c.data.length ++ c.typ) ++ (c.data ++ c.crc ++ encodeChunks t ++ tail) =
        (pre ++ c.encode) ++ encodeChunks t ++ tail := by
      simp [Chunk.encode, List.append_assoc]
    have hpos : pre.length + 8 + (c.data.length + 4) = (pre ++ c.encode).length := by
      simp [Chunk.encode, beBytes, leBytes_length, h1, h2]; omega
    rw [hb2, hpos, ih (pre ++ c.encode) (fun x hx => hwf x (by simp [hx]))]
    congr 1
    simp [encodeChunks, Nat.add_assoc]

theorem encodeChunks_len (cs : List Chunk) (hwf : ∀ c ∈ cs, c.wf) : 12 * cs.length ≤ (encodeChunks cs).length := by
  induction cs with
  | nil => simp [encodeChunks]
  | cons c t ih =>
    obtain ⟨a1, a2, _, _⟩ := hwf c (by simp)
    have h := ih (fun x hx => hwf x (by simp [hx]))
    have e : (encodeChunks (c :: t)).length = 4 + c.typ.length + c.data.length + c.crc.length + (encodeChunks t).length := by
      simp [encodeChunks, Chunk.encode, beBytes, leBytes_length]; omega
    rw [e, a1, a2]
    simp only [List.length_cons]
    omega

/-- **PNG hand-off**: for every list of well-formed chunks before the eXIf chunk, every payload `p` that starts with
a TIFF header and everything that follows, `ScanPngHeader` reports the payload's own byte order and first-IFD
offset, the absolute offset of the payload and its length — independent of the surrounding chunks. -/
theorem C06_png_handoff (cs : List Chunk) (p crc post : Bytes) (hwf : ∀ c ∈ cs, c.wf)
    (hp8 : 8 ≤ p.length) (hp : p.length + 4 < 2 ^ 32) (hsig : Tiff.binaryOrder (p.take 8) ≠ .unknown)
    (hoff : 8 + (encodeChunks cs).length + 8 < 2 ^ 32) :
    scan (signature ++ encodeChunks cs ++ (beBytes 4 p.length ++ eXIf ++ p ++ crc ++ post)) =
      .ok { order := Tiff.binaryOrder (p.take 8), firstIfd := (Tiff.binaryOrder (p.take 8)).uint (((p.take 8).drop 4).take 4),
            tiffOffset := 8 + (encodeChunks cs).length + 8, exifLength := p.length } := by
  unfold scan
  have hs := read8_at [] signature (encodeChunks cs ++ (beBytes 4 p.length ++ eXIf ++ p ++ crc ++ post)) rfl
  simp only [List.nil_append, List.length_nil] at hs
  rw [show signature ++ encodeChunks cs ++ (beBytes 4 p.length ++ eXIf ++ p ++ crc ++ post) =
      signature ++ (encodeChunks cs ++ (beBytes 4 p.length ++ eXIf ++ p ++ crc ++ post)) by simp [List.append_assoc]]
  rw [hs]
  simp only [BEq.rfl, if_true]
  -- fuel: at least cs.length + 1
  have hfuel : ∃ f, (signature ++ (encodeChunks cs ++ (beBytes 4 p.length ++ eXIf ++ p ++ crc ++ post))).length / 8 + 2 = cs.length + (f + 1) := by
    have h1 := encodeChunks_len cs hwf
    refine ⟨(signature ++ (encodeChunks cs ++ (beBytes 4 p.length ++ eXIf ++ p ++ crc ++ post))).length / 8 + 2 - cs.length - 1, ?_⟩
    simp only [List.length_append]
    omega
  obtain ⟨f, hf⟩ := hfuel
  rw [hf]
  have hskip := chunks_skip signature cs (beBytes 4 p.length ++ eXIf ++ p ++ crc ++ post) (f + 1) hwf
  have h8 : signature.length = 8 := rfl
  simp only [List.append_assoc, h8] at hskip ⊢
  rw [hskip]
  -- the eXIf chunk
  have hb : signature ++ (encodeChunks cs ++ (beBytes 4 p.length ++ (eXIf ++ (p ++ (crc ++ post))))) =
      (signature ++ encodeChunks cs) ++ (beBytes 4 p.length ++ eXIf) ++ (p ++ (crc ++ post)) := by simp [List.append_assoc]
  have hl : (beBytes 4 p.length ++ eXIf).length = 8 := by simp [beBytes, leBytes_length, eXIf]
  have hr := read8_at (signature ++ encodeChunks cs) (beBytes 4 p.length ++ eXIf) (p ++ (crc ++ post)) hl
  have hb3 : (signature ++ encodeChunks cs) ++ (beBytes 4 p.length ++ eXIf) ++ (p ++ (crc ++ post)) =
      ((signature ++ encodeChunks cs) ++ (beBytes 4 p.length ++ eXIf)) ++ p.take 8 ++ (p.drop 8 ++ (crc ++ post)) := by
    simp [List.append_assoc]
    rw [← List.append_assoc (List.take 8 p), List.take_append_drop]
  have hr2 := read8_at ((signature ++ encodeChunks cs) ++ (beBytes 4 p.length ++ eXIf)) (p.take 8) (p.drop 8 ++ (crc ++ post))
    (by simp; omega)
  conv => lhs; unfold chunks
  rw [hb]
  simp only [List.length_append, h8] at hr hr2 ⊢
  rw [hr]
  have hlen : beNat ((beBytes 4 p.length ++ eXIf).take 4) = p.length := by
    rw [List.take_left' (by simp [beBytes, leBytes_length])]
    rw [beNat_beBytes]; exact Nat.mod_eq_of_lt (by omega)
  have hty : ((beBytes 4 p.length ++ eXIf).drop 4 == eXIf) = true := by
    rw [List.drop_left' (by simp [beBytes, leBytes_length])]; simp
  simp only [hlen, hty, if_true]
  rw [hb3]
  have hl2 : (beBytes 4 p.length).length + eXIf.length = 8 := by simpa using hl
  rw [hl2] at hr2
  rw [hr2]
  have : (Tiff.binaryOrder (List.take 8 p) == ByteOrder.unknown) = false := by simpa using hsig
  simp only [this, Bool.false_eq_true, if_false]
  rw [Nat.mod_eq_of_lt hoff]

end Imeta.Png

namespace Imeta.Exif
open Imeta

/-- **The same payload is read the same way through every entry variant.**  For one payload F (from its Tiff header on)
with IFD0, Exif and GPS directories in a forward layout without overlap (`World`, `DirOK`, see C03): DecodeTiff (TIFF
files, PNG eXIf, HEIF), DecodeJPEGIfd (JPEG APP1, with the segment's Exif length) and DecodeIfd (CR3 CMT boxes, stream
starting at the first directory) each make only successful reads and each read returns exactly F[t.off, t.off+t.size) —
so every field parser is handed the same bytes whichever container carried the payload. -/
theorem C06_same_payload_same_reads (tb : Tables) (F : Bytes) (buffered : Bool) (h : Hdr) (cnt : Nat) (W : Tag → Prop)
    (hsmall : F.length < 2 ^ 32) (hfi : h.firstIfd ≤ F.length)
    (w : World F h.exifLength (if buffered then bufioSize else scratchSize) W)
    (w4 : World F (4 * 1024 * 1024) (if buffered then bufioSize else scratchSize) W)
    (hroot : DirOK F { off := 0, base := 0, order := h.order, typ := h.firstIfdType, idx := 0 } h.firstIfd cnt h.exifLength
      (if buffered then bufioSize else scratchSize) (extent F))
    (hroot4 : DirOK F { off := 0, base := 0, order := h.order, typ := h.firstIfdType, idx := 0 } h.firstIfd cnt (4 * 1024 * 1024)
      (if buffered then bufioSize else scratchSize) (extent F))
    (hrootW : ∀ x, IsEntry F { off := 0, base := 0, order := h.order, typ := h.firstIfdType, idx := 0 } h.firstIfd cnt x ∨
      IsStubEntry F { off := 0, base := 0, order := h.order, typ := h.firstIfdType, idx := 0 } h.firstIfd cnt x → W x) :
    (∀ r' e, decodeTiff tb F buffered h = .ok (r', e) → Coh F r' ∧ Exact tb { imageType := h.imageType } F r') ∧
    (∀ r' e, decodeJPEGIfd tb F buffered h = .ok (r', e) → Coh F r' ∧ Exact tb { imageType := h.imageType } F r') ∧
    (∀ r' e, decodeIfd tb (F.drop h.firstIfd) buffered h = .ok (r', e) → Coh F r' ∧ Exact tb { imageType := h.imageType } F r') :=
  ⟨fun r' e hr => let hn := decodeTiff_nested tb F buffered h cnt r' e W hsmall w4 hroot4 hrootW hr; ⟨hn.1, hn.2.1⟩,
   fun r' e hr => decodeJPEGIfd_nested tb F buffered h cnt r' e W hsmall w hroot hrootW hr,
   fun r' e hr => decodeIfd_nested tb F (F.drop h.firstIfd) buffered h cnt r' e W hsmall rfl hfi w hroot hrootW hr⟩

/-- **The same payload gives the same field through every entry variant** (Software; the other thirteen fields of
Lemmas/ExifField – ExifField4 likewise): if `a` is the last Software entry each variant parsed — it is the same entry, since
all three read the same directories of F — then DecodeTiff, DecodeJPEGIfd and DecodeIfd all report
F[a.off, a.off+a.size) minus trailing padding: the container contributes nothing to the value. -/
theorem C06_same_payload_same_software (tb : Tables) (F : Bytes) (buffered : Bool) (h : Hdr) (cnt : Nat) (W : Tag → Prop)
    (hsmall : F.length < 2 ^ 32) (hfi : h.firstIfd ≤ F.length)
    (w : World F h.exifLength (if buffered then bufioSize else scratchSize) W)
    (w4 : World F (4 * 1024 * 1024) (if buffered then bufioSize else scratchSize) W)
    (hroot : DirOK F { off := 0, base := 0, order := h.order, typ := h.firstIfdType, idx := 0 } h.firstIfd cnt h.exifLength
      (if buffered then bufioSize else scratchSize) (extent F))
    (hroot4 : DirOK F { off := 0, base := 0, order := h.order, typ := h.firstIfdType, idx := 0 } h.firstIfd cnt (4 * 1024 * 1024)
      (if buffered then bufioSize else scratchSize) (extent F))
    (hrootW : ∀ x, IsEntry F { off := 0, base := 0, order := h.order, typ := h.firstIfdType, idx := 0 } h.firstIfd cnt x ∨
      IsStubEntry F { off := 0, base := 0, order := h.order, typ := h.firstIfdType, idx := 0 } h.firstIfd cnt x → W x)
    (a : Tag) (h0 : a.ifd = ifd0) (hid : a.id = 0x0131) (hemb : a.isEmbedded = false) (hasc : isASCII a = true)
    (r1 r2 r3 : R) (e1 e2 e3 : Option ErrKind)
    (hr1 : decodeTiff tb F buffered h = .ok (r1, e1)) (hr2 : decodeJPEGIfd tb F buffered h = .ok (r2, e2))
    (hr3 : decodeIfd tb (F.drop h.firstIfd) buffered h = .ok (r3, e3))
    (pre1 post1 pre2 post2 pre3 post3 : List Tag)
    (hs1 : r1.parsed = pre1 ++ a :: post1) (hp1 : ∀ t ∈ post1, ¬(t.ifd = ifd0 ∧ t.id = 0x0131))
    (hs2 : r2.parsed = pre2 ++ a :: post2) (hp2 : ∀ t ∈ post2, ¬(t.ifd = ifd0 ∧ t.id = 0x0131))
    (hs3 : r3.parsed = pre3 ++ a :: post3) (hp3 : ∀ t ∈ post3, ¬(t.ifd = ifd0 ∧ t.id = 0x0131)) :
    r1.ex.software = trimNUL (slice F a) ∧ r2.ex.software = r1.ex.software ∧ r3.ex.software = r1.ex.software := by
  obtain ⟨t1, t2, t3⟩ := C06_same_payload_same_reads tb F buffered h cnt W hsmall hfi w w4 hroot hroot4 hrootW
  have a1 := software_exact (t1 r1 e1 hr1).2 pre1 post1 a hs1 h0 hid hemb hasc hp1
  have a2 := software_exact (t2 r2 e2 hr2).2 pre2 post2 a hs2 h0 hid hemb hasc hp2
  have a3 := software_exact (t3 r3 e3 hr3).2 pre3 post3 a hs3 h0 hid hemb hasc hp3
  exact ⟨a1, by rw [a2, a1], by rw [a3, a1]⟩

end Imeta.Exif

