/-
  C01 — No input bytes or I/O failure point makes a decoder panic or crash.

  Property theorems: for each modelled decoder, for every byte string (every truncation is just another byte
  string; a reader that fails after k bytes delivers the same prefix), the model never reaches an out-of-range
  index, slice or division — `Outcome.panic` is unreachable.  The models are tied to the code by the
  correspondence checks named in each section; the entry points that are not modelled yet (isobmff handlers,
  xmp) are covered by the search of `vh run C01` only and are listed under `not_modelled` in the evidence.
-/
import Imeta.Lemmas.ExifReaderNoPanic
import Imeta.Model.ExifTables
import Imeta.Props.C09
import Imeta.Props.C12
import Imeta.Props.C10
import Imeta.Props.C16
import Imeta.Model.Png
import Imeta.Props.C11
namespace Imeta.C01
open Imeta Imeta.Exif

/-! ## the streaming Exif reader (exif2): every entry variant, every byte string, both reader kinds -/

/-- `ifdReader.DecodeTiff` (TIFF family, HEIF, PNG): no panic for any stream, header, fuel or byte order -/
theorem C01_exif_decodeTiff (tb : Tables) (rest : Bytes) (buffered : Bool) (h : Hdr) :
    (decodeTiff tb rest buffered h).isPanic = false := by
  unfold decodeTiff
  simp only
  split
  · rfl
  · exact readIfd_np tb _ _ _

/-- `ifdReader.DecodeJPEGIfd` (JPEG APP1) -/
theorem C01_exif_decodeJPEGIfd (tb : Tables) (rest : Bytes) (buffered : Bool) (h : Hdr) :
    (decodeJPEGIfd tb rest buffered h).isPanic = false := by
  unfold decodeJPEGIfd
  simp only [bind]
  refine np_bind' _ _ (readIfd_np tb _ _ _) (fun a => ?_)
  obtain ⟨r2, e⟩ := a
  cases e <;> rfl

/-- `ifdReader.DecodeIfd` (CR3 CMT boxes) -/
theorem C01_exif_decodeIfd (tb : Tables) (rest : Bytes) (buffered : Bool) (h : Hdr) :
    (decodeIfd tb rest buffered h).isPanic = false := readIfd_np tb _ _ _

/-- `exif2.Parse`: header search + unbuffered decode -/
theorem C01_exif_parse (tb : Tables) (b : Bytes) : (Exif.parse tb b).isPanic = false := by
  unfold Exif.parse
  have hs := (Tiff.C12_no_panic b (b.length + 1) (by omega)).1
  cases hsc : Tiff.scan (b.length + 1) b 0 with
  | ok h => exact np_bind' _ _ (C01_exif_decodeTiff tb _ false _) (fun _ => rfl)
  | err k => rfl
  | panic s => rw [hsc] at hs; simp [Outcome.isPanic] at hs
  | fuel => rfl

/-- the tag parser alone: any tag in any reader state (this is where the pinned tree indexed short values) -/
theorem C01_exif_parseTag (tb : Tables) (r : R) (t : Tag) : (parseTag tb r t).isPanic = false := parseTag_np tb r t

/-! ## sniffing, header search, chunk walk -/

theorem C01_imagetype (b : Bytes) : (ImageType.Buf b).isPanic = false := (ImageType.C09_total b).1

theorem C01_tiff_header (b : Bytes) : (Tiff.scan (b.length + 1) b 0).isPanic = false :=
  (Tiff.C12_no_panic b (b.length + 1) (by omega)).1

theorem png_chunks_np (b : Bytes) (f pos : Nat) : (Png.chunks b f pos).isPanic = false := by
  induction f generalizing pos with
  | zero => rfl
  | succ k ih =>
    unfold Png.chunks
    split
    · rfl
    · split
      · split
        · rfl
        · dsimp only; split <;> rfl
      · exact ih _

theorem C01_png (b : Bytes) : (Png.scan b).isPanic = false := by
  unfold Png.scan
  split
  · rfl
  · split
    · exact png_chunks_np b _ _
    · rfl

/-! ## text decoders of the value types (from C16) -/

theorem C01_exposureBias_text (prev : Int) (t : Bytes) : (Codec.ebUnmarshal prev t).isPanic = false :=
  C16.C16_exposureBias_total prev t
theorem C01_uuid_text (t : Bytes) : (Codec.uuidUnmarshal t).isPanic = false := C16.C16_uuid_total t
theorem C01_aperture_text (t : Bytes) : (Codec.apertureParse t).isPanic = false := C16.C16_aperture_total t
theorem C01_focalLength_text (t : Bytes) : (Codec.focalStrip t).isPanic = false := C16.C16_focalLength_total t

/-- non-vacuity: the 12-byte GPSDateStamp that panicked before the repair is now a plain "no date" -/
example : (parseGPSDate { rest := [50, 48, 50, 49, 58, 48, 50, 58, 48, 51, 32, 120], po := 100, exifLength := 1000, buffered := true }
    { off := 100, count := 12, id := 0x1d, typ := tASCII, ifd := gpsIFD, idx := 0, order := .little }).isPanic = false := by decide


/-- ISOBMFF (isobmff.Reader.ReadFTYP / ReadMetadata, which Decode / DecodeCR3 / PreviewCR3 drive): the model never reaches
a panic outcome, for every stream -/
theorem C01_isobmff_readMetadata (s : Bmff.St) (hs : s.chain = []) : ¬ Bmff.isPanic (Bmff.readMetadata s).1 :=
  Props.C11.C11_readMetadata_total s hs
theorem C01_isobmff_readFTYP (s : Bmff.St) (hs : s.chain = []) : ¬ Bmff.isPanic (Bmff.readFTYP s).1 :=
  Props.C11.C11_readFTYP_total s hs

end Imeta.C01
