/-
  C14 — Memory allocated by a decode is bounded by the input size, not by its contents.

  (1) Exif reader model: a string is made only from bytes that are actually in the stream (or from the 4-byte
      offset slot): the value handed to the string conversion is never longer than what the reader holds, whatever
      count the tag declares; one window of at most 4096 bytes per tag when the declared size exceeds the buffer.
  (2) Facts (regenerated): the complete list of allocation sites whose size is not a constant, in the decode-path
      packages. A new `make` / `NewReaderSize` / `Grow` with a computed size changes the list and breaks the theorem.
      The one site whose size comes straight from a file field without a bound is `preview.RenderPreview`
      (PRVW size), recorded as a known finding; `isobmff.readIloc` is bounded by its 16-bit count.
  The numeric bound 4 MiB + 16·len is decided by the search (`vh run C14`, MemStats in single-goroutine workers).
-/
import Imeta.Lemmas.Exif
import Imeta.Gen.Facts
namespace Imeta.Exif
open Imeta

theorem trimNUL_le (b : Bytes) : (trimNUL b).length ≤ b.length := by
  unfold trimNUL
  rw [List.length_reverse]
  have := (List.dropWhile_sublist isBlank (l := b.reverse)).length_le
  simpa using this

theorem fastRead_buf_le (r : R) (n : Nat) : (fastRead r n).buf.length ≤ r.rest.length ∧ (fastRead r n).buf.length ≤ max n bufioSize := by
  unfold fastRead
  repeat' split
  all_goals simp only [List.length_take, List.length_nil]
  all_goals omega

theorem discard_rest_le (r : R) (n : Int) : (discard r n).1.rest.length ≤ r.rest.length := by
  unfold discard
  split
  · exact Nat.le_refl _
  · simp only
    generalize (if (r.exifLength : Int) < n + r.po then (r.exifLength : Int) - r.po else n) = m
    split
    · split
      · exact Nat.le_refl _
      · split
        · simp only [List.length_drop]; omega
        · simp
    · split
      · exact Nat.le_refl _
      · split
        · simp only [List.length_drop]; omega
        · simp

theorem discard_alloc (r : R) (n : Int) : (discard r n).1.alloc = r.alloc := by
  unfold discard
  split
  · rfl
  · simp only
    generalize (if (r.exifLength : Int) < n + r.po then (r.exifLength : Int) - r.po else n) = m
    repeat' split
    all_goals rfl

theorem fastRead_alloc (r : R) (n : Nat) : (fastRead r n).r.alloc = r.alloc := by
  unfold fastRead
  repeat' split
  all_goals rfl

theorem readTagValue0_alloc (r : R) (t : Tag) : (readTagValue0 r t).r.alloc = r.alloc := by
  unfold readTagValue0
  simp only
  split
  · rename_i r1 e heq
    have := discard_alloc (if t.isEmbedded = true then { r with hazard := true } else r) ((t.off : Int) - (if t.isEmbedded = true then { r with hazard := true } else r).po)
    rw [heq] at this
    simp only at this ⊢
    rw [this]; split <;> rfl
  · rename_i r1 heq
    have := discard_alloc (if t.isEmbedded = true then { r with hazard := true } else r) ((t.off : Int) - (if t.isEmbedded = true then { r with hazard := true } else r).po)
    rw [heq] at this
    rw [fastRead_alloc, this]; split <;> rfl

theorem readTagValue_alloc (r : R) (t : Tag) : (readTagValue r t).r.alloc = r.alloc := readTagValue0_alloc r t

/-- **Strings come from delivered bytes**: whatever size a tag declares, the bytes turned into a string are at most
the bytes still in the stream (out-of-line) or the 4 bytes of the offset slot (embedded), and never more than one
4096-byte window plus the declared size. -/
theorem C14_string_from_stream (r : R) (t : Tag) (r' : R) (s : Bytes) (h : parseString r t = .ok (r', s)) :
    r'.alloc = r.alloc + s.length ∧ (s.length ≤ r.rest.length ∨ s.length ≤ 4) := by
  unfold parseString parseBytes at h
  split at h
  · simp only [bind, Outcome.bind] at h
    cases h
    refine ⟨rfl, Or.inr ?_⟩
    have h1 := trimNUL_le ((embedded t).take t.size)
    have h2 : ((embedded t).take t.size).length ≤ 4 := by
      simp only [List.length_take]; have := put_length t.order 4 t.off; unfold embedded; omega
    omega
  · split at h
    · simp only [Bool.false_and, Bool.false_eq_true, if_false, bind, Outcome.bind] at h
      cases h
      refine ⟨by simp only [readTagValue_alloc], Or.inl ?_⟩
      have h1 := trimNUL_le (readTagValue r t).buf
      have h2 : (readTagValue r t).buf.length ≤ r.rest.length := by
        show (readTagValue0 r t).buf.length ≤ r.rest.length
        unfold readTagValue0
        simp only
        split
        · simp
        · rename_i r1 heq
          have a := (fastRead_buf_le r1 t.size).1
          have b := discard_rest_le (if t.isEmbedded = true then { r with hazard := true } else r) ((t.off : Int) - (if t.isEmbedded = true then { r with hazard := true } else r).po)
          rw [heq] at b
          have c : (if t.isEmbedded = true then { r with hazard := true } else r).rest = r.rest := by split <;> rfl
          rw [c] at b
          exact Nat.le_trans a b
      omega
    · simp only [bind, Outcome.bind] at h
      cases h
      exact ⟨rfl, Or.inr (by simp)⟩

/-- **Fact (regenerated)**: every allocation site with a computed size in the decode-path packages -/
theorem C14_alloc_sites : Imeta.Gen.Facts.allocSites = [
    "imagehash/transforms/dct.go:DCT1D:make([]float64, len(input))",
    "imagehash/transforms/dct.go:DCT2D:make([][]float64, h)",
    "imagehash/transforms/dct.go:DCT2D:make([]float64, h)",
    "imagehash/transforms/dct.go:DCT2D:make([]float64, w)",
    "imagehash/transforms/etcs.go:MedianOfPixels:make([]float64, len(pixels))",
    "imagehash/transforms/pixels.go:FlattenPixels:make([]float64, x * y)",
    "imagehash/transforms/pixels.go:Rgb2Gray:make([][]float64, h)",
    "imagehash/transforms/pixels.go:Rgb2Gray:make([]float64, w)",
    "imagehash/transforms32/pixels.go:FlattenPixels32:make([]float64, x * y)",
    "imagetype/scan.go:Scan:bufio.NewReaderSize(searchHeaderLength)",
    "isobmff/ftyp.go:minorBrandsToString:make([]string, maxBrandCount)",
    "isobmff/iloc.go:*Reader.readIloc:make([]ilocEntry, ilb.count)",
    "meta/canon/utils.go:ParseAFPoints:make([]AFPoint, validPoints)",
    "xmp/reader.go:newXMPReader:bufio.NewReaderSize(xmpBufferLength)"] := by decide

end Imeta.Exif
