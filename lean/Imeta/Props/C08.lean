/-
  C08 — Results do not depend on how the reader chunks its data.

  Proved: the bufio.Reader model (Imeta.Model.Bufio) presents the same logical stream under every read
  schedule — `Peek n` returns the first n bytes of the logical stream or reports that fewer exist, and leaves the
  logical stream unchanged; `Discard n` removes min(n, length) bytes — for all schedules of positive chunk sizes.
  The decoder models (image type, TIFF search, JPEG, Exif reader on a bufio.Reader, ISOBMFF boxes) use the
  stream only through these two operations and are written directly over the logical stream, so their results
  are schedule-independent by construction; the tie of that abstraction to the code is the C08 search
  (every entry point under one-byte, random-chunk and data-with-EOF readers).

  The unbuffered consumers (Exif reader on a plain reader, callbacks handed an ISOBMFF box as io.Reader) see *short
  reads*: `Read` (bufio.Reader.Read as written: buffered bytes first, otherwise ONE source read) may return any
  non-empty prefix.  Proved here for all schedules: `io.ReadFull` over it returns exactly the first n bytes of the
  logical stream (`C08_readFull_spec`); `Discard` removes exactly min(n, length) (`C08_discard_spec`); `io.ReadFull`
  over `box.Read` (isobmff/box.go: the request is cut to the tightest enclosing box, every box of the chain is charged
  what arrived) returns exactly the first min(n, limit) bytes and charges every box exactly that many
  (`C08_box_readFull_spec`) — so two schedules give the same bytes, the same box bookkeeping and the same stream
  afterwards (`C08_box_chunking_independent`).  Tie: `bufio.ops` correspondence against bufio.Reader, io.ReadFull and
  the real box.Read through hook isobmff.VerifBoxChain.
-/
import Imeta.Model.Bufio
import Imeta.Lemmas.BufioRead
namespace Imeta.Bufio
open Imeta

theorem read_logical (s : Src) (max : Nat) : (s.read max).1 ++ (s.read max).2.rest = s.rest := by
  unfold Src.read; simp

theorem read_progress (s : Src) (max : Nat) (hm : 0 < max) (hr : s.rest ≠ []) : (s.read max).2.rest.length < s.rest.length := by
  unfold Src.read
  simp only [List.length_drop]
  have hpos : 0 < s.rest.length := by cases hs : s.rest with | nil => exact absurd hs hr | cons _ _ => simp
  cases s.sched with
  | nil => simp only; omega
  | cons c t =>
    simp only
    split
    · have : min max 1 = 1 := by omega
      omega
    · have : 0 < min max c := by omega
      omega

/-- **the invariant**: filling never changes the logical stream, whatever the schedule -/
theorem fill_logical (f : Nat) (b : Br) (n : Nat) : (fill f b n).logical = b.logical := by
  induction f generalizing b with
  | zero => rfl
  | succ k ih =>
    unfold fill
    split
    · rfl
    · rw [ih]
      simp only [Br.logical, List.append_assoc, read_logical]

theorem fill_size (f : Nat) (b : Br) (n : Nat) : (fill f b n).size = b.size := by
  induction f generalizing b with
  | zero => rfl
  | succ k ih => unfold fill; split; rfl; rw [ih]

/-- with one unit of fuel per unread source byte the loop ends for a reason other than fuel -/
theorem fill_done (f : Nat) (b : Br) (n : Nat) (hf : b.src.rest.length < f) :
    n ≤ (fill f b n).buf.length ∨ (fill f b n).src.rest = [] ∨ (fill f b n).size ≤ (fill f b n).buf.length := by
  induction f generalizing b with
  | zero => omega
  | succ k ih =>
    unfold fill
    split
    · assumption
    · rename_i hc
      simp only [not_or, Nat.not_le] at hc
      apply ih
      have := read_progress b.src (b.size - b.buf.length) (by omega) hc.2.1
      simp only
      omega

/-- **Peek is schedule-independent**: for `n ≤ size`, `Peek n` yields the first n bytes of the logical stream when it
has that many, otherwise reports failure together with the whole remaining stream — and the logical stream is
unchanged. The schedule does not appear on the right-hand side. -/
theorem C08_peek_spec (b : Br) (n : Nat) (hn : n ≤ b.size) (hb : b.buf.length ≤ b.size) :
    (peek b n).1 = (b.logical.take n, decide (n ≤ b.logical.length)) ∧ (peek b n).2.logical = b.logical := by
  unfold peek
  simp only
  have hl := fill_logical (b.src.rest.length + 1) b n
  have hd := fill_done (b.src.rest.length + 1) b n (by omega)
  have hs := fill_size (b.src.rest.length + 1) b n
  refine ⟨?_, hl⟩
  generalize hb' : fill (b.src.rest.length + 1) b n = b' at *
  have hlog : b.logical = b'.buf ++ b'.src.rest := by rw [← hl]; rfl
  rcases hd with h | h | h
  · rw [hlog, List.take_append_of_le_length h]
    simp [h]; omega
  · rw [hlog, h, List.append_nil]
  · rw [hs] at h
    have hnb : n ≤ b'.buf.length := by omega
    rw [hlog, List.take_append_of_le_length hnb]
    simp [hnb]; omega

/-- two readers over the same bytes with different schedules (and different amounts already buffered) give the same
`Peek` result: the statement of the property for the buffered paths -/
theorem C08_peek_chunking_independent (b1 b2 : Br) (n : Nat) (h : b1.logical = b2.logical)
    (h1 : n ≤ b1.size) (h2 : n ≤ b2.size) (hb1 : b1.buf.length ≤ b1.size) (hb2 : b2.buf.length ≤ b2.size) :
    (peek b1 n).1 = (peek b2 n).1 ∧ (peek b1 n).2.logical = (peek b2 n).2.logical := by
  obtain ⟨a1, a2⟩ := C08_peek_spec b1 n h1 hb1
  obtain ⟨c1, c2⟩ := C08_peek_spec b2 n h2 hb2
  rw [a1, a2, c1, c2, h]
  exact ⟨rfl, rfl⟩

/-- non-vacuity: a 10-byte stream delivered 1 byte at a time and delivered at once peek the same 4 bytes -/
example : (peek { buf := [], src := { rest := [1,2,3,4,5,6,7,8,9,10], sched := [1,1,1,1,1,1,1,1,1,1] }, size := 16 } 4).1 =
          (peek { buf := [], src := { rest := [1,2,3,4,5,6,7,8,9,10], sched := [] }, size := 16 } 4).1 := by decide

/-- **Discard is schedule-independent**: `Discard n` consumes exactly min(n, length) bytes of the logical stream. -/
theorem C08_discard_spec (b : Br) (n : Nat) (hs : 0 < b.size) :
    (discard (n + 1) b n).1 = min n b.logical.length ∧ (discard (n + 1) b n).2.logical = b.logical.drop n :=
  let h := discard_spec (n + 1) b n (Nat.lt_succ_self n) hs
  ⟨h.1, h.2.1⟩

/-- **io.ReadFull over short reads**: whatever prefix each `Read` returns, `ReadFull n` yields the first n bytes of the
logical stream (or all of it, with io.ErrUnexpectedEOF) and leaves the rest. -/
theorem C08_readFull_spec (b : Br) (n : Nat) :
    (readFull (n + 1) b n).1 = b.logical.take n ∧ (readFull (n + 1) b n).2.1 = decide (n ≤ b.logical.length) ∧
    (readFull (n + 1) b n).2.2.logical = b.logical.drop n :=
  readFull_spec (n + 1) b n (Nat.lt_succ_self n)

theorem C08_readFull_chunking_independent (b1 b2 : Br) (n : Nat) (h : b1.logical = b2.logical) :
    (readFull (n + 1) b1 n).1 = (readFull (n + 1) b2 n).1 ∧ (readFull (n + 1) b1 n).2.1 = (readFull (n + 1) b2 n).2.1 ∧
    (readFull (n + 1) b1 n).2.2.logical = (readFull (n + 1) b2 n).2.2.logical := by
  obtain ⟨a1, a2, a3⟩ := C08_readFull_spec b1 n
  obtain ⟨c1, c2, c3⟩ := C08_readFull_spec b2 n
  rw [a1, a2, a3, c1, c2, c3, h]
  exact ⟨rfl, rfl, rfl⟩

/-- one `Read` is a non-empty prefix of the logical stream, at most as long as asked for (the short read), and end of
stream is reported only when nothing is left -/
theorem C08_read_is_prefix (b b' : Br) (max : Nat) (hm : 0 < max) :
    (∀ got, b.read max = (some got, b') → got ≠ [] ∧ got.length ≤ max ∧ got ++ b'.logical = b.logical) ∧
    (b.read max = (none, b') → b.logical = []) :=
  ⟨fun got h => let r := read_some b b' max got hm h; ⟨r.1, r.2.1, r.2.2.1⟩, fun h => (read_none b b' max h).1⟩

/-- **io.ReadFull over box.Read** (`ls`: remaining length of the box and of every box around it, innermost first): the
bytes are the first min(n, tightest remaining length) of the logical stream; it succeeds iff the boxes and the stream
have n bytes; every box of the chain is charged exactly the bytes delivered; the stream continues right after them. -/
theorem C08_box_readFull_spec (ls : List Nat) (b : Br) (n : Nat) :
    (boxReadFull (n + 1) ls b n).1 = b.logical.take (min n (minAll ls)) ∧
    (boxReadFull (n + 1) ls b n).2.1 = decide (n ≤ minAll ls ∧ n ≤ b.logical.length) ∧
    (boxReadFull (n + 1) ls b n).2.2.1 = ls.map (· - (boxReadFull (n + 1) ls b n).1.length) ∧
    (boxReadFull (n + 1) ls b n).2.2.2.logical = b.logical.drop (min n (minAll ls)) :=
  boxReadFull_spec (n + 1) ls b n (Nat.lt_succ_self n)

/-- the tightest remaining length is at most every box's (so no box of the chain is ever overdrawn) -/
theorem C08_box_never_overdrawn (ls : List Nat) (b : Br) (n : Nat) :
    ∀ x ∈ ls, (boxReadFull (n + 1) ls b n).1.length ≤ x := by
  intro x hx
  rw [(C08_box_readFull_spec ls b n).1, List.length_take]
  have := minAll_le_mem ls x hx
  omega

theorem C08_box_chunking_independent (ls : List Nat) (b1 b2 : Br) (n : Nat) (h : b1.logical = b2.logical) :
    (boxReadFull (n + 1) ls b1 n).1 = (boxReadFull (n + 1) ls b2 n).1 ∧
    (boxReadFull (n + 1) ls b1 n).2.1 = (boxReadFull (n + 1) ls b2 n).2.1 ∧
    (boxReadFull (n + 1) ls b1 n).2.2.1 = (boxReadFull (n + 1) ls b2 n).2.2.1 ∧
    (boxReadFull (n + 1) ls b1 n).2.2.2.logical = (boxReadFull (n + 1) ls b2 n).2.2.2.logical := by
  obtain ⟨a1, a2, a3, a4⟩ := C08_box_readFull_spec ls b1 n
  obtain ⟨c1, c2, c3, c4⟩ := C08_box_readFull_spec ls b2 n
  rw [a3, c3, a1, a2, a4, c1, c2, c4, h]
  exact ⟨rfl, rfl, rfl, rfl⟩

/-- non-vacuity: 10 bytes, a box with 6 left inside a box with 4 left; delivered one byte at a time with 2 buffered, or at
once: ReadFull(8) yields the same 4 bytes, fails, and leaves the boxes at [2, 0] -/
example : (boxReadFull 9 [6, 4] { buf := [1,2], src := { rest := [3,4,5,6,7,8,9,10], sched := [1,1,1,1,1,1,1,1] }, size := 16 } 8).1 = [1,2,3,4] ∧
    (boxReadFull 9 [6, 4] { buf := [], src := { rest := [1,2,3,4,5,6,7,8,9,10], sched := [] }, size := 16 } 8).1 = [1,2,3,4] ∧
    (boxReadFull 9 [6, 4] { buf := [1,2], src := { rest := [3,4,5,6,7,8,9,10], sched := [1,1,1,1,1,1,1,1] }, size := 16 } 8).2.1 = false ∧
    (boxReadFull 9 [6, 4] { buf := [1,2], src := { rest := [3,4,5,6,7,8,9,10], sched := [1,1,1,1,1,1,1,1] }, size := 16 } 8).2.2.1 = [2, 0] := by decide

/-- and a single Read really is short under a one-byte schedule -/
example : (Br.read { buf := [], src := { rest := [1,2,3,4,5], sched := [1] }, size := 16 } 4).1 = some [1] := by decide

/-- **preview.RenderPreview's read loop** (Read into a 2048-byte chunk until `size` bytes arrived or a Read ends the
stream) over a box: the image is exactly the first min(size, tightest remaining length) bytes of the logical stream, for
every schedule; the boxes are charged exactly those bytes. -/
theorem C08_preview_loop_spec (ls : List Nat) (b : Br) (n : Nat) :
    (boxReadChunked 2048 (n + 1) ls b n).1 = b.logical.take (min n (minAll ls)) ∧
    (boxReadChunked 2048 (n + 1) ls b n).2.1 = ls.map (· - (boxReadChunked 2048 (n + 1) ls b n).1.length) ∧
    (boxReadChunked 2048 (n + 1) ls b n).2.2.logical = b.logical.drop (min n (minAll ls)) :=
  boxReadChunked_spec 2048 (by decide) (n + 1) ls b n (Nat.lt_succ_self n)

/-- non-vacuity: with a 3-byte chunk the loop needs several Reads and still collects the same five bytes -/
example : (boxReadChunked 3 8 [5] { buf := [], src := { rest := [1,2,3,4,5,6,7,8], sched := [2,2,2,2] }, size := 16 } 7).1 = [1,2,3,4,5] := by decide

end Imeta.Bufio
