/-
  C13 — a whole rdf:Description: attributes and simple child elements together (Lemmas/XmpDesc.lean).
-/
import Imeta.Lemmas.XmpDesc
import Imeta.Props.C13d
namespace Imeta.Props.C13
open Imeta Imeta.Xmp

/-- **A Description with attributes and child elements is reported exactly.**  `ws0 <D attrs> wsV children ws2 </D>`: D a
property that is neither an array nor the root (rdf:Description); `attrs` a non-empty list of attributes `ns:name=q v q`,
each behind at least one white-space byte, either quote (`Attr.OK`); `children` a list of simple elements
`<ns:name>v</ns:name>` with any white space between them (`Elem.OK`); any white space before the stop tag.  One round of
readTag hands the parser layer exactly one token per attribute with a non-empty value and then one token per element —
parent D, property `identify ns name`, exactly the value — in document order, consumes exactly the element and goes on
behind it.  With `C13_attribute_element_same_tokens` this is the record-level statement for one Description: whichever
form the writer chose for each simple property, the value parsers receive the same (parent, property, value). -/
theorem C13_description_exact (parent : Tag) (st : St) (D : Name) (ws0 wsV X ws2 R : Bytes)
    (la : List (Bytes × Attr)) (le : List (Bytes × Elem)) (f : Nat)
    (hr : st.rest = ws0 ++ 60 :: ((D.n0 :: D.ns) ++ 58 :: (D.name ++ (ser la ++ 62 :: (wsV ++ 60 :: X)))))
    (hX : 60 :: X = serE le ++ (ws2 ++ D.closeT R))
    (hD : D.OK) (hDseq : (D.prop == rdfSeq || D.prop == rdfAlt || D.prop == rdfBag) = false) (hDroot : (D.prop == rootProp) = false)
    (hws0 : ∀ x ∈ ws0, (x == 60) = false) (hwin0 : ws0.length + 128 ≤ W)
    (hla : la ≠ []) (hoka : ∀ p ∈ la, (∀ x ∈ p.1, isWs x = true) ∧ p.1 ≠ [] ∧ p.2.OK)
    (hwsV : ∀ x ∈ wsV, isWs x = true) (hwinV : wsV.length < 512)
    (hoke : ∀ p ∈ le, (∀ x ∈ p.1, (x == 60) = false) ∧ p.1.length + 128 ≤ W ∧ p.2.OK)
    (hws2 : ∀ x ∈ ws2, (x == 60) = false) (hwin2 : ws2.length + 128 ≤ W) :
    readTag (f + 3 + le.length) parent st =
      readTag (f + 2 + le.length) parent { rest := R, a := false, toks := pushE D.prop le (pushAll D.prop la st.toks) } :=
  readTag_description_exact parent st D ws0 wsV X ws2 R la le f hr hX hD hDseq hDroot hws0 hwin0 hla hoka hwsV hwinV hoke hws2 hwin2

/-! non-vacuity: `<rdf:Description tiff:Make="Canon">\n <tiff:Model>EOS</tiff:Model>\n</rdf:Description>` -/
def nDesc : Name := { n0 := 114, ns := [100, 102], name := (s "Description") }
example : nDesc.OK ∧ (nDesc.prop == rdfSeq || nDesc.prop == rdfAlt || nDesc.prop == rdfBag) = false ∧ (nDesc.prop == rootProp) = false := by
  refine ⟨⟨by decide, by decide, by decide +kernel, by decide +kernel⟩, by decide +kernel, by decide +kernel⟩
example : [] ++ 60 :: ((nDesc.n0 :: nDesc.ns) ++ 58 :: (nDesc.name ++ (ser [([32], aMake)] ++ 62 :: ([10, 32] ++ (serE [([], eModel)] ++ ([10] ++ nDesc.closeT [])))))) =
    ("<rdf:Description tiff:Make=\"Canon\">\n <tiff:Model>EOS</tiff:Model>\n</rdf:Description>").toUTF8.toList := by decide +kernel
/-- the model run on those bytes: the attribute token, then the element token -/
example : ((readTag 6 {} { rest := ("<rdf:Description tiff:Make=\"Canon\">\n <tiff:Model>EOS</tiff:Model>\n</rdf:Description></rdf:RDF>").toUTF8.toList, a := false, toks := [] }).2.toks.reverse.map (fun t => (t.pt, t.parent == nDesc.prop, t.self, t.val))) =
    [(1, true, aMake.prop, [67, 97, 110, 111, 110]), (2, true, eModel.prop, [69, 79, 83])] := by decide +kernel

end Imeta.Props.C13
