/-
  C11 — ISOBMFF box containment: no read escapes its box; CR3 payloads and the HEIF Exif item (mdat) delivered whole.

  The model (Imeta/Model/Bmff.lean) is tied to isobmff/*.go by the correspondence on generated box trees
  (harness/cmd/vh/c11.go); the theorems below hold for every byte stream, every nesting and every size field.
-/
import Imeta.Lemmas.Bmff
import Imeta.Lemmas.BmffTotal
import Imeta.Lemmas.BmffIloc
namespace Imeta.Props.C11
open Imeta Imeta.Bmff

/-- the size a box header declares (what readBox / readInnerBox compute from the 16 peeked bytes) -/
def declSize (buf : Bytes) : Int :=
  if ((be32 buf : Nat) : Int) == 1 then toI64 (beNat ((buf.drop 8).take 8)) else ((be32 buf : Nat) : Int)

theorem peek16_top (s : St) (hs : s.chain = []) (hl : ¬ s.rest.length < 16) : peek 16 s = (.ok (s.rest.take 16), s) := by
  unfold peek
  simp [hs, chainOk]
  omega

theorem peek16_top_short (s : St) (hs : s.chain = []) (hl : s.rest.length < 16) : peek 16 s = (.err .eof, s) := by
  unfold peek
  simp [hs, chainOk]
  omega

/-- what one top-level call (ReadFTYP / ReadMetadata) may do to the stream, for ANY handler that works through the
box operations: it never passes the end the box header declares, and leaves no box open. -/
theorem top_box_contained (body : Bytes → M Unit) (hb : ∀ t, Pres (body t)) (s : St) (hs : s.chain = []) :
    (topBox body s).2.chain = [] ∧ s.pos ≤ (topBox body s).2.pos ∧
    ((topBox body s).2.pos : Int) ≤ s.pos + max (declSize (s.rest.take 16)) 0 ∧
    (topBox body s).2.pos + (topBox body s).2.rest.length = s.pos + s.rest.length := by
  unfold topBox
  by_cases hl : s.rest.length < 16
  · rw [bind_ok (attempt_err (peek16_top_short s hs hl))]
    refine ⟨?_, ?_, ?_, ?_⟩ <;> simp only [fail_run]
    · exact hs
    · exact Nat.le_refl _
    · omega
  rw [bind_ok (attempt_ok (peek16_top s hs hl))]
  try simp only []
  rw [bind_ok (show get s = (.ok s, s) from rfl)]
  try simp only []
  split
  · refine ⟨?_, ?_, ?_, ?_⟩ <;> simp only [fail_run]
    · exact hs
    · exact Nat.le_refl _
    · omega
  next hnl =>
  unfold openBox
  simp only []
  generalize hsz : (if (((be32 (List.take 16 s.rest) : Nat) : Int) == 1) = true then toI64 (beNat (List.take 8 (List.drop 8 (List.take 16 s.rest)))) else ((be32 (List.take 16 s.rest) : Nat) : Int)) = sz
  have hdecl : declSize (s.rest.take 16) = sz := by unfold declSize; exact hsz
  generalize hbx : ({ size := sz, remain := sz, offset := (s.pos : Int), flags := 0, typ := List.take 4 (List.drop 4 (List.take 16 s.rest)), lim := (s.pos : Int) + max sz 0 } : Box) = b
  generalize hs1 : ({ s with chain := b :: s.chain } : St) = s1
  have hc1 : s1.chain = [b] := by subst hs1; simp [hs]
  have hp1 : s1.pos = s.pos := by subst hs1; rfl
  have hr1 : s1.rest = s.rest := by subst hs1; rfl
  have hpres : Pres (do discard (if (((be32 (List.take 16 s.rest) : Nat) : Int) == 1) = true then 16 else 8); body (List.take 4 (List.drop 4 (List.take 16 s.rest)))) :=
    Pres.bind (Pres.discard _) (fun _ => hb _)
  unfold Pres at hpres
  have h1 := hpres s1 (by rw [hc1]; simp)
  generalize ((do discard (if (((be32 (List.take 16 s.rest) : Nat) : Int) == 1) = true then 16 else 8); body (List.take 4 (List.drop 4 (List.take 16 s.rest)))) : M Unit) s1 = r at h1
  have hwf1 : WF s1 := by
    intro y hy
    rw [hc1] at hy; simp at hy; subst hy
    unfold WFb; rw [hp1, ← hbx]; simp only; constructor <;> omega
  have hl2 := h1.lims
  unfold Bmff.lims at hl2
  rw [hc1] at hl2
  cases hc2 : r.2.chain with
  | nil => rw [hc2] at hl2; simp at hl2
  | cons x t =>
    rw [hc2] at hl2
    simp at hl2
    obtain ⟨hx, ht⟩ := hl2
    subst ht
    have hwx := h1.wf hwf1 x (by rw [hc2]; simp)
    unfold WFb at hwx
    have hblim : b.lim = (s.pos : Int) + max sz 0 := by rw [← hbx]
    refine ⟨by simp, by rw [← hp1]; exact h1.mono, ?_, by have := h1.cons; rw [hp1, hr1] at this; exact this⟩
    rw [hdecl]
    show (r.2.pos : Int) ≤ _
    omega

/-- …and when the call reports no error and the stream holds the whole box, it stands exactly at the end of the box
(the next top-level box). -/
theorem top_box_exact (body : Bytes → M Unit) (hb : ∀ t, Pres (body t)) (hcl : ∀ t, Closes (body t)) (s : St) (hs : s.chain = [])
    (hok : isOk (topBox body s).1) (hfit : declSize (s.rest.take 16) ≤ s.rest.length) :
    ((topBox body s).2.pos : Int) = s.pos + declSize (s.rest.take 16) := by
  unfold topBox at hok ⊢
  by_cases hl : s.rest.length < 16
  · rw [bind_ok (attempt_err (peek16_top_short s hs hl))] at hok
    exact absurd hok (by simp [isOk, fail_run])
  rw [bind_ok (attempt_ok (peek16_top s hs hl))] at hok ⊢
  try simp only [] at hok ⊢
  rw [bind_ok (show get s = (.ok s, s) from rfl)] at hok ⊢
  try simp only [] at hok ⊢
  split at hok
  · exact absurd hok (by simp [isOk, fail_run])
  next hnl =>
  rw [if_neg hnl]
  unfold openBox at hok ⊢
  simp only [] at hok ⊢
  generalize hsz : (if (((be32 (List.take 16 s.rest) : Nat) : Int) == 1) = true then toI64 (beNat (List.take 8 (List.drop 8 (List.take 16 s.rest)))) else ((be32 (List.take 16 s.rest) : Nat) : Int)) = sz at hok ⊢
  have hdecl : declSize (s.rest.take 16) = sz := by unfold declSize; exact hsz
  have hsz0 : 0 ≤ sz := by
    rw [← hsz]
    split
    · next h1 =>
      simp only [h1, Bool.true_and, decide_eq_true_eq] at hnl
      omega
    · omega
  generalize hbx : ({ size := sz, remain := sz, offset := (s.pos : Int), flags := 0, typ := List.take 4 (List.drop 4 (List.take 16 s.rest)), lim := (s.pos : Int) + max sz 0 } : Box) = b at hok ⊢
  generalize hs1 : ({ s with chain := b :: s.chain } : St) = s1 at hok ⊢
  have hc1 : s1.chain = [b] := by subst hs1; simp [hs]
  have hp1 : s1.pos = s.pos := by subst hs1; rfl
  have hr1 : s1.rest = s.rest := by subst hs1; rfl
  have hpres : Pres (do discard (if (((be32 (List.take 16 s.rest) : Nat) : Int) == 1) = true then 16 else 8); body (List.take 4 (List.drop 4 (List.take 16 s.rest)))) :=
    Pres.bind (Pres.discard _) (fun _ => hb _)
  have hcloses : Closes (do discard (if (((be32 (List.take 16 s.rest) : Nat) : Int) == 1) = true then 16 else 8); body (List.take 4 (List.drop 4 (List.take 16 s.rest)))) :=
    Closes.bind (fun _ => hcl _)
  unfold Pres at hpres
  unfold Closes at hcloses
  have h1 := hpres s1 (by rw [hc1]; simp)
  have h2 := hcloses s1
  generalize ((do discard (if (((be32 (List.take 16 s.rest) : Nat) : Int) == 1) = true then 16 else 8); body (List.take 4 (List.drop 4 (List.take 16 s.rest)))) : M Unit) s1 = r at h1 h2 hok
  obtain ⟨x, t, hc2, h0⟩ := h2 hok
  have hblim : b.lim = (s.pos : Int) + sz := by rw [← hbx]; simp only; omega
  have hbrem : b.remain = sz := by rw [← hbx]
  have hwf1 : WF s1 := by
    intro y hy
    rw [hc1] at hy; simp at hy; subst hy
    unfold WFb; rw [hp1, hblim, hbrem]; constructor <;> omega
  have ht1 : Tight s1 := by
    intro y hy
    rw [hc1] at hy; simp at hy; subst hy
    rw [hp1, hr1, hblim, hbrem]
    constructor <;> omega
  have hl2 := h1.lims
  unfold Bmff.lims at hl2
  rw [hc1, hc2] at hl2
  simp at hl2
  obtain ⟨hx, ht⟩ := hl2
  subst ht
  have := h1.tight hwf1 ht1 x (by rw [hc2]; rfl)
  rw [hdecl]
  show (r.2.pos : Int) = _
  omega

/-- Reader.ReadMetadata, for every stream: the call stays inside the top-level box it starts on. -/
theorem C11_readMetadata_contained (s : St) (hs : s.chain = []) :
    (readMetadata s).2.chain = [] ∧ s.pos ≤ (readMetadata s).2.pos ∧
    ((readMetadata s).2.pos : Int) ≤ s.pos + max (declSize (s.rest.take 16)) 0 :=
  let h := top_box_contained dispatch Pres.dispatch s hs
  ⟨h.1, h.2.1, h.2.2.1⟩

/-- Reader.ReadMetadata: without error, on a box the stream holds completely, the reader stands at the next box. -/
theorem C11_readMetadata_exact (s : St) (hs : s.chain = []) (hok : isOk (readMetadata s).1)
    (hfit : declSize (s.rest.take 16) ≤ s.rest.length) :
    ((readMetadata s).2.pos : Int) = s.pos + declSize (s.rest.take 16) :=
  top_box_exact dispatch Pres.dispatch Closes.dispatch s hs hok hfit

/-! ### payload delivery -/

theorem head_ok (s : St) (b : Box) (t : List Box) (hc : s.chain = b :: t) : head s = (.ok b, s) := by
  unfold head; rw [hc]

theorem subAll_cons (b : Box) (t : List Box) (m : Int) : subAll (b :: t) m = { b with remain := b.remain - m } :: subAll t m := rfl

theorem readExifHeader_ok (f : Nat) (s : St) (b : Box) (t : List Box) (n : Nat)
    (hc : s.chain = b :: t) (hn : b.remain = n) (h16 : 16 ≤ n) (hnest : ∀ o ∈ t, b.remain ≤ o.remain) (hlen : n ≤ s.rest.length) :
    readExifHeader f s =
      (.ok [f, (Tiff.binaryOrder (s.rest.take 16)).code, (Tiff.binaryOrder (s.rest.take 16)).uint (((s.rest.take 16).drop 4).take 4),
            ((n : Int) % 2 ^ 32).toNat, 0, 15],
       { s with chain := subAll s.chain 8, rest := s.rest.drop 8, pos := s.pos + 8 }) := by
  have hall : ∀ k : Nat, k ≤ 16 → ∀ o ∈ s.chain, (k : Int) ≤ o.remain := by
    intro k hk o ho
    rw [hc] at ho
    rcases List.mem_cons.mp ho with h | h
    · subst h; omega
    · have := hnest o h; omega
  unfold readExifHeader
  rw [show (16 : Int) = ((16 : Nat) : Int) from rfl, bind_ok (peek_ok s 16 (hall 16 (by omega)) (by omega) (by omega))]
  rw [bind_ok (head_ok s b t hc)]
  rw [show (8 : Int) = ((8 : Nat) : Int) from rfl, bind_ok (discard_ok s 8 (hall 8 (by omega)) (by omega))]
  rw [hn]
  rfl

/-- CMT1–CMT4: with draining callbacks on a well-nested box whose payload (n ≥ 16 bytes: the Tiff header and at
least one directory) is in the stream, the Exif callback is invoked exactly once, with the first directory that
belongs to the box type, the byte order and first-IFD offset of the payload's own Tiff header, the payload length, and a
reader that yields exactly the payload bytes after the 8-byte Tiff header; afterwards the box is consumed exactly. -/
theorem C11_cmt_delivery (f : Nat) (s : St) (b : Box) (t : List Box) (n : Nat)
    (hc : s.chain = b :: t) (hn : b.remain = n) (h16 : 16 ≤ n) (hnest : ∀ o ∈ t, b.remain ≤ o.remain) (hlen : n ≤ s.rest.length)
    (hcb : s.cfg.cb = .drain) (hex : s.cfg.hasExif = true) :
    ∃ s', readCMT f s = (.ok (), s') ∧
      s'.events = { kind := "exif",
                    nums := [f, (Tiff.binaryOrder (s.rest.take 16)).code, (Tiff.binaryOrder (s.rest.take 16)).uint (((s.rest.take 16).drop 4).take 4),
                             ((n : Int) % 2 ^ 32).toNat, 0, 15],
                    data := (s.rest.drop 8).take (n - 8) } :: s.events ∧
      s'.pos = s.pos + n ∧ s'.rest = s.rest.drop n ∧ s'.chain = subAll s.chain n := by
  unfold readCMT
  rw [bind_ok (readExifHeader_ok f s b t n hc hn h16 hnest hlen)]
  generalize hs1 : ({ s with chain := subAll s.chain 8, rest := s.rest.drop 8, pos := s.pos + 8 } : St) = s1
  have hc1 : s1.chain = { b with remain := b.remain - 8 } :: subAll t 8 := by subst hs1; simp only [hc, subAll_cons]
  have hcfg1 : s1.cfg = s.cfg := by subst hs1; rfl
  rw [bind_ok (show get s1 = (.ok s1, s1) from rfl)]
  simp only [hcfg1, hex, if_true]
  have hcbk := callback_drain "exif" [f, (Tiff.binaryOrder (s.rest.take 16)).code, (Tiff.binaryOrder (s.rest.take 16)).uint (((s.rest.take 16).drop 4).take 4),
      ((n : Int) % 2 ^ 32).toNat, 0, 15] s1 _ _ (n - 8) hc1 (by simp only; omega)
      (by intro o ho
          simp only [subAll, List.mem_map] at ho
          obtain ⟨o', ho', rfl⟩ := ho
          have := hnest o' ho'
          simp only; omega)
      (by subst hs1; simp only [List.length_drop]; omega) (by rw [hcfg1]; exact hcb)
  obtain ⟨s2, hs2, hcbk⟩ : ∃ s2, _ = s2 ∧ callback "exif" _ s1 = (.ok (), s2) := ⟨_, rfl, hcbk⟩
  rw [bind_ok (attempt_ok hcbk)]
  have hc2 : s2.chain = { b with remain := b.remain - 8 - ((n - 8 : Nat) : Int) } :: subAll (subAll t 8) ((n - 8 : Nat) : Int) := by
    subst hs2; simp only [hc1, subAll_cons]
  have hcl := close_noop s2 _ _ hc2 (by simp only; omega)
  refine ⟨s2, hcl, ?_, ?_, ?_, ?_⟩
  · subst hs2; subst hs1; rfl
  · subst hs2; subst hs1; simp only; omega
  · subst hs2; subst hs1; simp only [List.drop_drop]; congr 1; omega
  · subst hs2; subst hs1
    simp only [subAll, List.map_map]
    apply List.map_congr_left
    intro o _
    simp only [Function.comp]
    congr 1
    omega

/-- the xpacket uuid box: the XMP callback obtains exactly the bytes after the 16-byte uuid, and the box is consumed exactly -/
theorem C11_xpacket_delivery (s : St) (b : Box) (t : List Box) (n : Nat)
    (hc : s.chain = b :: t) (hn : b.remain = n) (h16 : 16 ≤ n) (hnest : ∀ o ∈ t, b.remain ≤ o.remain) (hlen : n ≤ s.rest.length)
    (huuid : s.rest.take 16 = uuidXPacket) (hcb : s.cfg.cb = .drain) (hx : s.cfg.hasXmp = true) :
    ∃ s', readUUIDBox s = (.ok (), s') ∧
      s'.events = { kind := "xmp", nums := [], data := (s.rest.drop 16).take (n - 16) } :: s.events ∧
      s'.pos = s.pos + n ∧ s'.rest = s.rest.drop n := by
  have hall : ∀ k : Nat, k ≤ 16 → ∀ o ∈ s.chain, (k : Int) ≤ o.remain := by
    intro k hk o ho
    rw [hc] at ho
    rcases List.mem_cons.mp ho with h | h
    · subst h; omega
    · have := hnest o h; omega
  unfold readUUIDBox
  rw [show (16 : Int) = ((16 : Nat) : Int) from rfl, bind_ok (attempt_ok (peek_ok s 16 (hall 16 (by omega)) (by omega) (by omega)))]
  simp only []
  rw [bind_ok (discard_ok s 16 (hall 16 (by omega)) (by omega))]
  generalize hs1 : ({ s with chain := subAll s.chain ((16 : Nat) : Int), rest := s.rest.drop 16, pos := s.pos + 16 } : St) = s1
  have hc1 : s1.chain = { b with remain := b.remain - ((16 : Nat) : Int) } :: subAll t ((16 : Nat) : Int) := by subst hs1; simp only [hc, subAll_cons]
  have hcfg1 : s1.cfg = s.cfg := by subst hs1; rfl
  rw [bind_ok (show get s1 = (.ok s1, s1) from rfl)]
  simp only [huuid, beq_self_eq_true, if_true, hcfg1, hx]
  have hcbk := callback_drain "xmp" [] s1 _ _ (n - 16) hc1 (by simp only; omega)
      (by intro o ho
          simp only [subAll, List.mem_map] at ho
          obtain ⟨o', ho', rfl⟩ := ho
          have := hnest o' ho'
          simp only; omega)
      (by subst hs1; simp only [List.length_drop]; omega) (by rw [hcfg1]; exact hcb)
  obtain ⟨s2, hs2, hcbk⟩ : ∃ s2, _ = s2 ∧ callback "xmp" _ s1 = (.ok (), s2) := ⟨_, rfl, hcbk⟩
  rw [bind_ok (attempt_ok hcbk)]
  simp only []
  have hc2 : s2.chain = { b with remain := b.remain - ((16 : Nat) : Int) - ((n - 16 : Nat) : Int) } :: subAll (subAll t ((16 : Nat) : Int)) ((n - 16 : Nat) : Int) := by
    subst hs2; simp only [hc1, subAll_cons]
  have hcl := close_noop s2 _ _ hc2 (by simp only; omega)
  refine ⟨s2, hcl, ?_, ?_, ?_⟩
  · subst hs2; subst hs1; rfl
  · subst hs2; subst hs1; simp only; omega
  · subst hs2; subst hs1; simp only [List.drop_drop]; congr 1; omega

theorem openBox_ok {α} (size remain offset : Int) (typ : Bytes) (body : M α) (s s2 : St) (a : α)
    (h : body { s with chain := { size := size, remain := remain, offset := offset, flags := 0, typ := typ, lim := (s.pos : Int) + max remain 0 } :: s.chain } = (.ok a, s2)) :
    openBox size remain offset typ body s = (.ok a, { s2 with chain := s2.chain.tail }) := by
  unfold openBox; simp only []; rw [h]

/-- inside the PRVW box (n bytes left, well nested, in the stream): the 24-byte header is read, the draining preview
callback obtains the remaining n - 24 bytes with the header's size / width / height fields, and the box is closed -/
theorem prvwBody_delivers (s : St) (inner : Box) (t : List Box) (N : Nat)
    (hc : s.chain = inner :: t) (hn : inner.remain = N) (hnest : ∀ o ∈ t, inner.remain ≤ o.remain)
    (h24 : 24 ≤ N) (hlen : N ≤ s.rest.length) (hcb : s.cfg.cb = .drain) (hp : s.cfg.hasPrvw = true) :
    ∃ s', prvwBody t_PRVW s = (.ok (.ok ()), s') ∧
      s'.events = { kind := "prvw",
                    nums := [beNat (((s.rest.take 24).drop 20).take 4), beNat (((s.rest.take 24).drop 14).take 2),
                             beNat (((s.rest.take 24).drop 16).take 2)],
                    data := (s.rest.drop 24).take (N - 24) } :: s.events ∧
      s'.pos = s.pos + N ∧ s'.rest = s.rest.drop N ∧ s'.chain.length = s.chain.length := by
  have hall : ∀ k : Nat, k ≤ N → ∀ o ∈ s.chain, (k : Int) ≤ o.remain := by
    intro k hk o ho
    rw [hc] at ho
    rcases List.mem_cons.mp ho with h | h
    · subst h; omega
    · have := hnest o h; omega
  unfold prvwBody
  simp only [bne_self_eq_false, Bool.false_eq_true, if_false]
  rw [show (24 : Int) = ((24 : Nat) : Int) from rfl, bind_ok (attempt_ok (peek_ok s 24 (hall 24 (by omega)) (by omega) (by omega)))]
  simp only []
  rw [bind_ok (attempt_ok (discard_ok s 24 (hall 24 (by omega)) (by omega)))]
  simp only []
  generalize hs3 : ({ s with chain := subAll s.chain ((24 : Nat) : Int), rest := s.rest.drop 24, pos := s.pos + 24 } : St) = s3
  have hc3 : s3.chain = { inner with remain := inner.remain - ((24 : Nat) : Int) } :: subAll t ((24 : Nat) : Int) := by
    subst hs3; simp only [hc, subAll_cons]
  have hcfg3 : s3.cfg = s.cfg := by subst hs3; rfl
  rw [bind_ok (show get s3 = (.ok s3, s3) from rfl)]
  simp only [hcfg3, hp, if_true]
  have hcbk := callback_drain "prvw" [beNat (((s.rest.take 24).drop 20).take 4), beNat (((s.rest.take 24).drop 14).take 2), beNat (((s.rest.take 24).drop 16).take 2)]
      s3 _ _ (N - 24) hc3 (by simp only; omega)
      (by intro o ho
          simp only [subAll, List.mem_map] at ho
          obtain ⟨o', ho', rfl⟩ := ho
          have := hnest o' ho'
          simp only; omega)
      (by subst hs3; simp only [List.length_drop]; omega) (by rw [hcfg3]; exact hcb)
  obtain ⟨s4, hs4, hcbk⟩ : ∃ s4, _ = s4 ∧ callback "prvw" _ s3 = (.ok (), s4) := ⟨_, rfl, hcbk⟩
  rw [bind_ok (attempt_ok hcbk)]
  have hc4 : s4.chain = { inner with remain := inner.remain - ((24 : Nat) : Int) - ((N - 24 : Nat) : Int) } :: subAll (subAll t ((24 : Nat) : Int)) ((N - 24 : Nat) : Int) := by
    subst hs4; simp only [hc3, subAll_cons]
  have hcl := close_noop s4 _ _ hc4 (by simp only; omega)
  rw [attempt_ok hcl]
  refine ⟨_, rfl, ?_, ?_, ?_, ?_⟩
  · subst hs4; subst hs3; rfl
  · subst hs4; subst hs3; simp only; omega
  · subst hs4; subst hs3; simp only [List.drop_drop]; congr 1; omega
  · rw [hc4, hc]; simp [subAll]

/-- **PRVW delivery.** The preview uuid box (after its 16-byte uuid): 8 bytes are skipped, the PRVW box header is read in
place, and the preview callback obtains exactly the bytes of the PRVW box after its 24-byte header, with the size, width
and height fields of that header; afterwards the PRVW box is consumed exactly. -/
theorem C11_prvw_delivery (s : St) (b : Box) (t : List Box) (R N : Nat)
    (hc : s.chain = b :: t) (hn : b.remain = R) (hnest : ∀ o ∈ t, b.remain ≤ o.remain)
    (hN : be32 ((s.rest.drop 8).take 8) = N) (h24 : 24 ≤ N) (hfit : 8 + N ≤ R) (hlen : 8 + N ≤ s.rest.length)
    (htyp : (((s.rest.drop 8).take 8).drop 4).take 4 = t_PRVW)
    (hcb : s.cfg.cb = .drain) (hp : s.cfg.hasPrvw = true) :
    ∃ s', readPreview s = (.ok (), s') ∧
      s'.events = { kind := "prvw",
                    nums := [beNat ((((s.rest.drop 8).take 24).drop 20).take 4), beNat ((((s.rest.drop 8).take 24).drop 14).take 2),
                             beNat ((((s.rest.drop 8).take 24).drop 16).take 2)],
                    data := (s.rest.drop 32).take (N - 24) } :: s.events ∧
      s'.pos = s.pos + 8 + N ∧ s'.rest = s.rest.drop (8 + N) := by
  have hall : ∀ k : Nat, k ≤ R → ∀ o ∈ s.chain, (k : Int) ≤ o.remain := by
    intro k hk o ho
    rw [hc] at ho
    rcases List.mem_cons.mp ho with h | h
    · subst h; omega
    · have := hnest o h; omega
  unfold readPreview
  rw [show (8 : Int) = ((8 : Nat) : Int) from rfl, bind_ok (attempt_ok (discard_ok s 8 (hall 8 (by omega)) (by omega)))]
  simp only []
  generalize hs1 : ({ s with chain := subAll s.chain ((8 : Nat) : Int), rest := s.rest.drop 8, pos := s.pos + 8 } : St) = s1
  have hc1 : s1.chain = { b with remain := b.remain - ((8 : Nat) : Int) } :: subAll t ((8 : Nat) : Int) := by subst hs1; simp only [hc, subAll_cons]
  have hr1 : s1.rest = s.rest.drop 8 := by subst hs1; rfl
  have hp1 : s1.pos = s.pos + 8 := by subst hs1; rfl
  have hcfg1 : s1.cfg = s.cfg := by subst hs1; rfl
  have hev1 : s1.events = s.events := by subst hs1; rfl
  have hall1 : ∀ k : Nat, k + 8 ≤ R → ∀ o ∈ s1.chain, (k : Int) ≤ o.remain := by
    intro k hk o ho
    rw [hc1] at ho
    rcases List.mem_cons.mp ho with h | h
    · subst h; simp only; omega
    · simp only [subAll, List.mem_map] at h
      obtain ⟨o', ho', rfl⟩ := h
      have := hnest o' ho'
      simp only; omega
  have hl1 : s1.rest.length = s.rest.length - 8 := by rw [hr1]; simp
  rw [bind_ok (attempt_ok (peek_ok s1 8 (hall1 8 (by omega)) (by omega) (by omega)))]
  simp only []
  rw [bind_ok (head_ok s1 _ _ hc1)]
  rw [hr1, hN, htyp]
  -- inside the PRVW box
  obtain ⟨s4, hbody, hev, hpos, hrest, hlen4⟩ := prvwBody_delivers
    { s1 with chain := { size := (N : Int), remain := (N : Int), offset := _, flags := 0, typ := t_PRVW, lim := (s1.pos : Int) + max (N : Int) 0 } :: s1.chain }
    _ s1.chain N rfl rfl (by intro o ho; exact hall1 N (by omega) o ho) h24 (by simp only [hl1]; omega) (by simp only [hcfg1]; exact hcb) (by simp only [hcfg1]; exact hp)
  rw [bind_ok (openBox_ok _ _ _ _ _ s1 s4 _ hbody)]
  simp only [pure_run]
  refine ⟨_, rfl, ?_, ?_, ?_⟩
  · simp only [hev, hr1, hev1, List.drop_drop]
  · simp only [hpos, hp1]
  · simp only [hrest, hr1, List.drop_drop]

/-- inside the Exif item box (L bytes left, well nested, in the stream; the item header of K+4 bytes and a Tiff header
with at least one directory fit): the item header is skipped, the Tiff header read, the draining Exif callback obtains
exactly the L-K-4-8 bytes after the Tiff header, and the box is used up -/
theorem mdatExifBody_delivers (s : St) (inner : Box) (t : List Box) (K L : Nat)
    (hc : s.chain = inner :: t) (hn : inner.remain = L) (hnest : ∀ o ∈ t, inner.remain ≤ o.remain)
    (hK : K + 4 + 16 ≤ L) (hlen : L ≤ s.rest.length) (hcb : s.cfg.cb = .drain) (hex : s.cfg.hasExif = true) :
    ∃ s', mdatExifBody K s = (.ok (Except.ok ()), s') ∧
      s'.events = { kind := "exif",
                    nums := [1, (Tiff.binaryOrder ((s.rest.drop (K + 4)).take 16)).code,
                             (Tiff.binaryOrder ((s.rest.drop (K + 4)).take 16)).uint ((((s.rest.drop (K + 4)).take 16).drop 4).take 4),
                             (((L - (K + 4) : Nat) : Int) % 2 ^ 32).toNat, 0, 15],
                    data := (s.rest.drop (K + 4 + 8)).take (L - (K + 4) - 8) } :: s.events ∧
      s'.pos = s.pos + L ∧ s'.rest = s.rest.drop L ∧ s'.chain = subAll s.chain L ∧ s'.exifOff = s.exifOff ∧ s'.cfg = s.cfg := by
  have hall : ∀ k : Nat, k ≤ L → ∀ o ∈ s.chain, (k : Int) ≤ o.remain := by
    intro k hk o ho
    rw [hc] at ho
    rcases List.mem_cons.mp ho with h | h
    · subst h; omega
    · have := hnest o h; omega
  unfold mdatExifBody
  rw [show ((K : Int) + 4) = ((K + 4 : Nat) : Int) by push_cast; rfl]
  rw [bind_ok (attempt_ok (discard_ok s (K + 4) (hall (K + 4) (by omega)) (by omega)))]
  simp only []
  generalize hs1 : ({ s with chain := subAll s.chain ((K + 4 : Nat) : Int), rest := s.rest.drop (K + 4), pos := s.pos + (K + 4) } : St) = s1
  have hc1 : s1.chain = { inner with remain := inner.remain - ((K + 4 : Nat) : Int) } :: subAll t ((K + 4 : Nat) : Int) := by
    subst hs1; simp only [hc, subAll_cons]
  have hr1 : s1.rest = s.rest.drop (K + 4) := by subst hs1; rfl
  have hp1 : s1.pos = s.pos + (K + 4) := by subst hs1; rfl
  have hcfg1 : s1.cfg = s.cfg := by subst hs1; rfl
  have hev1 : s1.events = s.events := by subst hs1; rfl
  have hx1 : s1.exifOff = s.exifOff := by subst hs1; rfl
  have hnest1 : ∀ o ∈ subAll t ((K + 4 : Nat) : Int), ({ inner with remain := inner.remain - ((K + 4 : Nat) : Int) } : Box).remain ≤ o.remain := by
    intro o ho
    simp only [subAll, List.mem_map] at ho
    obtain ⟨o', ho', rfl⟩ := ho
    have := hnest o' ho'
    simp only; omega
  have hl1 : s1.rest.length = s.rest.length - (K + 4) := by rw [hr1]; simp
  have hhdr := readExifHeader_ok 1 s1 _ _ (L - (K + 4)) hc1 (by simp only; omega) (by omega) hnest1 (by omega)
  rw [bind_ok (attempt_ok hhdr)]
  simp only []
  generalize hs2 : ({ s1 with chain := subAll s1.chain 8, rest := s1.rest.drop 8, pos := s1.pos + 8 } : St) = s2
  have hc2 : s2.chain = { inner with remain := inner.remain - ((K + 4 : Nat) : Int) - 8 } :: subAll (subAll t ((K + 4 : Nat) : Int)) 8 := by
    subst hs2; simp only [hc1, subAll_cons]
  have hcfg2 : s2.cfg = s.cfg := by subst hs2; exact hcfg1
  rw [bind_ok (show get s2 = (.ok s2, s2) from rfl)]
  simp only [hcfg2, hex, if_true]
  have hcbk := callback_drain "exif" [1, (Tiff.binaryOrder (s1.rest.take 16)).code, (Tiff.binaryOrder (s1.rest.take 16)).uint (((s1.rest.take 16).drop 4).take 4),
      (((L - (K + 4) : Nat) : Int) % 2 ^ 32).toNat, 0, 15] s2 _ _ (L - (K + 4) - 8) hc2 (by simp only; omega)
      (by intro o ho
          simp only [subAll, List.mem_map] at ho
          obtain ⟨o1, ⟨o', ho', rfl⟩, rfl⟩ := ho
          have := hnest o' ho'
          simp only; omega)
      (by subst hs2; simp only [List.length_drop, hl1]; omega) (by rw [hcfg2]; exact hcb)
  obtain ⟨s3, hs3, hcbk⟩ : ∃ s3, _ = s3 ∧ callback "exif" _ s2 = (.ok (), s3) := ⟨_, rfl, hcbk⟩
  rw [bind_ok (attempt_ok hcbk)]
  refine ⟨s3, rfl, ?_, ?_, ?_, ?_, ?_, ?_⟩
  · subst hs3; subst hs2; simp only [hr1, hev1, List.drop_drop]
  · subst hs3; subst hs2; simp only [hp1]; omega
  · subst hs3; subst hs2; simp only [hr1, List.drop_drop]; congr 1; omega
  · subst hs3; subst hs2; subst hs1
    simp only [subAll, List.map_map]
    apply List.map_congr_left
    intro o _
    simp only [Function.comp]
    congr 1
    omega
  · subst hs3; subst hs2; exact hx1
  · subst hs3; exact hcfg2

/-- **HEIF: the Exif item inside mdat is delivered exactly.**  In the mdat box (n bytes left, well nested, in the stream),
with the item location recorded from iloc (`exifOff`, `exifLen`; D = bytes between the reader and 16 bytes before the
item, L = the item's length, both inside the box), K = what the 16 bytes in front of the item say must be skipped
(`exifMarkerSkip`), and room for the item header and a Tiff header with one directory: the Exif callback is invoked
exactly once, with first directory IFD0, the byte order and first-IFD offset of the item's own Tiff header, the length
L-K-4, and a reader that yields exactly the item's bytes after that header; afterwards mdat is consumed exactly. -/
theorem C11_mdat_exif_delivery (s : St) (b : Box) (t : List Box) (n D L : Nat)
    (hc : s.chain = b :: t) (hn : b.remain = n) (hnest : ∀ o ∈ t, b.remain ≤ o.remain) (hlen : n ≤ s.rest.length)
    (hoff : s.exifOff ≠ 0) (hD : toI64 s.exifOff - b.offset - 16 = (D : Int)) (hL : toI64 s.exifLen = (L : Int))
    (hfit : D + L ≤ n) (hK : exifMarkerSkip ((s.rest.drop D).take 16) + 4 + 16 ≤ L)
    (hcb : s.cfg.cb = .drain) (hex : s.cfg.hasExif = true) :
    ∃ s', readMdat s = (.ok (), s') ∧
      s'.events = { kind := "exif",
                    nums := [1, (Tiff.binaryOrder ((s.rest.drop (D + (exifMarkerSkip ((s.rest.drop D).take 16) + 4))).take 16)).code,
                             (Tiff.binaryOrder ((s.rest.drop (D + (exifMarkerSkip ((s.rest.drop D).take 16) + 4))).take 16)).uint
                               ((((s.rest.drop (D + (exifMarkerSkip ((s.rest.drop D).take 16) + 4))).take 16).drop 4).take 4),
                             (((L - (exifMarkerSkip ((s.rest.drop D).take 16) + 4) : Nat) : Int) % 2 ^ 32).toNat, 0, 15],
                    data := (s.rest.drop (D + (exifMarkerSkip ((s.rest.drop D).take 16) + 4 + 8))).take (L - (exifMarkerSkip ((s.rest.drop D).take 16) + 4) - 8) } :: s.events ∧
      s'.pos = s.pos + n ∧ s'.rest = s.rest.drop n := by
  have hall : ∀ k : Nat, k ≤ n → ∀ o ∈ s.chain, (k : Int) ≤ o.remain := by
    intro k hk o ho
    rw [hc] at ho
    rcases List.mem_cons.mp ho with h | h
    · subst h; omega
    · have := hnest o h; omega
  unfold readMdat
  rw [bind_ok (show get s = (.ok s, s) from rfl)]
  have hne : (s.exifOff == 0) = false := by simp [hoff]
  simp only [hne, Bool.false_eq_true, if_false]
  rw [bind_ok (head_ok s b t hc), hD]
  rw [bind_ok (discard_ok s D (hall D (by omega)) (by omega))]
  generalize hs1 : ({ s with chain := subAll s.chain ((D : Nat) : Int), rest := s.rest.drop D, pos := s.pos + D } : St) = s1
  have hc1 : s1.chain = { b with remain := b.remain - ((D : Nat) : Int) } :: subAll t ((D : Nat) : Int) := by subst hs1; simp only [hc, subAll_cons]
  have hr1 : s1.rest = s.rest.drop D := by subst hs1; rfl
  have hp1 : s1.pos = s.pos + D := by subst hs1; rfl
  have hcfg1 : s1.cfg = s.cfg := by subst hs1; rfl
  have hev1 : s1.events = s.events := by subst hs1; rfl
  have hall1 : ∀ k : Nat, k + D ≤ n → ∀ o ∈ s1.chain, (k : Int) ≤ o.remain := by
    intro k hk o ho
    rw [hc1] at ho
    rcases List.mem_cons.mp ho with h | h
    · subst h; simp only; omega
    · simp only [subAll, List.mem_map] at h
      obtain ⟨o', ho', rfl⟩ := h
      have := hnest o' ho'
      simp only; omega
  have hl1 : s1.rest.length = s.rest.length - D := by rw [hr1]; simp
  rw [show (16 : Int) = ((16 : Nat) : Int) from rfl, bind_ok (peek_ok s1 16 (hall1 16 (by omega)) (by omega) (by omega))]
  rw [bind_ok (head_ok s1 _ _ hc1), hL, hr1]
  generalize hKdef : exifMarkerSkip ((s.rest.drop D).take 16) = K at hK ⊢
  -- inside the Exif item box
  obtain ⟨s4, hbody, hev, hpos, hrest, hchain, _, _⟩ := mdatExifBody_delivers
    { s1 with chain := { size := (L : Int), remain := (L : Int), offset := _, flags := 0, typ := t_Exif, lim := (s1.pos : Int) + max (L : Int) 0 } :: s1.chain }
    _ s1.chain K L rfl rfl (by intro o ho; exact hall1 L (by omega) o ho) hK (by simp only [hl1]; omega) (by simp only [hcfg1]; exact hcb) (by simp only [hcfg1]; exact hex)
  rw [bind_ok (openBox_ok _ _ _ _ _ s1 s4 _ hbody)]
  simp only []
  -- back in mdat: close discards what is left of it
  have hc5 : ({ s4 with chain := s4.chain.tail } : St).chain = { b with remain := b.remain - ((D : Nat) : Int) - (L : Int) } :: subAll (subAll t ((D : Nat) : Int)) (L : Int) := by
    simp only [hchain, hc1, subAll_cons, List.tail_cons]
  have hcl : ∃ s5, close { s4 with chain := s4.chain.tail } = (.ok (), s5) ∧ s5.events = s4.events ∧
      s5.pos = s4.pos + (n - D - L) ∧ s5.rest = s4.rest.drop (n - D - L) := by
    by_cases h0 : n - D - L = 0
    · refine ⟨_, close_noop _ _ _ hc5 (by simp only; omega), rfl, ?_, ?_⟩
      · rw [h0]; rfl
      · rw [h0]; rfl
    · have hd := discard_ok ({ s4 with chain := s4.chain.tail } : St) (n - D - L)
          (by intro o ho
              rw [hc5] at ho
              rcases List.mem_cons.mp ho with h | h
              · subst h; simp only; omega
              · simp only [subAll, List.mem_map] at h
                obtain ⟨o1, ⟨o', ho', rfl⟩, rfl⟩ := h
                have := hnest o' ho'
                simp only; omega)
          (by simp only [hrest, List.length_drop, hl1]; omega)
      obtain ⟨s5, hs5, hd⟩ : ∃ s5, _ = s5 ∧ Bmff.discard ((n - D - L : Nat) : Int) ({ s4 with chain := s4.chain.tail } : St) = (.ok (), s5) := ⟨_, rfl, hd⟩
      refine ⟨s5, ?_, ?_, ?_, ?_⟩
      · unfold Bmff.close
        rw [bind_ok (head_ok _ _ _ hc5)]
        have hz : ((b.remain - ((D : Nat) : Int) - (L : Int)) == 0) = false := by
          simp only [beq_eq_false_iff_ne, ne_eq]; omega
        simp only [hz, Bool.false_eq_true, if_false]
        rw [show b.remain - ((D : Nat) : Int) - (L : Int) = ((n - D - L : Nat) : Int) by omega]
        exact hd
      · subst hs5; rfl
      · subst hs5; rfl
      · subst hs5; rfl
  obtain ⟨s5, hcl5, hev5, hpos5, hrest5⟩ := hcl
  rw [hcl5]
  refine ⟨_, rfl, ?_, ?_, ?_⟩
  · simp only [hev5, hev, hr1, hev1, List.drop_drop]
  · simp only [hpos5, hpos, hp1]; omega
  · simp only [hrest5, hrest, hr1, List.drop_drop]; congr 1; omega

/-- non-vacuity: a 40-byte mdat payload whose Exif item (28 bytes: 4-byte item header, II Tiff header, one directory
slot) starts 16 bytes further on; the theorem's hypotheses hold and the callback gets the 16 bytes after the
Tiff header -/
def mdatSample : St :=
  { rest := [9,9,9,9,9,9,9,9, 9,9,9,9,9,9,9,9, 0,0,0,0, 73,73,42,0,8,0,0,0, 1,2,3,4,5,6,7,8,9,10,11,12,13,14,15,16, 7,7,7,7,7,7,7,7,7,7,7,7],
    pos := 8, chain := [{ size := 64, remain := 56, offset := 0, flags := 0, typ := t_mdat, lim := 64 }],
    exifId := 1, xmlId := 0, exifOff := 32, exifLen := 28, events := [], cfg := {} }
example : ∃ s', readMdat mdatSample = (.ok (), s') ∧
    s'.events = [{ kind := "exif", nums := [1, 1, 8, 24, 0, 15], data := [1,2,3,4,5,6,7,8,9,10,11,12,13,14,15,16] }] := by
  obtain ⟨s', h, hev, _, _⟩ := C11_mdat_exif_delivery mdatSample _ [] 56 16 28 rfl rfl (by intro o ho; cases ho) (by decide)
    (by decide) (by decide) (by decide) (by decide) (by decide) rfl rfl
  refine ⟨s', h, ?_⟩
  rw [hev]
  rfl

/-! ### HEIF: where the Exif item is — iinf and iloc decode what a well-formed file encodes -/

theorem ilocSpec_none (exifId : Nat) (ol : Nat × Nat) (l : List IlocEnt) (h : ∀ x ∈ l, x.id ≠ exifId) : ilocSpec exifId ol l = ol := by
  induction l generalizing ol with
  | nil => rfl
  | cons x t ih =>
    unfold ilocSpec
    have hx := h x (by simp)
    rw [show (x.id == exifId) = false by simp [hx]]
    exact ih ol (fun y hy => h y (by simp [hy]))

theorem ilocSpec_last (exifId : Nat) (ol : Nat × Nat) (pre post : List IlocEnt) (e : IlocEnt) (he : e.id = exifId)
    (hpost : ∀ x ∈ post, x.id ≠ exifId) : ilocSpec exifId ol (pre ++ e :: post) = (e.off, e.len) := by
  induction pre generalizing ol with
  | nil =>
    show ilocSpec exifId (if e.id == exifId then (e.off, e.len) else ol) post = _
    rw [show (e.id == exifId) = true by simp [he]]
    exact ilocSpec_none exifId _ post hpost
  | cons x t ih => exact ih _

/-- **iloc**: on the payload that encodes a list of single-extent items (any version, any valid field sizes, any number of
items), the entry walk of readIloc records the offset and length of the last item carrying the Exif item id.  (Single
extents only: the reader, and so the model, does not step over the further extents of an item; the facade decoders do not
use this path for HEIF — DecodeHeif searches for the Tiff header — see DESIGN.md 0.3.) -/
theorem C11_iloc_decode_encode (c : IlocCfg) (exifId xmlId : Nat) (pre post : List IlocEnt) (e : IlocEnt) (ol : Nat × Nat)
    (hok : ∀ x ∈ pre ++ e :: post, x.ok c) (he : e.id = exifId) (hpost : ∀ x ∈ post, x.id ≠ exifId) :
    ilocWalk c exifId xmlId (encIloc c (pre ++ e :: post)) ((encIloc c (pre ++ e :: post)).length / 6 + 1) 0 ol = (e.off, e.len) := by
  rw [ilocWalk_decode_encode c exifId xmlId _ ol hok]
  exact ilocSpec_last exifId ol pre post e he hpost

/-- **iinf**: on the payload that encodes a list of version-2 infe entries, the walk of readInfe records the ids of the last
"Exif" item and the last "mime" item (`infeSpec`) -/
theorem C11_infe_decode_encode (es : List InfeEnt) (ids : Nat × Nat) (hok : ∀ e ∈ es, e.ok) :
    infeWalk (encInfes es) ((encInfes es).length / 12 + 1) 0 ids = infeSpec ids es :=
  infeWalk_decode_encode es ids hok

/-- non-vacuity: three items (hvc1 #1, Exif #2, mime #3); the walks find Exif = 2, XMP = 3, and the location of item 2 -/
example : infeWalk (encInfes [⟨1, [104,118,99,49], []⟩, ⟨2, t_Exif, []⟩, ⟨3, t_mime, [120]⟩]) 10 0 (0, 0) = (2, 3) := by decide
example : ilocWalk ⟨1, 4, 4, 0⟩ 2 3 (encIloc ⟨1, 4, 4, 0⟩ [⟨1, 500, 9000⟩, ⟨2, 9500, 120⟩, ⟨3, 9620, 77⟩]) 10 0 (0, 0) = (9500, 120) := by decide

/-! ### any callback: whatever a callback does with the reader it is handed, it stays inside every open box -/

inductive Op where
  | peek (n : Nat) | discard (n : Nat) | read (n : Nat)

def runOp : Op → M Unit
  | .peek n => do let _ ← attempt (peek n); pure ()
  | .discard n => do let _ ← attempt (discard n); pure ()
  | .read n => do let _ ← readUpTo n; pure ()

def runOps : List Op → M Unit
  | [] => pure ()
  | o :: t => do runOp o; runOps t

theorem Pres.runOp (o : Op) : Pres (runOp o) := by
  cases o <;> (unfold Props.C11.runOp; pres)

theorem Pres.runOps (ops : List Op) : Pres (runOps ops) := by
  induction ops with
  | nil => exact Pres.pure ()
  | cons o t ih => unfold Props.C11.runOps; exact Pres.bind (Pres.runOp o) (fun _ => ih)

/-- For every program of Peek / Discard / Read calls (non-negative arguments) run against the innermost box, in any
state whose open boxes are within their declared ends: afterwards the reader is still within the declared end of
every open box — a child that overstates its size cannot make a read pass its parent. -/
theorem C11_any_callback_contained (ops : List Op) (s : St) (hne : s.chain ≠ []) (hw : WF s) :
    let s' := (runOps ops s).2
    (∀ b ∈ s'.chain, (s'.pos : Int) ≤ b.lim) ∧ s'.chain.map (·.lim) = s.chain.map (·.lim) ∧ s.pos ≤ s'.pos := by
  have h := Pres.runOps ops
  unfold Pres at h
  have r := h s hne
  exact ⟨fun b hb => (r.wf hw b hb).1, r.lims, r.mono⟩

/-! ### the box type decides the first directory -/

theorem C11_cmt_types :
    crxHandler (t_CMT1) = readCMT 1 ∧ crxHandler (t_CMT2) = readCMT 3 ∧
    crxHandler (t_CMT3) = readCMT 6 ∧ crxHandler (t_CMT4) = readCMT 4 := by
  refine ⟨?_, ?_, ?_, ?_⟩ <;> (unfold crxHandler; rfl)

/-! ### ReadFTYP -/

def ftypBody (typ : Bytes) : M Unit :=
  if typ != t_ftyp then fail .wrongBoxType
  else do
    let b ← head
    let _ ← peek b.remain
    close

theorem readFTYP_eq : readFTYP = topBox ftypBody := rfl

theorem Pres.ftypBody (t : Bytes) : Pres (ftypBody t) := by unfold Props.C11.ftypBody; pres
theorem Closes.ftypBody (t : Bytes) : Closes (ftypBody t) := by unfold Props.C11.ftypBody; closes

theorem C11_readFTYP_contained (s : St) (hs : s.chain = []) :
    (readFTYP s).2.chain = [] ∧ s.pos ≤ (readFTYP s).2.pos ∧
    ((readFTYP s).2.pos : Int) ≤ s.pos + max (declSize (s.rest.take 16)) 0 := by
  rw [readFTYP_eq]
  exact let h := top_box_contained ftypBody Pres.ftypBody s hs; ⟨h.1, h.2.1, h.2.2.1⟩

theorem C11_readFTYP_exact (s : St) (hs : s.chain = []) (hok : isOk (readFTYP s).1)
    (hfit : declSize (s.rest.take 16) ≤ s.rest.length) :
    ((readFTYP s).2.pos : Int) = s.pos + declSize (s.rest.take 16) := by
  rw [readFTYP_eq] at hok ⊢
  exact top_box_exact ftypBody Pres.ftypBody Closes.ftypBody s hs hok hfit

/-! ### totality: no panic outcome, no loop runs out of fuel -/

theorem NP.ftypBody (t : Bytes) : NP (ftypBody t) := by unfold Props.C11.ftypBody; np

/-- ReadMetadata and ReadFTYP of the model return (a value or an error) for every stream: `head` is only used inside a
box, and every inner-box loop ends within (unread bytes)/8 + 2 rounds because a round that goes on has consumed a box
header. -/
theorem C11_readMetadata_total (s : St) (hs : s.chain = []) : ¬ isPanic (readMetadata s).1 := readMetadata_total s hs

theorem C11_readFTYP_total (s : St) (hs : s.chain = []) : ¬ isPanic (readFTYP s).1 := by
  rw [readFTYP_eq]; exact topBox_total ftypBody NP.ftypBody s hs

/-! ### the hypotheses are satisfiable: concrete streams -/

def sampleFree : Bytes := [0, 0, 0, 12, 102, 114, 101, 101, 1, 2, 3, 4, 0, 0, 0, 8, 102, 114, 101, 101, 9, 9, 9, 9, 9, 9, 9, 9]

example : isOk (readMetadata (St.init sampleFree {})).1 ∧ declSize (sampleFree.take 16) = 12 ∧
    (readMetadata (St.init sampleFree {})).2.pos = 12 := by decide +kernel

/-- a moov box with the Canon uuid holding one CMT1 box with a 16-byte little-endian payload, then padding -/
def sampleCR3 : Bytes :=
  [0, 0, 0, 56, 109, 111, 111, 118,
   0, 0, 0, 48, 117, 117, 105, 100, 0x85, 0xc0, 0xb6, 0x87, 0x82, 0x0f, 0x11, 0xe0, 0x81, 0x11, 0xf4, 0xce, 0x46, 0x2b, 0x6a, 0x48,
   0, 0, 0, 24, 67, 77, 84, 49, 0x49, 0x49, 0x2a, 0, 8, 0, 0, 0, 1, 2, 3, 4, 5, 6, 7, 8,
   0, 0, 0, 16, 102, 114, 101, 101, 0, 0, 0, 0, 0, 0, 0, 0]

example : isOk (readMetadata (St.init sampleCR3 {})).1 ∧ (readMetadata (St.init sampleCR3 {})).2.pos = 56 ∧
    (readMetadata (St.init sampleCR3 {})).2.events.map (fun e => (e.kind, e.nums, e.data)) = [("exif", [1, 1, 8, 16, 0, 15], [1, 2, 3, 4, 5, 6, 7, 8])] := by
  decide +kernel

end Imeta.Props.C11
