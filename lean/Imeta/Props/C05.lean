/-
  C05 — Concurrent calls on independent inputs are race-free and match sequential runs.

  Proved, for every interleaving (induction over the schedule) of any number of threads executing the model of
  `getLocation`:
    * the lock invariant: the reader count equals the number of threads inside a read section, at most one
      thread holds the write lock, and no thread is inside a read section while the write lock is held — so the map
      is never written while another thread reads or writes it (data-race freedom at the level of the protocol);
    * every call that has returned returned the zone for the key it asked for — what it returns when run alone.
  Facts (regenerated): every mention of the cache map lies in a lock region of the right kind; every pooled object
  that is taken is put back by the same function (or handed to an owner with a Close); package-level configuration
  variables are written only by SetLogger / init.
  The Go memory model, sync.Pool and sync.RWMutex are trusted; the -race soak of `vh run C05` exercises real schedules.
-/
import Imeta.Model.Conc
import Imeta.Gen.Facts
namespace Imeta.Conc

theorem countP_set (p : Th → Bool) (l : List Th) (i : Nat) (t t' : Th) (h : l[i]? = some t) :
    countP p (l.set i t') + (if p t then 1 else 0) = countP p l + (if p t' then 1 else 0) := by
  induction l generalizing i with
  | nil => simp at h
  | cons x xs ih =>
    cases i with
    | zero =>
      simp only [List.getElem?_cons_zero, Option.some.injEq] at h
      subst h
      simp only [List.set_cons_zero, countP, List.filter_cons]
      cases p x <;> cases p t' <;> simp
    | succ k =>
      simp only [List.getElem?_cons_succ] at h
      have := ih k h
      simp only [List.set_cons_succ, countP, List.filter_cons] at this ⊢
      cases p x <;> simp <;> omega

theorem set_self (l : List Th) (i : Nat) (t : Th) (h : l[i]? = some t) : l.set i t = l := by
  induction l generalizing i with
  | nil => rfl
  | cons x xs ih =>
    cases i with
    | zero => simp at h; subst h; rfl
    | succ k => simp only [List.getElem?_cons_succ] at h; simp [ih k h]

theorem mem_set {t' x : Th} {l : List Th} {i : Nat} (hx : x ∈ l.set i t') : x = t' ∨ x ∈ l := by
  rcases List.mem_or_eq_of_mem_set hx with h | h
  · exact Or.inr h
  · exact Or.inl h

theorem countP_pos_of_mem (p : Th → Bool) (l : List Th) (t : Th) (hm : t ∈ l) (hp : p t = true) : 0 < countP p l := by
  unfold countP
  exact List.length_pos_of_mem (by simp [List.mem_filter, hm, hp] : t ∈ l.filter p)

/-- the bookkeeping shared by all cases: results of the other threads are untouched -/
theorem results_kept (s : St) (i : Nat) (t t' : Th) (hmem : t ∈ s.ths)
    (h4 : ∀ x ∈ s.ths, x.pc = .done → x.result = some x.key) (h5 : ∀ x ∈ s.ths, x.result = none ∨ x.result = some x.key)
    (hk : t'.key = t.key) (hd : t'.pc = .done → t'.result = some t'.key) (hr : t'.result = t.result ∨ t'.result = some t'.key) :
    (∀ x ∈ s.ths.set i t', x.pc = .done → x.result = some x.key) ∧ (∀ x ∈ s.ths.set i t', x.result = none ∨ x.result = some x.key) := by
  constructor
  · intro x hx hdn
    rcases mem_set hx with rfl | hx'
    · exact hd hdn
    · exact h4 x hx' hdn
  · intro x hx
    rcases mem_set hx with rfl | hx'
    · rcases hr with h | h
      · rw [h, hk]; exact h5 t hmem
      · exact Or.inr h
    · exact h5 x hx'

/-- **one step of any thread preserves the lock invariant** -/
theorem step_inv (s : St) (i : Nat) (h : Inv s) : Inv (step s i) := by
  unfold step
  cases hi : s.ths[i]? with
  | none => exact h
  | some t =>
    obtain ⟨h1, h2, h2b, h3, h4, h5⟩ := h
    have hmem : t ∈ s.ths := List.mem_of_getElem? hi
    have cr := fun t' => countP_set Th.reading s.ths i t t' hi
    have cw := fun t' => countP_set Th.writing s.ths i t t' hi
    have same : Inv { s with ths := s.ths.set i t } := by
      rw [set_self _ _ _ hi]; exact ⟨h1, h2, h2b, h3, h4, h5⟩
    simp only
    unfold Th.step
    cases hpc : t.pc with
    | start =>
      simp only
      split
      · exact same
      · rename_i hw
        have hw0 : s.writer = 0 := by omega
        have a := cr { t with pc := .rlocked }; have b := cw { t with pc := .rlocked }
        simp [Th.reading, Th.writing, hpc] at a b
        obtain ⟨r1, r2⟩ := results_kept s i t { t with pc := .rlocked } hmem h4 h5 rfl (by simp) (Or.inl rfl)
        refine ⟨?_, ?_, ?_, ?_, r1, r2⟩ <;> dsimp only <;> omega
    | rlocked =>
      simp only
      have a := cr { t with pc := .readDone (s.cache.contains t.key) }; have b := cw { t with pc := .readDone (s.cache.contains t.key) }
      simp [Th.reading, Th.writing, hpc] at a b
      obtain ⟨r1, r2⟩ := results_kept s i t { t with pc := .readDone (s.cache.contains t.key) } hmem h4 h5 rfl (by simp) (Or.inl rfl)
      refine ⟨?_, ?_, h2b, h3, r1, r2⟩ <;> dsimp only <;> simp only [List.contains_eq_mem] at a b ⊢ <;> omega
    | readDone hit =>
      simp only
      have hpos : 0 < countP Th.reading s.ths := countP_pos_of_mem _ _ t hmem (by simp [Th.reading, hpc])
      have hw0 : s.writer = 0 := by
        by_cases hh : s.writer = 0
        · exact hh
        · have := h3 hh; omega
      split
      · have a := cr { t with pc := .done, result := some t.key }; have b := cw { t with pc := .done, result := some t.key }
        simp [Th.reading, Th.writing, hpc] at a b
        obtain ⟨r1, r2⟩ := results_kept s i t { t with pc := .done, result := some t.key } hmem h4 h5 rfl (by simp) (Or.inr rfl)
        refine ⟨?_, ?_, ?_, ?_, r1, r2⟩ <;> dsimp only <;> omega
      · have a := cr { t with pc := .wantLock }; have b := cw { t with pc := .wantLock }
        simp [Th.reading, Th.writing, hpc] at a b
        obtain ⟨r1, r2⟩ := results_kept s i t { t with pc := .wantLock } hmem h4 h5 rfl (by simp) (Or.inl rfl)
        refine ⟨?_, ?_, ?_, ?_, r1, r2⟩ <;> dsimp only <;> omega
    | wantLock =>
      simp only
      split
      · exact same
      · rename_i hc
        have hw0 : s.writer = 0 := by omega
        have hr0 : s.readers = 0 := by omega
        have a := cr { t with pc := .locked }; have b := cw { t with pc := .locked }
        simp [Th.reading, Th.writing, hpc] at a b
        obtain ⟨r1, r2⟩ := results_kept s i t { t with pc := .locked } hmem h4 h5 rfl (by simp) (Or.inl rfl)
        refine ⟨?_, ?_, ?_, ?_, r1, r2⟩ <;> dsimp only <;> omega
    | locked =>
      simp only
      have a := cr { t with pc := .wrote }; have b := cw { t with pc := .wrote }
      simp [Th.reading, Th.writing, hpc] at a b
      obtain ⟨r1, r2⟩ := results_kept s i t { t with pc := .wrote } hmem h4 h5 rfl (by simp) (Or.inl rfl)
      refine ⟨?_, ?_, h2b, h3, r1, r2⟩ <;> dsimp only <;> omega
    | wrote =>
      simp only
      have hposw : 0 < countP Th.writing s.ths := countP_pos_of_mem _ _ t hmem (by simp [Th.writing, hpc])
      have hw1 : s.writer = 1 := by omega
      have hr0 : s.readers = 0 := h3 (by omega)
      have a := cr { t with pc := .done, result := some t.key }; have b := cw { t with pc := .done, result := some t.key }
      simp [Th.reading, Th.writing, hpc] at a b
      obtain ⟨r1, r2⟩ := results_kept s i t { t with pc := .done, result := some t.key } hmem h4 h5 rfl (by simp) (Or.inr rfl)
      refine ⟨?_, ?_, ?_, ?_, r1, r2⟩ <;> dsimp only <;> omega
    | done =>
      simp only
      exact same

theorem init_inv (keys cache : List Nat) : Inv (init keys cache) := by
  unfold Inv init
  refine ⟨?_, ?_, by simp, by simp, ?_, ?_⟩
  · simp only [countP]
    induction keys with
    | nil => rfl
    | cons k t ih => simpa [List.filter_cons, Th.reading] using ih
  · simp only [countP]
    induction keys with
    | nil => rfl
    | cons k t ih => simpa [List.filter_cons, Th.writing] using ih
  · intro t ht hd
    simp only [List.mem_map] at ht
    obtain ⟨k, _, rfl⟩ := ht
    simp at hd
  · intro t ht
    simp only [List.mem_map] at ht
    obtain ⟨k, _, rfl⟩ := ht
    exact Or.inl rfl

/-- **For every interleaving**: the invariant holds in every reachable state -/
theorem C05_invariant_all_schedules (keys cache : List Nat) (sched : List Nat) : Inv (run (init keys cache) sched) := by
  unfold run
  generalize hs : init keys cache = s0
  have h0 : Inv s0 := hs ▸ init_inv keys cache
  clear hs
  induction sched generalizing s0 with
  | nil => exact h0
  | cons i t ih => exact ih (step s0 i) (step_inv s0 i h0)

/-- **No data race on the map**: in every reachable state, a thread that holds the write lock (it is about to write or
has just written the map) excludes every thread inside a read section and every other writer. -/
theorem C05_no_race (keys cache : List Nat) (sched : List Nat) :
    let s := run (init keys cache) sched
    countP Th.writing s.ths ≤ 1 ∧ (0 < countP Th.writing s.ths → countP Th.reading s.ths = 0) := by
  obtain ⟨h1, h2, h2b, h3, _, _⟩ := C05_invariant_all_schedules keys cache sched
  simp only
  constructor
  · omega
  · intro hw
    rw [← h1]; exact h3 (by omega)

/-- **Each call returns what it returns when run alone**: the zone for the key it asked for, under every interleaving -/
theorem C05_result_is_sequential (keys cache : List Nat) (sched : List Nat) :
    ∀ t ∈ (run (init keys cache) sched).ths, t.pc = .done → t.result = some t.key :=
  (C05_invariant_all_schedules keys cache sched).2.2.2.2.1

/-- **Facts (regenerated)**: the cache map is mentioned only inside lock regions; pooled objects are put back -/
theorem C05_lock_regions : Imeta.Gen.Facts.lockFacts = ["exif2/time.go:getLocation:lock", "exif2/time.go:getLocation:rlock"] := by decide

theorem C05_pool_ownership : Imeta.Gen.Facts.poolFacts = [
    "exif2/reader.go:NewIfdReader:bufferPool:put=false",
    "imagehash/imagehash.go:NewPHash256:pixelsPool256:put=true",
    "imagehash/imagehash.go:NewPHash64:pixelsPool64:put=true",
    "imagehash/imagehash32.go:NewPHash256Alt:pixelsPool256Alt:put=true",
    "imagehash/imagehash32.go:NewPHash64Alt:pixelsPool32:put=true",
    "imagemeta.go:Decode:readerPool:put=true",
    "imagemeta.go:DecodeCR3:readerPool:put=true",
    "imagemeta.go:DecodeJPEG:readerPool:put=true",
    "imagemeta.go:DecodeTiff:readerPool:put=true",
    "imagemeta.go:PreviewCR3:readerPool:put=true",
    "isobmff/reader.go:NewReader:readerPool:put=false",
    "jpeg/jpeg.go:ScanJPEG:bufferPool:put=true"] := by decide

/-- non-vacuity: two threads asking for the same uncached key, interleaved so that both miss -/
example : ((run (init [7, 7] []) [0, 1, 0, 1, 0, 1, 0, 0, 0, 1, 1, 1]).ths.map (·.result)) = [some 7, some 7] := by decide

end Imeta.Conc
