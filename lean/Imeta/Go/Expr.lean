/-
  Shallow embedding of the Go expression fragment the translators emit:
  indexing and slicing that panic like Go, short-circuit && and ||, comparisons.
  Everything lives in the `Outcome` monad so that an out-of-range index is a
  visible `panic`, never a default value.
-/
import Imeta.Go.Basic
namespace Imeta

abbrev G := Outcome

/-- `b[i]` -/
def gidx (b : Bytes) (i : Nat) : G UInt8 :=
  match b[i]? with
  | some x => .ok x
  | none => .panic "index out of range"

/-- `b[lo:hi]` (strict: `hi ≤ len b`; see DESIGN section 4 on capacity) -/
def gslice (b : Bytes) (lo hi : Nat) : G Bytes :=
  if lo ≤ hi ∧ hi ≤ b.length then .ok ((b.drop lo).take (hi - lo)) else .panic "slice bounds out of range"

/-- `a && b` — `b` is evaluated only when `a` is true -/
def gand (a : G Bool) (b : Unit → G Bool) : G Bool :=
  a.bind fun x => if x then b () else .ok false

/-- `a || b` — `b` is evaluated only when `a` is false -/
def gor (a : G Bool) (b : Unit → G Bool) : G Bool :=
  a.bind fun x => if x then .ok true else b ()

def geq {α} [BEq α] (a b : G α) : G Bool := a.bind fun x => b.bind fun y => .ok (x == y)
def gne {α} [BEq α] (a b : G α) : G Bool := a.bind fun x => b.bind fun y => .ok (x != y)
def glt (a b : G Nat) : G Bool := a.bind fun x => b.bind fun y => .ok (decide (x < y))
def ggt (a b : G Nat) : G Bool := a.bind fun x => b.bind fun y => .ok (decide (x > y))
def gle (a b : G Nat) : G Bool := a.bind fun x => b.bind fun y => .ok (decide (x ≤ y))
def gge (a b : G Nat) : G Bool := a.bind fun x => b.bind fun y => .ok (decide (x ≥ y))

/-- `if c { t } ; e`  (statement-level conditional with a continuation) -/
def gif {α} (c : G Bool) (t : G α) (e : G α) : G α :=
  c.bind fun x => if x then t else e

/-! Evaluation lemmas used by the proofs about generated definitions. -/

@[simp] theorem Outcome.bind_ok {α β} (a : α) (f : α → Outcome β) : (Outcome.ok a).bind f = f a := rfl
@[simp] theorem Outcome.bind_panic {α β} (s : String) (f : α → Outcome β) :
    (Outcome.panic s : Outcome α).bind f = .panic s := rfl
@[simp] theorem Outcome.bind_err {α β} (k : ErrKind) (f : α → Outcome β) :
    (Outcome.err k : Outcome α).bind f = .err k := rfl

@[simp] theorem gand_ok (a b : Bool) : gand (.ok a) (fun _ => .ok b) = .ok (a && b) := by
  cases a <;> rfl
@[simp] theorem gor_ok (a b : Bool) : gor (.ok a) (fun _ => .ok b) = .ok (a || b) := by
  cases a <;> rfl
@[simp] theorem geq_ok {α} [BEq α] (x y : α) : geq (.ok x) (.ok y) = .ok (x == y) := rfl
@[simp] theorem gne_ok {α} [BEq α] (x y : α) : gne (.ok x) (.ok y) = .ok (x != y) := rfl
@[simp] theorem glt_ok (x y : Nat) : glt (.ok x) (.ok y) = .ok (decide (x < y)) := rfl
@[simp] theorem ggt_ok (x y : Nat) : ggt (.ok x) (.ok y) = .ok (decide (x > y)) := rfl
@[simp] theorem gle_ok (x y : Nat) : gle (.ok x) (.ok y) = .ok (decide (x ≤ y)) := rfl
@[simp] theorem gge_ok (x y : Nat) : gge (.ok x) (.ok y) = .ok (decide (x ≥ y)) := rfl
@[simp] theorem gif_ok {α} (c : Bool) (t e : G α) : gif (.ok c) t e = if c then t else e := by
  cases c <;> rfl

theorem gidx_ok (b : Bytes) (i : Nat) (h : i < b.length) : gidx b i = .ok b[i] := by
  simp [gidx, List.getElem?_eq_getElem h]

theorem gslice_ok (b : Bytes) (lo hi : Nat) (h1 : lo ≤ hi) (h2 : hi ≤ b.length) :
    gslice b lo hi = .ok ((b.drop lo).take (hi - lo)) := by
  simp [gslice, h1, h2]

end Imeta
