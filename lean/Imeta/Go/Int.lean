/-
  Typed-integer / string / table semantics for the loop-free Go fragment emitted
  by tools/cmd/gotypes2lean.  Integers are Lean `Int`s; every arithmetic result
  is wrapped to the static Go type of the expression, so overflow behaves as in
  Go.  Indexing and slicing panic exactly where Go does.
-/
import Imeta.Go.Expr
namespace Imeta

/-- width and signedness of a Go integer type -/
structure IKind where
  bits : Nat
  signed : Bool
  deriving DecidableEq, Repr

def IKind.u8 : IKind := ⟨8, false⟩
def IKind.u16 : IKind := ⟨16, false⟩
def IKind.u32 : IKind := ⟨32, false⟩
def IKind.u64 : IKind := ⟨64, false⟩
def IKind.i8 : IKind := ⟨8, true⟩
def IKind.i16 : IKind := ⟨16, true⟩
def IKind.i32 : IKind := ⟨32, true⟩
def IKind.i64 : IKind := ⟨64, true⟩

/-- reduce an integer to the range of the type (two's complement wrap-around) -/
def wrap (k : IKind) (x : Int) : Int :=
  if k.signed then (x + 2 ^ (k.bits - 1)) % 2 ^ k.bits - 2 ^ (k.bits - 1)
  else x % 2 ^ k.bits

def IKind.lo (k : IKind) : Int := if k.signed then -(2 ^ (k.bits - 1)) else 0
def IKind.hi (k : IKind) : Int := if k.signed then 2 ^ (k.bits - 1) - 1 else 2 ^ k.bits - 1
def IKind.inRange (k : IKind) (x : Int) : Prop := k.lo ≤ x ∧ x ≤ k.hi

/-- `x / y` (truncated; panics on zero divisor) -/
def gdiv (k : IKind) (x y : Int) : G Int :=
  if y = 0 then .panic "integer divide by zero" else .ok (wrap k (Int.tdiv x y))
/-- `x % y` -/
def gmod (k : IKind) (x y : Int) : G Int :=
  if y = 0 then .panic "integer divide by zero" else .ok (wrap k (Int.tmod x y))

/-- `x << n` -/
def gshl (k : IKind) (x n : Int) : G Int :=
  if n < 0 then .panic "negative shift amount" else .ok (wrap k (x * 2 ^ n.toNat))
/-- `x >> n` (arithmetic for signed, logical for unsigned: both are floor division) -/
def gshr (x n : Int) : G Int :=
  if n < 0 then .panic "negative shift amount" else .ok (x / 2 ^ n.toNat)

/-- unsigned image of x in k bits -/
def toU (k : IKind) (x : Int) : Nat := (x % 2 ^ k.bits).toNat
def gand2 (k : IKind) (x y : Int) : Int := wrap k (Int.ofNat (Nat.land (toU k x) (toU k y)))
def gor2 (k : IKind) (x y : Int) : Int := wrap k (Int.ofNat (Nat.lor (toU k x) (toU k y)))
def gxor2 (k : IKind) (x y : Int) : Int := wrap k (Int.ofNat (Nat.xor (toU k x) (toU k y)))
/-- `x &^ y` -/
def gandnot2 (k : IKind) (x y : Int) : Int :=
  wrap k (Int.ofNat (Nat.land (toU k x) (Nat.xor (toU k y) (2 ^ k.bits - 1))))

/-- `s[i]` on a string or byte slice, as an integer -/
def gbyteAt (s : Bytes) (i : Int) : G Int :=
  if i < 0 then .panic "index out of range"
  else match s[i.toNat]? with
    | some b => .ok (Int.ofNat b.toNat)
    | none => .panic "index out of range"

/-- `a[i]` on an array or slice of integers -/
def glistAt (a : List Int) (i : Int) : G Int :=
  if i < 0 then .panic "index out of range"
  else match a[i.toNat]? with
    | some v => .ok v
    | none => .panic "index out of range"

/-- `s[lo:hi]` with integer bounds -/
def gsliceI (s : Bytes) (lo hi : Int) : G Bytes :=
  if 0 ≤ lo ∧ lo ≤ hi ∧ hi ≤ Int.ofNat s.length then .ok ((s.drop lo.toNat).take (hi.toNat - lo.toNat))
  else .panic "slice bounds out of range"

/-- `m[k]` on a map literal (first binding wins; Go rejects duplicate constant keys) -/
def gmapGet {κ ν} [BEq κ] (m : List (κ × ν)) (k : κ) : Option ν :=
  match m with
  | [] => none
  | (k', v) :: rest => if k' == k then some v else gmapGet rest k

/-- `fmt.Sprintf(s)` with no operands: the string itself when it has no verb.
A '%' in the format is outside the model. -/
def gsprintf0 (s : Bytes) : G Bytes :=
  if s.contains 0x25 then .err .other else .ok s

def hexDigitLower (n : Nat) : UInt8 := if n < 10 then UInt8.ofNat (48 + n) else UInt8.ofNat (87 + n)

/-- lower-case hex digits of n, most significant first, at least `width` digits (zero padded) -/
def hexDigits : Nat → Nat → Nat → Bytes
  | 0, _, _ => []
  | fuel+1, n, width =>
    if n < 16 ∧ width ≤ 1 then [hexDigitLower n]
    else hexDigits fuel (n / 16) (width - 1) ++ [hexDigitLower (n % 16)]

/-- `fmt.Sprintf("%x", n)` / `"%04x"` for a non-negative n -/
def gfmtHex (n : Int) (width : Nat) : Bytes := hexDigits 20 n.toNat width

/-- decimal digits of a natural number -/
def decDigits : Nat → Nat → Bytes
  | 0, _ => []
  | fuel+1, n => if n < 10 then [UInt8.ofNat (48 + n)] else decDigits fuel (n / 10) ++ [UInt8.ofNat (48 + n % 10)]

/-- strconv.AppendInt(nil, n, 10) / Itoa -/
def gitoa (n : Int) : Bytes :=
  if n < 0 then 0x2d :: decDigits 25 (-n).toNat else decDigits 25 n.toNat

/-- strings.ToLower restricted to ASCII (the tables are ASCII) -/
def gtoLowerASCII (s : Bytes) : Bytes := s.map fun c => if 0x41 ≤ c ∧ c ≤ 0x5a then c + 0x20 else c

end Imeta
