/-
  Go semantics shared by every model: bytes, byte order, outcomes.
  Core Lean only (no Mathlib) so the driver links as a native executable.
-/
namespace Imeta

abbrev Bytes := List UInt8

/-- Error kinds: the small enum every Go error is canonicalised to. -/
inductive ErrKind where
  | noExif | dataLength | eof | unexpectedEOF | bufferFull | negativeCount
  | remainInsufficient | bufLength | wrongBoxType | largeBox | typeNotFound
  | notSupported | noJPEGMarker | endOfImage | recovered | other
  deriving DecidableEq, Repr, Inhabited

def ErrKind.name : ErrKind → String
  | .noExif => "NoExif" | .dataLength => "DataLength" | .eof => "EOF"
  | .unexpectedEOF => "UnexpectedEOF" | .bufferFull => "BufferFull"
  | .negativeCount => "NegativeCount" | .remainInsufficient => "RemainInsufficient"
  | .bufLength => "BufLength" | .wrongBoxType => "WrongBoxType" | .largeBox => "LargeBox"
  | .typeNotFound => "TypeNotFound" | .notSupported => "NotSupported"
  | .noJPEGMarker => "NoJPEGMarker" | .endOfImage => "EndOfImage"
  | .recovered => "Recovered" | .other => "Other"

/-- What a piece of Go code can do: return, return an error, panic, or not finish
within the fuel the model was given. -/
inductive Outcome (α : Type) where
  | ok (a : α)
  | err (k : ErrKind)
  | panic (site : String)
  | fuel
  deriving Repr, DecidableEq

namespace Outcome
def isPanic {α} : Outcome α → Bool | .panic _ => true | _ => false
def isFuel {α} : Outcome α → Bool | .fuel => true | _ => false
def bind {α β} (x : Outcome α) (f : α → Outcome β) : Outcome β :=
  match x with
  | .ok a => f a | .err k => .err k | .panic s => .panic s | .fuel => .fuel
instance : Monad Outcome where
  pure := .ok
  bind := Outcome.bind
end Outcome

/-- Byte order as in meta/utils: 0 unknown, 1 little, 2 big. -/
inductive ByteOrder where | unknown | little | big
  deriving DecidableEq, Repr, Inhabited

def ByteOrder.code : ByteOrder → Nat | .unknown => 0 | .little => 1 | .big => 2

/-- little-endian value of a byte list (any length) -/
def leNat : Bytes → Nat
  | [] => 0
  | b :: t => b.toNat + 256 * leNat t

/-- big-endian value of a byte list (any length) -/
def beNat (b : Bytes) : Nat := leNat b.reverse

/-- `ByteOrder.Uint16/32/64`: Go treats everything that is not BigEndian as little. -/
def ByteOrder.uint (o : ByteOrder) (b : Bytes) : Nat :=
  match o with
  | .big => beNat b
  | _ => leNat b

/-- n-byte little-endian encoding of v (mod 256^n) -/
def leBytes : Nat → Nat → Bytes
  | 0, _ => []
  | n+1, v => UInt8.ofNat (v % 256) :: leBytes n (v / 256)

def beBytes (n v : Nat) : Bytes := (leBytes n v).reverse

def ByteOrder.put (o : ByteOrder) (n v : Nat) : Bytes :=
  match o with
  | .big => beBytes n v
  | _ => leBytes n v

theorem leBytes_length (n v : Nat) : (leBytes n v).length = n := by
  induction n generalizing v with
  | zero => rfl
  | succ n ih => simp [leBytes, ih]

theorem leNat_leBytes (n v : Nat) : leNat (leBytes n v) = v % 256 ^ n := by
  induction n generalizing v with
  | zero => simp [leBytes, leNat, Nat.mod_one]
  | succ n ih =>
    simp only [leBytes, leNat, ih]
    have h : (UInt8.ofNat (v % 256)).toNat = v % 256 := by
      simp [UInt8.toNat_ofNat']
    rw [h, Nat.pow_succ, Nat.mul_comm (256 ^ n) 256, Nat.mod_mul]

theorem beNat_beBytes (n v : Nat) : beNat (beBytes n v) = v % 256 ^ n := by
  simp [beNat, beBytes, leNat_leBytes]

/-- round trip for both orders: what `Uint32(PutUint32 v)` gives -/
theorem ByteOrder.uint_put (o : ByteOrder) (n v : Nat) : o.uint (o.put n v) = v % 256 ^ n := by
  cases o <;> simp [ByteOrder.uint, ByteOrder.put, leNat_leBytes, beNat_beBytes]

/-! ### length tests that do not walk the whole list when compiled -/

/-- `b.length < n`. Compiled code uses `lenLtFast` (proved equal below), which looks at no
more than `n` cells; models use this in loops over long inputs. -/
def lenLt (b : Bytes) (n : Nat) : Bool := decide (b.length < n)

def lenLtFast : Bytes → Nat → Bool
  | _, 0 => false
  | [], _+1 => true
  | _ :: t, n+1 => lenLtFast t n

@[csimp] theorem lenLt_eq_fast : @lenLt = @lenLtFast := by
  funext b n
  induction b generalizing n with
  | nil => cases n <;> simp [lenLt, lenLtFast]
  | cons x t ih =>
    cases n with
    | zero => simp [lenLt, lenLtFast]
    | succ n => simp [lenLtFast, ← ih, lenLt]

@[simp] theorem lenLt_iff (b : Bytes) (n : Nat) : lenLt b n = true ↔ b.length < n := by simp [lenLt]

/-! ### hex, for the driver line protocol -/

def hexDigit (c : Char) : Option Nat :=
  if '0' ≤ c ∧ c ≤ '9' then some (c.toNat - '0'.toNat)
  else if 'a' ≤ c ∧ c ≤ 'f' then some (c.toNat - 'a'.toNat + 10)
  else if 'A' ≤ c ∧ c ≤ 'F' then some (c.toNat - 'A'.toNat + 10)
  else none

def parseHexAux : List Char → Bytes → Option Bytes
  | [], acc => some acc.reverse
  | [_], _ => none
  | a :: b :: t, acc =>
    match hexDigit a, hexDigit b with
    | some x, some y => parseHexAux t (UInt8.ofNat (16 * x + y) :: acc)
    | _, _ => none

/-- "-" stands for the empty byte string -/
def parseHex (s : String) : Option Bytes :=
  if s == "-" then some [] else parseHexAux s.toList []

def hexChar (n : Nat) : Char :=
  if n < 10 then Char.ofNat (n + 48) else Char.ofNat (n + 87)

def toHex (b : Bytes) : String :=
  if b.isEmpty then "-" else
  String.ofList (b.foldr (fun x acc => hexChar (x.toNat / 16) :: hexChar (x.toNat % 16) :: acc) [])

end Imeta
