/-
  The make / model normalisation tables of the Exif model, instantiated from the GENERATED tables
  (Imeta.Gen.ExifTables, regenerated from /repo on every run), and the tie of the hand-written type-size /
  validity functions to the generated ones.
-/
import Imeta.Model.ExifReader
import Imeta.Gen.ExifTables
namespace Imeta.Exif
open Imeta Imeta.Gen.ExifTables

def okBytes : G Bytes → Bytes | .ok b => b | _ => []

def tables : Tables where
  makeOfString s := (gmapGet exif2_ifds_mapStringCameraMake_data s).map Int.toNat
  makeName mk := okBytes (exif2_ifds_CameraMake_String mk)
  canonModel s := (gmapGet exif2_ifds_mknote_canon_mapStringCameraModel_data s).map fun m =>
    (m.toNat, okBytes (exif2_ifds_mknote_canon_CameraModel_String m))
  appleModel s := (gmapGet exif2_ifds_mknote_apple_mapAppleCameraModel_data s).map fun m =>
    (m.toNat, okBytes (exif2_ifds_mknote_apple_CameraModel_String m))

/-- tie: the hand-written `typeSize` / `typeValid` agree with the generated `tag.Type.Size` / `IsValid` on the
whole 8-bit domain -/
theorem typeSize_eq_gen : ∀ t : Fin 256, exif2_tag_Type_Size (t.val : Int) = .ok (typeSize t.val : Int) := by decide +kernel
theorem typeValid_eq_gen : ∀ t : Fin 256, exif2_tag_Type_IsValid (t.val : Int) = .ok (typeValid t.val) := by decide +kernel

end Imeta.Exif
