/-
  C05 — interleaving model of exif2.getLocation (the only shared mutable state on the decode paths besides the
  sync.Pools): N threads, each executing
      RLock; lookup; RUnlock; (if miss:) Lock; insert; Unlock
  against one map guarded by an RWMutex.  One `step s i` lets thread `i` take its next atomic step if the lock
  allows it (otherwise the state is unchanged: the thread is blocked).
-/
namespace Imeta.Conc

inductive Pc where
  | start            -- before RLock
  | rlocked          -- holds the read lock, about to read the map
  | readDone (hit : Bool)   -- has read the map, about to RUnlock
  | wantLock         -- released the read lock after a miss, about to Lock
  | locked           -- holds the write lock, about to write the map
  | wrote            -- has written the map, about to Unlock
  | done             -- returned
  deriving DecidableEq, Repr

structure Th where
  pc : Pc
  key : Nat
  result : Option Nat
  deriving DecidableEq, Repr

structure St where
  cache : List Nat        -- keys present (the value stored for key k is the zone built from k)
  readers : Nat
  writer : Nat            -- 0 or 1: number of holders of the write lock
  ths : List Th
  deriving Repr

def Th.step (t : Th) (s : St) : Th × St :=
  match t.pc with
  | .start => if s.writer ≠ 0 then (t, s) else ({ t with pc := .rlocked }, { s with readers := s.readers + 1 })
  | .rlocked => ({ t with pc := .readDone (s.cache.contains t.key) }, s)
  | .readDone hit =>
    if hit then ({ t with pc := .done, result := some t.key }, { s with readers := s.readers - 1 })
    else ({ t with pc := .wantLock }, { s with readers := s.readers - 1 })
  | .wantLock => if s.writer ≠ 0 ∨ s.readers ≠ 0 then (t, s) else ({ t with pc := .locked }, { s with writer := 1 })
  | .locked => ({ t with pc := .wrote }, { s with cache := t.key :: s.cache })
  | .wrote => ({ t with pc := .done, result := some t.key }, { s with writer := 0 })
  | .done => (t, s)

/-- thread `i` takes a step -/
def step (s : St) (i : Nat) : St :=
  match s.ths[i]? with
  | none => s
  | some t =>
    let r := t.step s
    { r.2 with ths := s.ths.set i r.1 }

def run (s : St) (sched : List Nat) : St := sched.foldl step s

def init (keys : List Nat) (cache : List Nat) : St :=
  { cache := cache, readers := 0, writer := 0, ths := keys.map fun k => { pc := .start, key := k, result := none } }

/-- holds (or is inside) the read lock -/
def Th.reading (t : Th) : Bool := match t.pc with | .rlocked => true | .readDone _ => true | _ => false
/-- holds the write lock -/
def Th.writing (t : Th) : Bool := match t.pc with | .locked => true | .wrote => true | _ => false

def countP (p : Th → Bool) (l : List Th) : Nat := (l.filter p).length

/-- the lock invariant -/
def Inv (s : St) : Prop :=
  s.readers = countP Th.reading s.ths ∧
  countP Th.writing s.ths = s.writer ∧ s.writer ≤ 1 ∧
  (s.writer ≠ 0 → s.readers = 0) ∧
  (∀ t ∈ s.ths, t.pc = .done → t.result = some t.key) ∧
  (∀ t ∈ s.ths, t.result = none ∨ t.result = some t.key)

end Imeta.Conc
