/-
  C08 — the bufio.Reader contract, operationally: a buffered reader over a source that delivers its bytes in
  arbitrary positive chunk sizes (a *schedule*), optionally returning the last bytes together with io.EOF.
  The theorems in Props/C08 show that Peek / Discard / ReadFull observe only the *logical* stream
  (buffered bytes ++ unread source bytes) — never the schedule.  All decoder models are written against that
  logical stream, which is what makes them chunking-independent.
-/
import Imeta.Go.Basic
namespace Imeta.Bufio
open Imeta

/-- an io.Reader over `rest`; each Read(p) returns between 1 and len(p) bytes: the head of the schedule clamps it
(an exhausted schedule fills p).  A legal io.Reader never returns 0 bytes with a nil error for len(p) > 0. -/
structure Src where
  rest : Bytes
  sched : List Nat
  deriving Repr

/-- one `Read(p)` with `len(p) = max`, `max > 0` -/
def Src.read (s : Src) (max : Nat) : Bytes × Src :=
  let k := match s.sched with
    | [] => max
    | c :: _ => min max (if c = 0 then 1 else c)
  (s.rest.take k, { rest := s.rest.drop k, sched := s.sched.tail })

structure Br where
  buf : Bytes          -- read from the source, not yet consumed
  src : Src
  size : Nat           -- capacity of the buffer
  deriving Repr

/-- the stream as the user of the bufio.Reader sees it -/
def Br.logical (b : Br) : Bytes := b.buf ++ b.src.rest

/-- `fill` until at least `n` bytes are buffered or the source is exhausted (bufio.Reader.Peek's loop) -/
def fill : Nat → Br → Nat → Br
  | 0, b, _ => b
  | f+1, b, n =>
    if n ≤ b.buf.length ∨ b.src.rest = [] ∨ b.size ≤ b.buf.length then b
    else
      let got := b.src.read (b.size - b.buf.length)
      fill f { b with buf := b.buf ++ got.1, src := got.2 } n

/-- `Peek(n)` for `n ≤ size`: the first n bytes, or everything there is with io.EOF -/
def peek (b : Br) (n : Nat) : (Bytes × Bool) × Br :=
  let b' := fill (b.src.rest.length + 1) b n
  ((b'.buf.take n, decide (n ≤ b'.buf.length)), b')

/-- `Discard(n)`: consumes min(n, available) bytes, refilling as needed -/
def discard : Nat → Br → Nat → Nat × Br
  | 0, b, _ => (0, b)
  | f+1, b, n =>
    if n = 0 then (0, b)
    else
      let b1 := if b.buf = [] then fill (b.src.rest.length + 1) b 1 else b
      if b1.buf = [] then (0, b1)
      else
        let k := min n b1.buf.length
        let r := discard f { b1 with buf := b1.buf.drop k } (n - k)
        (k + r.1, r.2)

end Imeta.Bufio
