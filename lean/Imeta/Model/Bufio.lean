/-
  C08 — the bufio.Reader contract, operationally: a buffered reader over a source that delivers its bytes in
  arbitrary positive chunk sizes (a *schedule*), optionally returning the last bytes together with io.EOF.
  The theorems in Props/C08 show that Peek / Discard / ReadFull observe only the *logical* stream
  (buffered bytes ++ unread source bytes) — never the schedule.  All decoder models are written against that
  logical stream, which is what makes them chunking-independent.
-/
import Imeta.Go.Basic
namespace Imeta.Bufio
open Imeta

/-- an io.Reader over `rest`; each Read(p) returns between 1 and len(p) bytes: the head of the schedule clamps it
(an exhausted schedule fills p).  A legal io.Reader never returns 0 bytes with a nil error for len(p) > 0. -/
structure Src where
  rest : Bytes
  sched : List Nat
  deriving Repr

/-- one `Read(p)` with `len(p) = max`, `max > 0` -/
def Src.read (s : Src) (max : Nat) : Bytes × Src :=
  let k := match s.sched with
    | [] => max
    | c :: _ => min max (if c = 0 then 1 else c)
  (s.rest.take k, { rest := s.rest.drop k, sched := s.sched.tail })

structure Br where
  buf : Bytes          -- read from the source, not yet consumed
  src : Src
  size : Nat           -- capacity of the buffer
  deriving Repr

/-- the stream as the user of the bufio.Reader sees it -/
def Br.logical (b : Br) : Bytes := b.buf ++ b.src.rest

/-- `fill` until at least `n` bytes are buffered or the source is exhausted (bufio.Reader.Peek's loop) -/
def fill : Nat → Br → Nat → Br
  | 0, b, _ => b
  | f+1, b, n =>
    if n ≤ b.buf.length ∨ b.src.rest = [] ∨ b.size ≤ b.buf.length then b
    else
      let got := b.src.read (b.size - b.buf.length)
      fill f { b with buf := b.buf ++ got.1, src := got.2 } n

/-- `Peek(n)` for `n ≤ size`: the first n bytes, or everything there is with io.EOF -/
def peek (b : Br) (n : Nat) : (Bytes × Bool) × Br :=
  let b' := fill (b.src.rest.length + 1) b n
  ((b'.buf.take n, decide (n ≤ b'.buf.length)), b')

/-- `Discard(n)`: consumes min(n, available) bytes, refilling as needed -/
def discard : Nat → Br → Nat → Nat × Br
  | 0, b, _ => (0, b)
  | f+1, b, n =>
    if n = 0 then (0, b)
    else
      let b1 := if b.buf = [] then fill (b.src.rest.length + 1) b 1 else b
      if b1.buf = [] then (0, b1)
      else
        let k := min n b1.buf.length
        let r := discard f { b1 with buf := b1.buf.drop k } (n - k)
        (k + r.1, r.2)

/-- `Read(p)` with `len(p) = max > 0` (bufio.Reader.Read): buffered bytes are handed out first; an empty buffer is refilled
by ONE source read — directly into p when p is at least as large as the buffer, into the buffer otherwise — so a Read may
return fewer bytes than asked for (a *short read*).  `none` is (0, io.EOF). -/
def Br.read (b : Br) (max : Nat) : Option Bytes × Br :=
  if b.buf ≠ [] then (some (b.buf.take max), { b with buf := b.buf.drop max })
  else if b.src.rest = [] then (none, b)
  else if b.size ≤ max then
    let got := b.src.read max
    (some got.1, { b with src := got.2 })
  else
    let got := b.src.read b.size
    (some (got.1.take max), { b with buf := got.1.drop max, src := got.2 })

/-- `io.ReadFull(br, p)` with `len(p) = n`: Read until n bytes arrived or the stream ended; `false` = io.EOF /
io.ErrUnexpectedEOF -/
def readFull : Nat → Br → Nat → Bytes × Bool × Br
  | 0, b, _ => ([], false, b)
  | f+1, b, n =>
    if n = 0 then ([], true, b)
    else match b.read n with
      | (none, b') => ([], false, b')
      | (some got, b') =>
        let r := readFull f b' (n - got.length)
        (got ++ r.1, r.2.1, r.2.2)

/-- what is left of a box and of every box around it (isobmff box.Read: `limit`) -/
def minAll : List Nat → Nat
  | [] => 0
  | [a] => a
  | a :: t => min a (minAll t)

/-- one `box.Read(p)`, `len(p) = max > 0`, for a box whose own and enclosing remaining lengths are `ls` (innermost first):
nothing beyond the tightest enclosing box is asked of the stream, every box of the chain is charged what arrived -/
def boxRead (ls : List Nat) (b : Br) (max : Nat) : Option Bytes × List Nat × Br :=
  if minAll ls = 0 then (none, ls, b)
  else match b.read (min max (minAll ls)) with
    | (none, b') => (none, ls, b')
    | (some got, b') => (some got, ls.map (· - got.length), b')

/-- `io.ReadFull` over a box (what a callback reading an Exif or XMP payload from the box does) -/
def boxReadFull : Nat → List Nat → Br → Nat → Bytes × Bool × List Nat × Br
  | 0, ls, b, _ => ([], false, ls, b)
  | f+1, ls, b, n =>
    if n = 0 then ([], true, ls, b)
    else match boxRead ls b n with
      | (none, ls', b') => ([], false, ls', b')
      | (some got, ls', b') =>
        let r := boxReadFull f ls' b' (n - got.length)
        (got ++ r.1, r.2.1, r.2.2.1, r.2.2.2)

/-- preview.RenderPreview's loop over the box it is handed: Read into a `cap`-byte chunk (2048 in the code) until `n` bytes
arrived, a Read reports the end, or nothing arrived -/
def boxReadChunked (cap : Nat) : Nat → List Nat → Br → Nat → Bytes × List Nat × Br
  | 0, ls, b, _ => ([], ls, b)
  | f+1, ls, b, n =>
    if n = 0 then ([], ls, b)
    else match boxRead ls b (min n cap) with
      | (none, ls', b') => ([], ls', b')
      | (some got, ls', b') =>
        let r := boxReadChunked cap f ls' b' (n - got.length)
        (got ++ r.1, r.2.1, r.2.2)

end Imeta.Bufio
