/-
  C19 — model of the perceptual-hash glue (imagehash/imagehash.go, imagehash32.go,
  transforms{,32}/pixels.go index arithmetic, transforms{,32} quickSelectMedian, distance).

  Scalars are abstract (`α` with a decidable `<`); the driver instantiates Float / Float32.
  Core Lean only.
-/
import Imeta.Go.Basic
namespace Imeta.Hash
open Imeta

/-! ### size guard -/

/-- The guard of NewPHash64/64Alt (s = 64) and NewPHash256/256Alt (s = 256) after the `fix:` commit:
a nil image, or any size other than s×s, is an error. -/
def accepts (s : Nat) (isNil : Bool) (w h : Int) : Bool :=
  !isNil && decide (w = s) && decide (h = s)

/-- The guard as it was on the pinned tree (`size.X != size.Y && size.X != s` rejects; nil has size 0×0
and is *not* rejected, the conversion then dereferences it). Kept for the witness theorems. -/
def acceptsPinned (s : Nat) (_isNil : Bool) (w h : Int) : Bool :=
  !(decide (w ≠ h) && decide (w ≠ s))

/-! ### gray conversion: which source pixel lands in which slot -/

/-- rgb2GrayRGBA / rgb2GrayDefault / rgbaToGray / imageToGrayDefault (after the `fix:` commit):
slot `i*s + j` receives the pixel at `(Min.X + j, Min.Y + i)`; in loop order. -/
def grayPlan (s : Nat) (minX minY : Int) : List (Nat × Int × Int) :=
  (List.range s).flatMap fun i => (List.range s).map fun j => (i * s + j, minX + j, minY + i)

/-- the pinned tree called `At(j, i)` with absolute coordinates starting at 0 -/
def grayPlanPinned (s : Nat) (_minX _minY : Int) : List (Nat × Int × Int) :=
  (List.range s).flatMap fun i => (List.range s).map fun j => (i * s + j, (j : Int), (i : Int))

/-! ### bit assembly, most significant bit first -/

section
variable {α : Type} [LT α] [DecidableLT α]

/-- `for idx, p := range flattens { if p > median { phash |= 1 << uint(len(flattens)-idx-1) } }` -/
def hashBits (T : α) : List α → Nat
  | [] => 0
  | x :: t => (if T < x then 1 <<< t.length else 0) ||| hashBits T t

/-- the same loop in the shape of the Go code (index counting up), proved equal to `hashBits` in Lemmas -/
def hashBitsLoop (T : α) (c : List α) : Nat :=
  (c.zipIdx.foldl (fun acc (p : α × Nat) => if T < p.1 then acc ||| (1 <<< (c.length - p.2 - 1)) else acc) 0)

/-- NewPHash256: word `w` holds coefficients `64w .. 64w+63`, MSB first -/
def hashWords (T : α) (c : List α) : List Nat :=
  [hashBits T (c.take 64), hashBits T ((c.drop 64).take 64), hashBits T ((c.drop 128).take 64), hashBits T ((c.drop 192).take 64)]

/-! ### quickSelectMedian (Lomuto partition, iterative), with Go's panics and a fuel bound -/

def getA (a : Array α) (i : Nat) : Outcome α :=
  match a[i]? with
  | some x => .ok x
  | none => .panic "index out of range"

def swapA (a : Array α) (i j : Nat) : Outcome (Array α) :=
  match a[i]?, a[j]? with
  | some x, some y => .ok ((a.setIfInBounds i y).setIfInBounds j x)
  | _, _ => .panic "index out of range"

/-- `for i := low; i < hi; i++ { if seq[i] < pivotValue { swap(storeIdx, i); storeIdx++ } }` -/
def partLoop (pv : α) (hi : Nat) : Nat → Nat → Nat → Array α → Outcome (Array α × Nat)
  | 0, _, st, a => .ok (a, st)
  | n+1, i, st, a =>
    if i < hi then
      (getA a i).bind fun x =>
        if x < pv then (swapA a st i).bind fun a' => partLoop pv hi n (i+1) (st+1) a'
        else partLoop pv hi n (i+1) st a
    else .ok (a, st)

/-- the `for low < hi` loop -/
def qselLoop (k : Nat) : Nat → Nat → Nat → Array α → Outcome (Array α)
  | 0, _, _, _ => .fuel
  | f+1, low, hi, a =>
    if low < hi then
      let pivot := low / 2 + hi / 2
      (getA a pivot).bind fun pv =>
      (swapA a pivot hi).bind fun a1 =>
      (partLoop pv hi (hi - low + 1) low low a1).bind fun (a2, st) =>
      (swapA a2 hi st).bind fun a3 =>
        if k ≤ st then qselLoop k f low st a3 else qselLoop k f (st + 1) hi a3
    else .ok a

/-- `quickSelectMedian(sequence, 0, len-1, len/2)`; `half`/`add` are Go's `/2` and `+` -/
def median (half : α → α) (add : α → α → α) (c : List α) : Outcome α :=
  let a := c.toArray
  let n := a.size
  let k := n / 2
  if n = 0 then .panic "index out of range"
  else if n = 1 then getA a k
  else (qselLoop k (2 * n + 2) 0 (n - 1) a).bind fun a' =>
    if n % 2 = 0 then (getA a' (k - 1)).bind fun x => (getA a' k).bind fun y => .ok (add (half x) (half y))
    else getA a' k

end

/-! ### Hamming distance -/

/-- `bits.OnesCount64` -/
def popcount64 (x : Nat) : Nat := (List.range 64).countP fun i => x.testBit i

/-- `PHash64.Distance`: `uint8(popcnt(a ^ b))` -/
def distance64 (a b : Nat) : Nat := popcount64 (a ^^^ b) % 256

/-- `PHash256.Distance` -/
def distance256 (a b : List Nat) : Nat :=
  ((a.zip b).map fun p => popcount64 (p.1 ^^^ p.2)).sum

end Imeta.Hash
