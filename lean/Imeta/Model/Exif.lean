/-
  Model of the streaming Exif reader: exif2/reader.go, buffer.go, tag.go, parse.go, utils.go
  (after the `fix:` commits recorded in known_findings.jsonl).

  * The stream is what is still unread (`rest`); `po` is the position relative to the TIFF header.
    `buffered = true` is the *bufio.Reader branch (Peek / Discard, window 4096), `false` the plain
    io.Reader branch (io.ReadFull into the 1 KiB scratch buffer).
  * The pending-tag buffer is the live region `tag[0:len)` as a list plus `pos`.
  * Every index / slice expression of the Go code that can go out of range is written with
    `idx` / `slc`, which produce `Outcome.panic` exactly where Go panics.
  * Values are kept exact (rationals as pairs, dates as tuples); floats are formed by the harness with
    the same Go expressions.
  Core Lean only.
-/
import Imeta.Go.Basic
import Imeta.Model.Tiff
namespace Imeta.Exif
open Imeta

/-! ### Go indexing -/

def idx (b : Bytes) (i : Nat) : Outcome UInt8 :=
  match b[i]? with
  | some x => .ok x
  | none => .panic "index out of range"

/-- `b[lo:hi]` -/
def slc (b : Bytes) (lo hi : Nat) : Outcome Bytes :=
  if lo ≤ hi ∧ hi ≤ b.length then .ok ((b.drop lo).take (hi - lo)) else .panic "slice bounds out of range"

/-- `order.Uint16(b)` / `Uint32(b)`: encoding/binary panics when the slice is too short -/
def u16 (o : ByteOrder) (b : Bytes) : Outcome Nat :=
  if b.length < 2 then .panic "index out of range" else .ok (o.uint (b.take 2))
def u32 (o : ByteOrder) (b : Bytes) : Outcome Nat :=
  if b.length < 4 then .panic "index out of range" else .ok (o.uint (b.take 4))

/-- `order.Uint16(b[lo:lo+2])` and `order.Uint32(b[lo:lo+4])`: the slice, then the decode -/
def rd16 (o : ByteOrder) (b : Bytes) (lo : Nat) : Outcome Nat := (slc b lo (lo + 2)).bind (u16 o)
def rd32 (o : ByteOrder) (b : Bytes) (lo : Nat) : Outcome Nat := (slc b lo (lo + 4)).bind (u32 o)

/-! ### tags -/

structure Tag where
  off : Nat      -- ValueOffset  uint32
  count : Nat    -- UnitCount    uint32
  id : Nat       -- tag.ID       uint16
  typ : Nat      -- tag.Type     uint8
  ifd : Nat      -- ifds.IfdType uint8
  idx : Nat      -- IfdIndex (int8, only ever 0 or 1 here)
  order : ByteOrder
  deriving Repr, DecidableEq, Inhabited

def tByte := 1
def tASCII := 2
def tShort := 3
def tLong := 4
def tRational := 5
def tUndefined := 7
def tSRational := 10
def tASCIINoNul := 0xf0
def tIfd := 0xf1

def ifd0 := 1
def exifIFD := 3
def gpsIFD := 4
def mknoteIFD := 6
def subIfd0 := 12

/-- tag._tagSize -/
def typeSize (t : Nat) : Nat :=
  if t = 1 ∨ t = 2 ∨ t = 7 ∨ t = 0xf0 then 1
  else if t = 3 ∨ t = 8 then 2
  else if t = 4 ∨ t = 9 ∨ t = 11 ∨ t = 0xf1 then 4
  else if t = 5 ∨ t = 10 ∨ t = 12 then 8
  else 0

def typeValid (t : Nat) : Bool :=
  t = 3 || t = 4 || t = 5 || t = 1 || t = 2 || t = 0xf0 || t = 8 || t = 9 || t = 10 || t = 11 || t = 12 || t = 7 || t = 0xf1

/-- `Tag.Size()`: uint32(size) * uint32(count), wrapping -/
def Tag.size (t : Tag) : Nat := (typeSize t.typ * t.count) % 2 ^ 32
def Tag.isEmbedded (t : Tag) : Bool := decide (t.size ≤ 4) && t.typ != tIfd

/-- `tagIsIfd` -/
def tagIsIfd (ifdType id typ : Nat) : Nat :=
  if typ = tLong ∨ typ = tUndefined then
    if ifdType = ifd0 ∧ (id = 0x8769 ∨ id = 0x8825) then tIfd
    else if ifdType = exifIFD ∧ id = 0x927c then tIfd
    else typ
  else typ

structure Ifd where
  off : Nat
  base : Nat
  order : ByteOrder
  typ : Nat
  idx : Nat
  deriving Repr, DecidableEq

/-- `tagFromBuffer`: 12 bytes at `buf[i*12:]`; the 16-bit type is truncated to 8 bits; the result is `none`
(skipped with a warning) when the type is not valid -/
def tagFromBuffer (ifd : Ifd) (e : Bytes) : Outcome (Option Tag) := do
  let id ← rd16 ifd.order e 0
  let ty ← rd16 ifd.order e 2
  let cnt ← rd32 ifd.order e 4
  let vo ← rd32 ifd.order e 8
  let typ := ty % 256
  let t : Tag := { id := id, typ := tagIsIfd ifd.typ id typ, count := cnt, off := (vo + ifd.base) % 2 ^ 32,
                   ifd := ifd.typ, idx := ifd.idx, order := ifd.order }
  if typeValid t.typ then .ok (some t) else .ok none

/-- `Tag.childIfd` -/
def Tag.childIfd (t : Tag) : Ifd :=
  let ty :=
    if t.ifd = ifd0 then (if t.id = 0x8769 then exifIFD else if t.id = 0x8825 then gpsIFD else 0)
    else if t.ifd = exifIFD then (if t.id = 0x927c then mknoteIFD else 0)
    else if subIfd0 ≤ t.ifd ∧ t.ifd ≤ subIfd0 + 5 then t.ifd
    else 0
  { off := t.off, base := 0, order := t.order, typ := ty, idx := t.idx }

/-! ### result record (exact values) -/

structure DateT where
  y : Nat
  mo : Nat
  d : Nat
  h : Nat
  mi : Nat
  s : Nat
  deriving Repr, DecidableEq, Inhabited

/-- *time.Location as the library builds it -/
inductive Zone where
  | none            -- nil pointer: tag absent
  | utc             -- time.UTC (fallback paths)
  | fixed (secs : Int) (name : Bytes)
  deriving Repr, DecidableEq, Inhabited

structure Rec where
  imageType : Nat := 0
  make : Bytes := []
  model : Bytes := []
  cameraMake : Nat := 0
  cameraModel : Nat := 0
  artist : Bytes := []
  copyright : Bytes := []
  software : Bytes := []
  description : Bytes := []
  lensMake : Bytes := []
  lensModel : Bytes := []
  lensSerial : Bytes := []
  cameraSerial : Bytes := []
  width : Nat := 0
  height : Nat := 0
  stripOffsets : Nat := 0
  stripByteCounts : Nat := 0
  orientation : Nat := 0
  exposureTime : Nat × Nat := (0, 0)      -- float32(n)/float32(d) when set
  exposureTimeSet : Bool := false
  fnumber : Nat × Nat := (0, 0)
  /-- 0 unset, 1 from FNumber (n/d), 2 from ApertureValue (APEX n/d) -/
  fnumberKind : Nat := 0
  focalLength : Nat × Nat := (0, 0)
  focalLengthSet : Bool := false
  focalLength35 : Nat × Nat := (0, 0)
  focalLength35Set : Bool := false
  isoSpeed : Nat := 0
  exposureBias : Int := 0
  exposureProgram : Nat := 0
  exposureMode : Nat := 0
  meteringMode : Nat := 0
  flash : Nat := 0
  lensInfo : List Nat := []
  modifyDate : Option DateT := none
  dateTimeOriginal : Option DateT := none
  createDate : Option DateT := none
  subSec : Nat := 0
  subSecOriginal : Nat := 0
  subSecDigitized : Nat := 0
  offsetTime : Zone := .none
  offsetTimeOriginal : Zone := .none
  offsetTimeDigitized : Zone := .none
  gpsLat : Option (List Nat) := none       -- six uint32: deg n/d, min n/d, sec n/d
  gpsLng : Option (List Nat) := none
  gpsAlt : Option (Nat × Nat) := none
  gpsLatRef : Bool := false
  gpsLngRef : Bool := false
  gpsAltRef : Bool := false
  gpsTime : Nat := 0
  gpsDate : Option DateT := none
  deriving Repr, DecidableEq, Inhabited

/-! ### reader state -/

structure R where
  rest : Bytes
  po : Nat
  exifLength : Nat
  buffered : Bool
  tags : List Tag := []
  pos : Nat := 0
  ex : Rec := {}
  /-- bytes allocated for strings (C14 counter) -/
  alloc : Nat := 0
  /-- set when the value of an *embedded* tag was fetched from the stream while its directory was being walked:
  the directory bytes (a Peek window / the scratch buffer) may then have been overwritten, which this model
  does not describe; the correspondence is one-sided for such inputs (DESIGN section 6) -/
  hazard : Bool := false
  /-- ghost: every value read so far, with the bytes it returned (see `readTagValue`) -/
  reads : List (Tag × Option Bytes) := []
  /-- ghost: every tag handed to the field parsers so far, in order (see `parseTag`) -/
  parsed : List Tag := []
  deriving Repr, Inhabited

def bufioSize : Nat := 4096
def scratchSize : Nat := 1024
def tagMaxCount : Nat := 84

/-- outcome of a read: the state, the bytes (possibly partial on error) and the error flag -/
structure Rd where
  r : R
  buf : Bytes
  err : Option ErrKind

/-- `ir.discard(n)` -/
def discard (r : R) (n : Int) : R × Option ErrKind :=
  if n = 0 then (r, none)
  else
    let n : Int := if (r.exifLength : Int) < n + r.po then (r.exifLength : Int) - r.po else n
    if r.buffered then
      if n < 0 then (r, some .negativeCount)
      else if n.toNat ≤ r.rest.length then ({ r with rest := r.rest.drop n.toNat, po := (r.po + n.toNat) % 2 ^ 32 }, none)
      else ({ r with rest := [], po := (r.po + r.rest.length) % 2 ^ 32 }, some .eof)
    else
      -- `for n > 0 && err == nil { Read(...) }`
      if n ≤ 0 then (r, none)
      else if n.toNat ≤ r.rest.length then ({ r with rest := r.rest.drop n.toNat, po := (r.po + n.toNat) % 2 ^ 32 }, none)
      else ({ r with rest := [], po := (r.po + r.rest.length) % 2 ^ 32 }, some .eof)

/-- `ir.fastRead(n)` (n ≥ 0 at every call site) -/
def fastRead (r : R) (n : Nat) : Rd :=
  if r.exifLength ≠ 0 ∧ r.po + n > r.exifLength then { r := r, buf := [], err := some .dataLength }
  else if r.buffered then
    if n > bufioSize then
      -- Peek fills its window and reports ErrBufferFull together with what it holds
      { r := r, buf := r.rest.take bufioSize, err := some .bufferFull }
    else if r.rest.length < n then { r := r, buf := r.rest, err := some .eof }
    else { r := { r with rest := r.rest.drop n, po := (r.po + n) % 2 ^ 32 }, buf := r.rest.take n, err := none }
  else
    if n > scratchSize then { r := r, buf := [], err := some .dataLength }
    else if r.rest.length < n then
      -- io.ReadFull: what was there is consumed, the error is EOF (nothing) or ErrUnexpectedEOF
      { r := { r with rest := [], po := (r.po + r.rest.length) % 2 ^ 32 }, buf := [],
        err := some (if r.rest.length = 0 ∧ n > 0 then .eof else .unexpectedEOF) }
    else { r := { r with rest := r.rest.drop n, po := (r.po + n) % 2 ^ 32 }, buf := r.rest.take n, err := none }

/-- `ir.readTagValue(t)` -/
def readTagValue0 (r : R) (t : Tag) : Rd :=
  let r := if t.isEmbedded then { r with hazard := true } else r
  match discard r ((t.off : Int) - r.po) with
  | (r1, some e) => { r := r1, buf := [], err := some e }
  | (r1, none) => fastRead r1 t.size

/-- `readTagValue0` plus a ghost record of the read: which tag asked, and the bytes it got (`none` when the read failed).
The record is observed by no function of the model; it exists so that theorems can speak about every read of a run. -/
def readTagValue (r : R) (t : Tag) : Rd :=
  let rd := readTagValue0 r t
  { rd with r := { rd.r with reads := rd.r.reads ++ [(t, if rd.err.isNone then some rd.buf else none)] } }

/-! ### pending-tag buffer -/

/-- sorted insertion as written: scan from the top for the first slot whose predecessor has a smaller offset -/
def insertFrom (t : Tag) : Nat → List Tag → Option (List Tag)
  | 0, _ => none
  | i+1, tags =>
    match tags[i]? with
    | some p => if t.off > p.off then some (tags.take (i+1) ++ t :: tags.drop (i+1)) else insertFrom t i tags
    | none => none

/-- `ir.addTagBuffer(t)` -/
def addTag (r : R) (t : Tag) : R :=
  if t.off < r.po then r
  else if r.tags.length < tagMaxCount then
    match insertFrom t r.tags.length r.tags with
    | some l => { r with tags := l }
    | none =>
      match r.tags with
      | [] => { r with tags := [t] }
      | h :: _ => if t.off < h.off then { r with tags := t :: r.tags } else r   -- equal to the smallest: dropped
  else r

/-- `buffer.resetPosition()` -/
def resetPosition (r : R) : R := if r.pos > 0 then { r with tags := r.tags.drop r.pos, pos := 0 } else r

/-! ### value parsers (exif2/parse.go, utils.go) -/

/-- `parseStrUint`: digits below '0' are skipped, the rest accumulates (uint, 64-bit wrap) -/
def parseStrUint (b : Bytes) : Nat :=
  b.foldl (fun u c => if c.toNat ≥ 48 then (u * 10 + (c - 48).toNat) % 2 ^ 64 else u) 0

/-- `trimNULBuffer` (repaired): trailing NUL, space and newline bytes are removed -/
def isBlank (c : UInt8) : Bool := c == 0 || c == 32 || c == 10
def trimNUL (b : Bytes) : Bytes := (b.reverse.dropWhile isBlank).reverse

/-- `subSecMillis` (repaired): the leading digits are a decimal fraction of a second; three digits give milliseconds -/
def subSecDigits : Nat → Bytes → List Nat
  | 0, _ => []
  | _, [] => []
  | n+1, c :: t => if 48 ≤ c.toNat ∧ c.toNat ≤ 57 then (c.toNat - 48) :: subSecDigits n t else []
def subSecMillis (b : Bytes) : Nat :=
  match subSecDigits 3 b with
  | [] => 0
  | [a] => a * 100
  | [a, c] => a * 100 + c * 10
  | a :: c :: d :: _ => a * 100 + c * 10 + d

/-- `t.EmbeddedValue(buf[:4])`: the offset slot re-serialised in the tag's byte order -/
def embedded (t : Tag) : Bytes := t.order.put 4 t.off

def isASCII (t : Tag) : Bool := t.typ == tASCII || t.typ == tASCIINoNul
def isRat (t : Tag) : Bool := t.typ == tRational || t.typ == tSRational

/-- ParseBuffer / ParseString share this: (state, bytes). `strict` = ParseBuffer (nil on read error),
ParseString uses the partial buffer even when the read failed. -/
def parseBytes (r : R) (t : Tag) (strict : Bool) : Outcome (R × Bytes) :=
  if t.isEmbedded then
    -- `ir.buffer.buf[:t.Size()]` after EmbeddedValue wrote the first 4 bytes; Size ≤ 4 here, so the slice is in range
    .ok (r, trimNUL ((embedded t).take t.size))
  else if isASCII t then
    let rd := readTagValue r t
    if strict && rd.err.isSome then .ok (rd.r, []) else .ok (rd.r, trimNUL rd.buf)
  else .ok (r, [])

def parseString (r : R) (t : Tag) : Outcome (R × Bytes) := do
  let (r1, s) ← parseBytes r t false
  .ok ({ r1 with alloc := r1.alloc + s.length }, s)

/-- ParseUint32 -/
def parseUint32 (t : Tag) : Outcome Nat :=
  if t.typ = tLong then .ok t.off
  else if t.typ = tShort then u16 t.order (embedded t)
  else .ok 0

/-- ParseUint16 -/
def parseUint16 (t : Tag) : Outcome Nat :=
  if t.isEmbedded && t.typ == tShort then u16 t.order (embedded t) else .ok 0

/-- ParseRationalU -/
def parseRationalU (r : R) (t : Tag) : Outcome (R × Nat × Nat) :=
  if isRat t then
    let rd := readTagValue r t
    if rd.err.isSome || rd.buf.length < 8 then .ok (rd.r, 0, 0)
    else do
      let n ← rd32 t.order rd.buf 0
      let d ← rd32 t.order rd.buf 4
      .ok (rd.r, n, d)
  else .ok (r, 0, 0)

/-- six uint32 from a 24-byte value -/
def six (o : ByteOrder) (b : Bytes) : Outcome (List Nat) := do
  let a0 ← rd32 o b 0; let a1 ← rd32 o b 4; let a2 ← rd32 o b 8; let a3 ← rd32 o b 12; let a4 ← rd32 o b 16; let a5 ← rd32 o b 20
  .ok [a0, a1, a2, a3, a4, a5]

def dateOf (b : Bytes) : Outcome DateT := do
  let y ← slc b 0 4; let mo ← slc b 5 7; let d ← slc b 8 10; let h ← slc b 11 13; let mi ← slc b 14 16; let s ← slc b 17 19
  .ok { y := parseStrUint y, mo := parseStrUint mo, d := parseStrUint d, h := parseStrUint h, mi := parseStrUint mi, s := parseStrUint s }

/-- ParseDate -/
def parseDate (r : R) (t : Tag) : Outcome (R × Option DateT) :=
  if t.typ = tASCII then
    let rd := readTagValue r t
    if rd.err.isSome then .ok (rd.r, none)
    else if rd.buf.length ≥ 19 then do
      let c4 ← idx rd.buf 4; let c7 ← idx rd.buf 7; let c10 ← idx rd.buf 10; let c13 ← idx rd.buf 13; let c16 ← idx rd.buf 16
      if c4 == 58 && c7 == 58 && c10 == 32 && c13 == 58 && c16 == 58 then do
        let d ← dateOf rd.buf
        .ok (rd.r, some d)
      else .ok (rd.r, none)
    else .ok (rd.r, none)
  else .ok (r, none)

/-- ParseOffsetTime -/
def parseOffsetTime (r : R) (t : Tag) : Outcome (R × Zone) :=
  if t.typ = tASCII then
    let rd := readTagValue r t
    if rd.err.isSome then .ok (rd.r, .utc)
    else if rd.buf.length ≥ 6 then do
      let c3 ← idx rd.buf 3
      if c3 == 58 then do
        let hh ← slc rd.buf 1 3; let mm ← slc rd.buf 4 6; let name ← slc rd.buf 0 6
        let c0 ← idx rd.buf 0
        let off : Int := (parseStrUint hh : Int) * 3600 + (parseStrUint mm : Int) * 60
        if c0 == 45 then .ok (rd.r, .fixed (-off) name)
        else if c0 == 43 then .ok (rd.r, .fixed off name)
        else .ok (rd.r, .utc)
      else .ok (rd.r, .utc)
    else .ok (rd.r, .utc)
  else .ok (r, .utc)

/-- ParseSubSecTime -/
def parseSubSec (r : R) (t : Tag) : Outcome (R × Nat) :=
  if isASCII t then
    if t.isEmbedded then .ok (r, subSecMillis (embedded t))
    else do
      let (r1, b) ← parseBytes r t true
      .ok (r1, subSecMillis b)
  else .ok (r, 0)

/-- parseLensInfo -/
def parseLensInfo (r : R) (t : Tag) : Outcome (R × List Nat) :=
  if !t.isEmbedded then
    let rd := readTagValue r t
    if rd.err.isSome || rd.buf.length < 32 then .ok (rd.r, [])
    else do
      let a ← six t.order rd.buf
      let a6 ← rd32 t.order rd.buf 24
      let a7 ← rd32 t.order rd.buf 28
      .ok (rd.r, a ++ [a6, a7])
  else .ok (r, [])

/-- ParseGPSCoord -/
def parseGPSCoord (r : R) (t : Tag) : Outcome (R × Option (List Nat)) :=
  if t.count = 3 ∧ isRat t then
    let rd := readTagValue r t
    if rd.err.isSome || rd.buf.length < 24 then .ok (rd.r, none)
    else do let a ← six t.order rd.buf; .ok (rd.r, some a)
  else .ok (r, none)

/-- ParseGPSAltitude -/
def parseGPSAlt (r : R) (t : Tag) : Outcome (R × Option (Nat × Nat)) :=
  if t.count = 1 ∧ isRat t then
    let rd := readTagValue r t
    if rd.err.isSome || rd.buf.length < 8 then .ok (rd.r, none)
    else do
      let n ← rd32 t.order rd.buf 0
      let d ← rd32 t.order rd.buf 4
      .ok (rd.r, some (n, d))
  else .ok (r, none)

/-- parseGPSTimeStamp: integer division per component, uint32 arithmetic -/
def parseGPSTime (r : R) (t : Tag) : Outcome (R × Nat) :=
  if t.count = 3 ∧ t.typ = tRational then
    let rd := readTagValue r t
    if rd.err.isSome || rd.buf.length < 24 then .ok (rd.r, 0)
    else do
      let v ← six t.order rd.buf
      let g (i : Nat) := v.getD i 0
      let a := if g 1 > 0 then (g 0 / g 1) * 3600 else 0
      let b := if g 3 > 0 then (g 2 / g 3) * 60 else 0
      let c := if g 5 > 0 then g 4 / g 5 else 0
      .ok (rd.r, (a % 2 ^ 32 + b % 2 ^ 32 + c) % 2 ^ 32)
  else .ok (r, 0)

/-- parseGPSDateStamp -/
def parseGPSDate (r : R) (t : Tag) : Outcome (R × Option DateT) :=
  if t.typ = tASCII then
    let rd := readTagValue r t
    if rd.err.isSome || rd.buf.length < 10 then .ok (rd.r, none)
    else do
      let c4 ← idx rd.buf 4; let c7 ← idx rd.buf 7
      if c4 == 58 && c7 == 58 && rd.buf.length < 12 then do
        let y ← slc rd.buf 0 4; let mo ← slc rd.buf 5 7; let d ← slc rd.buf 8 10
        .ok (rd.r, some { y := parseStrUint y, mo := parseStrUint mo, d := parseStrUint d, h := 0, mi := 0, s := 0 })
      else if rd.buf.length > 19 then do
        -- (repaired) the length is checked before `buf[10]`, `buf[13]`, `buf[16]`
        let c10 ← idx rd.buf 10; let c13 ← idx rd.buf 13; let c16 ← idx rd.buf 16
        if c4 == 58 && c7 == 58 && c10 == 32 && c13 == 58 && c16 == 58 then do
          let d ← dateOf rd.buf
          .ok (rd.r, some d)
        else .ok (rd.r, none)
      else .ok (rd.r, none)
  else .ok (r, none)

/-- ParseGPSRef -/
def parseGPSRef (t : Tag) : Bool :=
  if t.isEmbedded then
    let b0 := (embedded t).headD 0
    if t.id = 5 then t.typ == tByte && b0 == 1
    else if t.id = 1 then t.typ == tASCII && b0 == 83
    else if t.id = 3 then t.typ == tASCII && b0 == 87
    else false
  else false

/-- tables the make / model normalisation needs (supplied by the generated tables in the driver and proofs) -/
structure Tables where
  makeOfString : Bytes → Option Nat
  makeName : Nat → Bytes
  canonModel : Bytes → Option (Nat × Bytes)
  appleModel : Bytes → Option (Nat × Bytes)

def canonMake := 7
def appleMake := 4
def nikonMake := 36

/-! ### parseTag -/

def setIf (c : Bool) (f : R → R) (r : R) : R := if c then f r else r

/-! field setters (kept as separate definitions so that the parsers stay small terms) -/
def Rec.set_cameraMake_make (v0 : Nat) (v1 : Bytes) (e : Rec) : Rec := { e with cameraMake := v0, make := v1 }
def Rec.set_cameraModel_model (v0 : Nat) (v1 : Bytes) (e : Rec) : Rec := { e with cameraModel := v0, model := v1 }
def Rec.set_artist (v0 : Bytes) (e : Rec) : Rec := { e with artist := v0 }
def Rec.set_copyright (v0 : Bytes) (e : Rec) : Rec := { e with copyright := v0 }
def Rec.set_width (v0 : Nat) (e : Rec) : Rec := { e with width := v0 }
def Rec.set_height (v0 : Nat) (e : Rec) : Rec := { e with height := v0 }
def Rec.set_stripOffsets (v0 : Nat) (e : Rec) : Rec := { e with stripOffsets := v0 }
def Rec.set_stripByteCounts (v0 : Nat) (e : Rec) : Rec := { e with stripByteCounts := v0 }
def Rec.set_orientation (v0 : Nat) (e : Rec) : Rec := { e with orientation := v0 }
def Rec.set_software (v0 : Bytes) (e : Rec) : Rec := { e with software := v0 }
def Rec.set_description (v0 : Bytes) (e : Rec) : Rec := { e with description := v0 }
def Rec.set_modifyDate (v0 : Option DateT) (e : Rec) : Rec := { e with modifyDate := v0 }
def Rec.set_imageType (v0 : Nat) (e : Rec) : Rec := { e with imageType := v0 }
def Rec.set_cameraSerial (v0 : Bytes) (e : Rec) : Rec := { e with cameraSerial := v0 }
def Rec.set_lensMake (v0 : Bytes) (e : Rec) : Rec := { e with lensMake := v0 }
def Rec.set_lensModel (v0 : Bytes) (e : Rec) : Rec := { e with lensModel := v0 }
def Rec.set_lensSerial (v0 : Bytes) (e : Rec) : Rec := { e with lensSerial := v0 }
def Rec.set_exposureTime_exposureTimeSet (v0 : Nat × Nat) (v1 : Bool) (e : Rec) : Rec := { e with exposureTime := v0, exposureTimeSet := v1 }
def Rec.set_fnumber_fnumberKind (v0 : Nat × Nat) (v1 : Nat) (e : Rec) : Rec := { e with fnumber := v0, fnumberKind := v1 }
def Rec.set_exposureProgram (v0 : Nat) (e : Rec) : Rec := { e with exposureProgram := v0 }
def Rec.set_exposureBias (v0 : Int) (e : Rec) : Rec := { e with exposureBias := v0 }
def Rec.set_exposureMode (v0 : Nat) (e : Rec) : Rec := { e with exposureMode := v0 }
def Rec.set_meteringMode (v0 : Nat) (e : Rec) : Rec := { e with meteringMode := v0 }
def Rec.set_isoSpeed (v0 : Nat) (e : Rec) : Rec := { e with isoSpeed := v0 }
def Rec.set_flash (v0 : Nat) (e : Rec) : Rec := { e with flash := v0 }
def Rec.set_focalLength_focalLengthSet (v0 : Nat × Nat) (v1 : Bool) (e : Rec) : Rec := { e with focalLength := v0, focalLengthSet := v1 }
def Rec.set_focalLength35_focalLength35Set (v0 : Nat × Nat) (v1 : Bool) (e : Rec) : Rec := { e with focalLength35 := v0, focalLength35Set := v1 }
def Rec.set_lensInfo (v0 : List Nat) (e : Rec) : Rec := { e with lensInfo := v0 }
def Rec.set_dateTimeOriginal (v0 : Option DateT) (e : Rec) : Rec := { e with dateTimeOriginal := v0 }
def Rec.set_createDate (v0 : Option DateT) (e : Rec) : Rec := { e with createDate := v0 }
def Rec.set_subSec (v0 : Nat) (e : Rec) : Rec := { e with subSec := v0 }
def Rec.set_subSecOriginal (v0 : Nat) (e : Rec) : Rec := { e with subSecOriginal := v0 }
def Rec.set_subSecDigitized (v0 : Nat) (e : Rec) : Rec := { e with subSecDigitized := v0 }
def Rec.set_offsetTime (v0 : Zone) (e : Rec) : Rec := { e with offsetTime := v0 }
def Rec.set_offsetTimeOriginal (v0 : Zone) (e : Rec) : Rec := { e with offsetTimeOriginal := v0 }
def Rec.set_offsetTimeDigitized (v0 : Zone) (e : Rec) : Rec := { e with offsetTimeDigitized := v0 }
def Rec.set_gpsAltRef (v0 : Bool) (e : Rec) : Rec := { e with gpsAltRef := v0 }
def Rec.set_gpsLatRef (v0 : Bool) (e : Rec) : Rec := { e with gpsLatRef := v0 }
def Rec.set_gpsLngRef (v0 : Bool) (e : Rec) : Rec := { e with gpsLngRef := v0 }
def Rec.set_gpsAlt (v0 : Option (Nat × Nat)) (e : Rec) : Rec := { e with gpsAlt := v0 }
def Rec.set_gpsLat (v0 : Option (List Nat)) (e : Rec) : Rec := { e with gpsLat := v0 }
def Rec.set_gpsLng (v0 : Option (List Nat)) (e : Rec) : Rec := { e with gpsLng := v0 }
def Rec.set_gpsTime (v0 : Nat) (e : Rec) : Rec := { e with gpsTime := v0 }
def Rec.set_gpsDate (v0 : Option DateT) (e : Rec) : Rec := { e with gpsDate := v0 }
def R.upd (r : R) (f : Rec → Rec) : R := { r with ex := f r.ex }
def R.addAlloc (r : R) (n : Nat) : R := { r with alloc := r.alloc + n }

def wrap16 (n : Nat) : Int := ((n % 65536 + 32768) % 65536 : Nat) - 32768
def wrap16i (x : Int) : Int := (x + 32768) % 65536 - 32768

/-- parseTag, IFD0 -/
def parseIfd0 (tb : Tables) (r : R) (t : Tag) : Outcome R :=
  if t.id = 0x010f then do
    let (r1, s) ← parseBytes r t true
    match tb.makeOfString s with
    | some mk => .ok ((r1.upd (Rec.set_cameraMake_make (mk) (tb.makeName mk))).addAlloc ((tb.makeName mk).length))
    | none => .ok ((r1.upd (Rec.set_cameraMake_make (0) (s))).addAlloc (s.length))
  else if t.id = 0x0110 then do
    let (r1, s) ← parseBytes r t true
    let hit := if r1.ex.cameraMake = canonMake then tb.canonModel s else if r1.ex.cameraMake = appleMake then tb.appleModel s else none
    match hit with
    | some (m, name) => .ok (r1.upd (Rec.set_cameraModel_model (m) (name)))
    | none => .ok ((r1.upd (Rec.set_cameraModel_model (0) (s))).addAlloc (s.length))
  else if t.id = 0x013b then do let (r1, s) ← parseString r t; .ok (r1.upd (Rec.set_artist (s)))
  else if t.id = 0x8298 then do let (r1, s) ← parseString r t; .ok (r1.upd (Rec.set_copyright (s)))
  else if t.id = 0x0100 then do let v ← parseUint32 t; .ok (r.upd (Rec.set_width (v % 65536)))
  else if t.id = 0x0101 then do let v ← parseUint32 t; .ok (r.upd (Rec.set_height (v % 65536)))
  else if t.id = 0x0111 then do let v ← parseUint32 t; .ok (r.upd (Rec.set_stripOffsets (v)))
  else if t.id = 0x0117 then do let v ← parseUint32 t; .ok (r.upd (Rec.set_stripByteCounts (v)))
  else if t.id = 0x0112 then do let v ← parseUint16 t; .ok (r.upd (Rec.set_orientation (v)))
  else if t.id = 0x0131 then do let (r1, s) ← parseString r t; .ok (r1.upd (Rec.set_software (s)))
  else if t.id = 0x010e then do let (r1, s) ← parseString r t; .ok (r1.upd (Rec.set_description (s)))
  else if t.id = 0x0132 then do let (r1, d) ← parseDate r t; .ok (r1.upd (Rec.set_modifyDate (d)))
  else if t.id = 0xc612 then .ok (if r.ex.imageType = 8 then (r.upd (Rec.set_imageType (9))) else r)
  else if t.id = 0xc62f then
    if r.ex.cameraSerial = [] then do let (r1, s) ← parseString r t; .ok (r1.upd (Rec.set_cameraSerial (s)))
    else .ok r
  else .ok r

/-- parseTag, Exif IFD -/
def parseExifIfd (r : R) (t : Tag) : Outcome R :=
  if t.id = 0xa433 then do let (r1, s) ← parseString r t; .ok (r1.upd (Rec.set_lensMake (s)))
  else if t.id = 0xa434 then do let (r1, s) ← parseString r t; .ok (r1.upd (Rec.set_lensModel (s)))
  else if t.id = 0xa435 then do let (r1, s) ← parseString r t; .ok (r1.upd (Rec.set_lensSerial (s)))
  else if t.id = 0xa430 then
    if r.ex.artist = [] then do let (r1, s) ← parseString r t; .ok (r1.upd (Rec.set_artist (s))) else .ok r
  else if t.id = 0xa431 then
    if r.ex.cameraSerial = [] then do let (r1, s) ← parseString r t; .ok (r1.upd (Rec.set_cameraSerial (s))) else .ok r
  else if t.id = 0xa002 then
    if r.ex.width = 0 then do let v ← parseUint32 t; .ok (r.upd (Rec.set_width (v % 65536))) else .ok r
  else if t.id = 0xa003 then
    if r.ex.height = 0 then do let v ← parseUint32 t; .ok (r.upd (Rec.set_height (v % 65536))) else .ok r
  else if t.id = 0x829a then
    if isRat t then do let (r1, n, d) ← parseRationalU r t; .ok (r1.upd (Rec.set_exposureTime_exposureTimeSet ((n, d)) (true)))
    else .ok (r.upd (Rec.set_exposureTime_exposureTimeSet ((0, 0)) (false)))
  else if t.id = 0x9202 then
    -- `if ir.Exif.FNumber == 0.0`: unset, or set from FNumber to exactly 0/d (0/0 is NaN, which is not 0.0)
    if r.ex.fnumberKind = 0 ∨ (r.ex.fnumberKind = 1 ∧ r.ex.fnumber.1 = 0 ∧ r.ex.fnumber.2 ≠ 0) then do let (r1, n, d) ← parseRationalU r t; .ok (r1.upd (Rec.set_fnumber_fnumberKind ((n, d)) (2)))
    else .ok r
  else if t.id = 0x829d then
    if isRat t then do let (r1, n, d) ← parseRationalU r t; .ok (r1.upd (Rec.set_fnumber_fnumberKind ((n, d)) (1)))
    else .ok (r.upd (Rec.set_fnumber_fnumberKind ((0, 0)) (0)))
  else if t.id = 0x8822 then do let v ← parseUint16 t; .ok (r.upd (Rec.set_exposureProgram (v)))
  else if t.id = 0x9204 then
    if !t.isEmbedded then do
      let (r1, n, d) ← parseRationalU r t
      -- NewExposureBias(int16(n), int16(d)): n << 8 + (d << 8 >> 8), all in int16
      let n16 := wrap16 n; let d16 := wrap16 d
      .ok (r1.upd (Rec.set_exposureBias (wrap16i (wrap16i (n16 * 256) + wrap16i (wrap16i (d16 * 256) / 256)))))
    else .ok (r.upd (Rec.set_exposureBias (0)))
  else if t.id = 0xa402 then do let v ← parseUint16 t; .ok (r.upd (Rec.set_exposureMode (v)))
  else if t.id = 0x9207 then do let v ← parseUint16 t; .ok (r.upd (Rec.set_meteringMode (v)))
  else if t.id = 0x8827 then do let v ← parseUint32 t; .ok (r.upd (Rec.set_isoSpeed (v)))
  else if t.id = 0x9209 then do let v ← parseUint16 t; .ok (r.upd (Rec.set_flash (v)))
  else if t.id = 0x920a ∨ t.id = 0xa405 then do
    let (r1, v, set) ←
      (if t.typ = tShort ∨ t.typ = tLong then do let v ← parseUint32 t; .ok (r, (v, 1), true)
       else if isRat t then do let (r1, n, d) ← parseRationalU r t; .ok (r1, (n, d), true)
       else .ok (r, (0, 0), false) : Outcome (R × (Nat × Nat) × Bool))
    if t.id = 0x920a then .ok (r1.upd (Rec.set_focalLength_focalLengthSet (v) (set)))
    else .ok (r1.upd (Rec.set_focalLength35_focalLength35Set (v) (set)))
  else if t.id = 0xa432 then do let (r1, l) ← parseLensInfo r t; .ok (r1.upd (Rec.set_lensInfo (l)))
  else if t.id = 0x9003 then do let (r1, d) ← parseDate r t; .ok (r1.upd (Rec.set_dateTimeOriginal (d)))
  else if t.id = 0x9004 then do let (r1, d) ← parseDate r t; .ok (r1.upd (Rec.set_createDate (d)))
  else if t.id = 0x9290 then do let (r1, v) ← parseSubSec r t; .ok (r1.upd (Rec.set_subSec (v)))
  else if t.id = 0x9291 then do let (r1, v) ← parseSubSec r t; .ok (r1.upd (Rec.set_subSecOriginal (v)))
  else if t.id = 0x9292 then do let (r1, v) ← parseSubSec r t; .ok (r1.upd (Rec.set_subSecDigitized (v)))
  else if t.id = 0x9010 then do let (r1, z) ← parseOffsetTime r t; .ok (r1.upd (Rec.set_offsetTime (z)))
  else if t.id = 0x9011 then do let (r1, z) ← parseOffsetTime r t; .ok (r1.upd (Rec.set_offsetTimeOriginal (z)))
  else if t.id = 0x9012 then do let (r1, z) ← parseOffsetTime r t; .ok (r1.upd (Rec.set_offsetTimeDigitized (z)))
  else .ok r

/-- parseTag, GPS IFD -/
def parseGpsIfd (r : R) (t : Tag) : Outcome R :=
  if t.id = 5 then .ok (r.upd (Rec.set_gpsAltRef (parseGPSRef t)))
  else if t.id = 1 then .ok (r.upd (Rec.set_gpsLatRef (parseGPSRef t)))
  else if t.id = 3 then .ok (r.upd (Rec.set_gpsLngRef (parseGPSRef t)))
  else if t.id = 6 then do let (r1, v) ← parseGPSAlt r t; .ok (r1.upd (Rec.set_gpsAlt (v)))
  else if t.id = 2 then do let (r1, v) ← parseGPSCoord r t; .ok (r1.upd (Rec.set_gpsLat (v)))
  else if t.id = 4 then do let (r1, v) ← parseGPSCoord r t; .ok (r1.upd (Rec.set_gpsLng (v)))
  else if t.id = 7 then do let (r1, v) ← parseGPSTime r t; .ok (r1.upd (Rec.set_gpsTime (v)))
  else if t.id = 0x1d then do let (r1, v) ← parseGPSDate r t; .ok (r1.upd (Rec.set_gpsDate (v)))
  else .ok r

def parseTag0 (tb : Tables) (r : R) (t : Tag) : Outcome R :=
  if t.ifd = ifd0 then parseIfd0 tb r t
  else if t.ifd = exifIFD then parseExifIfd r t
  else if t.ifd = gpsIFD then parseGpsIfd r t
  else .ok r

/-- `parseTag0` plus a ghost record of the tag: the order in which the field parsers ran.  Observed by no function of
the model. -/
def parseTag (tb : Tables) (r : R) (t : Tag) : Outcome R :=
  (parseTag0 tb r t).bind fun r' => .ok { r' with parsed := r'.parsed ++ [t] }

end Imeta.Exif
