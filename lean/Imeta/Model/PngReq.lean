/-
  C02 — the number of bytes png.ScanPngHeader asks of its source (an in-memory io.ReadSeeker that delivers what it has up to
  the length asked for).  Every header is read with io.ReadFull into 8 bytes: a full answer costs 8; at the end of the source
  the first Read gets what is left and a second Read, for the rest, gets nothing.
-/
import Imeta.Model.Png
namespace Imeta.Png
open Imeta

/-- io.ReadFull(r, buf[:8]) at a position where fewer than 8 bytes are left -/
def failReq (b : Bytes) (pos : Nat) : Nat :=
  if pos < b.length then 8 + (8 - (b.length - pos)) else 8

/-- bytes requested by the chunk loop from position `pos` on (mirrors `chunks`) -/
def chunksReq (b : Bytes) : Nat → Nat → Nat
  | 0, _ => 0
  | f+1, pos =>
    match read8 b pos with
    | none => failReq b pos
    | some h =>
      let length := beNat (h.take 4)
      if h.drop 4 == eXIf then
        (match read8 b (pos + 8) with
         | none => 8 + failReq b (pos + 8)
         | some _ => 16)
      else 8 + chunksReq b f (pos + 8 + (length + 4) % 2 ^ 32)

def scanReq (b : Bytes) : Nat :=
  match read8 b 0 with
  | none => failReq b 0
  | some s => if s == signature then 8 + chunksReq b (b.length / 8 + 2) 8 else 8

theorem failReq_le (b : Bytes) (pos : Nat) : failReq b pos ≤ 16 := by
  unfold failReq; split <;> omega

theorem chunksReq_le (b : Bytes) : ∀ (f pos : Nat), chunksReq b f pos ≤ (b.length - pos) + 16 := by
  intro f
  induction f with
  | zero => intro pos; simp [chunksReq]
  | succ f ih =>
    intro pos
    unfold chunksReq
    cases h8 : read8 b pos with
    | none => simp only; have := failReq_le b pos; omega
    | some h =>
      have hp : pos + 8 ≤ b.length := by
        unfold read8 at h8; split at h8 <;> simp_all
      simp only
      split
      · cases h16 : read8 b (pos + 8) with
        | none => simp only; have := failReq_le b (pos + 8); omega
        | some _ => simp only; omega
      · have := ih (pos + 8 + (beNat (h.take 4) + 4) % 2 ^ 32)
        omega

/-- **bytes requested by the PNG chunk walk**: at most len + 16 -/
theorem scanReq_le (b : Bytes) : scanReq b ≤ b.length + 16 := by
  unfold scanReq
  cases h8 : read8 b 0 with
  | none => simp only; have := failReq_le b 0; omega
  | some s =>
    have hp : 8 ≤ b.length := by
      unfold read8 at h8; split at h8 <;> simp_all
    simp only
    split
    · have := chunksReq_le b (b.length / 8 + 2) 8; omega
    · omega

end Imeta.Png
