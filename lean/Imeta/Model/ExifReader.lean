/-
  Model of the directory walk of the streaming Exif reader (exif2/reader.go): readIfdHeader,
  readNextIfdTag, readIfd, readSubIfds, readMakerNotes and the three entry variants
  DecodeTiff / DecodeJPEGIfd / DecodeIfd, plus the glue of exif2.Parse and imagemeta.DecodeTiff.
-/
import Imeta.Model.Exif
namespace Imeta.Exif
open Imeta

/-- the entries loop of readIfdHeader: embedded tags are parsed at once, the others queued -/
def entriesLoop (tb : Tables) (ifd : Ifd) (buf : Bytes) : Nat → Nat → R → Outcome R
  | 0, _, r => .ok r
  | n+1, i, r => do
    let e ← slc buf (i * 12) buf.length
    let ot ← tagFromBuffer ifd e
    match ot with
    | none => entriesLoop tb ifd buf n (i + 1) r
    | some t =>
      if t.isEmbedded then do
        let r1 ← parseTag tb r t
        entriesLoop tb ifd buf n (i + 1) r1
      else entriesLoop tb ifd buf n (i + 1) (addTag r t)

/-- `buffer.nextTag()` (repaired): the slot after `pos` if it is live, else the zero tag -/
def nextTagOff (r : R) : Nat := match r.tags[r.pos + 1]? with | some t => t.off | none => 0

/-- readNextIfdTag -/
def readNextIfdTag (r : R) (ifd : Ifd) : Outcome (R × Option ErrKind) :=
  if nextTagOff r ≤ r.po then
    let rd := fastRead r 4
    match rd.err with
    | some e => .ok (rd.r, some e)
    | none => do
      let nx ← u32 ifd.order rd.buf
      if ifd.typ = ifd0 ∧ nx ≠ 0 then
        .ok (addTag rd.r { id := 0x014a, typ := tIfd, count := 4, off := nx, ifd := ifd0, idx := (ifd.idx + 1) % 256, order := ifd.order }, none)
      else .ok (rd.r, none)
  else .ok (r, none)

/-- readIfdHeader: `some e` is the error it returns (the caller decides whether it matters) -/
def readIfdHeader (tb : Tables) (r : R) (ifd : Ifd) : Outcome (R × Option ErrKind) :=
  let rd := fastRead r 2
  match rd.err with
  | some e => .ok (rd.r, some e)
  | none => do
    let cnt ← u16 ifd.order rd.buf
    if cnt > 128 then .ok (rd.r, none)      -- logged, and the nil error is returned
    else
      let rd2 := fastRead rd.r (cnt * 12)
      match rd2.err with
      | some e => .ok (rd2.r, some e)
      | none => do
        let r3 ← entriesLoop tb ifd rd2.buf cnt 0 rd2.r
        readNextIfdTag r3 ifd

/-- readSubIfds -/
def subIfdsLoop (t : Tag) (buf : Bytes) : Nat → Nat → R → Outcome R
  | 0, _, r => .ok r
  | n+1, i, r =>
    if i < t.count ∧ 4 * i + 4 ≤ buf.length then do
      let s ← slc buf (4 * i) buf.length
      let v ← u32 t.order s
      subIfdsLoop t buf n (i + 1) (addTag r { id := t.id, typ := tIfd, count := 4, off := v, ifd := (subIfd0 + i) % 256, idx := 0, order := t.order })
    else .ok r

def readSubIfds (r : R) (t : Tag) : Outcome R :=
  if t.typ = tLong then
    let rd := readTagValue r t
    if rd.err.isSome then .ok rd.r else subIfdsLoop t rd.buf (rd.buf.length / 4 + 1) 0 rd.r
  else .ok r

def nikonHdr : Bytes := [78, 105, 107, 111, 110]

/-- readMakerNotes -/
def readMakerNotes (tb : Tables) (r : R) (t : Tag) : Outcome R :=
  if r.ex.cameraMake = canonMake then do
    let (r1, _) ← readIfdHeader tb r t.childIfd
    .ok r1
  else if r.ex.cameraMake = nikonMake then
    if t.size > 18 then
      let rd := fastRead r 18
      if rd.err.isSome then .ok rd.r
      else do
        let h ← slc rd.buf 0 5
        if h == nikonHdr then do
          let r1 := { rd.r with ex := { rd.r.ex with imageType := 10 } }
          let bo ← slc rd.buf 10 14
          let order := Tiff.binaryOrder bo
          if order != .unknown then do
            let o ← slc rd.buf 14 18
            let v ← u32 order o
            let (r2, _) ← readIfdHeader tb r1 { off := t.off, base := (t.off + v) % 2 ^ 32, order := order, typ := mknoteIFD, idx := t.idx }
            .ok r2
          else .ok r1
        else .ok rd.r
    else .ok r
  else .ok r

/-- the `switch t.Ifd` of readIfd for a directory-pointer tag: which child directory is read -/
def ifdChild (tb : Tables) (r2 : R) (t : Tag) : Outcome R :=
  if t.ifd = ifd0 then
    (if t.id = 0x8825 ∨ t.id = 0x8769 then do let (x, _) ← readIfdHeader tb r2 t.childIfd; .ok x else .ok r2)
  else if subIfd0 ≤ t.ifd ∧ t.ifd ≤ subIfd0 + 5 then do let (x, _) ← readIfdHeader tb r2 t.childIfd; .ok x
  else if t.ifd = exifIFD then (if t.id = 0x927c then readMakerNotes tb r2 t else .ok r2)
  else .ok r2

/-- the work loop of readIfd -/
def ifdLoop (tb : Tables) : Nat → R → Outcome R
  | 0, _ => .fuel
  | f+1, r =>
    if r.pos < r.tags.length then
      match r.tags[r.pos]? with
      | none => .ok r
      | some t =>
        if t.typ = tIfd then do
          let (r1, _) := discard r ((t.off : Int) - r.po)      -- seekToTag: the error is only logged
          let r2 := resetPosition r1
          let r3 ← ifdChild tb r2 t
          ifdLoop tb f { r3 with pos := r3.pos + 1 }
        else if t.id = 0x014a ∧ t.ifd = ifd0 then do
          let r1 ← readSubIfds r t
          ifdLoop tb f { r1 with pos := r1.pos + 1 }
        else do
          let r1 ← parseTag tb r t
          ifdLoop tb f { r1 with pos := r1.pos + 1 }
    else .ok r

/-- readIfd -/
def readIfd (tb : Tables) (fuel : Nat) (r : R) (ifd : Ifd) : Outcome (R × Option ErrKind) := do
  let (r1, e) ← readIfdHeader tb r ifd
  match e with
  | some k => .ok (r1, some k)
  | none => do
    let r2 ← ifdLoop tb fuel r1
    .ok (r2, none)

structure Hdr where
  order : ByteOrder
  firstIfd : Nat
  firstIfdType : Nat
  exifLength : Nat
  imageType : Nat

def fuelFor (b : Bytes) : Nat := 200 * (b.length + 16)

/-- ir.DecodeTiff -/
def decodeTiff (tb : Tables) (rest : Bytes) (buffered : Bool) (h : Hdr) : Outcome (R × Option ErrKind) :=
  let r : R := { rest := rest, po := 0, exifLength := 4 * 1024 * 1024, buffered := buffered, ex := { imageType := h.imageType } }
  match discard r h.firstIfd with
  | (r1, some e) => .ok (r1, some e)
  | (r1, none) => readIfd tb (fuelFor rest) r1 { off := 0, base := 0, order := h.order, typ := h.firstIfdType, idx := 0 }

/-- ir.DecodeJPEGIfd -/
def decodeJPEGIfd (tb : Tables) (rest : Bytes) (buffered : Bool) (h : Hdr) : Outcome (R × Option ErrKind) := do
  let r : R := { rest := rest, po := 0, exifLength := h.exifLength, buffered := buffered, ex := { imageType := h.imageType } }
  let (r1, _) := discard r h.firstIfd      -- the error is only logged
  let (r2, e) ← readIfd tb (fuelFor rest) r1 { off := 0, base := 0, order := h.order, typ := h.firstIfdType, idx := 0 }
  match e with
  | some k => .ok (r2, some k)
  | none =>
    let (r3, e3) := discard r2 ((r2.exifLength : Int) - r2.po)
    .ok (r3, e3)

/-- ir.DecodeIfd (CR3 CMT boxes): the position starts at the first-IFD offset without discarding -/
def decodeIfd (tb : Tables) (rest : Bytes) (buffered : Bool) (h : Hdr) : Outcome (R × Option ErrKind) :=
  let r : R := { rest := rest, po := h.firstIfd, exifLength := h.exifLength, buffered := buffered, ex := { imageType := h.imageType } }
  readIfd tb (fuelFor rest) r { off := 0, base := 0, order := h.order, typ := h.firstIfdType, idx := 0 }

/-- exif2.Parse on an in-memory ReadSeeker: header search (through the reader's own small reads), seek to the
header, DecodeTiff without a bufio.Reader.  `ScanTiffHeader` gets a non-bufio reader here, which it wraps. -/
def parse (tb : Tables) (b : Bytes) : Outcome (Option (R × Option ErrKind)) :=
  match Tiff.scan (b.length + 1) b 0 with
  | .ok h =>
    (decodeTiff tb (b.drop h.offset) false { order := h.order, firstIfd := h.firstIfd, firstIfdType := ifd0, exifLength := 0, imageType := 0 }).bind
      fun x => .ok (some x)
  | .err _ => .ok none
  | .panic s => .panic s
  | .fuel => .fuel

end Imeta.Exif
