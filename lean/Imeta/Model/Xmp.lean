/-
  Model of the streaming XMP reader (xmp/reader.go, xmp/xmp.go ParseXmp, xmp/tag.go) down to the stream of
  (kind, parent property, property, value) tuples it hands to the per-namespace value parsers (xmp/parser.go `parser`).
  The bufio.Reader (1538 bytes for ParseXmp on a plain reader) is abstracted to the logical stream: a Peek sees at most
  the next 1538 unread bytes. Index-out-of-range panics are recovered by ParseXmp and surface as an error.
  Property identification uses the regenerated tables of xmp/xmpns.
-/
import Imeta.Go.Basic
import Imeta.Gen.Enums
namespace Imeta.Xmp
open Imeta

def W : Nat := 1538

inductive XErr where
  | noXMP | eof | bufferFull | negativeRead | recovered | unexpectedEOF | fuel
  deriving DecidableEq, Repr

def XErr.name : XErr → String
  | .noXMP => "NoXMP" | .eof => "EOF" | .bufferFull => "BufferFull" | .negativeRead => "NegativeRead"
  | .recovered => "Recovered" | .unexpectedEOF => "UnexpectedEOF" | .fuel => "fuel"

abbrev Prop2 := Nat × Nat   -- (namespace, name)

def lookup (t : List (Bytes × Int)) (k : Bytes) : Nat :=
  match t.find? (fun e => e.1 == k) with
  | some e => e.2.toNat
  | none => 0

/-- xmpns.IdentifyProperty -/
def identify (space name : Bytes) : Prop2 :=
  (lookup Gen.Enums.xmp_xmpns_mapStringNS_data space % 256, lookup Gen.Enums.xmp_xmpns_mapStringName_data name % 256)

def s (x : String) : Bytes := x.toUTF8.toList
def rootProp : Prop2 := identify (s "x") (s "xmpmeta")
def rdfSeq : Prop2 := identify (s "rdf") (s "Seq")
def rdfAlt : Prop2 := identify (s "rdf") (s "Alt")
def rdfBag : Prop2 := identify (s "rdf") (s "Bag")

inductive TagT where | none | start | solo | stop
  deriving DecidableEq, Repr

structure Tok where
  pt : Nat          -- 1 attribute, 2 tag
  parent : Prop2
  self : Prop2
  val : Bytes
  deriving Repr

structure St where
  rest : Bytes
  a : Bool
  toks : List Tok    -- newest first

structure Tag where
  t : TagT := .none
  parent : Prop2 := (0, 0)
  self : Prop2 := (0, 0)
  deriving Repr

abbrev M (α : Type) := St → Except XErr α × St

instance : Monad M where
  pure a := fun st => (.ok a, st)
  bind m f := fun st => match m st with
    | (.ok a, st') => f a st'
    | (.error e, st') => (.error e, st')

def fail {α} (e : XErr) : M α := fun st => (.error e, st)

/-- xmpReader.Peek: a short read at the end of the stream is accepted when more than 4 bytes are left -/
def peek (n : Nat) : M Bytes := fun st =>
  if n > W then (.error .bufferFull, st)
  else if st.rest.length < n then
    (if st.rest.length > 4 then (.ok st.rest, st) else (.error .eof, st))
  else (.ok (st.rest.take n), st)

/-- the raw bufio Peek of readTagHeader's second look (n ≤ the buffer size): everything there is up to n bytes, no error;
the earlier slice `old` is kept only when it already has n bytes -/
def peekWide (n : Nat) (old : Bytes) : M Bytes := fun st =>
  (.ok (if n > old.length then st.rest.take n else old), st)

def discard (n : Nat) : M Unit := fun st => (.ok (), { st with rest := st.rest.drop n })
def setA (b : Bool) : M Unit := fun st => (.ok (), { st with a := b })
def getA : M Bool := fun st => (.ok st.a, st)
/-- XMP.parser: properties with an empty value are ignored -/
def emit (t : Tok) : M Unit := fun st => (.ok (), if t.val.isEmpty then st else { st with toks := t :: st.toks })

/-- `buf[i]` with Go's bounds check (the panic is recovered by ParseXmp) -/
def at? (buf : Bytes) (i : Nat) : M UInt8 :=
  match buf[i]? with
  | some b => pure b
  | none => fail .recovered

/-- isSpace: space, line feed, tab, carriage return -/
def isWs (b : UInt8) : Bool := b == 32 || b == 10 || b == 9 || b == 13

def idxFrom (p : UInt8 → Bool) (buf : Bytes) (i : Nat) : Nat :=
  i + ((buf.drop i).findIdx p)

/-- parseAttrName -/
def parseAttrName (buf : Bytes) : Option (Prop2 × Nat) :=
  let a := idxFrom (fun b => !isWs b) buf 0
  let b := idxFrom (fun x => x == 58) buf (a + 1)
  let c := idxFrom (fun x => x == 61 || isWs x) buf (b + 2)
  if c < buf.length then some (identify ((buf.drop a).take (b - a)) ((buf.drop (b + 1)).take (c - (b + 1))), c) else none

/-- parseTagName -/
def parseTagName (buf : Bytes) : Option (Prop2 × Nat) :=
  let a := idxFrom (fun x => x == 58) buf 0
  let b := idxFrom (fun x => x == 62 || isWs x || x == 47) buf (a + 1)
  if b < buf.length then some (identify (buf.take a) ((buf.drop (a + 1)).take (b - (a + 1))), b) else none

/-- readAttrValue: growing windows of 256, 768, 1280 bytes -/
def readAttrValue (tag : Tag) : Nat → Nat → M (Bytes × Tag)
  | 0, _ => fail .fuel
  | f+1, sz => do
    let buf ← peek sz
    let b0 ← at? buf 0
    -- (repaired) white space may follow the '=': the quote is the first non-blank byte after it (o = its index + 1)
    let o := idxFrom (fun b => !isWs b) buf 1 + 1
    let b1 := buf.getD (o - 1) 0
    if b0 == 61 && (b1 == 34 || b1 == 39) then
      let k := (buf.drop o).findIdx (fun x => x == b1)
      if o + k + 2 < buf.length then
        let i := o + k
        let n1 ← at? buf (i + 1)
        if n1 == 62 then do
          setA false
          discard (i + 2)
          pure ((buf.drop o).take (i - o), tag)
        else if n1 == 47 then do
          let n2 ← at? buf (i + 2)
          if n2 == 62 then do
            setA false
            discard (i + 3)
            pure ((buf.drop o).take (i - o), { tag with t := .solo })
          else do
            discard (i + 1)
            pure ((buf.drop o).take (i - o), tag)
        else do
          discard (i + 1)
          pure ((buf.drop o).take (i - o), tag)
      else readAttrValue tag f (sz + 512)
    else readAttrValue tag f (sz + 512)

/-- the white space in front of an attribute name is consumed window by window -/
def skipAttrWs : Nat → M Bytes
  | 0 => fail .fuel
  | f+1 => do
    let buf ← peek 128
    let n := buf.findIdx (fun b => !isWs b)
    if n == 0 then pure buf
    else do
      discard n
      skipAttrWs f

/-- readAttribute -/
def readAttribute (tag : Tag) : M (Tok × Tag) := do
  let len ← (fun st => (.ok st.rest.length, st) : M Nat)
  let buf ← skipAttrWs (len + 2)
  -- (repaired) white space may separate the last attribute, or the tag name, from the '>' or "/>" that ends the tag:
  -- there is no further attribute then (an attribute without a value is ignored by the caller)
  if buf.take 1 == [62] then do
    setA false
    discard 1
    pure ({ pt := 1, parent := tag.self, self := (0, 0), val := [] }, tag)
  else if buf.take 2 == [47, 62] then do
    setA false
    discard 2
    pure ({ pt := 1, parent := tag.self, self := (0, 0), val := [] }, { tag with t := .solo })
  else
  match parseAttrName buf with
  | none => fail .negativeRead
  | some (p, d) =>
    discard d
    -- (repaired) white space may separate the name from the '='
    let _ ← skipAttrWs (len + 2)
    let (v, tag') ← readAttrValue tag 8 256
    pure ({ pt := 1, parent := tag.self, self := p, val := v }, tag')

/-- the scan for '<' in readTagHeader: windows of 128, 256, ... bytes, continuing at index i -/
def findTagStart : Nat → Nat → Nat → M (TagT × Bytes × Nat)
  | 0, _, _ => fail .fuel
  | f+1, sz, i => do
    let buf ← peek sz
    let k := idxFrom (fun x => x == 60) buf i
    if k < buf.length then
      -- (repaired) the tag name may lie beyond this window: look ahead from the '<' on, as far as the buffer allows
      let buf ← (if buf.length - k < 128 then peekWide (min (k + 128) W) buf else pure buf)
      if k + 1 ≥ buf.length then fail .unexpectedEOF
      else
      let n1 ← at? buf (k + 1)
      if n1 == 47 then pure (.stop, buf.drop (k + 2), k + 2)
      else if n1 == 63 then fail .eof
      else pure (.start, buf.drop (k + 1), k + 1)
    else findTagStart f (sz + 128) (max i buf.length)

/-- readTagHeader -/
def readTagHeader (parent : Tag) : M Tag := do
  let (t, buf, i) ← findTagStart 16 128 0
  match parseTagName buf with
  | none => fail .negativeRead
  | some (p, d) =>
    let c ← at? buf d
    if c == 62 then do
      setA false
      discard (d + 1 + i)
      pure { t := t, parent := parent.self, self := p }
    else if isWs c then do
      setA true
      discard (d + i)
      pure { t := t, parent := parent.self, self := p }
    else do
      -- '/': solo tag when followed by '>'
      let c1 ← at? buf (d + 1)
      if c1 == 62 then do
        setA false
        discard (d + 2 + i)
        pure { t := .solo, parent := parent.self, self := p }
      else do
        discard (d + i)
        pure { t := t, parent := parent.self, self := p }

/-- readTagValue: windows of 512, 1024, 1536 bytes -/
def readTagValue : Nat → Nat → Nat → Nat → M Bytes
  | 0, _, _, _ => fail .fuel
  | f+1, sz, i, j => do
    let buf ← peek sz
    -- (repaired) no '>' or "/>" is skipped here: the tag header or its last attribute has consumed it
    -- (repaired) leading white space is skipped across windows: `i == j` exactly while nothing but white space was seen
    let ij : Nat × Nat := if i == j then
        let i2 := idxFrom (fun b => !isWs b) buf i
        (i2, i2)
      else (i, j)
    let k := idxFrom (fun x => x == 60) buf ij.2
    if k < buf.length then do
      discard k
      pure ((buf.drop ij.1).take (k - ij.1))
    else readTagValue f (sz + 512) ij.1 (max ij.2 buf.length)

def isEndTag (t : Tag) (p : Prop2) : Bool := t.t == .stop && t.self == p
def isRootStop (t : Tag) : Bool := t.t == .stop && t.self == rootProp

/-- the attribute loop shared by readTag and readSeqTags; `seqOf` = some (parent.parent) inside a Seq/Bag/Alt -/
def attrLoop (seqOf : Option Prop2) : Nat → Tag → M Tag
  | 0, _ => fail .fuel
  | f+1, tag => do
    if ← getA then
      let (tok, tag') ← readAttribute tag
      match seqOf with
      | none => emit tok
      | some pp => emit { tok with parent := tok.self, self := pp }
      attrLoop seqOf f tag'
    else pure tag

/-- readSeqTags -/
def readSeqTags (parent : Tag) : Nat → M Unit
  | 0 => fail .fuel
  | f+1 => do
    let tag ← readTagHeader parent
    if isEndTag tag parent.self then pure ()
    else if tag.t == .start then do
      let len ← (fun st => (.ok st.rest.length, st) : M Nat)
      let _ ← attrLoop (some parent.parent) (len + 2) tag
      let v ← readTagValue 8 512 0 0
      emit { pt := 2, parent := parent.self, self := parent.parent, val := v }
      readSeqTags parent f
    else readSeqTags parent f

/-- readTag. Fuel: every round consumes at least one byte of the stream. -/
def readTag : Nat → Tag → M Tag
  | 0, _ => fail .fuel
  | f+1, parent => do
    let tag ← readTagHeader parent
    if isEndTag tag parent.self then pure tag
    else
      let len ← (fun st => (.ok st.rest.length, st) : M Nat)
      let tag ← attrLoop none (len + 2) tag
      let tag ← (if tag.t == .start then
          (if tag.self == rdfSeq || tag.self == rdfAlt || tag.self == rdfBag then do
            readSeqTags tag f
            pure tag
          else do
            let v ← readTagValue 8 512 0 0
            emit { pt := 2, parent := tag.parent, self := tag.self, val := v }
            readTag f tag)
        else pure tag : M Tag)
      if isRootStop tag then pure tag else readTag f parent

/-- bufio.Reader.ReadSlice(delim) on the logical stream -/
def readSlice (d : UInt8) : M (Option XErr) := fun st =>
  let w := st.rest.take W
  let k := w.findIdx (fun x => x == d)
  if k < w.length then (.ok none, { st with rest := st.rest.drop (k + 1) })
  else if st.rest.length < W then (.ok (some .eof), { st with rest := [] })
  else (.ok (some .bufferFull), { st with rest := st.rest.drop W })

/-- readRootTag -/
def readRootTag : Nat → M Tag
  | 0 => fail .fuel
  | f+1 => do
    match ← readSlice 60 with
    | some .eof => fail .noXMP
    | some _ => readRootTag f
    | none =>
      -- bufio Peek(10) directly: any shortfall is an error
      let st ← (fun st => (.ok st, st) : M St)
      if st.rest.length < 10 then fail .eof
      else if st.rest.take 9 == s "x:xmpmeta" then do
        match ← readSlice 62 with
        | none => pure { t := .start, self := rootProp }
        | some e => fail e
      else readRootTag f

/-- ParseXmp -/
def parseXmp (b : Bytes) : Except XErr Unit × List Tok :=
  let st0 : St := { rest := b, a := false, toks := [] }
  let fuel := b.length + 8
  let r := (do
    let root ← readRootTag fuel
    let rec loop : Nat → M Unit
      | 0 => fail .fuel
      | f+1 => do
        let tag ← readTag fuel root
        if isRootStop tag then pure () else loop f
    loop fuel : M Unit) st0
  (r.1, r.2.toks.reverse)

end Imeta.Xmp
