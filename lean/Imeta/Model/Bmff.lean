/-
  Model of the ISOBMFF reader (isobmff/box.go, reader.go, moov.go, crx.go, uuid.go, prvw.go, ftyp.go, hdlr.go, pitm.go,
  iinf.go, iloc.go, iref.go, iprp.go, idat.go — after the `fix:` commits).

  The bufio.Reader is abstracted to the logical stream (`rest` = unread bytes, `pos` = bytes consumed); that this
  abstraction is sound for every read schedule is C08. Open boxes form a stack (`chain`, innermost first): the Go
  code links each box to its parent through `outer` and only ever works on the innermost open box.
  `lim` is a ghost field (absolute end of the box in stream coordinates); no decision of the model depends on it.
-/
import Imeta.Go.Basic
import Imeta.Model.Tiff
namespace Imeta.Bmff
open Imeta

structure Box where
  size : Int
  remain : Int
  offset : Int
  flags : Nat
  typ : Bytes
  lim : Int
  deriving Repr, Inhabited

inductive Res (α : Type) where
  | ok (a : α)
  | err (k : ErrKind)
  | panic (s : String)
  deriving Repr

/-- how the harness callback consumes the reader it is handed -/
inductive Cb where
  | drain | none | fail | k7
  deriving Repr, DecidableEq, Inhabited

structure Ev where
  kind : String
  nums : List Nat
  data : Bytes
  deriving Repr

structure Cfg where
  cb : Cb := .drain
  hasExif : Bool := true
  hasXmp : Bool := true
  hasPrvw : Bool := true
  deriving Repr, Inhabited

structure St where
  rest : Bytes
  pos : Nat
  chain : List Box
  exifId : Nat
  xmlId : Nat
  exifOff : Nat
  exifLen : Nat
  events : List Ev
  cfg : Cfg
  deriving Repr, Inhabited

def St.init (b : Bytes) (cfg : Cfg) : St :=
  { rest := b, pos := 0, chain := [], exifId := 0, xmlId := 0, exifOff := 0, exifLen := 0, events := [], cfg := cfg }

abbrev M (α : Type) := St → Res α × St

@[inline] def M.pure {α} (a : α) : M α := fun s => (.ok a, s)
@[inline] def M.bind {α β} (m : M α) (f : α → M β) : M β := fun s =>
  match m s with
  | (.ok a, s') => f a s'
  | (.err k, s') => (.err k, s')
  | (.panic p, s') => (.panic p, s')
instance : Monad M where
  pure := M.pure
  bind := M.bind

def fail {α} (k : ErrKind) : M α := fun s => (.err k, s)
/-- `err = f(); if err != nil { log }`: the error becomes a value, panics still propagate -/
def attempt {α} (m : M α) : M (Except ErrKind α) := fun s =>
  match m s with
  | (.ok a, s') => (.ok (.ok a), s')
  | (.err k, s') => (.ok (.error k), s')
  | (.panic p, s') => (.panic p, s')
def get : M St := fun s => (.ok s, s)
def modify (f : St → St) : M Unit := fun s => (.ok (), f s)

/-- int(uint64) -/
def toI64 (n : Nat) : Int :=
  if n % 2 ^ 64 < 2 ^ 63 then ((n % 2 ^ 64 : Nat) : Int) else ((n % 2 ^ 64 : Nat) : Int) - 2 ^ 64

/-! ### the three stream operations of a box (box.Peek / box.Discard / box.Read) -/

def chainOk (c : List Box) (n : Int) : Bool := c.all (fun b => decide (n ≤ b.remain))

/-- box.Peek → ... → bufio.Reader.Peek (buffer of 4096 bytes) -/
def peek (n : Int) : M Bytes := fun s =>
  if !chainOk s.chain n then (.err .remainInsufficient, s)
  else if n < 0 then (.err .negativeCount, s)
  else if n > 4096 then (.err .bufferFull, s)
  else if s.rest.length < n.toNat then (.err .eof, s)
  else (.ok (s.rest.take n.toNat), s)

/-- `remain -= n` level by level; stops at the first level that refuses -/
def decChain : List Box → Int → List Box × Bool
  | [], _ => ([], true)
  | b :: t, n =>
    if n ≤ b.remain then
      let r := decChain t n
      ({ b with remain := b.remain - n } :: r.1, r.2)
    else (b :: t, false)

/-- box.Discard → ... → Reader.discard. A negative count is refused by bufio (the box that asked is abandoned by its caller). -/
def discard (n : Int) : M Unit := fun s =>
  if n < 0 then (if chainOk s.chain n then (.err .negativeCount, s) else (.err .remainInsufficient, s))
  else
    let r := decChain s.chain n
    let s1 := { s with chain := r.1 }
    if !r.2 then (.err .remainInsufficient, s1)
    else
      let m := min n.toNat s1.rest.length
      let s2 := { s1 with rest := s1.rest.drop m, pos := s1.pos + m }
      if m < n.toNat then (.err .eof, s2) else (.ok (), s2)

/-- what is left of the innermost box and of every box around it -/
def limit : List Box → Int
  | [] => 0
  | [b] => b.remain
  | b :: t => min b.remain (limit t)

def subAll (c : List Box) (m : Int) : List Box := c.map (fun b => { b with remain := b.remain - m })

/-- io.ReadFull / io.ReadAll through box.Read: at most `k` bytes, never more than `limit` -/
def readUpTo (k : Nat) : M Bytes := fun s =>
  let m := min (min k (limit s.chain).toNat) s.rest.length
  (.ok (s.rest.take m), { s with rest := s.rest.drop m, pos := s.pos + m, chain := subAll s.chain m })

def head : M Box := fun s =>
  match s.chain with
  | b :: _ => (.ok b, s)
  | [] => (.panic "no-box", s)

def setHead (f : Box → Box) : M Unit := modify fun s =>
  match s.chain with
  | b :: t => { s with chain := f b :: t }
  | [] => s

/-- work inside a newly opened box: it is the innermost box while `body` runs and is dropped afterwards, whatever
`body` did. `lim` (ghost) is the absolute end the box declares. -/
def openBox {α} (size remain offset : Int) (typ : Bytes) (body : M α) : M α := fun s =>
  let b : Box := { size := size, remain := remain, offset := offset, flags := 0, typ := typ, lim := s.pos + max remain 0 }
  let r := body { s with chain := b :: s.chain }
  (r.1, { r.2 with chain := r.2.chain.tail })

/-- box.close -/
def close : M Unit := do
  let b ← head
  if b.remain == 0 then pure () else discard b.remain

def be32 (b : Bytes) : Nat := beNat (b.take 4)
/-! four-character codes -/
def t_CMT1 : Bytes := [67, 77, 84, 49]   -- "CMT1"
def t_CMT2 : Bytes := [67, 77, 84, 50]   -- "CMT2"
def t_CMT3 : Bytes := [67, 77, 84, 51]   -- "CMT3"
def t_CMT4 : Bytes := [67, 77, 84, 52]   -- "CMT4"
def t_CNCV : Bytes := [67, 78, 67, 86]   -- "CNCV"
def t_CTBO : Bytes := [67, 84, 66, 79]   -- "CTBO"
def t_Exif : Bytes := [69, 120, 105, 102]   -- "Exif"
def t_PRVW : Bytes := [80, 82, 86, 87]   -- "PRVW"
def t_ftyp : Bytes := [102, 116, 121, 112]   -- "ftyp"
def t_hdlr : Bytes := [104, 100, 108, 114]   -- "hdlr"
def t_idat : Bytes := [105, 100, 97, 116]   -- "idat"
def t_iinf : Bytes := [105, 105, 110, 102]   -- "iinf"
def t_iloc : Bytes := [105, 108, 111, 99]   -- "iloc"
def t_infe : Bytes := [105, 110, 102, 101]   -- "infe"
def t_ipco : Bytes := [105, 112, 99, 111]   -- "ipco"
def t_ipma : Bytes := [105, 112, 109, 97]   -- "ipma"
def t_iprp : Bytes := [105, 112, 114, 112]   -- "iprp"
def t_iref : Bytes := [105, 114, 101, 102]   -- "iref"
def t_mdat : Bytes := [109, 100, 97, 116]   -- "mdat"
def t_meta : Bytes := [109, 101, 116, 97]   -- "meta"
def t_mime : Bytes := [109, 105, 109, 101]   -- "mime"
def t_moov : Bytes := [109, 111, 111, 118]   -- "moov"
def t_pitm : Bytes := [112, 105, 116, 109]   -- "pitm"
def t_trak : Bytes := [116, 114, 97, 107]   -- "trak"
def t_uuid : Bytes := [117, 117, 105, 100]   -- "uuid"

/-! ### box headers -/

/-- Reader.readBox followed by `body` on the opened top-level box -/
def topBox (body : Bytes → M Unit) : M Unit := do
  match ← attempt (peek 16) with
  | .error _ => fail .bufLength
  | .ok buf =>
    let s ← get
    let size : Int := be32 buf
    let typ := (buf.drop 4).take 4
    let size64 := toI64 (beNat ((buf.drop 8).take 8))
    if size == 1 && size64 < 0 then fail .largeBox
    else
      let sz := if size == 1 then size64 else size
      let hdr : Int := if size == 1 then 16 else 8
      openBox sz sz s.pos typ do
        discard hdr
        body typ

inductive OnErr where | brk | ret | cont
  deriving DecidableEq

inductive Next where
  | stop | again | failWith (e : ErrKind)

/-- one round of `for inner, ok, err = b.readInnerBox(); err == nil && ok; ...`: box.readInnerBox, the handler (its
error is logged only), closing the inner box; what a failing close does depends on the caller. An error from
readInnerBox ends the loop (every caller then overwrites it with the result of closing the parent). -/
def innerStep (h : Bytes → M Unit) (oe : OnErr) : M Next := do
  let b ← head
  if b.remain < 8 then pure .stop
  else
    match ← attempt (peek 16) with
    | .error _ => pure .stop
    | .ok buf =>
      let size : Int := be32 buf
      let typ := (buf.drop 4).take 4
      let size64 := toI64 (beNat ((buf.drop 8).take 8))
      if size == 1 && size64 < 0 then pure .stop
      else
        let sz := if size == 1 then size64 else size
        let hdr : Int := if size == 1 then 16 else 8
        openBox sz sz (b.size - b.remain + b.offset) typ do
          match ← attempt (discard hdr) with
          | .error _ => pure .stop
          | .ok _ =>
            let _ ← attempt (h typ)
            match ← attempt close with
            | .ok _ => pure .again
            | .error e => pure (if oe == .ret then .failWith e else if oe == .brk then .stop else .again)

def innerLoop (h : Bytes → M Unit) (oe : OnErr) : Nat → M Unit
  | 0 => fun s => (.panic "fuel", s)
  | f+1 => do
    match ← innerStep h oe with
    | .stop => pure ()
    | .again => innerLoop h oe f
    | .failWith e => fail e

def loopFuel : M Nat := fun s => (.ok (s.rest.length / 8 + 2), s)

def readFlags : M Unit := do
  match ← attempt (peek 4) with
  | .error _ => fail .bufLength
  | .ok buf =>
    setHead fun b => { b with flags := be32 buf }
    discard 4

def readUint16 : M Nat := do
  match ← attempt (peek 2) with
  | .error _ => fail .bufLength
  | .ok buf =>
    discard 2
    pure (beNat buf)

/-! ### callbacks -/

def emit (e : Ev) : M Unit := modify fun s => { s with events := e :: s.events }

/-- the harness callback: consumes through the reader it was handed, then the event is recorded -/
def callback (kind : String) (nums : List Nat) : M Unit := do
  let s ← get
  match s.cfg.cb with
  | .drain => do
    let d ← readUpTo (s.rest.length)
    emit { kind := kind, nums := nums, data := d }
  | .none => emit { kind := kind, nums := nums, data := [] }
  | .k7 => do
    let d ← readUpTo 7
    emit { kind := kind, nums := nums, data := d }
  | .fail => do
    let d ← readUpTo 5
    emit { kind := kind, nums := nums, data := d }
    fail .other

/-! ### CR3 -/

/-- readExifHeader: byte order and first-IFD offset from the payload's own Tiff header -/
def readExifHeader (firstIfd : Nat) : M (List Nat) := do
  let buf ← peek 16
  let b ← head
  let order := Tiff.binaryOrder buf
  let fio := order.uint ((buf.drop 4).take 4)
  discard 8
  -- FirstIfd, ByteOrder, FirstIfdOffset, ExifLength (uint32 of remain before the header is consumed), TiffHeaderOffset, ImageType (always CR3 = 15)
  pure [firstIfd, order.code, fio, (b.remain % 2 ^ 32).toNat, 0, 15]

def readCMT (firstIfd : Nat) : M Unit := do
  let h ← readExifHeader firstIfd
  let s ← get
  if s.cfg.hasExif then
    let _ ← attempt (callback "exif" h)
  close

def readCNCV : M Unit := do
  let _ ← peek 30
  close

def readCTBO : M Unit := do
  let b ← head
  let _ ← peek b.remain
  close

def crxHandler (t : Bytes) : M Unit :=
  if t == t_CNCV then readCNCV
  else if t == t_CTBO then readCTBO
  else if t == t_CMT1 then readCMT 1      -- ifds.IFD0
  else if t == t_CMT2 then readCMT 3      -- ifds.ExifIFD
  else if t == t_CMT3 then readCMT 6      -- ifds.MknoteIFD
  else if t == t_CMT4 then readCMT 4      -- ifds.GPSIFD
  else pure ()

def readCrxMoov : M Unit := do
  innerLoop crxHandler .ret (← loopFuel)
  close

/-! ### preview -/

/-- parsePreviewBox, the preview callback and closing the PRVW box, inside that box -/
def prvwBody (typ : Bytes) : M (Except ErrKind Unit) := do
  if typ != t_PRVW then pure (Except.error ErrKind.wrongBoxType)
  else
    match ← attempt (peek 24) with
    | .error _ => pure (Except.error ErrKind.bufLength)
    | .ok pb =>
      let w := beNat ((pb.drop 14).take 2)
      let hgt := beNat ((pb.drop 16).take 2)
      let sz := beNat ((pb.drop 20).take 4)
      match ← attempt (discard 24) with
      | .error _ => pure (Except.error ErrKind.bufLength)
      | .ok _ =>
        let s ← get
        if s.cfg.hasPrvw then
          let _ ← attempt (callback "prvw" [sz, w, hgt])
        attempt close

def readPreview : M Unit := do
  -- createPRVWBox
  match ← attempt (discard 8) with
  | .error _ => fail .bufLength
  | .ok _ =>
  match ← attempt (peek 8) with
  | .error _ => fail .bufLength
  | .ok buf =>
    let b ← head
    let size : Int := be32 buf
    let typ := (buf.drop 4).take 4
    let r ← openBox size size (b.size - b.remain + b.offset) typ (prvwBody typ)
    match r with
    | .ok _ => pure ()
    | .error e => fail e

/-! ### uuid -/

def uuidCR3Meta : Bytes := [0x85, 0xc0, 0xb6, 0x87, 0x82, 0x0f, 0x11, 0xe0, 0x81, 0x11, 0xf4, 0xce, 0x46, 0x2b, 0x6a, 0x48]
def uuidXPacket : Bytes := [0xbe, 0x7a, 0xcf, 0xcb, 0x97, 0xa9, 0x42, 0xe8, 0x9c, 0x71, 0x99, 0x94, 0x91, 0xe3, 0xaf, 0xac]
def uuidPreview : Bytes := [0xea, 0xf4, 0x2b, 0x5e, 0x1c, 0x98, 0x4b, 0x88, 0xb9, 0xfb, 0xb7, 0xdc, 0x40, 0x6e, 0x4d, 0x16]

def readUUIDBox : M Unit := do
  match ← attempt (peek 16) with
  | .error _ => fail .bufLength
  | .ok u =>
    discard 16
    let s ← get
    if u == uuidXPacket then
      if s.cfg.hasXmp then
        match ← attempt (callback "xmp" []) with
        | .ok _ => close
        | .error e => do
          let _ ← attempt close
          fail e
      else close
    else if u == uuidCR3Meta then do
      readCrxMoov
      close
    else if u == uuidPreview then do
      readPreview
      close
    else close

/-! ### HEIF meta -/

def readHdlr : M Unit := do
  readFlags
  let b ← head
  let buf ← peek b.remain
  if buf.length < 8 then fail .bufLength else close

def readPitm : M Unit := do
  let b ← head
  let buf ← peek b.remain
  if buf.length < 6 then fail .bufLength else close

def readIdat : M Unit := do
  let _ ← peek 8
  close

def readIpma : M Unit := do
  let _ ← peek 8
  close

def iprpHandler (t : Bytes) : M Unit :=
  if t == t_ipma then readIpma
  else if t == t_ipco then close
  else pure ()

def readIprp : M Unit := do
  innerLoop iprpHandler .cont (← loopFuel)
  close

def readIref : M Unit := do
  readFlags
  -- (repaired) a failing close of an inner box ends the loop at every log level
  innerLoop (fun _ => pure ()) .brk (← loopFuel)
  close

/-- the infe walk over the peeked iinf payload: (exifId, xmlId) updates -/
def infeWalk (buf : Bytes) : Nat → Nat → Nat × Nat → Nat × Nat
  | 0, _, ids => ids
  | f+1, i, ids =>
    if i + 12 ≤ buf.length then
      let size := be32 (buf.drop i)
      if size < 12 || size > buf.length - i then ids
      else if (buf.drop (i + 4)).take 4 != t_infe then infeWalk buf f (i + size) ids
      else if (buf.drop (i + 8)).take 1 != [2] then infeWalk buf f (i + size) ids
      else if size < 21 then infeWalk buf f (i + size) ids
      else
        let itemID := beNat ((buf.drop (i + 12)).take 2)
        let itemType := (buf.drop (i + 16)).take 4
        let ids := if itemType == t_mime then (ids.1, itemID) else if itemType == t_Exif then (itemID, ids.2) else ids
        infeWalk buf f (i + size) ids
    else ids

def readInfe : M Unit := do
  let b ← head
  let buf ← peek b.remain
  let s ← get
  let ids := infeWalk buf (buf.length / 12 + 1) 0 (s.exifId, s.xmlId)
  modify fun s => { s with exifId := ids.1, xmlId := ids.2 }
  close

def readIinf : M Unit := do
  readFlags
  let _ ← readUint16
  let _ ← attempt readInfe
  close

def validUintN (n : Nat) : Bool := n == 0 || n == 1 || n == 2 || n == 4 || n == 8

structure IlocCfg where
  version : Nat
  offsetSize : Nat
  lengthSize : Nat
  baseOffsetSize : Nat

/-- the entry walk of readIloc over the peeked payload; returns the (offset, length) recorded for the Exif item -/
def ilocWalk (c : IlocCfg) (exifId xmlId : Nat) (buf : Bytes) : Nat → Nat → Nat × Nat → Nat × Nat
  | 0, _, ol => ol
  | f+1, i, ol =>
    let entrySize := 6 + c.baseOffsetSize + (if c.version > 0 then 2 else 0)
    if i + entrySize ≤ buf.length then
      let id := beNat ((buf.drop i).take 2)
      let i1 := i + entrySize - 2
      let count := beNat ((buf.drop i1).take 2)
      let i2 := i1 + 2
      if count == 0 then
        let ol := if id == exifId then (0, 0) else ol
        ilocWalk c exifId xmlId buf f i2 ol
      else if i2 + c.offsetSize + c.lengthSize > buf.length then ol
      else
        let off := beNat ((buf.drop i2).take c.offsetSize)
        let len := beNat ((buf.drop (i2 + c.offsetSize)).take c.lengthSize)
        let ol := if id == exifId then (off, len) else ol
        ilocWalk c exifId xmlId buf f (i2 + c.offsetSize + c.lengthSize) ol
    else ol

def readIloc : M Unit := do
  -- readIlocHeader
  let hb ← peek 8
  let flags := be32 hb
  setHead fun b => { b with flags := flags }
  let b4 := (hb.drop 4).headD 0
  let b5 := (hb.drop 5).headD 0
  let c : IlocCfg := { version := flags / 2 ^ 24, offsetSize := b4.toNat / 16, lengthSize := b4.toNat % 16, baseOffsetSize := b5.toNat / 16 }
  discard 8
  let b ← head
  let buf ← peek b.remain
  if !(validUintN c.offsetSize && validUintN c.lengthSize && validUintN c.baseOffsetSize) then fail .other
  else
    let s ← get
    let ol := ilocWalk c s.exifId s.xmlId buf (buf.length / 6 + 1) 0 (s.exifOff, s.exifLen)
    modify fun s => { s with exifOff := ol.1, exifLen := ol.2 }
    close

def metaHandler (t : Bytes) : M Unit :=
  if t == t_uuid then readUUIDBox
  else if t == t_hdlr then readHdlr
  else if t == t_pitm then readPitm
  else if t == t_iinf then readIinf
  else if t == t_iref then readIref
  else if t == t_iprp then readIprp
  else if t == t_idat then readIdat
  else if t == t_iloc then readIloc
  else pure ()

def readMeta : M Unit := do
  readFlags
  innerLoop metaHandler .brk (← loopFuel)
  close

def moovHandler (t : Bytes) : M Unit :=
  if t == t_uuid then readUUIDBox
  else if t == t_trak then close
  else pure ()

def readMoov : M Unit := do
  innerLoop moovHandler .brk (← loopFuel)
  close

/-- the 16 bytes in front of the item data: where the "Exif" marker sits decides how much is skipped -/
def exifMarkerSkip (buf : Bytes) : Nat :=
  if (buf.drop 4).take 4 == t_Exif then be32 buf
  else if (buf.drop 8).take 4 == t_Exif then be32 (buf.drop 4) + 4
  else if (buf.drop 12).take 4 == t_Exif then be32 (buf.drop 8) + 8
  else 0

/-- inside the Exif item box: skip the item's own header (its length field counts from the 4 bytes after it), read the
Tiff header, hand the rest to the Exif callback -/
def mdatExifBody (size : Nat) : M (Except ErrKind Unit) := do
  match ← attempt (discard ((size : Int) + 4)) with
  | .error e => pure (Except.error e)
  | .ok _ =>
    match ← attempt (readExifHeader 1) with
    | .error e => pure (Except.error e)
    | .ok h =>
      let s ← get
      if s.cfg.hasExif then
        let _ ← attempt (callback "exif" h)
      pure (Except.ok ())

def readMdat : M Unit := do
  let s ← get
  if s.exifOff == 0 then close
  else
    let b ← head
    -- newExifBox
    discard (toI64 s.exifOff - b.offset - 16)
    let buf ← peek 16
    let size := exifMarkerSkip buf
    let b ← head
    let len := toI64 s.exifLen
    let r ← openBox len len (b.size - b.remain + b.offset) (t_Exif) (mdatExifBody size)
    match r with
    | .error e => fail e
    | .ok _ => close

/-! ### entry points -/

/-- Reader.ReadFTYP: the brands are not observable (log only); the box is peeked whole and closed -/
def readFTYP : M Unit :=
  topBox fun typ =>
    if typ != t_ftyp then fail .wrongBoxType
    else do
      let b ← head
      let _ ← peek b.remain
      close

def dispatch (typ : Bytes) : M Unit :=
  if typ == t_mdat then readMdat
  else if typ == t_meta then do
    let r ← attempt readMeta
    let _ ← attempt close
    match r with
    | .ok _ => pure ()
    | .error e => fail e
  else if typ == t_moov then do
    let r ← attempt readMoov
    let _ ← attempt close
    match r with
    | .ok _ => pure ()
    | .error e => fail e
  else if typ == t_uuid then readUUIDBox
  else close

/-- Reader.ReadMetadata -/
def readMetadata : M Unit := topBox dispatch

def resName {α} : Res α → String
  | .ok _ => "nil"
  | .err k => k.name
  | .panic p => "panic:" ++ p

end Imeta.Bmff
