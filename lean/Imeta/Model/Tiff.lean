/-
  Model of tiff.ScanTiffHeader (tiff/tiff.go) and meta/utils.BinaryOrder.

  The stream is what a bufio.Reader (size >= 32) will deliver: `Peek 32` yields
  the first 32 remaining bytes or fails (=> ErrNoExif), `Discard n` drops n.
  The loop is structural recursion on fuel.
-/
import Imeta.Go.Basic
namespace Imeta.Tiff

/-- tiff.TiffHeaderLength -/
def headerLength : Nat := 32

def sigLE : Bytes := [0x49, 0x49, 0x2a, 0x00]
def sigBE : Bytes := [0x4d, 0x4d, 0x00, 0x2a]

/-- utils.isTiffLittleEndian: string(buf[:4]) == "II*\0" (buf has >= 4 bytes at every call site) -/
def isLE (b : Bytes) : Bool := b.take 4 == sigLE
def isBE (b : Bytes) : Bool := b.take 4 == sigBE

/-- utils.BinaryOrder: big is tested first -/
def binaryOrder (b : Bytes) : ByteOrder :=
  if isBE b then .big else if isLE b then .little else .unknown

def isSig (b : Bytes) : Bool := isBE b || isLE b

/-- `buf[1] == 0x49 || buf[1] == 0x4d` -/
def adv1 (b : Bytes) : Bool :=
  match b with
  | _ :: y :: _ => y == 0x49 || y == 0x4d
  | _ => false

structure Header where
  /-- uint32(discarded) -/
  offset : Nat
  order : ByteOrder
  /-- byteOrder.Uint32(buf[4:8]) -/
  firstIfd : Nat
  /-- number of bytes left in the stream when the function returns -/
  restLen : Nat
  deriving DecidableEq, Repr

def mkHeader (b : Bytes) (d : Nat) : Header :=
  { offset := d % 2^32
    order := binaryOrder b
    firstIfd := (binaryOrder b).uint ((b.drop 4).take 4)
    restLen := b.length }

/-- The loop of ScanTiffHeader. `b` = bytes still unread, `d` = discarded. -/
def scan : Nat → Bytes → Nat → Outcome Header
  | 0, _, _ => .fuel
  | fuel+1, b, d =>
    if lenLt b headerLength then .err .noExif
    else if isSig b then .ok (mkHeader b d)
    else if adv1 b then scan fuel (b.drop 1) (d+1)
    else scan fuel (b.drop 2) (d+2)

/-- number of loop iterations (= Peek calls) the scan makes; used for the C02 bound -/
def iterations : Nat → Bytes → Nat
  | 0, _ => 0
  | fuel+1, b =>
    if lenLt b headerLength then 1
    else if isSig b then 1
    else if adv1 b then 1 + iterations fuel (b.drop 1)
    else 1 + iterations fuel (b.drop 2)

/-! ### Specification: the first index carrying a signature with 32 bytes available -/

/-- Structural recursion on the byte list; no reference to how the code advances. -/
def spec : Bytes → Nat → Outcome Header
  | [], _ => .err .noExif
  | x :: t, d =>
    if lenLt (x :: t) headerLength then .err .noExif
    else if isSig (x :: t) then .ok (mkHeader (x :: t) d)
    else spec t (d+1)

end Imeta.Tiff
