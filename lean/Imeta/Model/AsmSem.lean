/-
  A small-step semantics for the general-purpose-register part of Go assembly functions (amd64), enough for loop
  nests that compute addresses for vector loads and stores: the vector data path is not modelled, only WHICH bytes
  are read and written (the access trace). Registers hold unbounded integers: the theorems carry the side condition
  that the values involved stay far below 2^63.
-/
namespace Imeta.AsmSem

inductive Ins where
  | movP (p : String) (d : Nat)          -- MOVQ param+off(FP), d
  | movR (s d : Nat)                      -- MOVQ s, d
  | imul (s d : Nat)                      -- IMULQ s, d
  | add (s d : Nat)                       -- ADDQ s, d
  | addI (v : Int) (d : Nat)              -- ADDQ $v, d / INCQ d
  | zero (d : Nat)                        -- XORQ d, d
  | cmpje (a b t : Nat)                   -- CMPQ a, b ; JE t
  | jmp (t : Nat)
  | load (base : String) (idx scale width : Nat)    -- vector load of `width` bytes at base + regs[idx]*scale
  | store (base : String) (idx scale width : Nat)   -- vector store
  | nop
  | ret
  deriving Repr

structure Acc where
  base : String
  off : Int
  width : Nat
  isStore : Bool
  deriving Repr, DecidableEq

structure S where
  pc : Nat
  regs : Nat → Int
  trace : List Acc
  halted : Bool

def upd (f : Nat → Int) (d : Nat) (v : Int) : Nat → Int := fun r => if r = d then v else f r

def step (fetch : Nat → Ins) (P : String → Int) (s : S) : S :=
  if s.halted then s else
  match fetch s.pc with
  | .movP p d => { s with pc := s.pc + 1, regs := upd s.regs d (P p) }
  | .movR a d => { s with pc := s.pc + 1, regs := upd s.regs d (s.regs a) }
  | .imul a d => { s with pc := s.pc + 1, regs := upd s.regs d (s.regs d * s.regs a) }
  | .add a d => { s with pc := s.pc + 1, regs := upd s.regs d (s.regs d + s.regs a) }
  | .addI v d => { s with pc := s.pc + 1, regs := upd s.regs d (s.regs d + v) }
  | .zero d => { s with pc := s.pc + 1, regs := upd s.regs d 0 }
  | .cmpje a b t => if s.regs a = s.regs b then { s with pc := t } else { s with pc := s.pc + 1 }
  | .jmp t => { s with pc := t }
  | .load base i sc w => { s with pc := s.pc + 1, trace := s.trace ++ [{ base := base, off := s.regs i * sc, width := w, isStore := false }] }
  | .store base i sc w => { s with pc := s.pc + 1, trace := s.trace ++ [{ base := base, off := s.regs i * sc, width := w, isStore := true }] }
  | .nop => { s with pc := s.pc + 1 }
  | .ret => { s with halted := true }

def run (fetch : Nat → Ins) (P : String → Int) : Nat → S → S
  | 0, s => s
  | n+1, s => run fetch P n (step fetch P s)

theorem run_add (fetch : Nat → Ins) (P : String → Int) (a b : Nat) (s : S) :
    run fetch P (a + b) s = run fetch P b (run fetch P a s) := by
  induction a generalizing s with
  | zero => simp [run]
  | succ a ih => rw [Nat.succ_add]; simp only [run]; exact ih _

end Imeta.AsmSem
