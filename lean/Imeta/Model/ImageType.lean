/-
  Model of the sniffing entry points of imagetype/scan.go around the GENERATED
  predicates and decision list (Imeta.Gen.ImageType, regenerated on every run).
-/
import Imeta.Gen.ImageType
namespace Imeta.ImageType
open Imeta Imeta.Gen.ImageType

/-- imagetype.Buf -/
def Buf (b : Bytes) : Outcome Nat :=
  if lenLt b searchHeaderLength then .err .dataLength
  else (parseBuffer b).bind fun t => if t == ImageUnknown then .err .typeNotFound else .ok t

/-- What `bufio.Reader.Peek n` yields on a reader of buffer size `size` whose underlying
stream still holds `s` (and ends cleanly): the first n bytes, or an error. -/
def peek (s : Bytes) (size n : Nat) : Outcome Bytes :=
  if size < n then .err .bufferFull
  else if lenLt s n then .err .eof
  else .ok (s.take n)

/-- imagetype.ScanBuf on a bufio.Reader of the given size: the stream is only peeked,
so the stream after the call is the stream before it (second component). -/
def ScanBuf (s : Bytes) (size : Nat) : Outcome Nat × Bytes :=
  ((peek s size searchHeaderLength).bind Buf, s)

/-- imagetype.Scan: uses the caller's bufio.Reader if it is one of size ≥ 24, else wraps
the reader in a 24-byte bufio.Reader. `size = none`: not a bufio.Reader. -/
def Scan (s : Bytes) (size : Option Nat) : Outcome Nat :=
  match size with
  | some n => if n < searchHeaderLength then (ScanBuf s searchHeaderLength).1 else (ScanBuf s n).1
  | none => (ScanBuf s searchHeaderLength).1

/-- imagetype.ReadAt: ReadAt(buf[:24], 0) fails with EOF when fewer than 24 bytes exist -/
def ReadAt (s : Bytes) : Outcome Nat :=
  if lenLt s searchHeaderLength then .err .eof else Buf (s.take searchHeaderLength)

end Imeta.ImageType
