/-
  Lane-level semantics of the AVX/SSE instructions used by the straight-line DCT kernels of imagehash/transforms32
  (asm_x86.s), polymorphic in the arithmetic: instantiated with IEEE single precision (Float32) it is run against
  the real assembly (correspondence); instantiated with the free term algebra it yields, per output lane, the exact
  expression tree the assembly computes.

  Go assembler operand order: `OP src2, src1, dst` for Intel `OP dst, src1, src2`.
  A YMM register is 8 lanes (0..3 = low 128 bits); VEX-encoded 128-bit operations zero lanes 4..7 of the destination,
  legacy SSE operations (MOVUPS, PSHUFD, ADDPS, DIVPS) leave them unchanged.
-/
namespace Imeta.AvxSem

inductive Arg where
  | reg (ymm : Bool) (n : Nat)
  | mem (base : String) (off : Nat)
  | tab (name : String) (off : Nat)
  | imm (v : Nat)
  | gpr (name : String)
  | fp
  deriving Repr, DecidableEq

structure VIns where
  op : String
  args : List Arg
  deriving Repr

class Alg (α : Type) where
  add : α → α → α
  sub : α → α → α
  div : α → α → α
  zero : α
  lit : Nat → α      -- a float32 given by its bit pattern

/-- a lane holds a float value or (index vectors) an integer -/
inductive Lane (α : Type) where
  | v (a : α)
  | i (n : Nat)
  deriving Repr, DecidableEq

variable {α : Type} [Alg α]

structure S (α : Type) where
  regs : List (List (Lane α))     -- 16 registers of 8 lanes
  ax : List (Lane α)              -- the input slice, one lane per float32
  sp : List (Lane α)              -- the stack frame
  cx : Lane α

def z : Lane α := .v Alg.zero
def zero4 : List (Lane α) := [z, z, z, z]
def zero8 : List (Lane α) := zero4 ++ zero4

def S.init (input : List α) (frame : Nat) : S α :=
  { regs := List.replicate 16 zero8, ax := input.map .v, sp := List.replicate frame z, cx := z }

def getReg (s : S α) (n : Nat) : List (Lane α) := s.regs.getD n zero8
def setReg (s : S α) (n : Nat) (l : List (Lane α)) : S α := { s with regs := s.regs.set n l }

def lo (r : List (Lane α)) : List (Lane α) := r.take 4
def hi (r : List (Lane α)) : List (Lane α) := r.drop 4

def writeLanes (m : List (Lane α)) (at_ : Nat) (l : List (Lane α)) : List (Lane α) :=
  m.take at_ ++ l ++ m.drop (at_ + l.length)

/-- n lanes of a source operand -/
def src (table : String → List Nat × Nat) (s : S α) (a : Arg) (n : Nat) : Option (List (Lane α)) :=
  match a with
  | .reg _ r => some ((getReg s r).take n)
  | .mem "AX" off => if off % 4 == 0 && off / 4 + n ≤ s.ax.length then some ((s.ax.drop (off / 4)).take n) else none
  | .mem "SP" off => if off % 4 == 0 && off / 4 + n ≤ s.sp.length then some ((s.sp.drop (off / 4)).take n) else none
  | .tab name off =>
    let t := table name
    if t.2 == 4 then
      (if off % 4 == 0 && off / 4 + n ≤ t.1.length then some (((t.1.drop (off / 4)).take n).map (fun b => .v (Alg.lit b))) else none)
    else (if off + n ≤ t.1.length then some (((t.1.drop off).take n).map .i) else none)
  | _ => none

def store (s : S α) (a : Arg) (l : List (Lane α)) : Option (S α) :=
  match a with
  | .mem "AX" off => if off % 4 == 0 && off / 4 + l.length ≤ s.ax.length then some { s with ax := writeLanes s.ax (off / 4) l } else none
  | .mem "SP" off => if off % 4 == 0 && off / 4 + l.length ≤ s.sp.length then some { s with sp := writeLanes s.sp (off / 4) l } else none
  | _ => none

def lift2 (f : α → α → α) (x y : Lane α) : Lane α :=
  match x, y with
  | .v a, .v b => .v (f a b)
  | _, _ => .i 0

def nth (l : List (Lane α)) (k : Nat) : Lane α := l.getD k z

def width (a : Arg) : Nat := match a with | .reg true _ => 8 | _ => 4

/-- pad a 4-lane VEX result to the register (upper lanes zeroed); 8-lane results pass through -/
def vex (l : List (Lane α)) : List (Lane α) := if l.length == 4 then l ++ zero4 else l

/-- apply `f` to each 128-bit half -/
def perHalf (w : Nat) (f : List (Lane α) → List (Lane α) → List (Lane α)) (a b : List (Lane α)) : List (Lane α) :=
  if w == 8 then f (lo a) (lo b) ++ f (hi a) (hi b) else f (lo a) (lo b)

def shuf4 (immv : Nat) (sLanes : List (Lane α)) : List (Lane α) :=
  [nth sLanes (immv % 4), nth sLanes (immv / 4 % 4), nth sLanes (immv / 16 % 4), nth sLanes (immv / 64 % 4)]

inductive Op where
  | movq | ret | vzeroupper | vzeroall | vmovups | movups | movl | vpmovzxbd | vperm | vaddps | vsubps | vdivps
  | vunpckl | vunpckh | addps | divps | pshufd | vpsrldq | vpslldq | vshufps | vblendps | vperm2f128 | unknown
  deriving DecidableEq, Repr

def opcode (m : String) : Op :=
  if m == "MOVQ" then .movq else if m == "RET" then .ret else if m == "VZEROUPPER" then .vzeroupper
  else if m == "VZEROALL" then .vzeroall else if m == "VMOVUPS" then .vmovups else if m == "MOVUPS" then .movups
  else if m == "MOVL" then .movl else if m == "VPMOVZXBD" then .vpmovzxbd
  else if m == "VPERMD" || m == "VPERMPS" then .vperm
  else if m == "VADDPS" then .vaddps else if m == "VSUBPS" then .vsubps else if m == "VDIVPS" then .vdivps
  else if m == "VUNPCKLPS" || m == "VPUNPCKLDQ" then .vunpckl else if m == "VUNPCKHPS" || m == "VPUNPCKHDQ" then .vunpckh
  else if m == "ADDPS" then .addps else if m == "DIVPS" then .divps else if m == "PSHUFD" then .pshufd
  else if m == "VPSRLDQ" then .vpsrldq else if m == "VPSLLDQ" then .vpslldq else if m == "VSHUFPS" then .vshufps
  else if m == "VBLENDPS" then .vblendps else if m == "VPERM2F128" then .vperm2f128 else .unknown

/-- three-operand arithmetic on n lanes: d := b (op) a -/
def bin3 (table : String → List Nat × Nat) (f : α → α → α) (n : Nat) (s : S α) (a : Arg) (b d : Nat) : Option (S α) := do
  let x ← src table s a n
  let y := (getReg s b).take n
  pure (setReg s d (vex (List.zipWith (lift2 f) y x)))

/-- legacy two-operand arithmetic on 4 lanes: d := d (op) a, upper lanes kept -/
def bin2 (table : String → List Nat × Nat) (f : α → α → α) (s : S α) (a : Arg) (d : Nat) : Option (S α) := do
  let x ← src table s a 4
  let y := (getReg s d).take 4
  pure (setReg s d (List.zipWith (lift2 f) y x ++ hi (getReg s d)))

def unpck (table : String → List Nat × Nat) (high : Bool) (n : Nat) (s : S α) (a : Arg) (b d : Nat) : Option (S α) := do
  let x ← src table s a n
  let y := (getReg s b).take n
  let f : List (Lane α) → List (Lane α) → List (Lane α) :=
    if high then (fun a b => [nth b 2, nth a 2, nth b 3, nth a 3]) else (fun a b => [nth b 0, nth a 0, nth b 1, nth a 1])
  pure (setReg s d (vex (perHalf n f x y)))

def exec (table : String → List Nat × Nat) (ins : VIns) (s : S α) : Option (S α) :=
  match opcode ins.op, ins.args with
  | .movq, _ => some s
  | .ret, _ => some s
  | .vzeroupper, _ => some { s with regs := s.regs.map (fun r => lo r ++ zero4) }
  | .vzeroall, _ => some { s with regs := s.regs.map (fun _ => zero8) }
  | .vmovups, [a, .reg y d] => do
      let l ← src table s a (if y then 8 else 4)
      pure (setReg s d (vex l))
  | .vmovups, [.reg y r, m] => store s m ((getReg s r).take (if y then 8 else 4))
  | .movups, [a, .reg _ d] => do
      let l ← src table s a 4
      pure (setReg s d (l ++ hi (getReg s d)))
  | .movups, [.reg _ r, m] => store s m ((getReg s r).take 4)
  | .movl, [.gpr "CX", m] => store s m [s.cx]
  | .movl, [m, .gpr "CX"] => do
      let l ← src table s m 1
      pure { s with cx := nth l 0 }
  | .vpmovzxbd, [a, .reg true d] => do
      let l ← src table s a 8
      pure (setReg s d l)
  | .vperm, [a, .reg true ix, .reg true d] => do
      let data ← src table s a 8
      let idx := getReg s ix
      pure (setReg s d (idx.map fun l => match l with | .i k => nth data (k % 8) | .v _ => .i 0))
  | .vaddps, [a, .reg true b, .reg true d] => bin3 table Alg.add 8 s a b d
  | .vsubps, [a, .reg true b, .reg true d] => bin3 table Alg.sub 8 s a b d
  | .vdivps, [a, .reg true b, .reg true d] => bin3 table Alg.div 8 s a b d
  | .vaddps, [a, .reg false b, .reg false d] => bin3 table Alg.add 4 s a b d
  | .vsubps, [a, .reg false b, .reg false d] => bin3 table Alg.sub 4 s a b d
  | .vdivps, [a, .reg false b, .reg false d] => bin3 table Alg.div 4 s a b d
  | .vunpckl, [a, .reg true b, .reg true d] => unpck table false 8 s a b d
  | .vunpckh, [a, .reg true b, .reg true d] => unpck table true 8 s a b d
  | .vunpckl, [a, .reg false b, .reg false d] => unpck table false 4 s a b d
  | .vunpckh, [a, .reg false b, .reg false d] => unpck table true 4 s a b d
  | .addps, [a, .reg _ d] => bin2 table Alg.add s a d
  | .divps, [a, .reg _ d] => bin2 table Alg.div s a d
  | .pshufd, [.imm v, a, .reg _ d] => do
      let x ← src table s a 4
      pure (setReg s d (shuf4 v x ++ hi (getReg s d)))
  | .vpsrldq, [.imm v, .reg false a, .reg false d] =>
      let x := (getReg s a).take 4
      let k := v / 4
      if v % 4 == 0 then some (setReg s d ((List.range 4).map (fun i => if i + k < 4 then nth x (i + k) else z) ++ zero4)) else none
  | .vpslldq, [.imm v, .reg false a, .reg false d] =>
      let x := (getReg s a).take 4
      let k := v / 4
      if v % 4 == 0 then some (setReg s d ((List.range 4).map (fun i => if k ≤ i then nth x (i - k) else z) ++ zero4)) else none
  | .vshufps, [.imm v, a, .reg false b, .reg false d] => do
      let x ← src table s a 4
      let y := (getReg s b).take 4
      pure (setReg s d ([nth y (v % 4), nth y (v / 4 % 4), nth x (v / 16 % 4), nth x (v / 64 % 4)] ++ zero4))
  | .vblendps, [.imm v, a, .reg false b, .reg false d] => do
      let x ← src table s a 4
      let y := (getReg s b).take 4
      pure (setReg s d ((List.range 4).map (fun i => if v / 2 ^ i % 2 == 1 then nth x i else nth y i) ++ zero4))
  | .vperm2f128, [.imm v, a, .reg true b, .reg true d] => do
      let x ← src table s a 8
      let y := getReg s b
      let sel (c : Nat) : List (Lane α) :=
        if c / 8 % 2 == 1 then zero4
        else match c % 4 with | 0 => lo y | 1 => hi y | 2 => lo x | _ => hi x
      pure (setReg s d (sel (v % 16) ++ sel (v / 16 % 16)))
  | _, _ => none

def run (table : String → List Nat × Nat) : List VIns → S α → Option (S α)
  | [], s => some s
  | i :: t, s => match exec table i s with
    | some s' => run table t s'
    | none => none

/-- the kernel as a function on the input slice -/
def kernel (table : String → List Nat × Nat) (prog : List VIns) (frame : Nat) (input : List α) : Option (List (Lane α)) :=
  (run table prog (S.init input frame)).map (·.ax)

/-! ### the portable kernels (dct.go), same arithmetic class -/

def getA (l : List α) (k : Nat) : α := l.getD k Alg.zero

/-- one level of Lee's recursion as written in forwardDCT256 … forwardDCT4 (and, for n = 2, the two-point butterflies inside forwardDCT4) -/
def goStep (half : List α → List α) (tab : List Nat) (x : List α) : List α :=
  let n := x.length
  let h := n / 2
  let t1 := (List.range h).map fun i => Alg.add (getA x i) (getA x (n - 1 - i))
  let t2 := (List.range h).map fun i => Alg.div (Alg.sub (getA x i) (getA x (n - 1 - i))) (Alg.lit (tab.getD i 0))
  let a := half t1
  let b := half t2
  ((List.range (h - 1)).map fun i => [getA a i, Alg.add (getA b i) (getA b (i + 1))]).flatten ++ [getA a (h - 1), getA b (h - 1)]

def goDct2 (c : Nat) (x : List α) : List α :=
  [Alg.add (getA x 0) (getA x 1), Alg.div (Alg.sub (getA x 0) (getA x 1)) (Alg.lit c)]

structure GoTabs where
  t256 : List Nat
  t128 : List Nat
  t64 : List Nat
  t32 : List Nat
  t16 : List Nat
  t8 : List Nat
  t4 : List Nat      -- forwardDCT4's four divisors: two for the first stage, then the two √2

/-- forwardDCT4: the first two-point stage uses t4[2], the second t4[3] -/
def goDct4 (g : GoTabs) (x : List α) : List α :=
  let n := 4
  let t1 := [Alg.add (getA x 0) (getA x 3), Alg.add (getA x 1) (getA x 2)]
  let t2 := [Alg.div (Alg.sub (getA x 0) (getA x 3)) (Alg.lit (g.t4.getD 0 0)), Alg.div (Alg.sub (getA x 1) (getA x 2)) (Alg.lit (g.t4.getD 1 0))]
  let a := goDct2 (g.t4.getD 2 0) t1
  let b := goDct2 (g.t4.getD 3 0) t2
  let _ := n
  [getA a 0, Alg.add (getA b 0) (getA b 1), getA a 1, getA b 1]

def goDct8 (g : GoTabs) : List α → List α := goStep (goDct4 g) g.t8
def goDct16 (g : GoTabs) : List α → List α := goStep (goDct8 g) g.t16
def goDct32 (g : GoTabs) : List α → List α := goStep (goDct16 g) g.t32
def goDct64 (g : GoTabs) : List α → List α := goStep (goDct32 g) g.t64
def goDct128 (g : GoTabs) : List α → List α := goStep (goDct64 g) g.t128
def goDct256 (g : GoTabs) : List α → List α := goStep (goDct128 g) g.t256

/-! ### the free term algebra -/

inductive Expr where
  | inp (k : Nat)
  | cst (bits : Nat)
  | zero
  | add (a b : Expr)
  | sub (a b : Expr)
  | div (a b : Expr)
  deriving Repr, DecidableEq

instance : Alg Expr where
  add := .add
  sub := .sub
  div := .div
  zero := .zero
  lit := .cst

end Imeta.AvxSem
