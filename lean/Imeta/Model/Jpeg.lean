/-
  C10 / C02 — model of jpeg.ScanJPEG (jpeg/jpeg.go): the marker loop, nextMarker, readExif, readXMP,
  readSOFMarker, ignoreMarker, with the bufio contract (Peek 64 all-or-error, Discard) and the two
  callbacks as parameters.

  One `step` is one pass through `nextMarker`'s loop body and, when it returns a marker, the dispatch of
  that marker.  Every step either finishes the scan or strictly shortens the unread stream (that is the
  progress lemma of C02).  Core Lean only.
-/
import Imeta.Go.Basic
import Imeta.Model.Tiff
namespace Imeta.Jpeg
open Imeta

structure St where
  /-- bytes not yet consumed from the bufio.Reader -/
  rest : Bytes
  /-- jr.discarded (uint32) -/
  discarded : Nat
  /-- jr.pos: SOI nesting depth (uint8) -/
  pos : Nat
  deriving Repr, DecidableEq

/-- the meta.ExifHeader handed to the Exif callback -/
structure ExifHdr where
  order : ByteOrder
  firstIfd : Nat
  tiffOffset : Nat
  exifLength : Nat
  deriving Repr, DecidableEq

inductive Ev where
  /-- Exif callback: header, and the bytes the stream holds at that moment up to the declared length -/
  | exif (h : ExifHdr) (view : Bytes)
  /-- XMP callback: exactly the bytes its LimitedReader can yield -/
  | xmp (view : Bytes)
  deriving Repr, DecidableEq

inductive Res where
  | ok | noMarker | endOfImage | eof | negativeCount | callback
  deriving Repr, DecidableEq

/-- the callbacks: how many bytes they consume (clamped to what is there) and whether they fail -/
structure Cbs where
  hasExif : Bool
  hasXmp : Bool
  exif : ExifHdr → Bytes → Nat × Bool
  xmp : Bytes → Nat × Bool

def exifPrefix : Bytes := [0x45, 0x78, 0x69, 0x66, 0, 0]
/-- "http://ns.adobe.com/xap/1.0/\0" -/
def xmpPrefix : Bytes :=
  [104, 116, 116, 112, 58, 47, 47, 110, 115, 46, 97, 100, 111, 98, 101, 46, 99, 111, 109, 47, 120, 97, 112, 47, 49, 46, 48, 47, 0]

/-- jr.discard(i): `i == 0` is a no-op; a negative count is bufio.ErrNegativeCount; a short stream
discards what is there and fails with EOF.  `discarded` is a uint32. -/
def discard (s : St) (i : Int) : St × Option Res :=
  if i = 0 then (s, none)
  else if i < 0 then (s, some .negativeCount)
  else if i.toNat ≤ s.rest.length then
    ({ s with rest := s.rest.drop i.toNat, discarded := (s.discarded + i.toNat) % 2 ^ 32 }, none)
  else ({ s with rest := [], discarded := (s.discarded + s.rest.length) % 2 ^ 32 }, some .eof)

/-- index of the first 0xFF among the first 64 bytes, 64 if there is none -/
def firstFF : Nat → Bytes → Nat
  | 0, _ => 0
  | _+1, [] => 0
  | n+1, b :: t => if b == 0xFF then 0 else 1 + firstFF n t

inductive Step where
  | done (r : Res) (evs : List Ev)
  | next (s : St) (evs : List Ev)

def finish (p : St × Option Res) (evs : List Ev) : Step :=
  match p.2 with
  | none => .next p.1 evs
  | some r => .done r evs

/-- readExif -/
def readExif (cb : Cbs) (s : St) (size : Nat) : Step :=
  let remain : Int := (size : Int) - 8
  match discard s 10 with
  | (s1, some r) => .done r []
  | (s1, none) =>
    if s1.rest.length < 8 then .done .eof []   -- Peek(8) fails
    else
      if cb.hasExif then
        let buf := s1.rest.take 8
        let order := Tiff.binaryOrder buf
        let h : ExifHdr := { order := order, firstIfd := order.uint ((buf.drop 4).take 4),
                             tiffOffset := s1.discarded, exifLength := (remain % 2 ^ 32).toNat }
        let view := s1.rest.take h.exifLength
        let (c, failed) := cb.exif h s1.rest
        let c := min c s1.rest.length
        let s2 := { s1 with rest := s1.rest.drop c }
        if failed then .done .callback [.exif h view]
        else
          -- repaired (fix: commit): the bytes handed to the Exif reader count towards the absolute offset
          .next { s2 with discarded := (s2.discarded + h.exifLength) % 2 ^ 32 } [.exif h view]
      else finish (discard s1 remain) []

/-- readXMP -/
def readXMP (cb : Cbs) (s : St) (size : Nat) : Step :=
  let remain : Int := (size : Int) - 2 - 29
  match discard s 33 with
  | (s1, some r) => .done r []
  | (s1, none) =>
    if cb.hasXmp then
      -- io.LimitReader(br, remain): a non-positive limit yields nothing
      let view := s1.rest.take remain.toNat
      let (c, failed) := cb.xmp view
      let c := min c view.length
      -- repaired (fix: commit): bytes consumed through the LimitedReader count towards the absolute offset
      let s2 := { s1 with rest := s1.rest.drop c, discarded := (s1.discarded + c) % 2 ^ 32 }
      if failed then .done .callback [.xmp view]
      else
        -- LimitedReader.N after the callback: what it did not deliver
        let left : Int := if remain ≤ 0 then remain else remain - c
        match discard s2 left with
        | (s3, none) => .next s3 [.xmp view]
        | (_, some r) => .done r [.xmp view]
    else finish (discard s1 remain) []

/-- one pass through nextMarker's loop body, plus the dispatch when it returns a marker -/
def step (cb : Cbs) (s : St) : Step :=
  if s.rest.length < 64 then .done .noMarker []          -- Peek(64) fails => ErrNoJPEGMarker
  else match s.rest with
    | b0 :: mk :: hi :: lo :: _ =>
      if b0 != 0xFF then finish (discard s (firstFF 64 s.rest)) []
      -- repaired (fix: commit): a fill byte - any marker may be preceded by any number of 0xFF bytes - is skipped
      else if mk == 0xFF then finish (discard s 1) []
      else if mk == 0xD8 then finish (discard { s with pos := (s.pos + 1) % 256 } 2) []
      else if s.pos = 0 then
        -- repaired (fix: commit): a marker outside any image is skipped (the pinned tree looped here forever)
        finish (discard s 1) []
      else
        let size := hi.toNat * 256 + lo.toNat
        if mk.toNat / 16 = 12 then finish (discard s (size + 2)) []        -- SOF0..15 (0xC4 DHT included)
        else if mk.toNat / 16 = 14 then
          if mk == 0xE1 then
            if (s.rest.drop 4).take 6 == exifPrefix then readExif cb s size
            else if (s.rest.drop 4).take 29 == xmpPrefix then readXMP cb s size
            else finish (discard s (size + 2)) []
          else finish (discard s (size + 2)) []
        else if mk == 0xD9 then
          let p := (s.pos + 255) % 256
          if p = 1 then .done .endOfImage []
          else finish (discard { s with pos := p } 2) []
        else if mk == 0xDB then .done .ok []     -- DQT: ignoreMarker(), then `return nil` whatever it returned
        else if mk == 0xDD then finish (discard s 6) []
        else finish (discard s (size + 2)) []
    | _ => .done .noMarker []

/-- the scan: steps until done -/
def run (cb : Cbs) : Nat → St → List Ev → Option (Res × List Ev)
  | 0, _, _ => none
  | fuel+1, s, acc =>
    match step cb s with
    | .done r evs => some (r, acc ++ evs)
    | .next s' evs => run cb fuel s' (acc ++ evs)

def scan (cb : Cbs) (b : Bytes) : Option (Res × List Ev) :=
  run cb (b.length + 2) { rest := b, discarded := 0, pos := 0 } []

end Imeta.Jpeg
