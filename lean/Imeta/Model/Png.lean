/-
  Model of png.ScanPngHeader (png/png.go, after the `fix:` commit): signature, chunk walk with Seek,
  eXIf hand-off with the byte order and first-IFD offset taken from the chunk's own TIFF header.
  The reader is an in-memory io.ReadSeeker: position `pos` into the byte string; Seek past the end is allowed
  (the next read then fails).
-/
import Imeta.Go.Basic
import Imeta.Model.Tiff
namespace Imeta.Png
open Imeta

def signature : Bytes := [0x89, 0x50, 0x4e, 0x47, 0x0d, 0x0a, 0x1a, 0x0a]
def eXIf : Bytes := [0x65, 0x58, 0x49, 0x66]

structure Header where
  order : ByteOrder
  firstIfd : Nat
  tiffOffset : Nat
  exifLength : Nat
  deriving Repr, DecidableEq

/-- io.ReadFull(r, buf[:8]) at position pos -/
def read8 (b : Bytes) (pos : Nat) : Option Bytes :=
  if pos + 8 ≤ b.length then some ((b.drop pos).take 8) else none

/-- the chunk loop; every iteration consumes the 8-byte chunk header -/
def chunks (b : Bytes) : Nat → Nat → Outcome Header
  | 0, _ => .fuel
  | f+1, pos =>
    match read8 b pos with
    | none => .err .noExif
    | some h =>
      let length := beNat (h.take 4)
      if h.drop 4 == eXIf then
        match read8 b (pos + 8) with
        | none => .err .noExif
        | some th =>
          let order := Tiff.binaryOrder th
          if order == .unknown then .err .noExif
          else .ok { order := order, firstIfd := order.uint ((th.drop 4).take 4), tiffOffset := (pos + 8) % 2 ^ 32, exifLength := length }
      else chunks b f (pos + 8 + (length + 4) % 2 ^ 32)

def scan (b : Bytes) : Outcome Header :=
  match read8 b 0 with
  | none => .err .noExif
  | some s => if s == signature then chunks b (b.length / 8 + 2) 8 else .err .noExif

end Imeta.Png
