/-
  C02 — the number of bytes tiff.ScanTiffHeader asks of its source.  A bufio.Reader of capacity S over a source that
  delivers everything it has, up to the length asked for (an in-memory reader or a file): only the byte COUNTS matter for the
  bound, so the buffer is its fill level.  `scanC` is Tiff.scan with that bookkeeping next to it.
-/
import Imeta.Model.Tiff
namespace Imeta.Tiff
open Imeta

structure Cnt where
  /-- bytes in the bufio buffer -/
  buffered : Nat
  /-- bytes the source has not delivered yet -/
  srcLeft : Nat
  /-- bytes requested from the source so far (sum of len(p) over its Read calls) -/
  req : Nat
  /-- Read calls on the source -/
  reads : Nat
  deriving Repr, DecidableEq

/-- bufio.Reader.Peek(n), n ≤ S: fill (one source Read into the free part of the buffer) until n bytes are buffered or a
Read comes back empty.  Over a source that delivers min(asked, left) that is at most two Reads. -/
def peekC (S : Nat) (s : Cnt) (n : Nat) : Cnt × Bool :=
  if n ≤ s.buffered then (s, true)
  else
    let free := S - s.buffered
    let got := min free s.srcLeft
    if got = 0 then ({ s with req := s.req + free, reads := s.reads + 1 }, false)
    else
      let s1 : Cnt := { buffered := s.buffered + got, srcLeft := s.srcLeft - got, req := s.req + free, reads := s.reads + 1 }
      if n ≤ s1.buffered then (s1, true)
      else ({ s1 with req := s1.req + (S - s1.buffered), reads := s1.reads + 1 }, false)

/-- Discard(k) of bytes that are buffered -/
def discardC (s : Cnt) (k : Nat) : Cnt := { s with buffered := s.buffered - k }

/-- the loop of ScanTiffHeader with the counters -/
def scanC (S : Nat) : Nat → Bytes → Nat → Cnt → Outcome Header × Cnt
  | 0, _, _, s => (.fuel, s)
  | fuel+1, b, d, s =>
    match peekC S s headerLength with
    | (s1, false) => (.err .noExif, s1)
    | (s1, true) =>
      if isSig b then (.ok (mkHeader b d), s1)
      else if adv1 b then scanC S fuel (b.drop 1) (d+1) (discardC s1 1)
      else scanC S fuel (b.drop 2) (d+2) (discardC s1 2)

end Imeta.Tiff
