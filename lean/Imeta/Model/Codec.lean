/-
  C16 — hand-written models of the text / binary codecs of the value types
  (meta/exifTypes.go, meta/utils.go, meta/uuid.go, imagehash/imagehash.go) and of
  the MessagePack integer forms used by the *_gen.go files (tinylib/msgp).

  Go indexing semantics are explicit: `text[0]` on an empty slice is `panic`.
  Tied to /repo by the exhaustive correspondence `vh run C16` (all 2^16 codes,
  all 8/16-bit domains, all UUID forms, adversarial byte strings).
  Core Lean only.
-/
import Imeta.Go.Int
namespace Imeta.Codec
open Imeta

/-! ### indexing with Go's panics -/

/-- `b[i]` -/
def at! (b : Bytes) (i : Nat) : G UInt8 :=
  match b[i]? with
  | some x => .ok x
  | none => .panic "index out of range"

/-- `b[lo:hi]` (strict: beyond `len` panics; see DESIGN section 4) -/
def slice (b : Bytes) (lo hi : Nat) : G Bytes :=
  if lo ≤ hi ∧ hi ≤ b.length then .ok ((b.drop lo).take (hi - lo)) else .panic "slice bounds out of range"

/-! ### meta/utils.go parseUint: no digit check, uint8 subtraction wraps, uint64 accumulator wraps -/

def parseUint (buf : Bytes) : Nat :=
  buf.foldl (fun u b => (u * 10 + (b - 48).toNat) % 2 ^ 64) 0

/-- index of the first '/' — the `for i … if text[i] == '/'` loop -/
def idxSlash : Bytes → Option Nat
  | [] => none
  | b :: t => if b == 47 then some 0 else (idxSlash t).map (· + 1)

/-! ### ExposureBias (int16: numerator << 8 | denominator) -/

def i16 : IKind := IKind.i16

/-- `ExposureBias.MarshalText` -/
def ebMarshal (eb : Int) : Bytes :=
  if eb = 0 then [48, 47, 48]
  else
    (if eb > 0 then [43] else []) ++ gitoa (eb / 256) ++ [47] ++ gitoa (eb % 256)

/-- `ExposureBias.UnmarshalText` on a receiver holding `prev`.
For "0…" input and for input without '/' the receiver keeps its previous value. -/
def ebUnmarshal (prev : Int) (text : Bytes) : G Int :=
  if text.length = 0 then .ok prev    -- repaired (fix: commit): empty input returns nil (pinned tree: index panic on text[0])
  else do
    let c ← at! text 0
    if c == 48 then .ok prev          -- "0…": returns with the receiver untouched
    else match idxSlash text with
      | none => .ok prev
      | some i => do
        let n : Int ←
          if c == 43 then (slice text 1 i).bind fun s => .ok (wrap i16 (parseUint s))
          else if c == 45 then (slice text 1 i).bind fun s => .ok (wrap i16 (wrap i16 (parseUint s) * -1))
          else (slice text 0 i).bind fun s => .ok (wrap i16 (parseUint s))
        let post ← slice text (i + 1) text.length
        let n := wrap i16 (n * 256)
        .ok (wrap i16 (n + wrap i16 (parseUint post)))

/-! ### Aperture.ParseString (parseAperture): uint16 division -/

def apertureParse (buf : Bytes) : G Nat :=
  match idxSlash buf with
  | none => .ok 0
  | some i => do
    let pre ← slice buf 0 i
    let post ← slice buf (i + 1) buf.length
    let n := parseUint pre % 65536
    let d := parseUint post % 65536
    if d = 0 then .ok 0 else .ok (n / d)   -- repaired (fix: commit): "/0" yields 0 (pinned tree: integer divide by zero)

/-! ### FocalLength.UnmarshalText: strip a trailing "mm", then strconv.ParseFloat (a parameter) -/

/-- the bytes handed to `strconv.ParseFloat`; `none` when the function returns early (empty input) -/
def focalStrip (text : Bytes) : G (Option Bytes) :=
  if text.length = 0 then .ok none
  else if text.length > 1 then do     -- repaired (fix: commit): the pinned tree indexed text[len-2] for 1-byte input
    let z ← at! text (text.length - 1)
    let y ← at! text (text.length - 2)
    if z == 109 && y == 109 then (slice text 0 (text.length - 2)).bind fun s => .ok (some s)
    else .ok (some text)
  else .ok (some text)

/-! ### enum text forms: MarshalText = String, UnmarshalText = map lookup with zero default -/

def enumUnmarshal (tbl : List (Bytes × Int)) (text : Bytes) : Int := (gmapGet tbl text).getD 0

/-! ### UUID -/

def hexEnc1 (x : UInt8) : Bytes := [hexDigitLower (x.toNat / 16), hexDigitLower (x.toNat % 16)]
/-- encoding/hex.Encode -/
def hexEnc (b : Bytes) : Bytes := b.flatMap hexEnc1

/-- encoding/hex fromHexChar -/
def fromHexChar (c : UInt8) : Option Nat :=
  if 48 ≤ c ∧ c ≤ 57 then some (c.toNat - 48)
  else if 97 ≤ c ∧ c ≤ 102 then some (c.toNat - 87)
  else if 65 ≤ c ∧ c ≤ 70 then some (c.toNat - 55)
  else none

/-- encoding/hex.Decode on an even-length source (odd length: error) -/
def hexDec : Bytes → Option Bytes
  | [] => some []
  | [_] => none
  | a :: b :: t =>
    match fromHexChar a, fromHexChar b, hexDec t with
    | some x, some y, some r => some (UInt8.ofNat (16 * x + y) :: r)
    | _, _, _ => none

/-- `UUID.MarshalText`: 8-4-4-4-12 -/
def uuidMarshal (u : Bytes) : Bytes :=
  hexEnc (u.take 4) ++ [45] ++ hexEnc ((u.drop 4).take 2) ++ [45] ++ hexEnc ((u.drop 6).take 2) ++ [45]
    ++ hexEnc ((u.drop 8).take 2) ++ [45] ++ hexEnc (u.drop 10)

def uuidHashLike (t : Bytes) : G Bytes :=
  match hexDec t with
  | some u => .ok u
  | none => .err .other

/-- decodeCanonical: t has 36 bytes at every call site; indexes are explicit anyway -/
def uuidCanonical (t : Bytes) : G Bytes := do
  let d1 ← at! t 8; let d2 ← at! t 13; let d3 ← at! t 18; let d4 ← at! t 23
  if d1 != 45 || d2 != 45 || d3 != 45 || d4 != 45 then .err .other
  else do
    let g1 ← slice t 0 8; let g2 ← slice t 9 13; let g3 ← slice t 14 18; let g4 ← slice t 19 23; let g5 ← slice t 24 36
    match hexDec g1, hexDec g2, hexDec g3, hexDec g4, hexDec g5 with
    | some a, some b, some c, some d, some e => .ok (a ++ b ++ c ++ d ++ e)
    | _, _, _, _, _ => .err .other

def uuidPlain (t : Bytes) : G Bytes :=
  if t.length = 32 then uuidHashLike t else if t.length = 36 then uuidCanonical t else .err .other

def urnPrefix : Bytes := [117, 114, 110, 58, 117, 117, 105, 100, 58]

/-- `UUID.UnmarshalText` -/
def uuidUnmarshal (t : Bytes) : G Bytes :=
  let l := t.length
  if l = 32 then uuidHashLike t
  else if l = 36 then uuidCanonical t
  else if l = 34 ∨ l = 38 then do
    let a ← at! t 0; let z ← at! t (l - 1)
    if a != 123 || z != 125 then .err .other
    else do let inner ← slice t 1 (l - 1); uuidPlain inner
  else if l = 41 ∨ l = 45 then do
    let p ← slice t 0 9
    if p != urnPrefix then .err .other
    else do let inner ← slice t 9 l; uuidPlain inner
  else .err .other

/-! ### perceptual hashes: little-endian packing -/

/-- `PHash64.Encode(dst)`: the 8 bytes written (dst needs 8 bytes, else panic) -/
def hash64Encode (dstLen : Nat) (h : Nat) : G Bytes :=
  if dstLen < 8 then .panic "slice bounds out of range" else .ok (leBytes 8 h)

def hash64Decode (src : Bytes) : G Nat :=
  if src.length < 8 then .panic "slice bounds out of range" else .ok (leNat (src.take 8))

def hash256Encode (dstLen : Nat) (h : List Nat) : G Bytes :=
  if dstLen < 32 then .panic "slice bounds out of range" else .ok (h.flatMap (leBytes 8))

def hash256Decode (src : Bytes) : G (List Nat) :=
  if src.length < 32 then .panic "slice bounds out of range"
  else .ok [leNat (src.take 8), leNat ((src.drop 8).take 8), leNat ((src.drop 16).take 8), leNat ((src.drop 24).take 8)]

/-! ### MessagePack integers (tinylib/msgp AppendInt64 / AppendUint64 / ReadInt64Bytes / ReadUint64Bytes) -/

def u8 (n : Nat) : UInt8 := UInt8.ofNat n

def mpAppendUint (u : Nat) : Bytes :=
  if u ≤ 127 then [u8 u]
  else if u ≤ 255 then 0xcc :: beBytes 1 u
  else if u ≤ 65535 then 0xcd :: beBytes 2 u
  else if u ≤ 4294967295 then 0xce :: beBytes 4 u
  else 0xcf :: beBytes 8 u

def mpAppendInt (i : Int) : Bytes :=
  if 0 ≤ i then
    if i ≤ 127 then [u8 i.toNat]
    else if i ≤ 32767 then 0xd1 :: beBytes 2 i.toNat
    else if i ≤ 2147483647 then 0xd2 :: beBytes 4 i.toNat
    else 0xd3 :: beBytes 8 i.toNat
  else if -32 ≤ i then [u8 (256 + i).toNat]
  else if -128 ≤ i then 0xd0 :: beBytes 1 (256 + i).toNat
  else if -32768 ≤ i then 0xd1 :: beBytes 2 (65536 + i).toNat
  else if -2147483648 ≤ i then 0xd2 :: beBytes 4 (4294967296 + i).toNat
  else 0xd3 :: beBytes 8 (18446744073709551616 + i).toNat

/-- two's complement value of an n-byte big-endian field -/
def sgn (n : Nat) (x : Nat) : Int := if x < 2 ^ (8 * n - 1) then x else (x : Int) - 2 ^ (8 * n)

/-- `n` bytes after the lead byte, or ErrShortBytes -/
def mpField (b : Bytes) (n : Nat) : G (Nat × Bytes) :=
  if b.length < n + 1 then .err .other else .ok (beNat ((b.drop 1).take n), b.drop (n + 1))

/-- msgp.ReadInt64Bytes -/
def mpReadInt (b : Bytes) : G (Int × Bytes) :=
  match b with
  | [] => .err .other
  | lead :: rest =>
    if lead.toNat < 128 then .ok (lead.toNat, rest)
    else if lead.toNat ≥ 224 then .ok ((lead.toNat : Int) - 256, rest)
    else if lead == 0xd0 then (mpField b 1).bind fun (x, o) => .ok (sgn 1 x, o)
    else if lead == 0xcc then (mpField b 1).bind fun (x, o) => .ok (x, o)
    else if lead == 0xd1 then (mpField b 2).bind fun (x, o) => .ok (sgn 2 x, o)
    else if lead == 0xcd then (mpField b 2).bind fun (x, o) => .ok (x, o)
    else if lead == 0xd2 then (mpField b 4).bind fun (x, o) => .ok (sgn 4 x, o)
    else if lead == 0xce then (mpField b 4).bind fun (x, o) => .ok (x, o)
    else if lead == 0xd3 then (mpField b 8).bind fun (x, o) => .ok (sgn 8 x, o)
    else if lead == 0xcf then (mpField b 8).bind fun (x, o) =>
      if x > 9223372036854775807 then .err .other else .ok (x, o)
    else .err .other

/-- msgp.ReadUint64Bytes -/
def mpReadUint (b : Bytes) : G (Nat × Bytes) :=
  match b with
  | [] => .err .other
  | lead :: rest =>
    if lead.toNat < 128 then .ok (lead.toNat, rest)
    else
      let signed (n : Nat) : G (Nat × Bytes) :=
        (mpField b n).bind fun (x, o) => if sgn n x < 0 then .err .other else .ok (x, o)
      if lead == 0xd0 then signed 1
      else if lead == 0xcc then mpField b 1
      else if lead == 0xd1 then signed 2
      else if lead == 0xcd then mpField b 2
      else if lead == 0xd2 then signed 4
      else if lead == 0xce then mpField b 4
      else if lead == 0xd3 then signed 8
      else if lead == 0xcf then mpField b 8
      else .err .other

/-- msgp.ReadIntNBytes / ReadUintNBytes: the 64-bit reader followed by a range check -/
def mpReadIntK (k : IKind) (b : Bytes) : G (Int × Bytes) :=
  (mpReadInt b).bind fun (i, o) => if i > k.hi ∨ i < k.lo then .err .other else .ok (i, o)

def mpReadUintK (k : IKind) (b : Bytes) : G (Int × Bytes) :=
  (mpReadUint b).bind fun (u, o) => if (u : Int) > k.hi then .err .other else .ok ((u : Int), o)

/-- msgp.IntNSize / UintNSize constants -/
def mpSize (k : IKind) : Nat := 1 + k.bits / 8

/-- what the generated code does for a named integer type of kind `k` -/
def mpMarshal (k : IKind) (v : Int) : Bytes := if k.signed then mpAppendInt v else mpAppendUint v.toNat
def mpUnmarshal (k : IKind) (b : Bytes) : G (Int × Bytes) := if k.signed then mpReadIntK k b else mpReadUintK k b

end Imeta.Codec
