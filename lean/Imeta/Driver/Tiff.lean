import Imeta.Model.Tiff
import Imeta.Model.TiffReq
namespace Imeta.Tiff

def showOutcome : Outcome Header → String
  | .ok h => s!"ok {h.offset} {h.order.code} {h.firstIfd} {h.restLen}"
  | .err k => s!"err {k.name}"
  | .panic s => s!"panic {s}"
  | .fuel => "fuel"

def handle : List String → Option String
  | ["tiff.scan", hex] => (parseHex hex).map fun b => showOutcome (scan (b.length + 1) b 0)
  | ["tiff.req", hex] => (parseHex hex).map fun b =>
      let r := scanC 4096 (b.length + 1) b 0 { buffered := 0, srcLeft := b.length, req := 0, reads := 0 }
      s!"{showOutcome r.1} | req={r.2.req} reads={r.2.reads}"
  | ["tiff.spec", hex] => (parseHex hex).map fun b => showOutcome (spec b 0)
  | _ => none

end Imeta.Tiff
