import Imeta.Model.Tiff
namespace Imeta.Tiff

def showOutcome : Outcome Header → String
  | .ok h => s!"ok {h.offset} {h.order.code} {h.firstIfd} {h.restLen}"
  | .err k => s!"err {k.name}"
  | .panic s => s!"panic {s}"
  | .fuel => "fuel"

def handle : List String → Option String
  | ["tiff.scan", hex] => (parseHex hex).map fun b => showOutcome (scan (b.length + 1) b 0)
  | ["tiff.spec", hex] => (parseHex hex).map fun b => showOutcome (spec b 0)
  | _ => none

end Imeta.Tiff
