import Imeta.Driver.Gen
import Imeta.Gen.Enums
import Imeta.Spec.Enums
namespace Imeta.EnumsDrv
open Imeta.Gen.Enums

def tables : GenDrv.Tables :=
  { ib := fnsIntBytes, iib := fnsIntIntBytes, ibool := fnsIntBool, ii := fnsIntInt, bi := fnsBytesInt }

open Imeta.EnumSpec in
def docs : List (String × Doc) :=
  [("imagetype_ImageType_String", imageType), ("imagetype_ImageType_Extension", imageTypeExt),
   ("exif2_ifds_IfdType_String", ifdType), ("exif2_tag_Type_String", tagType),
   ("meta_MeteringMode_String", meteringMode), ("meta_ExposureMode_String", exposureMode),
   ("meta_ExposureProgram_String", exposureProgram), ("meta_Orientation_String", orientation),
   ("meta_Flash_String", flash), ("meta_utils_ByteOrder_String", byteOrder),
   ("meta_canon_ContinuousDrive_String", canonContinuousDrive), ("meta_canon_FocusMode_String", canonFocusMode),
   ("meta_canon_MeteringMode_String", canonMeteringMode), ("meta_canon_FocusRange_String", canonFocusRange),
   ("meta_canon_ExposureMode_String", canonExposureMode), ("meta_canon_BracketMode_String", canonBracketMode),
   ("meta_canon_AESetting_String", canonAESetting), ("meta_canon_AFAreaMode_String", canonAFAreaMode),
   ("xmp_xmpns_Namespace_String", xmpNamespace), ("isobmff_hdlrType_String", hdlrType)]

def handle (toks : List String) : Option String :=
  match toks with
  | ["enum.doc", fn, a] => do
      let d ← GenDrv.look docs fn
      let v ← a.toInt?
      pure ("ok " ++ toHex (d.name v))
  | ["enum.hasdoc", fn] => some (if (GenDrv.look docs fn).isSome then "true" else "false")
  | _ => GenDrv.handle "enum" tables toks

end Imeta.EnumsDrv
