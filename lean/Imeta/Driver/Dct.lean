/-  dct.<asm64|go64|asm256|go256> <hex of little-endian float32 bits>  ->  hex of the result bits, or "unsupported" -/
import Imeta.Go.Basic
import Imeta.Gen.AsmDct
namespace Imeta.DctDrv
open Imeta Imeta.AvxSem Imeta.Gen.AsmDct

instance : Alg Float32 where
  add := (· + ·)
  sub := (· - ·)
  div := (· / ·)
  zero := Float32.ofBits 0
  lit n := Float32.ofBits n.toUInt32

def goTabs : GoTabs :=
  { t256 := go_dct256, t128 := go_dct128, t64 := go_dct6432, t32 := go_dct3232, t16 := go_dct1632,
    t8 := go_forwardDCT8_divisors, t4 := go_forwardDCT4_divisors }

def toFloats : Bytes → List Float32
  | a :: b :: c :: d :: t => Float32.ofBits (a.toUInt32 ||| (b.toUInt32 <<< 8) ||| (c.toUInt32 <<< 16) ||| (d.toUInt32 <<< 24)) :: toFloats t
  | _ => []

def bitsHex (f : Float32) : String :=
  let b := f.toBits
  toHex [b.toUInt8, (b >>> 8).toUInt8, (b >>> 16).toUInt8, (b >>> 24).toUInt8]

def outLanes (l : List (Lane Float32)) : String :=
  String.join (l.map fun x => match x with | .v f => bitsHex f | .i _ => "????????")

def handle : List String → Option String
  | [op, hex] => do
      let b ← parseHex hex
      let x := toFloats b
      if op == "dct.asm64" then
        pure (match kernel table asmForwardDCT64 0 x with | some l => outLanes l | none => "unsupported")
      else if op == "dct.asm256" then
        pure (match kernel table asmForwardDCT256 256 x with | some l => outLanes l | none => "unsupported")
      else if op == "dct.go64" then pure (String.join ((goDct64 goTabs x).map bitsHex))
      else if op == "dct.go256" then pure (String.join ((goDct256 goTabs x).map bitsHex))
      else none
  | _ => none
end Imeta.DctDrv
