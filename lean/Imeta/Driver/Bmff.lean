/-  bmff.run <drain|none|fail|k7> <calls> <exp: e/x/p letters or -> <hex>
    -> the same line the harness prints for the real reader:
       [events] ftyp=<err>@<pos> { [events] md=<err>@<pos> }   -/
import Imeta.Model.Bmff
namespace Imeta.BmffDrv
open Imeta Imeta.Bmff

def fnv32 (b : Bytes) : Nat := b.foldl (fun h x => ((h ^^^ x.toNat) * 16777619) % 2 ^ 32) 2166136261

def digest (b : Bytes) : String := s!"{b.length}:{fnv32 b}:{toHex (b.take 6)}"

def evStr (e : Ev) : String :=
  if e.kind == "xmp" then s!"xmp({digest e.data})"
  else s!"{e.kind}({",".intercalate (e.nums.map toString)},{digest e.data})"

/-- run one entry; returns the text of new events and the mark -/
def step (what : String) (m : M Unit) (s : St) : String × Bool × St :=
  let r := m { s with events := [] }
  let evs := r.2.events.reverse.map evStr
  let mark := s!"{what}={resName r.1}@{r.2.pos}"
  let ok := match r.1 with | .ok _ => true | _ => false
  (" ".intercalate (evs ++ [mark]), ok, r.2)

def runAll (cfg : Cfg) (calls : Nat) (b : Bytes) : String :=
  let s0 := St.init b cfg
  let (t, ok, s1) := step "ftyp" readFTYP s0
  if !ok then t else
  let rec go : Nat → St → List String → List String
    | 0, _, acc => acc
    | n+1, s, acc =>
      let (t, ok, s') := step "md" readMetadata s
      if ok then go n s' (t :: acc) else t :: acc
  " ".intercalate (t :: (go calls s1 []).reverse)

def parseCb : String → Option Cb
  | "drain" => some .drain | "none" => some .none | "fail" => some .fail | "k7" => some .k7 | _ => none

def handle : List String → Option String
  | ["bmff.run", cb, calls, exp, hex] => do
      let cb ← parseCb cb
      let n ← calls.toNat?
      let b ← parseHex hex
      let has (c : Char) := exp.toList.contains c
      pure (runAll { cb := cb, hasExif := has 'e', hasXmp := has 'x', hasPrvw := has 'p' } n b)
  | _ => none
end Imeta.BmffDrv
