/-
  Driver access to the Exif reader model.
    exif.run <entry> <hex>     entry: parse | tiffbuf | jpegifd:<order>:<firstIfd>:<len> | ifd:<order>:<firstIfd>:<len>:<ifdtype>
    -> <err> <raw fields…> pos=<rest length> alloc=<n>     (raw: rationals, date tuples, zones; the harness finishes
       them with the library's own Go expressions)  |  panic | fuel | noexif
    exif.tag <order> <ifdtype> <base> <hex12>   -> tagFromBuffer
    exif.buf <po> <ops…>                        -> pending-tag buffer after add:<off> / adv / reset operations
    exif.trim <hex> / exif.struint <hex>
-/
import Imeta.Model.ExifTables
import Imeta.Model.ImageType
namespace Imeta.ExifDrv
open Imeta Imeta.Exif

def hx (b : Bytes) : String := if b.isEmpty then "-" else toHex b

def showDate : Option DateT → String
  | none => "-"
  | some d => s!"{d.y}.{d.mo}.{d.d}.{d.h}.{d.mi}.{d.s}"

def showZone : Zone → String
  | .none => "N"
  | .utc => "U"
  | .fixed s n => s!"F.{s}.{hx n}"

def showList (l : List Nat) : String := ".".intercalate (l.map toString)

def showRec (e : Rec) : String :=
  s!" it={e.imageType} make={hx e.make} model={hx e.model} cmake={e.cameraMake} cmodel={e.cameraModel} w={e.width} h={e.height}" ++
  s!" orient={e.orientation} sw={hx e.software} artist={hx e.artist} copy={hx e.copyright} desc={hx e.description}" ++
  s!" lmake={hx e.lensMake} lmodel={hx e.lensModel} lserial={hx e.lensSerial} cserial={hx e.cameraSerial}" ++
  s!" stripo={e.stripOffsets} stripc={e.stripByteCounts}" ++
  s!" et={if e.exposureTimeSet then "R" else "Z"}.{e.exposureTime.1}.{e.exposureTime.2}" ++
  s!" fn={if e.fnumberKind = 1 then "R" else if e.fnumberKind = 2 then "A" else "Z"}.{e.fnumber.1}.{e.fnumber.2}" ++
  s!" fl={if e.focalLengthSet then "R" else "Z"}.{e.focalLength.1}.{e.focalLength.2}" ++
  s!" fl35={if e.focalLength35Set then "R" else "Z"}.{e.focalLength35.1}.{e.focalLength35.2}" ++
  s!" iso={e.isoSpeed} eb={e.exposureBias} ep={e.exposureProgram} em={e.exposureMode} mm={e.meteringMode} flash={e.flash}" ++
  s!" lens={if e.lensInfo.isEmpty then "-" else showList e.lensInfo}" ++
  s!" tmod={showDate e.modifyDate}/{e.subSec}/{showZone e.offsetTime}" ++
  s!" torig={showDate e.dateTimeOriginal}/{e.subSecOriginal}/{showZone e.offsetTimeOriginal}" ++
  s!" tcreate={showDate e.createDate}/{e.subSecDigitized}/{showZone e.offsetTimeDigitized}" ++
  s!" lat={if e.gpsLatRef then 1 else 0}/{match e.gpsLat with | none => "-" | some l => showList l}" ++
  s!" lng={if e.gpsLngRef then 1 else 0}/{match e.gpsLng with | none => "-" | some l => showList l}" ++
  s!" alt={if e.gpsAltRef then 1 else 0}/{match e.gpsAlt with | none => "-" | some p => s!"{p.1}.{p.2}"}" ++
  s!" gpst={showDate e.gpsDate}/{e.gpsTime}"

def errName : Option ErrKind → String
  | none => "nil"
  | some k => k.name

def showRes : Outcome (R × Option ErrKind) → String
  | .ok (r, e) => errName e ++ showRec r.ex ++ s!" pos={r.rest.length} alloc={r.alloc} hazard={if r.hazard then 1 else 0}"
  | .err k => "err " ++ k.name
  | .panic _ => "panic"
  | .fuel => "fuel"

def parseOrder (s : String) : ByteOrder := if s == "2" then .big else if s == "1" then .little else .unknown

def showTag (t : Tag) : String := s!"{t.id}:{t.typ}:{t.count}:{t.off}:{t.ifd}:{t.idx}:{t.order.code}"

/-- pending-buffer operation sequences (unit-level correspondence through the `verif` hook) -/
def bufOps (r : R) : List String → Option R
  | [] => some r
  | op :: rest =>
    if op.startsWith "add:" then do
      let o ← (op.drop 4).toNat?
      bufOps (addTag r { off := o, count := 1, id := o % 65536, typ := tASCII, ifd := ifd0, idx := 0, order := .little }) rest
    else if op == "adv" then
      bufOps (if r.pos < r.tags.length then { r with pos := r.pos + 1 } else r) rest
    else if op == "reset" then bufOps (resetPosition r) rest
    else if op.startsWith "po:" then do
      let o ← (op.drop 3).toNat?
      bufOps { r with po := o } rest
    else none

def handle : List String → Option String
  | ["exif.run", entry, hex] => do
      let b ← parseHex hex
      let parts := entry.splitOn ":"
      match parts with
      | ["parse"] =>
        -- exif2.Parse: image type sniffed from the first 32 bytes at offset 0
        let it := match ImageType.Buf (b.take 32) with | .ok t => t | _ => 0
        match Exif.parse tables b with
        | .ok none => pure "noexif"
        | .ok (some (r, e)) => pure (showRes (.ok ({ r with ex := { r.ex with imageType := if r.ex.imageType = 0 then it else r.ex.imageType } }, e)))
        | .panic _ => pure "panic"
        | .fuel => pure "fuel"
        | .err k => pure ("err " ++ k.name)
      | ["tiffbuf", o, fi, it] => do
        let fi ← fi.toNat?; let it ← it.toNat?
        pure (showRes (decodeTiff tables b true { order := parseOrder o, firstIfd := fi, firstIfdType := ifd0, exifLength := 0, imageType := it }))
      | ["tiffraw", o, fi, it] => do
        let fi ← fi.toNat?; let it ← it.toNat?
        pure (showRes (decodeTiff tables b false { order := parseOrder o, firstIfd := fi, firstIfdType := ifd0, exifLength := 0, imageType := it }))
      | ["jpegifd", o, fi, len] => do
        let fi ← fi.toNat?; let len ← len.toNat?
        pure (showRes (decodeJPEGIfd tables b true { order := parseOrder o, firstIfd := fi, firstIfdType := ifd0, exifLength := len, imageType := 1 }))
      | ["ifd", o, fi, len, ty] => do
        let fi ← fi.toNat?; let len ← len.toNat?; let ty ← ty.toNat?
        pure (showRes (decodeIfd tables b true { order := parseOrder o, firstIfd := fi, firstIfdType := ty, exifLength := len, imageType := 0 }))
      | _ => none
  | ["exif.tag", o, ty, base, hex] => do
      let b ← parseHex hex; let ty ← ty.toNat?; let base ← base.toNat?
      match tagFromBuffer { off := 0, base := base, order := parseOrder o, typ := ty, idx := 0 } b with
      | .ok (some t) => pure ("ok " ++ showTag t)
      | .ok none => pure "invalid"
      | .panic _ => pure "panic"
      | _ => pure "?"
  | "exif.buf" :: po :: ops => do
      let po ← po.toNat?
      let r ← bufOps { rest := [], po := po, exifLength := 0, buffered := true } ops
      pure (s!"pos={r.pos} len={r.tags.length} " ++ ",".intercalate (r.tags.map fun t => toString t.off))
  | "exif.rawops" :: exl :: hex :: ops => do
      -- the two stream primitives on a plain reader: op > 0 fastRead, op <= 0 discard; per op "bytes:err:po"
      let exl ← exl.toNat?; let b ← parseHex hex
      let step := fun (acc : R × List String) (o : String) =>
        match o.toInt? with
        | none => acc
        | some k =>
          if k > 0 then
            let rd := fastRead acc.1 k.toNat
            (rd.r, acc.2 ++ [s!"{hx rd.buf}:{errName rd.err}:{rd.r.po}"])
          else
            let (r', e) := discard acc.1 (-k)
            (r', acc.2 ++ [s!"-:{errName e}:{r'.po}"])
      let res := ops.foldl step ({ rest := b, po := 0, exifLength := exl, buffered := false }, [])
      pure (" ".intercalate res.2)
  | ["exif.trim", hex] => do let b ← parseHex hex; pure (hx (trimNUL b))
  | ["exif.struint", hex] => do let b ← parseHex hex; pure (toString (parseStrUint b))
  | _ => none

end Imeta.ExifDrv
