import Imeta.Model.ImageType
import Imeta.Spec.ImageType
namespace Imeta.ImageType

def showO : Outcome Nat → String
  | .ok t => s!"ok {t}"
  | .err k => s!"err {k.name}"
  | .panic s => s!"panic {s}"
  | .fuel => "fuel"

def handle : List String → Option String
  | ["it.buf", hex] => (parseHex hex).map fun b => showO (Buf b)
  | ["it.spec", hex] => (parseHex hex).map fun b => showO (ImageTypeSpec.sniff b)
  | ["it.scanbuf", size, hex] => do
      let b ← parseHex hex
      let n ← size.toNat?
      let r := ScanBuf b n
      pure s!"{showO r.1} rest={r.2.length}"
  | ["it.scan", size, hex] => do
      let b ← parseHex hex
      let sz ← if size == "none" then some none else size.toNat?.map some
      pure (showO (Scan b sz))
  | ["it.readat", hex] => (parseHex hex).map fun b => showO (ReadAt b)
  | ["it.sig", f, hex] => do
      let b ← parseHex hex
      let n ← f.toNat?
      pure (if ImageTypeSpec.Sig n (b.take 24) then "true" else "false")
  | _ => none

end Imeta.ImageType
