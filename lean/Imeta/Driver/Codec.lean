/-
  Driver access to the C16 codec models.
    codec.eb.marshal <int>               -> ok <hex>
    codec.eb.unmarshal <prev> <hex>      -> ok <int> | panic
    codec.aperture <hex>                 -> ok <nat> | panic
    codec.focal <hex>                    -> ok none | ok <hex> | panic
    codec.uuid.marshal <hex16>           -> ok <hex>
    codec.uuid.unmarshal <hex>           -> ok <hex> | err
    codec.mp.marshal <bits> <s|u> <int>  -> ok <hex>
    codec.mp.unmarshal <bits> <s|u> <hex>-> ok <int> <restlen> | err
    codec.enum.unmarshal <table> <hex>   -> ok <int>
    codec.hash64 <nat>                   -> ok <hex> <nat>   (encode, then decode of the encoding)
    codec.ib / codec.ii / codec.bi ...   -> generated functions (Imeta.Gen.Codec)
-/
import Imeta.Model.Codec
import Imeta.Gen.Codec
import Imeta.Driver.Gen
namespace Imeta.CodecDrv
open Imeta Imeta.Codec

def tables : GenDrv.Tables :=
  { ib := Imeta.Gen.Codec.fnsIntBytes, iib := Imeta.Gen.Codec.fnsIntIntBytes, ibool := Imeta.Gen.Codec.fnsIntBool,
    ii := Imeta.Gen.Codec.fnsIntInt, bi := Imeta.Gen.Codec.fnsBytesInt, bib := Imeta.Gen.Codec.fnsBytesIntBool,
    ibib := Imeta.Gen.Codec.fnsIntBytesIntBool, ibb := Imeta.Gen.Codec.fnsIntBytesBool }

def iiTable : List (String × (Int → Int → G Int)) := [("meta_NewExposureBias", Imeta.Gen.Codec.meta_NewExposureBias)]

def enumTables : List (String × List (Bytes × Int)) :=
  [("MeteringMode", Imeta.Gen.Codec.meta_mapStringMeteringMode_data),
   ("ExposureMode", Imeta.Gen.Codec.meta_mapStringExposureMode_data),
   ("ExposureProgram", Imeta.Gen.Codec.meta_mapStringExposureProgram_data)]

def kindOf (bits sg : String) : Option IKind := do
  let b ← bits.toNat?
  if sg == "s" then some ⟨b, true⟩ else if sg == "u" then some ⟨b, false⟩ else none

open GenDrv in
def handle : List String → Option String
  | ["codec.eb.marshal", v] => do let x ← v.toInt?; pure ("ok " ++ toHex (ebMarshal x))
  | ["codec.eb.unmarshal", p, h] => do
      let pv ← p.toInt?; let b ← parseHex h; pure (showG showInt (ebUnmarshal pv b))
  | ["codec.aperture", h] => do let b ← parseHex h; pure (showG toString (apertureParse b))
  | ["codec.focal", h] => do
      let b ← parseHex h
      pure (showG (fun o => match o with | none => "none" | some s => toHex s) (focalStrip b))
  | ["codec.uuid.marshal", h] => do let b ← parseHex h; pure ("ok " ++ toHex (uuidMarshal b))
  | ["codec.uuid.unmarshal", h] => do let b ← parseHex h; pure (showG toHex (uuidUnmarshal b))
  | ["codec.mp.marshal", bits, sg, v] => do
      let k ← kindOf bits sg; let x ← v.toInt?; pure ("ok " ++ toHex (mpMarshal k x))
  | ["codec.mp.unmarshal", bits, sg, h] => do
      let k ← kindOf bits sg; let b ← parseHex h
      pure (showG (fun r => showInt r.1 ++ " " ++ toString r.2.length) (mpUnmarshal k b))
  | ["codec.enum.unmarshal", t, h] => do
      let tbl ← look enumTables t; let b ← parseHex h; pure ("ok " ++ showInt (enumUnmarshal tbl b))
  | ["codec.hash64", v] => do
      let x ← v.toNat?
      pure (showG (fun r => toHex r.1 ++ " " ++ toString r.2)
        ((hash64Encode 8 x).bind fun e => (hash64Decode e).bind fun d => .ok (e, d)))
  | ["codec.iii", fn, a, b] => do
      let f ← look iiTable fn; let x ← a.toInt?; let y ← b.toInt?; pure (showG showInt (f x y))
  | toks => GenDrv.handle "codec" tables toks

end Imeta.CodecDrv
