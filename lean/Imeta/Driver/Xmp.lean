/-  xmp.parse <hex> -> "<err> <pt>:<pns>.<pname>:<sns>.<sname>:<hexval> ..." -/
import Imeta.Model.Xmp
namespace Imeta.XmpDrv
open Imeta Imeta.Xmp
def tokStr (t : Tok) : String := s!"{t.pt}:{t.parent.1}.{t.parent.2}:{t.self.1}.{t.self.2}:{toHex t.val}"
def handle : List String → Option String
  | ["xmp.parse", hex] => do
      let b ← parseHex hex
      let r := parseXmp b
      let e := match r.1 with | .ok _ => "nil" | .error e => e.name
      pure (" ".intercalate (e :: r.2.map tokStr))
  | _ => none
end Imeta.XmpDrv
