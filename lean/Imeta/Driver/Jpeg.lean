/-
  Driver access to the JPEG scan model.
    jpeg.scan <hex> <exifmode> <xmpmode>
      exifmode: nil | all | n<k> | fail      (consume the declared length / k bytes / return an error)
      xmpmode:  nil | all | n<k> | fail
    -> <res> [E <order> <firstIfd> <tiffOffset> <exifLength> <len(view64)> <hash(view64)>]* [X <len(view)> <hash(view)>]*
       or `fuel`
-/
import Imeta.Model.Jpeg
namespace Imeta.JpegDrv
open Imeta Imeta.Jpeg

def fnv (b : Bytes) : Nat := b.foldl (fun h x => ((h ^^^ x.toNat) * 16777619) % 4294967296) 2166136261

def parseMode (m : String) : Option (Bool × (Nat → Nat) × Bool) :=
  -- (present, consumed as a function of the declared/available length, fails)
  if m == "nil" then some (false, fun _ => 0, false)
  else if m == "all" then some (true, fun n => n, false)
  else if m == "fail" then some (true, fun _ => 0, true)
  else if m.startsWith "n" then (m.drop 1).toNat?.map fun k => (true, fun _ => k, false)
  else none

def resName : Res → String
  | .ok => "ok" | .noMarker => "noMarker" | .endOfImage => "endOfImage" | .eof => "eof"
  | .negativeCount => "negativeCount" | .callback => "callback"

def showEv (xmpAll : Bool) : Ev → String
  | .exif h v => s!" E {h.order.code} {h.firstIfd} {h.tiffOffset} {h.exifLength} {(v.take 64).length} {fnv (v.take 64)}"
  | .xmp v => s!" X {(v.take 4096).length} {fnv (v.take 4096)}" ++ (if xmpAll then s!" A {v.length} {fnv v}" else "")

def handle : List String → Option String
  | ["jpeg.scan", hex, em, xm] => do
      let b ← parseHex hex
      let (he, fe, ee) ← parseMode em
      let (hx, fx, ex) ← parseMode xm
      let cb : Cbs := { hasExif := he, hasXmp := hx,
                        exif := fun h _ => (fe h.exifLength, ee),
                        xmp := fun v => (fx v.length, ex) }
      match scan cb b with
      | none => pure "fuel"
      | some (r, evs) => pure (resName r ++ String.join (evs.map (showEv (xm == "all"))))
  | _ => none

end Imeta.JpegDrv
