/-
  Driver access to GENERATED function tables (gotypes2lean dispatch lists):
    <pfx>.ib  <fn> <int>          Int → G Bytes
    <pfx>.iib <fn> <int> <int>    Int → Int → G Bytes
    <pfx>.ibool <fn> <int>        Int → G Bool
    <pfx>.ii  <fn> <int>          Int → G Int
    <pfx>.bi  <fn> <hex>          Bytes → G Int
-/
import Imeta.Go.Int
namespace Imeta.GenDrv

def showG {α} (f : α → String) : G α → String
  | .ok a => "ok " ++ f a
  | .err k => "err " ++ k.name
  | .panic _ => "panic"
  | .fuel => "fuel"

def showInt (i : Int) : String := toString i
def showBool (b : Bool) : String := if b then "true" else "false"

structure Tables where
  ib : List (String × (Int → G Bytes)) := []
  iib : List (String × (Int → Int → G Bytes)) := []
  ibool : List (String × (Int → G Bool)) := []
  ii : List (String × (Int → G Int)) := []
  bi : List (String × (Bytes → G Int)) := []
  bib : List (String × (Bytes → G (Int × Bool))) := []
  ibib : List (String × (Int → Bytes → G (Int × Bool))) := []
  ibb : List (String × (Int → G (Bytes × Bool))) := []

def look {α} (l : List (String × α)) (n : String) : Option α := (l.find? (·.1 == n)).map (·.2)

def handle (pfx : String) (t : Tables) : List String → Option String
  | [op, fn, a] =>
    if op == pfx ++ ".ib" then do
      let f ← look t.ib fn; let x ← a.toInt?; pure (showG toHex (f x))
    else if op == pfx ++ ".ibool" then do
      let f ← look t.ibool fn; let x ← a.toInt?; pure (showG showBool (f x))
    else if op == pfx ++ ".ii" then do
      let f ← look t.ii fn; let x ← a.toInt?; pure (showG showInt (f x))
    else if op == pfx ++ ".bi" then do
      let f ← look t.bi fn; let x ← parseHex a; pure (showG showInt (f x))
    else if op == pfx ++ ".bib" then do
      let f ← look t.bib fn; let x ← parseHex a
      pure (showG (fun r => showInt r.1 ++ " " ++ showBool r.2) (f x))
    else if op == pfx ++ ".ibb" then do
      let f ← look t.ibb fn; let x ← a.toInt?
      pure (showG (fun r => toHex r.1 ++ " " ++ showBool r.2) (f x))
    else none
  | [op, fn, a, b] =>
    if op == pfx ++ ".iib" then do
      let f ← look t.iib fn; let x ← a.toInt?; let y ← b.toInt?; pure (showG toHex (f x y))
    else if op == pfx ++ ".ibib" then do
      let f ← look t.ibib fn; let x ← a.toInt?; let y ← parseHex b
      pure (showG (fun r => showInt r.1 ++ " " ++ showBool r.2) (f x y))
    else none
  | _ => none

end Imeta.GenDrv
