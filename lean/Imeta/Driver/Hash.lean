/-
  Driver access to the C19 hash models (scalars instantiated at Float / Float32 via bit patterns).
    hash.guard <s> <nil 0|1> <w> <h>          -> true|false        (repaired guard)
    hash.guardpinned <s> <nil> <w> <h>        -> true|false
    hash.plan <s> <minX> <minY>               -> d:x:y,d:x:y,...   (gray conversion index plan)
    hash.bits f64|f32 <T> <c0,c1,...>         -> ok <nat>          (bit patterns in decimal)
    hash.words f64|f32 <T> <c0,...,c255>      -> ok w0,w1,w2,w3
    hash.median f64|f32 <c0,c1,...>           -> ok <bits> | panic | fuel
    hash.dist64 <a> <b>                       -> ok <n>
    hash.dist256 <a0,a1,a2,a3> <b0,...>       -> ok <n>
-/
import Imeta.Model.Hash
namespace Imeta.HashDrv
open Imeta Imeta.Hash

def parseNats (s : String) : Option (List Nat) := (s.splitOn ",").mapM (·.toNat?)

def showB (b : Bool) : String := if b then "true" else "false"

def showO {α} (f : α → String) : Outcome α → String
  | .ok a => "ok " ++ f a
  | .err k => "err " ++ k.name
  | .panic _ => "panic"
  | .fuel => "fuel"

def f64 (n : Nat) : Float := Float.ofBits (UInt64.ofNat n)
def f32 (n : Nat) : Float32 := Float32.ofBits (UInt32.ofNat n)

def handle : List String → Option String
  | ["hash.guard", s, n, w, h] => do
      let s ← s.toNat?; let w ← w.toInt?; let h ← h.toInt?
      pure (showB (accepts s (n == "1") w h))
  | ["hash.guardpinned", s, n, w, h] => do
      let s ← s.toNat?; let w ← w.toInt?; let h ← h.toInt?
      pure (showB (acceptsPinned s (n == "1") w h))
  | ["hash.plan", s, mx, my] => do
      let s ← s.toNat?; let mx ← mx.toInt?; let my ← my.toInt?
      pure (",".intercalate ((grayPlan s mx my).map fun p => s!"{p.1}:{p.2.1}:{p.2.2}"))
  | ["hash.bits", ty, t, cs] => do
      let t ← t.toNat?; let cs ← parseNats cs
      if ty == "f64" then pure ("ok " ++ toString (hashBitsLoop (f64 t) (cs.map f64)))
      else if ty == "f32" then pure ("ok " ++ toString (hashBitsLoop (f32 t) (cs.map f32)))
      else none
  | ["hash.words", ty, t, cs] => do
      let t ← t.toNat?; let cs ← parseNats cs
      let sh (l : List Nat) := ",".intercalate (l.map toString)
      if ty == "f64" then pure ("ok " ++ sh (hashWords (f64 t) (cs.map f64)))
      else if ty == "f32" then pure ("ok " ++ sh (hashWords (f32 t) (cs.map f32)))
      else none
  | ["hash.median", ty, cs] => do
      let cs ← parseNats cs
      if ty == "f64" then
        pure (showO (fun (x : Float) => toString x.toBits.toNat) (median (· / 2) (· + ·) (cs.map f64)))
      else if ty == "f32" then
        pure (showO (fun (x : Float32) => toString x.toBits.toNat) (median (· / 2) (· + ·) (cs.map f32)))
      else none
  | ["hash.dist64", a, b] => do
      let a ← a.toNat?; let b ← b.toNat?; pure ("ok " ++ toString (distance64 a b))
  | ["hash.dist256", a, b] => do
      let a ← parseNats a; let b ← parseNats b; pure ("ok " ++ toString (distance256 a b))
  | _ => none

end Imeta.HashDrv
