/-  png.scan <hex> -> ok <order> <firstIfd> <tiffOffset> <exifLength> | err NoExif | fuel -/
import Imeta.Model.Png
import Imeta.Model.PngReq
namespace Imeta.PngDrv
open Imeta
def handle : List String → Option String
  | ["png.scan", hex] => do
      let b ← parseHex hex
      match Png.scan b with
      | .ok h => pure s!"ok {h.order.code} {h.firstIfd} {h.tiffOffset} {h.exifLength}"
      | .err k => pure ("err " ++ k.name)
      | .panic _ => pure "panic"
      | .fuel => pure "fuel"
  | ["png.req", hex] => do
      let b ← parseHex hex
      pure s!"req={Png.scanReq b}"
  | _ => none
end Imeta.PngDrv
