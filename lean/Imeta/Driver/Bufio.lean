/-  bufio.peek <hex> <sched a,b,..|-> <size> <n1,n2,...>  -> after each Peek(n_i)+Discard(n_i/2): "<hex>:<ok>" joined by spaces -/
import Imeta.Model.Bufio
namespace Imeta.BufioDrv
open Imeta Imeta.Bufio
def run (b : Br) : List Nat → List String
  | [] => []
  | n :: t =>
    let p := peek b n
    let d := discard (n + 1) p.2 (n / 2)
    s!"{toHex p.1.1}:{if p.1.2 then 1 else 0}:{d.1}" :: run d.2 t

/-  bufio.ops <hex> <sched a,b,..|-> <size> <lims a,b,..|-> <op> ...   ops: P<n> Peek, D<n> Discard, R<n> Read(len n),
    F<n> io.ReadFull(n), B<n> box.Read(len n), G<n> io.ReadFull over the box (n), V<n> preview.RenderPreview over the box (Size n)  -> one token per op -/
def lims (ls : List Nat) : String := ",".intercalate (ls.map toString)
def hexOr (b : Bytes) : String := if b.isEmpty then "-" else toHex b
def runOps : Br → List Nat → List String → Option (List String)
  | _, _, [] => some []
  | b, ls, op :: t => do
    let n ← (String.ofList (op.toList.drop 1)).toNat?
    match op.toList.head? with
    | some 'P' =>
      let p := peek b n
      let r ← runOps p.2 ls t
      pure (s!"{hexOr p.1.1}:{if p.1.2 then 1 else 0}" :: r)
    | some 'D' =>
      let d := discard (n + 1) b n
      let r ← runOps d.2 ls t
      pure (s!"{d.1}" :: r)
    | some 'R' =>
      match b.read n with
      | (none, b') => do let r ← runOps b' ls t; pure ("EOF" :: r)
      | (some got, b') => do let r ← runOps b' ls t; pure (hexOr got :: r)
    | some 'F' =>
      let f := readFull (n + 1) b n
      let r ← runOps f.2.2 ls t
      pure (s!"{hexOr f.1}:{if f.2.1 then 1 else 0}" :: r)
    | some 'B' =>
      match boxRead ls b n with
      | (none, ls', b') => do let r ← runOps b' ls' t; pure (s!"EOF:{lims ls'}" :: r)
      | (some got, ls', b') => do let r ← runOps b' ls' t; pure (s!"{hexOr got}:{lims ls'}" :: r)
    | some 'G' =>
      let g := boxReadFull (n + 1) ls b n
      let r ← runOps g.2.2.2 g.2.2.1 t
      pure (s!"{hexOr g.1}:{if g.2.1 then 1 else 0}:{lims g.2.2.1}" :: r)
    | some 'V' =>
      let g := boxReadChunked 2048 (n + 1) ls b n
      let r ← runOps g.2.2 g.2.1 t
      pure (s!"{hexOr g.1}:{lims g.2.1}" :: r)
    | _ => none
def handle : List String → Option String
  | ["bufio.peek", hex, sched, size, ns] => do
      let b ← parseHex hex
      let sc ← if sched == "-" then some [] else (sched.splitOn ",").mapM (·.toNat?)
      let size ← size.toNat?
      let ns ← (ns.splitOn ",").mapM (·.toNat?)
      pure (" ".intercalate (run { buf := [], src := { rest := b, sched := sc }, size := size } ns))
  | "bufio.ops" :: hex :: sched :: size :: lm :: ops => do
      let b ← if hex == "-" then some [] else parseHex hex
      let sc ← if sched == "-" then some [] else (sched.splitOn ",").mapM (·.toNat?)
      let size ← size.toNat?
      let ls ← if lm == "-" then some [] else (lm.splitOn ",").mapM (·.toNat?)
      let out ← runOps { buf := [], src := { rest := b, sched := sc }, size := size } ls ops
      pure (" ".intercalate out)
  | _ => none
end Imeta.BufioDrv
