/-  bufio.peek <hex> <sched a,b,..|-> <size> <n1,n2,...>  -> after each Peek(n_i)+Discard(n_i/2): "<hex>:<ok>" joined by spaces -/
import Imeta.Model.Bufio
namespace Imeta.BufioDrv
open Imeta Imeta.Bufio
def run (b : Br) : List Nat → List String
  | [] => []
  | n :: t =>
    let p := peek b n
    let d := discard (n + 1) p.2 (n / 2)
    s!"{toHex p.1.1}:{if p.1.2 then 1 else 0}:{d.1}" :: run d.2 t
def handle : List String → Option String
  | ["bufio.peek", hex, sched, size, ns] => do
      let b ← parseHex hex
      let sc ← if sched == "-" then some [] else (sched.splitOn ",").mapM (·.toNat?)
      let size ← size.toNat?
      let ns ← (ns.splitOn ",").mapM (·.toNat?)
      pure (" ".intercalate (run { buf := [], src := { rest := b, sched := sc }, size := size } ns))
  | _ => none
end Imeta.BufioDrv
