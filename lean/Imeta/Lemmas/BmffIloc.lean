/-
  C11 / C06 — the iloc entry walk recovers the location of the Exif item: decode(encode) = the last entry with that id.
-/
import Imeta.Model.Bmff
namespace Imeta.Bmff
open Imeta

/-- one item of an iloc box with a single extent -/
structure IlocEnt where
  id : Nat
  off : Nat
  len : Nat

def IlocCfg.entrySize (c : IlocCfg) : Nat := 6 + c.baseOffsetSize + (if c.version > 0 then 2 else 0)

/-- item_ID, (construction_method,) data_reference_index, base_offset — all but the id zero —, extent_count = 1, the extent -/
def encIlocEnt (c : IlocCfg) (e : IlocEnt) : Bytes :=
  beBytes 2 e.id ++ (List.replicate (c.entrySize - 4) 0 ++ (beBytes 2 1 ++ (beBytes c.offsetSize e.off ++ beBytes c.lengthSize e.len)))

def encIloc (c : IlocCfg) : List IlocEnt → Bytes
  | [] => []
  | e :: t => encIlocEnt c e ++ encIloc c t

def IlocEnt.ok (c : IlocCfg) (e : IlocEnt) : Prop := e.id < 65536 ∧ e.off < 256 ^ c.offsetSize ∧ e.len < 256 ^ c.lengthSize

/-- what the walk should compute: the location of the last entry carrying the Exif item id -/
def ilocSpec (exifId : Nat) (ol : Nat × Nat) : List IlocEnt → Nat × Nat
  | [] => ol
  | e :: t => ilocSpec exifId (if e.id == exifId then (e.off, e.len) else ol) t

theorem beBytes_length (n v : Nat) : (beBytes n v).length = n := by simp [beBytes, leBytes_length]

theorem drop_add' {α} (l : List α) (a b : Nat) : l.drop (a + b) = (l.drop a).drop b := by
  rw [List.drop_drop]

/-- dropping a whole prefix -/
theorem drop_prefix {α} (p q : List α) (n : Nat) (h : p.length = n) : (p ++ q).drop n = q := by
  rw [← h, List.drop_left]

theorem take_prefix {α} (p q : List α) (n : Nat) (h : p.length = n) : (p ++ q).take n = p := by
  rw [← h, List.take_left]

theorem encIlocEnt_length (c : IlocCfg) (e : IlocEnt) : (encIlocEnt c e).length = c.entrySize + c.offsetSize + c.lengthSize := by
  unfold encIlocEnt
  simp only [List.length_append, beBytes_length, List.length_replicate]
  unfold IlocCfg.entrySize
  split <;> omega

theorem ilocWalk_encoded (c : IlocCfg) (exifId xmlId : Nat) (buf : Bytes) :
    ∀ (es : List IlocEnt) (f i : Nat) (ol : Nat × Nat), es.length < f → (∀ e ∈ es, e.ok c) →
      buf.drop i = encIloc c es → i ≤ buf.length →
      ilocWalk c exifId xmlId buf f i ol = ilocSpec exifId ol es := by
  intro es
  induction es with
  | nil =>
    intro f i ol hf _ hd hi
    cases f with
    | zero => omega
    | succ f =>
      unfold ilocWalk
      have hlen : buf.length = i := by
        have := congrArg List.length hd
        simp only [List.length_drop, encIloc, List.length_nil] at this
        omega
      simp only []
      rw [if_neg (by rw [hlen]; omega)]
      rfl
  | cons e t ih =>
    intro f i ol hf hok hd hi
    cases f with
    | zero => omega
    | succ f =>
      have he := hok e (by simp)
      have hES : c.entrySize = 6 + c.baseOffsetSize + (if c.version > 0 then 2 else 0) := rfl
      have hE4 : 4 ≤ c.entrySize := by rw [hES]; omega
      have hel := encIlocEnt_length c e
      have hdl := congrArg List.length hd
      simp only [List.length_drop, encIloc, List.length_append, hel] at hdl
      -- the pieces of the entry at their places
      have hsplit : buf.drop i = beBytes 2 e.id ++ (List.replicate (c.entrySize - 4) 0 ++ (beBytes 2 1 ++ (beBytes c.offsetSize e.off ++ (beBytes c.lengthSize e.len ++ encIloc c t)))) := by
        rw [hd]; simp only [encIloc, encIlocEnt, List.append_assoc]
      have hid : (buf.drop i).take 2 = beBytes 2 e.id := by
        rw [hsplit]; exact take_prefix _ _ 2 (beBytes_length 2 e.id)
      have hd1 : buf.drop (i + c.entrySize - 2) = beBytes 2 1 ++ (beBytes c.offsetSize e.off ++ (beBytes c.lengthSize e.len ++ encIloc c t)) := by
        have : i + c.entrySize - 2 = i + 2 + (c.entrySize - 4) := by omega
        rw [this, drop_add', drop_add', hsplit, drop_prefix _ _ 2 (beBytes_length 2 e.id), drop_prefix _ _ (c.entrySize - 4) (List.length_replicate ..)]
      have hcnt : (buf.drop (i + c.entrySize - 2)).take 2 = beBytes 2 1 := by
        rw [hd1]; exact take_prefix _ _ 2 (beBytes_length 2 1)
      have hd2 : buf.drop (i + c.entrySize - 2 + 2) = beBytes c.offsetSize e.off ++ (beBytes c.lengthSize e.len ++ encIloc c t) := by
        rw [drop_add', hd1, drop_prefix _ _ 2 (beBytes_length 2 1)]
      have hoff : (buf.drop (i + c.entrySize - 2 + 2)).take c.offsetSize = beBytes c.offsetSize e.off := by
        rw [hd2]; exact take_prefix _ _ _ (beBytes_length _ _)
      have hd3 : buf.drop (i + c.entrySize - 2 + 2 + c.offsetSize) = beBytes c.lengthSize e.len ++ encIloc c t := by
        rw [drop_add', hd2, drop_prefix _ _ _ (beBytes_length _ _)]
      have hlenb : (buf.drop (i + c.entrySize - 2 + 2 + c.offsetSize)).take c.lengthSize = beBytes c.lengthSize e.len := by
        rw [hd3]; exact take_prefix _ _ _ (beBytes_length _ _)
      have hd4 : buf.drop (i + c.entrySize - 2 + 2 + c.offsetSize + c.lengthSize) = encIloc c t := by
        rw [drop_add', hd3, drop_prefix _ _ _ (beBytes_length _ _)]
      unfold ilocWalk
      simp only []
      rw [← hES]
      rw [if_pos (by omega)]
      rw [hid, hcnt, hoff, hlenb]
      simp only [beNat_beBytes]
      have h1 : (1 : Nat) % 256 ^ 2 = 1 := by decide
      have hidm : e.id % 256 ^ 2 = e.id := Nat.mod_eq_of_lt (by have := he.1; omega)
      have hom : e.off % 256 ^ c.offsetSize = e.off := Nat.mod_eq_of_lt he.2.1
      have hlm : e.len % 256 ^ c.lengthSize = e.len := Nat.mod_eq_of_lt he.2.2
      rw [h1, hidm, hom, hlm]
      simp only [show ((1 : Nat) == 0) = false by decide, Bool.false_eq_true, if_false]
      rw [if_neg (by omega)]
      have := ih f (i + c.entrySize - 2 + 2 + c.offsetSize + c.lengthSize) (if e.id == exifId then (e.off, e.len) else ol)
        (by simp only [List.length_cons] at hf; omega) (fun x hx => hok x (by simp [hx])) hd4 (by omega)
      rw [this]
      rfl

/-- **the iloc walk on a well-formed single-extent item list** (the whole payload after the 8-byte header): the recorded
location is that of the last entry whose id is the Exif item id, else what was recorded before -/
theorem ilocWalk_decode_encode (c : IlocCfg) (exifId xmlId : Nat) (es : List IlocEnt) (ol : Nat × Nat) (hok : ∀ e ∈ es, e.ok c) :
    ilocWalk c exifId xmlId (encIloc c es) ((encIloc c es).length / 6 + 1) 0 ol = ilocSpec exifId ol es := by
  apply ilocWalk_encoded c exifId xmlId (encIloc c es) es _ 0 ol _ hok rfl (Nat.zero_le _)
  -- each entry takes at least 6 bytes
  have hlen : ∀ l : List IlocEnt, 6 * l.length ≤ (encIloc c l).length := by
    intro l
    induction l with
    | nil => simp [encIloc]
    | cons e t ih =>
      simp only [encIloc, List.length_append, List.length_cons, encIlocEnt_length]
      have : 6 ≤ c.entrySize := by unfold IlocCfg.entrySize; omega
      omega
  have := hlen es
  omega

end Imeta.Bmff

namespace Imeta.Bmff
open Imeta

/-- one version-2 item info entry: id, four-character item type, name -/
structure InfeEnt where
  id : Nat
  typ : Bytes
  name : Bytes

def InfeEnt.size (e : InfeEnt) : Nat := 21 + e.name.length

def encInfeEnt (e : InfeEnt) : Bytes :=
  beBytes 4 e.size ++ (t_infe ++ ([2, 0, 0, 0] ++ (beBytes 2 e.id ++ ([0, 0] ++ (e.typ ++ (e.name ++ [0]))))))

def encInfes : List InfeEnt → Bytes
  | [] => []
  | e :: t => encInfeEnt e ++ encInfes t

def InfeEnt.ok (e : InfeEnt) : Prop := e.id < 65536 ∧ e.typ.length = 4 ∧ e.size < 256 ^ 4

/-- what the walk should compute: the ids of the last "mime" and the last "Exif" item -/
def infeSpec (ids : Nat × Nat) : List InfeEnt → Nat × Nat
  | [] => ids
  | e :: t => infeSpec (if e.typ == t_mime then (ids.1, e.id) else if e.typ == t_Exif then (e.id, ids.2) else ids) t

theorem encInfeEnt_length (e : InfeEnt) (h : e.typ.length = 4) : (encInfeEnt e).length = e.size := by
  unfold encInfeEnt InfeEnt.size
  simp only [List.length_append, beBytes_length, h, List.length_cons, List.length_nil]
  have : t_infe.length = 4 := rfl
  omega

theorem infeWalk_encoded (buf : Bytes) :
    ∀ (es : List InfeEnt) (f i : Nat) (ids : Nat × Nat), es.length < f → (∀ e ∈ es, e.ok) →
      buf.drop i = encInfes es → i ≤ buf.length →
      infeWalk buf f i ids = infeSpec ids es := by
  intro es
  induction es with
  | nil =>
    intro f i ids hf _ hd hi
    cases f with
    | zero => omega
    | succ f =>
      unfold infeWalk
      have hlen : buf.length = i := by
        have := congrArg List.length hd
        simp only [List.length_drop, encInfes, List.length_nil] at this
        omega
      rw [if_neg (by rw [hlen]; omega)]
      rfl
  | cons e t ih =>
    intro f i ids hf hok hd hi
    cases f with
    | zero => omega
    | succ f =>
      have he := hok e (by simp)
      have hel := encInfeEnt_length e he.2.1
      have hsz : e.size = 21 + e.name.length := rfl
      have hdl := congrArg List.length hd
      simp only [List.length_drop, encInfes, List.length_append, hel] at hdl
      have hsplit : buf.drop i = beBytes 4 e.size ++ (t_infe ++ ([2, 0, 0, 0] ++ (beBytes 2 e.id ++ ([0, 0] ++ (e.typ ++ (e.name ++ ([0] ++ encInfes t))))))) := by
        rw [hd]; simp only [encInfes, encInfeEnt, List.append_assoc]
      have hsize : be32 (buf.drop i) = e.size := by
        unfold be32
        rw [hsplit, take_prefix _ _ 4 (beBytes_length 4 e.size), beNat_beBytes]
        exact Nat.mod_eq_of_lt he.2.2
      have hd4 : buf.drop (i + 4) = t_infe ++ ([2, 0, 0, 0] ++ (beBytes 2 e.id ++ ([0, 0] ++ (e.typ ++ (e.name ++ ([0] ++ encInfes t)))))) := by
        rw [drop_add', hsplit, drop_prefix _ _ 4 (beBytes_length 4 e.size)]
      have htyp : (buf.drop (i + 4)).take 4 = t_infe := by rw [hd4]; exact take_prefix _ _ 4 rfl
      have hd8 : buf.drop (i + 8) = [2, 0, 0, 0] ++ (beBytes 2 e.id ++ ([0, 0] ++ (e.typ ++ (e.name ++ ([0] ++ encInfes t))))) := by
        rw [show i + 8 = i + 4 + 4 by omega, drop_add', hd4, drop_prefix _ _ 4 rfl]
      have hver : (buf.drop (i + 8)).take 1 = [2] := by rw [hd8]; rfl
      have hd12 : buf.drop (i + 12) = beBytes 2 e.id ++ ([0, 0] ++ (e.typ ++ (e.name ++ ([0] ++ encInfes t)))) := by
        rw [show i + 12 = i + 8 + 4 by omega, drop_add', hd8, drop_prefix _ _ 4 rfl]
      have hidb : (buf.drop (i + 12)).take 2 = beBytes 2 e.id := by rw [hd12]; exact take_prefix _ _ 2 (beBytes_length 2 e.id)
      have hd16 : buf.drop (i + 16) = e.typ ++ (e.name ++ ([0] ++ encInfes t)) := by
        rw [show i + 16 = i + 12 + 2 + 2 by omega, drop_add', drop_add', hd12, drop_prefix _ _ 2 (beBytes_length 2 e.id), drop_prefix _ _ 2 rfl]
      have hityp : (buf.drop (i + 16)).take 4 = e.typ := by rw [hd16]; exact take_prefix _ _ 4 he.2.1
      have hdN : buf.drop (i + e.size) = encInfes t := by
        rw [show i + e.size = i + 16 + 4 + e.name.length + 1 by omega, drop_add', drop_add', drop_add', hd16,
          drop_prefix _ _ 4 he.2.1, drop_prefix _ _ _ rfl, drop_prefix _ _ 1 rfl]
      unfold infeWalk
      rw [if_pos (by omega)]
      simp only [hsize, htyp, hver, hidb, hityp, beNat_beBytes]
      have hidm : e.id % 256 ^ 2 = e.id := Nat.mod_eq_of_lt (by have := he.1; omega)
      rw [hidm]
      have hc1 : (decide (e.size < 12) || decide (e.size > buf.length - i)) = false := by
        simp only [Bool.or_eq_false_iff, decide_eq_false_iff_not]; omega
      simp only [hc1, Bool.false_eq_true, if_false, bne_self_eq_false]
      rw [if_neg (by omega)]
      have := ih f (i + e.size) (if e.typ == t_mime then (ids.1, e.id) else if e.typ == t_Exif then (e.id, ids.2) else ids)
        (by simp only [List.length_cons] at hf; omega) (fun x hx => hok x (by simp [hx])) hdN (by omega)
      rw [this]
      rfl

/-- **the infe walk on a well-formed list of version-2 entries** (the iinf payload after flags and count): the ids of the
last "mime" item and the last "Exif" item -/
theorem infeWalk_decode_encode (es : List InfeEnt) (ids : Nat × Nat) (hok : ∀ e ∈ es, e.ok) :
    infeWalk (encInfes es) ((encInfes es).length / 12 + 1) 0 ids = infeSpec ids es := by
  apply infeWalk_encoded (encInfes es) es _ 0 ids _ hok rfl (Nat.zero_le _)
  have hlen : ∀ l : List InfeEnt, (∀ e ∈ l, e.ok) → 12 * l.length ≤ (encInfes l).length := by
    intro l
    induction l with
    | nil => intro _; simp [encInfes]
    | cons e t ih =>
      intro h
      have he := h e (by simp)
      simp only [encInfes, List.length_append, List.length_cons, encInfeEnt_length e he.2.1]
      have := ih (fun x hx => h x (by simp [hx]))
      have : e.size = 21 + e.name.length := rfl
      omega
  have := hlen es hok
  omega

end Imeta.Bmff
