/-
  C13: several rdf:Description elements in one packet (exiftool writes one per namespace).
-/
import Imeta.Lemmas.XmpPacket
namespace Imeta.Xmp
open Imeta Imeta.Props.C13

/-- the wrapper step for an element WITHOUT attributes (`<rdf:Description>` written bare) -/
theorem readTag_wrapper0_exact (parent : Tag) (st : St) (D : Name) (ws0 wsV X ws2 R : Bytes) (n : Nat) (K : List Tok → List Tok) (f : Nat)
    (hr : st.rest = ws0 ++ 60 :: ((D.n0 :: D.ns) ++ 58 :: (D.name ++ 62 :: (wsV ++ 60 :: X))))
    (hD : D.OK) (hDseq : (D.prop == rdfSeq || D.prop == rdfAlt || D.prop == rdfBag) = false) (hDroot : (D.prop == rootProp) = false)
    (hws0 : ∀ x ∈ ws0, (x == 60) = false) (hwin0 : ws0.length + 128 ≤ W)
    (hwsV : ∀ x ∈ wsV, isWs x = true) (hwinV : wsV.length < 512)
    (hkids : ∀ toks0, readTag (f + 1 + n) { t := .start, parent := parent.self, self := D.prop } { rest := 60 :: X, a := false, toks := toks0 } =
      readTag (f + 1) { t := .start, parent := parent.self, self := D.prop } { rest := ws2 ++ D.closeT R, a := false, toks := K toks0 })
    (hXlen : 5 ≤ (60 :: X : Bytes).length)
    (hws2 : ∀ x ∈ ws2, (x == 60) = false) (hwin2 : ws2.length + 128 ≤ W) :
    readTag (f + 2 + n) parent st =
      readTag (f + 1 + n) parent { rest := R, a := false, toks := K st.toks } := by
  have hF : f + 2 + n = (f + 1 + n) + 1 := by omega
  rw [hF]
  rw [readTag_unfold (f + 1 + n) parent]
  have h4 : 4 < st.rest.length := by rw [hr]; simp at hXlen ⊢; omega
  rw [bindOk _ _ _ _ _ (readTagHeader_start_exact parent st ws0 D.n0 D.ns D.name _ hr hws0 hwin0 hD.h0 hD.hns hD.hname (by have := hD.hfit; omega) h4)]
  have he1 : isEndTag { t := .start, parent := parent.self, self := identify (D.n0 :: D.ns) D.name } parent.self = false := by
    simp [isEndTag]
  simp only [he1, Bool.false_eq_true, if_false]
  rw [bindOk (fun st => (.ok st.rest.length, st) : M Nat) _ _ _ _ rfl]
  rw [bindOk _ _ _ _ _ (attrLoop_noattr none _ _ _ rfl)]
  unfold Name.prop at hDseq hDroot hkids
  simp only [beq_self_eq_true, if_true, hDseq, Bool.false_eq_true, if_false, bind_assoc3]
  rw [bindOk _ _ _ _ _ (readTagValue_empty 7 _ wsV X rfl hwsV hwinV (by simp at hXlen ⊢; omega))]
  have hemit : ∀ (s0 : St), emit { pt := 2, parent := parent.self, self := identify (D.n0 :: D.ns) D.name, val := [] } s0 = (.ok (), s0) := by
    intro s0; simp [emit]
  rw [bindOk _ _ _ _ _ (hemit _)]
  dsimp only
  rw [bind_eq_of_eq (hkids _)]
  rw [readTag_unfold f { t := .start, parent := parent.self, self := identify (D.n0 :: D.ns) D.name }]
  simp only [bind_assoc3]
  rw [bindOk _ _ _ _ _ (readTagHeader_stop_exact { t := .start, parent := parent.self, self := identify (D.n0 :: D.ns) D.name }
    _ ws2 D.n0 D.ns D.name R rfl hws2 hwin2 hD.hns hD.hname hD.hfit)]
  have he3 : isEndTag { t := .stop, parent := identify (D.n0 :: D.ns) D.name, self := identify (D.n0 :: D.ns) D.name } (identify (D.n0 :: D.ns) D.name) = true := by
    simp [isEndTag]
  dsimp only
  simp only [he3, if_true]
  rw [bindOk (pure _) _ _ _ _ rfl]
  have hrs2 : isRootStop { t := .stop, parent := identify (D.n0 :: D.ns) D.name, self := identify (D.n0 :: D.ns) D.name } = false := by
    simp [isRootStop, hDroot]
  simp only [hrs2, Bool.false_eq_true, if_false]


/-- one rdf:Description: its name, attributes, children and the white space inside it -/
structure DescR where
  D : Name
  wsV : Bytes
  ws2 : Bytes
  la : List (Bytes × Attr)
  cs : List (Bytes × Child)

/-- the Description as written, followed by T -/
def DescR.ser (d : DescR) (T : Bytes) : Bytes :=
  60 :: ((d.D.n0 :: d.D.ns) ++ 58 :: (d.D.name ++ (Xmp.ser d.la ++ 62 :: (d.wsV ++ serC d.cs (d.ws2 ++ d.D.closeT T)))))

def DescR.push (d : DescR) (acc : List Tok) : List Tok := pushC d.D.prop d.cs (pushAll d.D.prop d.la acc)

/-- what the theorem asks of a Description; `F` = rounds of nesting available -/
structure DescR.OK (d : DescR) (F : Nat) : Prop where
  hD : d.D.OK
  hDseq : (d.D.prop == rdfSeq || d.D.prop == rdfAlt || d.D.prop == rdfBag) = false
  hDroot : (d.D.prop == rootProp) = false
  hoka : ∀ p ∈ d.la, (∀ x ∈ p.1, isWs x = true) ∧ p.1 ≠ [] ∧ p.2.OK
  hwsV : ∀ x ∈ d.wsV, isWs x = true
  hwinV : d.wsV.length < 512
  hws2 : ∀ x ∈ d.ws2, (x == 60) = false
  hwin2 : d.ws2.length + 128 ≤ W
  /-- the content starts with a tag: the first child follows the white space `wsV` directly, or there is no child and no
  white space before the stop tag -/
  hhead : ∀ T, ∃ X, 60 :: X = serC d.cs (d.ws2 ++ d.D.closeT T)
  hfuel : d.cs.length + 2 ≤ F
  hokc : ∀ p ∈ d.cs, (∀ x ∈ p.1, (x == 60) = false) ∧ p.1.length + 128 ≤ W ∧ p.2.OK ∧ p.2.need + d.cs.length + 1 ≤ F

/-- one Description = one round of readTag of its parent -/
theorem readTag_desc_exact (parent : Tag) (st : St) (ws0 : Bytes) (d : DescR) (T : Bytes) (F : Nat)
    (hr : st.rest = ws0 ++ d.ser T) (hws0 : ∀ x ∈ ws0, (x == 60) = false) (hwin0 : ws0.length + 128 ≤ W) (ok : d.OK F) :
    readTag (F + 1) parent st = readTag F parent { rest := T, a := false, toks := d.push st.toks } := by
  obtain ⟨X, hX⟩ := ok.hhead T
  obtain ⟨f, rfl⟩ : ∃ f, F = f + 1 + d.cs.length := ⟨F - 1 - d.cs.length, by have := ok.hfuel; omega⟩
  have hkids : ∀ toks1, readTag (f + 1 + d.cs.length) { t := .start, parent := parent.self, self := d.D.prop } { rest := 60 :: X, a := false, toks := toks1 } =
      readTag (f + 1) { t := .start, parent := parent.self, self := d.D.prop }
        { rest := d.ws2 ++ d.D.closeT T, a := false, toks := pushC d.D.prop d.cs toks1 } := by
    intro toks1
    exact readTag_children_exact { t := .start, parent := parent.self, self := d.D.prop } _ d.cs (f + 1) _ rfl hX
      (fun p hp => ⟨(ok.hokc p hp).1, (ok.hokc p hp).2.1, (ok.hokc p hp).2.2.1, by have := (ok.hokc p hp).2.2.2; omega⟩)
  have hXlen : 5 ≤ (60 :: X : Bytes).length := by
    rw [hX]
    have h := serC_length d.cs (d.ws2 ++ d.D.closeT T)
    have h5 : 5 ≤ (d.ws2 ++ d.D.closeT T : Bytes).length := by simp [Name.closeT]; omega
    omega
  have e1 : f + 1 + d.cs.length + 1 = f + 2 + d.cs.length := by omega
  by_cases hla : d.la = []
  · have := readTag_wrapper0_exact parent st d.D ws0 d.wsV X d.ws2 T d.cs.length (pushC d.D.prop d.cs) f
      (by rw [hr]; unfold DescR.ser; rw [← hX, hla]; rfl) ok.hD ok.hDseq ok.hDroot hws0 hwin0 ok.hwsV ok.hwinV hkids hXlen ok.hws2 ok.hwin2
    rw [e1, this]
    unfold DescR.push
    rw [hla]
    rfl
  · have := readTag_wrapper_exact parent st d.D ws0 d.wsV X d.ws2 T d.la d.cs.length (pushC d.D.prop d.cs) f
      (by rw [hr]; unfold DescR.ser; rw [← hX]) ok.hD ok.hDseq ok.hDroot hws0 hwin0 hla ok.hoka ok.hwsV ok.hwinV hkids hXlen ok.hws2 ok.hwin2
    rw [e1, this]
    rfl

def serDs : List (Bytes × DescR) → Bytes → Bytes
  | [], T => T
  | (ws, d) :: ds, T => ws ++ d.ser (serDs ds T)

def pushDs : List (Bytes × DescR) → List Tok → List Tok
  | [], acc => acc
  | (_, d) :: ds, acc => pushDs ds (d.push acc)

/-- **Several Descriptions**, any white space between them: one round of readTag each, the tokens of each in document order -/
theorem readTag_descs_exact (parent : Tag) (T : Bytes) : ∀ (ds : List (Bytes × DescR)) (F : Nat) (st : St),
    st.a = false → st.rest = serDs ds T →
    (∀ p ∈ ds, (∀ x ∈ p.1, (x == 60) = false) ∧ p.1.length + 128 ≤ W ∧ p.2.OK F) →
    readTag (F + ds.length) parent st = readTag F parent { rest := T, a := false, toks := pushDs ds st.toks } := by
  intro ds
  induction ds with
  | nil =>
    intro F st ha hr _
    have : st = { rest := T, a := false, toks := st.toks } := by
      cases st; simp_all [serDs]
    simp only [List.length_nil, Nat.add_zero, pushDs]
    rw [← this]
  | cons p ds ih =>
    intro F st ha hr hok
    obtain ⟨ws, d⟩ := p
    have hp := hok (ws, d) (by simp)
    have hfuel : F + ((ws, d) :: ds).length = (F + ds.length) + 1 := by simp; omega
    have okF : d.OK (F + ds.length) := by
      have h : d.OK F := hp.2.2
      exact { h with hfuel := by have := h.hfuel; omega,
                     hokc := fun q hq => ⟨(h.hokc q hq).1, (h.hokc q hq).2.1, (h.hokc q hq).2.2.1, by have := (h.hokc q hq).2.2.2; omega⟩ }
    rw [hfuel, readTag_desc_exact parent st ws d (serDs ds T) (F + ds.length) (by rw [hr]; rfl) hp.1 hp.2.1 okF]
    rw [ih F _ rfl rfl (fun q hq => hok q (List.mem_cons_of_mem _ hq))]
    rfl


/-- the part of a packet behind the root start tag, with any number of Descriptions -/
def packetBodyN (RDF : Name) (laR : List (Bytes × Attr)) (ds : List (Bytes × DescR)) (wsR wsV1 ws3 ws4 tail : Bytes) : Bytes :=
  wsR ++ 60 :: ((RDF.n0 :: RDF.ns) ++ 58 :: (RDF.name ++ (ser laR ++ 62 :: (wsV1 ++ serDs ds (ws3 ++ RDF.closeT (ws4 ++ nRoot.closeT tail))))))

theorem serDs_length (ds : List (Bytes × DescR)) (T : Bytes) : T.length ≤ (serDs ds T).length := by
  induction ds with
  | nil => simp [serDs]
  | cons p ds ih =>
    obtain ⟨ws, d⟩ := p
    have h1 := serC_length d.cs (d.ws2 ++ d.D.closeT (serDs ds T))
    simp only [serDs, DescR.ser, List.length_append, List.length_cons, Name.closeT] at h1 ⊢
    omega

/-- **A whole packet with several Descriptions.** -/
theorem parseXmp_packetN_exact (b : Bytes) (gs : List Bytes) (g A : Bytes) (RDF : Name) (laR : List (Bytes × Attr)) (ds : List (Bytes × DescR))
    (wsR wsV1 ws3 ws4 tail X1 : Bytes)
    (hb : b = serJ gs (g ++ 60 :: (rootName ++ A ++ 62 :: packetBodyN RDF laR ds wsR wsV1 ws3 ws4 tail)))
    (hj : JunkOK gs (g ++ 60 :: (rootName ++ A ++ 62 :: packetBodyN RDF laR ds wsR wsV1 ws3 ws4 tail)))
    (hg : ∀ x ∈ g, (x == 60) = false) (hglen : g.length < W) (hA : ∀ x ∈ A, (x == 62) = false) (hAlen : 9 + A.length < W)
    (hX1 : 60 :: X1 = serDs ds (ws3 ++ RDF.closeT (ws4 ++ nRoot.closeT tail)))
    (hRDF : RDF.OK) (hRseq : (RDF.prop == rdfSeq || RDF.prop == rdfAlt || RDF.prop == rdfBag) = false) (hRroot : (RDF.prop == rootProp) = false)
    (hwsR : ∀ x ∈ wsR, (x == 60) = false) (hwinR : wsR.length + 128 ≤ W)
    (hlaR : laR ≠ []) (hokR : ∀ p ∈ laR, (∀ x ∈ p.1, isWs x = true) ∧ p.1 ≠ [] ∧ p.2.OK)
    (hwsV1 : ∀ x ∈ wsV1, isWs x = true) (hwinV1 : wsV1.length < 512)
    (hokd : ∀ p ∈ ds, (∀ x ∈ p.1, (x == 60) = false) ∧ p.1.length + 128 ≤ W ∧ p.2.OK (b.length + 7 - ds.length))
    (hws3 : ∀ x ∈ ws3, (x == 60) = false) (hwin3 : ws3.length + 128 ≤ W)
    (hws4 : ∀ x ∈ ws4, (x == 60) = false) (hwin4 : ws4.length + 128 ≤ W)
    (hds : ds.length ≤ b.length + 6) :
    parseXmp b = (.ok (), (pushDs ds (pushAll RDF.prop laR [])).reverse) := by
  have hgs : gs.length ≤ b.length := by
    have := serJ_length gs (g ++ 60 :: (rootName ++ A ++ 62 :: packetBodyN RDF laR ds wsR wsV1 ws3 ws4 tail))
    rw [← hb] at this; omega
  unfold parseXmp
  simp only []
  have e1 : b.length + 8 = (b.length + 7 - gs.length) + 1 + gs.length := by omega
  have h1 := readRootTag_exact gs g A (packetBodyN RDF laR ds wsR wsV1 ws3 ws4 tail) (b.length + 7 - gs.length)
    { rest := b, a := false, toks := [] } hb hj hg hglen hA hAlen
  rw [← e1] at h1
  rw [bindOk _ _ _ _ _ h1]
  -- the rounds of readTag below the root
  obtain ⟨f, hf⟩ : ∃ f, b.length + 6 - ds.length = f := ⟨_, rfl⟩
  have hF : b.length + 7 - ds.length = f + 1 := by omega
  rw [hF] at hokd
  have hkids : ∀ toks0, readTag (f + 1 + ds.length) { t := .start, parent := rootProp, self := RDF.prop } { rest := 60 :: X1, a := false, toks := toks0 } =
      readTag (f + 1) { t := .start, parent := rootProp, self := RDF.prop }
        { rest := ws3 ++ RDF.closeT (ws4 ++ nRoot.closeT tail), a := false, toks := pushDs ds toks0 } := by
    intro toks0
    exact readTag_descs_exact { t := .start, parent := rootProp, self := RDF.prop } _ ds (f + 1) _ rfl hX1 hokd
  have hX1len : 5 ≤ (60 :: X1 : Bytes).length := by
    rw [hX1]
    have h := serDs_length ds (ws3 ++ RDF.closeT (ws4 ++ nRoot.closeT tail))
    have h5 : 5 ≤ (ws3 ++ RDF.closeT (ws4 ++ nRoot.closeT tail) : Bytes).length := by simp [Name.closeT]; omega
    omega
  have hrdf := readTag_wrapper_exact { t := .start, self := rootProp } { rest := packetBodyN RDF laR ds wsR wsV1 ws3 ws4 tail, a := false, toks := [] }
    RDF wsR wsV1 X1 ws3 (ws4 ++ nRoot.closeT tail) laR ds.length (pushDs ds) f
    (by show packetBodyN RDF laR ds wsR wsV1 ws3 ws4 tail = _; unfold packetBodyN; rw [← hX1]) hRDF hRseq hRroot hwsR hwinR hlaR hokR hwsV1 hwinV1 hkids hX1len hws3 hwin3
  have hstop : readTag (f + 1 + ds.length) { t := .start, self := rootProp }
      { rest := ws4 ++ nRoot.closeT tail, a := false, toks := pushDs ds (pushAll RDF.prop laR []) } =
      (.ok { t := .stop, parent := rootProp, self := rootProp }, { rest := tail, a := false, toks := pushDs ds (pushAll RDF.prop laR []) }) := by
    have e : f + 1 + ds.length = (f + ds.length) + 1 := by omega
    rw [e, readTag_unfold (f + ds.length) { t := .start, self := rootProp }]
    rw [bindOk _ _ _ _ _ (readTagHeader_stop_exact { t := .start, self := rootProp } _ ws4 nRoot.n0 nRoot.ns nRoot.name tail rfl hws4 hwin4 (by decide) (by decide) (by decide))]
    have hid : identify (nRoot.n0 :: nRoot.ns) nRoot.name = rootProp := nRoot_prop
    have he : isEndTag { t := .stop, parent := ({ t := .start, self := rootProp } : Tag).self, self := identify (nRoot.n0 :: nRoot.ns) nRoot.name } ({ t := .start, self := rootProp } : Tag).self = true := by
      simp [isEndTag, hid]
    simp only [he, if_true]
    rw [hid]
    rfl
  have e2 : b.length + 8 = (b.length + 7) + 1 := by omega
  have e3 : b.length + 8 = f + 2 + ds.length := by omega
  have hloop : parseXmp.loop (b.length + 8) { t := .start, self := rootProp } (b.length + 8)
      { rest := packetBodyN RDF laR ds wsR wsV1 ws3 ws4 tail, a := false, toks := [] } =
      (.ok (), { rest := tail, a := false, toks := pushDs ds (pushAll RDF.prop laR []) }) := by
    conv => lhs; rw [e2]; unfold parseXmp.loop
    rw [← e2, e3, bind_eq_of_eq hrdf, bindOk _ _ _ _ _ hstop]
    have : isRootStop { t := .stop, parent := rootProp, self := rootProp } = true := by simp [isRootStop]
    simp only [this, if_true]
    rfl
  show ((parseXmp.loop (b.length + 8) { t := .start, self := rootProp } (b.length + 8) { rest := packetBodyN RDF laR ds wsR wsV1 ws3 ws4 tail, a := false, toks := [] }).1, _) = _
  rw [hloop]


end Imeta.Xmp
