/-
  C19 / C02: quickSelectMedian (Lomuto partition, iterative) of the perceptual hashes.
  The model (Imeta.Model.Hash: partLoop, qselLoop, median over an array, with Go's index panics and a fuel bound) is
  proved here, for every array over a strict weak order (what `<` is on floats without NaN):
    * it never indexes out of range and never uses up its fuel (a round that does not shrink the range leaves the
      strict maximum of the range at its upper end, and the next round then shrinks it: at most 2·(hi-low)+1 rounds);
    * the result is a permutation of the input in which nothing left of k is larger than the element at k and nothing
      right of k is smaller: the element at k is the k-th order statistic (for k = n/2 the upper median).
-/
import Imeta.Model.Hash
namespace Imeta.Hash
open Imeta

structure StrictWeak (α : Type) [LT α] : Prop where
  asymm : ∀ a b : α, a < b → ¬ b < a
  trans : ∀ a b c : α, a < b → b < c → a < c
  ntrans : ∀ a b c : α, ¬ b < a → ¬ c < b → ¬ c < a

set_option linter.unusedSectionVars false
set_option linter.unusedVariables false

section
variable {α : Type} [LT α] [DecidableLT α]

theorem getA_ok (a : Array α) (i : Nat) (h : i < a.size) : getA a i = .ok a[i] := by
  unfold getA
  rw [Array.getElem?_eq_getElem h]

theorem swapA_ok (a : Array α) (i j : Nat) (hi : i < a.size) (hj : j < a.size) : swapA a i j = .ok (a.swap i j hi hj) := by
  unfold swapA
  rw [Array.getElem?_eq_getElem hi, Array.getElem?_eq_getElem hj]
  simp only [Array.swap_def, Array.setIfInBounds, hi, hj, dite_true]
  congr 1
  simp [Array.setIfInBounds, hi, hj]

/-- b rearranges a inside [lo, hi] and agrees with it elsewhere -/
structure Rng (lo hi : Nat) (a b : Array α) : Prop where
  size : b.size = a.size
  out : ∀ m, ¬(lo ≤ m ∧ m ≤ hi) → b[m]? = a[m]?
  fwd : ∀ m, lo ≤ m → m ≤ hi → ∃ m', lo ≤ m' ∧ m' ≤ hi ∧ b[m]? = a[m']?
  bwd : ∀ m, lo ≤ m → m ≤ hi → ∃ m', lo ≤ m' ∧ m' ≤ hi ∧ a[m]? = b[m']?
  perm : b.Perm a

theorem Rng.refl (lo hi : Nat) (a : Array α) : Rng lo hi a a :=
  ⟨rfl, fun _ _ => rfl, fun m h1 h2 => ⟨m, h1, h2, rfl⟩, fun m h1 h2 => ⟨m, h1, h2, rfl⟩, Array.Perm.refl _⟩

theorem Rng.trans {lo hi : Nat} {a b c : Array α} (h1 : Rng lo hi a b) (h2 : Rng lo hi b c) : Rng lo hi a c := by
  refine ⟨h2.size.trans h1.size, fun m hm => (h2.out m hm).trans (h1.out m hm), ?_, ?_, h2.perm.trans h1.perm⟩
  · intro m hl hh
    obtain ⟨m1, a1, b1, e1⟩ := h2.fwd m hl hh
    obtain ⟨m2, a2, b2, e2⟩ := h1.fwd m1 a1 b1
    exact ⟨m2, a2, b2, e1.trans e2⟩
  · intro m hl hh
    obtain ⟨m1, a1, b1, e1⟩ := h1.bwd m hl hh
    obtain ⟨m2, a2, b2, e2⟩ := h2.bwd m1 a1 b1
    exact ⟨m2, a2, b2, e1.trans e2⟩

theorem Rng.mono {lo hi lo' hi' : Nat} {a b : Array α} (h : Rng lo hi a b) (hl : lo' ≤ lo) (hh : hi ≤ hi') : Rng lo' hi' a b := by
  refine ⟨h.size, fun m hm => h.out m (by omega), ?_, ?_, h.perm⟩
  · intro m h1 h2
    by_cases hin : lo ≤ m ∧ m ≤ hi
    · obtain ⟨m', a1, b1, e⟩ := h.fwd m hin.1 hin.2; exact ⟨m', by omega, by omega, e⟩
    · exact ⟨m, h1, h2, h.out m hin⟩
  · intro m h1 h2
    by_cases hin : lo ≤ m ∧ m ≤ hi
    · obtain ⟨m', a1, b1, e⟩ := h.bwd m hin.1 hin.2; exact ⟨m', by omega, by omega, e⟩
    · exact ⟨m, h1, h2, (h.out m hin).symm⟩

theorem Rng.swap (lo hi : Nat) (a : Array α) (i j : Nat) (hi' : i < a.size) (hj : j < a.size)
    (h1 : lo ≤ i ∧ i ≤ hi) (h2 : lo ≤ j ∧ j ≤ hi) : Rng lo hi a (a.swap i j hi' hj) := by
  refine ⟨by simp, ?_, ?_, ?_, Array.swap_perm hi' hj⟩
  · intro m hm
    rw [Array.getElem?_swap]
    rw [if_neg (by omega), if_neg (by omega)]
  · intro m hl hh
    rw [Array.getElem?_swap]
    split
    · exact ⟨i, h1.1, h1.2, (Array.getElem?_eq_getElem hi').symm⟩
    · split
      · exact ⟨j, h2.1, h2.2, (Array.getElem?_eq_getElem hj).symm⟩
      · exact ⟨m, hl, hh, rfl⟩
  · intro m hl hh
    by_cases hmi : m = i
    · subst hmi
      refine ⟨j, h2.1, h2.2, ?_⟩
      rw [Array.getElem?_swap, if_pos rfl, Array.getElem?_eq_getElem hi']
    · by_cases hmj : m = j
      · subst hmj
        refine ⟨i, h1.1, h1.2, ?_⟩
        rw [Array.getElem?_swap, if_neg (by omega), if_pos rfl, Array.getElem?_eq_getElem hj]
      · refine ⟨m, hl, hh, ?_⟩
        rw [Array.getElem?_swap, if_neg (by omega), if_neg (by omega)]

/-- the Lomuto pass: from (i, st) with everything in [low, st) below the pivot value and nothing in [st, i) below it,
the pass ends with st' such that [low, st') is below pv, [st', hi) is not, position hi is untouched, and the array is a
rearrangement inside [low, hi-1] -/
theorem partLoop_spec (pv : α) (low hi : Nat) : ∀ (n i st : Nat) (a : Array α),
    hi < a.size → low ≤ st → st ≤ i → i ≤ hi → hi + 1 ≤ n + i →
    (∀ m, low ≤ m → m < st → ∀ x, a[m]? = some x → x < pv) →
    (∀ m, st ≤ m → m < i → ∀ x, a[m]? = some x → ¬ x < pv) →
    ∃ a' st', partLoop pv hi n i st a = .ok (a', st') ∧ low ≤ st' ∧ st' ≤ hi ∧ st ≤ st' ∧
      (∀ m, low ≤ m → m < st' → ∀ x, a'[m]? = some x → x < pv) ∧
      (∀ m, st' ≤ m → m < hi → ∀ x, a'[m]? = some x → ¬ x < pv) ∧
      a'[hi]? = a[hi]? ∧ Rng low (hi - 1) a a' ∧ (low < hi ∨ a' = a) := by
  intro n
  induction n with
  | zero => intro i st a _ _ _ _ h; omega
  | succ n ih =>
    intro i st a hsz hls hsi hih hn hlt hge
    unfold partLoop
    by_cases hc : i < hi
    · rw [if_pos hc, getA_ok a i (by omega)]
      simp only [Outcome.bind]
      by_cases hx : a[i]'(by omega) < pv
      · rw [if_pos hx, swapA_ok a st i (by omega) (by omega)]
        simp only [Outcome.bind]
        have hr := Rng.swap low (hi - 1) a st i (by omega) (by omega) (by omega) (by omega)
        obtain ⟨a', st', he, h1, h2, h3, h4, h5, h6, h7, h8⟩ := ih (i + 1) (st + 1) (a.swap st i (by omega) (by omega))
          (by simp; omega) (by omega) (by omega) (by omega) (by omega)
          (by
            intro m hm1 hm2 x hxm
            rw [Array.getElem?_swap] at hxm
            split at hxm
            · -- m = i: holds a[st]; st = i here or a[st] ... the swapped-in value at i is a[st]
              rename_i hmi
              subst hmi
              -- m = i < st + 1 and st ≤ i, so st = i
              have : st = i := by omega
              subst this
              simp only [Option.some.injEq] at hxm; rw [← hxm]; exact hx
            · split at hxm
              · simp only [Option.some.injEq] at hxm; rw [← hxm]; exact hx
              · exact hlt m hm1 (by omega) x hxm)
          (by
            intro m hm1 hm2 x hxm
            rw [Array.getElem?_swap] at hxm
            split at hxm
            · rename_i hmi
              -- m = i: the value is a[st], which is in [st, i) unless st = i (excluded: m ≥ st+1 and m = i means st < i)
              simp only [Option.some.injEq] at hxm
              rw [← hxm]
              exact hge st (Nat.le_refl _) (by omega) _ (Array.getElem?_eq_getElem (by omega))
            · split at hxm
              · omega
              · exact hge m (by omega) (by omega) x hxm)
        refine ⟨a', st', he, h1, h2, by omega, h4, h5, ?_, hr.trans h7, Or.inl (by omega)⟩
        rw [h6, Array.getElem?_swap, if_neg (by omega), if_neg (by omega)]
      · rw [if_neg hx]
        obtain ⟨a', st', he, h1, h2, h3, h4, h5, h6, h7, h8⟩ := ih (i + 1) st a hsz hls (by omega) (by omega) (by omega) hlt
          (by
            intro m hm1 hm2 x hxm
            by_cases hmi : m = i
            · subst hmi
              rw [Array.getElem?_eq_getElem (by omega)] at hxm
              simp only [Option.some.injEq] at hxm; rw [← hxm]; exact hx
            · exact hge m hm1 (by omega) x hxm)
        exact ⟨a', st', he, h1, h2, h3, h4, h5, h6, h7, Or.inl (by omega)⟩
    · rw [if_neg hc]
      have : i = hi := by omega
      subst this
      exact ⟨a, st, rfl, hls, hsi, Nat.le_refl _, hlt, hge, rfl, Rng.refl _ _ _, Or.inr rfl⟩

/-- loop invariant of quickselect: k lies in [low, hi]; nothing left of low is larger than anything from low on, and
nothing right of hi is smaller than anything up to hi -/
structure G (k low hi : Nat) (a : Array α) : Prop where
  lk : low ≤ k
  kh : k ≤ hi
  sz : hi < a.size
  left : ∀ i j x y, i < low → low ≤ j → a[i]? = some x → a[j]? = some y → ¬ y < x
  right : ∀ i j x y, i ≤ hi → hi < j → a[i]? = some x → a[j]? = some y → ¬ y < x

/-- the element at hi is strictly larger than everything else in the range -/
def Flag (low hi : Nat) (a : Array α) : Prop := ∀ m x y, low ≤ m → m < hi → a[m]? = some x → a[hi]? = some y → x < y

theorem qsel_spec (sw : StrictWeak α) (k : Nat) : ∀ (fuel low hi : Nat) (a : Array α), G k low hi a →
    (2 * (hi - low) + 1 < fuel ∨ (Flag low hi a ∧ 2 * (hi - low) < fuel)) →
    ∃ a', qselLoop k fuel low hi a = .ok a' ∧ a'.Perm a ∧ G k k k a' := by
  intro fuel
  induction fuel with
  | zero => intro low hi a _ h; rcases h with h | h <;> omega
  | succ fuel ih =>
    intro low hi a g hf
    unfold qselLoop
    by_cases hlh : low < hi
    · rw [if_pos hlh]
      have hsz := g.sz
      have hp1 : low ≤ low / 2 + hi / 2 := by omega
      have hp2 : low / 2 + hi / 2 < hi := by omega
      generalize hpe : low / 2 + hi / 2 = pivot at hp1 hp2
      dsimp only
      rw [getA_ok a pivot (by omega)]
      simp only [Outcome.bind]
      generalize hpv : a[pivot]'(by omega) = pv
      rw [swapA_ok a pivot hi (by omega) (by omega)]
      simp only [Outcome.bind]
      generalize ha1 : a.swap pivot hi (by omega) (by omega) = a1
      have hr1 : Rng low hi a a1 := by rw [← ha1]; exact Rng.swap low hi a pivot hi (by omega) (by omega) (by omega) (by omega)
      have h1hi : a1[hi]? = some pv := by
        rw [← ha1, Array.getElem?_swap, if_pos rfl, hpv]
      have h1pv : a1[pivot]? = a[hi]? := by
        rw [← ha1, Array.getElem?_swap, if_neg (by omega), if_pos rfl, Array.getElem?_eq_getElem (by omega)]
      have hs1 : a1.size = a.size := hr1.size
      obtain ⟨a2, st, hpl, hst1, hst2, _, h2lt, h2ge, h2hi, hr2, _⟩ := partLoop_spec pv low hi (hi - low + 1) low low a1
        (by omega) (Nat.le_refl _) (Nat.le_refl _) (by omega) (by omega) (by intro m h1 h2; omega) (by intro m h1 h2; omega)
      rw [hpl]
      simp only [Outcome.bind]
      have hs2 : a2.size = a1.size := hr2.size
      rw [swapA_ok a2 hi st (by omega) (by omega)]
      simp only [Outcome.bind]
      generalize ha3 : a2.swap hi st (by omega) (by omega) = a3
      have hr3 : Rng low hi a2 a3 := by rw [← ha3]; exact Rng.swap low hi a2 hi st (by omega) (by omega) (by omega) (by omega)
      have hr : Rng low hi a a3 := (hr1.trans (hr2.mono (Nat.le_refl _) (by omega))).trans hr3
      have hs3 : a3.size = a.size := hr.size
      have h3pv : a3[st]? = some pv := by
        rw [← ha3, Array.getElem?_swap, if_pos rfl, ← h1hi, ← h2hi, Array.getElem?_eq_getElem (by omega)]
      have h3lt : ∀ m, low ≤ m → m < st → ∀ x, a3[m]? = some x → x < pv := by
        intro m h1 h2 x hx
        rw [← ha3, Array.getElem?_swap, if_neg (by omega), if_neg (by omega)] at hx
        exact h2lt m h1 h2 x hx
      have h3ge : ∀ m, st < m → m ≤ hi → ∀ x, a3[m]? = some x → ¬ x < pv := by
        intro m h1 h2 x hx
        rw [← ha3, Array.getElem?_swap] at hx
        split at hx
        · omega
        · split at hx
          · simp only [Option.some.injEq] at hx
            rw [← hx]
            exact h2ge st (Nat.le_refl _) (by omega) _ (Array.getElem?_eq_getElem (by omega))
          · exact h2ge m (by omega) (by omega) x hx
      -- comparisons across the pivot position
      have hcross : ∀ i j x y, low ≤ i → i ≤ st → st < j → j ≤ hi → a3[i]? = some x → a3[j]? = some y → ¬ y < x := by
        intro i j x y hi1 hi2 hj1 hj2 hx hy
        have hyp := h3ge j hj1 hj2 y hy
        by_cases his : i = st
        · subst his; rw [h3pv] at hx; simp only [Option.some.injEq] at hx; rw [← hx]; exact hyp
        · have hxp := h3lt i hi1 (by omega) x hx
          intro hyx; exact hyp (sw.trans _ _ _ hyx hxp)
      -- elements of the range come from the range
      have hfrom : ∀ m x, low ≤ m → m ≤ hi → a3[m]? = some x → ∃ m', low ≤ m' ∧ m' ≤ hi ∧ a[m']? = some x := by
        intro m x h1 h2 hx
        obtain ⟨m', a1', b1', e⟩ := hr.fwd m h1 h2
        exact ⟨m', a1', b1', by rw [← e]; exact hx⟩
      have hout : ∀ m, ¬(low ≤ m ∧ m ≤ hi) → a3[m]? = a[m]? := hr.out
      by_cases hks : k ≤ st
      · rw [if_pos hks]
        have g3 : G k low st a3 := by
          refine ⟨g.lk, hks, by omega, ?_, ?_⟩
          · intro i j x y hi1 hj1 hx hy
            rw [hout i (by omega)] at hx
            by_cases hjh : j ≤ hi
            · obtain ⟨m', c1, c2, e⟩ := hfrom j y hj1 hjh hy
              exact g.left i m' x y hi1 c1 hx e
            · rw [hout j (by omega)] at hy
              exact g.left i j x y hi1 hj1 hx hy
          · intro i j x y hi1 hj1 hx hy
            by_cases hjh : j ≤ hi
            · by_cases hil : low ≤ i
              · exact hcross i j x y hil hi1 hj1 hjh hx hy
              · rw [hout i (by omega)] at hx
                obtain ⟨m', c1, c2, e⟩ := hfrom j y (by omega) hjh hy
                exact g.left i m' x y (by omega) c1 hx e
            · rw [hout j (by omega)] at hy
              by_cases hil : low ≤ i
              · obtain ⟨m', c1, c2, e⟩ := hfrom i x hil (by omega) hx
                exact g.right m' j x y c2 (by omega) e hy
              · rw [hout i (by omega)] at hx
                exact g.right i j x y (by omega) (by omega) hx hy
        have hfuel : 2 * (st - low) + 1 < fuel ∨ (Flag low st a3 ∧ 2 * (st - low) < fuel) := by
          by_cases hsh : st < hi
          · left; rcases hf with hf | hf <;> omega
          · have hse : st = hi := by omega
            subst hse
            rcases hf with hf | hf
            · right
              refine ⟨?_, by omega⟩
              intro m x y h1 h2 hx hy
              rw [h3pv] at hy; simp only [Option.some.injEq] at hy; rw [← hy]
              exact h3lt m h1 h2 x hx
            · -- starting with the strict maximum at hi, the pass cannot stall
              exfalso
              have hM : a[st]? = some (a[st]'(by omega)) := Array.getElem?_eq_getElem (by omega)
              have hlt : pv < a[st]'(by omega) := by
                rw [← hpv]; exact hf.1 pivot _ _ hp1 hp2 (Array.getElem?_eq_getElem (by omega)) hM
              obtain ⟨m', c1, c2, e⟩ := hr2.bwd pivot hp1 (by omega)
              have : a2[m']? = some (a[st]'(by omega)) := by rw [← e, h1pv, hM]
              exact sw.asymm _ _ hlt (h2lt m' c1 (by omega) _ this)
        obtain ⟨a', he, hperm, gk⟩ := ih low st a3 g3 hfuel
        exact ⟨a', he, hperm.trans hr.perm, gk⟩
      · rw [if_neg hks]
        have g3 : G k (st + 1) hi a3 := by
          refine ⟨by omega, g.kh, by omega, ?_, ?_⟩
          · intro i j x y hi1 hj1 hx hy
            by_cases hjh : j ≤ hi
            · by_cases hil : low ≤ i
              · exact hcross i j x y hil (by omega) (by omega) hjh hx hy
              · rw [hout i (by omega)] at hx
                obtain ⟨m', c1, c2, e⟩ := hfrom j y (by omega) hjh hy
                exact g.left i m' x y (by omega) c1 hx e
            · rw [hout j (by omega)] at hy
              by_cases hil : low ≤ i
              · obtain ⟨m', c1, c2, e⟩ := hfrom i x hil (by omega) hx
                exact g.right m' j x y c2 (by omega) e hy
              · rw [hout i (by omega)] at hx
                exact g.right i j x y (by omega) (by omega) hx hy
          · intro i j x y hi1 hj1 hx hy
            rw [hout j (by omega)] at hy
            by_cases hil : low ≤ i
            · obtain ⟨m', c1, c2, e⟩ := hfrom i x hil hi1 hx
              exact g.right m' j x y c2 hj1 e hy
            · rw [hout i (by omega)] at hx
              exact g.right i j x y hi1 hj1 hx hy
        have hfuel : 2 * (hi - (st + 1)) + 1 < fuel ∨ (Flag (st + 1) hi a3 ∧ 2 * (hi - (st + 1)) < fuel) := by
          left; rcases hf with hf | hf <;> omega
        obtain ⟨a', he, hperm, gk⟩ := ih (st + 1) hi a3 g3 hfuel
        exact ⟨a', he, hperm.trans hr.perm, gk⟩
    · rw [if_neg hlh]
      have h1 := g.lk; have h2 := g.kh
      have e1 : low = k := by omega
      have e2 : hi = k := by omega
      subst e1; subst e2
      exact ⟨a, rfl, Array.Perm.refl _, g⟩

/-- positional facts give the two counts that characterise the k-th order statistic -/
theorem counts_of_G (sw : StrictWeak α) (k : Nat) (a : Array α) (y : α) (g : G k k k a) (hy : a[k]? = some y) :
    a.toList.countP (fun x => decide (x < y)) ≤ k ∧ a.toList.countP (fun x => decide (y < x)) ≤ a.size - 1 - k := by
  have hsz := g.sz
  have hirr : ∀ z : α, ¬ z < z := fun z h => sw.asymm z z h h
  have hget : ∀ m (hm : m < a.size), a[m]? = some (a.toList[m]'(by simpa using hm)) := by
    intro m hm; rw [Array.getElem?_eq_getElem hm]; simp
  constructor
  · have hsplit : a.toList = a.toList.take k ++ a.toList.drop k := (List.take_append_drop k _).symm
    rw [hsplit, List.countP_append]
    have h0 : (a.toList.drop k).countP (fun x => decide (x < y)) = 0 := by
      rw [List.countP_eq_zero]
      intro x hx
      obtain ⟨j, hj, rfl⟩ := List.mem_iff_getElem.mp hx
      simp only [List.length_drop, Array.length_toList] at hj
      simp only [List.getElem_drop, decide_eq_true_eq]
      by_cases hj0 : j = 0
      · subst hj0
        have hk0 := hget k hsz
        rw [hy] at hk0; simp only [Option.some.injEq] at hk0
        simp only [Nat.add_zero]
        rw [← hk0]; exact hirr y
      · exact g.right k (k + j) y _ (Nat.le_refl _) (by omega) hy (hget (k + j) (by omega))
    rw [h0, Nat.add_zero]
    exact Nat.le_trans (List.countP_le_length) (by simp [List.length_take]; omega)
  · have hsplit : a.toList = a.toList.take (k + 1) ++ a.toList.drop (k + 1) := (List.take_append_drop (k + 1) _).symm
    rw [hsplit, List.countP_append]
    have h0 : (a.toList.take (k + 1)).countP (fun x => decide (y < x)) = 0 := by
      rw [List.countP_eq_zero]
      intro x hx
      obtain ⟨i, hi, rfl⟩ := List.mem_iff_getElem.mp hx
      simp only [List.length_take, Array.length_toList] at hi
      simp only [List.getElem_take, decide_eq_true_eq]
      have hxi := hget i (by omega)
      by_cases hik : i = k
      · subst hik
        rw [hy] at hxi; simp only [Option.some.injEq] at hxi
        rw [← hxi]; exact hirr y
      · exact g.left i k _ y (by omega) (Nat.le_refl _) hxi hy
    rw [h0, Nat.zero_add]
    exact Nat.le_trans (List.countP_le_length) (by simp [List.length_drop]; omega)

/-- **quickSelectMedian computes the upper median.**  For a non-empty list c of length n over a strict weak order, the
model neither panics nor runs out of fuel; with y the element it finds at position k = n/2 of the rearranged array:
at most k elements of c are smaller than y, at most n-1-k are larger, and y is an element of c — y is the k-th order
statistic, the upper median.  For odd n the result is y; for even n it is `add (half x) (half y)` with x the element left
of it in the rearranged array, which is an element of c and not larger than y. -/
theorem median_spec (sw : StrictWeak α) (half : α → α) (add : α → α → α) (c : List α) (hc : c ≠ []) :
    ∃ y, y ∈ c ∧ c.countP (fun x => decide (x < y)) ≤ c.length / 2 ∧ c.countP (fun x => decide (y < x)) ≤ c.length - 1 - c.length / 2 ∧
      ((c.length % 2 = 1 ∨ c.length = 1) → median half add c = .ok y) ∧
      (c.length % 2 = 0 → ∃ x, x ∈ c ∧ ¬ y < x ∧ median half add c = .ok (add (half x) (half y))) := by
  have hn : 0 < c.length := List.length_pos_iff.mpr hc
  have hsize : c.toArray.size = c.length := by simp
  have g0 : G (c.length / 2) 0 (c.length - 1) c.toArray := by
    refine ⟨Nat.zero_le _, by omega, by omega, ?_, ?_⟩
    · intro i j x y hi; omega
    · intro i j x y hi hj hx hy
      have : c.toArray[j]? = none := Array.getElem?_eq_none (by omega)
      rw [this] at hy; cases hy
  obtain ⟨a', he, hperm, gk⟩ := qsel_spec sw (c.length / 2) (2 * c.length + 2) 0 (c.length - 1) c.toArray g0 (Or.inl (by omega))
  have hs' : a'.size = c.length := by rw [hperm.size_eq]; simp
  have hk : c.length / 2 < a'.size := by omega
  have hyk : a'[c.length / 2]? = some a'[c.length / 2] := Array.getElem?_eq_getElem hk
  have hcnt := counts_of_G sw (c.length / 2) a' _ gk hyk
  have hpl : a'.toList.Perm c := by
    have := Array.perm_iff_toList_perm.mp hperm
    simpa using this
  have hmem : ∀ z, z ∈ a'.toList → z ∈ c := fun z hz => hpl.subset hz
  refine ⟨a'[c.length / 2], hmem _ (by simp), ?_, ?_, ?_, ?_⟩
  · rw [← hpl.countP_eq]; exact hcnt.1
  · rw [← hpl.countP_eq]; exact Nat.le_trans hcnt.2 (by rw [hs']; exact Nat.le_refl _)
  · intro hodd
    unfold median
    dsimp only
    rw [if_neg (by omega)]
    by_cases h1 : c.length = 1
    · rw [hsize, if_pos h1]
      -- a single element: quickselect on [0,0] returns the array unchanged
      have : qselLoop (c.length / 2) (2 * c.length + 2) 0 (c.length - 1) c.toArray = .ok c.toArray := by
        rw [h1]; unfold qselLoop; simp
      rw [this] at he; simp only [Outcome.ok.injEq] at he; subst he
      rw [getA_ok _ _ (by omega)]
    · rw [hsize, if_neg h1, he]
      simp only [Outcome.bind]
      rw [if_neg (by omega), getA_ok _ _ hk]
  · intro heven
    have hk1 : c.length / 2 - 1 < a'.size := by omega
    have h2 : 2 ≤ c.length := by omega
    refine ⟨a'[c.length / 2 - 1], hmem _ (by simp), ?_, ?_⟩
    · exact gk.left (c.length / 2 - 1) (c.length / 2) _ _ (by omega) (Nat.le_refl _) (Array.getElem?_eq_getElem hk1) hyk
    · unfold median
      dsimp only
      rw [hsize, if_neg (by omega), if_neg (by omega), he]
      simp only [Outcome.bind]
      rw [if_pos heven, getA_ok _ _ hk1]
      simp only [Outcome.bind]
      rw [getA_ok _ _ hk]

end
end Imeta.Hash
