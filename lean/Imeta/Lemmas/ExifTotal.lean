/-
  Termination of the Exif directory walk (C02): the potential 4·(pending tags) + (unread bytes) strictly decreases with
  every round of `ifdLoop`, so the fuel the model passes is never exhausted.
  Part 1: frame lemmas — value parsers leave the pending-tag buffer alone and only consume input.
-/
import Imeta.Model.ExifReader
namespace Imeta.Exif
open Imeta

/-- frame of a value parser: the pending-tag buffer is untouched and the stream only shrinks -/
structure Fr (r r' : R) : Prop where
  tags : r'.tags = r.tags
  pos : r'.pos = r.pos
  len : r'.rest.length ≤ r.rest.length
  parsed : r'.parsed = r.parsed

theorem Fr.refl (r : R) : Fr r r := ⟨rfl, rfl, Nat.le_refl _, rfl⟩
theorem Fr.trans {a b c : R} (h1 : Fr a b) (h2 : Fr b c) : Fr a c := ⟨h2.tags.trans h1.tags, h2.pos.trans h1.pos, Nat.le_trans h2.len h1.len, h2.parsed.trans h1.parsed⟩
theorem Fr.upd {r r1 : R} (h : Fr r r1) (f : Rec → Rec) : Fr r (r1.upd f) := ⟨h.tags, h.pos, h.len, h.parsed⟩
theorem Fr.addAlloc {r r1 : R} (h : Fr r r1) (n : Nat) : Fr r (r1.addAlloc n) := ⟨h.tags, h.pos, h.len, h.parsed⟩

theorem Fr.discard (r : R) (n : Int) : Fr r (discard r n).1 := by
  unfold Exif.discard
  split
  · exact Fr.refl _
  · dsimp only
    generalize (if (r.exifLength : Int) < n + r.po then (r.exifLength : Int) - r.po else n) = m
    repeat' split
    all_goals first | exact Fr.refl _ | exact ⟨rfl, rfl, by simp, rfl⟩

theorem Fr.fastRead (r : R) (n : Nat) : Fr r (fastRead r n).r := by
  unfold Exif.fastRead
  repeat' split
  all_goals first | exact Fr.refl _ | exact ⟨rfl, rfl, by simp, rfl⟩

theorem Fr.readTagValue0 (r : R) (t : Tag) : Fr r (readTagValue0 r t).r := by
  unfold Exif.readTagValue0
  simp only []
  have h0 : Fr r (if t.isEmbedded then { r with hazard := true } else r) := by split <;> exact ⟨rfl, rfl, Nat.le_refl _, rfl⟩
  generalize (if t.isEmbedded then { r with hazard := true } else r) = r0 at h0 ⊢
  have h1 := Fr.discard r0 ((t.off : Int) - r0.po)
  cases hd : Exif.discard r0 ((t.off : Int) - r0.po) with
  | mk r1 e =>
    rw [hd] at h1
    cases e with
    | some k => exact Fr.trans h0 h1
    | none => exact Fr.trans h0 (Fr.trans h1 (Fr.fastRead r1 t.size))

theorem Fr.readTagValue (r : R) (t : Tag) : Fr r (readTagValue r t).r := by
  have := Fr.readTagValue0 r t
  exact ⟨this.tags, this.pos, this.len, this.parsed⟩

/-- a parser returning (state, value) keeps the frame -/
def FrP {β} (x : Outcome (R × β)) (r : R) : Prop := ∀ r' v, x = .ok (r', v) → Fr r r'
/-- a computation returning a state keeps the frame -/
def FrO (x : Outcome R) (r : R) : Prop := ∀ r', x = .ok r' → Fr r r'

set_option hygiene false in
macro "fr_leaves" : tactic => `(tactic|
  all_goals (first
    | (simp only [Outcome.ok.injEq, Prod.mk.injEq] at h; obtain ⟨h1, _⟩ := h; subst h1; first | exact Fr.refl _ | assumption | exact ⟨rfl, rfl, Nat.le_refl _, rfl⟩ | (refine ⟨?_, ?_, ?_, ?_⟩ <;> simp_all [Fr.tags, Fr.pos, Fr.len, Fr.parsed]))
    | (simp at h; done)))

theorem FrP.parseBytes (r : R) (t : Tag) (s : Bool) : FrP (parseBytes r t s) r := by
  intro r' v h
  unfold Exif.parseBytes at h
  have := Fr.readTagValue r t
  repeat' (first | split at h | (simp only [bind, Outcome.bind] at h))
  fr_leaves

theorem FrP.parseString (r : R) (t : Tag) : FrP (parseString r t) r := by
  intro r' v h
  unfold Exif.parseString at h
  cases hb : Exif.parseBytes r t false with
  | ok p =>
    obtain ⟨r1, s⟩ := p
    have := FrP.parseBytes r t false r1 s hb
    simp only [hb, bind, Outcome.bind, Outcome.ok.injEq, Prod.mk.injEq] at h
    rw [← h.1]; exact ⟨this.tags, this.pos, this.len, this.parsed⟩
  | err k => simp [hb, bind, Outcome.bind] at h
  | panic p => simp [hb, bind, Outcome.bind] at h
  | fuel => simp [hb, bind, Outcome.bind] at h

set_option hygiene false in
macro "fr_parser" : tactic => `(tactic| (
  intro r' v h
  have := Fr.readTagValue r t
  repeat' (first | split at h | (simp only [bind, Outcome.bind] at h))
  fr_leaves))

theorem FrP.parseRationalU (r : R) (t : Tag) : FrP (parseRationalU r t) r := by unfold Exif.parseRationalU; fr_parser
theorem FrP.parseDate (r : R) (t : Tag) : FrP (parseDate r t) r := by unfold Exif.parseDate; fr_parser
theorem FrP.parseOffsetTime (r : R) (t : Tag) : FrP (parseOffsetTime r t) r := by unfold Exif.parseOffsetTime; fr_parser
theorem FrP.parseLensInfo (r : R) (t : Tag) : FrP (parseLensInfo r t) r := by unfold Exif.parseLensInfo; fr_parser
theorem FrP.parseGPSCoord (r : R) (t : Tag) : FrP (parseGPSCoord r t) r := by unfold Exif.parseGPSCoord; fr_parser
theorem FrP.parseGPSAlt (r : R) (t : Tag) : FrP (parseGPSAlt r t) r := by unfold Exif.parseGPSAlt; fr_parser
theorem FrP.parseGPSTime (r : R) (t : Tag) : FrP (parseGPSTime r t) r := by unfold Exif.parseGPSTime; fr_parser
theorem FrP.parseGPSDate (r : R) (t : Tag) : FrP (parseGPSDate r t) r := by unfold Exif.parseGPSDate; fr_parser

theorem FrP.parseSubSec (r : R) (t : Tag) : FrP (parseSubSec r t) r := by
  intro r' v h
  unfold Exif.parseSubSec at h
  split at h
  · split at h
    · simp only [Outcome.ok.injEq, Prod.mk.injEq] at h; rw [← h.1]; exact Fr.refl _
    · cases hb : Exif.parseBytes r t true with
      | ok p =>
        obtain ⟨r1, s⟩ := p
        have := FrP.parseBytes r t true r1 s hb
        simp only [hb, bind, Outcome.bind, Outcome.ok.injEq, Prod.mk.injEq] at h
        rw [← h.1]; exact this
      | err k => simp [hb, bind, Outcome.bind] at h
      | panic p => simp [hb, bind, Outcome.bind] at h
      | fuel => simp [hb, bind, Outcome.bind] at h
  · simp only [Outcome.ok.injEq, Prod.mk.injEq] at h; rw [← h.1]; exact Fr.refl _

end Imeta.Exif

namespace Imeta.Exif

theorem FrO.ok {r r1 : R} (h : Fr r r1) : FrO (.ok r1) r := by
  intro r' h'; simp only [Outcome.ok.injEq] at h'; rw [← h']; exact h

theorem FrO.ite {c : Prop} [Decidable c] {a b : Outcome R} {r : R} (ha : FrO a r) (hb : FrO b r) : FrO (if c then a else b) r := by
  split <;> assumption

theorem FrO.bindP {β} {x : Outcome (R × β)} {f : R × β → Outcome R} {r : R} (hx : FrP x r)
    (hf : ∀ r1 v, Fr r r1 → FrO (f (r1, v)) r) : FrO (x.bind f) r := by
  intro r' h
  cases x with
  | ok p => obtain ⟨r1, v⟩ := p; exact hf r1 v (hx r1 v rfl) r' h
  | err k => simp [Outcome.bind] at h
  | panic s => simp [Outcome.bind] at h
  | fuel => simp [Outcome.bind] at h

theorem FrO.bindN {β} {x : Outcome β} {f : β → Outcome R} {r : R} (hf : ∀ v, FrO (f v) r) : FrO (x.bind f) r := by
  intro r' h
  cases x with
  | ok v => exact hf v r' h
  | err k => simp [Outcome.bind] at h
  | panic s => simp [Outcome.bind] at h
  | fuel => simp [Outcome.bind] at h

theorem FrO.bindP' {β} {x : Outcome (R × β)} {f : R × β → Outcome R} {r : R} (hx : FrP x r)
    (hf : ∀ r1 v, Fr r r1 → FrO (f (r1, v)) r) : FrO (x >>= f) r := FrO.bindP hx hf

theorem FrO.bindN' {β} {x : Outcome β} {f : β → Outcome R} {r : R} (hf : ∀ v, FrO (f v) r) : FrO (x >>= f) r :=
  FrO.bindN hf

set_option hygiene false in
macro "fr_leaf" : tactic => `(tactic| first
  | exact FrO.ok (Fr.refl _)
  | exact FrO.ok (Fr.upd (Fr.refl _) _)
  | exact FrO.ok (Fr.addAlloc (Fr.upd (Fr.refl _) _) _)
  | exact FrO.ok hfr
  | exact FrO.ok (Fr.upd hfr _)
  | exact FrO.ok (Fr.addAlloc (Fr.upd hfr _) _))

set_option hygiene false in
macro "fro_step" : tactic => `(tactic| first
  | fr_leaf
  | with_reducible apply FrO.ite
  | (with_reducible apply FrO.bindP (FrP.parseBytes _ _ _); intro r1 v hfr; dsimp only)
  | (with_reducible apply FrO.bindP' (FrP.parseBytes _ _ _); intro r1 v hfr; dsimp only)
  | (with_reducible apply FrO.bindP (FrP.parseString _ _); intro r1 v hfr; dsimp only)
  | (with_reducible apply FrO.bindP' (FrP.parseString _ _); intro r1 v hfr; dsimp only)
  | (with_reducible apply FrO.bindP (FrP.parseDate _ _); intro r1 v hfr; dsimp only)
  | (with_reducible apply FrO.bindP' (FrP.parseDate _ _); intro r1 v hfr; dsimp only)
  | (with_reducible apply FrO.bindP (FrP.parseRationalU _ _); intro r1 v hfr; dsimp only)
  | (with_reducible apply FrO.bindP' (FrP.parseRationalU _ _); intro r1 v hfr; dsimp only)
  | (with_reducible apply FrO.bindP (FrP.parseLensInfo _ _); intro r1 v hfr; dsimp only)
  | (with_reducible apply FrO.bindP' (FrP.parseLensInfo _ _); intro r1 v hfr; dsimp only)
  | (with_reducible apply FrO.bindP (FrP.parseSubSec _ _); intro r1 v hfr; dsimp only)
  | (with_reducible apply FrO.bindP' (FrP.parseSubSec _ _); intro r1 v hfr; dsimp only)
  | (with_reducible apply FrO.bindP (FrP.parseOffsetTime _ _); intro r1 v hfr; dsimp only)
  | (with_reducible apply FrO.bindP' (FrP.parseOffsetTime _ _); intro r1 v hfr; dsimp only)
  | (with_reducible apply FrO.bindP (FrP.parseGPSAlt _ _); intro r1 v hfr; dsimp only)
  | (with_reducible apply FrO.bindP' (FrP.parseGPSAlt _ _); intro r1 v hfr; dsimp only)
  | (with_reducible apply FrO.bindP (FrP.parseGPSCoord _ _); intro r1 v hfr; dsimp only)
  | (with_reducible apply FrO.bindP' (FrP.parseGPSCoord _ _); intro r1 v hfr; dsimp only)
  | (with_reducible apply FrO.bindP (FrP.parseGPSTime _ _); intro r1 v hfr; dsimp only)
  | (with_reducible apply FrO.bindP' (FrP.parseGPSTime _ _); intro r1 v hfr; dsimp only)
  | (with_reducible apply FrO.bindP (FrP.parseGPSDate _ _); intro r1 v hfr; dsimp only)
  | (with_reducible apply FrO.bindP' (FrP.parseGPSDate _ _); intro r1 v hfr; dsimp only)
  | (with_reducible apply FrO.bindN; intro v)
  | (with_reducible apply FrO.bindN'; intro v)
  | split)
macro "fro_auto" : tactic => `(tactic| repeat' fro_step)

theorem FrO.parseGpsIfd (r : R) (t : Tag) : FrO (parseGpsIfd r t) r := by
  unfold Exif.parseGpsIfd
  simp only [bind]
  fro_auto

end Imeta.Exif

namespace Imeta.Exif

theorem FrP.ok {β} {r r1 : R} {v : β} (h : Fr r r1) : FrP (.ok (r1, v)) r := by
  intro r' v' h'; simp only [Outcome.ok.injEq, Prod.mk.injEq] at h'; rw [← h'.1]; exact h

theorem FrP.ite {β} {c : Prop} [Decidable c] {a b : Outcome (R × β)} {r : R} (ha : FrP a r) (hb : FrP b r) :
    FrP (if c then a else b) r := by
  split <;> assumption

theorem FrP.bindN' {β γ} {x : Outcome β} {f : β → Outcome (R × γ)} {r : R} (hf : ∀ v, FrP (f v) r) : FrP (x >>= f) r := by
  intro r' w h
  cases x with
  | ok v => exact hf v r' w h
  | err k => simp [bind, Outcome.bind] at h
  | panic s => simp [bind, Outcome.bind] at h
  | fuel => simp [bind, Outcome.bind] at h

theorem FrP.bindP' {β γ} {x : Outcome (R × β)} {f : R × β → Outcome (R × γ)} {r : R} (hx : FrP x r)
    (hf : ∀ r1 v, Fr r r1 → FrP (f (r1, v)) r) : FrP (x >>= f) r := by
  intro r' w h
  cases x with
  | ok p => obtain ⟨r1, v⟩ := p; exact hf r1 v (hx r1 v rfl) r' w h
  | err k => simp [bind, Outcome.bind] at h
  | panic s => simp [bind, Outcome.bind] at h
  | fuel => simp [bind, Outcome.bind] at h

-- one non-recursive pass over the leaves left after the if-chain has been opened
set_option hygiene false in
macro "fro_leaves" : tactic => `(tactic| all_goals first
  | fr_leaf
  | (with_reducible apply FrO.bindP' (FrP.parseBytes _ _ _); intro r1 v hfr; dsimp only; fr_leaf)
  | (with_reducible apply FrO.bindP' (FrP.parseString _ _); intro r1 v hfr; dsimp only; fr_leaf)
  | (with_reducible apply FrO.bindP' (FrP.parseDate _ _); intro r1 v hfr; dsimp only; fr_leaf)
  | (with_reducible apply FrO.bindP' (FrP.parseRationalU _ _); intro r1 v hfr; dsimp only; fr_leaf)
  | (with_reducible apply FrO.bindP' (FrP.parseLensInfo _ _); intro r1 v hfr; dsimp only; fr_leaf)
  | (with_reducible apply FrO.bindP' (FrP.parseSubSec _ _); intro r1 v hfr; dsimp only; fr_leaf)
  | (with_reducible apply FrO.bindP' (FrP.parseOffsetTime _ _); intro r1 v hfr; dsimp only; fr_leaf)
  | (with_reducible apply FrO.bindN'; intro v; fr_leaf)
  | skip)

set_option maxRecDepth 8000 in
theorem FrO.parseExifIfd (r : R) (t : Tag) : FrO (parseExifIfd r t) r := by
  unfold Exif.parseExifIfd
  repeat' (with_reducible apply FrO.ite)
  fro_leaves
  -- focal length: the value is chosen by an inner if-chain before the field is picked
  with_reducible apply FrO.bindP'
  · repeat' (with_reducible apply FrP.ite)
    · with_reducible apply FrP.bindN'; intro v; exact FrP.ok (Fr.refl _)
    · with_reducible apply FrP.bindP' (FrP.parseRationalU _ _); intro r1 v hfr; dsimp only; exact FrP.ok hfr
    · exact FrP.ok (Fr.refl _)
  · intro r1 v hfr; dsimp only
    with_reducible apply FrO.ite <;> exact FrO.ok (Fr.upd hfr _)

set_option maxRecDepth 8000 in
theorem FrO.parseIfd0 (tb : Tables) (r : R) (t : Tag) : FrO (parseIfd0 tb r t) r := by
  unfold Exif.parseIfd0
  repeat' (with_reducible apply FrO.ite)
  fro_leaves
  · with_reducible apply FrO.bindP' (FrP.parseBytes _ _ _); intro r1 s hfr; dsimp only
    split
    · exact FrO.ok (Fr.addAlloc (Fr.upd hfr _) _)
    · exact FrO.ok (Fr.addAlloc (Fr.upd hfr _) _)
  · with_reducible apply FrO.bindP' (FrP.parseBytes _ _ _); intro r1 s hfr; dsimp only
    split
    · exact FrO.ok (Fr.upd hfr _)
    · exact FrO.ok (Fr.addAlloc (Fr.upd hfr _) _)
  · split
    · exact FrO.ok (Fr.upd (Fr.refl _) _)
    · exact FrO.ok (Fr.refl _)

theorem FrO.parseTag0 (tb : Tables) (r : R) (t : Tag) : FrO (parseTag0 tb r t) r := by
  unfold Exif.parseTag0
  have := FrO.parseIfd0 tb r t
  have := FrO.parseExifIfd r t
  have := FrO.parseGpsIfd r t
  repeat' (first | assumption | with_reducible apply FrO.ite | exact FrO.ok (Fr.refl _))

/-- what the ghost wrapper does -/
theorem parseTag_ok {tb : Tables} {r r' : R} {t : Tag} (h : parseTag tb r t = .ok r') :
    ∃ r0, parseTag0 tb r t = .ok r0 ∧ r' = { r0 with parsed := r0.parsed ++ [t] } := by
  unfold Exif.parseTag at h
  cases hx : Exif.parseTag0 tb r t with
  | ok r0 => rw [hx] at h; simp only [Outcome.bind, Outcome.ok.injEq] at h; exact ⟨r0, rfl, h.symm⟩
  | err k => rw [hx] at h; simp [Outcome.bind] at h
  | panic p => rw [hx] at h; simp [Outcome.bind] at h
  | fuel => rw [hx] at h; simp [Outcome.bind] at h

end Imeta.Exif
