/-
  C13: the children of a Description, simple elements and array properties mixed, in any order.
-/
import Imeta.Lemmas.XmpSeqAttr
namespace Imeta.Xmp
open Imeta Imeta.Props.C13

/-- a child of rdf:Description: a simple property in element form, or an array property -/
inductive Child where
  | elem (e : Elem)
  | arr (P A : Name) (ws1 wsE ws2 : Bytes) (l : List (Bytes × Elem))
  /-- an array whose items may carry attributes (`<rdf:li xml:lang="x-default">`: the Alt arrays of dc:title, dc:rights, dc:description) -/
  | arrA (P A : Name) (ws1 wsE ws2 : Bytes) (l : List (Bytes × List (Bytes × Attr) × Elem))
  /-- a self-closing element without attributes: an empty array `<rdf:Bag/>`, an unknown empty property -/
  | solo (n : Name)

/-- the child as written, followed by R -/
def Child.ser : Child → Bytes → Bytes
  | .elem e, R => e.bytes ++ R
  | .arr P A ws1 wsE ws2 l, R => P.openT (ws1 ++ A.openT (serE l ++ (wsE ++ A.closeT (ws2 ++ P.closeT R))))
  | .arrA P A ws1 wsE ws2 l, R => P.openT (ws1 ++ A.openT (serIA l ++ (wsE ++ A.closeT (ws2 ++ P.closeT R))))
  | .solo n, R => 60 :: ((n.n0 :: n.ns) ++ 58 :: (n.name ++ 47 :: 62 :: R))

/-- the tokens it must produce (newest first) -/
def Child.push (parent : Prop2) : Child → List Tok → List Tok
  | .elem e, acc => { pt := 2, parent := parent, self := e.prop, val := e.v } :: acc
  | .arr P A _ _ _ l, acc => pushI { t := .start, parent := P.prop, self := A.prop } l acc
  | .arrA P A _ _ _ l, acc => pushIA { t := .start, parent := P.prop, self := A.prop } l acc
  | .solo _, acc => acc

/-- the rounds of fuel its nesting needs -/
def Child.need : Child → Nat
  | .elem _ => 1
  | .arr _ _ _ _ _ l => 2 + 2 * l.length
  | .arrA _ _ _ _ _ l => 2 + 2 * l.length
  | .solo _ => 0

def Child.OK : Child → Prop
  | .elem e => e.OK
  | .arr P A ws1 wsE ws2 l =>
    P.OK ∧ A.OK ∧ (∀ x ∈ ws1, isWs x = true) ∧ ws1.length < 512 ∧
    (∀ x ∈ wsE, (x == 60) = false) ∧ wsE.length + 128 ≤ W ∧ (∀ x ∈ ws2, (x == 60) = false) ∧ ws2.length + 128 ≤ W ∧
    (P.prop == rdfSeq || P.prop == rdfAlt || P.prop == rdfBag) = false ∧ (P.prop == rootProp) = false ∧
    (A.prop == rdfSeq || A.prop == rdfAlt || A.prop == rdfBag) = true ∧
    (∀ p ∈ l, (∀ x ∈ p.1, (x == 60) = false) ∧ p.1.length + 128 ≤ W ∧ p.2.Item ∧ (p.2.prop == A.prop) = false)
  | .arrA P A ws1 wsE ws2 l =>
    P.OK ∧ A.OK ∧ (∀ x ∈ ws1, isWs x = true) ∧ ws1.length < 512 ∧
    (∀ x ∈ wsE, (x == 60) = false) ∧ wsE.length + 128 ≤ W ∧ (∀ x ∈ ws2, (x == 60) = false) ∧ ws2.length + 128 ≤ W ∧
    (P.prop == rdfSeq || P.prop == rdfAlt || P.prop == rdfBag) = false ∧ (P.prop == rootProp) = false ∧
    (A.prop == rdfSeq || A.prop == rdfAlt || A.prop == rdfBag) = true ∧
    (∀ p ∈ l, (∀ x ∈ p.1, (x == 60) = false) ∧ p.1.length + 128 ≤ W ∧ p.2.2.Item ∧ (p.2.2.prop == A.prop) = false ∧
      (∀ q ∈ p.2.1, (∀ x ∈ q.1, isWs x = true) ∧ q.1 ≠ [] ∧ q.2.OK))
  | .solo n => n.OK

/-- one child = one round of readTag -/
theorem readTag_child_exact (parent : Tag) (st : St) (ws : Bytes) (c : Child) (R : Bytes) (F : Nat)
    (hr : st.rest = ws ++ c.ser R) (hws : ∀ x ∈ ws, (x == 60) = false) (hwin : ws.length + 128 ≤ W) (ok : c.OK) (hF : c.need ≤ F) :
    readTag (F + 1) parent st = readTag F parent { rest := R, a := false, toks := c.push parent.self st.toks } := by
  cases c with
  | elem e =>
    obtain ⟨f, rfl⟩ : ∃ f, F = f + 1 := ⟨F - 1, by simp [Child.need] at hF; omega⟩
    exact readTag_element_exact parent st ws e R f (by rw [hr]; simp [Child.ser]) hws hwin ok
  | arr P A ws1 wsE ws2 l =>
    obtain ⟨f, rfl⟩ : ∃ f, F = f + 2 + 2 * l.length := ⟨F - (2 + 2 * l.length), by simp [Child.need] at hF; omega⟩
    obtain ⟨hP, hA, h1, h1w, hE, hEw, h2, h2w, hPs, hPr, hAs, hl⟩ := ok
    have := readTag_array_exact parent st P A ws ws1 wsE ws2 R l f (by rw [hr]; rfl) hP hA hws hwin h1 h1w hE hEw h2 h2w hPs hPr hAs hl
    have e1 : f + 2 + 2 * l.length + 1 = f + 3 + 2 * l.length := by omega
    rw [e1, this]
    rfl
  | solo n =>
    exact readTag_solo_exact parent st ws n R F (by rw [hr]; rfl) hws hwin ok
  | arrA P A ws1 wsE ws2 l =>
    obtain ⟨f, rfl⟩ : ∃ f, F = f + 2 + 2 * l.length := ⟨F - (2 + 2 * l.length), by simp [Child.need] at hF; omega⟩
    obtain ⟨hP, hA, h1, h1w, hE, hEw, h2, h2w, hPs, hPr, hAs, hl⟩ := ok
    have := readTag_arrayA_exact parent st P A ws ws1 wsE ws2 R l f (by rw [hr]; rfl) hP hA hws hwin h1 h1w hE hEw h2 h2w hPs hPr hAs hl
    have e1 : f + 2 + 2 * l.length + 1 = f + 3 + 2 * l.length := by omega
    rw [e1, this]
    rfl

def serC : List (Bytes × Child) → Bytes → Bytes
  | [], R => R
  | (ws, c) :: cs, R => ws ++ c.ser (serC cs R)

def pushC (parent : Prop2) : List (Bytes × Child) → List Tok → List Tok
  | [], acc => acc
  | (_, c) :: cs, acc => pushC parent cs (c.push parent acc)

/-- **Children in any order**: simple elements and array properties mixed, any white space between them: one round of
readTag per child, exactly the tokens of each child in document order, exactly the children consumed. -/
theorem readTag_children_exact (parent : Tag) (R : Bytes) : ∀ (cs : List (Bytes × Child)) (F : Nat) (st : St),
    st.a = false → st.rest = serC cs R →
    (∀ p ∈ cs, (∀ x ∈ p.1, (x == 60) = false) ∧ p.1.length + 128 ≤ W ∧ p.2.OK ∧ p.2.need ≤ F) →
    readTag (F + cs.length) parent st = readTag F parent { rest := R, a := false, toks := pushC parent.self cs st.toks } := by
  intro cs
  induction cs with
  | nil =>
    intro F st ha hr _
    have : st = { rest := R, a := false, toks := st.toks } := by
      cases st; simp_all [serC]
    simp only [List.length_nil, Nat.add_zero, pushC]
    rw [← this]
  | cons p cs ih =>
    intro F st ha hr hok
    obtain ⟨ws, c⟩ := p
    have hp := hok (ws, c) (by simp)
    have hfuel : F + ((ws, c) :: cs).length = (F + cs.length) + 1 := by simp; omega
    rw [hfuel, readTag_child_exact parent st ws c (serC cs R) (F + cs.length) (by rw [hr]; rfl) hp.1 hp.2.1 hp.2.2.1 (by have h : c.need ≤ F := hp.2.2.2; omega)]
    rw [ih F _ rfl rfl (fun q hq => hok q (List.mem_cons_of_mem _ hq))]
    rfl

end Imeta.Xmp
