/-
  C03, part 4: a flat directory (value tags only) in a forward layout is read exactly, from the directory bytes on.
  Layer A: the entries loop of readIfdHeader turns the out-of-line entries into a pending queue that is laid out forward
  without overlap (so `ifdLoop_forward` applies); embedded entries that give no parser a reason to read leave the stream
  alone.
-/
import Imeta.Lemmas.ExifForward
import Imeta.Lemmas.Exif
namespace Imeta.Exif
open Imeta

variable {ex0 : Rec}

/-- two values do not overlap -/
def Disj (a b : Tag) : Prop := a.off + a.size ≤ b.off ∨ b.off + b.size ≤ a.off

/-- queue order = file order, no overlap -/
def Lay (l : List Tag) : Prop := l.Pairwise (fun a b => a.off + a.size ≤ b.off)

theorem Lay.sorted {l : List Tag} (h : Lay l) : Sorted l := by
  unfold Lay at h; unfold Sorted
  exact h.imp (fun hab => Nat.le_trans (Nat.le_add_right _ _) hab)

theorem lay_insert (l : List Tag) (hl : Lay l) (t : Tag) (ht : 0 < t.size) (hd : ∀ x ∈ l, Disj t x ∧ 0 < x.size) (i : Nat)
    (hlo : ∀ x ∈ l.take i, x.off ≤ t.off) (hhi : ∀ x ∈ l.drop i, t.off ≤ x.off) : Lay (l.take i ++ t :: l.drop i) := by
  unfold Lay at *
  have hsplit : (l.take i ++ l.drop i).Pairwise (fun a b => a.off + a.size ≤ b.off) := by rw [List.take_append_drop]; exact hl
  rw [List.pairwise_append] at hsplit
  obtain ⟨h1, h2, h3⟩ := hsplit
  rw [List.pairwise_append]
  refine ⟨h1, ?_, ?_⟩
  · rw [List.pairwise_cons]
    refine ⟨?_, h2⟩
    intro x hx
    have hxl : x ∈ l := List.mem_of_mem_drop hx
    have := hd x hxl
    have := hhi x hx
    unfold Disj at *
    omega
  · intro a ha b hb
    rw [List.mem_cons] at hb
    rcases hb with rfl | hb
    · have hal : a ∈ l := List.mem_of_mem_take ha
      have := hd a hal
      have := hlo a ha
      unfold Disj at *
      omega
    · exact h3 a ha b hb

/-- adding an out-of-line value that overlaps none of the pending ones keeps the layout, and the value is queued -/
theorem addTag_lay (r : R) (t : Tag) (hl : Lay r.tags) (hpo : r.po ≤ t.off) (hlen : r.tags.length < tagMaxCount)
    (ht : 0 < t.size) (hd : ∀ x ∈ r.tags, Disj t x ∧ 0 < x.size) :
    Lay (addTag r t).tags ∧ (∀ x ∈ (addTag r t).tags, x = t ∨ x ∈ r.tags) ∧ (addTag r t).tags.length = r.tags.length + 1 ∧
    Same r { addTag r t with tags := r.tags } := by
  unfold addTag
  rw [if_neg (by omega), if_pos hlen]
  cases hi : insertFrom t r.tags.length r.tags with
  | some res =>
    obtain ⟨i, hi1, rfl, hlo, hhi⟩ := insertFrom_spec t r.tags hl.sorted r.tags.length (Nat.le_refl _) (by simp) res hi
    dsimp only
    refine ⟨lay_insert _ hl t ht hd i hlo hhi, ?_, ?_, ⟨rfl, rfl, rfl, rfl, rfl, rfl, rfl⟩⟩
    · intro x hx
      rw [List.mem_append, List.mem_cons] at hx
      rcases hx with hx | rfl | hx
      · exact Or.inr (List.mem_of_mem_take hx)
      · exact Or.inl rfl
      · exact Or.inr (List.mem_of_mem_drop hx)
    · simp only [List.length_append, List.length_cons, List.length_take, List.length_drop]; omega
  | none =>
    dsimp only
    cases htags : r.tags with
    | nil =>
      dsimp only
      refine ⟨by unfold Lay; simp, ?_, by simp, ⟨rfl, rfl, rfl, rfl, by simp [htags], rfl, rfl⟩⟩
      intro x hx; simp at hx; exact Or.inl hx
    | cons h tl =>
      dsimp only
      have hh := hd h (by rw [htags]; simp)
      -- `insertFrom` found no smaller offset, so the head is not smaller
      have hge : ¬ t.off > h.off := by
        intro hgt
        have : insertFrom t r.tags.length r.tags ≠ none := by
          rw [htags]
          have key : ∀ m, m ≤ (h :: tl).length → 0 < m → insertFrom t m (h :: tl) ≠ none := by
            intro m
            induction m with
            | zero => intro _ h0; omega
            | succ k ih =>
              intro hk _
              have hk' : k < (h :: tl).length := by omega
              simp only [insertFrom, List.getElem?_eq_getElem hk']
              split
              · simp
              · by_cases hk0 : k = 0
                · subst hk0; rename_i hle; simp at hle; omega
                · exact ih (by omega) (by omega)
          exact key _ (Nat.le_refl _) (by simp)
        exact this hi
      have hlt : t.off < h.off := by unfold Disj at hh; omega
      rw [if_pos hlt]
      dsimp only
      rw [htags] at hl hd
      refine ⟨?_, ?_, by simp, ⟨rfl, rfl, rfl, rfl, by simp [htags], rfl, rfl⟩⟩
      · unfold Lay at *
        rw [List.pairwise_cons]
        refine ⟨?_, hl⟩
        intro x hx
        have hx' := hd x hx
        have hsx : h.off ≤ x.off := by
          rw [List.mem_cons] at hx
          rcases hx with rfl | hx
          · exact Nat.le_refl _
          · rw [List.pairwise_cons] at hl
            have := hl.1 x hx; omega
        unfold Disj at hx'
        omega
      · intro x hx
        rw [List.mem_cons] at hx
        rcases hx with rfl | hx
        · exact Or.inl rfl
        · exact Or.inr hx

theorem addTag_keep (r : R) (t : Tag) : (addTag r t).ex = r.ex ∧ (addTag r t).parsed = r.parsed := by
  unfold addTag
  repeat' split
  all_goals exact ⟨rfl, rfl⟩

/-- entry k of a directory, as the entries loop decodes it -/
def entryAt (ifd : Ifd) (buf : Bytes) (k : Nat) : Outcome (Option Tag) := slc buf (k * 12) buf.length >>= tagFromBuffer ifd

/-- what the flat-directory theorem asks of an entry: a value tag (no directory pointer, no sub-IFD list); embedded
entries give no parser a reason to read; out-of-line values lie at or after D (the end of the directory), inside the file,
the Exif length and the reader's window -/
def Good (F : Bytes) (D exl lim : Nat) (t : Tag) : Prop :=
  t.typ ≠ tIfd ∧ ¬(t.id = 0x014a ∧ t.ifd = ifd0) ∧ (t.isEmbedded = true → ¬ Reads t) ∧
  (t.isEmbedded = false → D ≤ t.off ∧ t.off + t.size ≤ F.length ∧ t.off + t.size ≤ exl ∧ t.size ≤ lim)

theorem size_pos_of_outofline (t : Tag) (h1 : t.typ ≠ tIfd) (h2 : t.isEmbedded = false) : 0 < t.size := by
  unfold Tag.isEmbedded at h2
  have : (t.typ != tIfd) = true := by simp [h1]
  rw [this, Bool.and_true] at h2
  have : ¬ t.size ≤ 4 := by simpa using h2
  omega

theorem entriesLoop_flat {F : Bytes} (tb : Tables) (ifd : Ifd) (buf : Bytes) (D : Nat) : ∀ (n i : Nat) (r r' : R),
    Coh F r → Exact tb ex0 F r → r.po ≤ D → r.pos = 0 → Lay r.tags →
    (∀ x ∈ r.tags, ∃ k, k < i ∧ entryAt ifd buf k = .ok (some x) ∧ x.isEmbedded = false) → r.tags.length ≤ i → i + n ≤ 83 →
    (∀ k t, k < i + n → entryAt ifd buf k = .ok (some t) → Good F D r.exifLength (readLimit r) t) →
    (∀ k k' t t', k < i + n → k' < i + n → k ≠ k' → entryAt ifd buf k = .ok (some t) → entryAt ifd buf k' = .ok (some t') →
      t.isEmbedded = false → t'.isEmbedded = false → Disj t t') →
    entriesLoop tb ifd buf n i r = .ok r' →
    Coh F r' ∧ Exact tb ex0 F r' ∧ r'.po = r.po ∧ r'.pos = 0 ∧ r'.exifLength = r.exifLength ∧ readLimit r' = readLimit r ∧ Lay r'.tags ∧
    (∀ x ∈ r'.tags, ∃ k, k < i + n ∧ entryAt ifd buf k = .ok (some x) ∧ x.isEmbedded = false) := by
  intro n
  induction n with
  | zero =>
    intro i r r' hc he _ hpos hlay hmem _ _ _ _ h
    unfold Exif.entriesLoop at h
    simp only [Outcome.ok.injEq] at h; subst h
    exact ⟨hc, he, rfl, hpos, rfl, rfl, hlay, hmem⟩
  | succ n ih =>
    intro i r r' hc he hD hpos hlay hmem hlen hn hgood hdisj h
    unfold Exif.entriesLoop at h
    obtain ⟨e, hslc, h⟩ := bind_ok h
    obtain ⟨ot, hdec, h⟩ := bind_ok h
    have hent : entryAt ifd buf i = .ok ot := by unfold entryAt; rw [hslc]; exact hdec
    have hmem' : ∀ x ∈ r.tags, ∃ k, k < i + 1 ∧ entryAt ifd buf k = .ok (some x) ∧ x.isEmbedded = false := by
      intro x hx; obtain ⟨k, hk, hr⟩ := hmem x hx; exact ⟨k, by omega, hr⟩
    cases ot with
    | none =>
      dsimp only at h
      have := ih (i + 1) r r' hc he hD hpos hlay hmem' (by omega) (by omega)
        (fun k t hk => hgood k t (by omega)) (fun k k' t t' hk hk' => hdisj k k' t t' (by omega) (by omega)) h
      obtain ⟨a, b, c, d, e1, f, g, hh⟩ := this
      exact ⟨a, b, c, d, e1, f, g, fun x hx => by obtain ⟨k, hk, hr⟩ := hh x hx; exact ⟨k, by omega, hr⟩⟩
    | some t =>
      dsimp only at h
      have hg := hgood i t (by omega) hent
      split at h
      · rename_i hemb
        obtain ⟨r1, h1, h⟩ := bind_ok h
        have hs := parseTag_quiet tb r r1 t (hg.2.2.1 hemb) h1
        have hc1 : Coh F r1 := ⟨by rw [hs.rest, hs.po]; exact hc.rest, by rw [hs.po]; exact hc.le, hc.small⟩
        have he1 : Exact tb ex0 F r1 := parseTag_quiet_exact r r1 t (hg.2.2.1 hemb) he h1
        have hl1 : readLimit r1 = readLimit r := by unfold readLimit; rw [hs.buffered]
        have := ih (i + 1) r1 r' hc1 he1 (by rw [hs.po]; exact hD) (by rw [hs.pos]; exact hpos) (by rw [hs.tags]; exact hlay)
          (by rw [hs.tags]; exact hmem') (by rw [hs.tags]; omega) (by omega)
          (fun k t hk hd => by rw [hs.exl, hl1]; exact hgood k t (by omega) hd)
          (fun k k' t t' hk hk' => hdisj k k' t t' (by omega) (by omega)) h
        obtain ⟨a, b, c, d, e1, f, g, hh⟩ := this
        exact ⟨a, b, by rw [c, hs.po], d, by rw [e1, hs.exl], by rw [f, hl1], g,
          fun x hx => by obtain ⟨k, hk, hr⟩ := hh x hx; exact ⟨k, by omega, hr⟩⟩
      · rename_i hemb
        have hemb' : t.isEmbedded = false := by simpa using hemb
        have hout := hg.2.2.2 hemb'
        have hsz := size_pos_of_outofline t hg.1 hemb'
        have hd : ∀ x ∈ r.tags, Disj t x ∧ 0 < x.size := by
          intro x hx
          obtain ⟨k, hk, hxe, hxo⟩ := hmem x hx
          have hgx := hgood k x (by omega) hxe
          exact ⟨hdisj i k t x (by omega) (by omega) (by omega) hent hxe hemb' hxo, size_pos_of_outofline x hgx.1 hxo⟩
        have ha := addTag_lay r t hlay (by omega) (by unfold tagMaxCount; omega) hsz hd
        obtain ⟨hl2, hm2, hlen2, hs⟩ := ha
        have hc1 : Coh F (addTag r t) := ⟨by have := hs.rest; have := hs.po; simp only at *; rw [‹(addTag r t).rest = r.rest›, ‹(addTag r t).po = r.po›]; exact hc.rest, by have := hs.po; simp only at this; rw [this]; exact hc.le, hc.small⟩
        have hpo1 : (addTag r t).po = r.po := hs.po
        have hexl1 : (addTag r t).exifLength = r.exifLength := hs.exl
        have hbuf1 : (addTag r t).buffered = r.buffered := hs.buffered
        have hpos1 : (addTag r t).pos = r.pos := hs.pos
        have hrd1 : (addTag r t).reads = r.reads := hs.reads
        have he1 : Exact tb ex0 F (addTag r t) := he.transfer hrd1 (addTag_keep r t).1 (addTag_keep r t).2
        have hl1 : readLimit (addTag r t) = readLimit r := by unfold readLimit; rw [hbuf1]
        have hmem1 : ∀ x ∈ (addTag r t).tags, ∃ k, k < i + 1 ∧ entryAt ifd buf k = .ok (some x) ∧ x.isEmbedded = false := by
          intro x hx
          rcases hm2 x hx with rfl | hx
          · exact ⟨i, by omega, hent, hemb'⟩
          · exact hmem' x hx
        have := ih (i + 1) (addTag r t) r' hc1 he1 (by rw [hpo1]; exact hD) (by rw [hpos1]; exact hpos) hl2 hmem1 (by omega) (by omega)
          (fun k t hk hd => by rw [hexl1, hl1]; exact hgood k t (by omega) hd)
          (fun k k' t t' hk hk' => hdisj k k' t t' (by omega) (by omega)) h
        obtain ⟨a, b, c, d, e1, f, g, hh⟩ := this
        exact ⟨a, b, by rw [c, hpo1], d, by rw [e1, hexl1], by rw [f, hl1], g,
          fun x hx => by obtain ⟨k, hk, hr⟩ := hh x hx; exact ⟨k, by omega, hr⟩⟩

theorem readLimit_ge (r : R) : 4 ≤ readLimit r := by
  unfold readLimit bufioSize scratchSize; split <;> omega

/-- Layer B: the header of a flat directory.  From a coherent reader with an empty queue standing at the directory, with
the directory (count, 12-byte entries, next-IFD pointer) inside the file and the limits, every decoded entry `Good` and the
out-of-line values pairwise disjoint: readIfdHeader leaves a coherent reader, an exact read record, and a pending queue
that is a forward chain. -/
theorem readIfdHeader_flat {F : Bytes} (tb : Tables) (ifd : Ifd) (r r1 : R) (e1 : Option ErrKind) (cnt : Nat)
    (hc : Coh F r) (he : Exact tb ex0 F r) (htags : r.tags = []) (hpos : r.pos = 0)
    (hF : r.po + 2 + 12 * cnt + 4 ≤ F.length) (hx : r.po + 2 + 12 * cnt + 4 ≤ r.exifLength)
    (hcnt : u16 ifd.order ((F.drop r.po).take 2) = .ok cnt) (hc83 : cnt ≤ 83) (hlim : 12 * cnt ≤ readLimit r)
    (hgood : ∀ k t, k < cnt → entryAt ifd ((F.drop (r.po + 2)).take (cnt * 12)) k = .ok (some t) →
      Good F (r.po + 2 + 12 * cnt + 4) r.exifLength (readLimit r) t)
    (hdisj : ∀ k k' t t', k < cnt → k' < cnt → k ≠ k' → entryAt ifd ((F.drop (r.po + 2)).take (cnt * 12)) k = .ok (some t) →
      entryAt ifd ((F.drop (r.po + 2)).take (cnt * 12)) k' = .ok (some t') → t.isEmbedded = false → t'.isEmbedded = false → Disj t t')
    (hnext : ifd.typ = ifd0 → u32 ifd.order ((F.drop (r.po + 2 + 12 * cnt)).take 4) = .ok 0)
    (h : readIfdHeader tb r ifd = .ok (r1, e1)) :
    Coh F r1 ∧ Exact tb ex0 F r1 ∧ Chain F r1.exifLength (readLimit r1) r1.po (r1.tags.drop r1.pos) := by
  have hl4 := readLimit_ge r
  -- the two reads of the directory
  have hr2 := fastRead_exact hc 2 (by omega) (by omega) (by omega)
  have hc2 := hc.fastRead 2
  have hk2 := Keep.fastRead r 2
  have hlim2 : readLimit (fastRead r 2).r = readLimit r := by unfold readLimit; rw [hk2.buffered]
  have hr3 := fastRead_exact hc2 (cnt * 12) (by rw [hr2.2.2]; omega) (by rw [hr2.2.2, hk2.exl]; omega) (by rw [hlim2]; omega)
  have hc3 := hc2.fastRead (cnt * 12)
  have hk3 := hk2.trans (Keep.fastRead (fastRead r 2).r (cnt * 12))
  have hlim3 : readLimit (fastRead (fastRead r 2).r (cnt * 12)).r = readLimit r := by unfold readLimit; rw [hk3.buffered]
  have hpo3 : (fastRead (fastRead r 2).r (cnt * 12)).r.po = r.po + 2 + 12 * cnt := by rw [hr3.2.2, hr2.2.2]; omega
  have hbuf3 : (fastRead (fastRead r 2).r (cnt * 12)).buf = (F.drop (r.po + 2)).take (cnt * 12) := by rw [hr3.2.1, hr2.2.2]
  unfold Exif.readIfdHeader at h
  dsimp only at h
  rw [hr2.1] at h
  dsimp only at h
  rw [hr2.2.1, hcnt] at h
  obtain ⟨c', hch, h⟩ := bind_ok h
  simp only [Outcome.ok.injEq] at hch
  subst hch
  rw [if_neg (by omega), hr3.1] at h
  dsimp only at h
  obtain ⟨r3, hloop, hnx⟩ := bind_ok h
  rw [hbuf3] at hloop
  have hE3 : Exact tb ex0 F (fastRead (fastRead r 2).r (cnt * 12)).r := he.keep hk3
  have hflat := entriesLoop_flat (F := F) tb ifd _ (r.po + 2 + 12 * cnt + 4) cnt 0 _ r3 hc3 hE3 (by rw [hpo3]; omega)
    (by rw [hk3.pos]; exact hpos) (by rw [hk3.tags, htags]; unfold Lay; simp) (by rw [hk3.tags, htags]; intro x hx; cases hx)
    (by rw [hk3.tags, htags]; simp) (by omega)
    (fun k t hk hd => by rw [hk3.exl, hlim3]; exact hgood k t (by omega) hd)
    (fun k k' t t' hk hk' => hdisj k k' t t' (by omega) (by omega)) hloop
  obtain ⟨hc4, he4, hpo4, hpos4, hexl4, hlim4, hlay4, hmem4⟩ := hflat
  rw [hpo3] at hpo4
  rw [hk3.exl] at hexl4
  rw [hlim3] at hlim4
  -- the pending queue of r3 is a forward chain from any position up to the end of the directory
  have hchain : ∀ p, p ≤ r.po + 2 + 12 * cnt + 4 → Chain F r.exifLength (readLimit r) p (r3.tags.drop 0) := by
    intro p hp
    apply Chain.of_pairwise _ _ hlay4
    · intro t ht
      obtain ⟨k, hk, hke, hko⟩ := hmem4 t ht
      have hg := hgood k t (by omega) hke
      have ho := hg.2.2.2 hko
      exact ⟨hg.1, hg.2.1, ho.2.1, ho.2.2.1, ho.2.2.2⟩
    · intro t ht
      obtain ⟨k, hk, hke, hko⟩ := hmem4 t ht
      have hg := hgood k t (by omega) hke
      have ho := hg.2.2.2 hko
      omega
  -- the next-IFD pointer
  unfold Exif.readNextIfdTag at hnx
  split at hnx
  · dsimp only at hnx
    have hr5 := fastRead_exact hc4 4 (by rw [hpo4]; omega) (by rw [hpo4, hexl4]; omega) (by rw [hlim4]; omega)
    have hc5 := hc4.fastRead 4
    have hk5 := Keep.fastRead r3 4
    rw [hr5.1] at hnx
    dsimp only at hnx
    obtain ⟨nx, hnxv, hnx⟩ := bind_ok hnx
    rw [hr5.2.1, hpo4] at hnxv
    have hno : ¬ (ifd.typ = ifd0 ∧ nx ≠ 0) := by
      intro hh
      have := hnext hh.1
      rw [this] at hnxv
      simp only [Outcome.ok.injEq] at hnxv
      exact hh.2 hnxv.symm
    rw [if_neg hno] at hnx
    simp only [Outcome.ok.injEq, Prod.mk.injEq] at hnx
    rw [← hnx.1]
    refine ⟨hc5, he4.keep hk5, ?_⟩
    have hl5 : readLimit (fastRead r3 4).r = readLimit r := by unfold readLimit at hlim4 ⊢; rw [hk5.buffered]; exact hlim4
    rw [hk5.exl, hexl4, hl5, hr5.2.2, hpo4, hk5.tags, hk5.pos, hpos4]
    exact hchain _ (by omega)
  · simp only [Outcome.ok.injEq, Prod.mk.injEq] at hnx
    rw [← hnx.1]
    refine ⟨hc4, he4, ?_⟩
    rw [hexl4, hlim4, hpo4, hpos4]
    exact hchain _ (by omega)

/-- the hypotheses of the flat-directory theorems, for a directory at offset d of the file F read with byte order and
directory type `ifd` under Exif length `exl` and read window `lim` -/
structure FlatDir (F : Bytes) (ifd : Ifd) (d cnt exl lim : Nat) : Prop where
  inFile : d + 2 + 12 * cnt + 4 ≤ F.length
  inExif : d + 2 + 12 * cnt + 4 ≤ exl
  count : u16 ifd.order ((F.drop d).take 2) = .ok cnt
  small : cnt ≤ 83
  window : 12 * cnt ≤ lim
  good : ∀ k t, k < cnt → entryAt ifd ((F.drop (d + 2)).take (cnt * 12)) k = .ok (some t) → Good F (d + 2 + 12 * cnt + 4) exl lim t
  disj : ∀ k k' t t', k < cnt → k' < cnt → k ≠ k' → entryAt ifd ((F.drop (d + 2)).take (cnt * 12)) k = .ok (some t) →
      entryAt ifd ((F.drop (d + 2)).take (cnt * 12)) k' = .ok (some t') → t.isEmbedded = false → t'.isEmbedded = false → Disj t t'
  next : ifd.typ = ifd0 → u32 ifd.order ((F.drop (d + 2 + 12 * cnt)).take 4) = .ok 0

/-- readIfd on a flat directory in a forward layout: whatever it returns, the reader is coherent with the file and every
read it made succeeded with exactly the bytes its tag points at -/
theorem readIfd_flat {F : Bytes} (tb : Tables) (fuel : Nat) (ifd : Ifd) (r r' : R) (e : Option ErrKind) (cnt : Nat)
    (hc : Coh F r) (he : Exact tb ex0 F r) (htags : r.tags = []) (hpos : r.pos = 0)
    (hd : FlatDir F ifd r.po cnt r.exifLength (readLimit r))
    (h : readIfd tb fuel r ifd = .ok (r', e)) : Coh F r' ∧ Exact tb ex0 F r' := by
  unfold Exif.readIfd at h
  obtain ⟨p, hp, h⟩ := bind_ok h
  obtain ⟨r1, e1⟩ := p
  have hh := readIfdHeader_flat tb ifd r r1 e1 cnt hc he htags hpos hd.inFile hd.inExif hd.count hd.small hd.window hd.good hd.disj hd.next hp
  dsimp only at h
  split at h
  · simp only [Outcome.ok.injEq, Prod.mk.injEq] at h; rw [← h.1]; exact ⟨hh.1, hh.2.1⟩
  · obtain ⟨r2, h2, h⟩ := bind_ok h
    simp only [Outcome.ok.injEq, Prod.mk.injEq] at h; rw [← h.1]
    exact ifdLoop_forward tb fuel r1 r2 hh.1 hh.2.1 hh.2.2 h2

/-- **A flat TIFF in a forward layout is read exactly** (DecodeTiff on the whole file F, first directory at h.firstIfd) -/
theorem decodeTiff_flat (tb : Tables) (F : Bytes) (buffered : Bool) (h : Hdr) (cnt : Nat) (r' : R) (e : Option ErrKind)
    (hsmall : F.length < 2 ^ 32)
    (hd : FlatDir F { off := 0, base := 0, order := h.order, typ := h.firstIfdType, idx := 0 } h.firstIfd cnt (4 * 1024 * 1024)
      (if buffered then bufioSize else scratchSize))
    (hres : decodeTiff tb F buffered h = .ok (r', e)) : Coh F r' ∧ Exact tb { imageType := h.imageType } F r' := by
  unfold Exif.decodeTiff at hres
  dsimp only at hres
  have hc0 : Coh F { rest := F, po := 0, exifLength := 4 * 1024 * 1024, buffered := buffered, ex := { imageType := h.imageType } } :=
    ⟨by simp, Nat.zero_le _, hsmall⟩
  have he0 : Exact tb { imageType := h.imageType } F { rest := F, po := 0, exifLength := 4 * 1024 * 1024, buffered := buffered, ex := { imageType := h.imageType } } :=
    Exact.init tb F { rest := F, po := 0, exifLength := 4 * 1024 * 1024, buffered := buffered, ex := { imageType := h.imageType } } rfl rfl
  have hF := hd.inFile
  have hX := hd.inExif
  have hde := discard_exact hc0 h.firstIfd (by simp only; omega) (by simp only; omega)
  have hcd := hc0.discard (h.firstIfd : Int)
  have hkd := Keep.discard { rest := F, po := 0, exifLength := 4 * 1024 * 1024, buffered := buffered, ex := { imageType := h.imageType } } (h.firstIfd : Int)
  split at hres
  · simp only [Outcome.ok.injEq, Prod.mk.injEq] at hres
    rename_i r1 e1 hdd
    rw [hdd] at hcd hkd
    rw [← hres.1]
    exact ⟨hcd, he0.keep hkd⟩
  · rename_i r1 hdd
    rw [hdd] at hcd hkd hde
    dsimp only at hde hcd hkd
    have hpo : r1.po = h.firstIfd := by rw [hde.2]; simp
    apply readIfd_flat tb _ _ r1 r' e cnt hcd (he0.keep hkd) hkd.tags hkd.pos _ hres
    rw [hpo, hkd.exl]
    have : readLimit r1 = (if buffered then bufioSize else scratchSize) := by unfold readLimit; rw [hkd.buffered]
    rw [this]
    exact hd

end Imeta.Exif
