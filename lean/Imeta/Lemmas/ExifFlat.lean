/-
  C03, part 4: a flat directory (value tags only) in a forward layout is read exactly, from the directory bytes on.
  Layer A: the entries loop of readIfdHeader turns the out-of-line entries into a pending queue that is laid out forward
  without overlap (so `ifdLoop_forward` applies); embedded entries that give no parser a reason to read leave the stream
  alone.
-/
import Imeta.Lemmas.ExifForward
import Imeta.Lemmas.Exif
namespace Imeta.Exif
open Imeta

/-- two values do not overlap -/
def Disj (a b : Tag) : Prop := a.off + a.size ≤ b.off ∨ b.off + b.size ≤ a.off

/-- queue order = file order, no overlap -/
def Lay (l : List Tag) : Prop := l.Pairwise (fun a b => a.off + a.size ≤ b.off)

theorem Lay.sorted {l : List Tag} (h : Lay l) : Sorted l := by
  unfold Lay at h; unfold Sorted
  exact h.imp (fun hab => Nat.le_trans (Nat.le_add_right _ _) hab)

theorem lay_insert (l : List Tag) (hl : Lay l) (t : Tag) (ht : 0 < t.size) (hd : ∀ x ∈ l, Disj t x ∧ 0 < x.size) (i : Nat)
    (hlo : ∀ x ∈ l.take i, x.off ≤ t.off) (hhi : ∀ x ∈ l.drop i, t.off ≤ x.off) : Lay (l.take i ++ t :: l.drop i) := by
  unfold Lay at *
  have hsplit : (l.take i ++ l.drop i).Pairwise (fun a b => a.off + a.size ≤ b.off) := by rw [List.take_append_drop]; exact hl
  rw [List.pairwise_append] at hsplit
  obtain ⟨h1, h2, h3⟩ := hsplit
  rw [List.pairwise_append]
  refine ⟨h1, ?_, ?_⟩
  · rw [List.pairwise_cons]
    refine ⟨?_, h2⟩
    intro x hx
    have hxl : x ∈ l := List.mem_of_mem_drop hx
    have := hd x hxl
    have := hhi x hx
    unfold Disj at *
    omega
  · intro a ha b hb
    rw [List.mem_cons] at hb
    rcases hb with rfl | hb
    · have hal : a ∈ l := List.mem_of_mem_take ha
      have := hd a hal
      have := hlo a ha
      unfold Disj at *
      omega
    · exact h3 a ha b hb

/-- adding an out-of-line value that overlaps none of the pending ones keeps the layout, and the value is queued -/
theorem addTag_lay (r : R) (t : Tag) (hl : Lay r.tags) (hpo : r.po ≤ t.off) (hlen : r.tags.length < tagMaxCount)
    (ht : 0 < t.size) (hd : ∀ x ∈ r.tags, Disj t x ∧ 0 < x.size) :
    Lay (addTag r t).tags ∧ (∀ x ∈ (addTag r t).tags, x = t ∨ x ∈ r.tags) ∧ (addTag r t).tags.length = r.tags.length + 1 ∧
    Same r { addTag r t with tags := r.tags } := by
  unfold addTag
  rw [if_neg (by omega), if_pos hlen]
  cases hi : insertFrom t r.tags.length r.tags with
  | some res =>
    obtain ⟨i, hi1, rfl, hlo, hhi⟩ := insertFrom_spec t r.tags hl.sorted r.tags.length (Nat.le_refl _) (by simp) res hi
    dsimp only
    refine ⟨lay_insert _ hl t ht hd i hlo hhi, ?_, ?_, ⟨rfl, rfl, rfl, rfl, rfl, rfl, rfl⟩⟩
    · intro x hx
      rw [List.mem_append, List.mem_cons] at hx
      rcases hx with hx | rfl | hx
      · exact Or.inr (List.mem_of_mem_take hx)
      · exact Or.inl rfl
      · exact Or.inr (List.mem_of_mem_drop hx)
    · simp only [List.length_append, List.length_cons, List.length_take, List.length_drop]; omega
  | none =>
    dsimp only
    cases htags : r.tags with
    | nil =>
      dsimp only
      refine ⟨by unfold Lay; simp, ?_, by simp, ⟨rfl, rfl, rfl, rfl, by simp [htags], rfl, rfl⟩⟩
      intro x hx; simp at hx; exact Or.inl hx
    | cons h tl =>
      dsimp only
      have hh := hd h (by rw [htags]; simp)
      -- `insertFrom` found no smaller offset, so the head is not smaller
      have hge : ¬ t.off > h.off := by
        intro hgt
        have : insertFrom t r.tags.length r.tags ≠ none := by
          rw [htags]
          have key : ∀ m, m ≤ (h :: tl).length → 0 < m → insertFrom t m (h :: tl) ≠ none := by
            intro m
            induction m with
            | zero => intro _ h0; omega
            | succ k ih =>
              intro hk _
              have hk' : k < (h :: tl).length := by omega
              simp only [insertFrom, List.getElem?_eq_getElem hk']
              split
              · simp
              · by_cases hk0 : k = 0
                · subst hk0; rename_i hle; simp at hle; omega
                · exact ih (by omega) (by omega)
          exact key _ (Nat.le_refl _) (by simp)
        exact this hi
      have hlt : t.off < h.off := by unfold Disj at hh; omega
      rw [if_pos hlt]
      dsimp only
      rw [htags] at hl hd
      refine ⟨?_, ?_, by simp, ⟨rfl, rfl, rfl, rfl, by simp [htags], rfl, rfl⟩⟩
      · unfold Lay at *
        rw [List.pairwise_cons]
        refine ⟨?_, hl⟩
        intro x hx
        have hx' := hd x hx
        have hsx : h.off ≤ x.off := by
          rw [List.mem_cons] at hx
          rcases hx with rfl | hx
          · exact Nat.le_refl _
          · rw [List.pairwise_cons] at hl
            have := hl.1 x hx; omega
        unfold Disj at hx'
        omega
      · intro x hx
        rw [List.mem_cons] at hx
        rcases hx with rfl | hx
        · exact Or.inl rfl
        · exact Or.inr hx

/-- entry k of a directory, as the entries loop decodes it -/
def entryAt (ifd : Ifd) (buf : Bytes) (k : Nat) : Outcome (Option Tag) := slc buf (k * 12) buf.length >>= tagFromBuffer ifd

/-- what the flat-directory theorem asks of an entry: a value tag (no directory pointer, no sub-IFD list); embedded
entries give no parser a reason to read; out-of-line values lie at or after D (the end of the directory), inside the file,
the Exif length and the reader's window -/
def Good (F : Bytes) (D exl lim : Nat) (t : Tag) : Prop :=
  t.typ ≠ tIfd ∧ ¬(t.id = 0x014a ∧ t.ifd = ifd0) ∧ (t.isEmbedded = true → ¬ Reads t) ∧
  (t.isEmbedded = false → D ≤ t.off ∧ t.off + t.size ≤ F.length ∧ t.off + t.size ≤ exl ∧ t.size ≤ lim)

theorem size_pos_of_outofline (t : Tag) (h1 : t.typ ≠ tIfd) (h2 : t.isEmbedded = false) : 0 < t.size := by
  unfold Tag.isEmbedded at h2
  have : (t.typ != tIfd) = true := by simp [h1]
  rw [this, Bool.and_true] at h2
  have : ¬ t.size ≤ 4 := by simpa using h2
  omega

theorem entriesLoop_flat {F : Bytes} (tb : Tables) (ifd : Ifd) (buf : Bytes) (D : Nat) : ∀ (n i : Nat) (r r' : R),
    Coh F r → Exact F r → r.po ≤ D → r.pos = 0 → Lay r.tags →
    (∀ x ∈ r.tags, ∃ k, k < i ∧ entryAt ifd buf k = .ok (some x) ∧ x.isEmbedded = false) → r.tags.length ≤ i → i + n ≤ 83 →
    (∀ k t, k < i + n → entryAt ifd buf k = .ok (some t) → Good F D r.exifLength (readLimit r) t) →
    (∀ k k' t t', k < i + n → k' < i + n → k ≠ k' → entryAt ifd buf k = .ok (some t) → entryAt ifd buf k' = .ok (some t') →
      t.isEmbedded = false → t'.isEmbedded = false → Disj t t') →
    entriesLoop tb ifd buf n i r = .ok r' →
    Coh F r' ∧ Exact F r' ∧ r'.po = r.po ∧ r'.pos = 0 ∧ r'.exifLength = r.exifLength ∧ readLimit r' = readLimit r ∧ Lay r'.tags ∧
    (∀ x ∈ r'.tags, ∃ k, k < i + n ∧ entryAt ifd buf k = .ok (some x) ∧ x.isEmbedded = false) := by
  intro n
  induction n with
  | zero =>
    intro i r r' hc he _ hpos hlay hmem _ _ _ _ h
    unfold Exif.entriesLoop at h
    simp only [Outcome.ok.injEq] at h; subst h
    exact ⟨hc, he, rfl, hpos, rfl, rfl, hlay, hmem⟩
  | succ n ih =>
    intro i r r' hc he hD hpos hlay hmem hlen hn hgood hdisj h
    unfold Exif.entriesLoop at h
    obtain ⟨e, hslc, h⟩ := bind_ok h
    obtain ⟨ot, hdec, h⟩ := bind_ok h
    have hent : entryAt ifd buf i = .ok ot := by unfold entryAt; rw [hslc]; exact hdec
    have hmem' : ∀ x ∈ r.tags, ∃ k, k < i + 1 ∧ entryAt ifd buf k = .ok (some x) ∧ x.isEmbedded = false := by
      intro x hx; obtain ⟨k, hk, hr⟩ := hmem x hx; exact ⟨k, by omega, hr⟩
    cases ot with
    | none =>
      dsimp only at h
      have := ih (i + 1) r r' hc he hD hpos hlay hmem' (by omega) (by omega)
        (fun k t hk => hgood k t (by omega)) (fun k k' t t' hk hk' => hdisj k k' t t' (by omega) (by omega)) h
      obtain ⟨a, b, c, d, e1, f, g, hh⟩ := this
      exact ⟨a, b, c, d, e1, f, g, fun x hx => by obtain ⟨k, hk, hr⟩ := hh x hx; exact ⟨k, by omega, hr⟩⟩
    | some t =>
      dsimp only at h
      have hg := hgood i t (by omega) hent
      split at h
      · rename_i hemb
        obtain ⟨r1, h1, h⟩ := bind_ok h
        have hs := parseTag_quiet tb r r1 t (hg.2.2.1 hemb) h1
        have hc1 : Coh F r1 := ⟨by rw [hs.rest, hs.po]; exact hc.rest, by rw [hs.po]; exact hc.le, hc.small⟩
        have he1 : Exact F r1 := by intro x hx; rw [hs.reads] at hx; exact he x hx
        have hl1 : readLimit r1 = readLimit r := by unfold readLimit; rw [hs.buffered]
        have := ih (i + 1) r1 r' hc1 he1 (by rw [hs.po]; exact hD) (by rw [hs.pos]; exact hpos) (by rw [hs.tags]; exact hlay)
          (by rw [hs.tags]; exact hmem') (by rw [hs.tags]; omega) (by omega)
          (fun k t hk hd => by rw [hs.exl, hl1]; exact hgood k t (by omega) hd)
          (fun k k' t t' hk hk' => hdisj k k' t t' (by omega) (by omega)) h
        obtain ⟨a, b, c, d, e1, f, g, hh⟩ := this
        exact ⟨a, b, by rw [c, hs.po], d, by rw [e1, hs.exl], by rw [f, hl1], g,
          fun x hx => by obtain ⟨k, hk, hr⟩ := hh x hx; exact ⟨k, by omega, hr⟩⟩
      · rename_i hemb
        have hemb' : t.isEmbedded = false := by simpa using hemb
        have hout := hg.2.2.2 hemb'
        have hsz := size_pos_of_outofline t hg.1 hemb'
        have hd : ∀ x ∈ r.tags, Disj t x ∧ 0 < x.size := by
          intro x hx
          obtain ⟨k, hk, hxe, hxo⟩ := hmem x hx
          have hgx := hgood k x (by omega) hxe
          exact ⟨hdisj i k t x (by omega) (by omega) (by omega) hent hxe hemb' hxo, size_pos_of_outofline x hgx.1 hxo⟩
        have ha := addTag_lay r t hlay (by omega) (by unfold tagMaxCount; omega) hsz hd
        obtain ⟨hl2, hm2, hlen2, hs⟩ := ha
        have hc1 : Coh F (addTag r t) := ⟨by have := hs.rest; have := hs.po; simp only at *; rw [‹(addTag r t).rest = r.rest›, ‹(addTag r t).po = r.po›]; exact hc.rest, by have := hs.po; simp only at this; rw [this]; exact hc.le, hc.small⟩
        have hpo1 : (addTag r t).po = r.po := hs.po
        have hexl1 : (addTag r t).exifLength = r.exifLength := hs.exl
        have hbuf1 : (addTag r t).buffered = r.buffered := hs.buffered
        have hpos1 : (addTag r t).pos = r.pos := hs.pos
        have hrd1 : (addTag r t).reads = r.reads := hs.reads
        have he1 : Exact F (addTag r t) := by intro x hx; rw [hrd1] at hx; exact he x hx
        have hl1 : readLimit (addTag r t) = readLimit r := by unfold readLimit; rw [hbuf1]
        have hmem1 : ∀ x ∈ (addTag r t).tags, ∃ k, k < i + 1 ∧ entryAt ifd buf k = .ok (some x) ∧ x.isEmbedded = false := by
          intro x hx
          rcases hm2 x hx with rfl | hx
          · exact ⟨i, by omega, hent, hemb'⟩
          · exact hmem' x hx
        have := ih (i + 1) (addTag r t) r' hc1 he1 (by rw [hpo1]; exact hD) (by rw [hpos1]; exact hpos) hl2 hmem1 (by omega) (by omega)
          (fun k t hk hd => by rw [hexl1, hl1]; exact hgood k t (by omega) hd)
          (fun k k' t t' hk hk' => hdisj k k' t t' (by omega) (by omega)) h
        obtain ⟨a, b, c, d, e1, f, g, hh⟩ := this
        exact ⟨a, b, by rw [c, hpo1], d, by rw [e1, hexl1], by rw [f, hl1], g,
          fun x hx => by obtain ⟨k, hk, hr⟩ := hh x hx; exact ⟨k, by omega, hr⟩⟩

end Imeta.Exif
