/-
  C13: the attributes of an array item (`<rdf:li xml:lang="x-default">`): inside rdf:Seq / rdf:Bag / rdf:Alt each attribute is
  handed on as a token of the ARRAY'S property with the attribute's own property as parent.  Copy of attrLoop_exact
  (Lemmas/XmpAttr.lean) for `attrLoop (some pp)`.
-/
import Imeta.Lemmas.XmpDesc
namespace Imeta.Xmp
open Imeta Imeta.Props.C13

/-- the tokens of an item's attributes (newest first) -/
def pushAllSeq (pp : Prop2) : List (Bytes × Attr) → List Tok → List Tok
  | [], acc => acc
  | (_, a) :: l, acc => pushAllSeq pp l (if a.v.isEmpty then acc else { pt := 1, parent := a.prop, self := pp, val := a.v } :: acc)

theorem attrLoop_exact_seq (pp : Prop2) (tag : Tag) (c2 : UInt8) (t : Bytes) : ∀ (l : List (Bytes × Attr)) (f : Nat) (st : St),
    l ≠ [] → l.length < f → st.a = true → st.rest = ser l ++ 62 :: c2 :: t →
    (∀ p ∈ l, (∀ x ∈ p.1, isWs x = true) ∧ p.2.OK) → (∀ p ∈ l.tail, p.1 ≠ []) →
    attrLoop (some pp) f tag st = (.ok tag, { rest := c2 :: t, a := false, toks := pushAllSeq pp l st.toks }) := by
  intro l
  induction l with
  | nil => intro f st h; exact absurd rfl h
  | cons p l ih =>
    intro f st _ hf ha hrest hok hsep
    obtain ⟨ws, a⟩ := p
    have hpa := hok (ws, a) (by simp)
    cases f with
    | zero => simp at hf
    | succ f =>
      unfold attrLoop
      rw [bindOk getA _ st st true (by unfold getA; rw [ha])]
      simp only [if_true]
      cases l with
      | nil =>
        -- the last attribute
        have hr : st.rest = ws ++ (((a.n0 :: a.ns) ++ [58] ++ (a.m0 :: a.name)) ++ ([61, a.q] ++ a.v ++ [a.q, 62, c2] ++ t)) := by
          rw [hrest]; simp [ser, Attr.bytes]
        rw [bindOk _ _ _ _ _ (readAttribute_last tag st ws a.n0 a.ns a.m0 a.name a.v t a.q c2 hpa.1 hpa.2.h0 hpa.2.hstart hpa.2.hns hpa.2.hname hpa.2.hq hpa.2.hv hpa.2.hwin hpa.2.hvwin hr)]
        dsimp only
        show (emit _ >>= fun _ => attrLoop (some pp) f tag) _ = _
        rw [bindOk (emit _) _ _ _ () rfl]
        cases f with
        | zero => simp at hf
        | succ f =>
          unfold attrLoop
          by_cases hv : a.v.isEmpty = true
          · simp only [hv, if_true]
            rw [bindOk getA _ _ _ false rfl]
            simp only [Bool.false_eq_true, if_false, pushAllSeq, hv, if_true]
            rfl
          · simp only [hv, Bool.false_eq_true, if_false]
            rw [bindOk getA _ _ _ false rfl]
            simp only [Bool.false_eq_true, if_false, pushAllSeq, hv]
            rfl
      | cons p2 l' =>
        obtain ⟨ws2, a2⟩ := p2
        have hws2 : ws2 ≠ [] := hsep (ws2, a2) (by simp)
        have hpa2 := hok (ws2, a2) (by simp)
        obtain ⟨w, ws2', rfl⟩ := List.exists_cons_of_ne_nil hws2
        have hw : isWs w = true := hpa2.1 w (by simp)
        -- the two bytes after the closing quote
        have hne : (ws2' ++ a2.bytes ++ ser l' ++ 62 :: c2 :: t : Bytes) ≠ [] := by simp [Attr.bytes]
        obtain ⟨d2, t'', ht''⟩ := List.exists_cons_of_ne_nil hne
        have hr : st.rest = ws ++ (((a.n0 :: a.ns) ++ [58] ++ (a.m0 :: a.name)) ++ ([61, a.q] ++ a.v ++ [a.q, w, d2] ++ t'')) := by
          rw [hrest]
          have : ser ((ws, a) :: (w :: ws2', a2) :: l') ++ 62 :: c2 :: t =
              ws ++ (((a.n0 :: a.ns) ++ [58] ++ (a.m0 :: a.name)) ++ ([61, a.q] ++ a.v ++ [a.q] ++ (w :: (ws2' ++ a2.bytes ++ ser l' ++ 62 :: c2 :: t)))) := by
            simp [ser, Attr.bytes]
          rw [this, ht'']; simp
        have hw62 : w ≠ 62 := by intro h; rw [h] at hw; revert hw; decide
        have hw47 : w ≠ 47 := by intro h; rw [h] at hw; revert hw; decide
        rw [bindOk _ _ _ _ _ (readAttribute_exact tag st ws a.n0 a.ns a.m0 a.name a.v t'' a.q w d2 hpa.1 hpa.2.h0 hpa.2.hstart hpa.2.hns hpa.2.hname hpa.2.hq hpa.2.hv hw62 hw47 hpa.2.hwin hpa.2.hvwin hr)]
        dsimp only
        show (emit _ >>= fun _ => attrLoop (some pp) f tag) _ = _
        rw [bindOk (emit _) _ _ _ () rfl]
        have hrest2 : ([w, d2] ++ t'' : Bytes) = ser ((w :: ws2', a2) :: l') ++ 62 :: c2 :: t := by
          show w :: (d2 :: t'') = _
          rw [← ht'']; simp [ser]
        by_cases hv : a.v.isEmpty = true
        · simp only [hv, if_true]
          rw [ih f { st with rest := [w, d2] ++ t'' } (by simp) (by simp at hf ⊢; omega) ha hrest2
            (fun p hp => hok p (List.mem_cons_of_mem _ hp)) (fun p hp => hsep p (by simp at hp ⊢; exact Or.inr hp))]
          simp only [pushAllSeq, hv, if_true]
        · simp only [hv, Bool.false_eq_true, if_false]
          rw [ih f { rest := [w, d2] ++ t'', a := st.a, toks := { pt := 1, parent := identify (a.n0 :: a.ns) (a.m0 :: a.name), self := pp, val := a.v } :: st.toks }
            (by simp) (by simp at hf ⊢; omega) ha hrest2
            (fun p hp => hok p (List.mem_cons_of_mem _ hp)) (fun p hp => hsep p (by simp at hp ⊢; exact Or.inr hp))]
          simp only [pushAllSeq, hv]
          rfl


/-- an item with attributes (`<rdf:li xml:lang="x-default">v</rdf:li>`): two rounds of the walk; the attributes are handed on
as tokens of the array's property (parent = the attribute's own property), then the item's value -/
theorem readSeqTags_itemA_exact (parent : Tag) (st : St) (ws : Bytes) (e : Elem) (la : List (Bytes × Attr)) (R : Bytes) (f : Nat)
    (hr : st.rest = ws ++ 60 :: ((e.n0 :: e.ns) ++ 58 :: (e.name ++ (ser la ++ 62 :: (e.v ++ e.close ++ R)))))
    (hws : ∀ x ∈ ws, (x == 60) = false) (hwin : ws.length + 128 ≤ W) (ok : e.Item)
    (hla : la ≠ []) (hoka : ∀ p ∈ la, (∀ x ∈ p.1, isWs x = true) ∧ p.1 ≠ [] ∧ p.2.OK)
    (hne : (e.prop == parent.self) = false) :
    readSeqTags parent (f + 2) st =
      readSeqTags parent f { rest := R, a := false, toks := { pt := 2, parent := parent.self, self := parent.parent, val := e.v } :: pushAllSeq parent.parent la st.toks } := by
  rw [readSeqTags_unfold (f + 1) parent]
  obtain ⟨p1, la', rfl⟩ := List.exists_cons_of_ne_nil hla
  obtain ⟨wsa, a1⟩ := p1
  have hp1 := hoka (wsa, a1) (by simp)
  obtain ⟨w, wsa', hwsa0⟩ := List.exists_cons_of_ne_nil hp1.2.1
  have hwsa : wsa = w :: wsa' := hwsa0
  have hw : isWs w = true := hp1.1 w (by show w ∈ wsa; rw [hwsa]; simp)
  obtain ⟨Rw, hRw⟩ : ∃ Rw, ser ((wsa, a1) :: la') ++ 62 :: (e.v ++ e.close ++ R) = w :: Rw := by
    refine ⟨wsa' ++ a1.bytes ++ ser la' ++ 62 :: (e.v ++ e.close ++ R), ?_⟩
    simp [ser, hwsa]
  have hr1 : st.rest = ws ++ 60 :: ((e.n0 :: e.ns) ++ 58 :: (e.name ++ w :: Rw)) := by rw [hr, hRw]
  have h4 : 4 < st.rest.length := by rw [hr]; simp [ser, Attr.bytes]; omega
  rw [bindOk _ _ _ _ _ (readTagHeader_startattr_exact parent st ws e.n0 e.ns e.name Rw w hr1 hw hws hwin ok.h0 ok.hns ok.hname (by have := ok.hfit; omega) h4)]
  have he1 : isEndTag { t := .start, parent := parent.self, self := identify (e.n0 :: e.ns) e.name } parent.self = false := by
    simp [isEndTag]
  simp only [he1, Bool.false_eq_true, if_false, beq_self_eq_true, if_true]
  rw [bindOk (fun st => (.ok st.rest.length, st) : M Nat) _ _ _ _ rfl]
  have hlen : ((wsa, a1) :: la').length < (w :: Rw : Bytes).length + 2 := by
    have := ser_length ((wsa, a1) :: la')
    rw [← hRw]; simp only [List.length_append]; omega
  rw [bindOk _ _ _ _ _ (attrLoop_exact_seq parent.parent { t := .start, parent := parent.self, self := identify (e.n0 :: e.ns) e.name } e.c (e.v' ++ e.close ++ R) ((wsa, a1) :: la') _
    { st with a := true, rest := w :: Rw } (by simp) hlen rfl (by show w :: Rw = _; rw [← hRw]; simp [Elem.v])
    (fun p hp => ⟨(hoka p hp).1, (hoka p hp).2.2⟩) (fun p hp => (hoka p (List.mem_of_mem_tail hp)).2.1))]
  have hrv : ({ rest := e.c :: (e.v' ++ e.close ++ R), a := false, toks := pushAllSeq parent.parent ((wsa, a1) :: la') st.toks } : St).rest =
      (e.c :: e.v') ++ 60 :: ((47 :: ((e.n0 :: e.ns) ++ 58 :: (e.name ++ [62]))) ++ R) := by
    simp [Elem.close]
  rw [bindOk _ _ _ _ _ (readTagValue_any _ e.c e.v' _ ok.hv ok.hc ok.hvwin hrv (by simp [Elem.close]; omega))]
  have hcl : (60 :: ((47 :: ((e.n0 :: e.ns) ++ 58 :: (e.name ++ [62]))) ++ R) : Bytes) = e.close ++ R := rfl
  rw [hcl]
  show (emit { pt := 2, parent := parent.self, self := parent.parent, val := e.v } >>= fun _ => readSeqTags parent (f + 1))
    { rest := e.close ++ R, a := false, toks := pushAllSeq parent.parent ((wsa, a1) :: la') st.toks } = _
  have hemit : ∀ (tk : List Tok), emit { pt := 2, parent := parent.self, self := parent.parent, val := e.v }
      { rest := e.close ++ R, a := false, toks := tk } =
      (.ok (), { rest := e.close ++ R, a := false, toks := { pt := 2, parent := parent.self, self := parent.parent, val := e.v } :: tk }) := by
    intro tk; simp [emit, Elem.v]
  rw [bindOk _ _ _ _ _ (hemit _)]
  rw [readSeqTags_unfold f parent]
  have hr2 : (e.close ++ R : Bytes) = [] ++ 60 :: 47 :: ((e.n0 :: e.ns) ++ 58 :: (e.name ++ 62 :: R)) := by simp [Elem.close]
  rw [bindOk _ _ _ _ _ (readTagHeader_stop_exact parent _ [] e.n0 e.ns e.name R hr2 (by simp) (by unfold W; simp) ok.hns ok.hname ok.hfit)]
  unfold Elem.prop at hne
  have he2 : isEndTag { t := .stop, parent := parent.self, self := identify (e.n0 :: e.ns) e.name } parent.self = false := by
    simp [isEndTag, hne]
  simp only [he2, Bool.false_eq_true, if_false]
  have hts : ((TagT.stop == TagT.start) = true) = False := by simp
  simp only [hts, if_false]


/-- an item as written: with `la = []` this is `Elem.bytes` -/
def itemBytes (la : List (Bytes × Attr)) (e : Elem) : Bytes :=
  60 :: ((e.n0 :: e.ns) ++ 58 :: (e.name ++ (ser la ++ 62 :: (e.v ++ e.close))))

def serIA : List (Bytes × List (Bytes × Attr) × Elem) → Bytes
  | [] => []
  | (ws, la, e) :: l => ws ++ itemBytes la e ++ serIA l

def pushIA (parent : Tag) : List (Bytes × List (Bytes × Attr) × Elem) → List Tok → List Tok
  | [], acc => acc
  | (_, la, e) :: l, acc => pushIA parent l ({ pt := 2, parent := parent.self, self := parent.parent, val := e.v } :: pushAllSeq parent.parent la acc)

/-- **Array items with or without attributes, in document order** -/
theorem readSeqTags_itemsA_exact (parent : Tag) (wsE : Bytes) (n0 : UInt8) (ns name R : Bytes)
    (hwsE : ∀ x ∈ wsE, (x == 60) = false) (hwinE : wsE.length + 128 ≤ W)
    (hnsE : ∀ x ∈ n0 :: ns, (x == 58) = false) (hnameE : ∀ x ∈ name, isTerm x = false) (hfitE : ns.length + name.length + 5 ≤ 128)
    (hself : identify (n0 :: ns) name = parent.self) :
    ∀ (l : List (Bytes × List (Bytes × Attr) × Elem)) (f : Nat) (st : St),
    st.rest = serIA l ++ (wsE ++ 60 :: 47 :: ((n0 :: ns) ++ 58 :: (name ++ 62 :: R))) →
    (∀ p ∈ l, (∀ x ∈ p.1, (x == 60) = false) ∧ p.1.length + 128 ≤ W ∧ p.2.2.Item ∧ (p.2.2.prop == parent.self) = false ∧
      (∀ q ∈ p.2.1, (∀ x ∈ q.1, isWs x = true) ∧ q.1 ≠ [] ∧ q.2.OK)) →
    readSeqTags parent (f + 1 + 2 * l.length) st = (.ok (), { rest := R, a := false, toks := pushIA parent l st.toks }) := by
  intro l
  induction l with
  | nil =>
    intro f st hr _
    simp only [List.length_nil, Nat.mul_zero, Nat.add_zero, pushIA]
    rw [readSeqTags_unfold f parent]
    rw [bindOk _ _ _ _ _ (readTagHeader_stop_exact parent st wsE n0 ns name R (by rw [hr]; simp [serIA]) hwsE hwinE hnsE hnameE hfitE)]
    have he : isEndTag { t := .stop, parent := parent.self, self := identify (n0 :: ns) name } parent.self = true := by
      simp [isEndTag, hself]
    simp only [he, if_true]
    rfl
  | cons p l ih =>
    intro f st hr hok
    obtain ⟨ws, la, e⟩ := p
    have hp := hok (ws, la, e) (by simp)
    have hfuel : f + 1 + 2 * ((ws, la, e) :: l).length = (f + 1 + 2 * l.length) + 2 := by simp; omega
    rw [hfuel]
    by_cases hla : la = []
    · subst hla
      rw [readSeqTags_item_exact parent st ws e (serIA l ++ (wsE ++ 60 :: 47 :: ((n0 :: ns) ++ 58 :: (name ++ 62 :: R)))) (f + 1 + 2 * l.length)
        (by rw [hr]; simp [serIA, itemBytes, Elem.bytes, ser]) hp.1 hp.2.1 hp.2.2.1 hp.2.2.2.1]
      rw [ih f _ rfl (fun q hq => hok q (List.mem_cons_of_mem _ hq))]
      rfl
    · rw [readSeqTags_itemA_exact parent st ws e la (serIA l ++ (wsE ++ 60 :: 47 :: ((n0 :: ns) ++ 58 :: (name ++ 62 :: R)))) (f + 1 + 2 * l.length)
        (by rw [hr]; simp [serIA, itemBytes]) hp.1 hp.2.1 hp.2.2.1 hla hp.2.2.2.2 hp.2.2.2.1]
      rw [ih f _ rfl (fun q hq => hok q (List.mem_cons_of_mem _ hq))]
      rfl


/-- **An array property whose items may carry attributes, whole.**  `ws0 <P> ws1 <A> items wsE </A> ws2 </P>` with A one of rdf:Seq / rdf:Bag / rdf:Alt and P a
property that is neither an array nor the root: one round of readTag reports exactly the items — one token each, property P,
parent A, exactly the value, in document order — consumes exactly the element, and goes on behind it. -/
theorem readTag_arrayA_exact (parent : Tag) (st : St) (P A : Name) (ws0 ws1 wsE ws2 R : Bytes) (l : List (Bytes × List (Bytes × Attr) × Elem)) (f : Nat)
    (hr : st.rest = ws0 ++ P.openT (ws1 ++ A.openT (serIA l ++ (wsE ++ A.closeT (ws2 ++ P.closeT R)))))
    (hP : P.OK) (hA : A.OK)
    (hws0 : ∀ x ∈ ws0, (x == 60) = false) (hwin0 : ws0.length + 128 ≤ W)
    (hws1 : ∀ x ∈ ws1, isWs x = true) (hwin1 : ws1.length < 512)
    (hwsE : ∀ x ∈ wsE, (x == 60) = false) (hwinE : wsE.length + 128 ≤ W)
    (hws2 : ∀ x ∈ ws2, (x == 60) = false) (hwin2 : ws2.length + 128 ≤ W)
    (hPseq : (P.prop == rdfSeq || P.prop == rdfAlt || P.prop == rdfBag) = false) (hProot : (P.prop == rootProp) = false)
    (hAseq : (A.prop == rdfSeq || A.prop == rdfAlt || A.prop == rdfBag) = true)
    (hok : ∀ p ∈ l, (∀ x ∈ p.1, (x == 60) = false) ∧ p.1.length + 128 ≤ W ∧ p.2.2.Item ∧ (p.2.2.prop == A.prop) = false ∧
      (∀ q ∈ p.2.1, (∀ x ∈ q.1, isWs x = true) ∧ q.1 ≠ [] ∧ q.2.OK)) :
    readTag (f + 3 + 2 * l.length) parent st =
      readTag (f + 2 + 2 * l.length) parent
        { rest := R, a := false, toks := pushIA { t := .start, parent := P.prop, self := A.prop } l st.toks } := by
  have hF : f + 3 + 2 * l.length = (f + 1 + 2 * l.length) + 1 + 1 := by omega
  have hF2 : f + 2 + 2 * l.length = (f + 1 + 2 * l.length) + 1 := by omega
  rw [hF, hF2]
  generalize hFdef : f + 1 + 2 * l.length = F
  -- the start tag of the property
  rw [readTag_unfold (F + 1) parent]
  have h4 : 4 < st.rest.length := by rw [hr]; simp [Name.openT, Name.closeT]; omega
  rw [bindOk _ _ _ _ _ (readTagHeader_start_exact parent st ws0 P.n0 P.ns P.name _ (by rw [hr]; rfl) hws0 hwin0 hP.h0 hP.hns hP.hname (by have := hP.hfit; omega) h4)]
  have he1 : isEndTag { t := .start, parent := parent.self, self := identify (P.n0 :: P.ns) P.name } parent.self = false := by
    simp [isEndTag]
  simp only [he1, Bool.false_eq_true, if_false]
  rw [bindOk (fun st => (.ok st.rest.length, st) : M Nat) _ _ _ _ rfl]
  rw [bindOk _ _ _ _ _ (attrLoop_noattr none _ _ _ rfl)]
  unfold Name.prop at hPseq hProot hAseq
  simp only [beq_self_eq_true, if_true, hPseq, Bool.false_eq_true, if_false]
  -- its value is empty: the array follows
  rw [bind_assoc3, bindOk _ _ _ _ _ (readTagValue_empty 7 _ ws1 _ rfl hws1 hwin1 (by simp [Name.openT, Name.closeT]; omega))]
  rw [bind_assoc3]
  have hemit : ∀ (s0 : St), emit { pt := 2, parent := parent.self, self := identify (P.n0 :: P.ns) P.name, val := [] } s0 = (.ok (), s0) := by
    intro s0; simp [emit]
  rw [bindOk _ _ _ _ _ (hemit _)]
  dsimp only
  -- the inner round: the array
  rw [readTag_unfold F { t := .start, parent := parent.self, self := identify (P.n0 :: P.ns) P.name }, bind_assoc3]
  rw [bindOk _ _ _ _ _ (readTagHeader_start_exact { t := .start, parent := parent.self, self := identify (P.n0 :: P.ns) P.name }
    _ [] A.n0 A.ns A.name _ rfl (by simp) (by unfold W; simp)
    hA.h0 hA.hns hA.hname (by have := hA.hfit; omega) (by simp [Name.closeT]; omega))]
  have he2 : isEndTag { t := .start, parent := identify (P.n0 :: P.ns) P.name, self := identify (A.n0 :: A.ns) A.name } (identify (P.n0 :: P.ns) P.name) = false := by
    simp [isEndTag]
  dsimp only
  simp only [he2, Bool.false_eq_true, if_false, bind_assoc3]
  rw [bindOk (fun st => (.ok st.rest.length, st) : M Nat) _ _ _ _ rfl]
  rw [bindOk _ _ _ _ _ (attrLoop_noattr none _ _ _ rfl)]
  simp only [beq_self_eq_true, if_true, hAseq, bind_assoc3]
  -- the items and the array's stop tag
  subst hFdef
  have hself : identify (A.n0 :: A.ns) A.name = ({ t := .start, parent := identify (P.n0 :: P.ns) P.name, self := identify (A.n0 :: A.ns) A.name } : Tag).self := rfl
  rw [bindOk _ _ _ _ _ (readSeqTags_itemsA_exact { t := .start, parent := identify (P.n0 :: P.ns) P.name, self := identify (A.n0 :: A.ns) A.name }
    wsE A.n0 A.ns A.name (ws2 ++ P.closeT R) hwsE hwinE hA.hns hA.hname hA.hfit hself l f _ rfl hok)]
  rw [bindOk (pure _) _ _ _ _ rfl]
  have hrs1 : isRootStop { t := .start, parent := identify (P.n0 :: P.ns) P.name, self := identify (A.n0 :: A.ns) A.name } = false := by
    simp [isRootStop]
  simp only [hrs1, Bool.false_eq_true, if_false]
  -- the stop tag of the property, read by the next round of the inner loop
  have hF3 : f + 1 + 2 * l.length = (f + 2 * l.length) + 1 := by omega
  rw [hF3, readTag_unfold (f + 2 * l.length) { t := .start, parent := parent.self, self := identify (P.n0 :: P.ns) P.name }]
  simp only [bind_assoc3]
  rw [bindOk _ _ _ _ _ (readTagHeader_stop_exact { t := .start, parent := parent.self, self := identify (P.n0 :: P.ns) P.name }
    _ ws2 P.n0 P.ns P.name R rfl hws2 hwin2 hP.hns hP.hname hP.hfit)]
  have he3 : isEndTag { t := .stop, parent := identify (P.n0 :: P.ns) P.name, self := identify (P.n0 :: P.ns) P.name } (identify (P.n0 :: P.ns) P.name) = true := by
    simp [isEndTag]
  dsimp only
  simp only [he3, if_true]
  rw [bindOk (pure _) _ _ _ _ rfl]
  have hrs2 : isRootStop { t := .stop, parent := identify (P.n0 :: P.ns) P.name, self := identify (P.n0 :: P.ns) P.name } = false := by
    simp [isRootStop, hProot]
  simp only [hrs2, Bool.false_eq_true, if_false]
  rfl




/-- what readTagHeader does once the start of the tag is found, when "/>" follows the name: a self-closing tag -/
theorem readTagHeader_after_solo (parent : Tag) (st : St) (t : TagT) (buf : Bytes) (i : Nat) (NS name X R : Bytes)
    (hf : findTagStart 16 128 0 st = (.ok (t, buf, i), st))
    (hb : buf = NS ++ 58 :: (name ++ 47 :: 62 :: X))
    (hns : ∀ x ∈ NS, (x == 58) = false) (hname : ∀ x ∈ name, isTerm x = false)
    (hdrop : st.rest.drop (NS.length + 1 + name.length + 2 + i) = R) :
    readTagHeader parent st = (.ok { t := .solo, parent := parent.self, self := identify NS name }, { st with a := false, rest := R }) := by
  unfold readTagHeader
  rw [bindOk _ _ _ _ _ hf]
  simp only [hb, parseTagName_exact NS name (62 :: X) 47 hns hname (by decide)]
  have e : (NS ++ 58 :: (name ++ 47 :: 62 :: X) : Bytes) = (NS ++ [58] ++ name) ++ 47 :: 62 :: X := by simp
  have hl : (NS ++ [58] ++ name : Bytes).length = NS.length + 1 + name.length := by simp; omega
  have hc : (NS ++ 58 :: (name ++ 47 :: 62 :: X) : Bytes)[NS.length + 1 + name.length]? = some 47 := by
    rw [e, ← hl]; simp
  have hc1 : (NS ++ 58 :: (name ++ 47 :: 62 :: X) : Bytes)[NS.length + 1 + name.length + 1]? = some 62 := by
    rw [e, ← hl, List.getElem?_append_right (by omega)]; simp
  rw [bindOk _ _ _ _ _ (at_ok _ _ 47 st hc)]
  simp only [show ((47 : UInt8) == 62) = false by decide, show isWs 47 = false by decide, Bool.false_eq_true, if_false]
  rw [bindOk _ _ _ _ _ (at_ok _ _ 62 st hc1)]
  simp only [beq_self_eq_true, if_true]
  show (setA false >>= fun _ => discard (NS.length + 1 + name.length + 2 + i) >>= fun _ => pure _) st = _
  simp only [setA, discard, bind, pure, hdrop]

/-- **Self-closing tag.** `<ns:name/>` -/
theorem readTagHeader_solo_exact (parent : Tag) (st : St) (ws : Bytes) (n0 : UInt8) (ns name R : Bytes)
    (hr : st.rest = ws ++ 60 :: ((n0 :: ns) ++ 58 :: (name ++ 47 :: 62 :: R)))
    (hws : ∀ x ∈ ws, (x == 60) = false) (hwin : ws.length + 128 ≤ W)
    (h0 : n0 ≠ 47 ∧ n0 ≠ 63) (hns : ∀ x ∈ n0 :: ns, (x == 58) = false) (hname : ∀ x ∈ name, isTerm x = false)
    (hfit : ns.length + name.length + 5 ≤ 128) :
    readTagHeader parent st = (.ok { t := .solo, parent := parent.self, self := identify (n0 :: ns) name }, { st with a := false, rest := R }) := by
  have hr' : st.rest = ws ++ 60 :: n0 :: (ns ++ 58 :: (name ++ 47 :: 62 :: R)) := by rw [hr]; simp
  have h4 : 4 < st.rest.length := by rw [hr]; simp; omega
  obtain ⟨m, hm, hf⟩ := findTagStart_exact ws (ns ++ 58 :: (name ++ 47 :: 62 :: R)) n0 hws hwin 15 128 0 st hr' h4 (Nat.zero_le _) (by omega) (by unfold W at hwin; omega)
  have hc1 : (n0 == 47) = false := by simp [h0.1]
  have hc2 : (n0 == 63) = false := by simp [h0.2]
  unfold tagStartResult at hf
  rw [hc1, hc2] at hf
  simp only [Bool.false_eq_true, if_false] at hf
  have hL : st.rest.length = ws.length + 1 + ((n0 :: ns) ++ 58 :: (name ++ 47 :: 62 :: R)).length := by rw [hr]; simp; omega
  have hAl : ((n0 :: ns) ++ 58 :: (name ++ [47, 62]) : Bytes).length = ns.length + name.length + 4 := by simp; omega
  have hbuf : (st.rest.take m).drop (ws.length + 1) = (n0 :: ns) ++ 58 :: (name ++ 47 :: 62 :: (R.take (m - (ws.length + 1) - (ns.length + name.length + 4)))) := by
    have e : st.rest = (ws ++ [60]) ++ ((n0 :: ns) ++ 58 :: (name ++ [47, 62])) ++ R := by rw [hr]; simp
    have hmm : ws.length + 1 + (ns.length + name.length + 4) ≤ m := by
      have : ws.length + 1 + (ns.length + name.length + 4) ≤ st.rest.length := by rw [hL]; simp; omega
      omega
    rw [e, take_drop_prefix _ R m (ws.length + 1) (by omega) (by rw [hAl]; omega) (ws ++ [60]) (by simp), hAl]
    simp
  rw [hbuf] at hf
  refine readTagHeader_after_solo parent st .start _ (ws.length + 1) (n0 :: ns) name _ R hf rfl hns hname ?_
  rw [hr]
  have e : (ws ++ 60 :: ((n0 :: ns) ++ 58 :: (name ++ 47 :: 62 :: R)) : Bytes) = ((ws ++ [60]) ++ ((n0 :: ns) ++ 58 :: (name ++ [47, 62]))) ++ R := by simp
  have hl : ((ws ++ [60]) ++ ((n0 :: ns) ++ 58 :: (name ++ [47, 62])) : Bytes).length = (n0 :: ns).length + 1 + name.length + 2 + (ws.length + 1) := by
    simp; omega
  rw [e, ← hl, List.drop_left]

/-- a self-closing element without attributes (an empty array `<rdf:Bag/>`, an unknown empty property) is stepped over: one
round of readTag, nothing reported -/
theorem readTag_solo_exact (parent : Tag) (st : St) (ws : Bytes) (n : Name) (R : Bytes) (f : Nat)
    (hr : st.rest = ws ++ 60 :: ((n.n0 :: n.ns) ++ 58 :: (n.name ++ 47 :: 62 :: R)))
    (hws : ∀ x ∈ ws, (x == 60) = false) (hwin : ws.length + 128 ≤ W) (ok : n.OK) :
    readTag (f + 1) parent st = readTag f parent { rest := R, a := false, toks := st.toks } := by
  rw [readTag_unfold f parent]
  rw [bindOk _ _ _ _ _ (readTagHeader_solo_exact parent st ws n.n0 n.ns n.name R hr hws hwin ok.h0 ok.hns ok.hname ok.hfit)]
  have he1 : isEndTag { t := .solo, parent := parent.self, self := identify (n.n0 :: n.ns) n.name } parent.self = false := by
    simp [isEndTag]
  simp only [he1, Bool.false_eq_true, if_false]
  rw [bindOk (fun st => (.ok st.rest.length, st) : M Nat) _ _ _ _ rfl]
  rw [bindOk _ _ _ _ _ (attrLoop_noattr none _ _ _ rfl)]
  have hts : ((TagT.solo == TagT.start) = true) = False := by simp
  simp only [hts, if_false]
  rw [bindOk (pure _) _ _ _ _ rfl]
  have hrs : isRootStop { t := .solo, parent := parent.self, self := identify (n.n0 :: n.ns) n.name } = false := by
    simp [isRootStop]
  simp only [hrs, Bool.false_eq_true, if_false]

end Imeta.Xmp
