/-
  C02 — the header search asks its source for at most len + 2·S bytes (S = capacity of the bufio.Reader), and its
  outcome is that of the scan model whatever the fill level.
-/
import Imeta.Model.TiffReq
namespace Imeta.Tiff
open Imeta

/-- the budget: what was requested, what the source still holds, and one buffer for the Read that exhausts the source
plus one for the Read that finds it empty -/
def budget (S : Nat) (s : Cnt) : Nat := s.req + s.srcLeft + S * (if s.srcLeft = 0 then 1 else 2)

theorem peekC_spec (S : Nat) (s : Cnt) (n : Nat) (hn : n ≤ S) (hS : s.buffered ≤ S) (s1 : Cnt) (ok : Bool)
    (h : peekC S s n = (s1, ok)) :
    (ok = true ↔ n ≤ s.buffered + s.srcLeft) ∧
    s1.buffered + s1.srcLeft = s.buffered + s.srcLeft ∧ s1.buffered ≤ S ∧
    (ok = true → n ≤ s1.buffered ∧ budget S s1 ≤ budget S s) ∧
    (ok = false → s1.req ≤ budget S s) := by
  unfold peekC at h
  split at h
  · next h1 =>
    simp only [Prod.mk.injEq] at h
    obtain ⟨rfl, rfl⟩ := h
    exact ⟨⟨fun _ => by omega, fun _ => rfl⟩, rfl, hS, fun _ => ⟨h1, Nat.le_refl _⟩, fun hc => (nomatch hc)⟩
  · next h1 =>
    dsimp only at h
    split at h
    · next h2 =>
      simp only [Prod.mk.injEq] at h
      obtain ⟨rfl, rfl⟩ := h
      have hz : s.srcLeft = 0 := by omega
      refine ⟨⟨fun hc => (nomatch hc), fun hc => (by omega)⟩, rfl, hS, fun hc => (nomatch hc), fun _ => ?_⟩
      unfold budget
      simp only [hz, if_true]
      omega
    · next h2 =>
      have hne : s.srcLeft ≠ 0 := by omega
      split at h
      · next h3 =>
        simp only [Prod.mk.injEq] at h
        obtain ⟨rfl, rfl⟩ := h
        refine ⟨⟨fun _ => by omega, fun _ => rfl⟩, by dsimp only; omega, by dsimp only; omega, fun _ => ⟨h3, ?_⟩, fun hc => (nomatch hc)⟩
        unfold budget
        dsimp only
        simp only [hne, if_false]
        split <;> omega
      · next h3 =>
        simp only [Prod.mk.injEq] at h
        obtain ⟨rfl, rfl⟩ := h
        refine ⟨⟨fun hc => (nomatch hc), fun hc => (by omega)⟩, by dsimp only; omega, by dsimp only; omega, fun hc => (nomatch hc), fun _ => ?_⟩
        unfold budget
        dsimp only
        simp only [hne, if_false]
        omega

/-- the counters do not change what the scan finds -/
theorem scanC_outcome (S : Nat) (hS : headerLength ≤ S) : ∀ (fuel : Nat) (b : Bytes) (d : Nat) (s : Cnt),
    s.buffered + s.srcLeft = b.length → s.buffered ≤ S → (scanC S fuel b d s).1 = scan fuel b d := by
  intro fuel
  induction fuel with
  | zero => intro b d s _ _; rfl
  | succ fuel ih =>
    intro b d s hinv hb
    unfold scanC scan
    cases hp : peekC S s headerLength with
    | mk s1 ok =>
      obtain ⟨hok, hsum, hle, hT, _⟩ := peekC_spec S s headerLength hS hb s1 ok hp
      cases ok with
      | false =>
        have : ¬ headerLength ≤ s.buffered + s.srcLeft := fun h => by have := hok.2 h; cases this
        have hlt : lenLt b headerLength = true := by unfold lenLt; simp; omega
        simp only [hlt, if_true]
      | true =>
        have h32 : headerLength ≤ b.length := by have := hok.1 rfl; omega
        have hlt : lenLt b headerLength = false := by unfold lenLt; simp; omega
        simp only [hlt, Bool.false_eq_true, if_false]
        have hb1 := (hT rfl).1
        unfold headerLength at hb1 h32
        split
        · rfl
        · split
          · exact ih _ _ _ (by simp only [discardC, List.length_drop]; omega) (by simp only [discardC]; omega)
          · exact ih _ _ _ (by simp only [discardC, List.length_drop]; omega) (by simp only [discardC]; omega)

/-- **the bytes asked of the source**: never more than the budget of the state the scan starts in -/
theorem scanC_req (S : Nat) (hS : headerLength ≤ S) : ∀ (fuel : Nat) (b : Bytes) (d : Nat) (s : Cnt),
    s.buffered ≤ S → (scanC S fuel b d s).2.req ≤ budget S s := by
  intro fuel
  induction fuel with
  | zero => intro b d s _; unfold scanC budget; dsimp only; omega
  | succ fuel ih =>
    intro b d s hb
    unfold scanC
    cases hp : peekC S s headerLength with
    | mk s1 ok =>
      obtain ⟨_, _, hle, hT, hF⟩ := peekC_spec S s headerLength hS hb s1 ok hp
      cases ok with
      | false => exact hF rfl
      | true =>
        have hbud := (hT rfl).2
        dsimp only
        have hd : ∀ k, budget S (discardC s1 k) = budget S s1 := fun k => rfl
        split
        · unfold budget at hbud ⊢; dsimp only; omega
        · split
          · exact Nat.le_trans (ih _ _ _ (by simp only [discardC]; omega)) (by rw [hd]; exact hbud)
          · exact Nat.le_trans (ih _ _ _ (by simp only [discardC]; omega)) (by rw [hd]; exact hbud)

end Imeta.Tiff
