/-
  C03, part 7e: Make (IFD0, 0x010f) end to end: the record's make string and make enum are the table lookup of the
  value bytes (the library's CameraMakeFromString / String tables are parameters of the model, regenerated facts tie them).
-/
import Imeta.Lemmas.ExifField4
namespace Imeta.Exif
open Imeta

set_option maxRecDepth 100000 in
theorem make_ifd0 (tb : Tables) (ex : Rec) (t : Tag) (buf : Bytes) (err : Option ErrKind)
    (hk : ¬(t.id = 0x010f)) : KF (fun e => (e.make, e.cameraMake)) ex (parseIfd0V tb ex t buf err) := by
  have hk : ¬(True ∧ t.id = 0x010f) := fun h => hk h.2
  unfold parseIfd0V
  kf_walk

set_option maxRecDepth 100000 in
theorem make_exif (ex : Rec) (t : Tag) (buf : Bytes) (err : Option ErrKind) :
    KF (fun e => (e.make, e.cameraMake)) ex (parseExifIfdV ex t buf err) := by
  unfold parseExifIfdV
  kf_walk0

set_option maxRecDepth 100000 in
theorem make_gps (ex : Rec) (t : Tag) (buf : Bytes) (err : Option ErrKind) :
    KF (fun e => (e.make, e.cameraMake)) ex (parseGpsIfdV ex t buf err) := by
  unfold parseGpsIfdV
  kf_walk0

theorem make_other (tb : Tables) (ex : Rec) (t : Tag) (buf : Bytes) (err : Option ErrKind)
    (hk : ¬(t.ifd = ifd0 ∧ t.id = 0x010f)) : KF (fun e => (e.make, e.cameraMake)) ex (parseTagV tb ex t buf err) := by
  unfold parseTagV
  apply KF.ite
  · intro h0; exact make_ifd0 tb ex t buf err (fun e => hk ⟨h0, e⟩)
  · intro _
    apply KF.ite (fun _ => make_exif ex t buf err)
    intro _
    exact KF.ite (fun _ => make_gps ex t buf err) (fun _ => KF.ok rfl)

/-- what the Make entry makes of its value bytes -/
def makeOf (tb : Tables) (s : Bytes) : Bytes × Nat :=
  match tb.makeOfString s with
  | some mk => (tb.makeName mk, mk)
  | none => (s, 0)

theorem make_writer (tb : Tables) (ex ex' : Rec) (t : Tag) (buf : Bytes)
    (h0 : t.ifd = ifd0) (hid : t.id = 0x010f) (hemb : t.isEmbedded = false) (hasc : isASCII t = true)
    (h : parseTagV tb ex t buf none = .ok ex') : (ex'.make, ex'.cameraMake) = makeOf tb (trimNUL buf) := by
  unfold parseTagV at h
  rw [if_pos h0] at h
  unfold parseIfd0V at h
  have e : t.id = 271 := hid
  simp only [e, if_true] at h
  obtain ⟨s, hs, h⟩ := bind_ok h
  have hs' : s = trimNUL buf := by
    unfold parseBytesV at hs
    rw [if_neg (by simp [hemb]), if_pos hasc] at hs
    simp only [Option.isSome_none, Bool.and_false, Bool.false_eq_true, if_false, Outcome.ok.injEq] at hs
    exact hs.symm
  unfold makeOf
  rw [← hs']
  split at h
  · rename_i mk hm
    simp only [Outcome.ok.injEq] at h
    rw [← h, hm]; rfl
  · rename_i hm
    simp only [Outcome.ok.injEq] at h
    rw [← h, hm]; rfl

/-- **Make, end to end**: the make string and enum are the table lookup of F[a.off, a.off+a.size) minus padding -/
theorem make_exact {tb : Tables} {ex0 : Rec} {F : Bytes} {r : R} (he : Exact tb ex0 F r) (pre post : List Tag) (a : Tag)
    (hsplit : r.parsed = pre ++ a :: post) (h0 : a.ifd = ifd0) (hid : a.id = 0x010f) (hemb : a.isEmbedded = false)
    (hasc : isASCII a = true) (hpost : ∀ t ∈ post, ¬(t.ifd = ifd0 ∧ t.id = 0x010f)) :
    (r.ex.make, r.ex.cameraMake) = makeOf tb (trimNUL (slice F a)) := by
  have href := he.ref
  rw [hsplit] at href
  obtain ⟨exPre, exA, _, hA, hf⟩ := idealRun_last tb F (fun e => (e.make, e.cameraMake)) (fun t => t.ifd = ifd0 ∧ t.id = 0x010f)
    (fun ex t hk => make_other tb ex t (slice F t) none hk) pre a post ex0 r.ex hpost href
  rw [hf]
  exact make_writer tb exPre exA a (slice F a) h0 hid hemb hasc hA

end Imeta.Exif
