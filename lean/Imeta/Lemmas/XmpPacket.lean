/-
  C13: the wrapper step - an element with attributes whose content is handled by an arbitrary, separately proved walk
  (used for rdf:RDF around rdf:Description, and for rdf:Description around its children) - and the whole packet.
-/
import Imeta.Lemmas.XmpRoot
namespace Imeta.Xmp
open Imeta Imeta.Props.C13

/-- **An element with attributes around anything (the wrapper step).**  `ws0 <D attrs> wsV children ws2 </D>`: D a property that is
neither an array nor the root (rdf:Description); `attrs` a non-empty attribute list as in C13_attribute_list_exact, each
attribute behind at least one white-space byte; `children` a list of simple elements as in C13_element_list_exact.  One
round of readTag reports exactly: one token per attribute with a non-empty value, then one token per element — parent D,
property `identify ns name`, exactly the value — in document order; consumes exactly the element; and goes on behind it. -/
theorem readTag_wrapper_exact (parent : Tag) (st : St) (D : Name) (ws0 wsV X ws2 R : Bytes)
    (la : List (Bytes × Attr)) (n : Nat) (K : List Tok → List Tok) (f : Nat)
    (hr : st.rest = ws0 ++ 60 :: ((D.n0 :: D.ns) ++ 58 :: (D.name ++ (ser la ++ 62 :: (wsV ++ 60 :: X)))))
    (hD : D.OK) (hDseq : (D.prop == rdfSeq || D.prop == rdfAlt || D.prop == rdfBag) = false) (hDroot : (D.prop == rootProp) = false)
    (hws0 : ∀ x ∈ ws0, (x == 60) = false) (hwin0 : ws0.length + 128 ≤ W)
    (hla : la ≠ []) (hoka : ∀ p ∈ la, (∀ x ∈ p.1, isWs x = true) ∧ p.1 ≠ [] ∧ p.2.OK)
    (hwsV : ∀ x ∈ wsV, isWs x = true) (hwinV : wsV.length < 512)
    (hkids : ∀ toks0, readTag (f + 1 + n) { t := .start, parent := parent.self, self := D.prop } { rest := 60 :: X, a := false, toks := toks0 } =
      readTag (f + 1) { t := .start, parent := parent.self, self := D.prop } { rest := ws2 ++ D.closeT R, a := false, toks := K toks0 })
    (hXlen : 5 ≤ (60 :: X : Bytes).length)
    (hws2 : ∀ x ∈ ws2, (x == 60) = false) (hwin2 : ws2.length + 128 ≤ W) :
    readTag (f + 2 + n) parent st =
      readTag (f + 1 + n) parent { rest := R, a := false, toks := K (pushAll D.prop la st.toks) } := by
  have hF : f + 2 + n = (f + 1 + n) + 1 := by omega
  rw [hF]
  -- the first attribute's white space starts right behind the name
  obtain ⟨p1, la', rfl⟩ := List.exists_cons_of_ne_nil hla
  obtain ⟨wsa, a1⟩ := p1
  have hp1 := hoka (wsa, a1) (by simp)
  obtain ⟨w, wsa', hwsa0⟩ := List.exists_cons_of_ne_nil hp1.2.1
  have hwsa : wsa = w :: wsa' := hwsa0
  have hw : isWs w = true := hp1.1 w (by show w ∈ wsa; rw [hwsa]; simp)
  obtain ⟨Rw, hRw⟩ : ∃ Rw, ser ((wsa, a1) :: la') ++ 62 :: (wsV ++ 60 :: X) = w :: Rw := by
    refine ⟨wsa' ++ a1.bytes ++ ser la' ++ 62 :: (wsV ++ 60 :: X), ?_⟩
    simp [ser, hwsa]
  rw [readTag_unfold (f + 1 + n) parent]
  have hr1 : st.rest = ws0 ++ 60 :: ((D.n0 :: D.ns) ++ 58 :: (D.name ++ w :: Rw)) := by rw [hr, hRw]
  have h4 : 4 < st.rest.length := by rw [hr]; simp [ser, Attr.bytes]; omega
  rw [bindOk _ _ _ _ _ (readTagHeader_startattr_exact parent st ws0 D.n0 D.ns D.name Rw w hr1 hw hws0 hwin0 hD.h0 hD.hns hD.hname (by have := hD.hfit; omega) h4)]
  have he1 : isEndTag { t := .start, parent := parent.self, self := identify (D.n0 :: D.ns) D.name } parent.self = false := by
    simp [isEndTag]
  simp only [he1, Bool.false_eq_true, if_false]
  rw [bindOk (fun st => (.ok st.rest.length, st) : M Nat) _ _ _ _ rfl]
  -- the attributes
  obtain ⟨c2, t, hct⟩ := List.exists_cons_of_ne_nil (show (wsV ++ 60 :: X : Bytes) ≠ [] by simp)
  have hlen : ((wsa, a1) :: la').length < (w :: Rw : Bytes).length + 2 := by
    have := ser_length ((wsa, a1) :: la')
    rw [← hRw]; simp only [List.length_append]; omega
  rw [bindOk _ _ _ _ _ (attrLoop_exact { t := .start, parent := parent.self, self := identify (D.n0 :: D.ns) D.name } c2 t ((wsa, a1) :: la') _
    { st with a := true, rest := w :: Rw } (by simp) hlen rfl (by show w :: Rw = _; rw [← hRw, hct])
    (fun p hp => ⟨(hoka p hp).1, (hoka p hp).2.2⟩) (fun p hp => (hoka p (List.mem_of_mem_tail hp)).2.1))]
  unfold Name.prop at hDseq hDroot hkids
  simp only [beq_self_eq_true, if_true, hDseq, Bool.false_eq_true, if_false, bind_assoc3]
  -- the value of the Description itself is empty: its children follow
  rw [bindOk _ _ _ _ _ (readTagValue_empty 7 _ wsV X (by show c2 :: t = _; rw [hct]) hwsV hwinV (by show 4 < (c2 :: t : Bytes).length; rw [← hct]; simp at hXlen ⊢; omega))]
  have hemit : ∀ (s0 : St), emit { pt := 2, parent := parent.self, self := identify (D.n0 :: D.ns) D.name, val := [] } s0 = (.ok (), s0) := by
    intro s0; simp [emit]
  rw [bindOk _ _ _ _ _ (hemit _)]
  dsimp only
  -- the children
  rw [bind_eq_of_eq (hkids _)]
  -- the stop tag of the Description
  rw [readTag_unfold f { t := .start, parent := parent.self, self := identify (D.n0 :: D.ns) D.name }]
  simp only [bind_assoc3]
  rw [bindOk _ _ _ _ _ (readTagHeader_stop_exact { t := .start, parent := parent.self, self := identify (D.n0 :: D.ns) D.name }
    _ ws2 D.n0 D.ns D.name R rfl hws2 hwin2 hD.hns hD.hname hD.hfit)]
  have he3 : isEndTag { t := .stop, parent := identify (D.n0 :: D.ns) D.name, self := identify (D.n0 :: D.ns) D.name } (identify (D.n0 :: D.ns) D.name) = true := by
    simp [isEndTag]
  dsimp only
  simp only [he3, if_true]
  rw [bindOk (pure _) _ _ _ _ rfl]
  have hrs2 : isRootStop { t := .stop, parent := identify (D.n0 :: D.ns) D.name, self := identify (D.n0 :: D.ns) D.name } = false := by
    simp [isRootStop, hDroot]
  simp only [hrs2, Bool.false_eq_true, if_false]
  rfl


/-- the root element's name as a `Name` -/
def nRoot : Name := { n0 := 120, ns := [], name := [120, 109, 112, 109, 101, 116, 97] }
theorem nRoot_prop : nRoot.prop = rootProp := by decide +kernel

theorem serJ_length (gs : List Bytes) (T : Bytes) : gs.length + T.length ≤ (serJ gs T).length := by
  induction gs with
  | nil => simp [serJ]
  | cons g gs ih => simp only [serJ, List.length_cons, List.length_append]; omega

theorem serC_length (cs : List (Bytes × Child)) (T : Bytes) : T.length ≤ (serC cs T).length := by
  induction cs with
  | nil => simp [serC]
  | cons p cs ih =>
    obtain ⟨ws, c⟩ := p
    cases c <;> simp [serC, Child.ser, Elem.bytes, Name.openT, Name.closeT] <;> omega

/-- the part of a packet behind the root start tag: `wsR <RDF attrs> wsV1 <D attrs> wsV2 children ws2 </D> ws3 </RDF> ws4 </x:xmpmeta> tail` -/
def packetBody (RDF D : Name) (laR laD : List (Bytes × Attr)) (cs : List (Bytes × Child)) (wsR wsV1 wsV2 ws2 ws3 ws4 tail : Bytes) : Bytes :=
  wsR ++ 60 :: ((RDF.n0 :: RDF.ns) ++ 58 :: (RDF.name ++ (ser laR ++ 62 :: (wsV1 ++ 60 :: ((D.n0 :: D.ns) ++ 58 :: (D.name ++ (ser laD ++ 62 ::
    (wsV2 ++ serC cs (ws2 ++ D.closeT (ws3 ++ RDF.closeT (ws4 ++ nRoot.closeT tail)))))))))))

/-- the rounds of readTag below the root: rdf:RDF around one rdf:Description around its children, then the root stop tag -/
theorem readTag_rdf_exact (root : Tag) (hroot : root.self = rootProp) (RDF D : Name) (laR laD : List (Bytes × Attr)) (cs : List (Bytes × Child))
    (wsR wsV1 wsV2 ws2 ws3 ws4 tail X2 : Bytes) (f : Nat) (st : St)
    (hr : st.rest = packetBody RDF D laR laD cs wsR wsV1 wsV2 ws2 ws3 ws4 tail)
    (hX2 : 60 :: X2 = serC cs (ws2 ++ D.closeT (ws3 ++ RDF.closeT (ws4 ++ nRoot.closeT tail))))
    (hRDF : RDF.OK) (hRseq : (RDF.prop == rdfSeq || RDF.prop == rdfAlt || RDF.prop == rdfBag) = false) (hRroot : (RDF.prop == rootProp) = false)
    (hD : D.OK) (hDseq : (D.prop == rdfSeq || D.prop == rdfAlt || D.prop == rdfBag) = false) (hDroot : (D.prop == rootProp) = false)
    (hwsR : ∀ x ∈ wsR, (x == 60) = false) (hwinR : wsR.length + 128 ≤ W)
    (hlaR : laR ≠ []) (hokR : ∀ p ∈ laR, (∀ x ∈ p.1, isWs x = true) ∧ p.1 ≠ [] ∧ p.2.OK)
    (hwsV1 : ∀ x ∈ wsV1, isWs x = true) (hwinV1 : wsV1.length < 512)
    (hlaD : laD ≠ []) (hokD : ∀ p ∈ laD, (∀ x ∈ p.1, isWs x = true) ∧ p.1 ≠ [] ∧ p.2.OK)
    (hwsV2 : ∀ x ∈ wsV2, isWs x = true) (hwinV2 : wsV2.length < 512)
    (hokc : ∀ p ∈ cs, (∀ x ∈ p.1, (x == 60) = false) ∧ p.1.length + 128 ≤ W ∧ p.2.OK ∧ p.2.need ≤ f + 1)
    (hws2 : ∀ x ∈ ws2, (x == 60) = false) (hwin2 : ws2.length + 128 ≤ W)
    (hws3 : ∀ x ∈ ws3, (x == 60) = false) (hwin3 : ws3.length + 128 ≤ W)
    (hws4 : ∀ x ∈ ws4, (x == 60) = false) (hwin4 : ws4.length + 128 ≤ W) :
    readTag (f + cs.length + 3) root st =
      (.ok { t := .stop, parent := root.self, self := rootProp },
       { rest := tail, a := false, toks := pushC D.prop cs (pushAll D.prop laD (pushAll RDF.prop laR st.toks)) }) := by
  -- the Description, as the content of rdf:RDF
  have hdesc : ∀ toks0, readTag ((f + cs.length) + 1 + 1) { t := .start, parent := root.self, self := RDF.prop }
        { rest := 60 :: ((D.n0 :: D.ns) ++ 58 :: (D.name ++ (ser laD ++ 62 :: (wsV2 ++ 60 :: X2)))), a := false, toks := toks0 } =
      readTag ((f + cs.length) + 1) { t := .start, parent := root.self, self := RDF.prop }
        { rest := ws3 ++ RDF.closeT (ws4 ++ nRoot.closeT tail), a := false, toks := pushC D.prop cs (pushAll D.prop laD toks0) } := by
    intro toks0
    have hkids : ∀ toks1, readTag (f + 1 + cs.length) { t := .start, parent := RDF.prop, self := D.prop } { rest := 60 :: X2, a := false, toks := toks1 } =
        readTag (f + 1) { t := .start, parent := RDF.prop, self := D.prop }
          { rest := ws2 ++ D.closeT (ws3 ++ RDF.closeT (ws4 ++ nRoot.closeT tail)), a := false, toks := pushC D.prop cs toks1 } := by
      intro toks1
      exact readTag_children_exact { t := .start, parent := RDF.prop, self := D.prop } _ cs (f + 1) _ rfl hX2 hokc
    have hXlen : 5 ≤ (60 :: X2 : Bytes).length := by
      rw [hX2]
      have h := serC_length cs (ws2 ++ D.closeT (ws3 ++ RDF.closeT (ws4 ++ nRoot.closeT tail)))
      have h5 : 5 ≤ (ws2 ++ D.closeT (ws3 ++ RDF.closeT (ws4 ++ nRoot.closeT tail)) : Bytes).length := by simp [Name.closeT]; omega
      omega
    have := readTag_wrapper_exact { t := .start, parent := root.self, self := RDF.prop }
      { rest := 60 :: ((D.n0 :: D.ns) ++ 58 :: (D.name ++ (ser laD ++ 62 :: (wsV2 ++ 60 :: X2)))), a := false, toks := toks0 }
      D [] wsV2 X2 ws2 (ws3 ++ RDF.closeT (ws4 ++ nRoot.closeT tail)) laD cs.length (pushC D.prop cs) f rfl hD hDseq hDroot (by simp) (by unfold W; simp)
      hlaD hokD hwsV2 hwinV2 hkids hXlen hws2 hwin2
    have e1 : f + cs.length + 1 + 1 = f + 2 + cs.length := by omega
    have e2 : f + cs.length + 1 = f + 1 + cs.length := by omega
    rw [e1, e2]
    exact this
  -- rdf:RDF, as the content of the root element
  have hX1len : 5 ≤ (60 :: ((D.n0 :: D.ns) ++ 58 :: (D.name ++ (ser laD ++ 62 :: (wsV2 ++ 60 :: X2)))) : Bytes).length := by
    simp; omega
  have hrdf := readTag_wrapper_exact root st RDF wsR wsV1 ((D.n0 :: D.ns) ++ 58 :: (D.name ++ (ser laD ++ 62 :: (wsV2 ++ 60 :: X2)))) ws3 (ws4 ++ nRoot.closeT tail)
    laR 1 (fun t0 => pushC D.prop cs (pushAll D.prop laD t0)) (f + cs.length)
    (by rw [hr]; unfold packetBody; rw [← hX2]) hRDF hRseq hRroot hwsR hwinR hlaR hokR hwsV1 hwinV1 hdesc hX1len hws3 hwin3
  have e3 : f + cs.length + 3 = f + cs.length + 2 + 1 := by omega
  rw [e3, hrdf]
  -- the root stop tag
  have e4 : f + cs.length + 1 + 1 = (f + cs.length + 1) + 1 := rfl
  rw [readTag_unfold (f + cs.length + 1) root]
  rw [bindOk _ _ _ _ _ (readTagHeader_stop_exact root _ ws4 nRoot.n0 nRoot.ns nRoot.name tail rfl hws4 hwin4 (by decide) (by decide) (by decide))]
  have hid : identify (nRoot.n0 :: nRoot.ns) nRoot.name = rootProp := nRoot_prop
  have he : isEndTag { t := .stop, parent := root.self, self := identify (nRoot.n0 :: nRoot.ns) nRoot.name } root.self = true := by
    simp [isEndTag, hid, hroot]
  simp only [he, if_true]
  rw [hid]
  rfl


/-- **A whole packet.**  Leading bytes, `<x:xmpmeta …>`, `<rdf:RDF attrs>`, one `<rdf:Description attrs>` with children of both
kinds, the three stop tags, trailing bytes: ParseXmp of the model ends without error and has handed the parser layer exactly
the tokens of the record, in document order. -/
theorem parseXmp_packet_exact (b : Bytes) (gs : List Bytes) (g A : Bytes) (RDF D : Name) (laR laD : List (Bytes × Attr)) (cs : List (Bytes × Child))
    (wsR wsV1 wsV2 ws2 ws3 ws4 tail X2 : Bytes)
    (hb : b = serJ gs (g ++ 60 :: (rootName ++ A ++ 62 :: packetBody RDF D laR laD cs wsR wsV1 wsV2 ws2 ws3 ws4 tail)))
    (hj : JunkOK gs (g ++ 60 :: (rootName ++ A ++ 62 :: packetBody RDF D laR laD cs wsR wsV1 wsV2 ws2 ws3 ws4 tail)))
    (hg : ∀ x ∈ g, (x == 60) = false) (hglen : g.length < W) (hA : ∀ x ∈ A, (x == 62) = false) (hAlen : 9 + A.length < W)
    (hX2 : 60 :: X2 = serC cs (ws2 ++ D.closeT (ws3 ++ RDF.closeT (ws4 ++ nRoot.closeT tail))))
    (hRDF : RDF.OK) (hRseq : (RDF.prop == rdfSeq || RDF.prop == rdfAlt || RDF.prop == rdfBag) = false) (hRroot : (RDF.prop == rootProp) = false)
    (hD : D.OK) (hDseq : (D.prop == rdfSeq || D.prop == rdfAlt || D.prop == rdfBag) = false) (hDroot : (D.prop == rootProp) = false)
    (hwsR : ∀ x ∈ wsR, (x == 60) = false) (hwinR : wsR.length + 128 ≤ W)
    (hlaR : laR ≠ []) (hokR : ∀ p ∈ laR, (∀ x ∈ p.1, isWs x = true) ∧ p.1 ≠ [] ∧ p.2.OK)
    (hwsV1 : ∀ x ∈ wsV1, isWs x = true) (hwinV1 : wsV1.length < 512)
    (hlaD : laD ≠ []) (hokD : ∀ p ∈ laD, (∀ x ∈ p.1, isWs x = true) ∧ p.1 ≠ [] ∧ p.2.OK)
    (hwsV2 : ∀ x ∈ wsV2, isWs x = true) (hwinV2 : wsV2.length < 512)
    (hokc : ∀ p ∈ cs, (∀ x ∈ p.1, (x == 60) = false) ∧ p.1.length + 128 ≤ W ∧ p.2.OK ∧ p.2.need + cs.length ≤ b.length + 6)
    (hws2 : ∀ x ∈ ws2, (x == 60) = false) (hwin2 : ws2.length + 128 ≤ W)
    (hws3 : ∀ x ∈ ws3, (x == 60) = false) (hwin3 : ws3.length + 128 ≤ W)
    (hws4 : ∀ x ∈ ws4, (x == 60) = false) (hwin4 : ws4.length + 128 ≤ W)
    (hcs : cs.length ≤ b.length + 5) :
    parseXmp b = (.ok (), (pushC D.prop cs (pushAll D.prop laD (pushAll RDF.prop laR []))).reverse) := by
  have hgs : gs.length ≤ b.length := by
    have := serJ_length gs (g ++ 60 :: (rootName ++ A ++ 62 :: packetBody RDF D laR laD cs wsR wsV1 wsV2 ws2 ws3 ws4 tail))
    rw [← hb] at this; omega
  unfold parseXmp
  simp only []
  have e1 : b.length + 8 = (b.length + 7 - gs.length) + 1 + gs.length := by omega
  have h1 := readRootTag_exact gs g A (packetBody RDF D laR laD cs wsR wsV1 wsV2 ws2 ws3 ws4 tail) (b.length + 7 - gs.length)
    { rest := b, a := false, toks := [] } hb hj hg hglen hA hAlen
  rw [← e1] at h1
  rw [bindOk _ _ _ _ _ h1]
  have e2 : b.length + 8 = (b.length + 7) + 1 := by omega
  have e3 : b.length + 8 = (b.length + 5 - cs.length) + cs.length + 3 := by omega
  have h2 := readTag_rdf_exact { t := .start, self := rootProp } rfl RDF D laR laD cs wsR wsV1 wsV2 ws2 ws3 ws4 tail X2 (b.length + 5 - cs.length)
    { rest := packetBody RDF D laR laD cs wsR wsV1 wsV2 ws2 ws3 ws4 tail, a := false, toks := [] } rfl hX2 hRDF hRseq hRroot hD hDseq hDroot hwsR hwinR hlaR hokR
    hwsV1 hwinV1 hlaD hokD hwsV2 hwinV2 (fun p hp => ⟨(hokc p hp).1, (hokc p hp).2.1, (hokc p hp).2.2.1, by have := (hokc p hp).2.2.2; omega⟩)
    hws2 hwin2 hws3 hwin3 hws4 hwin4
  rw [← e3] at h2
  have hloop : parseXmp.loop (b.length + 8) { t := .start, self := rootProp } (b.length + 8)
      { rest := packetBody RDF D laR laD cs wsR wsV1 wsV2 ws2 ws3 ws4 tail, a := false, toks := [] } =
      (.ok (), { rest := tail, a := false, toks := pushC D.prop cs (pushAll D.prop laD (pushAll RDF.prop laR [])) }) := by
    conv => lhs; rw [e2]; unfold parseXmp.loop
    rw [← e2, bindOk _ _ _ _ _ h2]
    have : isRootStop { t := .stop, parent := ({ t := .start, self := rootProp } : Tag).self, self := rootProp } = true := by
      simp [isRootStop]
    simp only [this, if_true]
    rfl
  show ((parseXmp.loop (b.length + 8) { t := .start, self := rootProp } (b.length + 8) { rest := packetBody RDF D laR laD cs wsR wsV1 wsV2 ws2 ws3 ws4 tail, a := false, toks := [] }).1, _) = _
  rw [hloop]

end Imeta.Xmp
