/-
  C03, part 7c: more single-writer string fields end to end (generated from the Software / LensModel proofs by renaming):
  Copyright and ImageDescription (IFD0), LensMake and LensSerialNumber (ExifIFD).
-/
import Imeta.Lemmas.ExifField2
namespace Imeta.Exif
open Imeta

set_option maxRecDepth 100000 in
theorem copyright_ifd0 (tb : Tables) (ex : Rec) (t : Tag) (buf : Bytes) (err : Option ErrKind)
    (hk : ¬(t.id = 0x8298)) : KF (fun e => e.copyright) ex (parseIfd0V tb ex t buf err) := by
  have hk : ¬(True ∧ t.id = 0x8298) := fun h => hk h.2
  unfold parseIfd0V
  kf_walk

set_option maxRecDepth 100000 in
theorem copyright_exif (ex : Rec) (t : Tag) (buf : Bytes) (err : Option ErrKind) :
    KF (fun e => e.copyright) ex (parseExifIfdV ex t buf err) := by
  unfold parseExifIfdV
  kf_walk0

set_option maxRecDepth 100000 in
theorem copyright_gps (ex : Rec) (t : Tag) (buf : Bytes) (err : Option ErrKind) :
    KF (fun e => e.copyright) ex (parseGpsIfdV ex t buf err) := by
  unfold parseGpsIfdV
  kf_walk0

theorem copyright_other (tb : Tables) (ex : Rec) (t : Tag) (buf : Bytes) (err : Option ErrKind)
    (hk : ¬(t.ifd = ifd0 ∧ t.id = 0x8298)) : KF (fun e => e.copyright) ex (parseTagV tb ex t buf err) := by
  unfold parseTagV
  apply KF.ite
  · intro h0; exact copyright_ifd0 tb ex t buf err (fun e => hk ⟨h0, e⟩)
  · intro _
    apply KF.ite (fun _ => copyright_exif ex t buf err)
    intro _
    exact KF.ite (fun _ => copyright_gps ex t buf err) (fun _ => KF.ok rfl)

theorem copyright_writer (tb : Tables) (ex ex' : Rec) (t : Tag) (buf : Bytes)
    (h0 : t.ifd = ifd0) (hid : t.id = 0x8298) (hemb : t.isEmbedded = false) (hasc : isASCII t = true)
    (h : parseTagV tb ex t buf none = .ok ex') : ex'.copyright = trimNUL buf := by
  unfold parseTagV at h
  rw [if_pos h0] at h
  unfold parseIfd0V at h
  have e : t.id = 33432 := hid
  simp only [e] at h
  simp only [show ¬ (33432 = 271) by decide, show ¬ (33432 = 272) by decide, show ¬ (33432 = 315) by decide, if_false, if_true] at h
  obtain ⟨s, hs, h⟩ := bind_ok h
  simp only [Outcome.ok.injEq] at h
  rw [← h]
  show s = trimNUL buf
  unfold parseStringV parseBytesV at hs
  rw [if_neg (by simp [hemb]), if_pos hasc] at hs
  obtain ⟨s', hs', hs⟩ := bind_ok hs
  simp only [Bool.false_and, Bool.false_eq_true, if_false, Outcome.ok.injEq] at hs' hs
  rw [← hs, ← hs']

/-- **copyright, end to end** -/
theorem copyright_exact {tb : Tables} {ex0 : Rec} {F : Bytes} {r : R} (he : Exact tb ex0 F r) (pre post : List Tag) (a : Tag)
    (hsplit : r.parsed = pre ++ a :: post) (h0 : a.ifd = ifd0) (hid : a.id = 0x8298) (hemb : a.isEmbedded = false)
    (hasc : isASCII a = true) (hpost : ∀ t ∈ post, ¬(t.ifd = ifd0 ∧ t.id = 0x8298)) :
    r.ex.copyright = trimNUL (slice F a) := by
  have href := he.ref
  rw [hsplit] at href
  obtain ⟨exPre, exA, _, hA, hf⟩ := idealRun_last tb F (fun e => e.copyright) (fun t => t.ifd = ifd0 ∧ t.id = 0x8298)
    (fun ex t hk => copyright_other tb ex t (slice F t) none hk) pre a post ex0 r.ex hpost href
  rw [hf]
  exact copyright_writer tb exPre exA a (slice F a) h0 hid hemb hasc hA

set_option maxRecDepth 100000 in
theorem description_ifd0 (tb : Tables) (ex : Rec) (t : Tag) (buf : Bytes) (err : Option ErrKind)
    (hk : ¬(t.id = 0x010e)) : KF (fun e => e.description) ex (parseIfd0V tb ex t buf err) := by
  have hk : ¬(True ∧ t.id = 0x010e) := fun h => hk h.2
  unfold parseIfd0V
  kf_walk

set_option maxRecDepth 100000 in
theorem description_exif (ex : Rec) (t : Tag) (buf : Bytes) (err : Option ErrKind) :
    KF (fun e => e.description) ex (parseExifIfdV ex t buf err) := by
  unfold parseExifIfdV
  kf_walk0

set_option maxRecDepth 100000 in
theorem description_gps (ex : Rec) (t : Tag) (buf : Bytes) (err : Option ErrKind) :
    KF (fun e => e.description) ex (parseGpsIfdV ex t buf err) := by
  unfold parseGpsIfdV
  kf_walk0

theorem description_other (tb : Tables) (ex : Rec) (t : Tag) (buf : Bytes) (err : Option ErrKind)
    (hk : ¬(t.ifd = ifd0 ∧ t.id = 0x010e)) : KF (fun e => e.description) ex (parseTagV tb ex t buf err) := by
  unfold parseTagV
  apply KF.ite
  · intro h0; exact description_ifd0 tb ex t buf err (fun e => hk ⟨h0, e⟩)
  · intro _
    apply KF.ite (fun _ => description_exif ex t buf err)
    intro _
    exact KF.ite (fun _ => description_gps ex t buf err) (fun _ => KF.ok rfl)

theorem description_writer (tb : Tables) (ex ex' : Rec) (t : Tag) (buf : Bytes)
    (h0 : t.ifd = ifd0) (hid : t.id = 0x010e) (hemb : t.isEmbedded = false) (hasc : isASCII t = true)
    (h : parseTagV tb ex t buf none = .ok ex') : ex'.description = trimNUL buf := by
  unfold parseTagV at h
  rw [if_pos h0] at h
  unfold parseIfd0V at h
  have e : t.id = 270 := hid
  simp only [e] at h
  simp only [show ¬ (270 = 271) by decide, show ¬ (270 = 272) by decide, show ¬ (270 = 315) by decide, show ¬ (270 = 33432) by decide, show ¬ (270 = 256) by decide, show ¬ (270 = 257) by decide, show ¬ (270 = 273) by decide, show ¬ (270 = 279) by decide, show ¬ (270 = 274) by decide, show ¬ (270 = 305) by decide, if_false, if_true] at h
  obtain ⟨s, hs, h⟩ := bind_ok h
  simp only [Outcome.ok.injEq] at h
  rw [← h]
  show s = trimNUL buf
  unfold parseStringV parseBytesV at hs
  rw [if_neg (by simp [hemb]), if_pos hasc] at hs
  obtain ⟨s', hs', hs⟩ := bind_ok hs
  simp only [Bool.false_and, Bool.false_eq_true, if_false, Outcome.ok.injEq] at hs' hs
  rw [← hs, ← hs']

/-- **description, end to end** -/
theorem description_exact {tb : Tables} {ex0 : Rec} {F : Bytes} {r : R} (he : Exact tb ex0 F r) (pre post : List Tag) (a : Tag)
    (hsplit : r.parsed = pre ++ a :: post) (h0 : a.ifd = ifd0) (hid : a.id = 0x010e) (hemb : a.isEmbedded = false)
    (hasc : isASCII a = true) (hpost : ∀ t ∈ post, ¬(t.ifd = ifd0 ∧ t.id = 0x010e)) :
    r.ex.description = trimNUL (slice F a) := by
  have href := he.ref
  rw [hsplit] at href
  obtain ⟨exPre, exA, _, hA, hf⟩ := idealRun_last tb F (fun e => e.description) (fun t => t.ifd = ifd0 ∧ t.id = 0x010e)
    (fun ex t hk => description_other tb ex t (slice F t) none hk) pre a post ex0 r.ex hpost href
  rw [hf]
  exact description_writer tb exPre exA a (slice F a) h0 hid hemb hasc hA

set_option maxRecDepth 100000 in
theorem lensMake_exif (ex : Rec) (t : Tag) (buf : Bytes) (err : Option ErrKind)
    (hk : ¬(t.id = 0xa433)) : KF (fun e => e.lensMake) ex (parseExifIfdV ex t buf err) := by
  have hk : ¬(True ∧ t.id = 0xa433) := fun h => hk h.2
  unfold parseExifIfdV
  kf_walk

set_option maxRecDepth 100000 in
theorem lensMake_ifd0 (tb : Tables) (ex : Rec) (t : Tag) (buf : Bytes) (err : Option ErrKind) :
    KF (fun e => e.lensMake) ex (parseIfd0V tb ex t buf err) := by
  unfold parseIfd0V
  kf_walk0

set_option maxRecDepth 100000 in
theorem lensMake_gps (ex : Rec) (t : Tag) (buf : Bytes) (err : Option ErrKind) :
    KF (fun e => e.lensMake) ex (parseGpsIfdV ex t buf err) := by
  unfold parseGpsIfdV
  kf_walk0

theorem lensMake_other (tb : Tables) (ex : Rec) (t : Tag) (buf : Bytes) (err : Option ErrKind)
    (hk : ¬(t.ifd = exifIFD ∧ t.id = 0xa433)) : KF (fun e => e.lensMake) ex (parseTagV tb ex t buf err) := by
  unfold parseTagV
  apply KF.ite (fun _ => lensMake_ifd0 tb ex t buf err)
  intro _
  apply KF.ite
  · intro h3; exact lensMake_exif ex t buf err (fun e => hk ⟨h3, e⟩)
  · intro _; exact KF.ite (fun _ => lensMake_gps ex t buf err) (fun _ => KF.ok rfl)

theorem lensMake_writer (tb : Tables) (ex ex' : Rec) (t : Tag) (buf : Bytes)
    (h0 : t.ifd = exifIFD) (hid : t.id = 0xa433) (hemb : t.isEmbedded = false) (hasc : isASCII t = true)
    (h : parseTagV tb ex t buf none = .ok ex') : ex'.lensMake = trimNUL buf := by
  unfold parseTagV at h
  rw [if_neg (by rw [h0]; decide), if_pos h0] at h
  unfold parseExifIfdV at h
  have e : t.id = 42035 := hid
  simp only [e] at h
  simp only [if_false, if_true] at h
  obtain ⟨s, hs, h⟩ := bind_ok h
  simp only [Outcome.ok.injEq] at h
  rw [← h]
  show s = trimNUL buf
  unfold parseStringV parseBytesV at hs
  rw [if_neg (by simp [hemb]), if_pos hasc] at hs
  obtain ⟨s', hs', hs⟩ := bind_ok hs
  simp only [Bool.false_and, Bool.false_eq_true, if_false, Outcome.ok.injEq] at hs' hs
  rw [← hs, ← hs']

/-- **lensMake, end to end** -/
theorem lensMake_exact {tb : Tables} {ex0 : Rec} {F : Bytes} {r : R} (he : Exact tb ex0 F r) (pre post : List Tag) (a : Tag)
    (hsplit : r.parsed = pre ++ a :: post) (h0 : a.ifd = exifIFD) (hid : a.id = 0xa433) (hemb : a.isEmbedded = false)
    (hasc : isASCII a = true) (hpost : ∀ t ∈ post, ¬(t.ifd = exifIFD ∧ t.id = 0xa433)) :
    r.ex.lensMake = trimNUL (slice F a) := by
  have href := he.ref
  rw [hsplit] at href
  obtain ⟨exPre, exA, _, hA, hf⟩ := idealRun_last tb F (fun e => e.lensMake) (fun t => t.ifd = exifIFD ∧ t.id = 0xa433)
    (fun ex t hk => lensMake_other tb ex t (slice F t) none hk) pre a post ex0 r.ex hpost href
  rw [hf]
  exact lensMake_writer tb exPre exA a (slice F a) h0 hid hemb hasc hA

set_option maxRecDepth 100000 in
theorem lensSerial_exif (ex : Rec) (t : Tag) (buf : Bytes) (err : Option ErrKind)
    (hk : ¬(t.id = 0xa435)) : KF (fun e => e.lensSerial) ex (parseExifIfdV ex t buf err) := by
  have hk : ¬(True ∧ t.id = 0xa435) := fun h => hk h.2
  unfold parseExifIfdV
  kf_walk

set_option maxRecDepth 100000 in
theorem lensSerial_ifd0 (tb : Tables) (ex : Rec) (t : Tag) (buf : Bytes) (err : Option ErrKind) :
    KF (fun e => e.lensSerial) ex (parseIfd0V tb ex t buf err) := by
  unfold parseIfd0V
  kf_walk0

set_option maxRecDepth 100000 in
theorem lensSerial_gps (ex : Rec) (t : Tag) (buf : Bytes) (err : Option ErrKind) :
    KF (fun e => e.lensSerial) ex (parseGpsIfdV ex t buf err) := by
  unfold parseGpsIfdV
  kf_walk0

theorem lensSerial_other (tb : Tables) (ex : Rec) (t : Tag) (buf : Bytes) (err : Option ErrKind)
    (hk : ¬(t.ifd = exifIFD ∧ t.id = 0xa435)) : KF (fun e => e.lensSerial) ex (parseTagV tb ex t buf err) := by
  unfold parseTagV
  apply KF.ite (fun _ => lensSerial_ifd0 tb ex t buf err)
  intro _
  apply KF.ite
  · intro h3; exact lensSerial_exif ex t buf err (fun e => hk ⟨h3, e⟩)
  · intro _; exact KF.ite (fun _ => lensSerial_gps ex t buf err) (fun _ => KF.ok rfl)

theorem lensSerial_writer (tb : Tables) (ex ex' : Rec) (t : Tag) (buf : Bytes)
    (h0 : t.ifd = exifIFD) (hid : t.id = 0xa435) (hemb : t.isEmbedded = false) (hasc : isASCII t = true)
    (h : parseTagV tb ex t buf none = .ok ex') : ex'.lensSerial = trimNUL buf := by
  unfold parseTagV at h
  rw [if_neg (by rw [h0]; decide), if_pos h0] at h
  unfold parseExifIfdV at h
  have e : t.id = 42037 := hid
  simp only [e] at h
  simp only [show ¬ (42037 = 42035) by decide, show ¬ (42037 = 42036) by decide, if_false, if_true] at h
  obtain ⟨s, hs, h⟩ := bind_ok h
  simp only [Outcome.ok.injEq] at h
  rw [← h]
  show s = trimNUL buf
  unfold parseStringV parseBytesV at hs
  rw [if_neg (by simp [hemb]), if_pos hasc] at hs
  obtain ⟨s', hs', hs⟩ := bind_ok hs
  simp only [Bool.false_and, Bool.false_eq_true, if_false, Outcome.ok.injEq] at hs' hs
  rw [← hs, ← hs']

/-- **lensSerial, end to end** -/
theorem lensSerial_exact {tb : Tables} {ex0 : Rec} {F : Bytes} {r : R} (he : Exact tb ex0 F r) (pre post : List Tag) (a : Tag)
    (hsplit : r.parsed = pre ++ a :: post) (h0 : a.ifd = exifIFD) (hid : a.id = 0xa435) (hemb : a.isEmbedded = false)
    (hasc : isASCII a = true) (hpost : ∀ t ∈ post, ¬(t.ifd = exifIFD ∧ t.id = 0xa435)) :
    r.ex.lensSerial = trimNUL (slice F a) := by
  have href := he.ref
  rw [hsplit] at href
  obtain ⟨exPre, exA, _, hA, hf⟩ := idealRun_last tb F (fun e => e.lensSerial) (fun t => t.ifd = exifIFD ∧ t.id = 0xa435)
    (fun ex t hk => lensSerial_other tb ex t (slice F t) none hk) pre a post ex0 r.ex hpost href
  rw [hf]
  exact lensSerial_writer tb exPre exA a (slice F a) h0 hid hemb hasc hA

end Imeta.Exif
