/-
  Helper lemmas for C03 / C07 / C04: byte-order inverses, directory entries, the pending-tag buffer.
-/
import Imeta.Model.ExifReader
namespace Imeta.Exif
open Imeta

/-! ### byte order: put ∘ uint = id on n-byte strings -/

theorem leNat_lt (b : Bytes) : leNat b < 256 ^ b.length := by
  induction b with
  | nil => simp [leNat]
  | cons x t ih =>
    simp only [leNat, List.length_cons, Nat.pow_succ]
    have := x.toNat_lt
    omega

theorem leBytes_leNat (b : Bytes) : leBytes b.length (leNat b) = b := by
  induction b with
  | nil => rfl
  | cons x t ih =>
    simp only [List.length_cons, leBytes, leNat]
    have hx := x.toNat_lt
    have h1 : (x.toNat + 256 * leNat t) % 256 = x.toNat := by omega
    have h2 : (x.toNat + 256 * leNat t) / 256 = leNat t := by omega
    rw [h1, h2, ih]
    simp

theorem put_uint (o : ByteOrder) (b : Bytes) : o.put b.length (o.uint b) = b := by
  cases o
  · exact leBytes_leNat b
  · exact leBytes_leNat b
  · simp only [ByteOrder.put, ByteOrder.uint, beBytes, beNat]
    have := leBytes_leNat b.reverse
    simp only [List.length_reverse] at this
    rw [this, List.reverse_reverse]

theorem uint_put (o : ByteOrder) (n v : Nat) (h : v < 256 ^ n) : o.uint (o.put n v) = v := by
  rw [ByteOrder.uint_put, Nat.mod_eq_of_lt h]

theorem put_length (o : ByteOrder) (n v : Nat) : (o.put n v).length = n := by
  cases o <;> simp [ByteOrder.put, beBytes, leBytes_length]

theorem slc_mid (a b c : Bytes) (lo hi : Nat) (h1 : a.length = lo) (h2 : lo + b.length = hi) :
    slc (a ++ b ++ c) lo hi = .ok b := by
  unfold slc
  rw [if_pos (by simp only [List.length_append]; omega)]
  rw [List.append_assoc, List.drop_left' h1, List.take_left' (by omega)]

theorem rd32_ok (o : ByteOrder) (b : Bytes) (lo : Nat) (h : lo + 4 ≤ b.length) :
    rd32 o b lo = .ok (o.uint ((b.drop lo).take 4)) := by
  unfold rd32 slc
  rw [if_pos ⟨by omega, h⟩]
  simp only [Outcome.bind, Nat.add_sub_cancel_left]
  unfold u32
  rw [if_neg (by simp only [List.length_take, List.length_drop]; omega)]
  rw [List.take_take, Nat.min_self]

theorem rd16_ok (o : ByteOrder) (b : Bytes) (lo : Nat) (h : lo + 2 ≤ b.length) :
    rd16 o b lo = .ok (o.uint ((b.drop lo).take 2)) := by
  unfold rd16 slc
  rw [if_pos ⟨by omega, h⟩]
  simp only [Outcome.bind, Nat.add_sub_cancel_left]
  unfold u16
  rw [if_neg (by simp only [List.length_take, List.length_drop]; omega)]
  rw [List.take_take, Nat.min_self]

/-! ### pending-tag buffer -/

def Sorted (l : List Tag) : Prop := List.Pairwise (fun a b => a.off ≤ b.off) l

theorem sorted_take_drop_insert (t : Tag) (l : List Tag) (i : Nat) (hs : Sorted l)
    (hlo : ∀ x ∈ l.take i, x.off ≤ t.off) (hhi : ∀ x ∈ l.drop i, t.off ≤ x.off) :
    Sorted (l.take i ++ t :: l.drop i) := by
  unfold Sorted at *
  rw [List.pairwise_append]
  refine ⟨?_, ?_, ?_⟩
  · exact List.Pairwise.sublist (List.take_sublist _ _) hs
  · rw [List.pairwise_cons]
    exact ⟨hhi, List.Pairwise.sublist (List.drop_sublist _ _) hs⟩
  · intro a ha b hb
    rw [List.mem_cons] at hb
    rcases hb with rfl | hb
    · exact hlo a ha
    · have : l = l.take i ++ l.drop i := (List.take_append_drop i l).symm
      rw [this, List.pairwise_append] at hs
      exact hs.2.2 a ha b hb

/-- what `insertFrom` returns is the list with `t` inserted at some index, below which every offset is smaller
than `t`'s and (for a sorted list) at or above which none is -/
theorem insertFrom_spec (t : Tag) (l : List Tag) (hs : Sorted l) (n : Nat) (hn : n ≤ l.length)
    (hup : ∀ x ∈ l.drop n, t.off ≤ x.off) (res : List Tag) (h : insertFrom t n l = some res) :
    ∃ i, i ≤ l.length ∧ res = l.take i ++ t :: l.drop i ∧ (∀ x ∈ l.take i, x.off ≤ t.off) ∧ (∀ x ∈ l.drop i, t.off ≤ x.off) := by
  induction n with
  | zero => simp [insertFrom] at h
  | succ k ih =>
    have hk : k < l.length := by omega
    simp only [insertFrom, List.getElem?_eq_getElem hk] at h
    split at h
    · rename_i hgt
      cases h
      refine ⟨k + 1, hn, rfl, ?_, hup⟩
      intro x hx
      -- every element of the first k+1 is ≤ l[k] (sortedness), and l[k].off < t.off
      have hxk : x.off ≤ (l[k]).off := by
        rw [List.mem_take_iff_getElem] at hx
        obtain ⟨j, hj, rfl⟩ := hx
        by_cases hjk : j = k
        · subst hjk; exact Nat.le_refl _
        · have hjlt : j < k := by
            have : j < min (k + 1) l.length := hj
            omega
          exact List.pairwise_iff_getElem.mp hs j k (by omega) hk hjlt
      omega
    · rename_i hle
      apply ih (by omega) _ h
      intro x hx
      have : l.drop k = l[k] :: l.drop (k + 1) := List.drop_eq_getElem_cons hk
      rw [this, List.mem_cons] at hx
      rcases hx with rfl | hx
      · omega
      · exact hup x hx

/-- **Buffer invariant, one step**: `addTagBuffer` keeps the pending tags sorted by offset and never exceeds 84 slots. -/
theorem addTag_inv (r : R) (t : Tag) (hs : Sorted r.tags) (hl : r.tags.length ≤ tagMaxCount) :
    Sorted (addTag r t).tags ∧ (addTag r t).tags.length ≤ tagMaxCount := by
  unfold addTag
  split
  · exact ⟨hs, hl⟩
  · split
    · rename_i hlt
      cases hi : insertFrom t r.tags.length r.tags with
      | some res =>
        obtain ⟨i, hi1, rfl, hlo, hhi⟩ := insertFrom_spec t r.tags hs r.tags.length (Nat.le_refl _) (by simp) res hi
        refine ⟨sorted_take_drop_insert t r.tags i hs hlo hhi, ?_⟩
        simp only [List.length_append, List.length_cons, List.length_take, List.length_drop]
        unfold tagMaxCount at *
        omega
      | none =>
        simp only
        cases htags : r.tags with
        | nil => simp [Sorted, tagMaxCount]
        | cons h tl =>
          simp only
          split
          · rename_i hlt2
            refine ⟨?_, by rw [htags] at hlt; simp at hlt ⊢; unfold tagMaxCount at *; omega⟩
            rw [htags] at hs
            unfold Sorted at *
            rw [List.pairwise_cons]
            refine ⟨?_, hs⟩
            intro x hx
            rw [List.mem_cons] at hx
            rcases hx with rfl | hx
            · omega
            · have := (List.pairwise_cons.mp hs).1 x hx
              omega
          · exact ⟨hs, hl⟩
    · exact ⟨hs, hl⟩

/-- `resetPosition` keeps the invariant -/
theorem resetPosition_inv (r : R) (hs : Sorted r.tags) (hl : r.tags.length ≤ tagMaxCount) :
    Sorted (resetPosition r).tags ∧ (resetPosition r).tags.length ≤ tagMaxCount := by
  unfold resetPosition
  split
  · refine ⟨List.Pairwise.sublist (List.drop_sublist _ _) hs, ?_⟩
    simp only [List.length_drop]; omega
  · exact ⟨hs, hl⟩

end Imeta.Exif
