/-
  Termination of the Exif directory walk (C02), part 3: no function below `ifdLoop` ever reports `.fuel`
  (they are structurally recursive; the statement still has to be walked through every branch).
-/
import Imeta.Model.ExifReader
namespace Imeta.Exif
open Imeta

structure NF {α} (x : Outcome α) : Prop where
  h : x ≠ .fuel

theorem NF.ok {α} (v : α) : NF (Outcome.ok v) := ⟨by intro h; cases h⟩
theorem NF.err {α} (k : ErrKind) : NF (Outcome.err k : Outcome α) := ⟨by intro h; cases h⟩
theorem NF.panic {α} (s : String) : NF (Outcome.panic s : Outcome α) := ⟨by intro h; cases h⟩
theorem NF.ite {α} {c : Prop} [Decidable c] {a b : Outcome α} (ha : NF a) (hb : NF b) : NF (if c then a else b) := by
  split <;> assumption
theorem NF.bindO {α β} {x : Outcome α} {f : α → Outcome β} (hx : NF x) (hf : ∀ v, NF (f v)) : NF (x.bind f) := by
  cases x with
  | ok v => exact hf v
  | err k => exact NF.err k
  | panic s => exact NF.panic s
  | fuel => exact absurd rfl hx.h
theorem NF.bind {α β} {x : Outcome α} {f : α → Outcome β} (hx : NF x) (hf : ∀ v, NF (f v)) : NF (x >>= f) :=
  NF.bindO hx hf

theorem NF.idx (b : Bytes) (i : Nat) : NF (idx b i) := by
  unfold Exif.idx; split; exact NF.ok _; exact NF.panic _
theorem NF.slc (b : Bytes) (lo hi : Nat) : NF (slc b lo hi) := by
  unfold Exif.slc; exact NF.ite (NF.ok _) (NF.panic _)
theorem NF.u16 (o : ByteOrder) (b : Bytes) : NF (u16 o b) := by
  unfold Exif.u16; exact NF.ite (NF.panic _) (NF.ok _)
theorem NF.u32 (o : ByteOrder) (b : Bytes) : NF (u32 o b) := by
  unfold Exif.u32; exact NF.ite (NF.panic _) (NF.ok _)
theorem NF.rd16 (o : ByteOrder) (b : Bytes) (lo : Nat) : NF (rd16 o b lo) := NF.bindO (NF.slc _ _ _) (fun _ => NF.u16 _ _)
theorem NF.rd32 (o : ByteOrder) (b : Bytes) (lo : Nat) : NF (rd32 o b lo) := NF.bindO (NF.slc _ _ _) (fun _ => NF.u32 _ _)

macro "nf_base" : tactic => `(tactic| first
  | exact NF.ok _ | exact NF.err _ | exact NF.panic _
  | with_reducible exact NF.idx _ _ | with_reducible exact NF.slc _ _ _
  | with_reducible exact NF.u16 _ _ | with_reducible exact NF.u32 _ _
  | with_reducible exact NF.rd16 _ _ _ | with_reducible exact NF.rd32 _ _ _)

macro "nf_step0" : tactic => `(tactic| first
  | nf_base
  | with_reducible apply NF.ite
  | with_reducible apply NF.bind
  | with_reducible apply NF.bindO
  | intro _
  | split
  | dsimp only)
macro "nf0" : tactic => `(tactic| repeat' nf_step0)

theorem NF.tagFromBuffer (ifd : Ifd) (e : Bytes) : NF (tagFromBuffer ifd e) := by
  unfold Exif.tagFromBuffer; nf0
theorem NF.six (o : ByteOrder) (b : Bytes) : NF (six o b) := by unfold Exif.six; nf0
theorem NF.dateOf (b : Bytes) : NF (dateOf b) := by unfold Exif.dateOf; nf0
theorem NF.parseUint32 (t : Tag) : NF (parseUint32 t) := by unfold Exif.parseUint32; nf0
theorem NF.parseUint16 (t : Tag) : NF (parseUint16 t) := by unfold Exif.parseUint16; nf0

macro "nf_step1" : tactic => `(tactic| first
  | nf_base
  | with_reducible exact NF.six _ _ | with_reducible exact NF.dateOf _
  | with_reducible exact NF.parseUint32 _ | with_reducible exact NF.parseUint16 _
  | with_reducible apply NF.ite
  | with_reducible apply NF.bind
  | with_reducible apply NF.bindO
  | intro _
  | split
  | dsimp only)
macro "nf1" : tactic => `(tactic| repeat' nf_step1)

theorem NF.parseBytes (r : R) (t : Tag) (s : Bool) : NF (parseBytes r t s) := by unfold Exif.parseBytes; nf1
theorem NF.parseString (r : R) (t : Tag) : NF (parseString r t) := by
  unfold Exif.parseString; exact NF.bind (NF.parseBytes _ _ _) (fun _ => by nf1)
theorem NF.parseRationalU (r : R) (t : Tag) : NF (parseRationalU r t) := by unfold Exif.parseRationalU; nf1
theorem NF.parseDate (r : R) (t : Tag) : NF (parseDate r t) := by unfold Exif.parseDate; nf1
theorem NF.parseOffsetTime (r : R) (t : Tag) : NF (parseOffsetTime r t) := by unfold Exif.parseOffsetTime; nf1
theorem NF.parseSubSec (r : R) (t : Tag) : NF (parseSubSec r t) := by
  unfold Exif.parseSubSec
  repeat' (with_reducible apply NF.ite)
  · exact NF.ok _
  · exact NF.bind (NF.parseBytes _ _ _) (fun _ => by nf1)
  · exact NF.ok _
theorem NF.parseLensInfo (r : R) (t : Tag) : NF (parseLensInfo r t) := by unfold Exif.parseLensInfo; nf1
theorem NF.parseGPSCoord (r : R) (t : Tag) : NF (parseGPSCoord r t) := by unfold Exif.parseGPSCoord; nf1
theorem NF.parseGPSAlt (r : R) (t : Tag) : NF (parseGPSAlt r t) := by unfold Exif.parseGPSAlt; nf1
theorem NF.parseGPSTime (r : R) (t : Tag) : NF (parseGPSTime r t) := by unfold Exif.parseGPSTime; nf1
theorem NF.parseGPSDate (r : R) (t : Tag) : NF (parseGPSDate r t) := by unfold Exif.parseGPSDate; nf1

macro "nf_step2" : tactic => `(tactic| first
  | nf_base
  | with_reducible exact NF.parseUint32 _ | with_reducible exact NF.parseUint16 _
  | with_reducible exact NF.parseBytes _ _ _ | with_reducible exact NF.parseString _ _
  | with_reducible exact NF.parseRationalU _ _ | with_reducible exact NF.parseDate _ _
  | with_reducible exact NF.parseOffsetTime _ _ | with_reducible exact NF.parseSubSec _ _
  | with_reducible exact NF.parseLensInfo _ _ | with_reducible exact NF.parseGPSCoord _ _
  | with_reducible exact NF.parseGPSAlt _ _ | with_reducible exact NF.parseGPSTime _ _
  | with_reducible exact NF.parseGPSDate _ _
  | with_reducible apply NF.ite
  | with_reducible apply NF.bind
  | with_reducible apply NF.bindO
  | intro _
  | split
  | dsimp only)
macro "nf2" : tactic => `(tactic| repeat' nf_step2)

set_option maxRecDepth 8000 in
theorem NF.parseGpsIfd (r : R) (t : Tag) : NF (parseGpsIfd r t) := by
  unfold Exif.parseGpsIfd
  repeat' (with_reducible apply NF.ite)
  all_goals nf2

set_option maxRecDepth 8000 in
theorem NF.parseExifIfd (r : R) (t : Tag) : NF (parseExifIfd r t) := by
  unfold Exif.parseExifIfd
  repeat' (with_reducible apply NF.ite)
  all_goals nf2

set_option maxRecDepth 8000 in
theorem NF.parseIfd0 (tb : Tables) (r : R) (t : Tag) : NF (parseIfd0 tb r t) := by
  unfold Exif.parseIfd0
  repeat' (with_reducible apply NF.ite)
  all_goals nf2

theorem NF.parseTag0 (tb : Tables) (r : R) (t : Tag) : NF (parseTag0 tb r t) := by
  unfold Exif.parseTag0
  exact NF.ite (NF.parseIfd0 _ _ _) (NF.ite (NF.parseExifIfd _ _) (NF.ite (NF.parseGpsIfd _ _) (NF.ok _)))

theorem NF.parseTag (tb : Tables) (r : R) (t : Tag) : NF (parseTag tb r t) := by
  unfold Exif.parseTag
  exact NF.bindO (NF.parseTag0 _ _ _) (fun _ => NF.ok _)

/-! the directory reader -/

theorem NF.entriesLoop (tb : Tables) (ifd : Ifd) (buf : Bytes) (n i : Nat) (r : R) : NF (entriesLoop tb ifd buf n i r) := by
  induction n generalizing i r with
  | zero => unfold Exif.entriesLoop; exact NF.ok _
  | succ n ih =>
    unfold Exif.entriesLoop
    apply NF.bind (NF.slc _ _ _); intro e
    apply NF.bind (NF.tagFromBuffer _ _); intro ot
    split
    · exact ih _ _
    · apply NF.ite
      · exact NF.bind (NF.parseTag _ _ _) (fun _ => ih _ _)
      · exact ih _ _

theorem NF.readNextIfdTag (r : R) (ifd : Ifd) : NF (readNextIfdTag r ifd) := by
  unfold Exif.readNextIfdTag; nf2

theorem NF.readIfdHeader (tb : Tables) (r : R) (ifd : Ifd) : NF (readIfdHeader tb r ifd) := by
  unfold Exif.readIfdHeader
  dsimp only
  split
  · exact NF.ok _
  · apply NF.bind (NF.u16 _ _); intro cnt
    apply NF.ite (NF.ok _)
    split
    · exact NF.ok _
    · exact NF.bind (NF.entriesLoop _ _ _ _ _ _) (fun _ => NF.readNextIfdTag _ _)

theorem NF.subIfdsLoop (t : Tag) (buf : Bytes) (n i : Nat) (r : R) : NF (subIfdsLoop t buf n i r) := by
  induction n generalizing i r with
  | zero => unfold Exif.subIfdsLoop; exact NF.ok _
  | succ n ih =>
    unfold Exif.subIfdsLoop
    apply NF.ite _ (NF.ok _)
    apply NF.bind (NF.slc _ _ _); intro s
    apply NF.bind (NF.u32 _ _); intro v
    exact ih _ _

theorem NF.readSubIfds (r : R) (t : Tag) : NF (readSubIfds r t) := by
  unfold Exif.readSubIfds
  apply NF.ite _ (NF.ok _)
  dsimp only
  exact NF.ite (NF.ok _) (NF.subIfdsLoop _ _ _ _ _)

macro "nf_step3" : tactic => `(tactic| first
  | nf_base
  | with_reducible exact NF.readIfdHeader _ _ _
  | with_reducible apply NF.ite
  | with_reducible apply NF.bind
  | with_reducible apply NF.bindO
  | intro _
  | split
  | dsimp only)

theorem NF.readMakerNotes (tb : Tables) (r : R) (t : Tag) : NF (readMakerNotes tb r t) := by
  unfold Exif.readMakerNotes
  repeat' nf_step3

end Imeta.Exif
