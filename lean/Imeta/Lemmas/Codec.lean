/-
  Helper lemmas for C16: decimal printing/parsing, slash search, hex, MessagePack integers.
-/
import Imeta.Model.Codec
namespace Imeta.Codec
open Imeta

/-! ### decimal digits -/

def isDigit (b : UInt8) : Bool := 48 ≤ b.toNat && b.toNat ≤ 57

theorem u8_ofNat_toNat (n : Nat) (h : n < 256) : (UInt8.ofNat n).toNat = n := by
  simp [UInt8.toNat_ofNat', Nat.mod_eq_of_lt h]

theorem digit_byte (d : Nat) (h : d < 10) :
    isDigit (UInt8.ofNat (48 + d)) = true ∧ ((UInt8.ofNat (48 + d)) - 48).toNat = d := by
  have : d = 0 ∨ d = 1 ∨ d = 2 ∨ d = 3 ∨ d = 4 ∨ d = 5 ∨ d = 6 ∨ d = 7 ∨ d = 8 ∨ d = 9 := by omega
  rcases this with h | h | h | h | h | h | h | h | h | h <;> subst h <;> decide

/-- unbounded accumulator -/
def parseNat (buf : Bytes) : Nat := buf.foldl (fun u b => u * 10 + (b - 48).toNat) 0

theorem parseNat_append_one (xs : Bytes) (b : UInt8) :
    parseNat (xs ++ [b]) = parseNat xs * 10 + (b - 48).toNat := by
  simp [parseNat, List.foldl_append]

theorem decDigits_spec (fuel n : Nat) (h : n < 10 ^ fuel) :
    parseNat (decDigits fuel n) = n ∧ (decDigits fuel n).all isDigit = true := by
  induction fuel generalizing n with
  | zero =>
    have : n = 0 := by simp at h; omega
    subst this; simp [decDigits, parseNat]
  | succ f ih =>
    unfold decDigits
    split
    · rename_i hn
      obtain ⟨h1, h2⟩ := digit_byte n hn
      refine ⟨?_, ?_⟩
      · simp only [parseNat, List.foldl_cons, List.foldl_nil, Nat.zero_mul, Nat.zero_add]; exact h2
      · simp only [List.all_cons, List.all_nil, Bool.and_true]; exact h1
    · rename_i hn
      have hq : n / 10 < 10 ^ f := by
        rw [Nat.pow_succ] at h; omega
      obtain ⟨i1, i2⟩ := ih (n / 10) hq
      obtain ⟨h1, h2⟩ := digit_byte (n % 10) (Nat.mod_lt _ (by decide))
      refine ⟨?_, ?_⟩
      · rw [parseNat_append_one, i1, h2]; omega
      · simp only [List.all_append, i2, List.all_cons, List.all_nil, Bool.and_true, Bool.true_and]; exact h1

theorem parseUint_fold_lt (buf : Bytes) (a : Nat) (h : a < 2 ^ 64) :
    List.foldl (fun u (x : UInt8) => (u * 10 + (x - 48).toNat) % 2 ^ 64) a buf < 2 ^ 64 := by
  induction buf generalizing a with
  | nil => simpa using h
  | cons x t ih => simp only [List.foldl_cons]; exact ih _ (Nat.mod_lt _ (by decide : 0 < 2 ^ 64))

theorem parseUint_fold_mod (buf : Bytes) (a b : Nat) (h : a % 2 ^ 64 = b % 2 ^ 64) :
    List.foldl (fun u (x : UInt8) => (u * 10 + (x - 48).toNat) % 2 ^ 64) a buf % 2 ^ 64 =
    List.foldl (fun u (x : UInt8) => u * 10 + (x - 48).toNat) b buf % 2 ^ 64 := by
  induction buf generalizing a b with
  | nil => simpa using h
  | cons x t ih =>
    simp only [List.foldl_cons]
    apply ih
    rw [Nat.mod_mod]
    omega

theorem parseUint_eq_parseNat_mod (buf : Bytes) : parseUint buf = parseNat buf % 2 ^ 64 := by
  unfold parseUint parseNat
  rw [← parseUint_fold_mod buf 0 0 rfl, Nat.mod_eq_of_lt (parseUint_fold_lt buf 0 (by decide))]

theorem parseUint_dec (n : Nat) (h : n < 2 ^ 64) : parseUint (decDigits 25 n) = n := by
  rw [parseUint_eq_parseNat_mod, (decDigits_spec 25 n (by omega)).1, Nat.mod_eq_of_lt h]

/-! ### the slash search -/

theorem idxSlash_digits_slash (ds rest : Bytes) (h : ds.all isDigit = true) :
    idxSlash (ds ++ 47 :: rest) = some ds.length := by
  induction ds with
  | nil => simp [idxSlash]
  | cons d t ih =>
    simp only [List.all_cons, Bool.and_eq_true] at h
    have hd : (d == 47) = false := by
      have := h.1
      simp only [isDigit, Bool.and_eq_true, decide_eq_true_eq] at this
      simp only [beq_eq_false_iff_ne, ne_eq]
      intro hc; subst hc; simp at this
    simp [idxSlash, hd, ih h.2]

theorem idxSlash_lt (t : Bytes) (i : Nat) (h : idxSlash t = some i) : i < t.length := by
  induction t generalizing i with
  | nil => simp [idxSlash] at h
  | cons b r ih =>
    simp only [idxSlash] at h
    split at h
    · cases h; simp
    · cases hr : idxSlash r with
      | none => simp [hr] at h
      | some j => simp [hr] at h; subst h; have := ih j hr; simp; omega

theorem idxSlash_at (t : Bytes) (i : Nat) (h : idxSlash t = some i) : t[i]? = some 47 := by
  induction t generalizing i with
  | nil => simp [idxSlash] at h
  | cons b r ih =>
    simp only [idxSlash] at h
    split at h
    · rename_i hb; cases h; simp at hb; simp [hb]
    · cases hr : idxSlash r with
      | none => simp [hr] at h
      | some j => simp [hr] at h; subst h; simpa using ih j hr

/-! ### slices that cannot panic -/

theorem slice_ok (b : Bytes) (lo hi : Nat) (h1 : lo ≤ hi) (h2 : hi ≤ b.length) :
    slice b lo hi = .ok ((b.drop lo).take (hi - lo)) := by
  simp [slice, h1, h2]

theorem at_ok (b : Bytes) (i : Nat) (h : i < b.length) : at! b i = .ok b[i] := by
  simp [at!, List.getElem?_eq_getElem h]

/-! ### hex -/

theorem hexPair (x : UInt8) :
    fromHexChar (hexDigitLower (x.toNat / 16)) = some (x.toNat / 16) ∧
    fromHexChar (hexDigitLower (x.toNat % 16)) = some (x.toNat % 16) := by
  have key : ∀ n : Fin 16, fromHexChar (hexDigitLower n.val) = some n.val := by decide
  have h1 : x.toNat / 16 < 16 := by have := x.toNat_lt; omega
  have h2 : x.toNat % 16 < 16 := Nat.mod_lt _ (by decide)
  exact ⟨key ⟨_, h1⟩, key ⟨_, h2⟩⟩

theorem hexDec_hexEnc (b : Bytes) : hexDec (hexEnc b) = some b := by
  induction b with
  | nil => rfl
  | cons x t ih =>
    have ht : hexDec (List.flatMap hexEnc1 t) = some t := ih
    obtain ⟨h1, h2⟩ := hexPair x
    have hx : UInt8.ofNat (16 * (x.toNat / 16) + x.toNat % 16) = x := by
      have : 16 * (x.toNat / 16) + x.toNat % 16 = x.toNat := by omega
      rw [this]; simp
    simp only [hexEnc, List.flatMap_cons, hexEnc1, List.cons_append, List.nil_append, hexDec, h1, h2, ht, hx]

theorem hexEnc_length (b : Bytes) : (hexEnc b).length = 2 * b.length := by
  induction b with
  | nil => rfl
  | cons x t ih =>
    have ht : (List.flatMap hexEnc1 t).length = 2 * t.length := ih
    simp only [hexEnc, List.flatMap_cons, hexEnc1, List.length_append, List.length_cons, List.length_nil, ht]
    omega

theorem drop_append_len {α} (x y : List α) (n : Nat) (h : x.length = n) : (x ++ y).drop n = y := by
  exact List.drop_left' h

theorem take_append_len {α} (x y : List α) (n : Nat) (h : x.length = n) : (x ++ y).take n = x := by
  exact List.take_left' h

/-! ### MessagePack integers -/

theorem beBytes_length (n v : Nat) : (beBytes n v).length = n := by simp [beBytes, leBytes_length]

theorem mpField_cons (lead : UInt8) (n v : Nat) (rest : Bytes) :
    mpField (lead :: (beBytes n v ++ rest)) n = .ok (v % 256 ^ n, rest) := by
  have hl := beBytes_length n v
  unfold mpField
  rw [if_neg (by simp [hl])]
  simp only [List.drop_succ_cons, List.drop_zero, take_append_len _ _ n hl, drop_append_len _ _ n hl, beNat_beBytes]

theorem u8_toNat (n : Nat) (h : n < 256) : (u8 n).toNat = n := u8_ofNat_toNat n h

set_option linter.unusedSimpArgs false in
theorem mp_uint_roundtrip (u : Nat) (h : u < 2 ^ 64) (rest : Bytes) :
    mpReadUint (mpAppendUint u ++ rest) = .ok (u, rest) := by
  unfold mpAppendUint
  split
  · simp [mpReadUint, u8_toNat u (by omega)]; omega
  · split
    · simp [mpReadUint, mpField_cons, Outcome.bind]; omega
    · split
      · simp [mpReadUint, mpField_cons, Outcome.bind]; omega
      · split
        · simp [mpReadUint, mpField_cons, Outcome.bind]; omega
        · simp [mpReadUint, mpField_cons, Outcome.bind]; omega

set_option linter.unusedSimpArgs false in
theorem mp_int_roundtrip (i : Int) (h1 : -2 ^ 63 ≤ i) (h2 : i < 2 ^ 63) (rest : Bytes) :
    mpReadInt (mpAppendInt i ++ rest) = .ok (i, rest) := by
  unfold mpAppendInt
  split
  · rename_i hp
    split
    · simp [mpReadInt, u8_toNat i.toNat (by omega)]
      rw [if_pos (by omega), Int.max_eq_left hp]
    · split
      · simp [mpReadInt, mpField_cons, Outcome.bind, sgn]; omega
      · split
        · simp [mpReadInt, mpField_cons, Outcome.bind, sgn]; omega
        · simp [mpReadInt, mpField_cons, Outcome.bind, sgn]; omega
  · split
    · simp [mpReadInt, u8_toNat (256 + i).toNat (by omega)]
      rw [if_neg (by omega), if_pos (by omega)]
      refine congrArg Outcome.ok ?_
      refine Prod.ext ?_ rfl
      show max (256 + i) 0 - 256 = i
      omega
    · split
      · simp [mpReadInt, mpField_cons, Outcome.bind, sgn]; omega
      · split
        · simp [mpReadInt, mpField_cons, Outcome.bind, sgn]; omega
        · split
          · simp [mpReadInt, mpField_cons, Outcome.bind, sgn]; omega
          · simp [mpReadInt, mpField_cons, Outcome.bind, sgn]; omega

theorem mp_uint_size (u : Nat) :
    (mpAppendUint u).length = if u ≤ 127 then 1 else if u ≤ 255 then 2 else if u ≤ 65535 then 3 else if u ≤ 4294967295 then 5 else 9 := by
  unfold mpAppendUint
  repeat' split
  all_goals simp [beBytes_length]

theorem mp_int_size (i : Int) :
    (mpAppendInt i).length ≤ if -32 ≤ i ∧ i ≤ 127 then 1 else if -128 ≤ i ∧ i ≤ 127 then 2 else if -32768 ≤ i ∧ i ≤ 32767 then 3
      else if -2147483648 ≤ i ∧ i ≤ 2147483647 then 5 else 9 := by
  unfold mpAppendInt
  repeat' split
  all_goals simp [beBytes_length]
  all_goals omega

end Imeta.Codec
