/-
  Lemmas tying the GENERATED predicates (Imeta.Gen.ImageType) to the hand-written
  signature table (Imeta.ImageTypeSpec).  If a predicate in imagetype/*.go is changed,
  the regenerated definition no longer satisfies its lemma here and the build fails.
-/
import Imeta.Model.ImageType
import Imeta.Spec.ImageType
set_option linter.unusedSimpArgs false
namespace Imeta.ImageType
open Imeta Imeta.Gen.ImageType Imeta.ImageTypeSpec

theorem getD_ite (c : Bool) (a d : Nat) (r : Option Nat) :
    (if c = true then some a else r).getD d = if c = true then a else r.getD d := by
  cases c <;> simp

theorem ok_ite (c : Bool) (a b : Nat) :
    (Outcome.ok (if c = true then a else b) : Outcome Nat) = if c = true then .ok a else .ok b := by
  cases c <;> simp

theorem destruct24 (b : Bytes) (h : 24 ≤ b.length) :
    ∃ b0 b1 b2 b3 b4 b5 b6 b7 b8 b9 b10 b11 b12 b13 b14 b15 b16 b17 b18 b19 b20 b21 b22 b23 rest, b = b0::b1::b2::b3::b4::b5::b6::b7::b8::b9::b10::b11::b12::b13::b14::b15::b16::b17::b18::b19::b20::b21::b22::b23::rest := by
  cases b with
  | nil => simp at h
  | cons b0 b =>
    cases b with
    | nil => simp at h
    | cons b1 b =>
      cases b with
      | nil => simp at h
      | cons b2 b =>
        cases b with
        | nil => simp at h
        | cons b3 b =>
          cases b with
          | nil => simp at h
          | cons b4 b =>
            cases b with
            | nil => simp at h
            | cons b5 b =>
              cases b with
              | nil => simp at h
              | cons b6 b =>
                cases b with
                | nil => simp at h
                | cons b7 b =>
                  cases b with
                  | nil => simp at h
                  | cons b8 b =>
                    cases b with
                    | nil => simp at h
                    | cons b9 b =>
                      cases b with
                      | nil => simp at h
                      | cons b10 b =>
                        cases b with
                        | nil => simp at h
                        | cons b11 b =>
                          cases b with
                          | nil => simp at h
                          | cons b12 b =>
                            cases b with
                            | nil => simp at h
                            | cons b13 b =>
                              cases b with
                              | nil => simp at h
                              | cons b14 b =>
                                cases b with
                                | nil => simp at h
                                | cons b15 b =>
                                  cases b with
                                  | nil => simp at h
                                  | cons b16 b =>
                                    cases b with
                                    | nil => simp at h
                                    | cons b17 b =>
                                      cases b with
                                      | nil => simp at h
                                      | cons b18 b =>
                                        cases b with
                                        | nil => simp at h
                                        | cons b19 b =>
                                          cases b with
                                          | nil => simp at h
                                          | cons b20 b =>
                                            cases b with
                                            | nil => simp at h
                                            | cons b21 b =>
                                              cases b with
                                              | nil => simp at h
                                              | cons b22 b =>
                                                cases b with
                                                | nil => simp at h
                                                | cons b23 b =>
                                                  exact ⟨_, _, _, _, _, _, _, _, _, _, _, _, _, _, _, _, _, _, _, _, _, _, _, _, _, rfl⟩

section
variable (b0 b1 b2 b3 b4 b5 b6 b7 b8 b9 b10 b11 b12 b13 b14 b15 b16 b17 b18 b19 b20 b21 b22 b23 : UInt8) (rest : Bytes)
local notation "HB" => (b0::b1::b2::b3::b4::b5::b6::b7::b8::b9::b10::b11::b12::b13::b14::b15::b16::b17::b18::b19::b20::b21::b22::b23::rest)
local notation "H" => ([b0, b1, b2, b3, b4, b5, b6, b7, b8, b9, b10, b11, b12, b13, b14, b15, b16, b17, b18, b19, b20, b21, b22, b23] : Bytes)

theorem take24 : (HB).take 24 = H := by simp [List.take]

theorem isJPEG_eq : isJPEG HB = .ok (sigJPEG H) := by
  simp [isJPEG, sigJPEG, gidx, gslice, hasAt, IsTiffBigEndian, IsTiffLittleEndian, isFTYPBrand, isFTYPBox, isTiff, sigTIFF, sigFtyp, crx_, avif, mif1, msf1, heic, heix, hevc, Bool.and_assoc, Bool.or_assoc] <;> grind

theorem isJPEG2000_eq : isJPEG2000 HB = .ok (sigJP2 H) := by
  simp [isJPEG2000, sigJP2, gidx, gslice, hasAt, IsTiffBigEndian, IsTiffLittleEndian, isFTYPBrand, isFTYPBox, isTiff, sigTIFF, sigFtyp, crx_, avif, mif1, msf1, heic, heix, hevc, Bool.and_assoc, Bool.or_assoc] <;> grind

theorem isCRW_eq : isCRW HB = .ok (sigCRW H) := by
  simp [isCRW, sigCRW, gidx, gslice, hasAt, IsTiffBigEndian, IsTiffLittleEndian, isFTYPBrand, isFTYPBox, isTiff, sigTIFF, sigFtyp, crx_, avif, mif1, msf1, heic, heix, hevc, Bool.and_assoc, Bool.or_assoc] <;> grind

theorem isTiff_eq : isTiff HB = .ok (sigTIFF H) := by
  simp [isTiff, sigTIFF, gidx, gslice, hasAt, IsTiffBigEndian, IsTiffLittleEndian, isFTYPBrand, isFTYPBox, isTiff, sigTIFF, sigFtyp, crx_, avif, mif1, msf1, heic, heix, hevc, Bool.and_assoc, Bool.or_assoc] <;> grind

theorem isCR2_eq : isCR2 HB = .ok (sigCR2 H) := by
  simp [isCR2, sigCR2, gidx, gslice, hasAt, IsTiffBigEndian, IsTiffLittleEndian, isFTYPBrand, isFTYPBox, isTiff, sigTIFF, sigFtyp, crx_, avif, mif1, msf1, heic, heix, hevc, Bool.and_assoc, Bool.or_assoc] <;> grind

theorem isFTYPBox_eq : isFTYPBox HB = .ok (sigFtyp H) := by
  simp [isFTYPBox, sigFtyp, gidx, gslice, hasAt, IsTiffBigEndian, IsTiffLittleEndian, isFTYPBrand, isFTYPBox, isTiff, sigTIFF, sigFtyp, crx_, avif, mif1, msf1, heic, heix, hevc, Bool.and_assoc, Bool.or_assoc] <;> grind

theorem isCR3_eq : isCR3 HB = .ok (sigCR3 H) := by
  simp [isCR3, sigCR3, gidx, gslice, hasAt, IsTiffBigEndian, IsTiffLittleEndian, isFTYPBrand, isFTYPBox, isTiff, sigTIFF, sigFtyp, crx_, avif, mif1, msf1, heic, heix, hevc, Bool.and_assoc, Bool.or_assoc] <;> grind

theorem isAVIF_eq : isAVIF HB = .ok (sigAVIF H) := by
  simp [isAVIF, sigAVIF, gidx, gslice, hasAt, IsTiffBigEndian, IsTiffLittleEndian, isFTYPBrand, isFTYPBox, isTiff, sigTIFF, sigFtyp, crx_, avif, mif1, msf1, heic, heix, hevc, Bool.and_assoc, Bool.or_assoc] <;> grind

theorem isHeif_eq : isHeif HB = .ok (sigHEIF H) := by
  simp [isHeif, sigHEIF, gidx, gslice, hasAt, IsTiffBigEndian, IsTiffLittleEndian, isFTYPBrand, isFTYPBox, isTiff, sigTIFF, sigFtyp, crx_, avif, mif1, msf1, heic, heix, hevc, Bool.and_assoc, Bool.or_assoc] <;> grind

theorem isRW2_eq : isRW2 HB = .ok (sigRW2 H) := by
  simp [isRW2, sigRW2, gidx, gslice, hasAt, IsTiffBigEndian, IsTiffLittleEndian, isFTYPBrand, isFTYPBox, isTiff, sigTIFF, sigFtyp, crx_, avif, mif1, msf1, heic, heix, hevc, Bool.and_assoc, Bool.or_assoc] <;> grind

theorem isPNG_eq : isPNG HB = .ok (sigPNG H) := by
  simp [isPNG, sigPNG, gidx, gslice, hasAt, IsTiffBigEndian, IsTiffLittleEndian, isFTYPBrand, isFTYPBox, isTiff, sigTIFF, sigFtyp, crx_, avif, mif1, msf1, heic, heix, hevc, Bool.and_assoc, Bool.or_assoc] <;> grind

theorem isPSD_eq : isPSD HB = .ok (sigPSD H) := by
  simp [isPSD, sigPSD, gidx, gslice, hasAt, IsTiffBigEndian, IsTiffLittleEndian, isFTYPBrand, isFTYPBox, isTiff, sigTIFF, sigFtyp, crx_, avif, mif1, msf1, heic, heix, hevc, Bool.and_assoc, Bool.or_assoc] <;> grind

theorem isBMP_eq : isBMP HB = .ok (sigBMP H) := by
  simp [isBMP, sigBMP, gidx, gslice, hasAt, IsTiffBigEndian, IsTiffLittleEndian, isFTYPBrand, isFTYPBox, isTiff, sigTIFF, sigFtyp, crx_, avif, mif1, msf1, heic, heix, hevc, Bool.and_assoc, Bool.or_assoc] <;> grind

theorem isWebP_eq : isWebP HB = .ok (sigWebP H) := by
  simp [isWebP, sigWebP, gidx, gslice, hasAt, IsTiffBigEndian, IsTiffLittleEndian, isFTYPBrand, isFTYPBox, isTiff, sigTIFF, sigFtyp, crx_, avif, mif1, msf1, heic, heix, hevc, Bool.and_assoc, Bool.or_assoc] <;> grind

theorem isXMP_eq : isXMP HB = .ok (sigXMP H) := by
  simp [isXMP, sigXMP, gidx, gslice, hasAt, IsTiffBigEndian, IsTiffLittleEndian, isFTYPBrand, isFTYPBox, isTiff, sigTIFF, sigFtyp, crx_, avif, mif1, msf1, heic, heix, hevc, Bool.and_assoc, Bool.or_assoc] <;> grind

theorem isGIF_eq : isGIF HB = .ok (sigGIF H) := by
  simp [isGIF, sigGIF, gidx, gslice, hasAt, IsTiffBigEndian, IsTiffLittleEndian, isFTYPBrand, isFTYPBox, isTiff, sigTIFF, sigFtyp, crx_, avif, mif1, msf1, heic, heix, hevc, Bool.and_assoc, Bool.or_assoc] <;> grind

theorem isPPM_eq : isPPM HB = .ok (sigPPM H) := by
  simp [isPPM, sigPPM, gidx, gslice, hasAt, IsTiffBigEndian, IsTiffLittleEndian, isFTYPBrand, isFTYPBox, isTiff, sigTIFF, sigFtyp, crx_, avif, mif1, msf1, heic, heix, hevc, Bool.and_assoc, Bool.or_assoc] <;> grind

/-- the generated decision list computes the specified classification -/
theorem parseBuffer_eq : parseBuffer HB = .ok (classify H) := by
  simp only [parseBuffer, isJPEG_eq, isJPEG2000_eq, isCRW_eq, isTiff_eq, isCR2_eq, isFTYPBox_eq, isCR3_eq, isAVIF_eq, isHeif_eq, isRW2_eq, isPNG_eq, isPSD_eq, isBMP_eq, isWebP_eq, isXMP_eq, isGIF_eq, isPPM_eq, gif_ok]
  simp only [classify, firstMatch, table, getD_ite, ok_ite, Option.getD_none]
  simp only [sigCR3, sigAVIF, sigHEIF]
  by_cases hf : sigFtyp H = true <;> simp [hf]

end

/-- **Tie lemma.** For every buffer of at least 24 bytes the generated `parseBuffer`
returns normally with the specified classification of its first 24 bytes. -/
theorem parseBuffer_spec (b : Bytes) (h : 24 ≤ b.length) :
    parseBuffer b = .ok (classify (b.take 24)) := by
  obtain ⟨b0, b1, b2, b3, b4, b5, b6, b7, b8, b9, b10, b11, b12, b13, b14, b15, b16, b17, b18, b19, b20, b21, b22, b23, rest, rfl⟩ := destruct24 b h
  rw [take24, parseBuffer_eq]

end Imeta.ImageType
