/-
  Helper lemmas for C10 / C02 (JPEG): progress of every step, one-segment framing lemmas.
-/
import Imeta.Model.Jpeg
namespace Imeta.Jpeg
open Imeta

/-! ### discard -/

theorem discard_le (s : St) (i : Int) : (discard s i).1.rest.length ≤ s.rest.length := by
  unfold discard
  split
  · exact Nat.le_refl _
  · split
    · exact Nat.le_refl _
    · split
      · simp
      · simp

theorem discard_lt (s : St) (i : Int) (hi : 0 < i) (h : (discard s i).2 = none) :
    (discard s i).1.rest.length < s.rest.length := by
  unfold discard at *
  rw [if_neg (by omega)] at *
  rw [if_neg (by omega)] at *
  split at h
  · rename_i hle
    rw [if_pos hle]
    simp only [List.length_drop]
    omega
  · simp at h

theorem discard_ok (s : St) (n : Nat) (hn : 0 < n) (hle : n ≤ s.rest.length) :
    discard s (n : Int) = ({ s with rest := s.rest.drop n, discarded := (s.discarded + n) % 2 ^ 32 }, none) := by
  unfold discard
  rw [if_neg (by omega), if_neg (by omega)]
  simp [hle]

theorem finish_next_lt (s s' : St) (i : Int) (evs evs' : List Ev) (hi : 0 < i)
    (h : finish (discard s i) evs = .next s' evs') : s'.rest.length < s.rest.length := by
  unfold finish at h
  split at h
  · rename_i hn
    cases h
    exact discard_lt s i hi hn
  · cases h

theorem finish_next_le (s s' : St) (i : Int) (evs evs' : List Ev)
    (h : finish (discard s i) evs = .next s' evs') : s'.rest.length ≤ s.rest.length := by
  unfold finish at h
  split at h
  · cases h; exact discard_le s i
  · cases h

theorem firstFF_pos (n : Nat) (b : UInt8) (t : Bytes) (h : (b != 0xFF) = true) : 0 < firstFF (n + 1) (b :: t) := by
  have : (b == 0xFF) = false := by simpa using h
  simp only [firstFF, this, Bool.false_eq_true, if_false]
  omega

/-! ### progress: every step that does not finish shortens the stream (C02) -/

theorem readExif_progress (cb : Cbs) (s s' : St) (size : Nat) (evs : List Ev)
    (h : readExif cb s size = .next s' evs) : s'.rest.length < s.rest.length := by
  unfold readExif at h
  have h10 := discard_lt s 10 (by decide)
  split at h
  · cases h
  · rename_i s1 heq
    have hs1 : s1.rest.length < s.rest.length := by
      have := h10 (by rw [heq])
      rw [heq] at this; exact this
    split at h
    · cases h
    · split at h
      · simp only at h
        split at h
        · cases h
        · cases h
          simp only [List.length_drop]
          omega
      · exact Nat.lt_of_le_of_lt (finish_next_le _ _ _ _ _ h) hs1

theorem readXMP_progress (cb : Cbs) (s s' : St) (size : Nat) (evs : List Ev)
    (h : readXMP cb s size = .next s' evs) : s'.rest.length < s.rest.length := by
  unfold readXMP at h
  have h33 := discard_lt s 33 (by decide)
  split at h
  · cases h
  · rename_i s1 heq
    have hs1 : s1.rest.length < s.rest.length := by
      have := h33 (by rw [heq])
      rw [heq] at this; exact this
    split at h
    · simp only at h
      split at h
      · cases h
      · split at h
        · rename_i s3 heq3
          cases h
          have := discard_le { s1 with rest := s1.rest.drop (min (cb.xmp (s1.rest.take ((size : Int) - 2 - 29).toNat)).1 (s1.rest.take ((size : Int) - 2 - 29).toNat).length), discarded := (s1.discarded + min (cb.xmp (s1.rest.take ((size : Int) - 2 - 29).toNat)).1 (s1.rest.take ((size : Int) - 2 - 29).toNat).length) % 2 ^ 32 }
            (if (size : Int) - 2 - 29 ≤ 0 then (size : Int) - 2 - 29 else (size : Int) - 2 - 29 - (min (cb.xmp (s1.rest.take ((size : Int) - 2 - 29).toNat)).1 (s1.rest.take ((size : Int) - 2 - 29).toNat).length : Nat))
          rw [heq3] at this
          simp only [List.length_drop] at this
          omega
        · cases h
    · exact Nat.lt_of_le_of_lt (finish_next_le _ _ _ _ _ h) hs1

theorem step_progress (cb : Cbs) (s s' : St) (evs : List Ev) (h : step cb s = .next s' evs) :
    s'.rest.length < s.rest.length := by
  unfold step at h
  split at h
  · cases h
  · split at h
    · rename_i b0 mk hi lo tl hrest
      split at h
      · rename_i hb
        have hp : 0 < firstFF 64 s.rest := by rw [hrest]; exact firstFF_pos 63 b0 (mk :: hi :: lo :: tl) hb
        exact finish_next_lt s s' _ _ _ (by omega) h
      · split at h
        · exact finish_next_lt s s' 1 _ _ (by decide) h
        · split at h
          · exact finish_next_lt { s with pos := (s.pos + 1) % 256 } s' 2 _ _ (by decide) h
          · split at h
            · exact finish_next_lt s s' 1 _ _ (by decide) h
            · simp only at h
              split at h
              · exact finish_next_lt s s' _ _ _ (by omega) h
              · split at h
                · split at h
                  · split at h
                    · exact readExif_progress cb s s' _ evs h
                    · split at h
                      · exact readXMP_progress cb s s' _ evs h
                      · exact finish_next_lt s s' _ _ _ (by omega) h
                  · exact finish_next_lt s s' _ _ _ (by omega) h
                · split at h
                  · split at h
                    · cases h
                    · exact finish_next_lt { s with pos := (s.pos + 255) % 256 } s' 2 _ _ (by decide) h
                  · split at h
                    · cases h
                    · split at h
                      · exact finish_next_lt s s' 6 _ _ (by decide) h
                      · exact finish_next_lt s s' _ _ _ (by omega) h
    · cases h

/-- with one unit of fuel per unread byte (plus one) the scan always finishes -/
theorem run_terminates (cb : Cbs) (fuel : Nat) (s : St) (acc : List Ev) (h : s.rest.length < fuel) :
    (run cb fuel s acc).isSome = true := by
  induction fuel generalizing s acc with
  | zero => omega
  | succ f ih =>
    unfold run
    cases hs : step cb s with
    | done r evs => rfl
    | next s' evs =>
      simp only
      apply ih
      have := step_progress cb s s' evs hs
      omega

end Imeta.Jpeg
