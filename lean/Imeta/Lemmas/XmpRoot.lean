/-
  C13: bytes before the root element are skipped.  The search for `<x:xmpmeta` steps from '<' to '<' through any leading
  bytes (an xpacket header, other tags, junk) and stops behind the '>' that ends the root start tag.
-/
import Imeta.Lemmas.XmpDesc2
namespace Imeta.Xmp
open Imeta Imeta.Props.C13

def rootName : Bytes := [120, 58, 120, 109, 112, 109, 101, 116, 97]
theorem rootName_eq : s "x:xmpmeta" = rootName := by decide +kernel
theorem rootName_length : rootName.length = 9 := rfl

/-- ReadSlice(d) finds the delimiter inside the buffer window -/
theorem readSlice_found (d : UInt8) (st : St) (g T : Bytes) (hr : st.rest = g ++ d :: T)
    (hg : ∀ x ∈ g, (x == d) = false) (hlen : g.length < W) :
    readSlice d st = (.ok none, { st with rest := T }) := by
  unfold readSlice
  have hw : st.rest.take W = g ++ d :: (T.take (W - g.length - 1)) := by
    rw [hr, List.take_append, List.take_of_length_le (by omega)]
    have : W - g.length = (W - g.length - 1) + 1 := by omega
    rw [this, List.take_succ_cons]
    simp
  have hk : (st.rest.take W).findIdx (fun x => x == d) = g.length := by
    rw [hw, findIdx_skip _ _ _ hg]; simp [List.findIdx_cons]
  simp only [hk]
  rw [if_pos (by rw [hw]; simp)]
  congr 2
  rw [hr]
  have e : (g ++ d :: T : Bytes) = (g ++ [d]) ++ T := by simp
  have hl : (g ++ [d] : Bytes).length = g.length + 1 := by simp
  rw [e, ← hl, List.drop_left]

/-- a '<' that does not start the root element is stepped over -/
theorem readRootTag_skip (f : Nat) (st : St) (g T : Bytes) (hr : st.rest = g ++ 60 :: T)
    (hg : ∀ x ∈ g, (x == 60) = false) (hlen : g.length < W) (hT : 10 ≤ T.length) (hno : (T.take 9 == rootName) = false) :
    readRootTag (f + 1) st = readRootTag f { st with rest := T } := by
  conv => lhs; unfold readRootTag
  rw [bindOk _ _ _ _ _ (readSlice_found 60 st g T hr hg hlen)]
  simp only []
  rw [bindOk (fun st => (.ok st, st) : M St) _ _ _ _ rfl]
  simp only []
  rw [if_neg (by omega)]
  rw [rootName_eq, if_neg (by simp [hno])]

/-- the root start tag: everything up to and including its '>' is consumed -/
theorem readRootTag_found (f : Nat) (st : St) (g A R : Bytes) (hr : st.rest = g ++ 60 :: (rootName ++ A ++ 62 :: R))
    (hg : ∀ x ∈ g, (x == 60) = false) (hlen : g.length < W) (hA : ∀ x ∈ A, (x == 62) = false) (hAlen : 9 + A.length < W) :
    readRootTag (f + 1) st = (.ok { t := .start, self := rootProp }, { st with rest := R }) := by
  conv => lhs; unfold readRootTag
  rw [bindOk _ _ _ _ _ (readSlice_found 60 st g _ hr hg hlen)]
  simp only []
  rw [bindOk (fun st => (.ok st, st) : M St) _ _ _ _ rfl]
  simp only []
  have hl : (rootName ++ A ++ 62 :: R : Bytes).length = 9 + A.length + 1 + R.length := by
    simp [rootName_length]; omega
  rw [if_neg (by rw [hl]; omega)]
  have ht : (rootName ++ A ++ 62 :: R : Bytes).take 9 = rootName := by
    rw [List.append_assoc, ← rootName_length, List.take_left]
  rw [rootName_eq, if_pos (by rw [ht]; simp)]
  have hroot : ∀ x ∈ rootName ++ A, (x == 62) = false := by
    intro x hx
    rcases List.mem_append.mp hx with h | h
    · simp only [rootName, List.mem_cons, List.mem_nil_iff, or_false] at h
      rcases h with rfl | rfl | rfl | rfl | rfl | rfl | rfl | rfl | rfl <;> decide
    · exact hA x h
  rw [bindOk _ _ _ _ _ (readSlice_found 62 _ (rootName ++ A) R rfl hroot (by simp [rootName_length]; omega))]
  rfl

/-- leading bytes: any number of stretches `g <` whose '<' is not the root's -/
def serJ : List Bytes → Bytes → Bytes
  | [], T => T
  | g :: gs, T => g ++ 60 :: serJ gs T

def JunkOK : List Bytes → Bytes → Prop
  | [], _ => True
  | g :: gs, T => (∀ x ∈ g, (x == 60) = false) ∧ g.length < W ∧ 10 ≤ (serJ gs T).length ∧ ((serJ gs T).take 9 == rootName) = false ∧ JunkOK gs T

/-- **Bytes before the root element are skipped**: whatever precedes `<x:xmpmeta … >` — an xpacket processing
instruction, other tags, arbitrary bytes, each stretch between two '<' shorter than the 1538-byte buffer — the root
search ends behind the '>' of the root start tag with the root tag in hand. -/
theorem readRootTag_exact (gs : List Bytes) (g A R : Bytes) :
    ∀ (f : Nat) (st : St), st.rest = serJ gs (g ++ 60 :: (rootName ++ A ++ 62 :: R)) →
    JunkOK gs (g ++ 60 :: (rootName ++ A ++ 62 :: R)) →
    (∀ x ∈ g, (x == 60) = false) → g.length < W → (∀ x ∈ A, (x == 62) = false) → 9 + A.length < W →
    readRootTag (f + 1 + gs.length) st = (.ok { t := .start, self := rootProp }, { st with rest := R }) := by
  induction gs with
  | nil =>
    intro f st hr _ hg hlen hA hAlen
    exact readRootTag_found f st g A R hr hg hlen hA hAlen
  | cons g0 gs ih =>
    intro f st hr hj hg hlen hA hAlen
    obtain ⟨h0, h0len, hT, hno, hrest⟩ := hj
    have hfuel : f + 1 + (g0 :: gs).length = (f + 1 + gs.length) + 1 := by simp; omega
    rw [hfuel, readRootTag_skip _ st g0 _ hr h0 h0len hT hno]
    exact ih f _ rfl hrest hg hlen hA hAlen

end Imeta.Xmp
