import Imeta.Model.Tiff
namespace Imeta.Tiff

theorem scan_succ (fuel : Nat) (b : Bytes) (d : Nat) : scan (fuel+1) b d =
    if b.length < headerLength then .err .noExif
    else if isSig b then .ok (mkHeader b d)
    else if adv1 b then scan fuel (b.drop 1) (d+1)
    else scan fuel (b.drop 2) (d+2) := by
  simp only [scan, lenLt, decide_eq_true_eq]

theorem spec_cons (x : UInt8) (t : Bytes) (d : Nat) : spec (x :: t) d =
    if (x :: t).length < headerLength then .err .noExif
    else if isSig (x :: t) then .ok (mkHeader (x :: t) d)
    else spec t (d+1) := by
  simp only [spec, lenLt, decide_eq_true_eq]

theorem iterations_succ (fuel : Nat) (b : Bytes) : iterations (fuel+1) b =
    if b.length < headerLength then 1
    else if isSig b then 1
    else if adv1 b then 1 + iterations fuel (b.drop 1)
    else 1 + iterations fuel (b.drop 2) := by
  simp only [iterations, lenLt, decide_eq_true_eq]

theorem scan_short (f : Nat) (b : Bytes) (d : Nat) (h : b.length < headerLength) (hf : 0 < f) :
    scan f b d = .err .noExif := by
  cases f with
  | zero => omega
  | succ f => rw [scan_succ, if_pos h]

theorem spec_short (b : Bytes) (d : Nat) (h : b.length < headerLength) :
    spec b d = .err .noExif := by
  cases b with
  | nil => rfl
  | cons x t => rw [spec_cons, if_pos h]

theorem take4_cons (y : UInt8) (t : Bytes) :
    ∃ r, (y :: t).take 4 = y :: r := ⟨t.take 3, by simp [List.take]⟩

/-- if the code advances by two, no signature starts at index 1 -/
theorem no_sig_at_one (x y : UInt8) (t : Bytes) (h : adv1 (x :: y :: t) = false) :
    isSig (y :: t) = false := by
  simp only [adv1, Bool.or_eq_false_iff, beq_eq_false_iff_ne, ne_eq] at h
  obtain ⟨r, hr⟩ := take4_cons y t
  simp only [isSig, isBE, isLE, hr, sigBE, sigLE, Bool.or_eq_false_iff, beq_eq_false_iff_ne, ne_eq,
    List.cons.injEq, not_and]
  exact ⟨fun h' => absurd h' h.2, fun h' => absurd h' h.1⟩

/-- The scan loop computes the specification, given fuel for one iteration per byte
(plus one for the final failing Peek). -/
theorem scan_eq_spec_aux (n : Nat) : ∀ (fuel : Nat) (b : Bytes) (d : Nat),
    b.length ≤ n → b.length < fuel → scan fuel b d = spec b d := by
  induction n with
  | zero =>
    intro fuel b d hn hf
    have : b = [] := List.length_eq_zero_iff.mp (by omega)
    subst this
    rw [scan_short _ _ _ (by simp [headerLength]) (by omega)]; rfl
  | succ n ih =>
    intro fuel b d hn hf
    by_cases h32 : b.length < headerLength
    · rw [scan_short _ _ _ h32 (by omega), spec_short _ _ h32]
    · match fuel, b, hf, hn, h32 with
      | 0, _, hf, _, _ => omega
      | fuel+1, [], _, _, h32 => simp [headerLength] at h32
      | fuel+1, [x], _, _, h32 => simp [headerLength] at h32
      | fuel+1, x :: y :: t, hf, hn, h32 =>
        simp only [List.length_cons] at hf hn
        by_cases hs : isSig (x :: y :: t) = true
        · rw [scan_succ, spec_cons x (y :: t) d]
          simp only [h32, hs, if_true, if_false]
        · have hs' : isSig (x :: y :: t) = false := by simpa using hs
          by_cases ha : adv1 (x :: y :: t) = true
          · rw [scan_succ, spec_cons x (y :: t) d]
            simp only [h32, hs', ha, if_true, if_false, Bool.false_eq_true,
              List.drop_succ_cons, List.drop_zero]
            exact ih fuel (y :: t) (d+1) (by simp only [List.length_cons]; omega)
              (by simp only [List.length_cons]; omega)
          · have ha' : adv1 (x :: y :: t) = false := by simpa using ha
            have hy := no_sig_at_one x y t ha'
            simp only [scan_succ, h32, hs', ha', if_false, Bool.false_eq_true,
              List.drop_succ_cons, List.drop_zero]
            -- unfold spec two steps: at x (no sig) and at y (no sig)
            rw [show spec (x :: y :: t) d = spec (y :: t) (d+1) by
              rw [spec_cons x (y :: t) d]; simp only [h32, hs', if_false, Bool.false_eq_true]]
            by_cases h31 : (y :: t).length < headerLength
            · rw [spec_short _ _ h31]
              have ht : t.length < headerLength := by
                have := h31; simp only [List.length_cons] at this; omega
              by_cases hfz : fuel = 0
              · omega
              · exact scan_short _ _ _ ht (by omega)
            · rw [show spec (y :: t) (d+1) = spec t (d+1+1) by
                rw [spec_cons y t (d+1)]; simp only [h31, hy, if_false, Bool.false_eq_true]]
              exact ih fuel t (d+2) (by omega) (by omega)

theorem iterations_le (fuel : Nat) (b : Bytes) : iterations fuel b ≤ b.length + 1 := by
  induction fuel generalizing b with
  | zero => simp [iterations]
  | succ f ih =>
    rw [iterations_succ]
    split
    · omega
    · split
      · omega
      · split
        · have := ih (b.drop 1); simp only [List.length_drop] at this
          rename_i h _ _; simp only [headerLength] at h; omega
        · have := ih (b.drop 2); simp only [List.length_drop] at this
          rename_i h _ _; simp only [headerLength] at h; omega

end Imeta.Tiff
