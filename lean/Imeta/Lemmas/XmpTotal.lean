/-
  The XMP reader model terminates: the look-ahead loops give up after at most four resp. thirteen windows, every other
  loop consumes input on each round. No call with the fuel the model provides ends in the `fuel` outcome.
-/
import Imeta.Model.Xmp
namespace Imeta.Xmp

def isFuel {α} : Except XErr α → Prop
  | .error .fuel => True
  | _ => False

/-- `m` neither runs out of fuel nor gives input back -/
def OK {α} (m : M α) : Prop := ∀ st, ¬ isFuel (m st).1 ∧ (m st).2.rest.length ≤ st.rest.length

theorem bind_ok {α β} (m : M α) (f : α → M β) (st st' : St) (a : α) (h : m st = (.ok a, st')) : (m >>= f) st = f a st' := by
  show (match m st with | (.ok a, st') => f a st' | (.error e, st') => (.error e, st')) = _
  rw [h]
theorem bind_err {α β} (m : M α) (f : α → M β) (st st' : St) (e : XErr) (h : m st = (.error e, st')) : (m >>= f) st = (.error e, st') := by
  show (match m st with | (.ok a, st') => f a st' | (.error e, st') => (.error e, st')) = _
  rw [h]

theorem OK.pure {α} (a : α) : OK (pure a : M α) := fun _ => ⟨by simp [isFuel, Pure.pure], Nat.le_refl _⟩
theorem OK.fail {α} (e : XErr) (he : e ≠ .fuel) : OK (fail e : M α) := by
  intro st; refine ⟨?_, Nat.le_refl _⟩
  unfold Xmp.fail isFuel; cases e <;> simp_all

theorem OK.bind {α β} {m : M α} {f : α → M β} (hm : OK m) (hf : ∀ a, OK (f a)) : OK (m >>= f) := by
  intro st
  have h1 := hm st
  cases hms : m st with
  | mk r st1 =>
    rw [hms] at h1
    cases r with
    | ok a =>
      rw [bind_ok _ _ _ _ _ hms]
      have h2 := hf a st1
      exact ⟨h2.1, Nat.le_trans h2.2 h1.2⟩
    | error e =>
      rw [bind_err _ _ _ _ _ hms]
      refine ⟨?_, h1.2⟩
      have := h1.1
      cases e <;> simp_all [isFuel]

theorem OK.peek (n : Nat) : OK (peek n) := by
  intro st; unfold Xmp.peek
  repeat' split
  all_goals exact ⟨by simp [isFuel], Nat.le_refl _⟩
theorem OK.peekWide (n : Nat) (old : Bytes) : OK (peekWide n old) := by
  intro st; unfold Xmp.peekWide
  exact ⟨by simp [isFuel], Nat.le_refl _⟩
theorem OK.discard (n : Nat) : OK (discard n) := by
  intro st; unfold Xmp.discard; exact ⟨by simp [isFuel], by simp⟩
theorem OK.setA (b : Bool) : OK (setA b) := fun _ => ⟨by simp [isFuel, Xmp.setA], Nat.le_refl _⟩
theorem OK.getA : OK getA := fun _ => ⟨by simp [isFuel, Xmp.getA], Nat.le_refl _⟩
theorem OK.emit (t : Tok) : OK (emit t) := by
  intro st; unfold Xmp.emit; refine ⟨by simp [isFuel], ?_⟩
  split <;> simp
theorem OK.at? (buf : Bytes) (i : Nat) : OK (at? buf i) := by
  unfold Xmp.at?
  split
  · exact OK.pure _
  · exact OK.fail _ (by decide)

attribute [irreducible] OK

macro "ok_step" : tactic => `(tactic| first
  | with_reducible exact OK.pure _ | with_reducible exact OK.fail _ (by decide)
  | with_reducible exact OK.peek _ | with_reducible exact OK.peekWide _ _ | with_reducible exact OK.discard _ | with_reducible exact OK.setA _
  | with_reducible exact OK.getA | with_reducible exact OK.emit _ | with_reducible exact OK.at? _ _
  | with_reducible assumption
  | with_reducible apply OK.bind
  | intro _
  | split
  | dsimp only)
macro "ok_auto" : tactic => `(tactic| repeat' ok_step)

/-- readAttrValue with fuel f+1 ends without the fuel outcome as soon as the window after f more enlargements exceeds
the buffer (the call sites pass fuel 8 and a 256-byte window) -/
theorem OK.readAttrValue (tag : Tag) : ∀ (f sz : Nat), W < sz + 512 * f → OK (readAttrValue tag (f + 1) sz) := by
  intro f
  induction f with
  | zero =>
    intro sz h
    unfold OK
    intro st
    unfold Xmp.readAttrValue
    have hp : Xmp.peek sz st = (.error .bufferFull, st) := by unfold Xmp.peek; rw [if_pos (by omega)]
    rw [bind_err _ _ _ _ _ hp]
    exact ⟨by simp [isFuel], Nat.le_refl _⟩
  | succ f ih =>
    intro sz h
    have ihn := ih (sz + 512) (by omega)
    unfold Xmp.readAttrValue
    ok_auto

theorem OK.readAttrValue8 (tag : Tag) : OK (Xmp.readAttrValue tag 8 256) := OK.readAttrValue tag 7 256 (by unfold W; omega)

end Imeta.Xmp

namespace Imeta.Xmp

/-- findTagStart with fuel f+1 and window sz: no fuel outcome once sz + 128·f exceeds the buffer -/
theorem OK.findTagStart : ∀ (f sz i : Nat), W < sz + 128 * f → OK (findTagStart (f + 1) sz i) := by
  intro f
  induction f with
  | zero =>
    intro sz i h
    unfold OK
    intro st
    unfold Xmp.findTagStart
    have hp : Xmp.peek sz st = (.error .bufferFull, st) := by unfold Xmp.peek; rw [if_pos (by omega)]
    rw [bind_err _ _ _ _ _ hp]
    exact ⟨by simp [isFuel], Nat.le_refl _⟩
  | succ f ih =>
    intro sz i h
    have ihn := fun j => ih (sz + 128) j (by omega)
    unfold Xmp.findTagStart
    ok_auto
    all_goals exact ihn _

theorem OK.readTagValue : ∀ (f sz i j : Nat), W < sz + 512 * f → OK (readTagValue (f + 1) sz i j) := by
  intro f
  induction f with
  | zero =>
    intro sz i j h
    unfold OK
    intro st
    unfold Xmp.readTagValue
    have hp : Xmp.peek sz st = (.error .bufferFull, st) := by unfold Xmp.peek; rw [if_pos (by omega)]
    rw [bind_err _ _ _ _ _ hp]
    exact ⟨by simp [isFuel], Nat.le_refl _⟩
  | succ f ih =>
    intro sz i j h
    have ihn := fun a b => ih (sz + 512) a b (by omega)
    unfold Xmp.readTagValue
    ok_auto
    all_goals exact ihn _ _

theorem OK.readTagHeader (parent : Tag) : OK (readTagHeader parent) := by
  unfold Xmp.readTagHeader
  have := OK.findTagStart 15 128 0 (by unfold W; omega)
  ok_auto

/-- success strictly consumes input -/
def Prog {α} (m : M α) : Prop := ∀ st a st', m st = (.ok a, st') → st'.rest.length < st.rest.length

theorem discard_len (n : Nat) (st : St) : (Xmp.discard n st).2.rest.length = st.rest.length - n := by
  unfold Xmp.discard; simp

end Imeta.Xmp

namespace Imeta.Xmp

theorem peek_state (n : Nat) (st : St) : (Xmp.peek n st).2 = st := by
  unfold Xmp.peek; repeat' split
  all_goals rfl

theorem peek_len (n : Nat) (st st' : St) (b : Bytes) (h : Xmp.peek n st = (.ok b, st')) : b.length ≤ st.rest.length := by
  unfold Xmp.peek at h
  split at h
  · simp at h
  · split at h
    · split at h
      · simp only [Prod.mk.injEq, Except.ok.injEq] at h; rw [← h.1]; exact Nat.le_refl _
      · simp at h
    · simp only [Prod.mk.injEq, Except.ok.injEq] at h; rw [← h.1]; simp only [List.length_take]; exact Nat.min_le_right _ _

theorem at_state (buf : Bytes) (i : Nat) (st : St) : (Xmp.at? buf i st).2 = st := by
  unfold Xmp.at?; cases buf[i]? <;> rfl

/-- a found tag start lies at least one byte into a non-empty stream, and looking for it consumes nothing -/
theorem findTagStart_spec : ∀ (f sz i0 : Nat) (st st' : St) (t : TagT) (buf : Bytes) (i : Nat),
    findTagStart f sz i0 st = (.ok (t, buf, i), st') → st' = st ∧ 1 ≤ i ∧ 1 ≤ st.rest.length := by
  intro f
  induction f with
  | zero => intro sz i0 st st' t buf i h; simp [Xmp.findTagStart, Xmp.fail] at h
  | succ f ih =>
    intro sz i0 st st' t buf i h
    unfold Xmp.findTagStart at h
    cases hp : Xmp.peek sz st with
    | mk r sp =>
      have hsp : sp = st := by have := peek_state sz st; rw [hp] at this; exact this
      subst hsp
      cases r with
      | error e => rw [bind_err _ _ _ _ _ hp] at h; simp at h
      | ok pb =>
        rw [bind_ok _ _ _ _ _ hp] at h
        have hlen := peek_len sz sp sp pb hp
        split at h
        · next hk =>
          -- the second look neither fails nor changes the state
          obtain ⟨wb, hw⟩ : ∃ wb, (if pb.length - idxFrom (fun x => x == 60) pb i0 < 128 then
              Xmp.peekWide (min (idxFrom (fun x => x == 60) pb i0 + 128) W) pb else (Pure.pure pb : M Bytes)) sp = (.ok wb, sp) := by
            split
            · exact ⟨_, rfl⟩
            · exact ⟨_, rfl⟩
          rw [bind_ok _ _ _ _ _ hw] at h
          split at h
          · simp [Xmp.fail] at h
          · cases ha : Xmp.at? wb (idxFrom (fun x => x == 60) pb i0 + 1) sp with
            | mk r2 s2 =>
              have hs2 : s2 = sp := by have := at_state wb (idxFrom (fun x => x == 60) pb i0 + 1) sp; rw [ha] at this; exact this
              subst hs2
              cases r2 with
              | error e => rw [bind_err _ _ _ _ _ ha] at h; simp at h
              | ok n1 =>
                rw [bind_ok _ _ _ _ _ ha] at h
                split at h
                · simp only [Pure.pure, Prod.mk.injEq, Except.ok.injEq] at h
                  obtain ⟨⟨_, _, h3⟩, h4⟩ := h
                  exact ⟨h4.symm, by omega, by omega⟩
                · split at h
                  · simp [Xmp.fail] at h
                  · simp only [Pure.pure, Prod.mk.injEq, Except.ok.injEq] at h
                    obtain ⟨⟨_, _, h3⟩, h4⟩ := h
                    exact ⟨h4.symm, by omega, by omega⟩
        · exact ih _ _ sp st' t buf i h

theorem Prog.readTagHeader (parent : Tag) : Prog (readTagHeader parent) := by
  intro st tag st' h
  unfold Xmp.readTagHeader at h
  cases hf : Xmp.findTagStart 16 128 0 st with
  | mk r s1 =>
    cases r with
    | error e => rw [bind_err _ _ _ _ _ hf] at h; simp at h
    | ok tbi =>
      obtain ⟨t, buf, i⟩ := tbi
      obtain ⟨hs1, hi, hne⟩ := findTagStart_spec 16 128 0 st s1 t buf i hf
      subst hs1
      rw [bind_ok _ _ _ _ _ hf] at h
      cases hpn : parseTagName buf with
      | none => simp only [hpn] at h; simp [Xmp.fail] at h
      | some pd =>
        obtain ⟨p, d⟩ := pd
        simp only [hpn] at h
        cases ha : Xmp.at? buf d s1 with
        | mk r2 s2 =>
          have hs2 : s2 = s1 := by have := at_state buf d s1; rw [ha] at this; exact this
          subst hs2
          cases r2 with
          | error e => rw [bind_err _ _ _ _ _ ha] at h; simp at h
          | ok c =>
            rw [bind_ok _ _ _ _ _ ha] at h
            -- every remaining path is: (setA …;) discard (… + i); pure …   with i ≥ 1
            have key : ∀ (n : Nat) (b : Option Bool) (tg : Tag) (s3 : St),
                ((match b with | some v => Xmp.setA v | none => (Pure.pure () : M Unit)) >>= fun _ => Xmp.discard (n + i) >>= fun _ => (Pure.pure tg : M Tag)) s2 = (.ok tag, s3) →
                s3.rest.length < s2.rest.length := by
              intro n b tg s3 hh
              cases b <;>
                (simp only [Xmp.setA, Xmp.discard, Pure.pure, Bind.bind] at hh
                 simp only [Prod.mk.injEq] at hh
                 rw [← hh.2]; simp only [List.length_drop]; omega)
            split at h
            · exact key (d + 1) (some false) _ st' (by simpa [Nat.add_assoc, Nat.add_comm, Nat.add_left_comm] using h)
            · split at h
              · exact key d (some true) _ st' h
              · cases ha1 : Xmp.at? buf (d + 1) s2 with
                | mk r3 s3 =>
                  have hs3 : s3 = s2 := by have := at_state buf (d + 1) s2; rw [ha1] at this; exact this
                  subst hs3
                  cases r3 with
                  | error e => rw [bind_err _ _ _ _ _ ha1] at h; simp at h
                  | ok c1 =>
                    rw [bind_ok _ _ _ _ _ ha1] at h
                    split at h
                    · exact key (d + 2) (some false) _ st' (by simpa [Nat.add_assoc, Nat.add_comm, Nat.add_left_comm] using h)
                    · exact key d none _ st' h

end Imeta.Xmp

namespace Imeta.Xmp

def OKat {α} (m : M α) (st : St) : Prop := ¬ isFuel (m st).1 ∧ (m st).2.rest.length ≤ st.rest.length

theorem OK.at {α} {m : M α} (h : OK m) (st : St) : OKat m st := by unfold OK at h; exact h st

theorem OKat.bind {α β} {m : M α} {f : α → M β} {st : St} (hm : OKat m st)
    (hf : ∀ a st1, m st = (.ok a, st1) → OKat (f a) st1) : OKat (m >>= f) st := by
  unfold OKat at *
  cases hms : m st with
  | mk r st1 =>
    rw [hms] at hm
    cases r with
    | ok a =>
      rw [bind_ok _ _ _ _ _ hms]
      have h2 := hf a st1 hms
      exact ⟨h2.1, Nat.le_trans h2.2 hm.2⟩
    | error e =>
      rw [bind_err _ _ _ _ _ hms]
      refine ⟨?_, hm.2⟩
      have := hm.1
      cases e <;> simp_all [isFuel]

theorem idxFrom_ge (p : UInt8 → Bool) (buf : Bytes) (i : Nat) : i ≤ idxFrom p buf i := by unfold idxFrom; omega

theorem parseAttrName_spec (buf : Bytes) (p : Prop2) (d : Nat) (h : parseAttrName buf = some (p, d)) : 2 ≤ d ∧ d < buf.length := by
  unfold parseAttrName at h
  simp only [] at h
  split at h
  · next hlt =>
    simp only [Option.some.injEq, Prod.mk.injEq] at h
    rw [← h.2]
    exact ⟨Nat.le_trans (by omega) (idxFrom_ge _ _ _), hlt⟩
  · simp at h

/-- skipping white space in front of an attribute name: no fuel outcome when the fuel exceeds the unread length; the
returned window lies inside what is still unread -/
theorem skipAttrWs_spec : ∀ (f : Nat) (st : St), st.rest.length < f →
    (¬ isFuel (skipAttrWs f st).1 ∧ (skipAttrWs f st).2.rest.length ≤ st.rest.length) ∧
    ∀ buf st', skipAttrWs f st = (.ok buf, st') → buf.length ≤ st'.rest.length := by
  intro f
  induction f with
  | zero => intro st h; omega
  | succ f ih =>
    intro st hlt
    unfold Xmp.skipAttrWs
    cases hp : Xmp.peek 128 st with
    | mk r sp =>
      have hsp : sp = st := by have := peek_state 128 st; rw [hp] at this; exact this
      subst hsp
      cases r with
      | error e =>
        rw [bind_err _ _ _ _ _ hp]
        refine ⟨⟨?_, Nat.le_refl _⟩, by intro buf st' h; simp at h⟩
        unfold Xmp.peek at hp
        repeat' split at hp
        all_goals (simp only [Prod.mk.injEq] at hp; try (rw [← hp.1]; simp [isFuel]))
      | ok pb =>
        have hlen := peek_len 128 sp sp pb hp
        rw [bind_ok _ _ _ _ _ hp]
        by_cases hn0 : (List.findIdx (fun b => !isWs b) pb == 0) = true
        · simp only [hn0, if_true]
          refine ⟨⟨by simp [isFuel, Pure.pure], Nat.le_refl _⟩, ?_⟩
          intro buf st' h
          simp only [Pure.pure, Prod.mk.injEq, Except.ok.injEq] at h
          rw [← h.1, ← h.2]; exact hlen
        · simp only [hn0, Bool.false_eq_true, if_false]
          have hn1 : 1 ≤ List.findIdx (fun b => !isWs b) pb := by
            have : List.findIdx (fun b => !isWs b) pb ≠ 0 := by simpa using hn0
            omega
          have hnle : List.findIdx (fun b => !isWs b) pb ≤ pb.length := List.findIdx_le_length
          have hd : (Xmp.discard (List.findIdx (fun b => !isWs b) pb) sp) = (.ok (), { sp with rest := sp.rest.drop (List.findIdx (fun b => !isWs b) pb) }) := rfl
          rw [bind_ok _ _ _ _ _ hd]
          have hl2 : ({ sp with rest := sp.rest.drop (List.findIdx (fun b => !isWs b) pb) } : St).rest.length < f := by
            simp only [List.length_drop]; omega
          have := ih _ hl2
          refine ⟨⟨this.1.1, ?_⟩, this.2⟩
          have h3 := this.1.2
          have h4 : ({ sp with rest := sp.rest.drop (List.findIdx (fun b => !isWs b) pb) } : St).rest.length ≤ sp.rest.length := by
            simp only [List.length_drop]; omega
          exact Nat.le_trans h3 h4

theorem OK.attrTail (tag : Tag) (p : Prop2) (d : Nat) :
    OK (do Xmp.discard d; let (v, tag') ← Xmp.readAttrValue tag 8 256; (Pure.pure ({ pt := 1, parent := tag.self, self := p, val := v }, tag') : M (Tok × Tag))) := by
  have := OK.readAttrValue8 tag
  ok_auto

theorem OK.attrRest (tag : Tag) (p : Prop2) :
    OK (do let (v, tag') ← Xmp.readAttrValue tag 8 256; (Pure.pure ({ pt := 1, parent := tag.self, self := p, val := v }, tag') : M (Tok × Tag))) := by
  have := OK.readAttrValue8 tag
  ok_auto

/-- readAttribute: no fuel outcome; success consumes at least one byte -/
theorem readAttribute_spec (tag : Tag) (st : St) :
    (¬ isFuel (readAttribute tag st).1 ∧ (readAttribute tag st).2.rest.length ≤ st.rest.length) ∧
    ∀ x st', readAttribute tag st = (.ok x, st') → st'.rest.length < st.rest.length := by
  unfold Xmp.readAttribute
  rw [bind_ok (fun st : St => ((Except.ok (List.length st.rest) : Except XErr Nat), st)) _ st st st.rest.length rfl]
  have hsk := skipAttrWs_spec (st.rest.length + 2) st (by omega)
  cases hs : Xmp.skipAttrWs (st.rest.length + 2) st with
  | mk r s1 =>
    have h1 := hsk.1
    rw [hs] at h1
    cases r with
    | error e =>
      rw [bind_err _ _ _ _ _ hs]
      refine ⟨⟨?_, h1.2⟩, by intro x st' h; simp at h⟩
      have := h1.1
      cases e <;> simp_all [isFuel]
    | ok buf =>
      have hbl := hsk.2 buf s1 hs
      rw [bind_ok _ _ _ _ _ hs]
      have h1b' : s1.rest.length ≤ st.rest.length := h1.2
      split
      · -- '>' after white space: the tag ends here; one byte is consumed
        next hgt =>
        have hb1 : 1 ≤ buf.length := by
          have := congrArg List.length (eq_of_beq hgt)
          simp only [List.length_take, List.length_cons, List.length_nil] at this
          omega
        refine ⟨⟨by simp [isFuel, Xmp.setA, Xmp.discard, bind, Pure.pure], ?_⟩, ?_⟩
        · show ({ ({ s1 with a := false } : St) with rest := s1.rest.drop 1 } : St).rest.length ≤ st.rest.length
          simp only [List.length_drop]; omega
        · intro x st' h
          have : st' = ({ ({ s1 with a := false } : St) with rest := s1.rest.drop 1 } : St) := by
            have h' : ((Except.ok ({ pt := 1, parent := tag.self, self := (0, 0), val := [] }, tag) : Except XErr (Tok × Tag)),
                ({ ({ s1 with a := false } : St) with rest := s1.rest.drop 1 } : St)) = (.ok x, st') := h
            simp only [Prod.mk.injEq] at h'
            exact h'.2.symm
          rw [this]
          simp only [List.length_drop]; omega
      · split
        · next hsg =>
          have hb2 : 2 ≤ buf.length := by
            have := congrArg List.length (eq_of_beq hsg)
            simp only [List.length_take, List.length_cons, List.length_nil] at this
            omega
          refine ⟨⟨by simp [isFuel, Xmp.setA, Xmp.discard, bind, Pure.pure], ?_⟩, ?_⟩
          · show ({ ({ s1 with a := false } : St) with rest := s1.rest.drop 2 } : St).rest.length ≤ st.rest.length
            simp only [List.length_drop]; omega
          · intro x st' h
            have : st' = ({ ({ s1 with a := false } : St) with rest := s1.rest.drop 2 } : St) := by
              have h' : ((Except.ok ({ pt := 1, parent := tag.self, self := (0, 0), val := [] }, { tag with t := .solo }) : Except XErr (Tok × Tag)),
                  ({ ({ s1 with a := false } : St) with rest := s1.rest.drop 2 } : St)) = (.ok x, st') := h
              simp only [Prod.mk.injEq] at h'
              exact h'.2.symm
            rw [this]
            simp only [List.length_drop]; omega
        · skip
          cases hpn : parseAttrName buf with
          | none =>
            simp only [hpn]
            exact ⟨⟨by simp [isFuel, Xmp.fail], h1.2⟩, by intro x st' h; simp [Xmp.fail] at h⟩
          | some pd =>
            obtain ⟨p, d⟩ := pd
            simp only [hpn]
            obtain ⟨hd2, hdl⟩ := parseAttrName_spec buf p d hpn
            have hd : (Xmp.discard d s1) = (.ok (), { s1 with rest := s1.rest.drop d }) := rfl
            rw [bind_ok _ _ _ _ _ hd]
            have hR : OKat (skipAttrWs (st.rest.length + 2) >>= fun _ => (do let (v, tag') ← Xmp.readAttrValue tag 8 256; (Pure.pure ({ pt := 1, parent := tag.self, self := p, val := v }, tag') : M (Tok × Tag)))) { s1 with rest := s1.rest.drop d } := by
              apply OKat.bind (show OKat (skipAttrWs (st.rest.length + 2)) { s1 with rest := s1.rest.drop d } from
                (skipAttrWs_spec (st.rest.length + 2) { s1 with rest := s1.rest.drop d } (by simp only [List.length_drop]; omega)).1)
              intro x s' _
              exact (OK.attrRest tag p).at s'
            unfold OKat at hR
            have hdl2 : ({ s1 with rest := s1.rest.drop d } : St).rest.length + d = s1.rest.length := by
              simp only [List.length_drop]; omega
            have h1b : s1.rest.length ≤ st.rest.length := h1.2
            have hle1 : ({ s1 with rest := s1.rest.drop d } : St).rest.length ≤ st.rest.length := by omega
            have hlt1 : ({ s1 with rest := s1.rest.drop d } : St).rest.length < st.rest.length := by omega
            refine ⟨⟨hR.1, Nat.le_trans hR.2 hle1⟩, ?_⟩
            intro x st' h
            have h2 : st'.rest.length ≤ ({ s1 with rest := s1.rest.drop d } : St).rest.length := by
              have := hR.2
              rw [h] at this
              exact this
            exact Nat.lt_of_le_of_lt h2 hlt1


end Imeta.Xmp

namespace Imeta.Xmp

theorem emit_rest (t : Tok) (st st' : St) (u : Unit) (h : Xmp.emit t st = (.ok u, st')) : st'.rest = st.rest := by
  unfold Xmp.emit at h
  simp only [Prod.mk.injEq] at h
  rw [← h.2]; split <;> rfl

theorem getA_state (st st' : St) (a : Bool) (h : Xmp.getA st = (.ok a, st')) : st' = st := by
  unfold Xmp.getA at h; simp only [Prod.mk.injEq] at h; exact h.2.symm

theorem OKat.mono {α} {m : M α} {st : St} (h : OKat m st) : (m st).2.rest.length ≤ st.rest.length := h.2

/-- the attribute loop: with fuel above the unread length it never runs dry -/
theorem attrLoop_ok (seqOf : Option Prop2) : ∀ (f : Nat) (tag : Tag) (st : St), st.rest.length < f → OKat (attrLoop seqOf f tag) st := by
  intro f
  induction f with
  | zero => intro tag st h; omega
  | succ f ih =>
    intro tag st hlt
    unfold Xmp.attrLoop
    apply OKat.bind (OK.getA.at st)
    intro a st0 hg
    have := getA_state st st0 a hg
    subst this
    split
    · have hspec := readAttribute_spec tag st0
      apply OKat.bind (show OKat (readAttribute tag) st0 from hspec.1)
      intro x st1 hx
      have hprog := hspec.2 x st1 hx
      obtain ⟨tok, tag'⟩ := x
      simp only []
      have hemit : ∀ (t : Tok), OKat (Xmp.emit t >>= fun _ => attrLoop seqOf f tag') st1 := by
        intro t
        apply OKat.bind ((OK.emit t).at st1)
        intro u st2 he
        have hr := emit_rest t st1 st2 u he
        exact ih tag' st2 (by rw [hr]; omega)
      cases seqOf with
      | none => exact hemit _
      | some pp => exact hemit _
    · exact (OK.pure tag).at st0

end Imeta.Xmp

namespace Imeta.Xmp

theorem OK.readTagValue8 : OK (Xmp.readTagValue 8 512 0 0) := OK.readTagValue 7 512 0 0 (by unfold W; omega)

/-- what follows the header of an array item (attributes, value, emit): never fuel, never gives input back -/
theorem seqItem_ok (pp ps : Prop2) (tag : Tag) (st : St) :
    OKat (do
      let len ← (fun st => (.ok st.rest.length, st) : M Nat)
      let _ ← attrLoop (some pp) (len + 2) tag
      let v ← readTagValue 8 512 0 0
      emit { pt := 2, parent := ps, self := pp, val := v }) st := by
  apply OKat.bind (m := (fun st => (.ok st.rest.length, st) : M Nat)) ⟨by simp [isFuel], Nat.le_refl _⟩
  intro len st0 h
  simp only [Prod.mk.injEq, Except.ok.injEq] at h
  obtain ⟨h1, h2⟩ := h
  subst h2; subst h1
  apply OKat.bind (attrLoop_ok (some pp) _ tag st (by omega))
  intro _ st1 _
  apply OKat.bind (OK.readTagValue8.at st1)
  intro v st2 _
  exact (OK.emit _).at st2

theorem readSeqTags_ok (parent : Tag) : ∀ (f : Nat) (st : St), st.rest.length < f → OKat (readSeqTags parent f) st := by
  intro f
  induction f with
  | zero => intro st h; omega
  | succ f ih =>
    intro st hlt
    unfold Xmp.readSeqTags
    apply OKat.bind ((OK.readTagHeader parent).at st)
    intro tag st1 hh
    have hp := Prog.readTagHeader parent st tag st1 hh
    split
    · exact (OK.pure ()).at st1
    · split
      · -- item: attributes, value, emit, then the rest of the array
        have hitem := seqItem_ok parent.parent parent.self tag st1
        show OKat ((fun st => (.ok st.rest.length, st) : M Nat) >>= fun len => attrLoop (some parent.parent) (len + 2) tag >>= fun _ =>
          readTagValue 8 512 0 0 >>= fun v => Xmp.emit { pt := 2, parent := parent.self, self := parent.parent, val := v } >>= fun _ => readSeqTags parent f) st1
        apply OKat.bind (m := (fun st => (.ok st.rest.length, st) : M Nat)) ⟨by simp [isFuel], Nat.le_refl _⟩
        intro len st0 h
        simp only [Prod.mk.injEq, Except.ok.injEq] at h
        obtain ⟨h1, h2⟩ := h
        subst h2; subst h1
        apply OKat.bind (attrLoop_ok (some parent.parent) _ tag st1 (by omega))
        intro _ st2 h2
        have l2 : st2.rest.length ≤ st1.rest.length := by
          have := (attrLoop_ok (some parent.parent) (st1.rest.length + 2) tag st1 (by omega)).2; rw [h2] at this; exact this
        apply OKat.bind (OK.readTagValue8.at st2)
        intro v st3 h3
        have l3 : st3.rest.length ≤ st2.rest.length := by have := (OK.readTagValue8.at st2).2; rw [h3] at this; exact this
        apply OKat.bind ((OK.emit _).at st3)
        intro u st4 h4
        have l4 := emit_rest _ st3 st4 u h4
        exact ih st4 (by rw [l4]; omega)
      · exact ih st1 (by omega)

theorem readTag_ok : ∀ (f : Nat) (parent : Tag) (st : St), st.rest.length < f → OKat (readTag f parent) st := by
  intro f
  induction f with
  | zero => intro parent st h; omega
  | succ f ih =>
    intro parent st hlt
    unfold Xmp.readTag
    apply OKat.bind ((OK.readTagHeader parent).at st)
    intro tag st1 hh
    have hp := Prog.readTagHeader parent st tag st1 hh
    split
    · exact (OK.pure tag).at st1
    · apply OKat.bind (m := (fun st => (.ok st.rest.length, st) : M Nat)) ⟨by simp [isFuel], Nat.le_refl _⟩
      intro len st0 h
      simp only [Prod.mk.injEq, Except.ok.injEq] at h
      obtain ⟨h1, h2⟩ := h
      subst h2; subst h1
      apply OKat.bind (attrLoop_ok none _ tag st1 (by omega))
      intro tag2 st2 h2
      have l2 : st2.rest.length ≤ st1.rest.length := by
        have := (attrLoop_ok none (st1.rest.length + 2) tag st1 (by omega)).2; rw [h2] at this; exact this
      -- the element's content
      have hcontent : OKat (if tag2.t == .start then
          (if tag2.self == rdfSeq || tag2.self == rdfAlt || tag2.self == rdfBag then do
            readSeqTags tag2 f
            pure tag2
          else do
            let v ← readTagValue 8 512 0 0
            emit { pt := 2, parent := tag2.parent, self := tag2.self, val := v }
            readTag f tag2)
        else pure tag2 : M Tag) st2 := by
        split
        · split
          · apply OKat.bind (readSeqTags_ok tag2 f st2 (by omega))
            intro _ st3 _
            exact (OK.pure tag2).at st3
          · apply OKat.bind (OK.readTagValue8.at st2)
            intro v st3 h3
            have l3 : st3.rest.length ≤ st2.rest.length := by have := (OK.readTagValue8.at st2).2; rw [h3] at this; exact this
            apply OKat.bind ((OK.emit _).at st3)
            intro u st4 h4
            have l4 := emit_rest _ st3 st4 u h4
            exact ih tag2 st4 (by rw [l4]; omega)
        · exact (OK.pure tag2).at st2
      apply OKat.bind hcontent
      intro tag3 st5 h5
      have l5 : st5.rest.length ≤ st2.rest.length := by have := hcontent.2; rw [h5] at this; exact this
      split
      · exact (OK.pure tag3).at st5
      · exact ih parent st5 (by omega)

end Imeta.Xmp

namespace Imeta.Xmp

theorem readSlice_spec (d : UInt8) (st st' : St) (r : Option XErr) (h : readSlice d st = (.ok r, st')) :
    st'.rest.length ≤ st.rest.length ∧ (r ≠ some .eof → st'.rest.length < st.rest.length) := by
  unfold Xmp.readSlice at h
  simp only [] at h
  split at h
  · next hk =>
    simp only [Prod.mk.injEq, Except.ok.injEq] at h
    rw [← h.2]
    have : (st.rest.take W).length ≤ st.rest.length := by simp only [List.length_take]; exact Nat.min_le_right _ _
    simp only [List.length_drop]
    exact ⟨by omega, fun _ => by omega⟩
  · split at h
    · simp only [Prod.mk.injEq, Except.ok.injEq] at h
      rw [← h.2, ← h.1]
      exact ⟨by simp, fun hne => absurd rfl hne⟩
    · next hge =>
      simp only [Prod.mk.injEq, Except.ok.injEq] at h
      rw [← h.2]
      simp only [List.length_drop]
      have : 0 < W := by unfold W; omega
      exact ⟨by omega, fun _ => by omega⟩

theorem readSlice_nofuel (d : UInt8) (st : St) : ¬ isFuel (readSlice d st).1 := by
  unfold Xmp.readSlice; simp only []; repeat' split
  all_goals simp [isFuel]

theorem readRootTag_ok : ∀ (f : Nat) (st : St), st.rest.length < f → OKat (readRootTag f) st := by
  intro f
  induction f with
  | zero => intro st h; omega
  | succ f ih =>
    intro st hlt
    unfold Xmp.readRootTag
    have hsl : OKat (readSlice 60) st := by
      refine ⟨readSlice_nofuel 60 st, ?_⟩
      cases hr : readSlice 60 st with
      | mk r s1 =>
        cases r with
        | ok v => exact (readSlice_spec 60 st s1 v hr).1
        | error e => unfold Xmp.readSlice at hr; simp only [] at hr; repeat' split at hr
                     all_goals simp at hr
    apply OKat.bind hsl
    intro r st1 hr
    have hspec := readSlice_spec 60 st st1 r hr
    cases r with
    | some e =>
      cases e with
      | eof => exact (OK.fail .noXMP (by decide)).at st1
      | noXMP => exact ih st1 (by have := hspec.2 (by simp); omega)
      | bufferFull => exact ih st1 (by have := hspec.2 (by simp); omega)
      | negativeRead => exact ih st1 (by have := hspec.2 (by simp); omega)
      | recovered => exact ih st1 (by have := hspec.2 (by simp); omega)
      | unexpectedEOF => exact ih st1 (by have := hspec.2 (by simp); omega)
      | fuel => exact ih st1 (by have := hspec.2 (by simp); omega)
    | none =>
      have hlt1 : st1.rest.length < f := by have := hspec.2 (by simp); omega
      simp only []
      apply OKat.bind (m := (fun st => (.ok st, st) : M St)) ⟨by simp [isFuel], Nat.le_refl _⟩
      intro s0 st2 h
      simp only [Prod.mk.injEq, Except.ok.injEq] at h
      obtain ⟨h1, h2⟩ := h
      subst h2; subst h1
      split
      · exact (OK.fail .eof (by decide)).at st1
      · split
        · have hsl2 : OKat (readSlice 62) st1 := by
            refine ⟨readSlice_nofuel 62 st1, ?_⟩
            cases hr2 : readSlice 62 st1 with
            | mk r2 s2 =>
              cases r2 with
              | ok v => exact (readSlice_spec 62 st1 s2 v hr2).1
              | error e => unfold Xmp.readSlice at hr2; simp only [] at hr2; repeat' split at hr2
                           all_goals simp at hr2
          apply OKat.bind hsl2
          intro r2 s2 hr2
          cases r2 with
          | none => exact (OK.pure _).at s2
          | some e =>
            refine ⟨?_, Nat.le_refl _⟩
            -- ReadSlice reports end of input or a full buffer, never the model's fuel marker
            unfold Xmp.readSlice at hr2
            simp only [] at hr2
            repeat' split at hr2
            all_goals (simp only [Prod.mk.injEq, Except.ok.injEq] at hr2; try (have := hr2.1; simp at this))
            all_goals (first | (obtain ⟨h1, _⟩ := hr2; cases h1; simp [isFuel, Xmp.fail]) | skip)
        · exact ih st1 hlt1

end Imeta.Xmp

namespace Imeta.Xmp

theorem loop_ok (fuel : Nat) (root : Tag) : ∀ (f : Nat) (st : St), st.rest.length < f → st.rest.length < fuel → OKat (parseXmp.loop fuel root f) st := by
  intro f
  induction f with
  | zero => intro st h; omega
  | succ f ih =>
    intro st hlt hfu
    unfold parseXmp.loop
    apply OKat.bind (readTag_ok fuel root st hfu)
    intro tag st1 h1
    have l1 : st1.rest.length ≤ st.rest.length := by have := (readTag_ok fuel root st hfu).2; rw [h1] at this; exact this
    -- a readTag that returns a tag has read its header: at least one byte
    have hprog : st1.rest.length < st.rest.length := by
      cases fuel with
      | zero => omega
      | succ g =>
        unfold Xmp.readTag at h1
        cases hh : readTagHeader root st with
        | mk r s0 =>
          cases r with
          | error e => rw [bind_err _ _ _ _ _ hh] at h1; simp at h1
          | ok tg =>
            have hp := Prog.readTagHeader root st tg s0 hh
            rw [bind_ok _ _ _ _ _ hh] at h1
            -- everything after the header only consumes
            have hrest : ∀ (m : M Tag), OKat m s0 → m s0 = (.ok tag, st1) → st1.rest.length ≤ s0.rest.length := by
              intro m hm he; have := hm.2; rw [he] at this; exact this
            have hm : OKat (fun s => (readTag (g + 1) root s)) st := readTag_ok (g + 1) root st hfu
            have : st1.rest.length ≤ s0.rest.length := by
              -- re-run the totality argument on the continuation
              have hcont := (readTag_ok (g + 1) root st hfu)
              -- the continuation is exactly what `readTag` does after the header; its state can only shrink from s0
              split at h1
              · simp only [Pure.pure, Prod.mk.injEq] at h1; rw [← h1.2]; exact Nat.le_refl _
              · have hc : OKat (do
                    let len ← (fun st => (.ok st.rest.length, st) : M Nat)
                    let tag ← attrLoop none (len + 2) tg
                    let tag ← (if tag.t == .start then
                        (if tag.self == rdfSeq || tag.self == rdfAlt || tag.self == rdfBag then do
                          readSeqTags tag g
                          pure tag
                        else do
                          let v ← readTagValue 8 512 0 0
                          emit { pt := 2, parent := tag.parent, self := tag.self, val := v }
                          readTag g tag)
                      else pure tag : M Tag)
                    if isRootStop tag then pure tag else readTag g root) s0 := by
                  apply OKat.bind (m := (fun st => (.ok st.rest.length, st) : M Nat)) ⟨by simp [isFuel], Nat.le_refl _⟩
                  intro len st0 h
                  simp only [Prod.mk.injEq, Except.ok.injEq] at h
                  obtain ⟨e1, e2⟩ := h
                  subst e2; subst e1
                  apply OKat.bind (attrLoop_ok none _ tg s0 (by omega))
                  intro tag2 st2 h2
                  have l2 : st2.rest.length ≤ s0.rest.length := by
                    have := (attrLoop_ok none (s0.rest.length + 2) tg s0 (by omega)).2; rw [h2] at this; exact this
                  have hcontent : OKat (if tag2.t == .start then
                      (if tag2.self == rdfSeq || tag2.self == rdfAlt || tag2.self == rdfBag then do
                        readSeqTags tag2 g
                        pure tag2
                      else do
                        let v ← readTagValue 8 512 0 0
                        emit { pt := 2, parent := tag2.parent, self := tag2.self, val := v }
                        readTag g tag2)
                    else pure tag2 : M Tag) st2 := by
                    split
                    · split
                      · apply OKat.bind (readSeqTags_ok tag2 g st2 (by omega))
                        intro _ st3 _
                        exact (OK.pure tag2).at st3
                      · apply OKat.bind (OK.readTagValue8.at st2)
                        intro v st3 h3
                        have l3 : st3.rest.length ≤ st2.rest.length := by have := (OK.readTagValue8.at st2).2; rw [h3] at this; exact this
                        apply OKat.bind ((OK.emit _).at st3)
                        intro u st4 h4
                        have l4 := emit_rest _ st3 st4 u h4
                        exact readTag_ok g tag2 st4 (by rw [l4]; omega)
                    · exact (OK.pure tag2).at st2
                  apply OKat.bind hcontent
                  intro tag3 st5 h5
                  have l5 : st5.rest.length ≤ st2.rest.length := by have := hcontent.2; rw [h5] at this; exact this
                  split
                  · exact (OK.pure tag3).at st5
                  · exact readTag_ok g root st5 (by omega)
                exact hrest _ hc h1
            omega
    split
    · exact (OK.pure ()).at st1
    · exact ih st1 (by omega) (by omega)

/-- **ParseXmp of the model terminates without the fuel outcome, for every input.** -/
theorem parseXmp_total (b : Bytes) : ¬ isFuel (parseXmp b).1 := by
  unfold parseXmp
  simp only []
  have h : OKat (readRootTag (b.length + 8) >>= fun root => parseXmp.loop (b.length + 8) root (b.length + 8)) { rest := b, a := false, toks := [] } := by
    apply OKat.bind (readRootTag_ok (b.length + 8) _ (by simp))
    intro root st1 h1
    have l1 : st1.rest.length ≤ b.length := by
      have := (readRootTag_ok (b.length + 8) { rest := b, a := false, toks := [] } (by simp)).2
      rw [h1] at this; exact this
    exact loop_ok (b.length + 8) root (b.length + 8) st1 (by omega) (by omega)
  exact h.1

end Imeta.Xmp
