/-
  C13: element form, names and all.  `<ns:name>` after any run of bytes without '<' (white space between elements) is read
  as the start tag of the property `identify ns name`, consuming exactly the tag; `</ns:name>` likewise as the stop tag; and a
  whole simple element `<ns:name>v</ns:name>` makes one round of readTag report exactly one token (identify ns name, v) and
  leave the stream right behind the stop tag.
-/
import Imeta.Lemmas.XmpAttr
namespace Imeta.Xmp
open Imeta Imeta.Props.C13

theorem idxFrom_found (p : UInt8 → Bool) (ws X : Bytes) (c : UInt8) (i : Nat) (hi : i ≤ ws.length)
    (hws : ∀ x ∈ ws.drop i, p x = false) (hc : p c = true) : idxFrom p (ws ++ c :: X) i = ws.length := by
  unfold idxFrom
  have e : (ws ++ c :: X).drop i = ws.drop i ++ c :: X := by
    rw [List.drop_append_of_le_length hi]
  rw [e, findIdx_skip p _ _ hws]
  simp [List.findIdx_cons, hc]; omega

theorem idxFrom_none (p : UInt8 → Bool) (buf : Bytes) (i : Nat) (h : ∀ x ∈ buf, p x = false) : buf.length ≤ idxFrom p buf i := by
  unfold idxFrom
  have : (buf.drop i).findIdx p = (buf.drop i).length := by
    have := findIdx_skip p (buf.drop i) [] (fun x hx => h x (List.mem_of_mem_drop hx))
    simpa using this
  rw [this, List.length_drop]; omega


theorem take_at (ws X : Bytes) (c : UInt8) (m : Nat) (hm : ws.length < m) : ((ws ++ c :: X).take m)[ws.length]? = some c := by
  rw [List.getElem?_take_of_lt hm]; simp

/-- the outcome of the scan for the start of a tag, as a function of the byte `c` after the '<' -/
def tagStartResult (st : St) (n m : Nat) (c : UInt8) : Except XErr (TagT × Bytes × Nat) × St :=
  if c == 47 then (.ok (.stop, (st.rest.take m).drop (n + 2), n + 2), st)
  else if c == 63 then (.error .eof, st)
  else (.ok (.start, (st.rest.take m).drop (n + 1), n + 1), st)

/-- the round of the scan whose window reaches the '<' -/
theorem findTagStart_found (ws T : Bytes) (c : UInt8) (hws : ∀ x ∈ ws, (x == 60) = false) (hwin : ws.length + 128 ≤ W)
    (f sz i : Nat) (st : St) (hr : st.rest = ws ++ 60 :: c :: T) (h4 : 4 < st.rest.length)
    (hi : i ≤ ws.length) (hsz : sz ≤ ws.length + 128) (hlt : ws.length < sz) :
    ∃ m, min (ws.length + 128) st.rest.length ≤ m ∧ findTagStart (f + 1) sz i st = tagStartResult st ws.length m c := by
  have hL : st.rest.length = ws.length + 2 + T.length := by rw [hr]; simp; omega
  unfold findTagStart
  rw [bindOk _ _ _ _ _ (peek_take sz st (by omega) h4)]
  -- the window holds the run and the '<'
  have hb : st.rest.take sz = ws ++ 60 :: ((c :: T).take (sz - ws.length - 1)) := by
    rw [hr, List.take_append, List.take_of_length_le (by omega)]
    have : sz - ws.length = (sz - ws.length - 1) + 1 := by omega
    rw [this, List.take_succ_cons]
    simp
  have hk : idxFrom (fun x => x == 60) (st.rest.take sz) i = ws.length := by
    rw [hb]; exact idxFrom_found _ ws _ 60 i hi (fun x hx => hws x (List.mem_of_mem_drop hx)) rfl
  rw [hk]
  have hbl : (st.rest.take sz).length = min sz st.rest.length := List.length_take
  rw [if_pos (by rw [hbl]; omega)]
  -- the second look
  have hwide : ∃ m, min (ws.length + 128) st.rest.length ≤ m ∧
      (if (st.rest.take sz).length - ws.length < 128 then peekWide (min (ws.length + 128) W) (st.rest.take sz)
        else (pure (st.rest.take sz) : M Bytes)) st = (.ok (st.rest.take m), st) := by
    split
    · unfold peekWide
      rw [Nat.min_eq_left hwin]
      split
      · exact ⟨ws.length + 128, Nat.min_le_left _ _, rfl⟩
      · exact ⟨sz, by rw [hbl] at *; omega, rfl⟩
    · exact ⟨sz, by rw [hbl] at *; omega, rfl⟩
  obtain ⟨m, hm, hw⟩ := hwide
  refine ⟨m, hm, ?_⟩
  rw [bindOk _ _ _ _ _ hw]
  have hml : (st.rest.take m).length = min m st.rest.length := List.length_take
  rw [if_neg (by rw [hml]; omega)]
  have hc : (st.rest.take m)[ws.length + 1]? = some c := by
    have e : st.rest = (ws ++ [60]) ++ c :: T := by rw [hr]; simp
    have := take_at (ws ++ [60]) T c m (by simp; omega)
    rw [← e] at this; simpa using this
  rw [bindOk _ _ _ _ _ (at_ok _ _ c st hc)]
  unfold tagStartResult
  split
  · rfl
  · split
    · rfl
    · rfl

/-- **readTagHeader's look-ahead, all windows.** Behind any run `ws` without '<' (up to W − 128 bytes) the scan finds the '<',
consumes nothing and hands on a look-ahead of at least 128 bytes from the '<' on (or everything up to the end of the packet) -/
theorem findTagStart_exact (ws T : Bytes) (c : UInt8) (hws : ∀ x ∈ ws, (x == 60) = false) (hwin : ws.length + 128 ≤ W) :
    ∀ (f sz i : Nat) (st : St), st.rest = ws ++ 60 :: c :: T → 4 < st.rest.length →
      i ≤ ws.length → sz ≤ ws.length + 128 → ws.length < sz + 128 * f →
      ∃ m, min (ws.length + 128) st.rest.length ≤ m ∧ findTagStart (f + 1) sz i st = tagStartResult st ws.length m c := by
  intro f
  induction f with
  | zero =>
    intro sz i st hr h4 hi hsz hf
    exact findTagStart_found ws T c hws hwin 0 sz i st hr h4 hi hsz (by omega)
  | succ f ih =>
    intro sz i st hr h4 hi hsz hf
    by_cases hlt : ws.length < sz
    · exact findTagStart_found ws T c hws hwin (f + 1) sz i st hr h4 hi hsz hlt
    · -- the window ends inside the run: one more round
      unfold findTagStart
      rw [bindOk _ _ _ _ _ (peek_take sz st (by omega) h4)]
      have hb : st.rest.take sz = ws.take sz := by
        rw [hr, List.take_append_of_le_length (by omega)]
      have hnone := idxFrom_none (fun x => x == 60) (ws.take sz) i (fun x hx => hws x (List.mem_of_mem_take hx))
      rw [hb]
      rw [if_neg (by omega)]
      have hl : (ws.take sz).length = sz := by rw [List.length_take]; omega
      obtain ⟨m, hm, he⟩ := ih (sz + 128) (max i (ws.take sz).length) st hr h4 (by rw [hl]; omega) (by omega) (by omega)
      exact ⟨m, hm, he⟩


/-- isTerm: the bytes that end a tag name -/
def isTerm (x : UInt8) : Bool := x == 62 || isWs x || x == 47

/-- the name of a tag: no ':' in the prefix, no '>', '/' or white space in the local name -/
theorem parseTagName_exact (ns name X : Bytes) (term : UInt8)
    (hns : ∀ x ∈ ns, (x == 58) = false) (hname : ∀ x ∈ name, isTerm x = false) (hterm : isTerm term = true) :
    parseTagName (ns ++ 58 :: (name ++ term :: X)) = some (identify ns name, ns.length + 1 + name.length) := by
  unfold parseTagName
  have ha : idxFrom (fun x => x == 58) (ns ++ 58 :: (name ++ term :: X)) 0 = ns.length :=
    idxFrom_found _ ns _ 58 0 (Nat.zero_le _) (by simpa using hns) rfl
  simp only [ha]
  have hb : idxFrom (fun x => x == 62 || isWs x || x == 47) (ns ++ 58 :: (name ++ term :: X)) (ns.length + 1) = ns.length + 1 + name.length := by
    have e : (ns ++ 58 :: (name ++ term :: X) : Bytes) = (ns ++ [58] ++ name) ++ term :: X := by simp
    rw [e]
    have hd : (ns ++ [58] ++ name : Bytes).drop (ns.length + 1) = name := by
      have : (ns ++ [58] : Bytes).length = ns.length + 1 := by simp
      rw [← this, List.drop_left]
    have := idxFrom_found (fun x => x == 62 || isWs x || x == 47) (ns ++ [58] ++ name) X term (ns.length + 1) (by simp)
      (by rw [hd]; exact hname) hterm
    rw [this]; simp; omega
  simp only [hb]
  rw [if_pos (by simp; omega)]
  congr 2
  congr 1
  · simp
  · have e : (ns ++ 58 :: (name ++ term :: X) : Bytes) = (ns ++ [58]) ++ (name ++ term :: X) := by simp
    have hl : (ns ++ [58] : Bytes).length = ns.length + 1 := by simp
    rw [e, ← hl, List.drop_left, hl]
    have : ns.length + 1 + name.length - (ns.length + 1) = name.length := by omega
    rw [this, List.take_left]


theorem isTerm62 : isTerm 62 = true := by decide

/-- what readTagHeader does once the start of the tag is found: name, '>' -/
theorem readTagHeader_after (parent : Tag) (st : St) (t : TagT) (buf : Bytes) (i : Nat) (NS name X R : Bytes)
    (hf : findTagStart 16 128 0 st = (.ok (t, buf, i), st))
    (hb : buf = NS ++ 58 :: (name ++ 62 :: X))
    (hns : ∀ x ∈ NS, (x == 58) = false) (hname : ∀ x ∈ name, isTerm x = false)
    (hdrop : st.rest.drop (NS.length + 1 + name.length + 1 + i) = R) :
    readTagHeader parent st = (.ok { t := t, parent := parent.self, self := identify NS name }, { st with a := false, rest := R }) := by
  unfold readTagHeader
  rw [bindOk _ _ _ _ _ hf]
  simp only [hb, parseTagName_exact NS name X 62 hns hname isTerm62]
  have hc : (NS ++ 58 :: (name ++ 62 :: X) : Bytes)[NS.length + 1 + name.length]? = some 62 := by
    have e : (NS ++ 58 :: (name ++ 62 :: X) : Bytes) = (NS ++ [58] ++ name) ++ 62 :: X := by simp
    have hl : (NS ++ [58] ++ name : Bytes).length = NS.length + 1 + name.length := by simp; omega
    rw [e, ← hl]; simp
  rw [bindOk _ _ _ _ _ (at_ok _ _ 62 st hc)]
  simp only [beq_self_eq_true, if_true]
  show (setA false >>= fun _ => discard (NS.length + 1 + name.length + 1 + i) >>= fun _ => pure _) st = _
  simp only [setA, discard, bind, pure, hdrop]

end Imeta.Xmp
