/-
  C13: element form, names and all.  `<ns:name>` after any run of bytes without '<' (white space between elements) is read
  as the start tag of the property `identify ns name`, consuming exactly the tag; `</ns:name>` likewise as the stop tag; and a
  whole simple element `<ns:name>v</ns:name>` makes one round of readTag report exactly one token (identify ns name, v) and
  leave the stream right behind the stop tag.
-/
import Imeta.Lemmas.XmpAttr
namespace Imeta.Xmp
open Imeta Imeta.Props.C13

theorem idxFrom_found (p : UInt8 → Bool) (ws X : Bytes) (c : UInt8) (i : Nat) (hi : i ≤ ws.length)
    (hws : ∀ x ∈ ws.drop i, p x = false) (hc : p c = true) : idxFrom p (ws ++ c :: X) i = ws.length := by
  unfold idxFrom
  have e : (ws ++ c :: X).drop i = ws.drop i ++ c :: X := by
    rw [List.drop_append_of_le_length hi]
  rw [e, findIdx_skip p _ _ hws]
  simp [List.findIdx_cons, hc]; omega

theorem idxFrom_none (p : UInt8 → Bool) (buf : Bytes) (i : Nat) (h : ∀ x ∈ buf, p x = false) : buf.length ≤ idxFrom p buf i := by
  unfold idxFrom
  have : (buf.drop i).findIdx p = (buf.drop i).length := by
    have := findIdx_skip p (buf.drop i) [] (fun x hx => h x (List.mem_of_mem_drop hx))
    simpa using this
  rw [this, List.length_drop]; omega


theorem take_at (ws X : Bytes) (c : UInt8) (m : Nat) (hm : ws.length < m) : ((ws ++ c :: X).take m)[ws.length]? = some c := by
  rw [List.getElem?_take_of_lt hm]; simp

/-- the outcome of the scan for the start of a tag, as a function of the byte `c` after the '<' -/
def tagStartResult (st : St) (n m : Nat) (c : UInt8) : Except XErr (TagT × Bytes × Nat) × St :=
  if c == 47 then (.ok (.stop, (st.rest.take m).drop (n + 2), n + 2), st)
  else if c == 63 then (.error .eof, st)
  else (.ok (.start, (st.rest.take m).drop (n + 1), n + 1), st)

/-- the round of the scan whose window reaches the '<' -/
theorem findTagStart_found (ws T : Bytes) (c : UInt8) (hws : ∀ x ∈ ws, (x == 60) = false) (hwin : ws.length + 128 ≤ W)
    (f sz i : Nat) (st : St) (hr : st.rest = ws ++ 60 :: c :: T) (h4 : 4 < st.rest.length)
    (hi : i ≤ ws.length) (hsz : sz ≤ ws.length + 128) (hlt : ws.length < sz) :
    ∃ m, min (ws.length + 128) st.rest.length ≤ m ∧ findTagStart (f + 1) sz i st = tagStartResult st ws.length m c := by
  have hL : st.rest.length = ws.length + 2 + T.length := by rw [hr]; simp; omega
  unfold findTagStart
  rw [bindOk _ _ _ _ _ (peek_take sz st (by omega) h4)]
  -- the window holds the run and the '<'
  have hb : st.rest.take sz = ws ++ 60 :: ((c :: T).take (sz - ws.length - 1)) := by
    rw [hr, List.take_append, List.take_of_length_le (by omega)]
    have : sz - ws.length = (sz - ws.length - 1) + 1 := by omega
    rw [this, List.take_succ_cons]
    simp
  have hk : idxFrom (fun x => x == 60) (st.rest.take sz) i = ws.length := by
    rw [hb]; exact idxFrom_found _ ws _ 60 i hi (fun x hx => hws x (List.mem_of_mem_drop hx)) rfl
  rw [hk]
  have hbl : (st.rest.take sz).length = min sz st.rest.length := List.length_take
  rw [if_pos (by rw [hbl]; omega)]
  -- the second look
  have hwide : ∃ m, min (ws.length + 128) st.rest.length ≤ m ∧
      (if (st.rest.take sz).length - ws.length < 128 then peekWide (min (ws.length + 128) W) (st.rest.take sz)
        else (pure (st.rest.take sz) : M Bytes)) st = (.ok (st.rest.take m), st) := by
    split
    · unfold peekWide
      rw [Nat.min_eq_left hwin]
      split
      · exact ⟨ws.length + 128, Nat.min_le_left _ _, rfl⟩
      · exact ⟨sz, by rw [hbl] at *; omega, rfl⟩
    · exact ⟨sz, by rw [hbl] at *; omega, rfl⟩
  obtain ⟨m, hm, hw⟩ := hwide
  refine ⟨m, hm, ?_⟩
  rw [bindOk _ _ _ _ _ hw]
  have hml : (st.rest.take m).length = min m st.rest.length := List.length_take
  rw [if_neg (by rw [hml]; omega)]
  have hc : (st.rest.take m)[ws.length + 1]? = some c := by
    have e : st.rest = (ws ++ [60]) ++ c :: T := by rw [hr]; simp
    have := take_at (ws ++ [60]) T c m (by simp; omega)
    rw [← e] at this; simpa using this
  rw [bindOk _ _ _ _ _ (at_ok _ _ c st hc)]
  unfold tagStartResult
  split
  · rfl
  · split
    · rfl
    · rfl

/-- **readTagHeader's look-ahead, all windows.** Behind any run `ws` without '<' (up to W − 128 bytes) the scan finds the '<',
consumes nothing and hands on a look-ahead of at least 128 bytes from the '<' on (or everything up to the end of the packet) -/
theorem findTagStart_exact (ws T : Bytes) (c : UInt8) (hws : ∀ x ∈ ws, (x == 60) = false) (hwin : ws.length + 128 ≤ W) :
    ∀ (f sz i : Nat) (st : St), st.rest = ws ++ 60 :: c :: T → 4 < st.rest.length →
      i ≤ ws.length → sz ≤ ws.length + 128 → ws.length < sz + 128 * f →
      ∃ m, min (ws.length + 128) st.rest.length ≤ m ∧ findTagStart (f + 1) sz i st = tagStartResult st ws.length m c := by
  intro f
  induction f with
  | zero =>
    intro sz i st hr h4 hi hsz hf
    exact findTagStart_found ws T c hws hwin 0 sz i st hr h4 hi hsz (by omega)
  | succ f ih =>
    intro sz i st hr h4 hi hsz hf
    by_cases hlt : ws.length < sz
    · exact findTagStart_found ws T c hws hwin (f + 1) sz i st hr h4 hi hsz hlt
    · -- the window ends inside the run: one more round
      unfold findTagStart
      rw [bindOk _ _ _ _ _ (peek_take sz st (by omega) h4)]
      have hb : st.rest.take sz = ws.take sz := by
        rw [hr, List.take_append_of_le_length (by omega)]
      have hnone := idxFrom_none (fun x => x == 60) (ws.take sz) i (fun x hx => hws x (List.mem_of_mem_take hx))
      rw [hb]
      rw [if_neg (by omega)]
      have hl : (ws.take sz).length = sz := by rw [List.length_take]; omega
      obtain ⟨m, hm, he⟩ := ih (sz + 128) (max i (ws.take sz).length) st hr h4 (by rw [hl]; omega) (by omega) (by omega)
      exact ⟨m, hm, he⟩


/-- isTerm: the bytes that end a tag name -/
def isTerm (x : UInt8) : Bool := x == 62 || isWs x || x == 47

/-- the name of a tag: no ':' in the prefix, no '>', '/' or white space in the local name -/
theorem parseTagName_exact (ns name X : Bytes) (term : UInt8)
    (hns : ∀ x ∈ ns, (x == 58) = false) (hname : ∀ x ∈ name, isTerm x = false) (hterm : isTerm term = true) :
    parseTagName (ns ++ 58 :: (name ++ term :: X)) = some (identify ns name, ns.length + 1 + name.length) := by
  unfold parseTagName
  have ha : idxFrom (fun x => x == 58) (ns ++ 58 :: (name ++ term :: X)) 0 = ns.length :=
    idxFrom_found _ ns _ 58 0 (Nat.zero_le _) (by simpa using hns) rfl
  simp only [ha]
  have hb : idxFrom (fun x => x == 62 || isWs x || x == 47) (ns ++ 58 :: (name ++ term :: X)) (ns.length + 1) = ns.length + 1 + name.length := by
    have e : (ns ++ 58 :: (name ++ term :: X) : Bytes) = (ns ++ [58] ++ name) ++ term :: X := by simp
    rw [e]
    have hd : (ns ++ [58] ++ name : Bytes).drop (ns.length + 1) = name := by
      have : (ns ++ [58] : Bytes).length = ns.length + 1 := by simp
      rw [← this, List.drop_left]
    have := idxFrom_found (fun x => x == 62 || isWs x || x == 47) (ns ++ [58] ++ name) X term (ns.length + 1) (by simp)
      (by rw [hd]; exact hname) hterm
    rw [this]; simp; omega
  simp only [hb]
  rw [if_pos (by simp; omega)]
  congr 2
  congr 1
  · simp
  · have e : (ns ++ 58 :: (name ++ term :: X) : Bytes) = (ns ++ [58]) ++ (name ++ term :: X) := by simp
    have hl : (ns ++ [58] : Bytes).length = ns.length + 1 := by simp
    rw [e, ← hl, List.drop_left, hl]
    have : ns.length + 1 + name.length - (ns.length + 1) = name.length := by omega
    rw [this, List.take_left]


theorem isTerm62 : isTerm 62 = true := by decide

/-- what readTagHeader does once the start of the tag is found: name, '>' -/
theorem readTagHeader_after (parent : Tag) (st : St) (t : TagT) (buf : Bytes) (i : Nat) (NS name X R : Bytes)
    (hf : findTagStart 16 128 0 st = (.ok (t, buf, i), st))
    (hb : buf = NS ++ 58 :: (name ++ 62 :: X))
    (hns : ∀ x ∈ NS, (x == 58) = false) (hname : ∀ x ∈ name, isTerm x = false)
    (hdrop : st.rest.drop (NS.length + 1 + name.length + 1 + i) = R) :
    readTagHeader parent st = (.ok { t := t, parent := parent.self, self := identify NS name }, { st with a := false, rest := R }) := by
  unfold readTagHeader
  rw [bindOk _ _ _ _ _ hf]
  simp only [hb, parseTagName_exact NS name X 62 hns hname isTerm62]
  have hc : (NS ++ 58 :: (name ++ 62 :: X) : Bytes)[NS.length + 1 + name.length]? = some 62 := by
    have e : (NS ++ 58 :: (name ++ 62 :: X) : Bytes) = (NS ++ [58] ++ name) ++ 62 :: X := by simp
    have hl : (NS ++ [58] ++ name : Bytes).length = NS.length + 1 + name.length := by simp; omega
    rw [e, ← hl]; simp
  rw [bindOk _ _ _ _ _ (at_ok _ _ 62 st hc)]
  simp only [beq_self_eq_true, if_true]
  show (setA false >>= fun _ => discard (NS.length + 1 + name.length + 1 + i) >>= fun _ => pure _) st = _
  simp only [setA, discard, bind, pure, hdrop]


theorem take_drop_prefix (A B : Bytes) (m k : Nat) (hk : k ≤ m) (hA : k + A.length ≤ m) (pre : Bytes) (hp : pre.length = k) :
    ((pre ++ A ++ B).take m).drop k = A ++ B.take (m - k - A.length) := by
  rw [List.append_assoc, List.take_append, List.take_of_length_le (by omega), List.drop_append, List.drop_of_length_le (by omega)]
  simp only [List.nil_append, hp]
  have : k - k = 0 := by omega
  rw [Nat.sub_self, List.drop_zero, List.take_append, List.take_of_length_le (by omega)]

/-- **Start tag, names and all.** `<ns:name>` behind any run `ws` of bytes other than '<' (white space between elements;
up to W − 128 bytes): the tag is reported as the start tag of `identify ns name`, exactly the run and the tag are consumed,
and no attribute is announced.  The tag must fit the 128-byte look-ahead from its '<' on. -/
theorem readTagHeader_start_exact (parent : Tag) (st : St) (ws : Bytes) (n0 : UInt8) (ns name R : Bytes)
    (hr : st.rest = ws ++ 60 :: ((n0 :: ns) ++ 58 :: (name ++ 62 :: R)))
    (hws : ∀ x ∈ ws, (x == 60) = false) (hwin : ws.length + 128 ≤ W)
    (h0 : n0 ≠ 47 ∧ n0 ≠ 63) (hns : ∀ x ∈ n0 :: ns, (x == 58) = false) (hname : ∀ x ∈ name, isTerm x = false)
    (hfit : ns.length + name.length + 4 ≤ 128) (h4 : 4 < st.rest.length) :
    readTagHeader parent st = (.ok { t := .start, parent := parent.self, self := identify (n0 :: ns) name }, { st with a := false, rest := R }) := by
  have hr' : st.rest = ws ++ 60 :: n0 :: (ns ++ 58 :: (name ++ 62 :: R)) := by rw [hr]; simp
  obtain ⟨m, hm, hf⟩ := findTagStart_exact ws (ns ++ 58 :: (name ++ 62 :: R)) n0 hws hwin 15 128 0 st hr' h4 (Nat.zero_le _) (by omega) (by unfold W at hwin; omega)
  have hc1 : (n0 == 47) = false := by simp [h0.1]
  have hc2 : (n0 == 63) = false := by simp [h0.2]
  unfold tagStartResult at hf
  rw [hc1, hc2] at hf
  simp only [Bool.false_eq_true, if_false] at hf
  have hL : st.rest.length = ws.length + 1 + ((n0 :: ns) ++ 58 :: (name ++ 62 :: R)).length := by rw [hr]; simp; omega
  have hAl : ((n0 :: ns) ++ 58 :: (name ++ [62]) : Bytes).length = ns.length + name.length + 3 := by simp; omega
  -- the look-ahead holds the whole tag
  have hbuf : (st.rest.take m).drop (ws.length + 1) = (n0 :: ns) ++ 58 :: (name ++ 62 :: (R.take (m - (ws.length + 1) - (ns.length + name.length + 3)))) := by
    have e : st.rest = (ws ++ [60]) ++ ((n0 :: ns) ++ 58 :: (name ++ [62])) ++ R := by rw [hr]; simp
    have hmm : ws.length + 1 + (ns.length + name.length + 3) ≤ m := by
      have : ws.length + 1 + (ns.length + name.length + 3) ≤ st.rest.length := by rw [hL]; simp; omega
      omega
    rw [e, take_drop_prefix _ R m (ws.length + 1) (by omega) (by rw [hAl]; omega) (ws ++ [60]) (by simp), hAl]
    simp
  rw [hbuf] at hf
  refine readTagHeader_after parent st .start _ (ws.length + 1) (n0 :: ns) name _ R hf rfl hns hname ?_
  rw [hr]
  have e : (ws ++ 60 :: ((n0 :: ns) ++ 58 :: (name ++ 62 :: R)) : Bytes) = ((ws ++ [60]) ++ ((n0 :: ns) ++ 58 :: (name ++ [62]))) ++ R := by simp
  have hl : ((ws ++ [60]) ++ ((n0 :: ns) ++ 58 :: (name ++ [62])) : Bytes).length = (n0 :: ns).length + 1 + name.length + 1 + (ws.length + 1) := by
    simp; omega
  rw [e, ← hl, List.drop_left]


/-- **Stop tag.** `</ns:name>` likewise -/
theorem readTagHeader_stop_exact (parent : Tag) (st : St) (ws : Bytes) (n0 : UInt8) (ns name R : Bytes)
    (hr : st.rest = ws ++ 60 :: 47 :: ((n0 :: ns) ++ 58 :: (name ++ 62 :: R)))
    (hws : ∀ x ∈ ws, (x == 60) = false) (hwin : ws.length + 128 ≤ W)
    (hns : ∀ x ∈ n0 :: ns, (x == 58) = false) (hname : ∀ x ∈ name, isTerm x = false)
    (hfit : ns.length + name.length + 5 ≤ 128) :
    readTagHeader parent st = (.ok { t := .stop, parent := parent.self, self := identify (n0 :: ns) name }, { st with a := false, rest := R }) := by
  have hL : st.rest.length = ws.length + 2 + ((n0 :: ns) ++ 58 :: (name ++ 62 :: R)).length := by rw [hr]; simp; omega
  have h4 : 4 < st.rest.length := by rw [hL]; simp; omega
  obtain ⟨m, hm, hf⟩ := findTagStart_exact ws ((n0 :: ns) ++ 58 :: (name ++ 62 :: R)) 47 hws hwin 15 128 0 st hr h4 (Nat.zero_le _) (by omega) (by unfold W at hwin; omega)
  unfold tagStartResult at hf
  simp only [beq_self_eq_true, if_true] at hf
  have hAl : ((n0 :: ns) ++ 58 :: (name ++ [62]) : Bytes).length = ns.length + name.length + 3 := by simp; omega
  have hbuf : (st.rest.take m).drop (ws.length + 2) = (n0 :: ns) ++ 58 :: (name ++ 62 :: (R.take (m - (ws.length + 2) - (ns.length + name.length + 3)))) := by
    have e : st.rest = (ws ++ [60, 47]) ++ ((n0 :: ns) ++ 58 :: (name ++ [62])) ++ R := by rw [hr]; simp
    have hmm : ws.length + 2 + (ns.length + name.length + 3) ≤ m := by
      have : ws.length + 2 + (ns.length + name.length + 3) ≤ st.rest.length := by rw [hL]; simp; omega
      omega
    rw [e, take_drop_prefix _ R m (ws.length + 2) (by omega) (by rw [hAl]; omega) (ws ++ [60, 47]) (by simp), hAl]
    simp
  rw [hbuf] at hf
  refine readTagHeader_after parent st .stop _ (ws.length + 2) (n0 :: ns) name _ R hf rfl hns hname ?_
  rw [hr]
  have e : (ws ++ 60 :: 47 :: ((n0 :: ns) ++ 58 :: (name ++ 62 :: R)) : Bytes) = ((ws ++ [60, 47]) ++ ((n0 :: ns) ++ 58 :: (name ++ [62]))) ++ R := by simp
  have hl : ((ws ++ [60, 47]) ++ ((n0 :: ns) ++ 58 :: (name ++ [62])) : Bytes).length = (n0 :: ns).length + 1 + name.length + 1 + (ws.length + 2) := by
    simp; omega
  rw [e, ← hl, List.drop_left]


/-- a window that holds the whole value and the '<' behind it -/
theorem elem_value_hit (f sz j : Nat) (st : St) (c : UInt8) (v' t' : Bytes)
    (hv : ∀ x ∈ c :: v', (x == 60) = false) (hc : isWs c = false) (hsz : sz ≤ W) (hfit : (c :: v').length < sz) (hj : j ≤ (c :: v').length)
    (hr : st.rest = (c :: v') ++ 60 :: t') (h4 : 4 < st.rest.length) :
    readTagValue (f + 1) sz 0 j st = (.ok (c :: v'), { st with rest := 60 :: t' }) := by
  unfold readTagValue
  rw [bindOk _ _ _ _ _ (peek_take sz st hsz h4)]
  have hb : st.rest.take sz = (c :: v') ++ 60 :: (t'.take (sz - (c :: v').length - 1)) := by
    rw [hr, List.take_append, List.take_of_length_le (by omega)]
    have : sz - (c :: v').length = (sz - (c :: v').length - 1) + 1 := by omega
    rw [this, List.take_succ_cons]
    simp
  rw [hb]
  have hi0 : idxFrom (fun b => !isWs b) ((c :: v') ++ 60 :: (t'.take (sz - (c :: v').length - 1))) 0 = 0 := by
    unfold idxFrom; simp [List.findIdx_cons, hc]
  have hk : ∀ j', j' ≤ (c :: v').length → idxFrom (fun x => x == 60) ((c :: v') ++ 60 :: (t'.take (sz - (c :: v').length - 1))) j' = (c :: v').length :=
    fun j' hj' => idxFrom_found _ (c :: v') _ 60 j' hj' (fun x hx => hv x (List.mem_of_mem_drop hx)) rfl
  have hfin : ∀ (ij : Nat × Nat), ij.1 = 0 → ij.2 ≤ (c :: v').length →
      (let k := idxFrom (fun x => x == 60) ((c :: v') ++ 60 :: (t'.take (sz - (c :: v').length - 1))) ij.2
       if k < ((c :: v') ++ 60 :: (t'.take (sz - (c :: v').length - 1))).length then
         (discard k >>= fun _ => pure ((((c :: v') ++ 60 :: (t'.take (sz - (c :: v').length - 1))).drop ij.1).take (k - ij.1)) : M Bytes)
       else readTagValue f (sz + 512) ij.1 (max ij.2 ((c :: v') ++ 60 :: (t'.take (sz - (c :: v').length - 1))).length)) st =
      (.ok (c :: v'), { st with rest := 60 :: t' }) := by
    intro ij h1 h2
    simp only [hk ij.2 h2, h1]
    rw [if_pos (by simp)]
    simp only [List.drop_zero, Nat.sub_zero, List.take_left']
    show (discard (c :: v').length >>= fun _ => pure (c :: v')) st = _
    simp only [discard, bind, pure]
    congr 2
    rw [hr, List.drop_left]
  by_cases h0 : (0 == j) = true
  · have hj0 : j = 0 := by simpa using (by simpa using h0 : 0 = j).symm
    subst hj0
    simp only [beq_self_eq_true, if_true, hi0]
    exact hfin (0, 0) rfl (Nat.zero_le _)
  · simp only [h0, Bool.false_eq_true, if_false]
    exact hfin (0, j) rfl hj

/-- a window that ends inside the value: the next one is tried, the search position remembered, nothing consumed -/
theorem elem_value_miss (f sz j : Nat) (st : St) (c : UInt8) (v' t' : Bytes)
    (hv : ∀ x ∈ c :: v', (x == 60) = false) (hc : isWs c = false) (hsz : sz ≤ W) (hsz0 : 0 < sz) (hmiss : sz ≤ (c :: v').length) (hj : j ≤ sz)
    (hr : st.rest = (c :: v') ++ 60 :: t') :
    readTagValue (f + 1) sz 0 j st = readTagValue f (sz + 512) 0 sz st := by
  have h4 : 4 < st.rest.length ∨ st.rest.length ≤ 4 := by omega
  have hL : st.rest.length = (c :: v').length + 1 + t'.length := by rw [hr]; simp; omega
  conv => lhs; unfold readTagValue
  have hpk : peek sz st = (.ok (st.rest.take sz), st) := by
    unfold peek
    rw [if_neg (by omega), if_neg (by omega)]
  rw [bindOk _ _ _ _ _ hpk]
  have hb : st.rest.take sz = (c :: v').take sz := by
    rw [hr, List.take_append_of_le_length hmiss]
  rw [hb]
  have hlen : ((c :: v').take sz).length = sz := by rw [List.length_take]; omega
  have hnone : ∀ j', ((c :: v').take sz).length ≤ idxFrom (fun x => x == 60) ((c :: v').take sz) j' :=
    fun j' => idxFrom_none _ _ j' (fun x hx => hv x (List.mem_of_mem_take hx))
  have hi0 : idxFrom (fun b => !isWs b) ((c :: v').take sz) 0 = 0 := by
    obtain ⟨s', rfl⟩ : ∃ s', sz = s' + 1 := ⟨sz - 1, by omega⟩
    unfold idxFrom; simp [List.findIdx_cons, hc]
  by_cases h0 : (0 == j) = true
  · have hj0 : j = 0 := by simpa using (by simpa using h0 : 0 = j).symm
    subst hj0
    simp only [beq_self_eq_true, if_true, hi0]
    rw [if_neg (by have := hnone 0; omega)]
    rw [hlen]; simp
  · simp only [h0, Bool.false_eq_true, if_false]
    rw [if_neg (by have := hnone j; omega)]
    rw [hlen, Nat.max_eq_right hj]

/-- **An element value of any length up to 1535 bytes is returned exactly**, whichever of the three windows it ends in -/
theorem readTagValue_any (st : St) (c : UInt8) (v' t' : Bytes)
    (hv : ∀ x ∈ c :: v', (x == 60) = false) (hc : isWs c = false) (hlen : (c :: v').length < 1536)
    (hr : st.rest = (c :: v') ++ 60 :: t') (h4 : 4 < st.rest.length) :
    readTagValue 8 512 0 0 st = (.ok (c :: v'), { st with rest := 60 :: t' }) := by
  by_cases h1 : (c :: v').length < 512
  · exact elem_value_hit 7 512 0 st c v' t' hv hc (by unfold W; omega) h1 (Nat.zero_le _) hr h4
  · rw [elem_value_miss 7 512 0 st c v' t' hv hc (by unfold W; omega) (by omega) (by omega) (by omega) hr]
    by_cases h2 : (c :: v').length < 1024
    · exact elem_value_hit 6 1024 512 st c v' t' hv hc (by unfold W; omega) h2 (by omega) hr h4
    · rw [elem_value_miss 6 1024 512 st c v' t' hv hc (by unfold W; omega) (by omega) (by omega) (by omega) hr]
      exact elem_value_hit 5 1536 1024 st c v' t' hv hc (by unfold W; omega) hlen (by omega) hr h4


theorem bind_assoc3 {α β γ} (m : M α) (g : α → M β) (h : β → M γ) : (m >>= g) >>= h = m >>= fun a => g a >>= h := by
  funext st
  show (match (match m st with | (.ok a, st') => g a st' | (.error e, st') => (.error e, st')) with
        | (.ok b, st'') => h b st'' | (.error e, st'') => (.error e, st'')) =
       (match m st with | (.ok a, st') => (g a >>= h) st' | (.error e, st') => (.error e, st'))
  cases hm : m st with
  | mk r s1 => cases r <;> rfl

theorem attrLoop_noattr (seqOf : Option Prop2) (f : Nat) (tag : Tag) (st : St) (ha : st.a = false) :
    attrLoop seqOf (f + 1) tag st = (.ok tag, st) := by
  unfold attrLoop
  rw [bindOk getA _ st st false (by unfold getA; rw [ha])]
  simp only [Bool.false_eq_true, if_false]
  rfl

/-- a simple property in element form: `<ns:name>v</ns:name>` -/
structure Elem where
  n0 : UInt8
  ns : Bytes
  name : Bytes
  c : UInt8
  v' : Bytes

def Elem.v (e : Elem) : Bytes := e.c :: e.v'
def Elem.prop (e : Elem) : Prop2 := identify (e.n0 :: e.ns) e.name
def Elem.close (e : Elem) : Bytes := 60 :: 47 :: ((e.n0 :: e.ns) ++ 58 :: (e.name ++ [62]))
def Elem.bytes (e : Elem) : Bytes := 60 :: ((e.n0 :: e.ns) ++ 58 :: (e.name ++ 62 :: (e.v ++ e.close)))

/-- what the theorem asks of an element: a prefix without ':' that does not start with '/' or '?', a local name without
'>', '/' or white space, both short enough for the 128-byte look-ahead; a value without '<' that does not start with white
space (leading white space is not part of an element's value) and is shorter than 1536 bytes (it may end in any of the three look-ahead windows); a property that is
neither an array nor the root -/
structure Elem.OK (e : Elem) : Prop where
  h0 : e.n0 ≠ 47 ∧ e.n0 ≠ 63
  hns : ∀ x ∈ e.n0 :: e.ns, (x == 58) = false
  hname : ∀ x ∈ e.name, isTerm x = false
  hfit : e.ns.length + e.name.length + 5 ≤ 128
  hc : isWs e.c = false
  hv : ∀ x ∈ e.v, (x == 60) = false
  hvwin : e.v.length < 1536
  hseq : (e.prop == rdfSeq || e.prop == rdfAlt || e.prop == rdfBag) = false
  hroot : (e.prop == rootProp) = false

theorem readTag_unfold (f : Nat) (parent : Tag) : readTag (f + 1) parent = (do
    let tag ← readTagHeader parent
    if isEndTag tag parent.self then pure tag
    else
      let len ← (fun st => (.ok st.rest.length, st) : M Nat)
      let tag ← attrLoop none (len + 2) tag
      let tag ← (if tag.t == .start then
          (if tag.self == rdfSeq || tag.self == rdfAlt || tag.self == rdfBag then do
            readSeqTags tag f
            pure tag
          else do
            let v ← readTagValue 8 512 0 0
            emit { pt := 2, parent := tag.parent, self := tag.self, val := v }
            readTag f tag)
        else pure tag : M Tag)
      if isRootStop tag then pure tag else readTag f parent) := by
  rfl


/-- **Element form, names and all.** One round of readTag over `ws <ns:name>v</ns:name>` reports exactly one token —
(element, parent, identify ns name, v) — consumes exactly the run and the element, and goes on with the next round. -/
theorem readTag_element_exact (parent : Tag) (st : St) (ws : Bytes) (e : Elem) (R : Bytes) (f : Nat)
    (hr : st.rest = ws ++ e.bytes ++ R) (hws : ∀ x ∈ ws, (x == 60) = false) (hwin : ws.length + 128 ≤ W) (ok : e.OK) :
    readTag (f + 2) parent st =
      readTag (f + 1) parent { rest := R, a := false, toks := { pt := 2, parent := parent.self, self := e.prop, val := e.v } :: st.toks } := by
  rw [readTag_unfold (f + 1) parent]
  -- the start tag
  have hr1 : st.rest = ws ++ 60 :: ((e.n0 :: e.ns) ++ 58 :: (e.name ++ 62 :: (e.v ++ e.close ++ R))) := by
    rw [hr]; simp [Elem.bytes]
  have h4 : 4 < st.rest.length := by rw [hr1]; simp [Elem.v]; omega
  rw [bindOk _ _ _ _ _ (readTagHeader_start_exact parent st ws e.n0 e.ns e.name _ hr1 hws hwin ok.h0 ok.hns ok.hname (by have := ok.hfit; omega) h4)]
  have he1 : isEndTag { t := .start, parent := parent.self, self := identify (e.n0 :: e.ns) e.name } parent.self = false := by
    simp [isEndTag]
  simp only [he1, Bool.false_eq_true, if_false]
  rw [bindOk (fun st => (.ok st.rest.length, st) : M Nat) _ _ _ _ rfl]
  rw [bindOk _ _ _ _ _ (attrLoop_noattr none _ _ _ rfl)]
  have hseq := ok.hseq
  unfold Elem.prop at hseq
  simp only [beq_self_eq_true, if_true, hseq, Bool.false_eq_true, if_false]
  -- the value
  have hrv : ({ st with a := false, rest := e.v ++ e.close ++ R } : St).rest = (e.c :: e.v') ++ 60 :: ((47 :: ((e.n0 :: e.ns) ++ 58 :: (e.name ++ [62]))) ++ R) := by
    simp [Elem.v, Elem.close]
  rw [bind_assoc3, bindOk _ _ _ _ _ (readTagValue_any _ e.c e.v' _ ok.hv ok.hc ok.hvwin hrv (by simp [Elem.close, Elem.v]; omega))]
  have hcl : (60 :: ((47 :: ((e.n0 :: e.ns) ++ 58 :: (e.name ++ [62]))) ++ R) : Bytes) = e.close ++ R := rfl
  rw [hcl]
  show ((emit { pt := 2, parent := parent.self, self := identify (e.n0 :: e.ns) e.name, val := e.v } >>= fun _ =>
      readTag (f + 1) { t := .start, parent := parent.self, self := identify (e.n0 :: e.ns) e.name }) >>= _) { rest := e.close ++ R, a := false, toks := st.toks } = _
  rw [bind_assoc3]
  have hemit : emit { pt := 2, parent := parent.self, self := identify (e.n0 :: e.ns) e.name, val := e.v }
      { rest := e.close ++ R, a := false, toks := st.toks } =
      (.ok (), { rest := e.close ++ R, a := false, toks := { pt := 2, parent := parent.self, self := identify (e.n0 :: e.ns) e.name, val := e.v } :: st.toks }) := by
    simp [emit, Elem.v]
  rw [bindOk _ _ _ _ _ hemit]
  -- the stop tag, read by the inner round
  rw [readTag_unfold f { t := .start, parent := parent.self, self := identify (e.n0 :: e.ns) e.name }, bind_assoc3]
  have hr2 : (e.close ++ R : Bytes) = [] ++ 60 :: 47 :: ((e.n0 :: e.ns) ++ 58 :: (e.name ++ 62 :: R)) := by simp [Elem.close]
  rw [bindOk _ _ _ _ _ (readTagHeader_stop_exact { t := .start, parent := parent.self, self := identify (e.n0 :: e.ns) e.name }
    { rest := e.close ++ R, a := false, toks := { pt := 2, parent := parent.self, self := identify (e.n0 :: e.ns) e.name, val := e.v } :: st.toks }
    [] e.n0 e.ns e.name R hr2 (by simp) (by unfold W; simp) ok.hns ok.hname ok.hfit)]
  have he2 : isEndTag { t := .stop, parent := identify (e.n0 :: e.ns) e.name, self := identify (e.n0 :: e.ns) e.name } (identify (e.n0 :: e.ns) e.name) = true := by
    simp [isEndTag]
  dsimp only
  rw [he2]
  simp only [if_true]
  have hroot := ok.hroot
  unfold Elem.prop at hroot
  have hrs : isRootStop { t := .stop, parent := identify (e.n0 :: e.ns) e.name, self := identify (e.n0 :: e.ns) e.name } = false := by
    simp [isRootStop, hroot]
  rw [bindOk (pure _) _ _ _ _ rfl]
  simp only [hrs, Bool.false_eq_true, if_false]
  rfl


/-- a run of simple elements, each behind its own white space -/
def serE : List (Bytes × Elem) → Bytes
  | [] => []
  | (ws, e) :: l => ws ++ e.bytes ++ serE l

/-- the tokens the parser layer receives for them (newest first) -/
def pushE (parent : Prop2) : List (Bytes × Elem) → List Tok → List Tok
  | [], acc => acc
  | (_, e) :: l, acc => pushE parent l ({ pt := 2, parent := parent, self := e.prop, val := e.v } :: acc)

/-- **A whole list of simple elements** (the children of an rdf:Description, in any order, with any white space between
them): one token per element, in document order, nothing else consumed or reported; the rounds of readTag go on behind
the last element. -/
theorem readTag_elements_exact (parent : Tag) (R : Bytes) : ∀ (l : List (Bytes × Elem)) (f : Nat) (st : St),
    st.a = false → st.rest = serE l ++ R →
    (∀ p ∈ l, (∀ x ∈ p.1, (x == 60) = false) ∧ p.1.length + 128 ≤ W ∧ p.2.OK) →
    readTag (f + 1 + l.length) parent st = readTag (f + 1) parent { rest := R, a := false, toks := pushE parent.self l st.toks } := by
  intro l
  induction l with
  | nil =>
    intro f st ha hr _
    have : st = { rest := R, a := false, toks := st.toks } := by
      cases st; simp_all [serE]
    simp only [List.length_nil, Nat.add_zero, pushE]
    rw [← this]
  | cons p l ih =>
    intro f st ha hr hok
    obtain ⟨ws, e⟩ := p
    have hp := hok (ws, e) (by simp)
    have hfuel : f + 1 + ((ws, e) :: l).length = (f + l.length) + 2 := by simp; omega
    rw [hfuel, readTag_element_exact parent st ws e (serE l ++ R) (f + l.length) (by rw [hr]; simp [serE]) hp.1 hp.2.1 hp.2.2]
    have hfuel2 : f + l.length + 1 = f + 1 + l.length := by omega
    rw [hfuel2, ih f _ rfl rfl (fun q hq => hok q (List.mem_cons_of_mem _ hq))]
    rfl

/-- the same property written as an attribute and as an element -/
def Attr.toElem (a : Attr) (c : UInt8) (v' : Bytes) : Elem := { n0 := a.n0, ns := a.ns, name := a.m0 :: a.name, c := c, v' := v' }

/-- what the value parsers dispatch on -/
def Tok.key (t : Tok) : Prop2 × Prop2 × Bytes := (t.parent, t.self, t.val)

/-- **Attribute form = element form.** The token reported for `ns:name="v"` inside a tag and the token reported for
`<ns:name>v</ns:name>` below that tag carry the same parent, the same property and the same value; they differ only in
the kind (attribute / element) — so do whole lists -/
theorem attr_elem_same_tokens (P : Prop2) : ∀ (l : List (Bytes × Bytes × Attr × UInt8 × Bytes)) (acc acc' : List Tok),
    (∀ p ∈ l, p.2.2.1.v = p.2.2.2.1 :: p.2.2.2.2) → acc.map Tok.key = acc'.map Tok.key →
    (pushAll P (l.map fun p => (p.1, p.2.2.1)) acc).map Tok.key =
    (pushE P (l.map fun p => (p.2.1, p.2.2.1.toElem p.2.2.2.1 p.2.2.2.2)) acc').map Tok.key := by
  intro l
  induction l with
  | nil => intro acc acc' _ h; exact h
  | cons p l ih =>
    intro acc acc' hv h
    obtain ⟨ws, ws', a, c, v'⟩ := p
    have hva : a.v = c :: v' := hv (ws, ws', a, c, v') (by simp)
    simp only [List.map_cons, pushAll, pushE]
    have hne : a.v.isEmpty = false := by rw [hva]; rfl
    simp only [hne, Bool.false_eq_true, if_false]
    apply ih _ _ (fun q hq => hv q (List.mem_cons_of_mem _ hq))
    simp only [List.map_cons, h, Tok.key, Attr.prop, Elem.prop, Attr.toElem, Elem.v, hva]

end Imeta.Xmp
