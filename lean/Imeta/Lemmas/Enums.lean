/-
  Helper lemmas for C17/C16: lifting finite checks over generated stringers to whole domains.
-/
import Imeta.Gen.Enums
import Imeta.Spec.Enums
namespace Imeta.EnumLemmas
open Imeta Imeta.EnumSpec

def isOk {α} : G α → Bool | .ok _ => true | _ => false
@[simp] theorem isOk_ok {α} (a : α) : isOk (Outcome.ok a) = true := rfl
theorem isOk_ite {α} (c : Prop) [Decidable c] (a b : G α) :
    isOk (if c then a else b) = if c then isOk a else isOk b := by
  split <;> rfl

theorem isOk_bind_pure {α} (a : G α) : isOk (Outcome.bind a fun x => Outcome.ok x) = isOk a := by
  cases a <;> rfl

/-- `fmt.Sprintf(tbl[v])` cannot fail when no table value contains a '%' -/
theorem isOk_sprintf0_map (m : List (Int × Bytes)) (v : Int)
    (h : (m.all fun e => !e.2.contains 0x25) = true) :
    isOk (gsprintf0 ((gmapGet m v).getD [])) = true := by
  induction m with
  | nil => rfl
  | cons e rest ih =>
    obtain ⟨k, s⟩ := e
    simp only [List.all_cons, Bool.and_eq_true, Bool.not_eq_true'] at h
    simp only [gmapGet]
    split
    · have h1 := h.1
      simp only [Option.getD_some, gsprintf0, h1, Bool.false_eq_true, if_false, isOk]
    · exact ih h.2

/-- all documented keys lie in `[0, N)` -/
def keysBelow (d : Doc) (N : Int) : Bool := d.names.all fun e => decide (0 ≤ e.1) && decide (e.1 < N)

theorem lookup_none_of_keysBelow (l : List (Int × String)) (N v : Int)
    (h : (l.all fun e => decide (0 ≤ e.1) && decide (e.1 < N)) = true) (hv : v < 0 ∨ N ≤ v) :
    l.lookup v = none := by
  induction l with
  | nil => rfl
  | cons e rest ih =>
    obtain ⟨k, s⟩ := e
    simp only [List.all_cons, Bool.and_eq_true, decide_eq_true_eq] at h
    have hne : (v == k) = false := by
      simp only [beq_eq_false_iff_ne, ne_eq]; omega
    simp only [List.lookup, hne]
    exact ih h.2

/-- outside the documented key range the documented name is the fallback -/
theorem Doc.name_far (d : Doc) (N v : Int) (h : keysBelow d N = true) (hv : v < 0 ∨ N ≤ v) :
    d.name v = asc d.fallback := by
  simp only [Doc.name, lookup_none_of_keysBelow d.names N v h hv, Option.getD_none]

/-- a map literal whose keys all lie in `[0, N)` has no binding outside that range -/
theorem gmapGet_far {ν} (m : List (Int × ν)) (N v : Int)
    (h : (m.all fun e => decide (0 ≤ e.1) && decide (e.1 < N)) = true) (hv : v < 0 ∨ N ≤ v) :
    gmapGet m v = none := by
  induction m with
  | nil => rfl
  | cons e rest ih =>
    obtain ⟨k, s⟩ := e
    simp only [List.all_cons, Bool.and_eq_true, decide_eq_true_eq] at h
    have hne : (k == v) = false := by
      simp only [beq_eq_false_iff_ne, ne_eq]; omega
    simp only [gmapGet, hne]
    exact ih h.2

end Imeta.EnumLemmas
