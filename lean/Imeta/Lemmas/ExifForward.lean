/-
  C03, part 3: in a forward layout every read of the work loop is exact.
  If the pending tags from the current one on form a forward chain in the file F (each value starts at or after the end of
  the previous one, lies inside the file and the Exif length, and fits the reader's window), then the work loop reads
  every value it asks for successfully and each read returns exactly that tag's bytes F[off, off+size).
-/
import Imeta.Lemmas.ExifValue
namespace Imeta.Exif
open Imeta

/-- the random-access decoder: one tag, parsed with exactly the bytes it points at -/
def idealStep (tb : Tables) (F : Bytes) (ex : Rec) (t : Tag) : Outcome Rec := parseTagV tb ex t (slice F t) none

/-- ... and a sequence of tags, in order -/
def idealRun (tb : Tables) (F : Bytes) : Rec → List Tag → Outcome Rec
  | ex, [] => .ok ex
  | ex, t :: ts => idealStep tb F ex t >>= fun ex' => idealRun tb F ex' ts

theorem idealRun_append (tb : Tables) (F : Bytes) (ex : Rec) (l : List Tag) (t : Tag) :
    idealRun tb F ex (l ++ [t]) = idealRun tb F ex l >>= fun e => idealStep tb F e t := by
  induction l generalizing ex with
  | nil =>
    show (idealStep tb F ex t >>= fun ex' => Outcome.ok ex') = idealStep tb F ex t
    cases idealStep tb F ex t <;> rfl
  | cons a l ih =>
    show (idealStep tb F ex a >>= fun ex' => idealRun tb F ex' (l ++ [t])) =
      ((idealStep tb F ex a >>= fun ex' => idealRun tb F ex' l) >>= fun e => idealStep tb F e t)
    cases idealStep tb F ex a with
    | ok e => exact ih e
    | err k => rfl
    | panic p => rfl
    | fuel => rfl

/-- **Streaming = random access, so far.**  Every read recorded so far succeeded and returned exactly the bytes of its
tag's value in F, and the record so far is what the random-access decoder makes of the tags parsed so far (from the
initial record ex0, each tag with exactly its own bytes) -/
structure Exact (tb : Tables) (ex0 : Rec) (F : Bytes) (r : R) : Prop where
  reads : ∀ e ∈ r.reads, e.2 = some (slice F e.1)
  ref : idealRun tb F ex0 r.parsed = .ok r.ex

theorem Exact.transfer {tb : Tables} {ex0 : Rec} {F : Bytes} {r r' : R} (he : Exact tb ex0 F r) (h1 : r'.reads = r.reads)
    (h2 : r'.ex = r.ex) (h3 : r'.parsed = r.parsed) : Exact tb ex0 F r' :=
  ⟨by rw [h1]; exact he.reads, by rw [h2, h3]; exact he.ref⟩

theorem Exact.keep {tb : Tables} {ex0 : Rec} {F : Bytes} {r r' : R} (he : Exact tb ex0 F r) (hk : Keep r r') : Exact tb ex0 F r' :=
  he.transfer hk.reads hk.ex hk.parsed

theorem Exact.init (tb : Tables) (F : Bytes) (r : R) (h1 : r.reads = []) (h2 : r.parsed = []) : Exact tb r.ex F r :=
  ⟨(by rw [h1]; intro e he; cases he), (by rw [h2]; rfl)⟩

/-- one parse step of the random-access decoder matches the streaming parser whenever the streaming read (if any) returns
the tag's bytes -/
theorem parse_step {tb : Tables} {ex0 : Rec} {F : Bytes} {r r1 : R} {t : Tag} (he : Exact tb ex0 F r)
    (h : parseTag tb r t = .ok r1)
    (hv : parseTagV tb r.ex t (readTagValue r t).buf (readTagValue r t).err = parseTagV tb r.ex t (slice F t) none) :
    idealRun tb F ex0 r1.parsed = .ok r1.ex := by
  obtain ⟨r0, h0, rfl⟩ := parseTag_ok h
  have hp : r0.parsed = r.parsed := (FrO.parseTag0 tb r t r0 h0).parsed
  have hval := ValO.parseTag0 tb r t
  unfold ValO at hval
  rw [h0, omap_ok, hv] at hval
  show idealRun tb F ex0 (r0.parsed ++ [t]) = .ok r0.ex
  rw [hp, idealRun_append, he.ref]
  exact hval.symm

/-- a forward chain of value tags from position po on -/
def Chain (F : Bytes) (exl lim : Nat) : Nat → List Tag → Prop
  | _, [] => True
  | po, t :: q => t.typ ≠ tIfd ∧ ¬(t.id = 0x014a ∧ t.ifd = ifd0) ∧ po ≤ t.off ∧ t.off + t.size ≤ F.length ∧
      t.off + t.size ≤ exl ∧ t.size ≤ lim ∧ Chain F exl lim (t.off + t.size) q

theorem Chain.mono {F : Bytes} {exl lim : Nat} {p p' : Nat} {q : List Tag} (hp : p' ≤ p) (h : Chain F exl lim p q) :
    Chain F exl lim p' q := by
  cases q with
  | nil => trivial
  | cons t q =>
    unfold Chain at h ⊢
    exact ⟨h.1, h.2.1, Nat.le_trans hp h.2.2.1, h.2.2.2⟩

/-- one value tag, read forward: the parser leaves a coherent reader at or before the end of the value, and the read
record stays exact -/
theorem parseTag_forward {F : Bytes} {ex0 : Rec} (tb : Tables) (r r1 : R) (t : Tag) (hc : Coh F r) (he : Exact tb ex0 F r)
    (hfw : r.po ≤ t.off) (hF : t.off + t.size ≤ F.length) (hx : t.off + t.size ≤ r.exifLength) (hlim : t.size ≤ readLimit r)
    (h : parseTag tb r t = .ok r1) :
    Coh F r1 ∧ Exact tb ex0 F r1 ∧ r1.po ≤ t.off + t.size ∧ r1.tags = r.tags ∧ r1.pos = r.pos ∧
    r1.exifLength = r.exifLength ∧ readLimit r1 = readLimit r := by
  have hx' := readTagValue_exact hc t hfw hF hx hlim
  have href := parse_step he h (by rw [hx'.2.1, hx'.1])
  rcases OneO.parseTag tb r t r1 h with hs | ⟨hs, _⟩
  · refine ⟨⟨by rw [hs.rest, hs.po]; exact hc.rest, by rw [hs.po]; exact hc.le, hc.small⟩, ⟨?_, href⟩, by rw [hs.po]; omega,
      hs.tags, hs.pos, hs.exl, by unfold readLimit; rw [hs.buffered]⟩
    intro e hm; rw [hs.reads] at hm; exact he.reads e hm
  · have hc' := hc.readTagValue t
    have hk := Keep.readTagValue0 r t
    refine ⟨⟨by rw [hs.rest, hs.po]; exact hc'.rest, by rw [hs.po]; exact hc'.le, hc.small⟩, ⟨?_, href⟩, by rw [hs.po, hx'.2.2.1]; omega,
      hs.tags.trans hk.tags, hs.pos.trans hk.pos, hs.exl.trans hk.exl, by unfold readLimit; rw [hs.buffered]; exact congrArg (fun b => if b then bufioSize else scratchSize) hk.buffered⟩
    intro e hm
    rw [hs.reads, hx'.2.2.2] at hm
    rcases List.mem_append.mp hm with hm | hm
    · exact he.reads e hm
    · simp only [List.mem_singleton] at hm; rw [hm]

/-- a tag that gives no parser a reason to read (embedded, neither ASCII nor rational) leaves the stream alone -/
theorem parseTag_quiet (tb : Tables) (r r1 : R) (t : Tag) (hq : ¬ Reads t) (h : parseTag tb r t = .ok r1) : Same r r1 := by
  rcases OneO.parseTag tb r t r1 h with hs | ⟨_, hr⟩
  · exact hs
  · exact absurd hr hq

/-- ... and the record stays what the random-access decoder computes -/
theorem parseTag_quiet_exact {tb : Tables} {ex0 : Rec} {F : Bytes} (r r1 : R) (t : Tag) (hq : ¬ Reads t) (he : Exact tb ex0 F r)
    (h : parseTag tb r t = .ok r1) : Exact tb ex0 F r1 :=
  ⟨by rw [(parseTag_quiet tb r r1 t hq h).reads]; exact he.reads, parse_step he h (parseTagV_quiet t hq _ _ _ _ tb r.ex)⟩

/-- **Forward layouts are read exactly.**  From any coherent reader whose pending tags (from the current position on)
form a forward chain of value tags, the work loop ends with a coherent reader whose read record is exact: no read failed,
and every value handed to a field parser is exactly the bytes the tag points at. -/
theorem ifdLoop_forward {F : Bytes} {ex0 : Rec} (tb : Tables) : ∀ (f : Nat) (r r' : R), Coh F r → Exact tb ex0 F r →
    Chain F r.exifLength (readLimit r) r.po (r.tags.drop r.pos) → ifdLoop tb f r = .ok r' → Coh F r' ∧ Exact tb ex0 F r' := by
  intro f
  induction f with
  | zero => intro r r' _ _ _ h; unfold Exif.ifdLoop at h; cases h
  | succ f ih =>
    intro r r' hc he hch h
    unfold Exif.ifdLoop at h
    split at h
    · rename_i hlt
      have hget : r.tags[r.pos]? = some r.tags[r.pos] := List.getElem?_eq_getElem hlt
      have hdrop : r.tags.drop r.pos = r.tags[r.pos] :: r.tags.drop (r.pos + 1) := List.drop_eq_getElem_cons hlt
      rw [hget] at h
      dsimp only at h
      rw [hdrop] at hch
      unfold Chain at hch
      obtain ⟨hty, hsub, hfw, hF, hx, hlim, hq⟩ := hch
      rw [if_neg hty, if_neg hsub] at h
      obtain ⟨r1, h1, h⟩ := bind_ok h
      have hp := parseTag_forward tb r r1 _ hc he hfw hF hx hlim h1
      obtain ⟨hc1, he1, hpo1, htags, hpos, hexl, hl1⟩ := hp
      apply ih { r1 with pos := r1.pos + 1 } r' ⟨hc1.rest, hc1.le, hc1.small⟩ ⟨he1.reads, he1.ref⟩ _ h
      show Chain F r1.exifLength (readLimit r1) r1.po (r1.tags.drop (r1.pos + 1))
      rw [hexl, hl1, htags, hpos]
      exact hq.mono hpo1
    · simp only [Outcome.ok.injEq] at h; rw [← h]; exact ⟨hc, he⟩

/-- a queue of value tags laid out one after the other without overlap, all inside the file and the limits, is a forward
chain from any position at or before its first value -/
theorem Chain.of_pairwise {F : Bytes} {exl lim : Nat} : ∀ (q : List Tag) (po : Nat),
    q.Pairwise (fun a b => a.off + a.size ≤ b.off) →
    (∀ t ∈ q, t.typ ≠ tIfd ∧ ¬(t.id = 0x014a ∧ t.ifd = ifd0) ∧ t.off + t.size ≤ F.length ∧ t.off + t.size ≤ exl ∧ t.size ≤ lim) →
    (∀ t ∈ q, po ≤ t.off) → Chain F exl lim po q := by
  intro q
  induction q with
  | nil => intro _ _ _ _; trivial
  | cons t q ih =>
    intro po hp hall hpo
    have ht := hall t (by simp)
    rw [List.pairwise_cons] at hp
    unfold Chain
    refine ⟨ht.1, ht.2.1, hpo t (by simp), ht.2.2.1, ht.2.2.2.1, ht.2.2.2.2, ?_⟩
    exact ih _ hp.2 (fun x hx => hall x (by simp [hx])) (fun x hx => hp.1 x hx)

end Imeta.Exif
