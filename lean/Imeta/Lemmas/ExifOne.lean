/-
  C03, part 2: a field parser touches the stream through at most one `readTagValue r t` of its own tag, from the state it
  was given.  `One t r r'`: r' has the stream, position, pending tags and read record either of r or of
  `(readTagValue r t).r`.  (Generated from the frame walk of ExifTotal.lean by renaming; same structure.)
-/
import Imeta.Lemmas.ExifExact
namespace Imeta.Exif
open Imeta

/-- same stream-relevant fields -/
structure Same (a b : R) : Prop where
  rest : b.rest = a.rest
  po : b.po = a.po
  exl : b.exifLength = a.exifLength
  buffered : b.buffered = a.buffered
  tags : b.tags = a.tags
  pos : b.pos = a.pos
  reads : b.reads = a.reads

theorem Same.refl (a : R) : Same a a := ⟨rfl, rfl, rfl, rfl, rfl, rfl, rfl⟩

/-- the only situations in which a field parser reads from the stream: the tag is out of line, or its type is ASCII
or rational (a date, zone or rational parser then reads whatever the count says) -/
def Reads (t : Tag) : Prop :=
  t.isEmbedded = false ∨ isASCII t = true ∨ t.typ = tASCII ∨ isRat t = true ∨ t.typ = tRational

def One (t : Tag) (r r' : R) : Prop := Same r r' ∨ (Same (readTagValue r t).r r' ∧ Reads t)

theorem One.refl {t : Tag} (r : R) : One t r r := Or.inl (Same.refl r)
theorem One.read (r : R) (t : Tag) (h : Reads t) : One t r (readTagValue r t).r := Or.inr ⟨Same.refl _, h⟩
theorem One.upd {t : Tag} {r r1 : R} (h : One t r r1) (f : Rec → Rec) : One t r (r1.upd f) := by
  rcases h with h | h
  · exact Or.inl ⟨h.rest, h.po, h.exl, h.buffered, h.tags, h.pos, h.reads⟩
  · exact Or.inr ⟨⟨h.1.rest, h.1.po, h.1.exl, h.1.buffered, h.1.tags, h.1.pos, h.1.reads⟩, h.2⟩
theorem One.addAlloc {t : Tag} {r r1 : R} (h : One t r r1) (n : Nat) : One t r (r1.addAlloc n) := by
  rcases h with h | h
  · exact Or.inl ⟨h.rest, h.po, h.exl, h.buffered, h.tags, h.pos, h.reads⟩
  · exact Or.inr ⟨⟨h.1.rest, h.1.po, h.1.exl, h.1.buffered, h.1.tags, h.1.pos, h.1.reads⟩, h.2⟩
theorem One.setAlloc {t : Tag} {r r1 : R} (h : One t r r1) (n : Nat) : One t r { r1 with alloc := n } := by
  rcases h with h | h
  · exact Or.inl ⟨h.rest, h.po, h.exl, h.buffered, h.tags, h.pos, h.reads⟩
  · exact Or.inr ⟨⟨h.1.rest, h.1.po, h.1.exl, h.1.buffered, h.1.tags, h.1.pos, h.1.reads⟩, h.2⟩

def OneP {β} (t : Tag) (x : Outcome (R × β)) (r : R) : Prop := ∀ r' v, x = .ok (r', v) → One t r r'
def OneO (t : Tag) (x : Outcome R) (r : R) : Prop := ∀ r', x = .ok r' → One t r r'

set_option hygiene false in
macro "one_leaves" : tactic => `(tactic|
  all_goals (first
    | (simp only [Outcome.ok.injEq, Prod.mk.injEq] at h; obtain ⟨h1, _⟩ := h; subst h1; first | exact One.refl _ | assumption | (apply One.read; unfold Reads; simp_all))
    | (simp at h; done)))

theorem OneP.parseBytes (r : R) (t : Tag) (s : Bool) : OneP t (parseBytes r t s) r := by
  intro r' v h
  unfold Exif.parseBytes at h
  repeat' (first | split at h | (simp only [bind, Outcome.bind] at h))
  one_leaves

theorem OneP.parseString (r : R) (t : Tag) : OneP t (parseString r t) r := by
  intro r' v h
  unfold Exif.parseString at h
  cases hb : Exif.parseBytes r t false with
  | ok p =>
    obtain ⟨r1, s⟩ := p
    have := OneP.parseBytes r t false r1 s hb
    simp only [hb, bind, Outcome.bind, Outcome.ok.injEq, Prod.mk.injEq] at h
    rw [← h.1]; exact One.setAlloc this _
  | err k => simp [hb, bind, Outcome.bind] at h
  | panic p => simp [hb, bind, Outcome.bind] at h
  | fuel => simp [hb, bind, Outcome.bind] at h

set_option hygiene false in
macro "one_parser" : tactic => `(tactic| (
  intro r' v h
  repeat' (first | split at h | (simp only [bind, Outcome.bind] at h))
  one_leaves))

theorem OneP.parseRationalU (r : R) (t : Tag) : OneP t (parseRationalU r t) r := by unfold Exif.parseRationalU; one_parser
theorem OneP.parseDate (r : R) (t : Tag) : OneP t (parseDate r t) r := by unfold Exif.parseDate; one_parser
theorem OneP.parseOffsetTime (r : R) (t : Tag) : OneP t (parseOffsetTime r t) r := by unfold Exif.parseOffsetTime; one_parser
theorem OneP.parseLensInfo (r : R) (t : Tag) : OneP t (parseLensInfo r t) r := by unfold Exif.parseLensInfo; one_parser
theorem OneP.parseGPSCoord (r : R) (t : Tag) : OneP t (parseGPSCoord r t) r := by unfold Exif.parseGPSCoord; one_parser
theorem OneP.parseGPSAlt (r : R) (t : Tag) : OneP t (parseGPSAlt r t) r := by unfold Exif.parseGPSAlt; one_parser
theorem OneP.parseGPSTime (r : R) (t : Tag) : OneP t (parseGPSTime r t) r := by unfold Exif.parseGPSTime; one_parser
theorem OneP.parseGPSDate (r : R) (t : Tag) : OneP t (parseGPSDate r t) r := by unfold Exif.parseGPSDate; one_parser

theorem OneP.parseSubSec (r : R) (t : Tag) : OneP t (parseSubSec r t) r := by
  intro r' v h
  unfold Exif.parseSubSec at h
  split at h
  · split at h
    · simp only [Outcome.ok.injEq, Prod.mk.injEq] at h; rw [← h.1]; exact One.refl _
    · cases hb : Exif.parseBytes r t true with
      | ok p =>
        obtain ⟨r1, s⟩ := p
        have := OneP.parseBytes r t true r1 s hb
        simp only [hb, bind, Outcome.bind, Outcome.ok.injEq, Prod.mk.injEq] at h
        rw [← h.1]; exact this
      | err k => simp [hb, bind, Outcome.bind] at h
      | panic p => simp [hb, bind, Outcome.bind] at h
      | fuel => simp [hb, bind, Outcome.bind] at h
  · simp only [Outcome.ok.injEq, Prod.mk.injEq] at h; rw [← h.1]; exact One.refl _

end Imeta.Exif

namespace Imeta.Exif

theorem OneO.ok {t : Tag} {r r1 : R} (h : One t r r1) : OneO t (.ok r1) r := by
  intro r' h'; simp only [Outcome.ok.injEq] at h'; rw [← h']; exact h

theorem OneO.ite {t : Tag} {c : Prop} [Decidable c] {a b : Outcome R} {r : R} (ha : OneO t a r) (hb : OneO t b r) : OneO t (if c then a else b) r := by
  split <;> assumption

theorem OneO.bindP {t : Tag} {β} {x : Outcome (R × β)} {f : R × β → Outcome R} {r : R} (hx : OneP t x r)
    (hf : ∀ r1 v, One t r r1 → OneO t (f (r1, v)) r) : OneO t (x.bind f) r := by
  intro r' h
  cases x with
  | ok p => obtain ⟨r1, v⟩ := p; exact hf r1 v (hx r1 v rfl) r' h
  | err k => simp [Outcome.bind] at h
  | panic s => simp [Outcome.bind] at h
  | fuel => simp [Outcome.bind] at h

theorem OneO.bindN {t : Tag} {β} {x : Outcome β} {f : β → Outcome R} {r : R} (hf : ∀ v, OneO t (f v) r) : OneO t (x.bind f) r := by
  intro r' h
  cases x with
  | ok v => exact hf v r' h
  | err k => simp [Outcome.bind] at h
  | panic s => simp [Outcome.bind] at h
  | fuel => simp [Outcome.bind] at h

theorem OneO.bindP' {t : Tag} {β} {x : Outcome (R × β)} {f : R × β → Outcome R} {r : R} (hx : OneP t x r)
    (hf : ∀ r1 v, One t r r1 → OneO t (f (r1, v)) r) : OneO t (x >>= f) r := OneO.bindP hx hf

theorem OneO.bindN' {t : Tag} {β} {x : Outcome β} {f : β → Outcome R} {r : R} (hf : ∀ v, OneO t (f v) r) : OneO t (x >>= f) r :=
  OneO.bindN hf

set_option hygiene false in
macro "one_leaf" : tactic => `(tactic| first
  | exact OneO.ok (One.refl _)
  | exact OneO.ok (One.upd (One.refl _) _)
  | exact OneO.ok (One.addAlloc (One.upd (One.refl _) _) _)
  | exact OneO.ok hfr
  | exact OneO.ok (One.upd hfr _)
  | exact OneO.ok (One.addAlloc (One.upd hfr _) _))

set_option hygiene false in
macro "oneo_step" : tactic => `(tactic| first
  | one_leaf
  | with_reducible apply OneO.ite
  | (with_reducible apply OneO.bindP (OneP.parseBytes _ _ _); intro r1 v hfr; dsimp only)
  | (with_reducible apply OneO.bindP' (OneP.parseBytes _ _ _); intro r1 v hfr; dsimp only)
  | (with_reducible apply OneO.bindP (OneP.parseString _ _); intro r1 v hfr; dsimp only)
  | (with_reducible apply OneO.bindP' (OneP.parseString _ _); intro r1 v hfr; dsimp only)
  | (with_reducible apply OneO.bindP (OneP.parseDate _ _); intro r1 v hfr; dsimp only)
  | (with_reducible apply OneO.bindP' (OneP.parseDate _ _); intro r1 v hfr; dsimp only)
  | (with_reducible apply OneO.bindP (OneP.parseRationalU _ _); intro r1 v hfr; dsimp only)
  | (with_reducible apply OneO.bindP' (OneP.parseRationalU _ _); intro r1 v hfr; dsimp only)
  | (with_reducible apply OneO.bindP (OneP.parseLensInfo _ _); intro r1 v hfr; dsimp only)
  | (with_reducible apply OneO.bindP' (OneP.parseLensInfo _ _); intro r1 v hfr; dsimp only)
  | (with_reducible apply OneO.bindP (OneP.parseSubSec _ _); intro r1 v hfr; dsimp only)
  | (with_reducible apply OneO.bindP' (OneP.parseSubSec _ _); intro r1 v hfr; dsimp only)
  | (with_reducible apply OneO.bindP (OneP.parseOffsetTime _ _); intro r1 v hfr; dsimp only)
  | (with_reducible apply OneO.bindP' (OneP.parseOffsetTime _ _); intro r1 v hfr; dsimp only)
  | (with_reducible apply OneO.bindP (OneP.parseGPSAlt _ _); intro r1 v hfr; dsimp only)
  | (with_reducible apply OneO.bindP' (OneP.parseGPSAlt _ _); intro r1 v hfr; dsimp only)
  | (with_reducible apply OneO.bindP (OneP.parseGPSCoord _ _); intro r1 v hfr; dsimp only)
  | (with_reducible apply OneO.bindP' (OneP.parseGPSCoord _ _); intro r1 v hfr; dsimp only)
  | (with_reducible apply OneO.bindP (OneP.parseGPSTime _ _); intro r1 v hfr; dsimp only)
  | (with_reducible apply OneO.bindP' (OneP.parseGPSTime _ _); intro r1 v hfr; dsimp only)
  | (with_reducible apply OneO.bindP (OneP.parseGPSDate _ _); intro r1 v hfr; dsimp only)
  | (with_reducible apply OneO.bindP' (OneP.parseGPSDate _ _); intro r1 v hfr; dsimp only)
  | (with_reducible apply OneO.bindN; intro v)
  | (with_reducible apply OneO.bindN'; intro v)
  | split)
macro "oneo_auto" : tactic => `(tactic| repeat' oneo_step)

theorem OneO.parseGpsIfd (r : R) (t : Tag) : OneO t (parseGpsIfd r t) r := by
  unfold Exif.parseGpsIfd
  simp only [bind]
  oneo_auto

end Imeta.Exif

namespace Imeta.Exif

theorem OneP.ok {t : Tag} {β} {r r1 : R} {v : β} (h : One t r r1) : OneP t (.ok (r1, v)) r := by
  intro r' v' h'; simp only [Outcome.ok.injEq, Prod.mk.injEq] at h'; rw [← h'.1]; exact h

theorem OneP.ite {t : Tag} {β} {c : Prop} [Decidable c] {a b : Outcome (R × β)} {r : R} (ha : OneP t a r) (hb : OneP t b r) :
    OneP t (if c then a else b) r := by
  split <;> assumption

theorem OneP.bindN' {t : Tag} {β γ} {x : Outcome β} {f : β → Outcome (R × γ)} {r : R} (hf : ∀ v, OneP t (f v) r) : OneP t (x >>= f) r := by
  intro r' w h
  cases x with
  | ok v => exact hf v r' w h
  | err k => simp [bind, Outcome.bind] at h
  | panic s => simp [bind, Outcome.bind] at h
  | fuel => simp [bind, Outcome.bind] at h

theorem OneP.bindP' {t : Tag} {β γ} {x : Outcome (R × β)} {f : R × β → Outcome (R × γ)} {r : R} (hx : OneP t x r)
    (hf : ∀ r1 v, One t r r1 → OneP t (f (r1, v)) r) : OneP t (x >>= f) r := by
  intro r' w h
  cases x with
  | ok p => obtain ⟨r1, v⟩ := p; exact hf r1 v (hx r1 v rfl) r' w h
  | err k => simp [bind, Outcome.bind] at h
  | panic s => simp [bind, Outcome.bind] at h
  | fuel => simp [bind, Outcome.bind] at h

-- one non-recursive pass over the leaves left after the if-chain has been opened
set_option hygiene false in
macro "oneo_leaves" : tactic => `(tactic| all_goals first
  | one_leaf
  | (with_reducible apply OneO.bindP' (OneP.parseBytes _ _ _); intro r1 v hfr; dsimp only; one_leaf)
  | (with_reducible apply OneO.bindP' (OneP.parseString _ _); intro r1 v hfr; dsimp only; one_leaf)
  | (with_reducible apply OneO.bindP' (OneP.parseDate _ _); intro r1 v hfr; dsimp only; one_leaf)
  | (with_reducible apply OneO.bindP' (OneP.parseRationalU _ _); intro r1 v hfr; dsimp only; one_leaf)
  | (with_reducible apply OneO.bindP' (OneP.parseLensInfo _ _); intro r1 v hfr; dsimp only; one_leaf)
  | (with_reducible apply OneO.bindP' (OneP.parseSubSec _ _); intro r1 v hfr; dsimp only; one_leaf)
  | (with_reducible apply OneO.bindP' (OneP.parseOffsetTime _ _); intro r1 v hfr; dsimp only; one_leaf)
  | (with_reducible apply OneO.bindN'; intro v; one_leaf)
  | skip)

set_option maxRecDepth 8000 in
theorem OneO.parseExifIfd (r : R) (t : Tag) : OneO t (parseExifIfd r t) r := by
  unfold Exif.parseExifIfd
  repeat' (with_reducible apply OneO.ite)
  oneo_leaves
  -- focal length: the value is chosen by an inner if-chain before the field is picked
  with_reducible apply OneO.bindP'
  · repeat' (with_reducible apply OneP.ite)
    · with_reducible apply OneP.bindN'; intro v; exact OneP.ok (One.refl _)
    · with_reducible apply OneP.bindP' (OneP.parseRationalU _ _); intro r1 v hfr; dsimp only; exact OneP.ok hfr
    · exact OneP.ok (One.refl _)
  · intro r1 v hfr; dsimp only
    with_reducible apply OneO.ite <;> exact OneO.ok (One.upd hfr _)

set_option maxRecDepth 8000 in
theorem OneO.parseIfd0 (tb : Tables) (r : R) (t : Tag) : OneO t (parseIfd0 tb r t) r := by
  unfold Exif.parseIfd0
  repeat' (with_reducible apply OneO.ite)
  oneo_leaves
  · with_reducible apply OneO.bindP' (OneP.parseBytes _ _ _); intro r1 s hfr; dsimp only
    split
    · exact OneO.ok (One.addAlloc (One.upd hfr _) _)
    · exact OneO.ok (One.addAlloc (One.upd hfr _) _)
  · with_reducible apply OneO.bindP' (OneP.parseBytes _ _ _); intro r1 s hfr; dsimp only
    split
    · exact OneO.ok (One.upd hfr _)
    · exact OneO.ok (One.addAlloc (One.upd hfr _) _)
  · split
    · exact OneO.ok (One.upd (One.refl _) _)
    · exact OneO.ok (One.refl _)

theorem OneO.parseTag0 (tb : Tables) (r : R) (t : Tag) : OneO t (parseTag0 tb r t) r := by
  unfold Exif.parseTag0
  have := OneO.parseIfd0 tb r t
  have := OneO.parseExifIfd r t
  have := OneO.parseGpsIfd r t
  repeat' (first | assumption | with_reducible apply OneO.ite | exact OneO.ok (One.refl _))

theorem OneO.parseTag (tb : Tables) (r : R) (t : Tag) : OneO t (parseTag tb r t) r := by
  intro r' h
  unfold Exif.parseTag at h
  cases hx : Exif.parseTag0 tb r t with
  | ok r0 =>
    rw [hx] at h; simp only [Outcome.bind, Outcome.ok.injEq] at h; rw [← h]
    rcases OneO.parseTag0 tb r t r0 hx with hs | ⟨hs, hr⟩
    · exact Or.inl ⟨hs.rest, hs.po, hs.exl, hs.buffered, hs.tags, hs.pos, hs.reads⟩
    · exact Or.inr ⟨⟨hs.rest, hs.po, hs.exl, hs.buffered, hs.tags, hs.pos, hs.reads⟩, hr⟩
  | err k => rw [hx] at h; simp [Outcome.bind] at h
  | panic p => rw [hx] at h; simp [Outcome.bind] at h
  | fuel => rw [hx] at h; simp [Outcome.bind] at h

end Imeta.Exif
