/-
  Helper lemmas for C19: index plan of the gray conversion, bit assembly, Hamming distance.
-/
import Imeta.Model.Hash
namespace Imeta.Hash
open Imeta

/-- the order laws the threshold theorems need (IEEE comparisons satisfy them as well: a NaN makes
every hypothesis false) -/
class LinearOrder' (α : Type) extends LT α where
  le : α → α → Prop
  decLt : DecidableLT α
  lt_irrefl : ∀ a : α, ¬ a < a
  lt_trans : ∀ {a b c : α}, a < b → b < c → a < c
  lt_of_lt_of_le : ∀ {a b c : α}, a < b → le b c → a < c
  lt_of_le_of_lt : ∀ {a b c : α}, le a b → b < c → a < c

instance {α} [LinearOrder' α] : DecidableLT α := LinearOrder'.decLt

instance : LinearOrder' Int where
  le := (· ≤ ·)
  decLt := inferInstance
  lt_irrefl := Int.lt_irrefl
  lt_trans := Int.lt_trans
  lt_of_lt_of_le := Int.lt_of_lt_of_le
  lt_of_le_of_lt := Int.lt_of_le_of_lt

/-! ### gray plan -/

theorem range_flatMap_rows (n s : Nat) :
    (List.range n).flatMap (fun i => (List.range s).map fun j => i * s + j) = List.range (n * s) := by
  induction n with
  | zero => simp
  | succ n ih =>
    rw [List.range_succ, List.flatMap_append, ih, Nat.succ_mul, List.range_add]
    simp

theorem grayPlan_dests (s : Nat) (mx my : Int) : (grayPlan s mx my).map (·.1) = List.range (s * s) := by
  unfold grayPlan
  rw [List.map_flatMap]
  simp only [List.map_map, Function.comp_def]
  exact range_flatMap_rows s s

theorem grayPlan_shift (s : Nat) (mx my : Int) :
    (grayPlan s mx my).map (fun p => (p.1, p.2.1 - mx, p.2.2 - my)) = grayPlan s 0 0 := by
  unfold grayPlan
  rw [List.map_flatMap]
  simp only [List.map_map, Function.comp_def, Int.zero_add]
  have e : ∀ (a b : Int), a + b - a = b := by intro a b; omega
  simp only [e]

theorem flatMap_rows_get {β} (s : Nat) (f : Nat → Nat → β) (n i j : Nat) (hi : i < n) (hj : j < s) :
    ((List.range n).flatMap fun i => (List.range s).map fun j => f i j)[i * s + j]? = some (f i j) := by
  induction n with
  | zero => omega
  | succ n ih =>
    rw [List.range_succ, List.flatMap_append]
    have hlen : ((List.range n).flatMap fun i => (List.range s).map fun j => f i j).length = n * s := by
      clear ih hi
      induction n with
      | zero => simp
      | succ m ihm => rw [List.range_succ, List.flatMap_append, List.length_append, ihm]; simp [Nat.succ_mul]
    by_cases h : i < n
    · have hlt : i * s + j < n * s := by
        have : (i + 1) * s ≤ n * s := Nat.mul_le_mul_right s h
        rw [Nat.succ_mul] at this; omega
      rw [List.getElem?_append_left (by rw [hlen]; exact hlt)]
      exact ih h
    · have hin : i = n := by omega
      subst hin
      rw [List.getElem?_append_right (by rw [hlen]; omega), hlen]
      simp [hj]

theorem grayPlan_get (s : Nat) (mx my : Int) (i j : Nat) (hi : i < s) (hj : j < s) :
    (grayPlan s mx my)[i * s + j]? = some (i * s + j, mx + j, my + i) :=
  flatMap_rows_get s (fun i j => (i * s + j, mx + (j : Int), my + (i : Int))) s i j hi hj

/-! ### bit assembly -/

section
variable {α : Type} [LT α] [DecidableLT α]

theorem hashBits_lt (T : α) (c : List α) : hashBits T c < 2 ^ c.length := by
  induction c with
  | nil => simp [hashBits]
  | cons x t ih =>
    simp only [hashBits, List.length_cons]
    apply Nat.or_lt_two_pow
    · split
      · rw [Nat.one_shiftLeft]; exact Nat.pow_lt_pow_right (by decide) (by omega)
      · exact Nat.two_pow_pos _
    · exact Nat.lt_trans ih (Nat.pow_lt_pow_right (by decide) (by omega))

theorem hashBits_testBit (T : α) (c : List α) (i : Nat) (h : i < c.length) :
    (hashBits T c).testBit (c.length - 1 - i) = decide (T < c[i]) := by
  induction c generalizing i with
  | nil => simp at h
  | cons x t ih =>
    simp only [hashBits, List.length_cons, Nat.testBit_or]
    cases i with
    | zero =>
      have h2 : (hashBits T t).testBit t.length = false := Nat.testBit_lt_two_pow (hashBits_lt T t)
      simp only [Nat.add_sub_cancel, Nat.sub_zero, h2, Bool.or_false, List.getElem_cons_zero]
      split
      · rename_i hx; rw [Nat.one_shiftLeft, Nat.testBit_two_pow_self]; simp [hx]
      · rename_i hx; simp [hx]
    | succ k =>
      have hk : k < t.length := by simpa using h
      have e : t.length + 1 - 1 - (k + 1) = t.length - 1 - k := by omega
      rw [e, List.getElem_cons_succ, ← ih k hk]
      have hne : t.length - 1 - k ≠ t.length := by omega
      split
      · rw [Nat.one_shiftLeft, Nat.testBit_two_pow]; simp; intro hc; omega
      · simp

theorem hashBitsLoop_aux (T : α) (n : Nat) (c : List α) (off acc : Nat) (hn : off + c.length = n) :
    (c.zipIdx off).foldl (fun acc (p : α × Nat) => if T < p.1 then acc ||| (1 <<< (n - p.2 - 1)) else acc) acc
      = acc ||| hashBits T c := by
  induction c generalizing off acc with
  | nil => simp [hashBits]
  | cons x t ih =>
    simp only [List.zipIdx_cons, List.foldl_cons, hashBits]
    have hlen : n - off - 1 = t.length := by simp only [List.length_cons] at hn; omega
    rw [ih (off + 1) _ (by simp only [List.length_cons] at hn; omega), hlen]
    split
    · rw [Nat.or_assoc]
    · simp

theorem hashBitsLoop_eq (T : α) (c : List α) : hashBitsLoop T c = hashBits T c := by
  unfold hashBitsLoop
  have := hashBitsLoop_aux T c.length c 0 0 (by simp)
  simpa using this

theorem hashWords_testBit (T : α) (c : List α) (hc : c.length = 256) (w r : Nat) (hw : w < 4) (hr : r < 64) :
    ∃ word, (hashWords T c)[w]? = some word ∧ word.testBit (63 - r) = decide (T < c[64 * w + r]'(by omega)) := by
  have key : ∀ (d : Nat) (hd : d + 64 ≤ 256),
      (hashBits T ((c.drop d).take 64)).testBit (63 - r) = decide (T < c[d + r]'(by omega)) := by
    intro d hd
    have hl : ((c.drop d).take 64).length = 64 := by simp [hc]; omega
    have h1 := hashBits_testBit T ((c.drop d).take 64) r (by omega)
    have e : ((c.drop d).take 64).length - 1 - r = 63 - r := by omega
    rw [e] at h1
    rw [h1]
    congr 2
    simp [List.getElem_take, List.getElem_drop]
  have hcases : w = 0 ∨ w = 1 ∨ w = 2 ∨ w = 3 := by omega
  rcases hcases with h | h | h | h <;> subst h
  · refine ⟨_, rfl, ?_⟩; have := key 0 (by omega); simpa using this
  · refine ⟨_, rfl, ?_⟩; exact key 64 (by omega)
  · refine ⟨_, rfl, ?_⟩; exact key 128 (by omega)
  · refine ⟨_, rfl, ?_⟩; exact key 192 (by omega)

end

/-! ### Hamming distance -/

theorem countP_le_length' {β} (p : β → Bool) (l : List β) : l.countP p ≤ l.length := List.countP_le_length

theorem popcount64_le (x : Nat) : popcount64 x ≤ 64 := by
  unfold popcount64
  have := countP_le_length' (fun i => x.testBit i) (List.range 64)
  simpa using this

theorem distance64_eq (a b : Nat) : distance64 a b = popcount64 (a ^^^ b) := by
  unfold distance64
  exact Nat.mod_eq_of_lt (Nat.lt_of_le_of_lt (popcount64_le _) (by decide))

theorem countP_triangle {β} (p q r : β → Bool) (l : List β)
    (h : ∀ x, (p x = true) → (q x = true ∨ r x = true)) :
    l.countP p ≤ l.countP q + l.countP r := by
  induction l with
  | nil => simp
  | cons x t ih =>
    simp only [List.countP_cons]
    have := h x
    cases hp : p x <;> cases hq : q x <;> cases hr : r x <;> simp_all <;> omega

theorem popcount_triangle (a b c : Nat) :
    popcount64 (a ^^^ c) ≤ popcount64 (a ^^^ b) + popcount64 (b ^^^ c) := by
  unfold popcount64
  apply countP_triangle
  intro i
  simp only [Nat.testBit_xor]
  cases a.testBit i <;> cases b.testBit i <;> cases c.testBit i <;> simp

theorem distance64_zero_iff (a b : Nat) (ha : a < 2 ^ 64) (hb : b < 2 ^ 64) : distance64 a b = 0 ↔ a = b := by
  rw [distance64_eq]
  constructor
  · intro h
    apply Nat.eq_of_testBit_eq
    intro i
    by_cases hi : i < 64
    · unfold popcount64 at h
      rw [List.countP_eq_zero] at h
      have := h i (by simp [hi])
      simp only [Nat.testBit_xor, Bool.not_eq_true] at this
      cases ha' : a.testBit i <;> cases hb' : b.testBit i <;> simp_all
    · have h1 : a < 2 ^ i := Nat.lt_of_lt_of_le ha (Nat.pow_le_pow_right (by decide) (by omega))
      have h2 : b < 2 ^ i := Nat.lt_of_lt_of_le hb (Nat.pow_le_pow_right (by decide) (by omega))
      rw [Nat.testBit_lt_two_pow h1, Nat.testBit_lt_two_pow h2]
  · intro h; subst h; simp [popcount64]

theorem distance256_self (a : List Nat) : distance256 a a = 0 := by
  unfold distance256
  induction a with
  | nil => rfl
  | cons x t ih => simp [popcount64] at *; exact ih

theorem distance256_comm (a b : List Nat) : distance256 a b = distance256 b a := by
  unfold distance256
  induction a generalizing b with
  | nil => cases b <;> simp
  | cons x t ih =>
    cases b with
    | nil => simp
    | cons y u => simp only [List.zip_cons_cons, List.map_cons, List.sum_cons, Nat.xor_comm x y, ih u]

theorem distance256_triangle (a b c : List Nat) (hab : a.length = b.length) (hbc : b.length = c.length) :
    distance256 a c ≤ distance256 a b + distance256 b c := by
  unfold distance256
  induction a generalizing b c with
  | nil => simp
  | cons x t ih =>
    cases b with
    | nil => simp at hab
    | cons y u =>
      cases c with
      | nil => simp at hbc
      | cons z v =>
        simp only [List.zip_cons_cons, List.map_cons, List.sum_cons]
        have h1 := popcount_triangle x y z
        have h2 := ih u v (by simpa using hab) (by simpa using hbc)
        omega

end Imeta.Hash
