/- One-instruction lemmas for the assembly semantics, used to execute generated instruction tables symbolically. -/
import Imeta.Model.AsmSem
namespace Imeta.AsmSem

variable {f : Nat → Ins} {P : String → Int}

theorem step_movP {pc regs tr p d} (h : f pc = .movP p d) : step f P ⟨pc, regs, tr, false⟩ = ⟨pc + 1, upd regs d (P p), tr, false⟩ := by simp [step, h]
theorem step_movR {pc regs tr a d} (h : f pc = .movR a d) : step f P ⟨pc, regs, tr, false⟩ = ⟨pc + 1, upd regs d (regs a), tr, false⟩ := by simp [step, h]
theorem step_imul {pc regs tr a d} (h : f pc = .imul a d) : step f P ⟨pc, regs, tr, false⟩ = ⟨pc + 1, upd regs d (regs d * regs a), tr, false⟩ := by simp [step, h]
theorem step_add {pc regs tr a d} (h : f pc = .add a d) : step f P ⟨pc, regs, tr, false⟩ = ⟨pc + 1, upd regs d (regs d + regs a), tr, false⟩ := by simp [step, h]
theorem step_addI {pc regs tr v d} (h : f pc = .addI v d) : step f P ⟨pc, regs, tr, false⟩ = ⟨pc + 1, upd regs d (regs d + v), tr, false⟩ := by simp [step, h]
theorem step_zero {pc regs tr d} (h : f pc = .zero d) : step f P ⟨pc, regs, tr, false⟩ = ⟨pc + 1, upd regs d 0, tr, false⟩ := by simp [step, h]
theorem step_jmp {pc regs tr t} (h : f pc = .jmp t) : step f P ⟨pc, regs, tr, false⟩ = ⟨t, regs, tr, false⟩ := by simp [step, h]
theorem step_nop {pc regs tr} (h : f pc = .nop) : step f P ⟨pc, regs, tr, false⟩ = ⟨pc + 1, regs, tr, false⟩ := by simp [step, h]
theorem step_load {pc regs tr b i sc w} (h : f pc = .load b i sc w) : step f P ⟨pc, regs, tr, false⟩ = ⟨pc + 1, regs, tr ++ [⟨b, regs i * sc, w, false⟩], false⟩ := by simp [step, h]
theorem step_store {pc regs tr b i sc w} (h : f pc = .store b i sc w) : step f P ⟨pc, regs, tr, false⟩ = ⟨pc + 1, regs, tr ++ [⟨b, regs i * sc, w, true⟩], false⟩ := by simp [step, h]
theorem step_cmpje_ne {pc regs tr a b t} (h : f pc = .cmpje a b t) (hne : regs a ≠ regs b) : step f P ⟨pc, regs, tr, false⟩ = ⟨pc + 1, regs, tr, false⟩ := by simp [step, h, hne]
theorem step_cmpje_eq {pc regs tr a b t} (h : f pc = .cmpje a b t) (he : regs a = regs b) : step f P ⟨pc, regs, tr, false⟩ = ⟨t, regs, tr, false⟩ := by simp [step, h, he]
theorem step_ret {pc regs tr} (h : f pc = .ret) : step f P ⟨pc, regs, tr, false⟩ = ⟨pc, regs, tr, true⟩ := by simp [step, h]

theorem S.ext' {a b : S} (h1 : a.pc = b.pc) (h2 : a.regs = b.regs) (h3 : a.trace = b.trace) (h4 : a.halted = b.halted) : a = b := by
  cases a; cases b; simp_all

end Imeta.AsmSem
