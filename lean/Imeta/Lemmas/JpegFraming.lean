/-
  One-segment framing lemmas for C10.
-/
import Imeta.Lemmas.Jpeg
import Imeta.Spec.Jpeg
namespace Imeta.Jpeg
open Imeta

theorem be16_size (n : Nat) (h : n < 65536) :
    (UInt8.ofNat (n / 256)).toNat * 256 + (UInt8.ofNat (n % 256)).toNat = n := by
  have h1 : n / 256 < 256 := by omega
  have h2 : n % 256 < 256 := by omega
  simp only [UInt8.toNat_ofNat', Nat.mod_eq_of_lt h1, Nat.mod_eq_of_lt h2]
  omega

/-- `discard` of exactly a prefix -/
theorem discard_prefix (pre r : Bytes) (d pos : Nat) (n : Nat) (hn : n = pre.length) (h0 : 0 < n)
    (hd : d + n < 2 ^ 32) :
    discard { rest := pre ++ r, discarded := d, pos := pos } (n : Int) =
      ({ rest := r, discarded := d + n, pos := pos }, none) := by
  subst hn
  rw [discard_ok _ _ h0 (by simp)]
  simp [Nat.mod_eq_of_lt hd]

theorem step_skip (cb : Cbs) (mk : UInt8) (p r : Bytes) (d : Nat)
    (hwf : (Seg.skip mk p).wf) (hr : 64 ≤ r.length) (hd : d + (Seg.skip mk p).encode.length < 2 ^ 32) :
    step cb { rest := (Seg.skip mk p).encode ++ r, discarded := d, pos := 1 } =
      .next { rest := r, discarded := d + (Seg.skip mk p).encode.length, pos := 1 } [] := by
  obtain ⟨hlen, h1, h2, h3, h4, h5, h6⟩ := hwf
  have hsz := be16_size (p.length + 2) hlen
  have henc : (Seg.skip mk p).encode.length = p.length + 4 := by simp [Seg.encode, be16]
  have hrest : (Seg.skip mk p).encode ++ r =
      0xFF :: mk :: UInt8.ofNat ((p.length + 2) / 256) :: UInt8.ofNat ((p.length + 2) % 256) :: (p ++ r) := by
    simp [Seg.encode, be16]
  have hdisc := discard_prefix ((Seg.skip mk p).encode) r d 1 (p.length + 4) henc.symm (by omega) (by omega)
  rw [hrest] at hdisc ⊢
  rw [henc]
  have e1 : (mk == 0xD8) = false := by simpa using h1
  have e2 : (mk == 0xD9) = false := by simpa using h2
  have e3 : (mk == 0xDB) = false := by simpa using h3
  have e4 : (mk == 0xDD) = false := by simpa using h4
  have e0 : (mk == 0xFF) = false := by simpa using h6
  have hcast : ((p.length + 2 + 2 : Nat) : Int) = ((p.length + 4 : Nat) : Int) := by omega
  unfold step
  dsimp only
  rw [if_neg (by simp only [List.length_cons, List.length_append]; omega)]
  simp only [show ((0xFF : UInt8) != 0xFF) = false by decide, Bool.false_eq_true, if_false, e0, e1, e2, e3, e4, hsz]
  rw [if_neg (by decide : ¬ (1 : Nat) = 0)]
  have hfin : finish (discard { rest := 0xFF :: mk :: UInt8.ofNat ((p.length + 2) / 256) :: UInt8.ofNat ((p.length + 2) % 256) :: (p ++ r), discarded := d, pos := 1 } (((p.length + 2 : Nat) : Int) + 2)) [] =
      .next { rest := r, discarded := d + (p.length + 4), pos := 1 } [] := by
    have : (((p.length + 2 : Nat) : Int) + 2) = ((p.length + 4 : Nat) : Int) := by omega
    rw [this, hdisc]; rfl
  split
  · exact hfin
  · split
    · split
      · rename_i hE1
        have hmk : mk = 0xE1 := by simpa using hE1
        obtain ⟨hp29, hpe, hpx⟩ := h5 hmk
        have t6 : List.take 6 (List.drop 4 (0xFF :: mk :: UInt8.ofNat ((p.length + 2) / 256) :: UInt8.ofNat ((p.length + 2) % 256) :: (p ++ r))) = p.take 6 := by
          simp only [List.drop_succ_cons, List.drop_zero]
          rw [List.take_append_of_le_length (by omega)]
        have t29 : List.take 29 (List.drop 4 (0xFF :: mk :: UInt8.ofNat ((p.length + 2) / 256) :: UInt8.ofNat ((p.length + 2) % 256) :: (p ++ r))) = p.take 29 := by
          simp only [List.drop_succ_cons, List.drop_zero]
          rw [List.take_append_of_le_length (by omega)]
        rw [t6, t29]
        have b1 : (p.take 6 == exifPrefix) = false := by simpa using hpe
        have b2 : (p.take 29 == xmpPrefix) = false := by simpa using hpx
        simp only [b1, b2, Bool.false_eq_true, if_false]
        exact hfin
      · exact hfin
    · exact hfin

theorem step_dri (cb : Cbs) (a b : UInt8) (r : Bytes) (d : Nat)
    (hr : 64 ≤ r.length) (hd : d + 6 < 2 ^ 32) :
    step cb { rest := (Seg.dri a b).encode ++ r, discarded := d, pos := 1 } =
      .next { rest := r, discarded := d + 6, pos := 1 } [] := by
  have hdisc := discard_prefix [0xFF, 0xDD, 0, 4, a, b] r d 1 6 rfl (by decide) hd
  have hrest : (Seg.dri a b).encode ++ r = 0xFF :: 0xDD :: 0 :: 4 :: a :: b :: r := rfl
  rw [hrest]
  simp only [List.cons_append, List.nil_append] at hdisc
  unfold step
  dsimp only
  rw [if_neg (by simp only [List.length_cons]; omega)]
  simp only [show ((0xFF : UInt8) != 0xFF) = false by decide, Bool.false_eq_true, if_false,
    show ((0xDD : UInt8) == 0xFF) = false by decide, show ((0xDD : UInt8) == 0xD8) = false by decide, show ((0xDD : UInt8) == 0xD9) = false by decide,
    show ((0xDD : UInt8) == 0xDB) = false by decide, show ((0xDD : UInt8) == 0xDD) = true by decide, if_true]
  rw [if_neg (by decide : ¬ (1 : Nat) = 0)]
  rw [if_neg (by decide), if_neg (by decide)]
  have : ((6 : Nat) : Int) = 6 := rfl
  rw [← this, hdisc]; rfl

theorem uint_field (t : Bytes) (o : ByteOrder) : o.uint (((t.take 8).drop 4).take 4) = o.uint ((t.drop 4).take 4) := by
  rw [List.drop_take, List.take_take]; rfl

theorem step_exif (cb : Cbs) (t r : Bytes) (d : Nat) (hcb : cb.wellBehaved)
    (hwf : (Seg.exif t).wf) (hr : 64 ≤ r.length) (hd : d + (Seg.exif t).encode.length < 2 ^ 32) :
    step cb { rest := (Seg.exif t).encode ++ r, discarded := d, pos := 1 } =
      .next { rest := r, discarded := d + (Seg.exif t).encode.length, pos := 1 } ((Seg.exif t).events cb d) := by
  obtain ⟨h8, hlen⟩ := hwf
  have hsz := be16_size (t.length + 8) hlen
  have henc : (Seg.exif t).encode.length = t.length + 10 := by simp [Seg.encode, be16, exifPrefix]
  have hrest : (Seg.exif t).encode ++ r =
      0xFF :: 0xE1 :: UInt8.ofNat ((t.length + 8) / 256) :: UInt8.ofNat ((t.length + 8) % 256) ::
        0x45 :: 0x78 :: 0x69 :: 0x66 :: 0 :: 0 :: (t ++ r) := by
    simp [Seg.encode, be16, exifPrefix]
  rw [henc] at hd ⊢
  rw [hrest]
  have hdisc := discard_prefix [0xFF, 0xE1, UInt8.ofNat ((t.length + 8) / 256), UInt8.ofNat ((t.length + 8) % 256),
      0x45, 0x78, 0x69, 0x66, 0, 0] (t ++ r) d 1 10 rfl (by decide) (by omega)
  simp only [List.cons_append, List.nil_append] at hdisc
  unfold step
  dsimp only
  rw [if_neg (by simp only [List.length_cons, List.length_append]; omega)]
  simp only [show ((0xFF : UInt8) != 0xFF) = false by decide, Bool.false_eq_true, if_false,
    show ((0xE1 : UInt8) == 0xFF) = false by decide, show ((0xE1 : UInt8) == 0xD8) = false by decide, hsz]
  rw [if_neg (by decide : ¬ (1 : Nat) = 0)]
  rw [if_neg (by decide), if_pos (by decide)]
  simp only [show ((0xE1 : UInt8) == 0xE1) = true by decide, if_true, List.drop_succ_cons, List.drop_zero,
    List.take_succ_cons, List.take_zero, exifPrefix, BEq.rfl]
  unfold readExif
  have : ((10 : Nat) : Int) = 10 := rfl
  rw [← this, hdisc]
  dsimp only
  rw [if_neg (by simp only [List.length_append]; omega)]
  have hrem : (((t.length + 8 : Nat) : Int) - 8) % 2 ^ 32 = (t.length : Int) := by
    have : ((t.length + 8 : Nat) : Int) - 8 = (t.length : Int) := by omega
    rw [this]; omega
  have htake8 : List.take 8 (t ++ r) = t.take 8 := List.take_append_of_le_length h8
  by_cases he : cb.hasExif = true
  · simp only [he, if_true, hrem, Int.toNat_natCast, htake8, hcb.1, Seg.events]
    have hview : List.take t.length (t ++ r) = t := List.take_left' rfl
    have hmin : min t.length (t ++ r).length = t.length := by simp
    have hdrop : List.drop t.length (t ++ r) = r := List.drop_left' rfl
    simp only [hview, hmin, hdrop, Bool.false_eq_true, if_false, uint_field]
    rw [Nat.mod_eq_of_lt (by omega)]
    simp [Nat.add_assoc, Nat.add_comm 10]
  · have he' : cb.hasExif = false := by simpa using he
    simp only [he', Bool.false_eq_true, if_false, Seg.events]
    have : ((t.length + 8 : Nat) : Int) - 8 = ((t.length : Nat) : Int) := by omega
    rw [this, discard_prefix t r (d + 10) 1 t.length rfl (by omega) (by omega)]
    simp [finish, Nat.add_assoc, Nat.add_comm 10]

theorem xmpPrefix_length : xmpPrefix.length = 29 := rfl

theorem step_xmp (cb : Cbs) (k r : Bytes) (d : Nat) (hcb : cb.wellBehaved)
    (hwf : (Seg.xmp k).wf) (hr : 64 ≤ r.length) (hd : d + (Seg.xmp k).encode.length < 2 ^ 32) :
    step cb { rest := (Seg.xmp k).encode ++ r, discarded := d, pos := 1 } =
      .next { rest := r, discarded := d + (Seg.xmp k).encode.length, pos := 1 } ((Seg.xmp k).events cb d) := by
  have hlen : k.length + 31 < 65536 := hwf
  have hsz := be16_size (k.length + 31) hlen
  have henc : (Seg.xmp k).encode.length = k.length + 33 := by simp [Seg.encode, be16, xmpPrefix_length]; omega
  have hrest : (Seg.xmp k).encode ++ r =
      0xFF :: 0xE1 :: UInt8.ofNat ((k.length + 31) / 256) :: UInt8.ofNat ((k.length + 31) % 256) :: (xmpPrefix ++ (k ++ r)) := by
    simp [Seg.encode, be16]
  rw [henc] at hd ⊢
  rw [hrest]
  have hdisc := discard_prefix (0xFF :: 0xE1 :: UInt8.ofNat ((k.length + 31) / 256) :: UInt8.ofNat ((k.length + 31) % 256) :: xmpPrefix)
      (k ++ r) d 1 33 (by simp [xmpPrefix_length]) (by decide) (by omega)
  simp only [List.cons_append] at hdisc
  have t6 : (List.take 6 (xmpPrefix ++ (k ++ r)) == exifPrefix) = false := by
    simp [xmpPrefix, exifPrefix]
  have t29 : (List.take 29 (xmpPrefix ++ (k ++ r)) == xmpPrefix) = true := by
    rw [List.take_left' xmpPrefix_length]; simp
  unfold step
  dsimp only
  rw [if_neg (by simp only [List.length_cons, List.length_append, xmpPrefix_length]; omega)]
  simp only [show ((0xFF : UInt8) != 0xFF) = false by decide, Bool.false_eq_true, if_false,
    show ((0xE1 : UInt8) == 0xFF) = false by decide, show ((0xE1 : UInt8) == 0xD8) = false by decide, hsz]
  rw [if_neg (by decide : ¬ (1 : Nat) = 0)]
  rw [if_neg (by decide), if_pos (by decide)]
  simp only [show ((0xE1 : UInt8) == 0xE1) = true by decide, if_true, List.drop_succ_cons, List.drop_zero, t6, t29,
    Bool.false_eq_true, if_false]
  unfold readXMP
  have : ((33 : Nat) : Int) = 33 := rfl
  rw [← this, hdisc]
  dsimp only
  have hrem : ((k.length + 31 : Nat) : Int) - 2 - 29 = ((k.length : Nat) : Int) := by omega
  by_cases hx : cb.hasXmp = true
  · simp only [hx, if_true, hrem, Int.toNat_natCast, Seg.events]
    have hview : List.take k.length (k ++ r) = k := List.take_left' rfl
    simp only [hview, hcb.2, Bool.false_eq_true, if_false]
    generalize hc : min (cb.xmp k).1 k.length = c
    have hcle : c ≤ k.length := by rw [← hc]; exact Nat.min_le_right _ _
    have hdrop : List.drop c (k ++ r) = k.drop c ++ r := List.drop_append_of_le_length hcle
    rw [hdrop, Nat.mod_eq_of_lt (by omega)]
    by_cases hk0 : k.length = 0
    · have hc0 : c = 0 := by omega
      have hknil : k = [] := List.eq_nil_of_length_eq_zero hk0
      subst hknil
      simp [hc0, discard]
    · rw [if_neg (by omega)]
      by_cases hceq : c = k.length
      · subst hceq
        simp [discard, Nat.add_assoc, Nat.add_comm 33]
      · have hlt : c < k.length := by omega
        have hcast : ((k.length : Nat) : Int) - (c : Int) = ((k.length - c : Nat) : Int) := by omega
        rw [hcast, discard_prefix (k.drop c) r (d + 33 + c) 1 (k.length - c) (by simp) (by omega) (by omega)]
        dsimp only
        congr 2
        omega
  · have hx' : cb.hasXmp = false := by simpa using hx
    simp only [hx', Bool.false_eq_true, if_false, Seg.events, hrem]
    by_cases hk0 : k.length = 0
    · have hknil : k = [] := List.eq_nil_of_length_eq_zero hk0
      subst hknil
      simp [discard, finish]
    · rw [discard_prefix k r (d + 33) 1 k.length rfl (by omega) (by omega)]
      simp [finish, Nat.add_assoc, Nat.add_comm 33]

end Imeta.Jpeg
