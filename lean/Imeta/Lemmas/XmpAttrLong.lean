/-
  C13: an attribute value of any length the reader's windows can hold.  `readAttrValue` looks at 256, then 768, then 1280
  bytes; a value whose closing quote (and the two bytes after it) lie beyond a window makes the reader try the next one
  without consuming anything, and the value comes back exactly, whichever window it ends in.
-/
import Imeta.Lemmas.XmpElem
namespace Imeta.Xmp
open Imeta Imeta.Props.C13

theorem peekN (n : Nat) (st : St) (v t'' : Bytes) (q a b : UInt8) (hn : n ≤ W) (hvwin : v.length + 5 ≤ n) :
    peek n { st with rest := [61, q] ++ v ++ [q, a, b] ++ t'' } =
      (.ok ([61, q] ++ v ++ [q, a, b] ++ t''.take (n - (v.length + 5))), { st with rest := [61, q] ++ v ++ [q, a, b] ++ t'' }) := by
  rw [peek_take n _ hn (by simp; omega)]
  congr 2
  show (([61, q] ++ v ++ [q, a, b]) ++ t'' : Bytes).take n = _
  rw [List.take_append, List.take_of_length_le (by simp; omega)]
  have : ([61, q] ++ v ++ [q, a, b] : Bytes).length = v.length + 5 := by simp
  rw [this]

/-- a window that does not hold the closing quote and the two bytes after it: the next window is tried, nothing consumed -/
theorem attr_value_miss (tag : Tag) (f sz : Nat) (st : St) (v t'' : Bytes) (q a b : UInt8)
    (hq : q = 34 ∨ q = 39) (hv : ∀ x ∈ v, (x == q) = false) (hsz : sz ≤ W) (h2 : 2 ≤ sz) (hmiss : sz < v.length + 5)
    (hr : st.rest = [61, q] ++ v ++ [q, a, b] ++ t'') :
    readAttrValue tag (f + 1) sz st = readAttrValue tag f (sz + 512) st := by
  have hL : st.rest.length = v.length + 5 + t''.length := by rw [hr]; simp; omega
  have hpk := peek_take sz st hsz (by omega)
  have hb0 : (st.rest.take sz)[0]? = some 61 := by rw [hr]; simp [List.getElem?_take]; omega
  have hq1 : idxFrom (fun b => !isWs b) (st.rest.take sz) 1 + 1 = 2 := by
    have : (st.rest.take sz) = [61] ++ q :: ((v ++ [q, a, b] ++ t'').take (sz - 2)) := by
      rw [hr]
      have e : ([61, q] ++ v ++ [q, a, b] ++ t'' : Bytes) = 61 :: q :: (v ++ [q, a, b] ++ t'') := by simp
      have e2 : sz = (sz - 2) + 1 + 1 := by omega
      rw [e, e2, List.take_succ_cons, List.take_succ_cons]; simp
    rw [this]
    have := idxFrom_found (fun b => !isWs b) [61] ((v ++ [q, a, b] ++ t'').take (sz - 2)) q 1 (by simp) (by simp)
      (by rcases hq with h | h <;> subst h <;> decide)
    simp only [List.length_singleton] at this
    rw [this]
  have hb1 : (st.rest.take sz).getD (2 - 1) 0 = q := by
    rw [hr]
    have e : ([61, q] ++ v ++ [q, a, b] ++ t'' : Bytes) = 61 :: q :: (v ++ [q, a, b] ++ t'') := by simp
    have e2 : sz = (sz - 2) + 1 + 1 := by omega
    rw [e, e2, List.take_succ_cons, List.take_succ_cons]; rfl
  refine attr_value_retry tag f sz st (st.rest.take sz) 61 q 2 hpk hb0 hq1 hb1 (Or.inr ?_)
  -- the closing quote, or one of the two bytes after it, is not in the window
  have hlen : (st.rest.take sz).length = sz := by rw [List.length_take]; omega
  have hk : v.length ≤ ((st.rest.take sz).drop 2).findIdx (fun x => x == q) ∨ ((st.rest.take sz).drop 2).length ≤ ((st.rest.take sz).drop 2).findIdx (fun x => x == q) := by
    by_cases hc : v.length ≤ sz - 2
    · left
      have : (st.rest.take sz).drop 2 = v ++ ([q, a, b] ++ t'').take (sz - 2 - v.length) := by
        rw [hr]
        have e : ([61, q] ++ v ++ [q, a, b] ++ t'' : Bytes) = [61, q] ++ (v ++ ([q, a, b] ++ t'')) := by simp
        rw [e, List.take_append, List.take_of_length_le (by simp; omega), List.drop_append, List.drop_of_length_le (by simp)]
        simp only [List.length_cons, List.length_nil, List.nil_append, Nat.sub_self, List.drop_zero]
        rw [List.take_append, List.take_of_length_le (by omega)]
      rw [this, findIdx_skip _ _ _ hv]; omega
    · right
      have : (st.rest.take sz).drop 2 = v.take (sz - 2) := by
        rw [hr]
        have e : ([61, q] ++ v ++ [q, a, b] ++ t'' : Bytes) = [61, q] ++ (v ++ ([q, a, b] ++ t'')) := by simp
        rw [e, List.take_append, List.take_of_length_le (by simp; omega), List.drop_append, List.drop_of_length_le (by simp)]
        simp only [List.length_cons, List.length_nil, List.nil_append, Nat.sub_self, List.drop_zero]
        rw [List.take_append_of_le_length (by omega)]
      rw [this]
      have h := findIdx_skip (fun x => x == q) (v.take (sz - 2)) [] (fun x hx => hv x (List.mem_of_mem_take hx))
      have h2 : (v.take (sz - 2)).findIdx (fun x => x == q) = (v.take (sz - 2)).length := by
        rw [List.append_nil] at h; rw [h]; simp
      rw [h2]; exact Nat.le_refl _
  rw [hlen]
  rcases hk with h | h
  · omega
  · have : ((st.rest.take sz).drop 2).length = sz - 2 := by rw [List.length_drop, hlen]
    omega

/-- **An attribute value of any length up to 1275 bytes is returned exactly**, whichever of the three windows it ends in
(`c1` after the closing quote is neither '>' nor '/': another attribute follows) -/
theorem readAttrValue_any (tag : Tag) (st : St) (v t'' : Bytes) (q c1 c2 : UInt8)
    (hq : q = 34 ∨ q = 39) (hv : ∀ x ∈ v, (x == q) = false) (h62 : c1 ≠ 62) (h47 : c1 ≠ 47) (hlen : v.length + 5 ≤ 1280)
    (hr : st.rest = [61, q] ++ v ++ [q, c1, c2] ++ t'') :
    readAttrValue tag 8 256 st = (.ok (v, tag), { st with rest := [c1, c2] ++ t'' }) := by
  have hfin : ([61, q] ++ v ++ [q, c1, c2] ++ t'' : Bytes).drop (v.length + 3) = [c1, c2] ++ t'' := by
    have e : ([61, q] ++ v ++ [q, c1, c2] ++ t'' : Bytes) = ([61, q] ++ v ++ [q]) ++ ([c1, c2] ++ t'') := by simp
    have : ([61, q] ++ v ++ [q] : Bytes).length = v.length + 3 := by simp
    rw [e, ← this, List.drop_left]
  have hst : st = { st with rest := [61, q] ++ v ++ [q, c1, c2] ++ t'' } := by cases st; simp_all
  have exact : ∀ (f sz : Nat), sz ≤ W → v.length + 5 ≤ sz →
      readAttrValue tag (f + 1) sz st = (.ok (v, tag), { st with rest := [c1, c2] ++ t'' }) := by
    intro f sz hsz hfit
    have hp := peekN sz st v t'' q c1 c2 hsz hfit
    rw [← hst] at hp
    rw [attr_value_exact tag f sz st v _ q c1 c2 hq hv hp h62 h47, hr, hfin]
  by_cases h1 : v.length + 5 ≤ 256
  · exact exact 7 256 (by unfold W; omega) h1
  · rw [attr_value_miss tag 7 256 st v t'' q c1 c2 hq hv (by unfold W; omega) (by omega) (by omega) hr]
    by_cases h2 : v.length + 5 ≤ 768
    · exact exact 6 768 (by unfold W; omega) h2
    · rw [attr_value_miss tag 6 768 st v t'' q c1 c2 hq hv (by unfold W; omega) (by omega) (by omega) hr]
      exact exact 5 1280 (by unfold W; omega) hlen

end Imeta.Xmp
