/-
  C13: element values across the three look-ahead windows: the lemmas (elem_value_hit, elem_value_miss, readTagValue_any)
  live in Lemmas/XmpElem.lean, where the element theorems use them.
-/
import Imeta.Lemmas.XmpElem
