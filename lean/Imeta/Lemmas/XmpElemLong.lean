/-
  C13: an element value of any length the reader's windows can hold.  `readTagValue` looks at 512, then 1024, then 1536
  bytes; a window without the '<' that ends the value makes it try the next one, remembering how far it has searched, and the
  value comes back exactly, whichever window it ends in.
-/
import Imeta.Lemmas.XmpElem
namespace Imeta.Xmp
open Imeta Imeta.Props.C13

/-- a window that holds the whole value and the '<' behind it -/
theorem elem_value_hit (f sz j : Nat) (st : St) (c : UInt8) (v' t' : Bytes)
    (hv : ∀ x ∈ c :: v', (x == 60) = false) (hc : isWs c = false) (hsz : sz ≤ W) (hfit : (c :: v').length < sz) (hj : j ≤ (c :: v').length)
    (hr : st.rest = (c :: v') ++ 60 :: t') (h4 : 4 < st.rest.length) :
    readTagValue (f + 1) sz 0 j st = (.ok (c :: v'), { st with rest := 60 :: t' }) := by
  unfold readTagValue
  rw [bindOk _ _ _ _ _ (peek_take sz st hsz h4)]
  have hb : st.rest.take sz = (c :: v') ++ 60 :: (t'.take (sz - (c :: v').length - 1)) := by
    rw [hr, List.take_append, List.take_of_length_le (by omega)]
    have : sz - (c :: v').length = (sz - (c :: v').length - 1) + 1 := by omega
    rw [this, List.take_succ_cons]
    simp
  rw [hb]
  have hi0 : idxFrom (fun b => !isWs b) ((c :: v') ++ 60 :: (t'.take (sz - (c :: v').length - 1))) 0 = 0 := by
    unfold idxFrom; simp [List.findIdx_cons, hc]
  have hk : ∀ j', j' ≤ (c :: v').length → idxFrom (fun x => x == 60) ((c :: v') ++ 60 :: (t'.take (sz - (c :: v').length - 1))) j' = (c :: v').length :=
    fun j' hj' => idxFrom_found _ (c :: v') _ 60 j' hj' (fun x hx => hv x (List.mem_of_mem_drop hx)) rfl
  have hfin : ∀ (ij : Nat × Nat), ij.1 = 0 → ij.2 ≤ (c :: v').length →
      (let k := idxFrom (fun x => x == 60) ((c :: v') ++ 60 :: (t'.take (sz - (c :: v').length - 1))) ij.2
       if k < ((c :: v') ++ 60 :: (t'.take (sz - (c :: v').length - 1))).length then
         (discard k >>= fun _ => pure ((((c :: v') ++ 60 :: (t'.take (sz - (c :: v').length - 1))).drop ij.1).take (k - ij.1)) : M Bytes)
       else readTagValue f (sz + 512) ij.1 (max ij.2 ((c :: v') ++ 60 :: (t'.take (sz - (c :: v').length - 1))).length)) st =
      (.ok (c :: v'), { st with rest := 60 :: t' }) := by
    intro ij h1 h2
    simp only [hk ij.2 h2, h1]
    rw [if_pos (by simp)]
    simp only [List.drop_zero, Nat.sub_zero, List.take_left']
    show (discard (c :: v').length >>= fun _ => pure (c :: v')) st = _
    simp only [discard, bind, pure]
    congr 2
    rw [hr, List.drop_left]
  by_cases h0 : (0 == j) = true
  · have hj0 : j = 0 := by simpa using (by simpa using h0 : 0 = j).symm
    subst hj0
    simp only [beq_self_eq_true, if_true, hi0]
    exact hfin (0, 0) rfl (Nat.zero_le _)
  · simp only [h0, Bool.false_eq_true, if_false]
    exact hfin (0, j) rfl hj

/-- a window that ends inside the value: the next one is tried, the search position remembered, nothing consumed -/
theorem elem_value_miss (f sz j : Nat) (st : St) (c : UInt8) (v' t' : Bytes)
    (hv : ∀ x ∈ c :: v', (x == 60) = false) (hc : isWs c = false) (hsz : sz ≤ W) (hsz0 : 0 < sz) (hmiss : sz ≤ (c :: v').length) (hj : j ≤ sz)
    (hr : st.rest = (c :: v') ++ 60 :: t') :
    readTagValue (f + 1) sz 0 j st = readTagValue f (sz + 512) 0 sz st := by
  have h4 : 4 < st.rest.length ∨ st.rest.length ≤ 4 := by omega
  have hL : st.rest.length = (c :: v').length + 1 + t'.length := by rw [hr]; simp; omega
  conv => lhs; unfold readTagValue
  have hpk : peek sz st = (.ok (st.rest.take sz), st) := by
    unfold peek
    rw [if_neg (by omega), if_neg (by omega)]
  rw [bindOk _ _ _ _ _ hpk]
  have hb : st.rest.take sz = (c :: v').take sz := by
    rw [hr, List.take_append_of_le_length hmiss]
  rw [hb]
  have hlen : ((c :: v').take sz).length = sz := by rw [List.length_take]; omega
  have hnone : ∀ j', ((c :: v').take sz).length ≤ idxFrom (fun x => x == 60) ((c :: v').take sz) j' :=
    fun j' => idxFrom_none _ _ j' (fun x hx => hv x (List.mem_of_mem_take hx))
  have hi0 : idxFrom (fun b => !isWs b) ((c :: v').take sz) 0 = 0 := by
    obtain ⟨s', rfl⟩ : ∃ s', sz = s' + 1 := ⟨sz - 1, by omega⟩
    unfold idxFrom; simp [List.findIdx_cons, hc]
  by_cases h0 : (0 == j) = true
  · have hj0 : j = 0 := by simpa using (by simpa using h0 : 0 = j).symm
    subst hj0
    simp only [beq_self_eq_true, if_true, hi0]
    rw [if_neg (by have := hnone 0; omega)]
    rw [hlen]; simp
  · simp only [h0, Bool.false_eq_true, if_false]
    rw [if_neg (by have := hnone j; omega)]
    rw [hlen, Nat.max_eq_right hj]

/-- **An element value of any length up to 1535 bytes is returned exactly**, whichever of the three windows it ends in -/
theorem readTagValue_any (st : St) (c : UInt8) (v' t' : Bytes)
    (hv : ∀ x ∈ c :: v', (x == 60) = false) (hc : isWs c = false) (hlen : (c :: v').length < 1536)
    (hr : st.rest = (c :: v') ++ 60 :: t') (h4 : 4 < st.rest.length) :
    readTagValue 8 512 0 0 st = (.ok (c :: v'), { st with rest := 60 :: t' }) := by
  by_cases h1 : (c :: v').length < 512
  · exact elem_value_hit 7 512 0 st c v' t' hv hc (by unfold W; omega) h1 (Nat.zero_le _) hr h4
  · rw [elem_value_miss 7 512 0 st c v' t' hv hc (by unfold W; omega) (by omega) (by omega) (by omega) hr]
    by_cases h2 : (c :: v').length < 1024
    · exact elem_value_hit 6 1024 512 st c v' t' hv hc (by unfold W; omega) h2 (by omega) hr h4
    · rw [elem_value_miss 6 1024 512 st c v' t' hv hc (by unfold W; omega) (by omega) (by omega) (by omega) hr]
      exact elem_value_hit 5 1536 1024 st c v' t' hv hc (by unfold W; omega) hlen (by omega) hr h4

end Imeta.Xmp
