/-
  C03, part 6: the random-access decoder.  `parse*V` are the field parsers written as pure functions of the tag, the
  record so far and the outcome (bytes, error) of the one read the tag may need.  The definitions were produced from the
  text of Imeta/Model/Exif.lean by mechanical renaming (drop the reader state, pass `buf`/`err` instead of
  `readTagValue r t`); the theorems below prove that the streaming parsers compute exactly these functions of
  `readTagValue r t`, so the text of this file is checked, not trusted: when the model's parsers change, these proofs stop
  checking until the definitions follow.
-/
import Imeta.Lemmas.ExifOne
import Imeta.Lemmas.ExifWalk
namespace Imeta.Exif
open Imeta

def parseBytesV (t : Tag) (strict : Bool) (buf : Bytes) (err : Option ErrKind) : Outcome (Bytes) :=
  if t.isEmbedded then
    -- `ir.buffer.buf[:t.Size()]` after EmbeddedValue wrote the first 4 bytes; Size ≤ 4 here, so the slice is in range
    .ok (trimNUL ((embedded t).take t.size))
  else if isASCII t then
    if strict && err.isSome then .ok ([]) else .ok (trimNUL buf)
  else .ok ([])

def parseStringV (t : Tag) (buf : Bytes) (err : Option ErrKind) : Outcome (Bytes) := do
  let s ← parseBytesV t false buf err
  .ok s

def parseRationalUV (t : Tag) (buf : Bytes) (err : Option ErrKind) : Outcome (Nat × Nat) :=
  if isRat t then
    if err.isSome || buf.length < 8 then .ok (0, 0)
    else do
      let n ← rd32 t.order buf 0
      let d ← rd32 t.order buf 4
      .ok (n, d)
  else .ok (0, 0)

def parseDateV (t : Tag) (buf : Bytes) (err : Option ErrKind) : Outcome (Option DateT) :=
  if t.typ = tASCII then
    if err.isSome then .ok (none)
    else if buf.length ≥ 19 then do
      let c4 ← idx buf 4; let c7 ← idx buf 7; let c10 ← idx buf 10; let c13 ← idx buf 13; let c16 ← idx buf 16
      if c4 == 58 && c7 == 58 && c10 == 32 && c13 == 58 && c16 == 58 then do
        let d ← dateOf buf
        .ok (some d)
      else .ok (none)
    else .ok (none)
  else .ok (none)

def parseOffsetTimeV (t : Tag) (buf : Bytes) (err : Option ErrKind) : Outcome (Zone) :=
  if t.typ = tASCII then
    if err.isSome then .ok (.utc)
    else if buf.length ≥ 6 then do
      let c3 ← idx buf 3
      if c3 == 58 then do
        let hh ← slc buf 1 3; let mm ← slc buf 4 6; let name ← slc buf 0 6
        let c0 ← idx buf 0
        let off : Int := (parseStrUint hh : Int) * 3600 + (parseStrUint mm : Int) * 60
        if c0 == 45 then .ok (.fixed (-off) name)
        else if c0 == 43 then .ok (.fixed off name)
        else .ok (.utc)
      else .ok (.utc)
    else .ok (.utc)
  else .ok (.utc)

def parseSubSecV (t : Tag) (buf : Bytes) (err : Option ErrKind) : Outcome (Nat) :=
  if isASCII t then
    if t.isEmbedded then .ok (subSecMillis (embedded t))
    else do
      let b ← parseBytesV t true buf err
      .ok (subSecMillis b)
  else .ok (0)

def parseLensInfoV (t : Tag) (buf : Bytes) (err : Option ErrKind) : Outcome (List Nat) :=
  if !t.isEmbedded then
    if err.isSome || buf.length < 32 then .ok ([])
    else do
      let a ← six t.order buf
      let a6 ← rd32 t.order buf 24
      let a7 ← rd32 t.order buf 28
      .ok (a ++ [a6, a7])
  else .ok ([])

def parseGPSCoordV (t : Tag) (buf : Bytes) (err : Option ErrKind) : Outcome (Option (List Nat)) :=
  if t.count = 3 ∧ isRat t then
    if err.isSome || buf.length < 24 then .ok (none)
    else do let a ← six t.order buf; .ok (some a)
  else .ok (none)

def parseGPSAltV (t : Tag) (buf : Bytes) (err : Option ErrKind) : Outcome (Option (Nat × Nat)) :=
  if t.count = 1 ∧ isRat t then
    if err.isSome || buf.length < 8 then .ok (none)
    else do
      let n ← rd32 t.order buf 0
      let d ← rd32 t.order buf 4
      .ok (some (n, d))
  else .ok (none)

def parseGPSTimeV (t : Tag) (buf : Bytes) (err : Option ErrKind) : Outcome (Nat) :=
  if t.count = 3 ∧ t.typ = tRational then
    if err.isSome || buf.length < 24 then .ok (0)
    else do
      let v ← six t.order buf
      let g (i : Nat) := v.getD i 0
      let a := if g 1 > 0 then (g 0 / g 1) * 3600 else 0
      let b := if g 3 > 0 then (g 2 / g 3) * 60 else 0
      let c := if g 5 > 0 then g 4 / g 5 else 0
      .ok ((a % 2 ^ 32 + b % 2 ^ 32 + c) % 2 ^ 32)
  else .ok (0)

def parseGPSDateV (t : Tag) (buf : Bytes) (err : Option ErrKind) : Outcome (Option DateT) :=
  if t.typ = tASCII then
    if err.isSome || buf.length < 10 then .ok (none)
    else do
      let c4 ← idx buf 4; let c7 ← idx buf 7
      if c4 == 58 && c7 == 58 && buf.length < 12 then do
        let y ← slc buf 0 4; let mo ← slc buf 5 7; let d ← slc buf 8 10
        .ok (some { y := parseStrUint y, mo := parseStrUint mo, d := parseStrUint d, h := 0, mi := 0, s := 0 })
      else if buf.length > 19 then do
        -- (repaired) the length is checked before `buf[10]`, `buf[13]`, `buf[16]`
        let c10 ← idx buf 10; let c13 ← idx buf 13; let c16 ← idx buf 16
        if c4 == 58 && c7 == 58 && c10 == 32 && c13 == 58 && c16 == 58 then do
          let d ← dateOf buf
          .ok (some d)
        else .ok (none)
      else .ok (none)
  else .ok (none)

def parseIfd0V (tb : Tables) (ex : Rec) (t : Tag) (buf : Bytes) (err : Option ErrKind) : Outcome Rec :=
  if t.id = 0x010f then do
    let s ← parseBytesV t true buf err
    match tb.makeOfString s with
    | some mk => .ok (Rec.set_cameraMake_make (mk) (tb.makeName mk) ex)
    | none => .ok (Rec.set_cameraMake_make (0) (s) ex)
  else if t.id = 0x0110 then do
    let s ← parseBytesV t true buf err
    let hit := if ex.cameraMake = canonMake then tb.canonModel s else if ex.cameraMake = appleMake then tb.appleModel s else none
    match hit with
    | some (m, name) => .ok (Rec.set_cameraModel_model (m) (name) ex)
    | none => .ok (Rec.set_cameraModel_model (0) (s) ex)
  else if t.id = 0x013b then do let s ← parseStringV t buf err; .ok (Rec.set_artist (s) ex)
  else if t.id = 0x8298 then do let s ← parseStringV t buf err; .ok (Rec.set_copyright (s) ex)
  else if t.id = 0x0100 then do let v ← parseUint32 t; .ok (Rec.set_width (v % 65536) ex)
  else if t.id = 0x0101 then do let v ← parseUint32 t; .ok (Rec.set_height (v % 65536) ex)
  else if t.id = 0x0111 then do let v ← parseUint32 t; .ok (Rec.set_stripOffsets (v) ex)
  else if t.id = 0x0117 then do let v ← parseUint32 t; .ok (Rec.set_stripByteCounts (v) ex)
  else if t.id = 0x0112 then do let v ← parseUint16 t; .ok (Rec.set_orientation (v) ex)
  else if t.id = 0x0131 then do let s ← parseStringV t buf err; .ok (Rec.set_software (s) ex)
  else if t.id = 0x010e then do let s ← parseStringV t buf err; .ok (Rec.set_description (s) ex)
  else if t.id = 0x0132 then do let d ← parseDateV t buf err; .ok (Rec.set_modifyDate (d) ex)
  else if t.id = 0xc612 then .ok (if ex.imageType = 8 then (Rec.set_imageType (9) ex) else ex)
  else if t.id = 0xc62f then
    if ex.cameraSerial = [] then do let s ← parseStringV t buf err; .ok (Rec.set_cameraSerial (s) ex)
    else .ok ex
  else .ok ex

def parseExifIfdV (ex : Rec) (t : Tag) (buf : Bytes) (err : Option ErrKind) : Outcome Rec :=
  if t.id = 0xa433 then do let s ← parseStringV t buf err; .ok (Rec.set_lensMake (s) ex)
  else if t.id = 0xa434 then do let s ← parseStringV t buf err; .ok (Rec.set_lensModel (s) ex)
  else if t.id = 0xa435 then do let s ← parseStringV t buf err; .ok (Rec.set_lensSerial (s) ex)
  else if t.id = 0xa430 then
    if ex.artist = [] then do let s ← parseStringV t buf err; .ok (Rec.set_artist (s) ex) else .ok ex
  else if t.id = 0xa431 then
    if ex.cameraSerial = [] then do let s ← parseStringV t buf err; .ok (Rec.set_cameraSerial (s) ex) else .ok ex
  else if t.id = 0xa002 then
    if ex.width = 0 then do let v ← parseUint32 t; .ok (Rec.set_width (v % 65536) ex) else .ok ex
  else if t.id = 0xa003 then
    if ex.height = 0 then do let v ← parseUint32 t; .ok (Rec.set_height (v % 65536) ex) else .ok ex
  else if t.id = 0x829a then
    if isRat t then do let (n, d) ← parseRationalUV t buf err; .ok (Rec.set_exposureTime_exposureTimeSet ((n, d)) (true) ex)
    else .ok (Rec.set_exposureTime_exposureTimeSet ((0, 0)) (false) ex)
  else if t.id = 0x9202 then
    -- `if ir.Exif.FNumber == 0.0`: unset, or set from FNumber to exactly 0/d (0/0 is NaN, which is not 0.0)
    if ex.fnumberKind = 0 ∨ (ex.fnumberKind = 1 ∧ ex.fnumber.1 = 0 ∧ ex.fnumber.2 ≠ 0) then do let (n, d) ← parseRationalUV t buf err; .ok (Rec.set_fnumber_fnumberKind ((n, d)) (2) ex)
    else .ok ex
  else if t.id = 0x829d then
    if isRat t then do let (n, d) ← parseRationalUV t buf err; .ok (Rec.set_fnumber_fnumberKind ((n, d)) (1) ex)
    else .ok (Rec.set_fnumber_fnumberKind ((0, 0)) (0) ex)
  else if t.id = 0x8822 then do let v ← parseUint16 t; .ok (Rec.set_exposureProgram (v) ex)
  else if t.id = 0x9204 then
    if !t.isEmbedded then do
      let (n, d) ← parseRationalUV t buf err
      -- NewExposureBias(int16(n), int16(d)): n << 8 + (d << 8 >> 8), all in int16
      let n16 := wrap16 n; let d16 := wrap16 d
      .ok (Rec.set_exposureBias (wrap16i (wrap16i (n16 * 256) + wrap16i (wrap16i (d16 * 256) / 256))) ex)
    else .ok (Rec.set_exposureBias (0) ex)
  else if t.id = 0xa402 then do let v ← parseUint16 t; .ok (Rec.set_exposureMode (v) ex)
  else if t.id = 0x9207 then do let v ← parseUint16 t; .ok (Rec.set_meteringMode (v) ex)
  else if t.id = 0x8827 then do let v ← parseUint32 t; .ok (Rec.set_isoSpeed (v) ex)
  else if t.id = 0x9209 then do let v ← parseUint16 t; .ok (Rec.set_flash (v) ex)
  else if t.id = 0x920a ∨ t.id = 0xa405 then do
    let (v, set) ←
      (if t.typ = tShort ∨ t.typ = tLong then do let v ← parseUint32 t; .ok ((v, 1), true)
       else if isRat t then do let (n, d) ← parseRationalUV t buf err; .ok ((n, d), true)
       else .ok ((0, 0), false) : Outcome ((Nat × Nat) × Bool))
    if t.id = 0x920a then .ok (Rec.set_focalLength_focalLengthSet (v) (set) ex)
    else .ok (Rec.set_focalLength35_focalLength35Set (v) (set) ex)
  else if t.id = 0xa432 then do let l ← parseLensInfoV t buf err; .ok (Rec.set_lensInfo (l) ex)
  else if t.id = 0x9003 then do let d ← parseDateV t buf err; .ok (Rec.set_dateTimeOriginal (d) ex)
  else if t.id = 0x9004 then do let d ← parseDateV t buf err; .ok (Rec.set_createDate (d) ex)
  else if t.id = 0x9290 then do let v ← parseSubSecV t buf err; .ok (Rec.set_subSec (v) ex)
  else if t.id = 0x9291 then do let v ← parseSubSecV t buf err; .ok (Rec.set_subSecOriginal (v) ex)
  else if t.id = 0x9292 then do let v ← parseSubSecV t buf err; .ok (Rec.set_subSecDigitized (v) ex)
  else if t.id = 0x9010 then do let z ← parseOffsetTimeV t buf err; .ok (Rec.set_offsetTime (z) ex)
  else if t.id = 0x9011 then do let z ← parseOffsetTimeV t buf err; .ok (Rec.set_offsetTimeOriginal (z) ex)
  else if t.id = 0x9012 then do let z ← parseOffsetTimeV t buf err; .ok (Rec.set_offsetTimeDigitized (z) ex)
  else .ok ex

def parseGpsIfdV (ex : Rec) (t : Tag) (buf : Bytes) (err : Option ErrKind) : Outcome Rec :=
  if t.id = 5 then .ok (Rec.set_gpsAltRef (parseGPSRef t) ex)
  else if t.id = 1 then .ok (Rec.set_gpsLatRef (parseGPSRef t) ex)
  else if t.id = 3 then .ok (Rec.set_gpsLngRef (parseGPSRef t) ex)
  else if t.id = 6 then do let v ← parseGPSAltV t buf err; .ok (Rec.set_gpsAlt (v) ex)
  else if t.id = 2 then do let v ← parseGPSCoordV t buf err; .ok (Rec.set_gpsLat (v) ex)
  else if t.id = 4 then do let v ← parseGPSCoordV t buf err; .ok (Rec.set_gpsLng (v) ex)
  else if t.id = 7 then do let v ← parseGPSTimeV t buf err; .ok (Rec.set_gpsTime (v) ex)
  else if t.id = 0x1d then do let v ← parseGPSDateV t buf err; .ok (Rec.set_gpsDate (v) ex)
  else .ok ex

def parseTagV (tb : Tables) (ex : Rec) (t : Tag) (buf : Bytes) (err : Option ErrKind) : Outcome Rec :=
  if t.ifd = ifd0 then parseIfd0V tb ex t buf err
  else if t.ifd = exifIFD then parseExifIfdV ex t buf err
  else if t.ifd = gpsIFD then parseGpsIfdV ex t buf err
  else .ok ex

/-! ### the streaming parsers compute these functions of their one read -/

def omap {α β} (f : α → β) : Outcome α → Outcome β
  | .ok a => .ok (f a)
  | .err k => .err k
  | .panic s => .panic s
  | .fuel => .fuel

@[simp] theorem omap_ok {α β} (f : α → β) (a : α) : omap f (.ok a) = .ok (f a) := rfl
theorem omap_ite {α β} (f : α → β) (c : Prop) [Decidable c] (a b : Outcome α) : omap f (if c then a else b) = if c then omap f a else omap f b := by
  split <;> rfl
theorem omap_bind {α β γ} (f : β → γ) (x : Outcome α) (g : α → Outcome β) : omap f (x >>= g) = x >>= fun v => omap f (g v) := by
  cases x <;> rfl

theorem readTagValue_ex (r : R) (t : Tag) : (readTagValue r t).r.ex = r.ex := by
  show (readTagValue0 r t).r.ex = r.ex
  unfold readTagValue0
  dsimp only
  have h0 : (if t.isEmbedded then { r with hazard := true } else r).ex = r.ex := by split <;> rfl
  generalize (if t.isEmbedded then { r with hazard := true } else r) = r0 at h0 ⊢
  have hd : ∀ n, (Exif.discard r0 n).1.ex = r0.ex := by
    intro n; unfold Exif.discard; split
    · rfl
    · dsimp only; repeat' split
      all_goals rfl
  have hf : ∀ (x : R) n, (fastRead x n).r.ex = x.ex := by
    intro x n; unfold fastRead; repeat' split
    all_goals rfl
  split
  · rename_i r1 e he; have := hd ((t.off : Int) - r0.po); rw [he] at this; exact this.trans h0
  · rename_i r1 he; have := hd ((t.off : Int) - r0.po); rw [he] at this; rw [hf]; exact this.trans h0

/-- a value parser: leaves the record alone, and its value is `xv` -/
def ValP {β} (x : Outcome (R × β)) (r : R) (xv : Outcome β) : Prop :=
  (∀ r1 v, x = .ok (r1, v) → r1.ex = r.ex) ∧ omap Prod.snd x = xv

set_option hygiene false in
macro "valp_frame" : tactic => `(tactic| (
  intro r1 v h
  have := readTagValue_ex r t
  repeat' (first | split at h | (simp only [bind, Outcome.bind] at h))
  all_goals first
    | (simp only [Outcome.ok.injEq, Prod.mk.injEq] at h; obtain ⟨h1, _⟩ := h; subst h1; first | rfl | assumption)
    | (simp at h; done)))

macro "valp_value" : tactic => `(tactic| simp only [omap_ite, omap_bind, omap_ok])

theorem ValP.parseBytes (r : R) (t : Tag) (s : Bool) :
    ValP (parseBytes r t s) r (parseBytesV t s (readTagValue r t).buf (readTagValue r t).err) := by
  constructor
  · unfold Exif.parseBytes; valp_frame
  · unfold Exif.parseBytes parseBytesV; valp_value

theorem ValP.parseString (r : R) (t : Tag) :
    ValP (parseString r t) r (parseStringV t (readTagValue r t).buf (readTagValue r t).err) := by
  have hb := ValP.parseBytes r t false
  constructor
  · intro r1 v h
    unfold Exif.parseString at h
    cases hx : Exif.parseBytes r t false with
    | ok p =>
      obtain ⟨r0, s⟩ := p
      have := hb.1 r0 s hx
      simp only [hx, bind, Outcome.bind, Outcome.ok.injEq, Prod.mk.injEq] at h
      rw [← h.1]; exact this
    | err k => simp [hx, bind, Outcome.bind] at h
    | panic p => simp [hx, bind, Outcome.bind] at h
    | fuel => simp [hx, bind, Outcome.bind] at h
  · unfold Exif.parseString parseStringV
    rw [← hb.2]
    cases Exif.parseBytes r t false with
    | ok p => obtain ⟨r0, s⟩ := p; rfl
    | err k => rfl
    | panic p => rfl
    | fuel => rfl

theorem ValP.parseRationalU (r : R) (t : Tag) :
    ValP (parseRationalU r t) r (parseRationalUV t (readTagValue r t).buf (readTagValue r t).err) := by
  constructor
  · unfold Exif.parseRationalU; valp_frame
  · unfold Exif.parseRationalU parseRationalUV; valp_value
theorem ValP.parseDate (r : R) (t : Tag) :
    ValP (parseDate r t) r (parseDateV t (readTagValue r t).buf (readTagValue r t).err) := by
  constructor
  · unfold Exif.parseDate; valp_frame
  · unfold Exif.parseDate parseDateV; valp_value
theorem ValP.parseOffsetTime (r : R) (t : Tag) :
    ValP (parseOffsetTime r t) r (parseOffsetTimeV t (readTagValue r t).buf (readTagValue r t).err) := by
  constructor
  · unfold Exif.parseOffsetTime; valp_frame
  · unfold Exif.parseOffsetTime parseOffsetTimeV; valp_value
theorem ValP.parseLensInfo (r : R) (t : Tag) :
    ValP (parseLensInfo r t) r (parseLensInfoV t (readTagValue r t).buf (readTagValue r t).err) := by
  constructor
  · unfold Exif.parseLensInfo; valp_frame
  · unfold Exif.parseLensInfo parseLensInfoV; valp_value
theorem ValP.parseGPSCoord (r : R) (t : Tag) :
    ValP (parseGPSCoord r t) r (parseGPSCoordV t (readTagValue r t).buf (readTagValue r t).err) := by
  constructor
  · unfold Exif.parseGPSCoord; valp_frame
  · unfold Exif.parseGPSCoord parseGPSCoordV; valp_value
theorem ValP.parseGPSAlt (r : R) (t : Tag) :
    ValP (parseGPSAlt r t) r (parseGPSAltV t (readTagValue r t).buf (readTagValue r t).err) := by
  constructor
  · unfold Exif.parseGPSAlt; valp_frame
  · unfold Exif.parseGPSAlt parseGPSAltV; valp_value
theorem ValP.parseGPSTime (r : R) (t : Tag) :
    ValP (parseGPSTime r t) r (parseGPSTimeV t (readTagValue r t).buf (readTagValue r t).err) := by
  constructor
  · unfold Exif.parseGPSTime; valp_frame
  · unfold Exif.parseGPSTime parseGPSTimeV; valp_value
theorem ValP.parseGPSDate (r : R) (t : Tag) :
    ValP (parseGPSDate r t) r (parseGPSDateV t (readTagValue r t).buf (readTagValue r t).err) := by
  constructor
  · unfold Exif.parseGPSDate; valp_frame
  · unfold Exif.parseGPSDate parseGPSDateV; valp_value

theorem ValP.parseSubSec (r : R) (t : Tag) :
    ValP (parseSubSec r t) r (parseSubSecV t (readTagValue r t).buf (readTagValue r t).err) := by
  have hb := ValP.parseBytes r t true
  constructor
  · intro r1 v h
    unfold Exif.parseSubSec at h
    split at h
    · split at h
      · simp only [Outcome.ok.injEq, Prod.mk.injEq] at h; rw [← h.1]
      · cases hx : Exif.parseBytes r t true with
        | ok p =>
          obtain ⟨r0, s⟩ := p
          have := hb.1 r0 s hx
          simp only [hx, bind, Outcome.bind, Outcome.ok.injEq, Prod.mk.injEq] at h
          rw [← h.1]; exact this
        | err k => simp [hx, bind, Outcome.bind] at h
        | panic p => simp [hx, bind, Outcome.bind] at h
        | fuel => simp [hx, bind, Outcome.bind] at h
    · simp only [Outcome.ok.injEq, Prod.mk.injEq] at h; rw [← h.1]
  · unfold Exif.parseSubSec parseSubSecV
    rw [← hb.2]
    simp only [omap_ite, omap_ok]
    cases Exif.parseBytes r t true with
    | ok p => obtain ⟨r0, s⟩ := p; rfl
    | err k => rfl
    | panic p => rfl
    | fuel => rfl

/-- a record computation: its record is `xv` -/
def ValO (x : Outcome R) (xv : Outcome Rec) : Prop := omap (fun r' => r'.ex) x = xv

theorem ValO.ok {r' : R} {e : Rec} (h : r'.ex = e) : ValO (.ok r') (.ok e) := by unfold ValO; rw [omap_ok, h]
theorem ValO.ite {c : Prop} [Decidable c] {a b : Outcome R} {a' b' : Outcome Rec} (ha : ValO a a') (hb : ValO b b') :
    ValO (if c then a else b) (if c then a' else b') := by split <;> assumption
theorem ValO.bindP {β} {x : Outcome (R × β)} {xv : Outcome β} {f : R × β → Outcome R} {g : β → Outcome Rec} {r : R}
    (hx : ValP x r xv) (hf : ∀ r1 v, r1.ex = r.ex → ValO (f (r1, v)) (g v)) : ValO (x >>= f) (xv >>= g) := by
  obtain ⟨h1, h2⟩ := hx
  cases x with
  | ok p => obtain ⟨r1, v⟩ := p; rw [← h2]; exact hf r1 v (h1 r1 v rfl)
  | err k => rw [← h2]; rfl
  | panic s => rw [← h2]; rfl
  | fuel => rw [← h2]; rfl
theorem ValO.bindN {β} {x : Outcome β} {f : β → Outcome R} {g : β → Outcome Rec} (hf : ∀ v, ValO (f v) (g v)) : ValO (x >>= f) (x >>= g) := by
  cases x with
  | ok v => exact hf v
  | err k => rfl
  | panic s => rfl
  | fuel => rfl

set_option hygiene false in
macro "valo_close" : tactic => `(tactic| (unfold ValO; simp only [omap_ok, R.upd, R.addAlloc, hex]))

set_option hygiene false in
macro "valo_leaves" : tactic => `(tactic| all_goals first
  | exact ValO.ok rfl
  | (with_reducible apply ValO.bindP (ValP.parseBytes _ _ _); intro r1 v hex; dsimp only; valo_close)
  | (with_reducible apply ValO.bindP (ValP.parseString _ _); intro r1 v hex; dsimp only; valo_close)
  | (with_reducible apply ValO.bindP (ValP.parseDate _ _); intro r1 v hex; dsimp only; valo_close)
  | (with_reducible apply ValO.bindP (ValP.parseRationalU _ _); intro r1 v hex; obtain ⟨n, d⟩ := v; dsimp only; valo_close)
  | (with_reducible apply ValO.bindP (ValP.parseLensInfo _ _); intro r1 v hex; dsimp only; valo_close)
  | (with_reducible apply ValO.bindP (ValP.parseSubSec _ _); intro r1 v hex; dsimp only; valo_close)
  | (with_reducible apply ValO.bindP (ValP.parseOffsetTime _ _); intro r1 v hex; dsimp only; valo_close)
  | (with_reducible apply ValO.bindP (ValP.parseGPSAlt _ _); intro r1 v hex; dsimp only; valo_close)
  | (with_reducible apply ValO.bindP (ValP.parseGPSCoord _ _); intro r1 v hex; dsimp only; valo_close)
  | (with_reducible apply ValO.bindP (ValP.parseGPSTime _ _); intro r1 v hex; dsimp only; valo_close)
  | (with_reducible apply ValO.bindP (ValP.parseGPSDate _ _); intro r1 v hex; dsimp only; valo_close)
  | (with_reducible apply ValO.bindN; intro v; exact ValO.ok rfl)
  | skip)

set_option maxRecDepth 8000 in
theorem ValO.parseGpsIfd (r : R) (t : Tag) :
    ValO (parseGpsIfd r t) (parseGpsIfdV r.ex t (readTagValue r t).buf (readTagValue r t).err) := by
  unfold Exif.parseGpsIfd parseGpsIfdV
  repeat' (with_reducible apply ValO.ite)
  valo_leaves

set_option maxRecDepth 8000 in
theorem ValO.parseExifIfd (r : R) (t : Tag) :
    ValO (parseExifIfd r t) (parseExifIfdV r.ex t (readTagValue r t).buf (readTagValue r t).err) := by
  unfold Exif.parseExifIfd parseExifIfdV
  repeat' (with_reducible apply ValO.ite)
  valo_leaves
  -- focal length: the value is chosen by an inner if-chain before the field is picked
  have hb := ValP.parseRationalU r t
  with_reducible apply ValO.bindP (r := r)
  · constructor
    · intro r1 v h
      split at h
      · cases hx : parseUint32 t with
        | ok w => simp only [hx, bind, Outcome.bind, Outcome.ok.injEq, Prod.mk.injEq] at h; rw [← h.1]
        | err k => simp [hx, bind, Outcome.bind] at h
        | panic p => simp [hx, bind, Outcome.bind] at h
        | fuel => simp [hx, bind, Outcome.bind] at h
      · split at h
        · cases hx : Exif.parseRationalU r t with
          | ok p =>
            obtain ⟨r0, n, d⟩ := p
            have := hb.1 r0 (n, d) hx
            simp only [hx, bind, Outcome.bind, Outcome.ok.injEq, Prod.mk.injEq] at h
            rw [← h.1]; exact this
          | err k => simp [hx, bind, Outcome.bind] at h
          | panic p => simp [hx, bind, Outcome.bind] at h
          | fuel => simp [hx, bind, Outcome.bind] at h
        · simp only [Outcome.ok.injEq, Prod.mk.injEq] at h; rw [← h.1]
    · simp only [omap_ite, omap_bind, omap_ok]
      rw [← hb.2]
      cases Exif.parseRationalU r t with
      | ok p => obtain ⟨r0, n, d⟩ := p; rfl
      | err k => rfl
      | panic p => rfl
      | fuel => rfl
  · intro r1 v hex
    obtain ⟨v1, set⟩ := v
    dsimp only
    with_reducible apply ValO.ite <;> valo_close

set_option maxRecDepth 8000 in
theorem ValO.parseIfd0 (tb : Tables) (r : R) (t : Tag) :
    ValO (parseIfd0 tb r t) (parseIfd0V tb r.ex t (readTagValue r t).buf (readTagValue r t).err) := by
  unfold Exif.parseIfd0 parseIfd0V
  repeat' (with_reducible apply ValO.ite)
  valo_leaves
  · cases tb.makeOfString v <;> rfl
  · generalize (if r.ex.cameraMake = canonMake then tb.canonModel v else if r.ex.cameraMake = appleMake then tb.appleModel v else none) = hit
    cases hit with
    | none => rfl
    | some p => obtain ⟨m, name⟩ := p; rfl
  · unfold ValO; simp only [omap_ok]; split <;> rfl

theorem ValO.parseTag0 (tb : Tables) (r : R) (t : Tag) :
    ValO (parseTag0 tb r t) (parseTagV tb r.ex t (readTagValue r t).buf (readTagValue r t).err) := by
  unfold Exif.parseTag0 parseTagV
  exact ValO.ite (ValO.parseIfd0 tb r t) (ValO.ite (ValO.parseExifIfd r t) (ValO.ite (ValO.parseGpsIfd r t) (ValO.ok rfl)))

theorem ValO.parseTag (tb : Tables) (r : R) (t : Tag) :
    ValO (parseTag tb r t) (parseTagV tb r.ex t (readTagValue r t).buf (readTagValue r t).err) := by
  have h0 := ValO.parseTag0 tb r t
  unfold ValO at h0 ⊢
  unfold Exif.parseTag
  rw [← h0]
  cases Exif.parseTag0 tb r t <;> rfl

/-- **The streaming field parsers are functions of the record so far and of their one read.**  Whatever the reader's
stream, position, pending tags or limits: if parseTag succeeds its record is `parseTagV` of the old record, the tag, and
the bytes / error of `readTagValue r t`; errors and panics correspond. -/
theorem parseTag_value (tb : Tables) (r : R) (t : Tag) :
    omap (fun r' => r'.ex) (parseTag tb r t) = parseTagV tb r.ex t (readTagValue r t).buf (readTagValue r t).err :=
  ValO.parseTag tb r t

/-! ### a tag that gives no reason to read is parsed the same whatever a read would return -/

theorem not_reads (t : Tag) (hq : ¬ Reads t) :
    t.isEmbedded = true ∧ isASCII t = false ∧ t.typ ≠ tASCII ∧ isRat t = false ∧ t.typ ≠ tRational := by
  unfold Reads at hq
  refine ⟨?_, ?_, ?_, ?_, ?_⟩
  · cases h : t.isEmbedded with
    | true => rfl
    | false => exact absurd (Or.inl h) hq
  · cases h : isASCII t with
    | false => rfl
    | true => exact absurd (Or.inr (Or.inl h)) hq
  · intro h; exact hq (Or.inr (Or.inr (Or.inl h)))
  · cases h : isRat t with
    | false => rfl
    | true => exact absurd (Or.inr (Or.inr (Or.inr (Or.inl h)))) hq
  · intro h; exact hq (Or.inr (Or.inr (Or.inr (Or.inr h))))

section
variable (t : Tag) (hq : ¬ Reads t) (b1 : Bytes) (e1 : Option ErrKind) (b2 : Bytes) (e2 : Option ErrKind)
include hq

theorem parseBytesV_quiet (s : Bool) : parseBytesV t s b1 e1 = parseBytesV t s b2 e2 := by
  unfold parseBytesV; rw [if_pos (not_reads t hq).1, if_pos (not_reads t hq).1]
theorem parseStringV_quiet : parseStringV t b1 e1 = parseStringV t b2 e2 := by
  unfold parseStringV; rw [parseBytesV_quiet t hq b1 e1 b2 e2]
theorem parseRationalUV_quiet : parseRationalUV t b1 e1 = parseRationalUV t b2 e2 := by
  unfold parseRationalUV; simp [(not_reads t hq).2.2.2.1]
theorem parseDateV_quiet : parseDateV t b1 e1 = parseDateV t b2 e2 := by
  unfold parseDateV; rw [if_neg (not_reads t hq).2.2.1, if_neg (not_reads t hq).2.2.1]
theorem parseOffsetTimeV_quiet : parseOffsetTimeV t b1 e1 = parseOffsetTimeV t b2 e2 := by
  unfold parseOffsetTimeV; rw [if_neg (not_reads t hq).2.2.1, if_neg (not_reads t hq).2.2.1]
theorem parseSubSecV_quiet : parseSubSecV t b1 e1 = parseSubSecV t b2 e2 := by
  unfold parseSubSecV; simp [(not_reads t hq).2.1]
theorem parseLensInfoV_quiet : parseLensInfoV t b1 e1 = parseLensInfoV t b2 e2 := by
  unfold parseLensInfoV; simp [(not_reads t hq).1]
theorem parseGPSCoordV_quiet : parseGPSCoordV t b1 e1 = parseGPSCoordV t b2 e2 := by
  unfold parseGPSCoordV; simp [(not_reads t hq).2.2.2.1]
theorem parseGPSAltV_quiet : parseGPSAltV t b1 e1 = parseGPSAltV t b2 e2 := by
  unfold parseGPSAltV; simp [(not_reads t hq).2.2.2.1]
theorem parseGPSTimeV_quiet : parseGPSTimeV t b1 e1 = parseGPSTimeV t b2 e2 := by
  unfold parseGPSTimeV; simp [(not_reads t hq).2.2.2.2]
theorem parseGPSDateV_quiet : parseGPSDateV t b1 e1 = parseGPSDateV t b2 e2 := by
  unfold parseGPSDateV; rw [if_neg (not_reads t hq).2.2.1, if_neg (not_reads t hq).2.2.1]

theorem parseTagV_quiet (tb : Tables) (ex : Rec) : parseTagV tb ex t b1 e1 = parseTagV tb ex t b2 e2 := by
  unfold parseTagV parseIfd0V parseExifIfdV parseGpsIfdV
  rw [parseBytesV_quiet t hq b1 e1 b2 e2, parseStringV_quiet t hq b1 e1 b2 e2, parseRationalUV_quiet t hq b1 e1 b2 e2,
    parseDateV_quiet t hq b1 e1 b2 e2, parseOffsetTimeV_quiet t hq b1 e1 b2 e2, parseSubSecV_quiet t hq b1 e1 b2 e2,
    parseLensInfoV_quiet t hq b1 e1 b2 e2, parseGPSCoordV_quiet t hq b1 e1 b2 e2, parseGPSAltV_quiet t hq b1 e1 b2 e2,
    parseGPSTimeV_quiet t hq b1 e1 b2 e2, parseGPSDateV_quiet t hq b1 e1 b2 e2]
end

end Imeta.Exif
