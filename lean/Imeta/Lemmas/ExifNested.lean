/-
  C03, part 5: nested directories.  IFD0 with value tags and pointers to the Exif and GPS directories (themselves flat),
  everything laid out forward without overlap: every read of the whole walk is exact.
  The lemmas of ExifFlat are generalised here: the extent of a pending tag is given by a function `sz` (the value size
  for a value tag, the extent of the child directory for a pointer), and the queue may already hold tags (`Old`) when a
  directory is read.
-/
import Imeta.Lemmas.ExifFlat
namespace Imeta.Exif
open Imeta

def DisjS (sz : Tag → Nat) (a b : Tag) : Prop := a.off + sz a ≤ b.off ∨ b.off + sz b ≤ a.off
def LayS (sz : Tag → Nat) (l : List Tag) : Prop := l.Pairwise (fun a b => a.off + sz a ≤ b.off)

theorem LayS.sorted {sz : Tag → Nat} {l : List Tag} (h : LayS sz l) : Sorted l := by
  unfold LayS at h; unfold Sorted
  exact h.imp (fun hab => Nat.le_trans (Nat.le_add_right _ _) hab)

theorem layS_insert (sz : Tag → Nat) (l : List Tag) (hl : LayS sz l) (t : Tag) (ht : 0 < sz t) (hd : ∀ x ∈ l, DisjS sz t x ∧ 0 < sz x) (i : Nat)
    (hlo : ∀ x ∈ l.take i, x.off ≤ t.off) (hhi : ∀ x ∈ l.drop i, t.off ≤ x.off) : LayS sz (l.take i ++ t :: l.drop i) := by
  unfold LayS at *
  have hsplit : (l.take i ++ l.drop i).Pairwise (fun a b => a.off + sz a ≤ b.off) := by rw [List.take_append_drop]; exact hl
  rw [List.pairwise_append] at hsplit
  obtain ⟨h1, h2, h3⟩ := hsplit
  rw [List.pairwise_append]
  refine ⟨h1, ?_, ?_⟩
  · rw [List.pairwise_cons]
    refine ⟨?_, h2⟩
    intro x hx
    have := hd x (List.mem_of_mem_drop hx)
    have := hhi x hx
    unfold DisjS at *
    omega
  · intro a ha b hb
    rw [List.mem_cons] at hb
    rcases hb with rfl | hb
    · have := hd a (List.mem_of_mem_take ha)
      have := hlo a ha
      unfold DisjS at *
      omega
    · exact h3 a ha b hb

theorem addTag_layS (sz : Tag → Nat) (r : R) (t : Tag) (hl : LayS sz r.tags) (hpo : r.po ≤ t.off) (hlen : r.tags.length < tagMaxCount)
    (ht : 0 < sz t) (hd : ∀ x ∈ r.tags, DisjS sz t x ∧ 0 < sz x) :
    LayS sz (addTag r t).tags ∧ (∀ x ∈ (addTag r t).tags, x = t ∨ x ∈ r.tags) ∧ (∀ x ∈ r.tags, x ∈ (addTag r t).tags) ∧
    (addTag r t).tags.length = r.tags.length + 1 ∧ Same r { addTag r t with tags := r.tags } := by
  unfold addTag
  rw [if_neg (by omega), if_pos hlen]
  cases hi : insertFrom t r.tags.length r.tags with
  | some res =>
    obtain ⟨i, hi1, rfl, hlo, hhi⟩ := insertFrom_spec t r.tags hl.sorted r.tags.length (Nat.le_refl _) (by simp) res hi
    dsimp only
    refine ⟨layS_insert sz _ hl t ht hd i hlo hhi, ?_, ?_, ?_, ⟨rfl, rfl, rfl, rfl, rfl, rfl, rfl⟩⟩
    · intro x hx
      rw [List.mem_append, List.mem_cons] at hx
      rcases hx with hx | rfl | hx
      · exact Or.inr (List.mem_of_mem_take hx)
      · exact Or.inl rfl
      · exact Or.inr (List.mem_of_mem_drop hx)
    · intro x hx
      have : x ∈ r.tags.take i ++ r.tags.drop i := by rw [List.take_append_drop]; exact hx
      rw [List.mem_append] at this ⊢
      rcases this with h | h
      · exact Or.inl h
      · exact Or.inr (List.mem_cons_of_mem _ h)
    · simp only [List.length_append, List.length_cons, List.length_take, List.length_drop]; omega
  | none =>
    dsimp only
    cases htags : r.tags with
    | nil =>
      dsimp only
      refine ⟨by unfold LayS; simp, ?_, (by intro x hx; cases hx), by simp, ⟨rfl, rfl, rfl, rfl, by simp [htags], rfl, rfl⟩⟩
      intro x hx; simp at hx; exact Or.inl hx
    | cons h tl =>
      dsimp only
      have hh := hd h (by rw [htags]; simp)
      have hge : ¬ t.off > h.off := by
        intro hgt
        have : insertFrom t r.tags.length r.tags ≠ none := by
          rw [htags]
          have key : ∀ m, m ≤ (h :: tl).length → 0 < m → insertFrom t m (h :: tl) ≠ none := by
            intro m
            induction m with
            | zero => intro _ h0; omega
            | succ k ih =>
              intro hk _
              have hk' : k < (h :: tl).length := by omega
              simp only [insertFrom, List.getElem?_eq_getElem hk']
              split
              · simp
              · by_cases hk0 : k = 0
                · subst hk0; rename_i hle; simp at hle; omega
                · exact ih (by omega) (by omega)
          exact key _ (Nat.le_refl _) (by simp)
        exact this hi
      have hlt : t.off < h.off := by unfold DisjS at hh; omega
      rw [if_pos hlt]
      dsimp only
      rw [htags] at hl hd
      refine ⟨?_, ?_, fun x hx => List.mem_cons_of_mem _ hx, by simp, ⟨rfl, rfl, rfl, rfl, by simp [htags], rfl, rfl⟩⟩
      · unfold LayS at *
        rw [List.pairwise_cons]
        refine ⟨?_, hl⟩
        intro x hx
        have hx' := hd x hx
        have hsx : h.off ≤ x.off := by
          rw [List.mem_cons] at hx
          rcases hx with rfl | hx
          · exact Nat.le_refl _
          · rw [List.pairwise_cons] at hl
            have := hl.1 x hx; omega
        unfold DisjS at hx'
        omega
      · intro x hx
        rw [List.mem_cons] at hx
        rcases hx with rfl | hx
        · exact Or.inl rfl
        · exact Or.inr hx

theorem entriesLoop_gen {F : Bytes} (tb : Tables) (ifd : Ifd) (buf : Bytes) (D : Nat) (sz : Tag → Nat)
    (hsz : ∀ t : Tag, t.typ ≠ tIfd → sz t = t.size) (Old : Tag → Prop) (base : Nat) : ∀ (n i : Nat) (r r' : R),
    Coh F r → Exact F r → r.po ≤ D → r.pos = 0 → LayS sz r.tags →
    (∀ x ∈ r.tags, Old x ∨ ∃ k, k < i ∧ entryAt ifd buf k = .ok (some x) ∧ x.isEmbedded = false) →
    r.tags.length ≤ base + i → base + i + n ≤ 83 →
    (∀ k t, k < i + n → entryAt ifd buf k = .ok (some t) → Good F D r.exifLength (readLimit r) t) →
    (∀ k k' t t', k < i + n → k' < i + n → k ≠ k' → entryAt ifd buf k = .ok (some t) → entryAt ifd buf k' = .ok (some t') →
      t.isEmbedded = false → t'.isEmbedded = false → DisjS sz t t') →
    (∀ x, Old x → 0 < sz x ∧ ∀ k t, k < i + n → entryAt ifd buf k = .ok (some t) → t.isEmbedded = false → DisjS sz t x) →
    entriesLoop tb ifd buf n i r = .ok r' →
    Coh F r' ∧ Exact F r' ∧ r'.po = r.po ∧ r'.pos = 0 ∧ r'.exifLength = r.exifLength ∧ readLimit r' = readLimit r ∧ LayS sz r'.tags ∧
    (∀ x ∈ r'.tags, Old x ∨ ∃ k, k < i + n ∧ entryAt ifd buf k = .ok (some x) ∧ x.isEmbedded = false) ∧
    (∀ x ∈ r.tags, x ∈ r'.tags) ∧ r'.tags.length ≤ base + i + n := by
  intro n
  induction n with
  | zero =>
    intro i r r' hc he _ hpos hlay hmem hlen _ _ _ _ h
    unfold Exif.entriesLoop at h
    simp only [Outcome.ok.injEq] at h; subst h
    exact ⟨hc, he, rfl, hpos, rfl, rfl, hlay, hmem, fun x hx => hx, hlen⟩
  | succ n ih =>
    intro i r r' hc he hD hpos hlay hmem hlen hn hgood hdisj hold h
    unfold Exif.entriesLoop at h
    obtain ⟨e, hslc, h⟩ := bind_ok h
    obtain ⟨ot, hdec, h⟩ := bind_ok h
    have hent : entryAt ifd buf i = .ok ot := by unfold entryAt; rw [hslc]; exact hdec
    have hmem' : ∀ x ∈ r.tags, Old x ∨ ∃ k, k < i + 1 ∧ entryAt ifd buf k = .ok (some x) ∧ x.isEmbedded = false := by
      intro x hx
      rcases hmem x hx with ho | ⟨k, hk, hr⟩
      · exact Or.inl ho
      · exact Or.inr ⟨k, by omega, hr⟩
    have fin : ∀ (r2 : R), r2.po = r.po → r2.exifLength = r.exifLength → readLimit r2 = readLimit r →
        (∀ x ∈ r.tags, x ∈ r2.tags) →
        (Coh F r' ∧ Exact F r' ∧ r'.po = r2.po ∧ r'.pos = 0 ∧ r'.exifLength = r2.exifLength ∧ readLimit r' = readLimit r2 ∧ LayS sz r'.tags ∧
          (∀ x ∈ r'.tags, Old x ∨ ∃ k, k < i + 1 + n ∧ entryAt ifd buf k = .ok (some x) ∧ x.isEmbedded = false) ∧
          (∀ x ∈ r2.tags, x ∈ r'.tags) ∧ r'.tags.length ≤ base + (i + 1) + n) →
        Coh F r' ∧ Exact F r' ∧ r'.po = r.po ∧ r'.pos = 0 ∧ r'.exifLength = r.exifLength ∧ readLimit r' = readLimit r ∧ LayS sz r'.tags ∧
          (∀ x ∈ r'.tags, Old x ∨ ∃ k, k < i + (n + 1) ∧ entryAt ifd buf k = .ok (some x) ∧ x.isEmbedded = false) ∧
          (∀ x ∈ r.tags, x ∈ r'.tags) ∧ r'.tags.length ≤ base + i + (n + 1) := by
      intro r2 e1 e2 e3 hsub ⟨a, b, c, d, e4, f, g, hh, hs, hl⟩
      refine ⟨a, b, by rw [c, e1], d, by rw [e4, e2], by rw [f, e3], g, ?_, fun x hx => hs x (hsub x hx), by omega⟩
      intro x hx
      rcases hh x hx with ho | ⟨k, hk, hr⟩
      · exact Or.inl ho
      · exact Or.inr ⟨k, by omega, hr⟩
    have hold' : ∀ x, Old x → 0 < sz x ∧ ∀ k t, k < i + 1 + n → entryAt ifd buf k = .ok (some t) → t.isEmbedded = false → DisjS sz t x := by
      intro x hx; exact ⟨(hold x hx).1, fun k t hk => (hold x hx).2 k t (by omega)⟩
    cases ot with
    | none =>
      dsimp only at h
      exact fin r rfl rfl rfl (fun x hx => hx) (ih (i + 1) r r' hc he hD hpos hlay hmem' (by omega) (by omega)
        (fun k t hk => hgood k t (by omega)) (fun k k' t t' hk hk' => hdisj k k' t t' (by omega) (by omega)) hold' h)
    | some t =>
      dsimp only at h
      have hg := hgood i t (by omega) hent
      split at h
      · rename_i hemb
        obtain ⟨r1, h1, h⟩ := bind_ok h
        have hs := parseTag_quiet tb r r1 t (hg.2.2.1 hemb) h1
        have hc1 : Coh F r1 := ⟨by rw [hs.rest, hs.po]; exact hc.rest, by rw [hs.po]; exact hc.le, hc.small⟩
        have he1 : Exact F r1 := by intro x hx; rw [hs.reads] at hx; exact he x hx
        have hl1 : readLimit r1 = readLimit r := by unfold readLimit; rw [hs.buffered]
        exact fin r1 hs.po hs.exl hl1 (by rw [hs.tags]; exact fun x hx => hx)
          (ih (i + 1) r1 r' hc1 he1 (by rw [hs.po]; exact hD) (by rw [hs.pos]; exact hpos) (by rw [hs.tags]; exact hlay)
            (by rw [hs.tags]; exact hmem') (by rw [hs.tags]; omega) (by omega)
            (fun k t hk hd => by rw [hs.exl, hl1]; exact hgood k t (by omega) hd)
            (fun k k' t t' hk hk' => hdisj k k' t t' (by omega) (by omega)) hold' h)
      · rename_i hemb
        have hemb' : t.isEmbedded = false := by simpa using hemb
        have hout := hg.2.2.2 hemb'
        have hsz0 := size_pos_of_outofline t hg.1 hemb'
        have hszt : 0 < sz t := by rw [hsz t hg.1]; exact hsz0
        have hd : ∀ x ∈ r.tags, DisjS sz t x ∧ 0 < sz x := by
          intro x hx
          rcases hmem x hx with ho | ⟨k, hk, hxe, hxo⟩
          · exact ⟨(hold x ho).2 i t (by omega) hent hemb', (hold x ho).1⟩
          · have hgx := hgood k x (by omega) hxe
            exact ⟨hdisj i k t x (by omega) (by omega) (by omega) hent hxe hemb' hxo, by rw [hsz x hgx.1]; exact size_pos_of_outofline x hgx.1 hxo⟩
        have ha := addTag_layS sz r t hlay (by omega) (by unfold tagMaxCount; omega) hszt hd
        obtain ⟨hl2, hm2, hsub2, hlen2, hs⟩ := ha
        have hpo1 : (addTag r t).po = r.po := hs.po
        have hrest1 : (addTag r t).rest = r.rest := hs.rest
        have hexl1 : (addTag r t).exifLength = r.exifLength := hs.exl
        have hbuf1 : (addTag r t).buffered = r.buffered := hs.buffered
        have hpos1 : (addTag r t).pos = r.pos := hs.pos
        have hrd1 : (addTag r t).reads = r.reads := hs.reads
        have hc1 : Coh F (addTag r t) := ⟨by rw [hrest1, hpo1]; exact hc.rest, by rw [hpo1]; exact hc.le, hc.small⟩
        have he1 : Exact F (addTag r t) := by intro x hx; rw [hrd1] at hx; exact he x hx
        have hl1 : readLimit (addTag r t) = readLimit r := by unfold readLimit; rw [hbuf1]
        have hmem1 : ∀ x ∈ (addTag r t).tags, Old x ∨ ∃ k, k < i + 1 ∧ entryAt ifd buf k = .ok (some x) ∧ x.isEmbedded = false := by
          intro x hx
          rcases hm2 x hx with rfl | hx
          · exact Or.inr ⟨i, by omega, hent, hemb'⟩
          · exact hmem' x hx
        exact fin (addTag r t) hpo1 hexl1 hl1 hsub2
          (ih (i + 1) (addTag r t) r' hc1 he1 (by rw [hpo1]; exact hD) (by rw [hpos1]; exact hpos) hl2 hmem1 (by omega) (by omega)
            (fun k t hk hd => by rw [hexl1, hl1]; exact hgood k t (by omega) hd)
            (fun k k' t t' hk hk' => hdisj k k' t t' (by omega) (by omega)) hold' h)

/-- the out-of-line entries of the directory at d, as the reader decodes them -/
def IsEntry (F : Bytes) (ifd : Ifd) (d cnt : Nat) (x : Tag) : Prop :=
  ∃ k, k < cnt ∧ entryAt ifd ((F.drop (d + 2)).take (cnt * 12)) k = .ok (some x) ∧ x.isEmbedded = false

theorem readIfdHeader_gen {F : Bytes} (tb : Tables) (ifd : Ifd) (r r1 : R) (e1 : Option ErrKind) (cnt : Nat) (sz : Tag → Nat)
    (hsz : ∀ t : Tag, t.typ ≠ tIfd → sz t = t.size) (Old : Tag → Prop) (base : Nat)
    (hc : Coh F r) (he : Exact F r) (hpos : r.pos = 0) (hlay : LayS sz r.tags) (hmem : ∀ x ∈ r.tags, Old x)
    (hlen : r.tags.length ≤ base) (hb : base + cnt ≤ 83)
    (hd : FlatDir F ifd r.po cnt r.exifLength (readLimit r))
    (hold : ∀ x, Old x → 0 < sz x ∧ ∀ t, IsEntry F ifd r.po cnt t → DisjS sz t x)
    (h : readIfdHeader tb r ifd = .ok (r1, e1)) :
    Coh F r1 ∧ Exact F r1 ∧ r1.po ≤ r.po + 2 + 12 * cnt + 4 ∧ r1.pos = 0 ∧ r1.exifLength = r.exifLength ∧ readLimit r1 = readLimit r ∧
    LayS sz r1.tags ∧ (∀ x ∈ r1.tags, Old x ∨ IsEntry F ifd r.po cnt x) ∧ (∀ x ∈ r.tags, x ∈ r1.tags) ∧ r1.tags.length ≤ base + cnt := by
  have hF := hd.inFile
  have hx := hd.inExif
  have hcnt := hd.count
  have hlim := hd.window
  have hl4 := readLimit_ge r
  have hr2 := fastRead_exact hc 2 (by omega) (by omega) (by omega)
  have hc2 := hc.fastRead 2
  have hk2 := Keep.fastRead r 2
  have hlim2 : readLimit (fastRead r 2).r = readLimit r := by unfold readLimit; rw [hk2.buffered]
  have hr3 := fastRead_exact hc2 (cnt * 12) (by rw [hr2.2.2]; omega) (by rw [hr2.2.2, hk2.exl]; omega) (by rw [hlim2]; omega)
  have hc3 := hc2.fastRead (cnt * 12)
  have hk3 := hk2.trans (Keep.fastRead (fastRead r 2).r (cnt * 12))
  have hlim3 : readLimit (fastRead (fastRead r 2).r (cnt * 12)).r = readLimit r := by unfold readLimit; rw [hk3.buffered]
  have hpo3 : (fastRead (fastRead r 2).r (cnt * 12)).r.po = r.po + 2 + 12 * cnt := by rw [hr3.2.2, hr2.2.2]; omega
  have hbuf3 : (fastRead (fastRead r 2).r (cnt * 12)).buf = (F.drop (r.po + 2)).take (cnt * 12) := by rw [hr3.2.1, hr2.2.2]
  unfold Exif.readIfdHeader at h
  dsimp only at h
  rw [hr2.1] at h
  dsimp only at h
  rw [hr2.2.1, hcnt] at h
  obtain ⟨c', hch, h⟩ := bind_ok h
  simp only [Outcome.ok.injEq] at hch
  subst hch
  have hc83 := hd.small
  rw [if_neg (by omega), hr3.1] at h
  dsimp only at h
  obtain ⟨r3, hloop, hnx⟩ := bind_ok h
  rw [hbuf3] at hloop
  have hE3 : Exact F (fastRead (fastRead r 2).r (cnt * 12)).r := by intro x hx; rw [hk3.reads] at hx; exact he x hx
  have hdisjS : ∀ k k' t t', k < 0 + cnt → k' < 0 + cnt → k ≠ k' →
      entryAt ifd ((F.drop (r.po + 2)).take (cnt * 12)) k = .ok (some t) → entryAt ifd ((F.drop (r.po + 2)).take (cnt * 12)) k' = .ok (some t') →
      t.isEmbedded = false → t'.isEmbedded = false → DisjS sz t t' := by
    intro k k' t t' hk hk' hne e e' o o'
    have := hd.disj k k' t t' (by omega) (by omega) hne e e' o o'
    have g1 := hd.good k t (by omega) e
    have g2 := hd.good k' t' (by omega) e'
    unfold DisjS; rw [hsz t g1.1, hsz t' g2.1]; exact this
  have hgen := entriesLoop_gen (F := F) tb ifd _ (r.po + 2 + 12 * cnt + 4) sz hsz Old base cnt 0 _ r3 hc3 hE3 (by rw [hpo3]; omega)
    (by rw [hk3.pos]; exact hpos) (by rw [hk3.tags]; exact hlay) (by rw [hk3.tags]; exact fun x hx => Or.inl (hmem x hx))
    (by rw [hk3.tags]; omega) (by omega)
    (fun k t hk hdd => by rw [hk3.exl, hlim3]; exact hd.good k t (by omega) hdd)
    hdisjS
    (fun x hx => ⟨(hold x hx).1, fun k t hk e o => (hold x hx).2 t ⟨k, by omega, e, o⟩⟩) hloop
  obtain ⟨hc4, he4, hpo4, hpos4, hexl4, hlim4, hlay4, hmem4, hsub4, hlen4⟩ := hgen
  rw [hpo3] at hpo4
  rw [hk3.exl] at hexl4
  rw [hlim3] at hlim4
  rw [hk3.tags] at hsub4
  have hmem5 : ∀ x ∈ r3.tags, Old x ∨ IsEntry F ifd r.po cnt x := by
    intro x hx
    rcases hmem4 x hx with ho | ⟨k, hk, e, o⟩
    · exact Or.inl ho
    · exact Or.inr ⟨k, by omega, e, o⟩
  unfold Exif.readNextIfdTag at hnx
  split at hnx
  · dsimp only at hnx
    have hr5 := fastRead_exact hc4 4 (by rw [hpo4]; omega) (by rw [hpo4, hexl4]; omega) (by rw [hlim4]; omega)
    have hc5 := hc4.fastRead 4
    have hk5 := Keep.fastRead r3 4
    rw [hr5.1] at hnx
    dsimp only at hnx
    obtain ⟨nx, hnxv, hnx⟩ := bind_ok hnx
    rw [hr5.2.1, hpo4] at hnxv
    have hno : ¬ (ifd.typ = ifd0 ∧ nx ≠ 0) := by
      intro hh
      have := hd.next hh.1
      rw [this] at hnxv
      simp only [Outcome.ok.injEq] at hnxv
      exact hh.2 hnxv.symm
    rw [if_neg hno] at hnx
    simp only [Outcome.ok.injEq, Prod.mk.injEq] at hnx
    rw [← hnx.1]
    have hl5 : readLimit (fastRead r3 4).r = readLimit r := by unfold readLimit at hlim4 ⊢; rw [hk5.buffered]; exact hlim4
    refine ⟨hc5, by intro x hx; rw [hk5.reads] at hx; exact he4 x hx, by rw [hr5.2.2, hpo4]; omega, by rw [hk5.pos]; exact hpos4,
      by rw [hk5.exl]; exact hexl4, hl5, by rw [hk5.tags]; exact hlay4, by rw [hk5.tags]; exact hmem5, by rw [hk5.tags]; exact hsub4,
      by rw [hk5.tags]; omega⟩
  · simp only [Outcome.ok.injEq, Prod.mk.injEq] at hnx
    rw [← hnx.1]
    exact ⟨hc4, he4, by rw [hpo4]; omega, hpos4, hexl4, hlim4, hlay4, hmem5, hsub4, by omega⟩

end Imeta.Exif
