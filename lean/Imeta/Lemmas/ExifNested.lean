/-
  C03, part 5: nested directories.  IFD0 with value tags and pointers to the Exif and GPS directories (themselves flat),
  everything laid out forward without overlap: every read of the whole walk is exact.
  The lemmas of ExifFlat are generalised here: the extent of a pending tag is given by a function `sz` (the value size
  for a value tag, the extent of the child directory for a pointer), and the queue may already hold tags (`Old`) when a
  directory is read.
-/
import Imeta.Lemmas.ExifFlat
namespace Imeta.Exif
open Imeta

variable {ex0 : Rec}

def DisjS (sz : Tag → Nat) (a b : Tag) : Prop := a.off + sz a ≤ b.off ∨ b.off + sz b ≤ a.off
def LayS (sz : Tag → Nat) (l : List Tag) : Prop := l.Pairwise (fun a b => a.off + sz a ≤ b.off)

theorem LayS.sorted {sz : Tag → Nat} {l : List Tag} (h : LayS sz l) : Sorted l := by
  unfold LayS at h; unfold Sorted
  exact h.imp (fun hab => Nat.le_trans (Nat.le_add_right _ _) hab)

theorem layS_insert (sz : Tag → Nat) (l : List Tag) (hl : LayS sz l) (t : Tag) (ht : 0 < sz t) (hd : ∀ x ∈ l, DisjS sz t x ∧ 0 < sz x) (i : Nat)
    (hlo : ∀ x ∈ l.take i, x.off ≤ t.off) (hhi : ∀ x ∈ l.drop i, t.off ≤ x.off) : LayS sz (l.take i ++ t :: l.drop i) := by
  unfold LayS at *
  have hsplit : (l.take i ++ l.drop i).Pairwise (fun a b => a.off + sz a ≤ b.off) := by rw [List.take_append_drop]; exact hl
  rw [List.pairwise_append] at hsplit
  obtain ⟨h1, h2, h3⟩ := hsplit
  rw [List.pairwise_append]
  refine ⟨h1, ?_, ?_⟩
  · rw [List.pairwise_cons]
    refine ⟨?_, h2⟩
    intro x hx
    have := hd x (List.mem_of_mem_drop hx)
    have := hhi x hx
    unfold DisjS at *
    omega
  · intro a ha b hb
    rw [List.mem_cons] at hb
    rcases hb with rfl | hb
    · have := hd a (List.mem_of_mem_take ha)
      have := hlo a ha
      unfold DisjS at *
      omega
    · exact h3 a ha b hb

theorem addTag_layS (sz : Tag → Nat) (r : R) (t : Tag) (hl : LayS sz r.tags) (hpo : r.po ≤ t.off) (hlen : r.tags.length < tagMaxCount)
    (ht : 0 < sz t) (hd : ∀ x ∈ r.tags, DisjS sz t x ∧ 0 < sz x) :
    LayS sz (addTag r t).tags ∧ t ∈ (addTag r t).tags ∧ (∀ x ∈ (addTag r t).tags, x = t ∨ x ∈ r.tags) ∧ (∀ x ∈ r.tags, x ∈ (addTag r t).tags) ∧
    (addTag r t).tags.length = r.tags.length + 1 ∧ Same r { addTag r t with tags := r.tags } := by
  unfold addTag
  rw [if_neg (by omega), if_pos hlen]
  cases hi : insertFrom t r.tags.length r.tags with
  | some res =>
    obtain ⟨i, hi1, rfl, hlo, hhi⟩ := insertFrom_spec t r.tags hl.sorted r.tags.length (Nat.le_refl _) (by simp) res hi
    dsimp only
    refine ⟨layS_insert sz _ hl t ht hd i hlo hhi, by simp, ?_, ?_, ?_, ⟨rfl, rfl, rfl, rfl, rfl, rfl, rfl⟩⟩
    · intro x hx
      rw [List.mem_append, List.mem_cons] at hx
      rcases hx with hx | rfl | hx
      · exact Or.inr (List.mem_of_mem_take hx)
      · exact Or.inl rfl
      · exact Or.inr (List.mem_of_mem_drop hx)
    · intro x hx
      have : x ∈ r.tags.take i ++ r.tags.drop i := by rw [List.take_append_drop]; exact hx
      rw [List.mem_append] at this ⊢
      rcases this with h | h
      · exact Or.inl h
      · exact Or.inr (List.mem_cons_of_mem _ h)
    · simp only [List.length_append, List.length_cons, List.length_take, List.length_drop]; omega
  | none =>
    dsimp only
    cases htags : r.tags with
    | nil =>
      dsimp only
      refine ⟨by unfold LayS; simp, by simp, ?_, (by intro x hx; cases hx), by simp, ⟨rfl, rfl, rfl, rfl, by simp [htags], rfl, rfl⟩⟩
      intro x hx; simp at hx; exact Or.inl hx
    | cons h tl =>
      dsimp only
      have hh := hd h (by rw [htags]; simp)
      have hge : ¬ t.off > h.off := by
        intro hgt
        have : insertFrom t r.tags.length r.tags ≠ none := by
          rw [htags]
          have key : ∀ m, m ≤ (h :: tl).length → 0 < m → insertFrom t m (h :: tl) ≠ none := by
            intro m
            induction m with
            | zero => intro _ h0; omega
            | succ k ih =>
              intro hk _
              have hk' : k < (h :: tl).length := by omega
              simp only [insertFrom, List.getElem?_eq_getElem hk']
              split
              · simp
              · by_cases hk0 : k = 0
                · subst hk0; rename_i hle; simp at hle; omega
                · exact ih (by omega) (by omega)
          exact key _ (Nat.le_refl _) (by simp)
        exact this hi
      have hlt : t.off < h.off := by unfold DisjS at hh; omega
      rw [if_pos hlt]
      dsimp only
      rw [htags] at hl hd
      refine ⟨?_, by simp, ?_, fun x hx => List.mem_cons_of_mem _ hx, by simp, ⟨rfl, rfl, rfl, rfl, by simp [htags], rfl, rfl⟩⟩
      · unfold LayS at *
        rw [List.pairwise_cons]
        refine ⟨?_, hl⟩
        intro x hx
        have hx' := hd x hx
        have hsx : h.off ≤ x.off := by
          rw [List.mem_cons] at hx
          rcases hx with rfl | hx
          · exact Nat.le_refl _
          · rw [List.pairwise_cons] at hl
            have := hl.1 x hx; omega
        unfold DisjS at hx'
        omega
      · intro x hx
        rw [List.mem_cons] at hx
        rcases hx with rfl | hx
        · exact Or.inl rfl
        · exact Or.inr hx

theorem entriesLoop_gen {F : Bytes} (tb : Tables) (ifd : Ifd) (buf : Bytes) (D : Nat) (sz : Tag → Nat)
    (Old : Tag → Prop) : ∀ (n i : Nat) (r r' : R),
    Coh F r → Exact tb ex0 F r → r.po ≤ D → r.pos = 0 → LayS sz r.tags →
    (∀ x ∈ r.tags, Old x ∨ ∃ k, k < i ∧ entryAt ifd buf k = .ok (some x) ∧ x.isEmbedded = false) →
    (∀ l : List Tag, LayS sz l → (∀ x ∈ l, Old x ∨ ∃ k, k < i + n ∧ entryAt ifd buf k = .ok (some x) ∧ x.isEmbedded = false) → l.length ≤ 83) →
    (∀ k t, k < i + n → entryAt ifd buf k = .ok (some t) → (t.isEmbedded = true → ¬ Reads t) ∧ (t.isEmbedded = false → D ≤ t.off ∧ 0 < sz t)) →
    (∀ k k' t t', k < i + n → k' < i + n → k ≠ k' → entryAt ifd buf k = .ok (some t) → entryAt ifd buf k' = .ok (some t') →
      t.isEmbedded = false → t'.isEmbedded = false → DisjS sz t t') →
    (∀ x, Old x → 0 < sz x ∧ ∀ k t, k < i + n → entryAt ifd buf k = .ok (some t) → t.isEmbedded = false → DisjS sz t x) →
    entriesLoop tb ifd buf n i r = .ok r' →
    Coh F r' ∧ Exact tb ex0 F r' ∧ r'.po = r.po ∧ r'.pos = 0 ∧ r'.exifLength = r.exifLength ∧ readLimit r' = readLimit r ∧ LayS sz r'.tags ∧
    (∀ x ∈ r'.tags, Old x ∨ ∃ k, k < i + n ∧ entryAt ifd buf k = .ok (some x) ∧ x.isEmbedded = false) ∧
    (∀ x ∈ r.tags, x ∈ r'.tags) ∧
    (∀ x ∈ r.parsed, x ∈ r'.parsed) ∧
    (∀ x ∈ r'.parsed, x ∈ r.parsed ∨ ∃ k, k < i + n ∧ entryAt ifd buf k = .ok (some x)) ∧
    (∀ k t, i ≤ k → k < i + n → entryAt ifd buf k = .ok (some t) → t.isEmbedded = false → t ∈ r'.tags) := by
  intro n
  induction n with
  | zero =>
    intro i r r' hc he _ hpos hlay hmem _ _ _ _ h
    unfold Exif.entriesLoop at h
    simp only [Outcome.ok.injEq] at h; subst h
    exact ⟨hc, he, rfl, hpos, rfl, rfl, hlay, hmem, fun x hx => hx, fun x hx => hx, fun x hx => Or.inl hx, fun k t h1 h2 => by omega⟩
  | succ n ih =>
    intro i r r' hc he hD hpos hlay hmem hcap hgood hdisj hold h
    have hcap' : ∀ l : List Tag, LayS sz l → (∀ x ∈ l, Old x ∨ ∃ k, k < i + 1 + n ∧ entryAt ifd buf k = .ok (some x) ∧ x.isEmbedded = false) → l.length ≤ 83 := by
      intro l hl hm
      exact hcap l hl (fun x hx => by rcases hm x hx with ho | ⟨k, hk, hr⟩; exact Or.inl ho; exact Or.inr ⟨k, by omega, hr⟩)
    unfold Exif.entriesLoop at h
    obtain ⟨e, hslc, h⟩ := bind_ok h
    obtain ⟨ot, hdec, h⟩ := bind_ok h
    have hent : entryAt ifd buf i = .ok ot := by unfold entryAt; rw [hslc]; exact hdec
    have hmem' : ∀ x ∈ r.tags, Old x ∨ ∃ k, k < i + 1 ∧ entryAt ifd buf k = .ok (some x) ∧ x.isEmbedded = false := by
      intro x hx
      rcases hmem x hx with ho | ⟨k, hk, hr⟩
      · exact Or.inl ho
      · exact Or.inr ⟨k, by omega, hr⟩
    have fin : ∀ (r2 : R), r2.po = r.po → r2.exifLength = r.exifLength → readLimit r2 = readLimit r →
        (∀ x ∈ r.tags, x ∈ r2.tags) → (∀ x ∈ r.parsed, x ∈ r2.parsed) →
        (∀ x ∈ r2.parsed, x ∈ r.parsed ∨ ∃ k, k < i + (n + 1) ∧ entryAt ifd buf k = .ok (some x)) →
        (∀ t, entryAt ifd buf i = .ok (some t) → t.isEmbedded = false → t ∈ r2.tags) →
        (Coh F r' ∧ Exact tb ex0 F r' ∧ r'.po = r2.po ∧ r'.pos = 0 ∧ r'.exifLength = r2.exifLength ∧ readLimit r' = readLimit r2 ∧ LayS sz r'.tags ∧
          (∀ x ∈ r'.tags, Old x ∨ ∃ k, k < i + 1 + n ∧ entryAt ifd buf k = .ok (some x) ∧ x.isEmbedded = false) ∧
          (∀ x ∈ r2.tags, x ∈ r'.tags) ∧ (∀ x ∈ r2.parsed, x ∈ r'.parsed) ∧
          (∀ x ∈ r'.parsed, x ∈ r2.parsed ∨ ∃ k, k < i + 1 + n ∧ entryAt ifd buf k = .ok (some x)) ∧
          (∀ k t, i + 1 ≤ k → k < i + 1 + n → entryAt ifd buf k = .ok (some t) → t.isEmbedded = false → t ∈ r'.tags)) →
        Coh F r' ∧ Exact tb ex0 F r' ∧ r'.po = r.po ∧ r'.pos = 0 ∧ r'.exifLength = r.exifLength ∧ readLimit r' = readLimit r ∧ LayS sz r'.tags ∧
          (∀ x ∈ r'.tags, Old x ∨ ∃ k, k < i + (n + 1) ∧ entryAt ifd buf k = .ok (some x) ∧ x.isEmbedded = false) ∧
          (∀ x ∈ r.tags, x ∈ r'.tags) ∧ (∀ x ∈ r.parsed, x ∈ r'.parsed) ∧
          (∀ x ∈ r'.parsed, x ∈ r.parsed ∨ ∃ k, k < i + (n + 1) ∧ entryAt ifd buf k = .ok (some x)) ∧
          (∀ k t, i ≤ k → k < i + (n + 1) → entryAt ifd buf k = .ok (some t) → t.isEmbedded = false → t ∈ r'.tags) := by
      intro r2 e1 e2 e3 hsub hp1 hp2 hin ⟨a, b, c, d, e4, f, g, hh, hs, hq1, hq2, hq3⟩
      refine ⟨a, b, by rw [c, e1], d, by rw [e4, e2], by rw [f, e3], g, ?_, fun x hx => hs x (hsub x hx), fun x hx => hq1 x (hp1 x hx), ?_, ?_⟩
      · intro x hx
        rcases hh x hx with ho | ⟨k, hk, hr⟩
        · exact Or.inl ho
        · exact Or.inr ⟨k, by omega, hr⟩
      · intro x hx
        rcases hq2 x hx with ho | ⟨k, hk, hr⟩
        · exact hp2 x ho
        · exact Or.inr ⟨k, by omega, hr⟩
      · intro k t h1 h2 he ho
        by_cases hki : k = i
        · subst hki; exact hs t (hin t he ho)
        · exact hq3 k t (by omega) (by omega) he ho
    have hold' : ∀ x, Old x → 0 < sz x ∧ ∀ k t, k < i + 1 + n → entryAt ifd buf k = .ok (some t) → t.isEmbedded = false → DisjS sz t x := by
      intro x hx; exact ⟨(hold x hx).1, fun k t hk => (hold x hx).2 k t (by omega)⟩
    cases ot with
    | none =>
      dsimp only at h
      exact fin r rfl rfl rfl (fun x hx => hx) (fun x hx => hx) (fun x hx => Or.inl hx)
        (fun t he => by rw [hent] at he; simp at he) (ih (i + 1) r r' hc he hD hpos hlay hmem' hcap'
        (fun k t hk => hgood k t (by omega)) (fun k k' t t' hk hk' => hdisj k k' t t' (by omega) (by omega)) hold' h)
    | some t =>
      dsimp only at h
      have hg := hgood i t (by omega) hent
      split at h
      · rename_i hemb
        obtain ⟨r1, h1, h⟩ := bind_ok h
        have hs := parseTag_quiet tb r r1 t (hg.1 hemb) h1
        have hc1 : Coh F r1 := ⟨by rw [hs.rest, hs.po]; exact hc.rest, by rw [hs.po]; exact hc.le, hc.small⟩
        have he1 : Exact tb ex0 F r1 := parseTag_quiet_exact r r1 t (hg.1 hemb) he h1
        have hl1 : readLimit r1 = readLimit r := by unfold readLimit; rw [hs.buffered]
        have hpar : r1.parsed = r.parsed ++ [t] := by
          obtain ⟨r0, h0, rfl⟩ := parseTag_ok h1
          show r0.parsed ++ [t] = _
          rw [(FrO.parseTag0 tb r t r0 h0).parsed]
        exact fin r1 hs.po hs.exl hl1 (by rw [hs.tags]; exact fun x hx => hx)
          (by rw [hpar]; intro x hx; exact List.mem_append_left _ hx)
          (by
            rw [hpar]; intro x hx
            rcases List.mem_append.mp hx with hx | hx
            · exact Or.inl hx
            · simp only [List.mem_singleton] at hx; rw [hx]; exact Or.inr ⟨i, by omega, hent⟩)
          (fun t' he' ho' => by rw [hent] at he'; simp only [Outcome.ok.injEq, Option.some.injEq] at he'; rw [← he'] at ho'; rw [hemb] at ho'; cases ho')
          (ih (i + 1) r1 r' hc1 he1 (by rw [hs.po]; exact hD) (by rw [hs.pos]; exact hpos) (by rw [hs.tags]; exact hlay)
            (by rw [hs.tags]; exact hmem') hcap'
            (fun k t hk hd => hgood k t (by omega) hd)
            (fun k k' t t' hk hk' => hdisj k k' t t' (by omega) (by omega)) hold' h)
      · rename_i hemb
        have hemb' : t.isEmbedded = false := by simpa using hemb
        have hout := hg.2 hemb'
        have hszt : 0 < sz t := hout.2
        have hd : ∀ x ∈ r.tags, DisjS sz t x ∧ 0 < sz x := by
          intro x hx
          rcases hmem x hx with ho | ⟨k, hk, hxe, hxo⟩
          · exact ⟨(hold x ho).2 i t (by omega) hent hemb', (hold x ho).1⟩
          · have hgx := hgood k x (by omega) hxe
            exact ⟨hdisj i k t x (by omega) (by omega) (by omega) hent hxe hemb' hxo, (hgx.2 hxo).2⟩
        have hlen84 : r.tags.length < tagMaxCount := by
          have := hcap r.tags hlay (fun x hx => by rcases hmem x hx with ho | ⟨k, hk, hr⟩; exact Or.inl ho; exact Or.inr ⟨k, by omega, hr⟩)
          unfold tagMaxCount; omega
        have ha := addTag_layS sz r t hlay (by omega) hlen84 hszt hd
        obtain ⟨hl2, htin, hm2, hsub2, hlen2, hs⟩ := ha
        have hpo1 : (addTag r t).po = r.po := hs.po
        have hrest1 : (addTag r t).rest = r.rest := hs.rest
        have hexl1 : (addTag r t).exifLength = r.exifLength := hs.exl
        have hbuf1 : (addTag r t).buffered = r.buffered := hs.buffered
        have hpos1 : (addTag r t).pos = r.pos := hs.pos
        have hrd1 : (addTag r t).reads = r.reads := hs.reads
        have hc1 : Coh F (addTag r t) := ⟨by rw [hrest1, hpo1]; exact hc.rest, by rw [hpo1]; exact hc.le, hc.small⟩
        have he1 : Exact tb ex0 F (addTag r t) := he.transfer hrd1 (addTag_keep r t).1 (addTag_keep r t).2
        have hl1 : readLimit (addTag r t) = readLimit r := by unfold readLimit; rw [hbuf1]
        have hmem1 : ∀ x ∈ (addTag r t).tags, Old x ∨ ∃ k, k < i + 1 ∧ entryAt ifd buf k = .ok (some x) ∧ x.isEmbedded = false := by
          intro x hx
          rcases hm2 x hx with rfl | hx
          · exact Or.inr ⟨i, by omega, hent, hemb'⟩
          · exact hmem' x hx
        exact fin (addTag r t) hpo1 hexl1 hl1 hsub2
          (by rw [(addTag_keep r t).2]; exact fun x hx => hx) (by rw [(addTag_keep r t).2]; exact fun x hx => Or.inl hx)
          (fun t' he' _ => by rw [hent] at he'; simp only [Outcome.ok.injEq, Option.some.injEq] at he'; rw [← he']; exact htin)
          (ih (i + 1) (addTag r t) r' hc1 he1 (by rw [hpo1]; exact hD) (by rw [hpos1]; exact hpos) hl2 hmem1 hcap'
            (fun k t hk hd => hgood k t (by omega) hd)
            (fun k k' t t' hk hk' => hdisj k k' t t' (by omega) (by omega)) hold' h)

/-- the out-of-line entries of the directory at d, as the reader decodes them -/
def IsEntry (F : Bytes) (ifd : Ifd) (d cnt : Nat) (x : Tag) : Prop :=
  ∃ k, k < cnt ∧ entryAt ifd ((F.drop (d + 2)).take (cnt * 12)) k = .ok (some x) ∧ x.isEmbedded = false

/-- the entries of the directory at d (embedded or not), as the reader decodes them -/
def AnyEntry (F : Bytes) (ifd : Ifd) (d cnt : Nat) (x : Tag) : Prop :=
  ∃ k, k < cnt ∧ entryAt ifd ((F.drop (d + 2)).take (cnt * 12)) k = .ok (some x)

/-- the pending tag readNextIfdTag queues for a second top-level directory (IFD1) at nx -/
def stubOf (ifd : Ifd) (nx : Nat) : Tag :=
  { id := 0x014a, typ := tIfd, count := 4, off := nx, ifd := ifd0, idx := (ifd.idx + 1) % 256, order := ifd.order }

/-- such a tag: the work loop seeks to it and reads nothing -/
def IsStub (t : Tag) : Prop := t.typ = tIfd ∧ t.ifd = ifd0 ∧ t.id = 0x014a

/-- x is the IFD1 pointer of the directory at d (the directory is IFD0 and its next-IFD field is not zero) -/
def IsStubEntry (F : Bytes) (ifd : Ifd) (d cnt : Nat) (x : Tag) : Prop :=
  ifd.typ = ifd0 ∧ ∃ nx, nx ≠ 0 ∧ u32 ifd.order ((F.drop (d + 2 + 12 * cnt)).take 4) = .ok nx ∧ x = stubOf ifd nx

/-- what reading a directory at d needs, with extents given by `sz` (entries may be pointers) -/
structure DirOK (F : Bytes) (ifd : Ifd) (d cnt exl lim : Nat) (sz : Tag → Nat) : Prop where
  inFile : d + 2 + 12 * cnt + 4 ≤ F.length
  inExif : d + 2 + 12 * cnt + 4 ≤ exl
  count : u16 ifd.order ((F.drop d).take 2) = .ok cnt
  small : cnt ≤ 83
  window : 12 * cnt ≤ lim
  good : ∀ k t, k < cnt → entryAt ifd ((F.drop (d + 2)).take (cnt * 12)) k = .ok (some t) →
    (t.isEmbedded = true → ¬ Reads t) ∧ (t.isEmbedded = false → d + 2 + 12 * cnt + 4 ≤ t.off ∧ 0 < sz t)
  disj : ∀ k k' t t', k < cnt → k' < cnt → k ≠ k' → entryAt ifd ((F.drop (d + 2)).take (cnt * 12)) k = .ok (some t) →
    entryAt ifd ((F.drop (d + 2)).take (cnt * 12)) k' = .ok (some t') → t.isEmbedded = false → t'.isEmbedded = false → DisjS sz t t'
  next : ifd.typ = ifd0 → ∃ nx, u32 ifd.order ((F.drop (d + 2 + 12 * cnt)).take 4) = .ok nx ∧
    (nx = 0 ∨ (d + 2 + 12 * cnt + 4 ≤ nx ∧ 0 < sz (stubOf ifd nx) ∧
      ∀ k t, k < cnt → entryAt ifd ((F.drop (d + 2)).take (cnt * 12)) k = .ok (some t) → t.isEmbedded = false → DisjS sz (stubOf ifd nx) t))

theorem FlatDir.dirOK {F : Bytes} {ifd : Ifd} {d cnt exl lim : Nat} (h : FlatDir F ifd d cnt exl lim) (sz : Tag → Nat)
    (hsz : ∀ t : Tag, t.typ ≠ tIfd → sz t = t.size) : DirOK F ifd d cnt exl lim sz := by
  refine ⟨h.inFile, h.inExif, h.count, h.small, h.window, ?_, ?_, fun h0 => ⟨0, h.next h0, Or.inl rfl⟩⟩
  · intro k t hk e
    have g := h.good k t hk e
    exact ⟨g.2.2.1, fun ho => ⟨(g.2.2.2 ho).1, by rw [hsz t g.1]; exact size_pos_of_outofline t g.1 ho⟩⟩
  · intro k k' t t' hk hk' hne e e' o o'
    have := h.disj k k' t t' hk hk' hne e e' o o'
    have g1 := h.good k t hk e
    have g2 := h.good k' t' hk' e'
    unfold DisjS; rw [hsz t g1.1, hsz t' g2.1]; exact this

theorem readIfdHeader_gen {F : Bytes} (tb : Tables) (ifd : Ifd) (r r1 : R) (e1 : Option ErrKind) (cnt : Nat) (sz : Tag → Nat)
    (Old : Tag → Prop)
    (hc : Coh F r) (he : Exact tb ex0 F r) (hpos : r.pos = 0) (hlay : LayS sz r.tags) (hmem : ∀ x ∈ r.tags, Old x)
    (hcap : ∀ l : List Tag, LayS sz l → (∀ x ∈ l, Old x ∨ IsEntry F ifd r.po cnt x ∨ IsStubEntry F ifd r.po cnt x) → l.length ≤ 83)
    (hd : DirOK F ifd r.po cnt r.exifLength (readLimit r) sz)
    (hold : ∀ x, Old x → 0 < sz x ∧ ∀ t, IsEntry F ifd r.po cnt t → DisjS sz t x)
    (hstubOld : ifd.typ = ifd0 → ∀ x, ¬ Old x)
    (h : readIfdHeader tb r ifd = .ok (r1, e1)) :
    Coh F r1 ∧ Exact tb ex0 F r1 ∧ r1.po ≤ r.po + 2 + 12 * cnt + 4 ∧ r1.pos = 0 ∧ r1.exifLength = r.exifLength ∧ readLimit r1 = readLimit r ∧
    LayS sz r1.tags ∧ (∀ x ∈ r1.tags, Old x ∨ IsEntry F ifd r.po cnt x ∨ IsStubEntry F ifd r.po cnt x) ∧ (∀ x ∈ r.tags, x ∈ r1.tags) ∧
    (∀ x ∈ r.parsed, x ∈ r1.parsed) ∧ (∀ x ∈ r1.parsed, x ∈ r.parsed ∨ AnyEntry F ifd r.po cnt x) ∧ e1 = none ∧
    (∀ x, IsEntry F ifd r.po cnt x → x ∈ r1.tags) := by
  have hF := hd.inFile
  have hx := hd.inExif
  have hcnt := hd.count
  have hlim := hd.window
  have hl4 := readLimit_ge r
  have hr2 := fastRead_exact hc 2 (by omega) (by omega) (by omega)
  have hc2 := hc.fastRead 2
  have hk2 := Keep.fastRead r 2
  have hlim2 : readLimit (fastRead r 2).r = readLimit r := by unfold readLimit; rw [hk2.buffered]
  have hr3 := fastRead_exact hc2 (cnt * 12) (by rw [hr2.2.2]; omega) (by rw [hr2.2.2, hk2.exl]; omega) (by rw [hlim2]; omega)
  have hc3 := hc2.fastRead (cnt * 12)
  have hk3 := hk2.trans (Keep.fastRead (fastRead r 2).r (cnt * 12))
  have hlim3 : readLimit (fastRead (fastRead r 2).r (cnt * 12)).r = readLimit r := by unfold readLimit; rw [hk3.buffered]
  have hpo3 : (fastRead (fastRead r 2).r (cnt * 12)).r.po = r.po + 2 + 12 * cnt := by rw [hr3.2.2, hr2.2.2]; omega
  have hbuf3 : (fastRead (fastRead r 2).r (cnt * 12)).buf = (F.drop (r.po + 2)).take (cnt * 12) := by rw [hr3.2.1, hr2.2.2]
  unfold Exif.readIfdHeader at h
  dsimp only at h
  rw [hr2.1] at h
  dsimp only at h
  rw [hr2.2.1, hcnt] at h
  obtain ⟨c', hch, h⟩ := bind_ok h
  simp only [Outcome.ok.injEq] at hch
  subst hch
  have hc83 := hd.small
  rw [if_neg (by omega), hr3.1] at h
  dsimp only at h
  obtain ⟨r3, hloop, hnx⟩ := bind_ok h
  rw [hbuf3] at hloop
  have hE3 : Exact tb ex0 F (fastRead (fastRead r 2).r (cnt * 12)).r := he.keep hk3
  have hgen := entriesLoop_gen (F := F) tb ifd _ (r.po + 2 + 12 * cnt + 4) sz Old cnt 0 _ r3 hc3 hE3 (by rw [hpo3]; omega)
    (by rw [hk3.pos]; exact hpos) (by rw [hk3.tags]; exact hlay) (by rw [hk3.tags]; exact fun x hx => Or.inl (hmem x hx))
    (fun l hl hm => hcap l hl (fun x hx => by rcases hm x hx with ho | ⟨k, hk, e, o⟩; exact Or.inl ho; exact Or.inr (Or.inl ⟨k, by omega, e, o⟩)))
    (fun k t hk hdd => hd.good k t (by omega) hdd)
    (fun k k' t t' hk hk' => hd.disj k k' t t' (by omega) (by omega))
    (fun x hx => ⟨(hold x hx).1, fun k t hk e o => (hold x hx).2 t ⟨k, by omega, e, o⟩⟩) hloop
  obtain ⟨hc4, he4, hpo4, hpos4, hexl4, hlim4, hlay4, hmem4, hsub4, hpar4, hprov4, hins4⟩ := hgen
  have hins5 : ∀ x, IsEntry F ifd r.po cnt x → x ∈ r3.tags := by
    intro x hx; obtain ⟨k, hk, e, o⟩ := hx; exact hins4 k x (Nat.zero_le _) (by omega) e o
  rw [hpo3] at hpo4
  rw [hk3.exl] at hexl4
  rw [hlim3] at hlim4
  rw [hk3.tags] at hsub4
  rw [hk3.parsed] at hpar4 hprov4
  have hprov5 : ∀ x ∈ r3.parsed, x ∈ r.parsed ∨ AnyEntry F ifd r.po cnt x := by
    intro x hx
    rcases hprov4 x hx with ho | ⟨k, hk, e⟩
    · exact Or.inl ho
    · exact Or.inr ⟨k, by omega, e⟩
  have hmem5 : ∀ x ∈ r3.tags, Old x ∨ IsEntry F ifd r.po cnt x ∨ IsStubEntry F ifd r.po cnt x := by
    intro x hx
    rcases hmem4 x hx with ho | ⟨k, hk, e, o⟩
    · exact Or.inl ho
    · exact Or.inr (Or.inl ⟨k, by omega, e, o⟩)
  unfold Exif.readNextIfdTag at hnx
  split at hnx
  · dsimp only at hnx
    have hr5 := fastRead_exact hc4 4 (by rw [hpo4]; omega) (by rw [hpo4, hexl4]; omega) (by rw [hlim4]; omega)
    have hc5 := hc4.fastRead 4
    have hk5 := Keep.fastRead r3 4
    rw [hr5.1] at hnx
    dsimp only at hnx
    obtain ⟨nx, hnxv, hnx⟩ := bind_ok hnx
    rw [hr5.2.1, hpo4] at hnxv
    have hl5 : readLimit (fastRead r3 4).r = readLimit r := by unfold readLimit at hlim4 ⊢; rw [hk5.buffered]; exact hlim4
    by_cases hno : ifd.typ = ifd0 ∧ nx ≠ 0
    · -- IFD0 with a successor: the IFD1 pointer is queued
      rw [if_pos hno] at hnx
      simp only [Outcome.ok.injEq, Prod.mk.injEq] at hnx
      have hnx1 : addTag (fastRead r3 4).r (stubOf ifd nx) = r1 := hnx.1
      rw [← hnx1]
      obtain ⟨nx', hnx', hcase⟩ := hd.next hno.1
      rw [hnx'] at hnxv
      simp only [Outcome.ok.injEq] at hnxv
      subst hnxv
      rcases hcase with h0 | ⟨hD, hszs, hdis⟩
      · exact absurd h0 hno.2
      · have hstub : IsStubEntry F ifd r.po cnt (stubOf ifd nx') := ⟨hno.1, nx', hno.2, hnx', rfl⟩
        have hlay5 : LayS sz (fastRead r3 4).r.tags := by rw [hk5.tags]; exact hlay4
        have hmem5' : ∀ x ∈ (fastRead r3 4).r.tags, Old x ∨ IsEntry F ifd r.po cnt x ∨ IsStubEntry F ifd r.po cnt x := by
          rw [hk5.tags]; exact hmem5
        have hlen84 : (fastRead r3 4).r.tags.length < tagMaxCount := by
          have := hcap _ hlay5 hmem5'
          unfold tagMaxCount; omega
        have hd5 : ∀ x ∈ (fastRead r3 4).r.tags, DisjS sz (stubOf ifd nx') x ∧ 0 < sz x := by
          intro x hx
          rw [hk5.tags] at hx
          rcases hmem4 x hx with ho | ⟨k, hk, e, o⟩
          · exact absurd ho (hstubOld hno.1 x)
          · exact ⟨hdis k x (by omega) e o, ((hd.good k x (by omega) e).2 o).2⟩
        have ha := addTag_layS sz (fastRead r3 4).r (stubOf ifd nx') hlay5 (by rw [hr5.2.2, hpo4]; show _ ≤ nx'; omega) hlen84 hszs hd5
        obtain ⟨hl6, htin6, hm6, hsub6, _, hs6⟩ := ha
        have hkeep6 := addTag_keep (fastRead r3 4).r (stubOf ifd nx')
        have hpo6 : (addTag (fastRead r3 4).r (stubOf ifd nx')).po = (fastRead r3 4).r.po := hs6.po
        have hrest6 : (addTag (fastRead r3 4).r (stubOf ifd nx')).rest = (fastRead r3 4).r.rest := hs6.rest
        have hexl6 : (addTag (fastRead r3 4).r (stubOf ifd nx')).exifLength = (fastRead r3 4).r.exifLength := hs6.exl
        have hbuf6 : (addTag (fastRead r3 4).r (stubOf ifd nx')).buffered = (fastRead r3 4).r.buffered := hs6.buffered
        have hpos6 : (addTag (fastRead r3 4).r (stubOf ifd nx')).pos = (fastRead r3 4).r.pos := hs6.pos
        have hrd6 : (addTag (fastRead r3 4).r (stubOf ifd nx')).reads = (fastRead r3 4).r.reads := hs6.reads
        refine ⟨⟨by rw [hrest6, hpo6]; exact hc5.rest, by rw [hpo6]; exact hc5.le, hc5.small⟩,
          (he4.keep hk5).transfer hrd6 hkeep6.1 hkeep6.2, by rw [hpo6, hr5.2.2, hpo4]; omega, by rw [hpos6, hk5.pos]; exact hpos4,
          by rw [hexl6, hk5.exl]; exact hexl4, by unfold readLimit at hl5 ⊢; rw [hbuf6]; exact hl5, hl6, ?_, ?_,
          by rw [hkeep6.2, hk5.parsed]; exact hpar4, by rw [hkeep6.2, hk5.parsed]; exact hprov5, hnx.2.symm, ?_⟩
        · intro x hx
          rcases hm6 x hx with rfl | hx
          · exact Or.inr (Or.inr hstub)
          · exact hmem5' x hx
        · intro x hx; exact hsub6 x (by rw [hk5.tags]; exact hsub4 x hx)
        · intro x hx; exact hsub6 x (by rw [hk5.tags]; exact hins5 x hx)
    · rw [if_neg hno] at hnx
      simp only [Outcome.ok.injEq, Prod.mk.injEq] at hnx
      rw [← hnx.1]
      refine ⟨hc5, he4.keep hk5, by rw [hr5.2.2, hpo4]; omega, by rw [hk5.pos]; exact hpos4,
        by rw [hk5.exl]; exact hexl4, hl5, by rw [hk5.tags]; exact hlay4, by rw [hk5.tags]; exact hmem5, by rw [hk5.tags]; exact hsub4,
        by rw [hk5.parsed]; exact hpar4, by rw [hk5.parsed]; exact hprov5, hnx.2.symm, by rw [hk5.tags]; exact hins5⟩
  · simp only [Outcome.ok.injEq, Prod.mk.injEq] at hnx
    rw [← hnx.1]
    exact ⟨hc4, he4, by rw [hpo4]; omega, hpos4, hexl4, hlim4, hlay4, hmem5, hsub4, hpar4, hprov5, hnx.2.symm, hins5⟩

/-! ### the walk over IFD0 with pointers to flat Exif and GPS directories -/

def IsPtr (t : Tag) : Prop := t.typ = tIfd ∧ t.ifd = ifd0 ∧ (t.id = 0x8825 ∨ t.id = 0x8769)

/-- the entry count of the directory a pointer tag points at, as written in the file -/
def ptrCount (F : Bytes) (t : Tag) : Nat :=
  match u16 t.order ((F.drop t.off).take 2) with
  | .ok c => c
  | _ => 0

/-- the bytes a pending tag stands for: its value, or the directory (count, entries, next pointer) it points at -/
def extent (F : Bytes) (t : Tag) : Nat := if t.typ = tIfd then 2 + 12 * ptrCount F t + 4 else t.size

theorem extent_value (F : Bytes) (t : Tag) (h : t.typ ≠ tIfd) : extent F t = t.size := by unfold extent; rw [if_neg h]
theorem extent_ptr (F : Bytes) (t : Tag) (h : t.typ = tIfd) : extent F t = 2 + 12 * ptrCount F t + 4 := by unfold extent; rw [if_pos h]

/-- the layout: which tags belong to it (W), what is asked of them -/
structure World (F : Bytes) (exl lim : Nat) (W : Tag → Prop) : Prop where
  ok : ∀ x, W x → (x.typ ≠ tIfd ∧ ¬(x.id = 0x014a ∧ x.ifd = ifd0) ∧ x.isEmbedded = false ∧ x.off + x.size ≤ F.length ∧
      x.off + x.size ≤ exl ∧ x.size ≤ lim) ∨ (IsPtr x ∧ FlatDir F x.childIfd x.off (ptrCount F x) exl lim) ∨
      (IsStub x ∧ x.off ≤ F.length ∧ x.off ≤ exl)
  disj : ∀ x y, W x → W y → x ≠ y → DisjS (extent F) x y
  child : ∀ p, W p → IsPtr p → ∀ c, IsEntry F p.childIfd p.off (ptrCount F p) c → W c
  uniq : ∀ p q, W p → W q → IsPtr p → IsPtr q → p.id = q.id → p = q
  cap : ∀ l : List Tag, LayS (extent F) l → (∀ x ∈ l, W x) → l.length ≤ 83

theorem World.extent_pos {F : Bytes} {exl lim : Nat} {W : Tag → Prop} (w : World F exl lim W) (x : Tag) (hx : W x) : 0 < extent F x := by
  rcases w.ok x hx with h | h | h
  · rw [extent_value F x h.1]; exact size_pos_of_outofline x h.1 h.2.2.1
  · rw [extent_ptr F x h.1.1]; omega
  · rw [extent_ptr F x h.1.1]; omega

theorem entry_ifd (ifd : Ifd) (buf : Bytes) (k : Nat) (c : Tag) (h : entryAt ifd buf k = .ok (some c)) : c.ifd = ifd.typ := by
  unfold entryAt at h
  obtain ⟨e, _, h⟩ := bind_ok h
  unfold tagFromBuffer at h
  obtain ⟨id, _, h⟩ := bind_ok h
  obtain ⟨ty, _, h⟩ := bind_ok h
  obtain ⟨cnt, _, h⟩ := bind_ok h
  obtain ⟨vo, _, h⟩ := bind_ok h
  dsimp only at h
  split at h
  · simp only [Outcome.ok.injEq, Option.some.injEq] at h; rw [← h]
  · simp at h

theorem lay_head (sz : Tag → Nat) (l : List Tag) (p : Tag) (hl : LayS sz l) (hp : p ∈ l)
    (hmin : ∀ x ∈ l, x = p ∨ p.off + sz p ≤ x.off) (hpos : ∀ x ∈ l, 0 < sz x) : ∃ tl, l = p :: tl := by
  cases l with
  | nil => cases hp
  | cons h tl =>
    by_cases hh : h = p
    · exact ⟨tl, by rw [hh]⟩
    · exfalso
      rw [List.mem_cons] at hp
      rcases hp with rfl | hp
      · exact hh rfl
      · unfold LayS at hl
        rw [List.pairwise_cons] at hl
        have h1 := hl.1 p hp
        rcases hmin h (by simp) with h2 | h2
        · exact hh h2
        · have := hpos h (by simp); have := hpos p (by simp [hp]); omega

theorem reset_queue (r : R) : (resetPosition r).tags = r.tags.drop r.pos ∧ (resetPosition r).pos = 0 ∧
    (resetPosition r).rest = r.rest ∧ (resetPosition r).po = r.po ∧ (resetPosition r).exifLength = r.exifLength ∧
    (resetPosition r).buffered = r.buffered ∧ (resetPosition r).reads = r.reads := by
  unfold resetPosition
  split
  · exact ⟨rfl, rfl, rfl, rfl, rfl, rfl, rfl⟩
  · rename_i h
    have : r.pos = 0 := by omega
    exact ⟨by rw [this]; rfl, this, rfl, rfl, rfl, rfl, rfl⟩

theorem reset_keep (r : R) : (resetPosition r).ex = r.ex ∧ (resetPosition r).parsed = r.parsed := by
  unfold resetPosition; split <;> exact ⟨rfl, rfl⟩

/-- the invariant of the work loop in a nested forward layout -/
structure NInv (tb : Tables) (ex0 : Rec) (F : Bytes) (exl lim : Nat) (W : Tag → Prop) (r : R) : Prop where
  coh : Coh F r
  exact : Exact tb ex0 F r
  exl : r.exifLength = exl
  lim : readLimit r = lim
  lay : LayS (extent F) (r.tags.drop r.pos)
  inW : ∀ x ∈ r.tags.drop r.pos, W x
  fwd : ∀ x ∈ r.tags.drop r.pos, r.po ≤ x.off
  fresh : ∀ p ∈ r.tags.drop r.pos, IsPtr p → ∀ x ∈ r.tags.drop r.pos, x.ifd ≠ p.childIfd.typ

theorem childType_ne (p q : Tag) (hp : IsPtr p) (hq : IsPtr q) (hne : p.id ≠ q.id) : p.childIfd.typ ≠ q.childIfd.typ := by
  unfold Tag.childIfd
  dsimp only
  rw [if_pos hp.2.1, if_pos hq.2.1]
  rcases hp.2.2 with h1 | h1 <;> rcases hq.2.2 with h2 | h2
  · omega
  · rw [h1, h2]; decide
  · rw [h1, h2]; decide
  · omega

theorem childType_ne_ifd0 (p : Tag) (hp : IsPtr p) : ifd0 ≠ p.childIfd.typ := by
  unfold Tag.childIfd
  dsimp only
  rw [if_pos hp.2.1]
  rcases hp.2.2 with h1 | h1
  · rw [h1]; decide
  · rw [h1]; decide

theorem ifdLoop_nested {F : Bytes} {exl lim : Nat} {W : Tag → Prop} (w : World F exl lim W) (tb : Tables) :
    ∀ (f : Nat) (r r' : R), NInv tb ex0 F exl lim W r → ifdLoop tb f r = .ok r' → Coh F r' ∧ Exact tb ex0 F r' ∧
      (∀ x ∈ r.parsed, x ∈ r'.parsed) ∧
      (∀ x ∈ r.tags.drop r.pos, x.typ ≠ tIfd → x ∈ r'.parsed) ∧
      (∀ p ∈ r.tags.drop r.pos, IsPtr p → ∀ c, IsEntry F p.childIfd p.off (ptrCount F p) c → c ∈ r'.parsed) ∧
      (∀ x ∈ r'.parsed, x ∈ r.parsed ∨ (x ∈ r.tags.drop r.pos ∧ x.typ ≠ tIfd) ∨
        ∃ p ∈ r.tags.drop r.pos, IsPtr p ∧ AnyEntry F p.childIfd p.off (ptrCount F p) x) := by
  intro f
  induction f with
  | zero => intro r r' _ h; unfold Exif.ifdLoop at h; cases h
  | succ f ih =>
    intro r r' inv h
    unfold Exif.ifdLoop at h
    split at h
    · rename_i hlt
      have hget : r.tags[r.pos]? = some r.tags[r.pos] := List.getElem?_eq_getElem hlt
      have hdrop : r.tags.drop r.pos = r.tags[r.pos] :: r.tags.drop (r.pos + 1) := List.drop_eq_getElem_cons hlt
      rw [hget] at h
      dsimp only at h
      generalize ht : r.tags[r.pos] = t at h hdrop
      have hlayQ := inv.lay
      rw [hdrop] at hlayQ
      unfold LayS at hlayQ
      rw [List.pairwise_cons] at hlayQ
      have htW : W t := inv.inW t (by rw [hdrop]; simp)
      have htfwd : r.po ≤ t.off := inv.fwd t (by rw [hdrop]; simp)
      rcases w.ok t htW with hv | hp | hs
      · -- a value tag
        rw [if_neg hv.1, if_neg hv.2.1] at h
        obtain ⟨r1, h1, h⟩ := bind_ok h
        have hpf := parseTag_forward tb r r1 t inv.coh inv.exact htfwd hv.2.2.2.1 (by rw [inv.exl]; exact hv.2.2.2.2.1)
          (by rw [inv.lim]; exact hv.2.2.2.2.2) h1
        obtain ⟨hc1, he1, hpo1, htags, hpos, hexl, hl1⟩ := hpf
        have hq : ({ r1 with pos := r1.pos + 1 } : R).tags.drop ({ r1 with pos := r1.pos + 1 } : R).pos = r.tags.drop (r.pos + 1) := by
          show r1.tags.drop (r1.pos + 1) = _
          rw [htags, hpos]
        have hinv' : NInv tb ex0 F exl lim W { r1 with pos := r1.pos + 1 } := by
          refine ⟨⟨hc1.rest, hc1.le, hc1.small⟩, ⟨he1.reads, he1.ref⟩, hexl.trans inv.exl, hl1.trans inv.lim, ?_, ?_, ?_, ?_⟩
          · rw [hq]; exact hlayQ.2
          · rw [hq]; intro x hx; exact inv.inW x (by rw [hdrop]; exact List.mem_cons_of_mem _ hx)
          · rw [hq]; intro x hx
            have := hlayQ.1 x hx
            rw [extent_value F t hv.1] at this
            show r1.po ≤ x.off
            omega
          · rw [hq]; intro p hp hip x hx
            exact inv.fresh p (by rw [hdrop]; exact List.mem_cons_of_mem _ hp) hip x (by rw [hdrop]; exact List.mem_cons_of_mem _ hx)
        obtain ⟨c', e', l1, l2, l3, l4⟩ := ih { r1 with pos := r1.pos + 1 } r' hinv' h
        rw [hq] at l2 l3 l4
        have hpar : r1.parsed = r.parsed ++ [t] := by
          obtain ⟨r0, h0, rfl⟩ := parseTag_ok h1
          show r0.parsed ++ [t] = _
          rw [(FrO.parseTag0 tb r t r0 h0).parsed]
        have l1' : ∀ x ∈ r1.parsed, x ∈ r'.parsed := l1
        refine ⟨c', e', fun x hx => l1' x (by rw [hpar]; exact List.mem_append_left _ hx), ?_, ?_, ?_⟩
        · intro x hx hxt
          rw [hdrop, List.mem_cons] at hx
          rcases hx with rfl | hx
          · exact l1' x (by rw [hpar]; simp)
          · exact l2 x hx hxt
        · intro p hp hip c hc
          rw [hdrop, List.mem_cons] at hp
          rcases hp with rfl | hp
          · exact absurd hip.1 hv.1
          · exact l3 p hp hip c hc
        · intro x hx
          rcases l4 x hx with h1' | h2' | ⟨p, hp, hip, ha⟩
          · have : x ∈ r.parsed ++ [t] := by rw [← hpar]; exact h1'
            rcases List.mem_append.mp this with h | h
            · exact Or.inl h
            · simp only [List.mem_singleton] at h; rw [h]; exact Or.inr (Or.inl ⟨by rw [hdrop]; simp, hv.1⟩)
          · exact Or.inr (Or.inl ⟨by rw [hdrop]; exact List.mem_cons_of_mem _ h2'.1, h2'.2⟩)
          · exact Or.inr (Or.inr ⟨p, by rw [hdrop]; exact List.mem_cons_of_mem _ hp, hip, ha⟩)
      · -- a pointer to a flat directory
        obtain ⟨hip, hfd⟩ := hp
        rw [if_pos hip.1] at h
        have hk : ((t.off : Int) - r.po) = ((t.off - r.po : Nat) : Int) := by omega
        rw [hk] at h
        have hinF := hfd.inFile
        have hinX := hfd.inExif
        have hde := discard_exact inv.coh (t.off - r.po) (by omega) (by rw [inv.exl]; omega)
        have hcd := inv.coh.discard ((t.off - r.po : Nat) : Int)
        have hkd := Keep.discard r ((t.off - r.po : Nat) : Int)
        generalize hdd : Exif.discard r ((t.off - r.po : Nat) : Int) = pr at h hde hcd hkd
        obtain ⟨r1, e1⟩ := pr
        dsimp only at h hde hcd hkd
        have hpo1 : r1.po = t.off := by rw [hde.2]; omega
        obtain ⟨r3, h3, h⟩ := bind_ok h
        have hrq := reset_queue r1
        obtain ⟨hq2, hpos2, hrest2, hpo2, hexl2, hbuf2, hrd2⟩ := hrq
        have hQ2 : (resetPosition r1).tags = t :: r.tags.drop (r.pos + 1) := by rw [hq2, hkd.tags, hkd.pos, hdrop]
        have hc2 : Coh F (resetPosition r1) := ⟨by rw [hrest2, hpo2]; exact hcd.rest, by rw [hpo2]; exact hcd.le, hcd.small⟩
        have he2 : Exact tb ex0 F (resetPosition r1) :=
          inv.exact.transfer (hrd2.trans hkd.reads) ((reset_keep r1).1.trans hkd.ex) ((reset_keep r1).2.trans hkd.parsed)
        have hl2 : readLimit (resetPosition r1) = lim := by unfold readLimit; rw [hbuf2, hkd.buffered]; exact inv.lim
        have hx2 : (resetPosition r1).exifLength = exl := by rw [hexl2, hkd.exl]; exact inv.exl
        unfold Exif.ifdChild at h3
        rw [if_pos hip.2.1, if_pos hip.2.2] at h3
        obtain ⟨pr3, hh3, h3⟩ := bind_ok h3
        obtain ⟨x3, e3⟩ := pr3
        simp only [Outcome.ok.injEq] at h3
        subst h3
        have hOldW : ∀ x ∈ (resetPosition r1).tags, W x := by
          intro x hx; rw [hQ2] at hx; exact inv.inW x (by rw [hdrop]; exact hx)
        have hfresh2 : ∀ x ∈ (resetPosition r1).tags, x.ifd ≠ t.childIfd.typ := by
          intro x hx; rw [hQ2] at hx
          exact inv.fresh t (by rw [hdrop]; simp) hip x (by rw [hdrop]; exact hx)
        have hgen := readIfdHeader_gen (F := F) tb t.childIfd (resetPosition r1) x3 e3 (ptrCount F t) (extent F)
          (fun x => x ∈ (resetPosition r1).tags) hc2 he2 hpos2 (by rw [hQ2, ← hdrop]; exact inv.lay) (fun x hx => hx)
          (fun l hl hm => w.cap l hl (fun x hx => by
            rcases hm x hx with ho | hc | hc
            · exact hOldW x ho
            · rw [hpo2, hpo1] at hc; exact w.child t htW hip x hc
            · exact absurd hc.1.symm (childType_ne_ifd0 t hip)))
          (by rw [hpo2, hpo1, hx2, hl2]; exact hfd.dirOK (extent F) (extent_value F))
          (fun x hx => ⟨w.extent_pos x (hOldW x hx), fun c hc => by
            rw [hpo2, hpo1] at hc
            have hcW := w.child t htW hip c hc
            obtain ⟨k, _, hce, _⟩ := hc
            have hci := entry_ifd _ _ _ _ hce
            exact w.disj c x hcW (hOldW x hx) (fun heq => hfresh2 x hx (by rw [← heq]; exact hci))⟩)
          (fun h0 => absurd h0.symm (childType_ne_ifd0 t hip))
          hh3
        obtain ⟨hc3, he3, hpo3, hpos3, hexl3, hlim3, hlay3, hmem3', hsub3, hpar3, hprov3, _, hins3⟩ := hgen
        have hmem3 : ∀ x ∈ x3.tags, x ∈ (resetPosition r1).tags ∨ IsEntry F t.childIfd (resetPosition r1).po (ptrCount F t) x := by
          intro x hx
          rcases hmem3' x hx with a | a | a
          · exact Or.inl a
          · exact Or.inr a
          · exact absurd a.1.symm (childType_ne_ifd0 t hip)
        rw [hpo2, hpo1] at hpo3 hmem3 hprov3 hins3
        have hext : extent F t = 2 + 12 * ptrCount F t + 4 := extent_ptr F t hip.1
        -- t is still the head of the pending list
        have hchildD : ∀ c, IsEntry F t.childIfd t.off (ptrCount F t) c → t.off + extent F t ≤ c.off ∧ c.typ ≠ tIfd := by
          intro c hc
          obtain ⟨k, hk, hce, hco⟩ := hc
          have hg := hfd.good k c hk hce
          have := (hg.2.2.2 hco).1
          exact ⟨by rw [hext]; omega, hg.1⟩
        have hhead : ∃ tl, x3.tags = t :: tl := by
          apply lay_head (extent F) x3.tags t hlay3 (hsub3 t (by rw [hQ2]; simp))
          · intro x hx
            rcases hmem3 x hx with ho | hc
            · rw [hQ2, List.mem_cons] at ho
              rcases ho with rfl | ho
              · exact Or.inl rfl
              · exact Or.inr (hlayQ.1 x ho)
            · exact Or.inr (hchildD x hc).1
          · intro x hx
            rcases hmem3 x hx with ho | hc
            · exact w.extent_pos x (hOldW x ho)
            · exact w.extent_pos x (w.child t htW hip x hc)
        obtain ⟨tl, htl⟩ := hhead
        have hq : ({ x3 with pos := x3.pos + 1 } : R).tags.drop ({ x3 with pos := x3.pos + 1 } : R).pos = tl := by
          show x3.tags.drop (x3.pos + 1) = tl
          rw [hpos3, htl]; rfl
        have hlay3' := hlay3
        rw [htl] at hlay3'
        unfold LayS at hlay3'
        rw [List.pairwise_cons] at hlay3'
        have hmemtl : ∀ x ∈ tl, x ∈ r.tags.drop (r.pos + 1) ∨ IsEntry F t.childIfd t.off (ptrCount F t) x := by
          intro x hx
          have hx3 : x ∈ x3.tags := by rw [htl]; exact List.mem_cons_of_mem _ hx
          rcases hmem3 x hx3 with ho | hc
          · rw [hQ2, List.mem_cons] at ho
            rcases ho with rfl | ho
            · -- x = t would put t after itself
              have := hlay3'.1 x hx
              have := w.extent_pos x htW
              omega
            · exact Or.inl ho
          · exact Or.inr hc
        have hinv' : NInv tb ex0 F exl lim W { x3 with pos := x3.pos + 1 } := by
          refine ⟨⟨hc3.rest, hc3.le, hc3.small⟩, ⟨he3.reads, he3.ref⟩, hexl3.trans hx2, hlim3.trans hl2, ?_, ?_, ?_, ?_⟩
          · rw [hq]; exact hlay3'.2
          · rw [hq]; intro x hx
            rcases hmemtl x hx with ho | hc
            · exact inv.inW x (by rw [hdrop]; exact List.mem_cons_of_mem _ ho)
            · exact w.child t htW hip x hc
          · rw [hq]; intro x hx
            have := hlay3'.1 x hx
            show x3.po ≤ x.off
            omega
          · rw [hq]; intro q hq' hiq x hx
            have hqold : q ∈ r.tags.drop (r.pos + 1) := by
              rcases hmemtl q hq' with ho | hc
              · exact ho
              · exact absurd hiq.1 (hchildD q hc).2
            have hqW : W q := inv.inW q (by rw [hdrop]; exact List.mem_cons_of_mem _ hqold)
            rcases hmemtl x hx with ho | hc
            · exact inv.fresh q (by rw [hdrop]; exact List.mem_cons_of_mem _ hqold) hiq x (by rw [hdrop]; exact List.mem_cons_of_mem _ ho)
            · obtain ⟨k, _, hce, _⟩ := hc
              rw [entry_ifd _ _ _ _ hce]
              apply childType_ne t q hip hiq
              intro hid
              have heq := w.uniq t q htW hqW hip hiq hid
              have h1 := hlayQ.1 q hqold
              have h2 := w.extent_pos t htW
              rw [← heq] at h1
              omega
        obtain ⟨c', e', l1, l2, l3, l4⟩ := ih { x3 with pos := x3.pos + 1 } r' hinv' h
        rw [hq] at l2 l3 l4
        have l1' : ∀ x ∈ x3.parsed, x ∈ r'.parsed := l1
        have hparR : (resetPosition r1).parsed = r.parsed := (reset_keep r1).2.trans hkd.parsed
        have htl_of_rest : ∀ x ∈ r.tags.drop (r.pos + 1), x ∈ tl := by
          intro x hx
          have hx3 : x ∈ x3.tags := hsub3 x (by rw [hQ2]; exact List.mem_cons_of_mem _ hx)
          rw [htl, List.mem_cons] at hx3
          rcases hx3 with rfl | h'
          · have := hlayQ.1 x hx
            have := w.extent_pos x htW
            omega
          · exact h'
        refine ⟨c', e', fun x hx => l1' x (hpar3 x (by rw [hparR]; exact hx)), ?_, ?_, ?_⟩
        · intro x hx hxt
          rw [hdrop, List.mem_cons] at hx
          rcases hx with rfl | hx
          · exact absurd hip.1 hxt
          · exact l2 x (htl_of_rest x hx) hxt
        · intro p hp hipp c hc
          rw [hdrop, List.mem_cons] at hp
          rcases hp with rfl | hp
          · -- the children of t itself were queued and then parsed
            have hc3' : c ∈ x3.tags := hins3 c hc
            rw [htl, List.mem_cons] at hc3'
            rcases hc3' with rfl | h'
            · exact absurd hipp.1 (hchildD c hc).2
            · exact l2 c h' (hchildD c hc).2
          · exact l3 p (htl_of_rest p hp) hipp c hc
        · intro x hx
          rcases l4 x hx with h1' | h2' | ⟨p, hp, hipp, ha⟩
          · rcases hprov3 x h1' with h | h
            · exact Or.inl (by rw [← hparR]; exact h)
            · exact Or.inr (Or.inr ⟨t, by rw [hdrop]; simp, hip, h⟩)
          · rcases hmemtl x h2'.1 with h | h
            · exact Or.inr (Or.inl ⟨by rw [hdrop]; exact List.mem_cons_of_mem _ h, h2'.2⟩)
            · obtain ⟨k, hk, e, _⟩ := h
              exact Or.inr (Or.inr ⟨t, by rw [hdrop]; simp, hip, ⟨k, hk, e⟩⟩)
          · rcases hmemtl p hp with h | h
            · exact Or.inr (Or.inr ⟨p, by rw [hdrop]; exact List.mem_cons_of_mem _ h, hipp, ha⟩)
            · exact absurd hipp.1 (hchildD p h).2
      · -- the IFD1 pointer queued by readNextIfdTag: the loop only seeks to it
        obtain ⟨his, hsF, hsX⟩ := hs
        rw [if_pos his.1] at h
        have hk : ((t.off : Int) - r.po) = ((t.off - r.po : Nat) : Int) := by omega
        rw [hk] at h
        have hde := discard_exact inv.coh (t.off - r.po) (by omega) (by rw [inv.exl]; omega)
        have hcd := inv.coh.discard ((t.off - r.po : Nat) : Int)
        have hkd := Keep.discard r ((t.off - r.po : Nat) : Int)
        generalize hdd : Exif.discard r ((t.off - r.po : Nat) : Int) = pr at h hde hcd hkd
        obtain ⟨r1, e1⟩ := pr
        dsimp only at h hde hcd hkd
        have hpo1 : r1.po = t.off := by rw [hde.2]; omega
        obtain ⟨r3, h3, h⟩ := bind_ok h
        obtain ⟨hq2, hpos2, hrest2, hpo2, hexl2, hbuf2, hrd2⟩ := reset_queue r1
        have hQ2 : (resetPosition r1).tags = t :: r.tags.drop (r.pos + 1) := by rw [hq2, hkd.tags, hkd.pos, hdrop]
        have hc2 : Coh F (resetPosition r1) := ⟨by rw [hrest2, hpo2]; exact hcd.rest, by rw [hpo2]; exact hcd.le, hcd.small⟩
        have he2 : Exact tb ex0 F (resetPosition r1) :=
          inv.exact.transfer (hrd2.trans hkd.reads) ((reset_keep r1).1.trans hkd.ex) ((reset_keep r1).2.trans hkd.parsed)
        have hl2 : readLimit (resetPosition r1) = lim := by unfold readLimit; rw [hbuf2, hkd.buffered]; exact inv.lim
        have hx2 : (resetPosition r1).exifLength = exl := by rw [hexl2, hkd.exl]; exact inv.exl
        unfold Exif.ifdChild at h3
        rw [if_pos his.2.1, if_neg (by rw [his.2.2]; decide)] at h3
        simp only [Outcome.ok.injEq] at h3
        subst h3
        have hq : ({ resetPosition r1 with pos := (resetPosition r1).pos + 1 } : R).tags.drop
            ({ resetPosition r1 with pos := (resetPosition r1).pos + 1 } : R).pos = r.tags.drop (r.pos + 1) := by
          show (resetPosition r1).tags.drop ((resetPosition r1).pos + 1) = _
          rw [hQ2, hpos2]; rfl
        have hinv' : NInv tb ex0 F exl lim W { resetPosition r1 with pos := (resetPosition r1).pos + 1 } := by
          refine ⟨⟨hc2.rest, hc2.le, hc2.small⟩, ⟨he2.reads, he2.ref⟩, hx2, hl2, ?_, ?_, ?_, ?_⟩
          · rw [hq]; exact hlayQ.2
          · rw [hq]; intro x hx; exact inv.inW x (by rw [hdrop]; exact List.mem_cons_of_mem _ hx)
          · rw [hq]; intro x hx
            have := hlayQ.1 x hx
            show (resetPosition r1).po ≤ x.off
            rw [hpo2, hpo1]; omega
          · rw [hq]; intro p hp hip x hx
            exact inv.fresh p (by rw [hdrop]; exact List.mem_cons_of_mem _ hp) hip x (by rw [hdrop]; exact List.mem_cons_of_mem _ hx)
        obtain ⟨c', e', l1, l2, l3, l4⟩ := ih { resetPosition r1 with pos := (resetPosition r1).pos + 1 } r' hinv' h
        rw [hq] at l2 l3 l4
        have hparR : (resetPosition r1).parsed = r.parsed := (reset_keep r1).2.trans hkd.parsed
        have l1' : ∀ x ∈ (resetPosition r1).parsed, x ∈ r'.parsed := l1
        refine ⟨c', e', fun x hx => l1' x (by rw [hparR]; exact hx), ?_, ?_, ?_⟩
        · intro x hx hxt
          rw [hdrop, List.mem_cons] at hx
          rcases hx with rfl | hx
          · exact absurd his.1 hxt
          · exact l2 x hx hxt
        · intro p hp hipp c hc
          rw [hdrop, List.mem_cons] at hp
          rcases hp with rfl | hp
          · exfalso
            have := his.2.2
            rcases hipp.2.2 with h' | h' <;> omega
          · exact l3 p hp hipp c hc
        · intro x hx
          rcases l4 x hx with h1' | h2' | ⟨p, hp, hipp, ha⟩
          · exact Or.inl (by rw [← hparR]; exact h1')
          · exact Or.inr (Or.inl ⟨by rw [hdrop]; exact List.mem_cons_of_mem _ h2'.1, h2'.2⟩)
          · exact Or.inr (Or.inr ⟨p, by rw [hdrop]; exact List.mem_cons_of_mem _ hp, hipp, ha⟩)
    · rename_i hge
      simp only [Outcome.ok.injEq] at h; rw [← h]
      have hnil : r.tags.drop r.pos = [] := List.drop_eq_nil_of_le (by omega)
      refine ⟨inv.coh, inv.exact, fun x hx => hx, ?_, ?_, fun x hx => Or.inl hx⟩
      · intro x hx; rw [hnil] at hx; cases hx
      · intro p hp; rw [hnil] at hp; cases hp

/-- what the parse record of a complete run over a root directory contains -/
structure Complete (F : Bytes) (ifd : Ifd) (d cnt : Nat) (before after : List Tag) : Prop where
  mono : ∀ x ∈ before, x ∈ after
  vals : ∀ x, IsEntry F ifd d cnt x → x.typ ≠ tIfd → x ∈ after
  kids : ∀ p, IsEntry F ifd d cnt p → IsPtr p → ∀ c, IsEntry F p.childIfd p.off (ptrCount F p) c → c ∈ after
  prov : ∀ x ∈ after, x ∈ before ∨ AnyEntry F ifd d cnt x ∨
    ∃ p, IsEntry F ifd d cnt p ∧ IsPtr p ∧ AnyEntry F p.childIfd p.off (ptrCount F p) x

/-- readIfd on a root directory whose entries are value tags or pointers to flat Exif / GPS directories, everything in
a forward layout without overlap (`World`): coherent reader, every read exact, and the parse record is complete -/
theorem readIfd_nested {F : Bytes} {W : Tag → Prop} (tb : Tables) (fuel : Nat) (ifd : Ifd) (r r' : R) (e : Option ErrKind) (cnt : Nat)
    (w : World F r.exifLength (readLimit r) W)
    (hc : Coh F r) (he : Exact tb ex0 F r) (htags : r.tags = []) (hpos : r.pos = 0)
    (hroot : DirOK F ifd r.po cnt r.exifLength (readLimit r) (extent F))
    (hrootW : ∀ x, IsEntry F ifd r.po cnt x ∨ IsStubEntry F ifd r.po cnt x → W x)
    (h : readIfd tb fuel r ifd = .ok (r', e)) : Coh F r' ∧ Exact tb ex0 F r' ∧ Complete F ifd r.po cnt r.parsed r'.parsed := by
  unfold Exif.readIfd at h
  obtain ⟨p, hp, h⟩ := bind_ok h
  obtain ⟨r1, e1⟩ := p
  have hgen := readIfdHeader_gen (F := F) tb ifd r r1 e1 cnt (extent F) (fun _ => False) hc he hpos
    (by rw [htags]; unfold LayS; simp) (by rw [htags]; intro x hx; cases hx)
    (fun l hl hm => w.cap l hl (fun x hx => by rcases hm x hx with ho | hc'; exact absurd ho id; exact hrootW x hc'))
    hroot (fun x hx => absurd hx id) (fun _ _ hx => hx) hp
  obtain ⟨hc1, he1, hpo1, hpos1, hexl1, hlim1, hlay1, hmem1, _, hpar1, hprov1, hnone, hins1⟩ := hgen
  dsimp only at h
  subst hnone
  dsimp only at h
  obtain ⟨r2, h2, h⟩ := bind_ok h
  simp only [Outcome.ok.injEq, Prod.mk.injEq] at h; rw [← h.1]
  have hent : ∀ x ∈ r1.tags, IsEntry F ifd r.po cnt x ∨ IsStubEntry F ifd r.po cnt x := by
    intro x hx; rcases hmem1 x hx with ho | hc'; exact absurd ho id; exact hc'
  have hq : r1.tags.drop r1.pos = r1.tags := by rw [hpos1]; rfl
  have hinv : NInv tb ex0 F r.exifLength (readLimit r) W r1 := by
    refine ⟨hc1, he1, hexl1, hlim1, by rw [hq]; exact hlay1, by rw [hq]; exact fun x hx => hrootW x (hent x hx), ?_, ?_⟩
    · rw [hq]; intro x hx
      rcases hent x hx with ⟨k, hk, hke, hko⟩ | ⟨h0, nx, hnz, hu, rfl⟩
      · have := (hroot.good k x hk hke).2 hko
        omega
      · obtain ⟨nx', hu', hcase⟩ := hroot.next h0
        rw [hu] at hu'
        simp only [Outcome.ok.injEq] at hu'
        subst hu'
        rcases hcase with h00 | h00
        · exact absurd h00 hnz
        · show r1.po ≤ nx
          omega
    · rw [hq]; intro p hp hip x hx
      have hpi : p.ifd = ifd.typ := by
        rcases hent p hp with ⟨k', _, hke', _⟩ | ⟨h0, nx, _, _, rfl⟩
        · exact entry_ifd _ _ _ _ hke'
        · exact h0.symm
      have hxi : x.ifd = ifd.typ := by
        rcases hent x hx with ⟨k, _, hke, _⟩ | ⟨h0, nx, _, _, rfl⟩
        · exact entry_ifd _ _ _ _ hke
        · exact h0.symm
      rw [hxi, ← hpi, hip.2.1]
      exact childType_ne_ifd0 p hip
  obtain ⟨c', e', l1, l2, l3, l4⟩ := ifdLoop_nested w tb fuel r1 r2 hinv h2
  rw [hq] at l2 l3 l4
  refine ⟨c', e', fun x hx => l1 x (hpar1 x hx), fun x hx hxt => l2 x (hins1 x hx) hxt,
    fun p hp hip c hc => l3 p (hins1 p hp) hip c hc, ?_⟩
  intro x hx
  rcases l4 x hx with h1' | h2' | ⟨p, hp, hip, ha⟩
  · rcases hprov1 x h1' with h | h
    · exact Or.inl h
    · exact Or.inr (Or.inl h)
  · rcases hent x h2'.1 with ⟨k, hk, e, _⟩ | ⟨_, nx, _, _, rfl⟩
    · exact Or.inr (Or.inl ⟨k, hk, e⟩)
    · exact absurd rfl h2'.2
  · rcases hent p hp with hpe | ⟨_, nx, _, _, rfl⟩
    · exact Or.inr (Or.inr ⟨p, hpe, hip, ha⟩)
    · exfalso
      rcases hip.2.2 with h' | h'
      · have : (0x014a : Nat) = 0x8825 := h'
        omega
      · have : (0x014a : Nat) = 0x8769 := h'
        omega

/-- **A TIFF with IFD0, Exif and GPS directories in a forward layout is read exactly** (DecodeTiff on the whole file F) -/
theorem decodeTiff_nested (tb : Tables) (F : Bytes) (buffered : Bool) (h : Hdr) (cnt : Nat) (r' : R) (e : Option ErrKind)
    (W : Tag → Prop) (hsmall : F.length < 2 ^ 32)
    (w : World F (4 * 1024 * 1024) (if buffered then bufioSize else scratchSize) W)
    (hroot : DirOK F { off := 0, base := 0, order := h.order, typ := h.firstIfdType, idx := 0 } h.firstIfd cnt (4 * 1024 * 1024)
      (if buffered then bufioSize else scratchSize) (extent F))
    (hrootW : ∀ x, IsEntry F { off := 0, base := 0, order := h.order, typ := h.firstIfdType, idx := 0 } h.firstIfd cnt x ∨
      IsStubEntry F { off := 0, base := 0, order := h.order, typ := h.firstIfdType, idx := 0 } h.firstIfd cnt x → W x)
    (hres : decodeTiff tb F buffered h = .ok (r', e)) : Coh F r' ∧ Exact tb { imageType := h.imageType } F r' ∧
      Complete F { off := 0, base := 0, order := h.order, typ := h.firstIfdType, idx := 0 } h.firstIfd cnt [] r'.parsed := by
  unfold Exif.decodeTiff at hres
  dsimp only at hres
  have hc0 : Coh F { rest := F, po := 0, exifLength := 4 * 1024 * 1024, buffered := buffered, ex := { imageType := h.imageType } } :=
    ⟨by simp, Nat.zero_le _, hsmall⟩
  have he0 : Exact tb { imageType := h.imageType } F { rest := F, po := 0, exifLength := 4 * 1024 * 1024, buffered := buffered, ex := { imageType := h.imageType } } :=
    Exact.init tb F { rest := F, po := 0, exifLength := 4 * 1024 * 1024, buffered := buffered, ex := { imageType := h.imageType } } rfl rfl
  have hF := hroot.inFile
  have hX := hroot.inExif
  have hde := discard_exact hc0 h.firstIfd (by simp only; omega) (by simp only; omega)
  have hcd := hc0.discard (h.firstIfd : Int)
  have hkd := Keep.discard { rest := F, po := 0, exifLength := 4 * 1024 * 1024, buffered := buffered, ex := { imageType := h.imageType } } (h.firstIfd : Int)
  split at hres
  · simp only [Outcome.ok.injEq, Prod.mk.injEq] at hres
    rename_i r1 e1 hdd
    rw [hdd] at hde
    exact absurd hde.1 (by simp)
  · rename_i r1 hdd
    rw [hdd] at hcd hkd hde
    dsimp only at hde hcd hkd
    have hpo : r1.po = h.firstIfd := by rw [hde.2]; simp
    have hlim : readLimit r1 = (if buffered then bufioSize else scratchSize) := by unfold readLimit; rw [hkd.buffered]
    have := readIfd_nested tb _ _ r1 r' e cnt (by rw [hkd.exl, hlim]; exact w) hcd (he0.keep hkd)
      hkd.tags hkd.pos (by rw [hpo, hkd.exl, hlim]; exact hroot) (by rw [hpo]; exact hrootW) hres
    rw [hpo, hkd.parsed] at this
    exact this

/-- the same for DecodeJPEGIfd (JPEG APP1 payload F, Exif length from the segment) -/
theorem decodeJPEGIfd_nested (tb : Tables) (F : Bytes) (buffered : Bool) (h : Hdr) (cnt : Nat) (r' : R) (e : Option ErrKind)
    (W : Tag → Prop) (hsmall : F.length < 2 ^ 32)
    (w : World F h.exifLength (if buffered then bufioSize else scratchSize) W)
    (hroot : DirOK F { off := 0, base := 0, order := h.order, typ := h.firstIfdType, idx := 0 } h.firstIfd cnt h.exifLength
      (if buffered then bufioSize else scratchSize) (extent F))
    (hrootW : ∀ x, IsEntry F { off := 0, base := 0, order := h.order, typ := h.firstIfdType, idx := 0 } h.firstIfd cnt x ∨
      IsStubEntry F { off := 0, base := 0, order := h.order, typ := h.firstIfdType, idx := 0 } h.firstIfd cnt x → W x)
    (hres : decodeJPEGIfd tb F buffered h = .ok (r', e)) : Coh F r' ∧ Exact tb { imageType := h.imageType } F r' := by
  unfold Exif.decodeJPEGIfd at hres
  dsimp only at hres
  have hc0 : Coh F { rest := F, po := 0, exifLength := h.exifLength, buffered := buffered, ex := { imageType := h.imageType } } :=
    ⟨by simp, Nat.zero_le _, hsmall⟩
  have he0 : Exact tb { imageType := h.imageType } F { rest := F, po := 0, exifLength := h.exifLength, buffered := buffered, ex := { imageType := h.imageType } } :=
    Exact.init tb F { rest := F, po := 0, exifLength := h.exifLength, buffered := buffered, ex := { imageType := h.imageType } } rfl rfl
  have hF := hroot.inFile
  have hX := hroot.inExif
  have hde := discard_exact hc0 h.firstIfd (by simp only; omega) (by simp only; omega)
  have hcd := hc0.discard (h.firstIfd : Int)
  have hkd := Keep.discard { rest := F, po := 0, exifLength := h.exifLength, buffered := buffered, ex := { imageType := h.imageType } } (h.firstIfd : Int)
  generalize hdd : Exif.discard { rest := F, po := 0, exifLength := h.exifLength, buffered := buffered, ex := { imageType := h.imageType } } (h.firstIfd : Int) = pr at hres hde hcd hkd
  obtain ⟨r1, e1⟩ := pr
  dsimp only at hres hde hcd hkd
  have hpo : r1.po = h.firstIfd := by rw [hde.2]; simp
  have hlim : readLimit r1 = (if buffered then bufioSize else scratchSize) := by unfold readLimit; rw [hkd.buffered]
  obtain ⟨p2, h2, hres⟩ := bind_ok hres
  obtain ⟨r2, e2⟩ := p2
  have hn := readIfd_nested tb _ _ r1 r2 e2 cnt (by rw [hkd.exl, hlim]; exact w) hcd (he0.keep hkd)
    hkd.tags hkd.pos (by rw [hpo, hkd.exl, hlim]; exact hroot) (by rw [hpo]; exact hrootW) h2
  dsimp only at hres
  split at hres
  · simp only [Outcome.ok.injEq, Prod.mk.injEq] at hres; rw [← hres.1]; exact ⟨hn.1, hn.2.1⟩
  · simp only [Outcome.ok.injEq, Prod.mk.injEq] at hres; rw [← hres.1]
    exact ⟨hn.1.discard _, hn.2.1.keep (Keep.discard r2 _)⟩

/-- the same for DecodeIfd (CR3 CMT boxes): the stream starts at the first directory, F is the payload from its Tiff
header on -/
theorem decodeIfd_nested (tb : Tables) (F rest : Bytes) (buffered : Bool) (h : Hdr) (cnt : Nat) (r' : R) (e : Option ErrKind)
    (W : Tag → Prop) (hsmall : F.length < 2 ^ 32) (hrest : rest = F.drop h.firstIfd) (hfi : h.firstIfd ≤ F.length)
    (w : World F h.exifLength (if buffered then bufioSize else scratchSize) W)
    (hroot : DirOK F { off := 0, base := 0, order := h.order, typ := h.firstIfdType, idx := 0 } h.firstIfd cnt h.exifLength
      (if buffered then bufioSize else scratchSize) (extent F))
    (hrootW : ∀ x, IsEntry F { off := 0, base := 0, order := h.order, typ := h.firstIfdType, idx := 0 } h.firstIfd cnt x ∨
      IsStubEntry F { off := 0, base := 0, order := h.order, typ := h.firstIfdType, idx := 0 } h.firstIfd cnt x → W x)
    (hres : decodeIfd tb rest buffered h = .ok (r', e)) : Coh F r' ∧ Exact tb { imageType := h.imageType } F r' := by
  unfold Exif.decodeIfd at hres
  dsimp only at hres
  have hc0 : Coh F { rest := rest, po := h.firstIfd, exifLength := h.exifLength, buffered := buffered, ex := { imageType := h.imageType } } :=
    ⟨hrest, hfi, hsmall⟩
  have hlim : readLimit ({ rest := rest, po := h.firstIfd, exifLength := h.exifLength, buffered := buffered, ex := { imageType := h.imageType } } : R)
      = (if buffered then bufioSize else scratchSize) := rfl
  -- the model passes fuelFor rest; any fuel will do
  have := readIfd_nested tb _ _ _ r' e cnt (by rw [hlim]; exact w) hc0 (Exact.init tb F { rest := rest, po := h.firstIfd, exifLength := h.exifLength, buffered := buffered, ex := { imageType := h.imageType } } rfl rfl) rfl rfl (by rw [hlim]; exact hroot) hrootW hres
  exact ⟨this.1, this.2.1⟩

/-- the capacity condition of `World` for a layout given as a list of at most 83 tags -/
theorem cap_of_list (F : Bytes) (ws : List Tag) (hlen : ws.length ≤ 83) (W : Tag → Prop) (hW : ∀ x, W x → x ∈ ws)
    (hpos : ∀ x, W x → 0 < extent F x) : ∀ l : List Tag, LayS (extent F) l → (∀ x ∈ l, W x) → l.length ≤ 83 := by
  intro l hl hm
  have hnd : l.Nodup := by
    unfold LayS at hl
    unfold List.Nodup
    refine List.Pairwise.imp_of_mem ?_ hl
    intro a b ha _ hab heq
    have := hpos a (hm a ha)
    rw [← heq] at hab
    omega
  exact Nat.le_trans (hnd.length_le_of_subset (fun x hx => hW x (hm x hx))) hlen

end Imeta.Exif
